(* C20 — proofs about the mock-consumer model (ConsumerModel.v).
   Everything is stated over the history [list centry] that [crun] produces: the actions of the script with
   what each one returned, reported and threw away. *)
From Coq Require Import List ZArith Bool Lia.
From SV Require Import C20.ConsumerModel.
Import ListNotations.
Open Scope Z_scope.

(* ---------- keys and the association list ---------- *)
Lemma key_eqb_spec a b : reflect (a = b) (key_eqb a b).
Proof.
  destruct a as [a1 a2], b as [b1 b2]. unfold key_eqb; cbn [fst snd].
  destruct (Z.eqb_spec a1 b1), (Z.eqb_spec a2 b2); cbn; constructor; congruence.
Qed.
Lemma key_eqb_refl a : key_eqb a a = true.
Proof. destruct (key_eqb_spec a a); congruence. Qed.
Lemma key_eqb_neq a b : a <> b -> key_eqb a b = false.
Proof. destruct (key_eqb_spec a b); congruence. Qed.

Lemma find_upd k k0 v l :
  find k (upd k0 v l) = if key_eqb k k0 then match find k l with Some _ => Some v | None => None end else find k l.
Proof.
  induction l as [|[k' v'] r IH]; cbn.
  - destruct (key_eqb k k0); reflexivity.
  - destruct (key_eqb_spec k0 k') as [->|N0]; cbn.
    + destruct (key_eqb_spec k k') as [->|N]; reflexivity.
    + destruct (key_eqb_spec k k') as [->|N].
      * rewrite (key_eqb_neq k' k0) by congruence. reflexivity.
      * exact IH.
Qed.

Lemma find_app_new k k0 v l :
  find k (l ++ [(k0, v)]) = match find k l with Some x => Some x | None => if key_eqb k k0 then Some v else None end.
Proof. induction l as [|[k' v'] r IH]; cbn; [reflexivity|]. destruct (key_eqb k k'); auto. Qed.

Lemma find_close_all k l : find k (close_all l) = option_map close_pc (find k l).
Proof. induction l as [|[k' v'] r IH]; cbn; [reflexivity|]. destruct (key_eqb k k'); auto. Qed.

Lemma find_none_notin k l : find k l = None -> ~ In k (map fst l).
Proof.
  induction l as [|[k' v'] r IH]; cbn; [tauto|]. destruct (key_eqb_spec k k') as [->|N]; [discriminate|].
  intros H [E|E]; [congruence | exact (IH H E)].
Qed.

Lemma keys_upd k v l : map fst (upd k v l) = map fst l.
Proof. induction l as [|[k' v'] r IH]; cbn; [reflexivity|]. destruct (key_eqb k k'); cbn; congruence. Qed.
Lemma keys_close_all l : map fst (close_all l) = map fst l.
Proof. induction l as [|[k' v'] r IH]; cbn; congruence. Qed.

(* ---------- projections of a history onto one partition ---------- *)
Definition on_key {A} (k k' : key) (l : list A) : list A := if key_eqb k k' then l else [].
Definition dropk {A} (k : key) (l : list (key * A)) : list A := map snd (filter (fun x => key_eqb k (fst x)) l).

Lemma dropk_app {A} k (a b : list (key * A)) : dropk k (a ++ b) = dropk k a ++ dropk k b.
Proof. unfold dropk. rewrite filter_app, map_app. reflexivity. Qed.
Lemma dropk_tag {A} k k0 (l : list A) : dropk k (tag k0 l) = on_key k k0 l.
Proof.
  unfold dropk, tag, on_key. induction l as [|x r IH]; cbn; [destruct (key_eqb k k0); reflexivity|].
  destruct (key_eqb k k0); cbn in *; congruence.
Qed.

(* ids of the YieldMessage calls that returned (did not panic on a closed channel) *)
Definition acc1 (k : key) (e : centry) : list Z :=
  match t_act e, t_obs e with AYieldMsg k' id, ONone => on_key k k' [id] | _, _ => [] end.
(* ids of all YieldMessage calls made on the partition consumer *)
Definition ycall1 (k : key) (e : centry) : list Z :=
  match t_act e, t_obs e with
  | AYieldMsg k' id, ONoHandle => []
  | AYieldMsg k' id, _ => on_key k k' [id]
  | _, _ => []
  end.
(* messages taken out of the channel: received by the application, or drained by Close *)
Definition read1 (k : key) (e : centry) : list (Z * Z) :=
  match t_act e, t_obs e with AReadMsg k' , OMsg id _ _ o => on_key k k' [(id, o)] | _, _ => [] end.
Definition take1 (k : key) (e : centry) : list (Z * Z) := read1 k e ++ dropk k (t_dropm e).
(* errors *)
Definition eacc1 (k : key) (e : centry) : list Z :=
  match t_act e, t_obs e with AYieldErr k' x, ONone => on_key k k' [x] | _, _ => [] end.
Definition etake1 (k : key) (e : centry) : list Z :=
  match t_act e, t_obs e with
  | AReadErr k', OErrv x _ _ => on_key k k' [x]
  | AClosePC k', OClose _ es => on_key k k' es           (* Close returns what was left *)
  | _, _ => []
  end ++ dropk k (t_drope e).
Definition cons1 (k : key) (e : centry) : bool :=
  match t_act e, t_obs e with AConsume k' _, OConsume 0 => key_eqb k k' | _, _ => false end.
Definition exp1 (k : key) (e : centry) : list Z :=
  match t_act e with AExpect k' off => on_key k k' [off] | _ => [] end.

Definition accepted k tr := flat_map (acc1 k) tr.
Definition ycalls k tr := flat_map (ycall1 k) tr.
Definition reads k tr := flat_map (read1 k) tr.
Definition taken k tr := flat_map (take1 k) tr.
Definition eaccepted k tr := flat_map (eacc1 k) tr.
Definition etaken k tr := flat_map (etake1 k) tr.
Definition consumed_in k tr := existsb (cons1 k) tr.
Definition expects k tr := flat_map (exp1 k) tr.

Definition queue (k : key) (s : cst) : list (Z * Z) :=
  match find k (c_pcs s) with Some pc => pc_msgs pc | None => [] end.
Definition equeue (k : key) (s : cst) : list Z :=
  match find k (c_pcs s) with Some pc => pc_errs pc | None => [] end.

Fixpoint numbered (o : Z) (ids : list Z) : list (Z * Z) :=
  match ids with [] => [] | i :: r => (i, o) :: numbered (o + 1) r end.
Lemma numbered_app : forall a b o, numbered o (a ++ b) = numbered o a ++ numbered (o + Z.of_nat (length a)) b.
Proof.
  induction a as [|x a IH]; intros b o; cbn [app numbered length].
  - replace (o + Z.of_nat 0) with o by lia. reflexivity.
  - rewrite IH. do 3 f_equal. lia.
Qed.

(* ---------- the invariant ---------- *)
Record Inv (k : key) (s : cst) (tr : list centry) : Prop := {
  I_uniq : NoDup (map fst (c_pcs s));
  I_seq  : numbered 1 (accepted k tr) = taken k tr ++ queue k s;
  I_eseq : eaccepted k tr = etaken k tr ++ equeue k s;
  I_open : forall pc, find k (c_pcs s) = Some pc -> pc_closed pc = false -> accepted k tr = ycalls k tr;
  I_hwm  : forall pc, find k (c_pcs s) = Some pc -> pc_hwm pc = Z.of_nat (length (ycalls k tr));
  I_cons : forall pc, find k (c_pcs s) = Some pc -> pc_consumed pc = consumed_in k tr;
  I_off  : forall pc, find k (c_pcs s) = Some pc -> hd_error (expects k tr) = Some (pc_off pc);
  I_none : find k (c_pcs s) = None ->
           accepted k tr = [] /\ ycalls k tr = [] /\ eaccepted k tr = [] /\ consumed_in k tr = false /\ expects k tr = []
}.

Lemma inv_init k : Inv k cinit [].
Proof. constructor; cbn; try discriminate; auto. constructor. Qed.

Lemma close_all_dropm_notin k l : ~ In k (map fst l) -> dropk k (close_all_dropm l) = [].
Proof.
  induction l as [|[k' v'] r IH]; cbn [close_all_dropm close_all_drope map fst find]; [reflexivity|]. intros H. cbn in H. apply Decidable.not_or in H as [H1 H2]. rewrite dropk_app, IH by assumption.
  unfold dropped_msgs. destruct (pc_consumed v'); [|reflexivity]. rewrite dropk_tag. unfold on_key.
  rewrite key_eqb_neq; [reflexivity|]. congruence.
Qed.
Lemma close_all_drope_notin k l : ~ In k (map fst l) -> dropk k (close_all_drope l) = [].
Proof.
  induction l as [|[k' v'] r IH]; cbn [close_all_dropm close_all_drope map fst find]; [reflexivity|]. intros H. cbn in H. apply Decidable.not_or in H as [H1 H2]. rewrite dropk_app, IH by assumption.
  unfold dropped_errs. destruct (pc_consumed v'); [|reflexivity]. rewrite dropk_tag. unfold on_key.
  rewrite key_eqb_neq; [reflexivity|]. congruence.
Qed.

Lemma close_all_dropm_find k l : NoDup (map fst l) ->
  dropk k (close_all_dropm l) = match find k l with Some pc => if pc_consumed pc then pc_msgs pc else [] | None => [] end.
Proof.
  induction l as [|[k' v'] r IH]; cbn [close_all_dropm close_all_drope map fst find]; [reflexivity|]. intros H. inversion H as [|? ? Hn Hr]; subst.
  rewrite dropk_app. destruct (key_eqb_spec k k') as [->|N].
  - rewrite close_all_dropm_notin by assumption. rewrite app_nil_r. unfold dropped_msgs.
    destruct (pc_consumed v'); [|reflexivity]. rewrite dropk_tag. unfold on_key. rewrite key_eqb_refl. reflexivity.
  - rewrite IH by assumption. unfold dropped_msgs. destruct (pc_consumed v'); [|reflexivity].
    rewrite dropk_tag. unfold on_key. rewrite key_eqb_neq by assumption. reflexivity.
Qed.
Lemma close_all_drope_find k l : NoDup (map fst l) ->
  dropk k (close_all_drope l) = match find k l with Some pc => if pc_consumed pc then pc_errs pc else [] | None => [] end.
Proof.
  induction l as [|[k' v'] r IH]; cbn [close_all_dropm close_all_drope map fst find]; [reflexivity|]. intros H. inversion H as [|? ? Hn Hr]; subst.
  rewrite dropk_app. destruct (key_eqb_spec k k') as [->|N].
  - rewrite close_all_drope_notin by assumption. rewrite app_nil_r. unfold dropped_errs.
    destruct (pc_consumed v'); [|reflexivity]. rewrite dropk_tag. unfold on_key. rewrite key_eqb_refl. reflexivity.
  - rewrite IH by assumption. unfold dropped_errs. destruct (pc_consumed v'); [|reflexivity].
    rewrite dropk_tag. unfold on_key. rewrite key_eqb_neq by assumption. reflexivity.
Qed.

(* ---------- histories grow at the end ---------- *)
Lemma fm_snoc {A B} (f : A -> list B) tr e : flat_map f (tr ++ [e]) = flat_map f tr ++ f e.
Proof. rewrite flat_map_app. cbn. rewrite app_nil_r. reflexivity. Qed.
Lemma ex_snoc {A} (f : A -> bool) tr e : existsb f (tr ++ [e]) = existsb f tr || f e.
Proof. rewrite existsb_app. cbn. rewrite orb_false_r. reflexivity. Qed.

Lemma hd_error_app_some {A} (l l' : list A) x : hd_error l = Some x -> hd_error (l ++ l') = Some x.
Proof. destruct l; cbn; [discriminate | auto]. Qed.

(* a step that does not concern partition k *)
Lemma inv_frame k s s' tr e :
  Inv k s tr -> NoDup (map fst (c_pcs s')) -> find k (c_pcs s') = find k (c_pcs s) ->
  acc1 k e = [] -> ycall1 k e = [] -> take1 k e = [] -> eacc1 k e = [] -> etake1 k e = [] ->
  cons1 k e = false -> exp1 k e = [] ->
  Inv k s' (tr ++ [e]).
Proof.
  intros [U S E O H C Of N] U' F A1 Y1 T1 EA1 ET1 C1 X1.
  constructor; unfold accepted, ycalls, taken, eaccepted, etaken, consumed_in, expects, queue, equeue in *;
    rewrite ?fm_snoc, ?ex_snoc, ?A1, ?Y1, ?T1, ?EA1, ?ET1, ?C1, ?X1, ?app_nil_r, ?orb_false_r, ?F; auto.
Qed.

(* a step on the registered partition consumer of k *)
Lemma inv_update k s s' tr e pc pc' :
  Inv k s tr -> find k (c_pcs s) = Some pc -> find k (c_pcs s') = Some pc' -> NoDup (map fst (c_pcs s')) ->
  ((acc1 k e = [] /\ pc_msgs pc = take1 k e ++ pc_msgs pc') \/
   (pc_closed pc = false /\ take1 k e = [] /\ exists id, acc1 k e = [id] /\ pc_msgs pc' = pc_msgs pc ++ [(id, pc_hwm pc + 1)])) ->
  pc_errs pc ++ eacc1 k e = etake1 k e ++ pc_errs pc' ->
  pc_hwm pc' = pc_hwm pc + Z.of_nat (length (ycall1 k e)) ->
  (pc_closed pc' = false -> pc_closed pc = false /\ acc1 k e = ycall1 k e) ->
  pc_consumed pc' = pc_consumed pc || cons1 k e ->
  pc_off pc' = pc_off pc ->
  Inv k s' (tr ++ [e]).
Proof.
  intros [U S E O H C Of N] F F' U' Hm He Hh Ho Hc Hf.
  specialize (H _ F). specialize (C _ F). specialize (Of _ F).
  constructor; unfold accepted, ycalls, taken, eaccepted, etaken, consumed_in, expects, queue, equeue in *;
    rewrite ?fm_snoc, ?ex_snoc, ?F' in *; rewrite ?F in *; auto.
  - destruct Hm as [[A1 M]|(Cl & T1 & id & A1 & M)].
    + rewrite A1, app_nil_r, S, M. rewrite <- !app_assoc. reflexivity.
    + rewrite numbered_app, S, A1, T1, M, app_nil_r. cbn [numbered]. rewrite <- app_assoc. do 3 f_equal.
      rewrite (O _ eq_refl Cl), H. f_equal. lia.
  - rewrite E, <- !app_assoc. f_equal. rewrite <- He. reflexivity.
  - intros pc0 [= <-] Cl. destruct (Ho Cl) as [Cl0 A]. rewrite A, (O _ eq_refl Cl0). reflexivity.
  - intros pc0 [= <-]. rewrite Hh, H, app_length. lia.
  - intros pc0 [= <-]. rewrite Hc, C. reflexivity.
  - intros pc0 [= <-]. rewrite Hf. apply hd_error_app_some. exact Of.
  - discriminate.
Qed.

From Coq Require Import Permutation.
Lemma nodup_snoc {A} (l : list A) x : NoDup l -> ~ In x l -> NoDup (l ++ [x]).
Proof. intros H N. eapply Permutation_NoDup; [apply Permutation_cons_append|]. constructor; assumption. Qed.

Ltac brk := repeat match goal with |- context [match ?x with _ => _ end] => destruct x eqn:? end.

Lemma uniq_step s a : NoDup (map fst (c_pcs s)) -> NoDup (map fst (c_pcs (fst (cstep s a)))).
Proof.
  intros U. destruct a; unfold cstep, with_pc, set_pc; brk; cbn [fst c_pcs];
    rewrite ?keys_upd, ?keys_close_all; auto.
  rewrite map_app. cbn. apply nodup_snoc; [assumption | apply find_none_notin; assumption].
Qed.

Ltac proj_simpl :=
  unfold acc1, ycall1, take1, read1, eacc1, etake1, cons1, exp1, entry, close_ret, dropped_msgs, dropped_errs;
  cbn [t_act t_obs t_dropm t_drope t_rep];
  repeat match goal with |- context [if ?b then _ else _] => destruct b eqn:? end;
  repeat match goal with |- context [match ?x with _ => _ end] => destruct x eqn:? end;
  rewrite ?dropk_tag; unfold on_key; cbn [dropk filter map app].

Ltac other_key I Hne :=
  unfold cstep, with_pc, set_pc; brk; cbn [fst snd c_pcs]; intros U';
  (eapply inv_frame; [exact I | exact U' | cbn [c_pcs]; rewrite ?find_upd, ?find_app_new, ?(key_eqb_neq _ _ Hne); try reflexivity;
                                             try (destruct (find _ (c_pcs _)); reflexivity) | ..];
   proj_simpl; rewrite ?(key_eqb_neq _ _ Hne); reflexivity).

(* the state is unchanged and the entry says nothing about k *)
Ltac same_state I U' :=
  eapply inv_frame; [exact I | exact U' | reflexivity | ..]; proj_simpl; rewrite ?key_eqb_refl; reflexivity.

Ltac rec_simpl := cbn [pc_off pc_hwm pc_msgs pc_errs pc_consumed pc_closed pc_mdrain pc_edrain close_pc negb].

(* the partition consumer of k is replaced; generic side conditions *)
Ltac upd_pc I U' F :=
  eapply inv_update;
  [ exact I | exact F | cbn [c_pcs]; rewrite ?find_upd, ?key_eqb_refl, ?F; reflexivity | exact U' | .. ].

Ltac fin := rewrite ?key_eqb_refl; rec_simpl; rewrite ?app_nil_r, ?orb_false_r, ?orb_true_r; cbn [app length Z.of_nat];
  repeat match goal with H : _ = _ :: _ |- _ => rewrite H end;
  repeat match goal with H : _ = [] |- _ => rewrite H end;
  rewrite ?app_nil_r; try reflexivity; try lia.
Ltac solve_hm :=
  first [ solve [left; split; proj_simpl; fin]
        | solve [right; split; [assumption|]; split; [proj_simpl; fin|]; eexists; split; proj_simpl; fin] ].
Ltac solve_ho :=
  let H := fresh in intros H; try discriminate H; split; [assumption | proj_simpl; fin].
Ltac upd_auto I U' F :=
  upd_pc I U' F; rec_simpl; first [ reflexivity | solve_hm | solve [solve_ho] | solve [proj_simpl; fin] ].

Lemma inv_step k s tr a : Inv k s tr -> Inv k (fst (cstep s a)) (tr ++ [snd (cstep s a)]).
Proof.
  intros I. pose proof (uniq_step s a (I_uniq _ _ _ I)) as U'. revert U'.
  destruct a as [k0 off|k0 id|k0 x|k0|k0|k0 off|k0|k0|k0|k0|k0| |m| |t| ].
  - (* AExpect *) destruct (key_eqb_spec k k0) as [<-|Hne]; [|other_key I Hne].
    unfold cstep, with_pc, set_pc; brk; cbn [fst snd c_pcs]; intros U'.
    + upd_pc I U' Heqo; try (proj_simpl; rewrite ?app_nil_r, ?orb_false_r; cbn; auto; lia).
    + destruct I as [U S E O H C Of N]. destruct (N Heqo) as (A & Y & EA & Cn & X).
      unfold accepted, ycalls, taken, eaccepted, etaken, consumed_in, expects, queue, equeue in *.
      rewrite Heqo, A, EA, app_nil_r in *. cbn [numbered] in S. symmetry in S, E.
      constructor; unfold accepted, ycalls, taken, eaccepted, etaken, consumed_in, expects, queue, equeue;
        rewrite ?fm_snoc, ?ex_snoc; cbn [c_pcs]; rewrite ?find_app_new, ?Heqo, ?key_eqb_refl, ?A, ?Y, ?EA, ?Cn, ?X, ?S, ?E;
        try exact U'; try discriminate; proj_simpl; rewrite ?key_eqb_refl; try reflexivity;
        intros pc0 [= <-]; try reflexivity.
  - (* AYieldMsg *) destruct (key_eqb_spec k k0) as [<-|Hne]; [|other_key I Hne].
    unfold cstep, with_pc, set_pc; brk; cbn [fst snd c_pcs]; intros U'.
    + upd_auto I U' Heqo.
    + upd_auto I U' Heqo.
    + same_state I U'.
  - destruct (key_eqb_spec k k0) as [<-|Hne]; [|other_key I Hne].
    unfold cstep, with_pc, set_pc; brk; cbn [fst snd c_pcs]; intros U';
      first [ same_state I U' | upd_auto I U' Heqo ].
  - destruct (key_eqb_spec k k0) as [<-|Hne]; [|other_key I Hne].
    unfold cstep, with_pc, set_pc; brk; cbn [fst snd c_pcs]; intros U';
      first [ same_state I U' | upd_auto I U' Heqo ].
  - destruct (key_eqb_spec k k0) as [<-|Hne]; [|other_key I Hne].
    unfold cstep, with_pc, set_pc; brk; cbn [fst snd c_pcs]; intros U';
      first [ same_state I U' | upd_auto I U' Heqo ].
  - destruct (key_eqb_spec k k0) as [<-|Hne]; [|other_key I Hne].
    unfold cstep, with_pc, set_pc; brk; cbn [fst snd c_pcs]; intros U';
      first [ same_state I U' | upd_auto I U' Heqo ].
  - destruct (key_eqb_spec k k0) as [<-|Hne]; [|other_key I Hne].
    unfold cstep, with_pc, set_pc; brk; cbn [fst snd c_pcs]; intros U';
      first [ same_state I U' | upd_auto I U' Heqo ].
  - destruct (key_eqb_spec k k0) as [<-|Hne]; [|other_key I Hne].
    unfold cstep, with_pc, set_pc; brk; cbn [fst snd c_pcs]; intros U';
      first [ same_state I U' | upd_auto I U' Heqo ].
  - destruct (key_eqb_spec k k0) as [<-|Hne]; [|other_key I Hne].
    unfold cstep, with_pc, set_pc; brk; cbn [fst snd c_pcs]; intros U';
      first [ same_state I U' | upd_auto I U' Heqo ].
  - destruct (key_eqb_spec k k0) as [<-|Hne]; [|other_key I Hne].
    unfold cstep, with_pc, set_pc; brk; cbn [fst snd c_pcs]; intros U'; [| same_state I U'].
    unfold close_pc in *; destruct (pc_consumed p) eqn:Cn; cbn [negb] in *; upd_pc I U' Heqo; rec_simpl; unfold close_ret, dropped_msgs; rewrite ?Cn; cbn [negb]; first [ reflexivity | solve_hm | solve [solve_ho] | solve [proj_simpl; fin] | solve [destruct (pc_errs p) eqn:Er; proj_simpl; fin] ].
  - destruct (key_eqb_spec k k0) as [<-|Hne]; [|other_key I Hne].
    unfold cstep, with_pc, set_pc; brk; cbn [fst snd c_pcs]; intros U';
      first [ same_state I U' | upd_auto I U' Heqo ].
  - (* ACloseAll *) unfold cstep; cbn [fst snd]; intros U'.
    pose proof (close_all_dropm_find k _ (I_uniq _ _ _ I)) as Dm.
    pose proof (close_all_drope_find k _ (I_uniq _ _ _ I)) as De.
    destruct (find k (c_pcs s)) as [p|] eqn:F.
    + eapply inv_update; [exact I | exact F | cbn [c_pcs]; rewrite find_close_all, F; reflexivity | exact U' | ..];
        unfold acc1, ycall1, take1, read1, eacc1, etake1, cons1, exp1; cbn [t_act t_obs t_dropm t_drope app]; rewrite ?Dm, ?De;
        unfold close_pc; destruct (pc_consumed p) eqn:Cn; rec_simpl; rewrite ?app_nil_r, ?orb_false_r; auto; try lia.
      all: cbn [length Z.of_nat]; lia.
    + eapply inv_frame; [exact I | exact U' | cbn [c_pcs]; rewrite find_close_all, F; reflexivity | ..];
        unfold acc1, ycall1, take1, read1, eacc1, etake1, cons1, exp1; cbn [t_act t_obs t_dropm t_drope app]; rewrite ?Dm, ?De; reflexivity.
  - unfold cstep; brk; cbn [fst snd]; intros U'; (eapply inv_frame; [exact I | exact U' | reflexivity | ..]); reflexivity.
  - unfold cstep; brk; cbn [fst snd]; intros U'; (eapply inv_frame; [exact I | exact U' | reflexivity | ..]); reflexivity.
  - unfold cstep; brk; cbn [fst snd]; intros U'; (eapply inv_frame; [exact I | exact U' | reflexivity | ..]); reflexivity.
  - unfold cstep; brk; cbn [fst snd]; intros U'; (eapply inv_frame; [exact I | exact U' | reflexivity | ..]); reflexivity.
Qed.

Lemma inv_run k : forall acts s tr, Inv k s tr -> Inv k (fst (crun s acts)) (tr ++ snd (crun s acts)).
Proof.
  induction acts as [|a r IH]; intros s tr H; cbn [crun].
  - cbn. rewrite app_nil_r. assumption.
  - pose proof (inv_step k s tr a H) as H1. destruct (cstep s a) as [s1 e]. cbn [fst snd] in H1.
    specialize (IH s1 (tr ++ [e]) H1). destruct (crun s1 r) as [s2 es]. cbn [fst snd] in *.
    rewrite <- app_assoc in IH. exact IH.
Qed.

Lemma inv_reachable k acts : Inv k (fst (crun cinit acts)) (snd (crun cinit acts)).
Proof. exact (inv_run k acts cinit [] (inv_init k)). Qed.

(* ---------- the sequence theorem ---------- *)
(* Per partition, at any point of any script: the messages whose YieldMessage call returned, numbered 1, 2, 3, ...
   in yield order, are exactly those taken out of the channel so far (received by the application or drained by
   Close, in that temporal order) followed by those still buffered; same for the errors (taken = received,
   returned by PartitionConsumer.Close, or drained by Consumer.Close). *)
Theorem consumer_sequence acts k :
  let s := fst (crun cinit acts) in
  let tr := snd (crun cinit acts) in
  numbered 1 (accepted k tr) = taken k tr ++ queue k s /\
  eaccepted k tr = etaken k tr ++ equeue k s.
Proof. cbn zeta. destruct (inv_reachable k acts) as [U S E O H C Of N]. auto. Qed.

(* every message the application receives carries the topic/partition of its partition consumer *)
Lemma t_act_step s a : t_act (snd (cstep s a)) = a.
Proof. destruct a; unfold cstep, with_pc; brk; reflexivity. Qed.

Lemma crun_split : forall acts s tr1 e tr2, snd (crun s acts) = tr1 ++ e :: tr2 ->
  exists acts1 a acts2, acts = acts1 ++ a :: acts2 /\ snd (crun s acts1) = tr1 /\
                        e = snd (cstep (fst (crun s acts1)) a).
Proof.
  induction acts as [|a r IH]; intros s tr1 e tr2 H; cbn [crun] in H.
  - destruct tr1; discriminate H.
  - destruct (cstep s a) as [s1 e1] eqn:E1. destruct (crun s1 r) as [s2 es] eqn:E2. cbn [snd] in H.
    destruct tr1 as [|x tr1]; cbn [app] in H.
    + injection H as <- <-. exists [], a, r. cbn. rewrite E1. auto.
    + injection H as <- H. specialize (IH s1 tr1 e tr2). rewrite E2 in IH. destruct (IH H) as (a1 & b & a2 & -> & T & X).
      exists (a :: a1), b, a2. cbn [app crun]. rewrite E1. destruct (crun s1 a1) as [s3 es3]. cbn [fst snd] in *.
      subst. auto.
Qed.

(* HighWaterMarkOffset() is one more than the number of YieldMessage calls made so far on the partition consumer;
   while the channels are open every such call returned, so it is the offset of the last yielded message plus one *)
Theorem consumer_hwm acts k tr1 e tr2 v :
  snd (crun cinit acts) = tr1 ++ e :: tr2 -> t_act e = AHwm k -> t_obs e = OHwm v ->
  v = 1 + Z.of_nat (length (ycalls k tr1)).
Proof.
  intros H A Ob. destruct (crun_split _ _ _ _ _ H) as (a1 & a & a2 & -> & T & X).
  pose proof (inv_reachable k a1) as I. rewrite T in I.
  rewrite X, t_act_step in A. subst a. rewrite X in Ob. unfold cstep, with_pc in Ob.
  destruct (find k (c_pcs (fst (crun cinit a1)))) as [pc|] eqn:F; cbn in Ob; [|discriminate].
  injection Ob as <-. rewrite (I_hwm _ _ _ I _ F). lia.
Qed.

Theorem consumer_open_all_yields_accepted acts k pc :
  find k (c_pcs (fst (crun cinit acts))) = Some pc -> pc_closed pc = false ->
  accepted k (snd (crun cinit acts)) = ycalls k (snd (crun cinit acts)).
Proof. intros F C. exact (I_open _ _ _ (inv_reachable k acts) _ F C). Qed.

(* ---------- the reporter ---------- *)
Inductive close_cause (k : key) (pc : pcst) : crep -> Prop :=
| cc_not_started : pc_consumed pc = false -> close_cause k pc (CRNotStarted k)
| cc_errs : pc_consumed pc = true -> pc_edrain pc = true -> pc_errs pc <> [] ->
            close_cause k pc (CRErrsLeft k (Z.of_nat (length (pc_errs pc))))
| cc_msgs : pc_consumed pc = true -> pc_mdrain pc = true -> pc_msgs pc <> [] ->
            close_cause k pc (CRMsgsLeft k (Z.of_nat (length (pc_msgs pc)))).

(* the complete list of what the mock consumer reports, each with the condition under which it does *)
Inductive cause (s : cst) : cact -> crep -> Prop :=
| cause_unexpected k off : find k (c_pcs s) = None -> cause s (AConsume k off) (CRNoExp k)
| cause_offset k off pc : find k (c_pcs s) = Some pc -> pc_consumed pc = false ->
    pc_off pc <> any_offset -> pc_off pc <> off -> cause s (AConsume k off) (CROffset k (pc_off pc) off)
| cause_close k pc r : find k (c_pcs s) = Some pc -> close_cause k pc r -> cause s (AClosePC k) r
| cause_close_all k pc r : In (k, pc) (c_pcs s) -> close_cause k pc r -> cause s ACloseAll r
| cause_topics : c_meta s = None -> cause s ATopics CRTopicsNoMeta
| cause_parts t : c_meta s = None -> cause s (APartitions t) CRPartsNoMeta.

Lemma len0 {A} (l : list A) : length l = 0%nat <-> l = [].
Proof. destruct l; cbn; split; congruence. Qed.

Lemma close_reports_cause k pc r : In r (close_reports k pc) <-> close_cause k pc r.
Proof.
  unfold close_reports. split.
  - destruct (pc_consumed pc) eqn:C; cbn [negb].
    + rewrite in_app_iff. intros [H|H].
      * destruct (pc_edrain pc) eqn:D; cbn [andb] in H; [|destruct H].
        destruct (Nat.eqb_spec (length (pc_errs pc)) 0) as [E|E]; cbn [negb] in H; [destruct H|].
        destruct H as [<-|[]]. apply cc_errs; auto. intro X. apply E. apply len0. exact X.
      * destruct (pc_mdrain pc) eqn:D; cbn [andb] in H; [|destruct H].
        destruct (Nat.eqb_spec (length (pc_msgs pc)) 0) as [E|E]; cbn [negb] in H; [destruct H|].
        destruct H as [<-|[]]. apply cc_msgs; auto. intro X. apply E. apply len0. exact X.
    + intros [<-|[]]. apply cc_not_started. exact C.
  - intros [C|C D E|C D E]; rewrite C; cbn [negb]; [left; reflexivity | |]; rewrite in_app_iff, D; cbn [andb].
    + left. destruct (Nat.eqb_spec (length (pc_errs pc)) 0) as [X|X]; [apply len0 in X; contradiction|]. left. reflexivity.
    + right. destruct (Nat.eqb_spec (length (pc_msgs pc)) 0) as [X|X]; [apply len0 in X; contradiction|]. left. reflexivity.
Qed.

Lemma close_all_reports_cause l r :
  In r (close_all_reports l) <-> exists k pc, In (k, pc) l /\ close_cause k pc r.
Proof.
  induction l as [|[k pc] t IH]; cbn [close_all_reports].
  - split; [intros [] | intros (? & ? & [] & _)].
  - rewrite in_app_iff, IH, close_reports_cause. split.
    + intros [H|(k' & pc' & H & H')]; [exists k, pc; cbn; auto | exists k', pc'; cbn; auto].
    + intros (k' & pc' & [E|H] & H'); [injection E as <- <-; auto | right; eauto].
Qed.

(* the reporter is called for, and only for, the causes listed in [cause] *)
Theorem consumer_reports_exact s a r : In r (t_rep (snd (cstep s a))) <-> cause s a r.
Proof.
  split.
  - destruct a; unfold cstep, with_pc; brk; cbn [snd t_rep entry]; try solve [intros []].
    + intros [<-|[]]. apply andb_prop in Heqb0 as [X Y]. apply negb_true_iff in X, Y.
      apply Z.eqb_neq in X, Y. eapply cause_offset; eauto.
    + intros [<-|[]]. apply cause_unexpected. assumption.
    + intros H. eapply cause_close; [eassumption|]. apply close_reports_cause. exact H.
    + intros H. apply close_all_reports_cause in H as (k & pc & H & H'). eapply cause_close_all; eauto.
    + intros [<-|[]]. apply cause_topics. assumption.
    + intros [<-|[]]. apply cause_parts. assumption.
  - intros [k off F|k off pc F C A X|k pc r' F H|k pc r' F H|M|t M]; unfold cstep, with_pc; rewrite ?F, ?C, ?M; cbn [snd t_rep entry].
    + left; reflexivity.
    + apply Z.eqb_neq in A, X. rewrite A, X. left; reflexivity.
    + apply close_reports_cause. exact H.
    + apply close_all_reports_cause. eauto.
    + left; reflexivity.
    + left; reflexivity.
Qed.

(* ---------- what the application itself receives is a gap-free prefix ---------- *)
Definition dropped k tr := flat_map (fun e => dropk k (t_dropm e)) tr.

(* once Close has thrown messages away the channel is closed and empty for good *)
Definition K (k : key) (s : cst) (tr : list centry) : Prop :=
  taken k tr = reads k tr ++ dropped k tr /\
  (dropped k tr = [] \/ exists pc, find k (c_pcs s) = Some pc /\ pc_msgs pc = [] /\ pc_closed pc = true).

Lemma K_frame k s s' tr e :
  K k s tr -> find k (c_pcs s') = find k (c_pcs s) -> read1 k e = [] -> dropk k (t_dropm e) = [] -> K k s' (tr ++ [e]).
Proof.
  intros [T D] F R X. unfold K, taken, reads, dropped, take1 in *. rewrite !fm_snoc, R, X, !app_nil_r, F. auto.
Qed.

Lemma K_update k s s' tr e pc pc' :
  K k s tr -> find k (c_pcs s) = Some pc -> find k (c_pcs s') = Some pc' ->
  ((read1 k e = [] /\ dropk k (t_dropm e) = [] /\ (pc_msgs pc = [] -> pc_closed pc = true -> pc_msgs pc' = [] /\ pc_closed pc' = true)) \/
   (exists x, read1 k e = [x] /\ dropk k (t_dropm e) = [] /\ pc_msgs pc = x :: pc_msgs pc') \/
   (read1 k e = [] /\ dropk k (t_dropm e) = pc_msgs pc /\ pc_msgs pc' = [] /\ pc_closed pc' = true)) ->
  K k s' (tr ++ [e]).
Proof.
  intros [T D] F F' H. unfold K, taken, reads, dropped, take1 in *. rewrite !fm_snoc, F'. rewrite F in D.
  destruct H as [(R & X & P)|[(x & R & X & M)|(R & X & M & C)]]; rewrite R, X, ?app_nil_r.
  - split; [exact T|]. destruct D as [D|(pc0 & [= <-] & M & C)]; [left; exact D|]. right. exists pc'. destruct (P M C). auto.
  - destruct D as [D|(pc0 & [= <-] & M' & C)]; [|rewrite M' in M; discriminate].
    rewrite D, app_nil_r in *. rewrite T. auto.
  - split; [rewrite T, <- !app_assoc; reflexivity|]. right. exists pc'. auto.
Qed.

Ltac k_upd Kk F :=
  eapply K_update; [exact Kk | exact F | cbn [c_pcs]; rewrite ?find_upd, ?key_eqb_refl, ?F; reflexivity | ].

Lemma K_step k s tr a : Inv k s tr -> K k s tr -> K k (fst (cstep s a)) (tr ++ [snd (cstep s a)]).
Proof.
  intros I Kk.
  destruct a as [k0 off|k0 id|k0 x|k0|k0|k0 off|k0|k0|k0|k0|k0| |m| |t| ].
  all: try (destruct (key_eqb_spec k k0) as [<-|Hne];
    [| unfold cstep, with_pc, set_pc; brk; cbn [fst snd c_pcs];
       (eapply K_frame; [exact Kk | cbn [c_pcs]; rewrite ?find_upd, ?find_app_new, ?(key_eqb_neq _ _ Hne); try reflexivity;
                                      try (destruct (find _ (c_pcs _)); reflexivity) | ..];
        proj_simpl; rewrite ?(key_eqb_neq _ _ Hne); reflexivity) ]).
  all: try (unfold cstep, with_pc, set_pc; brk; cbn [fst snd c_pcs];
            first [ solve [eapply K_frame; [exact Kk | reflexivity | ..]; proj_simpl; rewrite ?key_eqb_refl; reflexivity]
                  | solve [k_upd Kk Heqo; left; rec_simpl; repeat split; try (proj_simpl; rewrite ?key_eqb_refl; reflexivity); congruence]
                  | idtac ]).
  - (* AExpect, new registration *)
    destruct Kk as [T D]. unfold K, taken, reads, dropped, take1 in *. rewrite !fm_snoc. cbn [read1 t_act t_obs t_dropm entry dropk filter map app].
    rewrite !app_nil_r. split; [exact T|]. left. destruct D as [D|(pc & F & _)]; [exact D | congruence].
  - (* AReadMsg *) k_upd Kk Heqo. right. left. exists (z, z0). rec_simpl. repeat split; try assumption; proj_simpl; rewrite ?key_eqb_refl; reflexivity.
  - (* AClosePC *) k_upd Kk Heqo. unfold close_pc, dropped_msgs. destruct (pc_consumed p) eqn:Cn; cbn [negb].
    + right. right. rec_simpl. repeat split; proj_simpl; rewrite ?key_eqb_refl; reflexivity.
    + left. repeat split; try (proj_simpl; reflexivity); assumption.
  - (* ACloseAll *)
    pose proof (close_all_dropm_find k _ (I_uniq _ _ _ I)) as Dm.
    destruct (find k (c_pcs s)) as [p|] eqn:F.
    + eapply K_update; [exact Kk | exact F | cbn [c_pcs]; rewrite find_close_all, F; reflexivity |].
      cbn [t_dropm]. rewrite Dm. unfold close_pc. destruct (pc_consumed p) eqn:Cn; cbn [negb].
      * right. right. rec_simpl. auto.
      * left. auto.
    + eapply K_frame; [exact Kk | cbn [c_pcs]; rewrite find_close_all, F; reflexivity | reflexivity | cbn [t_dropm]; rewrite Dm; reflexivity].
Qed.

Lemma K_run k : forall acts s tr, Inv k s tr -> K k s tr -> K k (fst (crun s acts)) (tr ++ snd (crun s acts)).
Proof.
  induction acts as [|a r IH]; intros s tr H Kk; cbn [crun].
  - cbn. rewrite app_nil_r. assumption.
  - pose proof (inv_step k s tr a H) as H1. pose proof (K_step k s tr a H Kk) as K1.
    destruct (cstep s a) as [s1 e]. cbn [fst snd] in *.
    specialize (IH s1 (tr ++ [e]) H1 K1). destruct (crun s1 r) as [s2 es]. cbn [fst snd] in *.
    rewrite <- app_assoc in IH. exact IH.
Qed.

(* what the application has received from a partition is a prefix, without gaps, of the yielded messages
   numbered 1, 2, 3, ...: the rest was drained by a Close or is still buffered *)
Theorem consumer_reads_prefix acts k :
  let s := fst (crun cinit acts) in
  let tr := snd (crun cinit acts) in
  numbered 1 (accepted k tr) = reads k tr ++ dropped k tr ++ queue k s.
Proof.
  cbn zeta. assert (K0 : K k cinit []) by (split; [reflexivity | left; reflexivity]).
  destruct (K_run k acts cinit [] (inv_init k) K0) as [T _]. cbn [app] in T.
  destruct (consumer_sequence acts k) as [S _]. cbn zeta in S. rewrite S, T, <- app_assoc. reflexivity.
Qed.

(* ---------- reports in terms of the script's history ---------- *)
Lemma in_find k pc l : NoDup (map fst l) -> (In (k, pc) l <-> find k l = Some pc).
Proof.
  induction l as [|[k' v'] r IH]; cbn [In find map fst]; intros H; [split; [tauto|discriminate]|].
  inversion H as [|? ? Hn Hr]; subst. destruct (key_eqb_spec k k') as [->|N].
  - split; [intros [E|E]; [congruence|] | intros [= ->]; auto]. exfalso. apply Hn. change k' with (fst (k', pc)). apply in_map. exact E.
  - rewrite <- (IH Hr). split; [intros [E|E]; [congruence|exact E] | auto].
Qed.

(* Consumer.Close reports "expectations set but no partition consumer was started" for exactly the partitions that
   were registered (ExpectConsumePartition) and for which no ConsumePartition call succeeded *)
Theorem consumer_never_consumed acts k :
  let s := fst (crun cinit acts) in
  let tr := snd (crun cinit acts) in
  In (CRNotStarted k) (t_rep (snd (cstep s ACloseAll))) <-> (expects k tr <> [] /\ consumed_in k tr = false).
Proof.
  cbn zeta. pose proof (inv_reachable k acts) as I. rewrite consumer_reports_exact. split.
  - intros H. inversion H as [| | |k' pc r' F Hc| |]; subst. inversion Hc as [C| |]; subst.
    apply (in_find _ _ _ (I_uniq _ _ _ I)) in F. split.
    + pose proof (I_off _ _ _ I _ F) as X. destruct (expects k _); [discriminate|congruence].
    + rewrite <- (I_cons _ _ _ I _ F). exact C.
  - intros [X C]. destruct (find k (c_pcs (fst (crun cinit acts)))) as [pc|] eqn:F.
    + eapply cause_close_all; [apply (in_find _ _ _ (I_uniq _ _ _ I)); exact F|]. apply cc_not_started.
      rewrite (I_cons _ _ _ I _ F). exact C.
    + destruct (I_none _ _ _ I F) as (_ & _ & _ & _ & E). contradiction.
Qed.

(* ConsumePartition(k, off) after the script [acts] reports a wrong offset exactly when k is registered with a first
   expected offset other than AnyOffset and other than off, and has not been consumed yet; it reports an unexpected
   partition exactly when k was never registered *)
Theorem consumer_consume_reports acts k off r :
  let s := fst (crun cinit acts) in
  let tr := snd (crun cinit acts) in
  In r (t_rep (snd (cstep s (AConsume k off)))) <->
  (r = CRNoExp k /\ expects k tr = []) \/
  (exists exp, r = CROffset k exp off /\ hd_error (expects k tr) = Some exp /\ consumed_in k tr = false /\
               exp <> any_offset /\ exp <> off).
Proof.
  cbn zeta. pose proof (inv_reachable k acts) as I. rewrite consumer_reports_exact. split.
  - intros H. inversion H as [k' o F|k' o pc F C A X| | | |]; subst.
    + left. split; [reflexivity|]. apply (I_none _ _ _ I F).
    + right. exists (pc_off pc). repeat split; auto. apply (I_off _ _ _ I _ F). rewrite <- (I_cons _ _ _ I _ F). exact C.
  - intros [[-> E]|(exp & -> & Hd & C & A & X)].
    + destruct (find k (c_pcs (fst (crun cinit acts)))) as [pc|] eqn:F; [|apply cause_unexpected; exact F].
      pose proof (I_off _ _ _ I _ F) as Y. rewrite E in Y. discriminate.
    + destruct (find k (c_pcs (fst (crun cinit acts)))) as [pc|] eqn:F.
      * pose proof (I_off _ _ _ I _ F) as Y. rewrite Hd in Y. injection Y as ->.
        apply cause_offset; auto. rewrite (I_cons _ _ _ I _ F). exact C.
      * destruct (I_none _ _ _ I F) as (_ & _ & _ & _ & E). rewrite E in Hd. discriminate.
Qed.

(* ---------- non-vacuity ---------- *)
Example c20_consumer_example :
  let k := (0, 0) in let k2 := (0, 1) in
  let acts := [AExpect k 5; AExpect k2 any_offset; ADrainM k; AYieldMsg k 11; AYieldMsg k 12; AYieldErr k 401; AYieldMsg k 13;
               AConsume k 6; AReadMsg k; AHwm k; AReadMsg k; AClosePC k; AReadMsg k; ACloseAll] in
  let tr := snd (crun cinit acts) in
  map t_obs tr = [ONone; ONone; ONone; ONone; ONone; ONone; ONone; OConsume 0; OMsg 11 0 0 1; OHwm 4; OMsg 12 0 0 2;
                  OClose 1 [401]; OClosed; ONone] /\
  flat_map t_rep tr = [CROffset k 5 6; CRMsgsLeft k 1; CRNotStarted k2] /\
  reads k tr = [(11, 1); (12, 2)] /\ dropped k tr = [(13, 3)] /\ accepted k tr = [11; 12; 13].
Proof. vm_compute. repeat split. Qed.

(* ---------- concurrent yielders: the offsets do not depend on who wins the mutex ----------
   YieldMessage calls are serialised by the partition consumer's mutex; a concurrent run is the sequential script of its
   linearisation.  Whatever that order is, the offsets handed out are 1, 2, 3, … in it: two scripts that accept the same
   NUMBER of messages on a partition hand out the same offsets in the same positions, and the offsets of everything that left
   or is still in the channel are consecutive. *)
Lemma numbered_offsets : forall ids o, map snd (numbered o ids) = map (fun i => o + Z.of_nat i) (seq 0 (length ids)).
Proof.
  induction ids as [|x ids IH]; intro o; cbn [numbered map length seq]; [reflexivity|].
  f_equal; [cbn; lia|]. rewrite IH. rewrite <- seq_shift, map_map. apply map_ext. intro i. lia.
Qed.

Theorem consumer_offsets_order_independent acts acts' k :
  length (accepted k (snd (crun cinit acts))) = length (accepted k (snd (crun cinit acts'))) ->
  map snd (reads k (snd (crun cinit acts)) ++ dropped k (snd (crun cinit acts)) ++ queue k (fst (crun cinit acts))) =
  map snd (reads k (snd (crun cinit acts')) ++ dropped k (snd (crun cinit acts')) ++ queue k (fst (crun cinit acts'))).
Proof.
  intro H. pose proof (consumer_reads_prefix acts k) as A. pose proof (consumer_reads_prefix acts' k) as B.
  cbn zeta in A, B. rewrite <- A, <- B, !numbered_offsets, H. reflexivity.
Qed.

Theorem consumer_offsets_consecutive acts k :
  map snd (reads k (snd (crun cinit acts)) ++ dropped k (snd (crun cinit acts)) ++ queue k (fst (crun cinit acts))) =
  map (fun i => 1 + Z.of_nat i) (seq 0 (length (accepted k (snd (crun cinit acts))))).
Proof. pose proof (consumer_reads_prefix acts k) as A. cbn zeta in A. rewrite <- A. apply numbered_offsets. Qed.
