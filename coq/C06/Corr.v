(* C06 — correspondence: the harness (go/harness/cmd/c06corr) drives a real OffsetManager against a
   scripted coordinator (sarama.MockBroker with the handler of go/shims/c06_shim.go) and writes, per
   case, the script (harness-level operations) and what it observed after every operation.  These
   functions expand each harness operation into model operations, re-run the model and compare the
   projected observables: NextOffset() of every handle, the errors each handle reported, whether the
   handle was released, the OffsetCommit requests the coordinator received (version, retention,
   blocks), the coordinator's store, the number of coordinator lookups. *)
From Coq Require Import List ZArith Bool.
From SV Require Import Base.Corr C06.Model.
Import ListNotations.
Open Scope Z_scope.

(* application calls (usable inside a commit window) *)
Inductive aop := AMark (p : pid) (o m : Z) | AReset (p : pid) (o m : Z) | APClose (p : pid).
Definition aop_op (a : aop) : op :=
  match a with AMark p o m => Mark p o m | AReset p o m => Reset p o m | APClose p => PClose p end.

(* what the scripted coordinator does with the next commit attempt that reaches it *)
Record script := { sc_nocoord : bool; sc_window : list aop; sc_reply : reply }.

Inductive hop :=
| HManage (p : pid)
| HApp (a : aop)
| HCommit (sc : script) (between : list aop)   (* om.Commit(), or flush / between / releasePOMs(false) via the shim *)
| HClose (scs : list script).                  (* om.Close() *)

Definition accept_all (req : list (pid * (Z * Z))) : reply := RResp (map (fun b => (fst b, 0)) req).

(* one flushToBroker as the harness experiences it *)
Definition flush (c : cfg) (sc : option script) (s : state) : state :=
  let s1 := step c s Construct in
  match pc s1 with
  | Window req =>
    match sc with
    | None => step c s1 (Respond (accept_all req))
    | Some k =>
      if sc_nocoord k && negb (cached s1) then step c s1 (Respond RNoCoord)
      else step c (run c (map aop_op (sc_window k)) s1) (Respond (sc_reply k))
    end
  | _ => s1
  end.

(* a script element is consumed only by an attempt that needs the coordinator *)
Definition consumed (c : cfg) (s : state) : bool :=
  match pc (step c s Construct) with Window _ => true | _ => false end.

Fixpoint close_loop (c : cfg) (fuel : nat) (scs : list script) (s : state) : state :=
  match fuel with
  | O => s
  | S f =>
    if closed s then s else
    let used := consumed c s in
    let s1 := step c (flush c (if used then hd_error scs else None) s) Release in
    close_loop c f (if used then tl scs else scs) s1
  end.

Definition exec_hop (c : cfg) (s : state) (h : hop) : state :=
  match h with
  | HManage p => step c s (Manage p)
  | HApp a => step c s (aop_op a)
  | HCommit sc between =>
    step c (run c (map aop_op between) (flush c (Some sc) s)) Release
  | HClose scs => close_loop c (S (S (c_retry_max c))) scs (step c s CloseBegin)
  end.

(* ---- observations --------------------------------------------------------------------------- *)
Record hobs := {
  o_handles : list (pid * (Z * Z * list Z * bool));   (* NextOffset, errors drained, released *)
  o_reqs : list (Z * Z * list (pid * (Z * Z * Z)));   (* version, retention, blocks; chronological *)
  o_store : list (pid * option (Z * Z));
  o_lookups : Z }.

Fixpoint errs_of (p : pid) (evs : list event) : list Z :=
  match evs with
  | [] => []
  | EvErr q e :: r => if Z.eqb p q then e :: errs_of p r else errs_of p r
  | _ :: r => errs_of p r
  end.
Fixpoint reqs_of (evs : list event) : list (Z * Z * list (pid * (Z * Z * Z))) :=
  match evs with
  | [] => []
  | EvReq v r b :: t => (v, r, b) :: reqs_of t
  | _ :: t => reqs_of t
  end.

(* events added between two states, oldest first *)
Definition new_events (s0 s1 : state) : list event :=
  rev (firstn (length (log s1) - length (log s0)) (log s1)).

Definition model_obs (c : cfg) (universe : list pid) (s0 s1 : state) : hobs :=
  let evs := new_events s0 s1 in
  {| o_handles := mapv (fun p x => (next_offset c x, errs_of p evs, negb (p_managed x))) (poms s1);
     o_reqs := reqs_of evs;
     o_store := map (fun p => (p, get p (store s1))) universe;
     o_lookups := lookups s1 |}.

Definition z2_eqb (a b : Z * Z) := Z.eqb (fst a) (fst b) && Z.eqb (snd a) (snd b).
Definition z3_eqb (a b : Z * Z * Z) := z2_eqb (fst a) (fst b) && Z.eqb (snd a) (snd b).
Definition handle_eqb (a b : pid * (Z * Z * list Z * bool)) : bool :=
  let '(p, (n, e, r)) := a in let '(p', (n', e', r')) := b in
  Z.eqb p p' && z2_eqb n n' && list_eqb Z.eqb e e' && Bool.eqb r r'.
Definition block_eqb (a b : pid * (Z * Z * Z)) := Z.eqb (fst a) (fst b) && z3_eqb (snd a) (snd b).
Definition req_eqb (a b : Z * Z * list (pid * (Z * Z * Z))) : bool :=
  z2_eqb (fst a) (fst b) && list_eqb block_eqb (snd a) (snd b).
Definition store_eqb (a b : pid * option (Z * Z)) := Z.eqb (fst a) (fst b) && option_eqb z2_eqb (snd a) (snd b).

Definition hobs_eqb (a b : hobs) : bool :=
  list_eqb handle_eqb (o_handles a) (o_handles b) && list_eqb req_eqb (o_reqs a) (o_reqs b) &&
  list_eqb store_eqb (o_store a) (o_store b) && Z.eqb (o_lookups a) (o_lookups b).

Record case := {
  k_cfg : cfg;
  k_store0 : list (pid * (Z * Z));
  k_universe : list pid;
  k_steps : list (hop * hobs) }.

Fixpoint check_steps (c : cfg) (u : list pid) (s : state) (l : list (hop * hobs)) : bool :=
  match l with
  | [] => true
  | (h, o) :: r => let s1 := exec_hop c s h in
                   hobs_eqb (model_obs c u s s1) o && check_steps c u s1 r
  end.

Definition ok (k : case) : bool := check_steps (k_cfg k) (k_universe k) (init (k_store0 k)) (k_steps k).
Definition mismatches_c06 := mismatches ok.
