(* C06 — executable model of sarama's offset manager (offset_manager.go) together with the
   group coordinator's offset store.  No proofs here.

   Partitions are identified by integers chosen by the harness ((topic, partition) pairs),
   metadata strings by integers (0 = the empty string), errors by their Kafka error code
   (-1 = ErrIncompleteResponse, -2 = any connection-level error).

   Atomicity: every operation below runs in the code under the partition lock (MarkOffset,
   ResetOffset, updateCommitted, AsyncClose, the per-partition steps of constructRequest /
   handleResponse / releasePOMs) or on the single committer goroutine.  The loops over the
   partitions in constructRequest, handleResponse and releasePOMs touch one partition at a time and
   an application call touches only its own partition, so every interleaving is equivalent to one in
   which these loops are atomic; the coordinator's write to its store commutes with application
   calls (it reads the request only), so it is merged into the step that handles the reply. *)
From Coq Require Import List ZArith Bool.
Import ListNotations.
Open Scope Z_scope.

Definition pid := Z.

(* ---- association lists keyed by partition ------------------------------------------------ *)
Fixpoint get {A : Type} (k : pid) (l : list (pid * A)) : option A :=
  match l with
  | [] => None
  | (k', v) :: r => if Z.eqb k k' then Some v else get k r
  end.

(* replace the binding of k, or append a new one at the end (insertion order is kept) *)
Fixpoint set {A : Type} (k : pid) (v : A) (l : list (pid * A)) : list (pid * A) :=
  match l with
  | [] => [(k, v)]
  | (k', v') :: r => if Z.eqb k k' then (k, v) :: r else (k', v') :: set k v r
  end.

Definition mapv {A B : Type} (f : pid -> A -> B) (l : list (pid * A)) : list (pid * B) :=
  map (fun kv => (fst kv, f (fst kv) (snd kv))) l.

Fixpoint memz (k : Z) (l : list Z) : bool :=
  match l with [] => false | x :: r => Z.eqb k x || memz k r end.

(* ---- one partition offset manager (partitionOffsetManager) ---------------------------------- *)
Record pom := mkPom {
  p_off : Z; p_meta : Z;           (* pending position *)
  p_dirty : bool;                  (* needs committing *)
  p_done : bool;                   (* AsyncClose called *)
  p_managed : bool;                (* still in offsetManager.poms (false after release) *)
  (* ghost (no influence on behaviour): a ResetOffset lowered the offset since the request whose
     block is now in the coordinator's store was built / since the request in flight was built *)
  g_low_store : bool; g_low_infl : bool }.

Definition pair_of (x : pom) : Z * Z := (p_off x, p_meta x).

(* MarkOffset *)
Definition mark (o m : Z) (x : pom) : pom :=
  if o >? p_off x
  then mkPom o m true (p_done x) (p_managed x) (g_low_store x) (g_low_infl x)
  else x.

(* ResetOffset *)
Definition reset (o m : Z) (x : pom) : pom :=
  if o <=? p_off x
  then let low := o <? p_off x in
       mkPom o m true (p_done x) (p_managed x) (g_low_store x || low) (g_low_infl x || low)
  else x.

(* updateCommitted: the dirty flag is cleared only if the position still is what was sent *)
Definition update_committed (o m : Z) (x : pom) : pom :=
  if (p_off x =? o) && (p_meta x =? m)
  then mkPom (p_off x) (p_meta x) false (p_done x) (p_managed x) (g_low_store x) (g_low_infl x)
  else x.

Definition async_close (x : pom) : pom :=
  mkPom (p_off x) (p_meta x) (p_dirty x) true (p_managed x) (g_low_store x) (g_low_infl x).

Definition unmanage (x : pom) : pom :=
  mkPom (p_off x) (p_meta x) (p_dirty x) (p_done x) false (g_low_store x) (g_low_infl x).

Definition set_low_infl (b : bool) (x : pom) : pom :=
  mkPom (p_off x) (p_meta x) (p_dirty x) (p_done x) (p_managed x) (g_low_store x) b.

(* the coordinator wrote this partition's block of the request in flight *)
Definition applied_flag (x : pom) : pom :=
  mkPom (p_off x) (p_meta x) (p_dirty x) (p_done x) (p_managed x) (g_low_infl x) (g_low_infl x).

(* releasePOMs: releaseDue := pom.done && (force || !pom.dirty) *)
Definition release_due (force : bool) (x : pom) : bool := p_done x && (force || negb (p_dirty x)).

Record cfg := {
  c_retry_max : nat;      (* Consumer.Offsets.Retry.Max *)
  c_autocommit : bool;    (* Consumer.Offsets.AutoCommit.Enable *)
  c_retention : Z;        (* Consumer.Offsets.Retention in ms; 0 = unset *)
  c_initial : Z }.        (* Consumer.Offsets.Initial *)

(* NextOffset *)
Definition next_offset (c : cfg) (x : pom) : Z * Z :=
  if p_off x >=? 0 then (p_off x, p_meta x) else (c_initial c, 0).

(* ---- verdict classes of handleResponse's switch -------------------------------------------- *)
Inductive verdict := VOk | VRedispatch | VUser | VLoad | VOther.
Definition classify (code : Z) : verdict :=
  if code =? 0 then VOk
  else if (code =? 6) || (code =? 5) || (code =? 15) || (code =? 16) then VRedispatch
  else if (code =? 12) || (code =? 28) then VUser
  else if code =? 14 then VLoad
  else VOther.

Definition E_INCOMPLETE : Z := -1.
Definition E_CONN : Z := -2.
Definition E_NOCOORD : Z := 16.   (* the error the harness's FindCoordinator answers with *)

(* what the coordinator side does with one OffsetCommit request *)
Inductive reply :=
| RConn (applied : list pid)            (* connection-level failure; these blocks were written before it *)
| RNoCoord                              (* the coordinator lookup, if one is needed, fails (else: RConn []) *)
| RResp (codes : list (pid * Z)).       (* per-partition error codes; absent = block missing; code 0 = written *)

Inductive op :=
| Manage (p : pid)                      (* ManagePartition: fetch the stored position *)
| Mark (p : pid) (o m : Z)
| Reset (p : pid) (o m : Z)
| PClose (p : pid)                      (* AsyncClose of one partition *)
| Construct                             (* constructRequest (first half of flushToBroker) *)
| Respond (r : reply)                   (* coordinator lookup, CommitOffset, handleResponse / handleError *)
| Release                               (* releasePOMs(false) after a flush; in Close: loop test + final release *)
| CloseBegin.                           (* Close: mainLoop has exited, asyncClosePOMs *)

Inductive phase := Idle | Window (req : list (pid * (Z * Z))) | Flushed.

Inductive event :=
| EvReq (version retention : Z) (blocks : list (pid * (Z * Z * Z)))   (* pid, (offset, timestamp, metadata) *)
| EvErr (p : pid) (e : Z).

Record state := mkState {
  poms : list (pid * pom);
  store : list (pid * (Z * Z));     (* the coordinator's committed (offset, metadata) *)
  pc : phase;                       (* where the committer is *)
  cached : bool;                    (* offsetManager.broker != nil *)
  lookups : Z;                      (* coordinator lookups made so far *)
  closing : option nat;             (* inside Close: attempts left, counting the current one *)
  closed : bool;
  log : list event }.               (* newest first *)

Definition init (st0 : list (pid * (Z * Z))) : state :=
  mkState [] st0 Idle false 0 None false [].

Definition store_get (p : pid) (s : state) : Z * Z :=
  match get p (store s) with Some v => v | None => (-1, 0) end.

Definition with_poms (s : state) (ps : list (pid * pom)) : state :=
  mkState ps (store s) (pc s) (cached s) (lookups s) (closing s) (closed s) (log s).

Definition on_pom (p : pid) (f : pom -> pom) (s : state) : state :=
  match get p (poms s) with
  | Some x => with_poms s (set p (f x) (poms s))
  | None => s
  end.

(* coordinator() as used by fetchInitialOffset and flushToBroker *)
Definition lookup_ok (s : state) : state :=
  if cached s then s
  else mkState (poms s) (store s) (pc s) true (lookups s + 1) (closing s) (closed s) (log s).

Definition fresh (v : Z * Z) : pom := mkPom (fst v) (snd v) false false true false false.

Definition do_manage (p : pid) (s : state) : state :=
  let s1 := lookup_ok s in
  match get p (poms s1) with
  | Some x => if p_managed x then s1 else with_poms s1 (set p (fresh (store_get p s1)) (poms s1))
  | None => with_poms s1 (set p (fresh (store_get p s1)) (poms s1))
  end.

(* constructRequest *)
Definition wants (x : pom) : bool := p_managed x && p_dirty x.
Fixpoint blocks_of (l : list (pid * pom)) : list (pid * (Z * Z)) :=
  match l with
  | [] => []
  | (p, x) :: r => if wants x then (p, pair_of x) :: blocks_of r else blocks_of r
  end.

Definition do_construct (s : state) : state :=
  let req := blocks_of (poms s) in
  match req with
  | [] => mkState (poms s) (store s) Flushed (cached s) (lookups s) (closing s) (closed s) (log s)
  | _ => mkState (mapv (fun _ x => if wants x then set_low_infl false x else x) (poms s))
                 (store s) (Window req) (cached s) (lookups s) (closing s) (closed s) (log s)
  end.

Definition req_version (c : cfg) : Z := if c_retention c =? 0 then 1 else 2.
Definition req_event (c : cfg) (req : list (pid * (Z * Z))) : event :=
  EvReq (req_version c) (c_retention c)
        (map (fun b => (fst b, (fst (snd b), if c_retention c =? 0 then -1 else 0, snd (snd b)))) req).

(* store after the coordinator wrote the blocks selected by [sel] *)
Fixpoint write_blocks (sel : pid -> bool) (req : list (pid * (Z * Z))) (st : list (pid * (Z * Z))) :=
  match req with
  | [] => st
  | (p, v) :: r => let st' := write_blocks sel r st in if sel p then set p v st' else st'
  end.

(* om.handleError: every managed partition reports the error *)
Fixpoint errs_all (e : Z) (l : list (pid * pom)) : list event :=
  match l with
  | [] => []
  | (p, x) :: r => if p_managed x then EvErr p e :: errs_all e r else errs_all e r
  end.

(* handleResponse, one partition *)
Definition handle_one (req : list (pid * (Z * Z))) (codes : list (pid * Z)) (p : pid) (x : pom) : pom :=
  if p_managed x then
    match get p req with
    | None => x
    | Some (bo, bm) =>
      match get p codes with
      | None => x
      | Some code => match classify code with
                     | VOk => update_committed bo bm (applied_flag x)
                     | _ => x
                     end
      end
    end
  else x.

Fixpoint resp_errs (req : list (pid * (Z * Z))) (codes : list (pid * Z)) (l : list (pid * pom)) : list event :=
  match l with
  | [] => []
  | (p, x) :: r =>
    let rest := resp_errs req codes r in
    if p_managed x then
      match get p req with
      | None => rest
      | Some _ =>
        match get p codes with
        | None => EvErr p E_INCOMPLETE :: rest
        | Some code => match classify code with
                       | VUser | VOther => EvErr p code :: rest
                       | _ => rest
                       end
        end
      end
    else rest
  end.

(* does some handled block make handleResponse call releaseCoordinator? *)
Fixpoint resp_releases (req : list (pid * (Z * Z))) (codes : list (pid * Z)) (l : list (pid * pom)) : bool :=
  match l with
  | [] => false
  | (p, x) :: r =>
    (if p_managed x then
       match get p req with
       | None => false
       | Some _ => match get p codes with
                   | None => false
                   | Some code => match classify code with VRedispatch | VOther => true | _ => false end
                   end
       end
     else false) || resp_releases req codes r
  end.

Definition code_ok (codes : list (pid * Z)) (p : pid) : bool :=
  match get p codes with Some code => match classify code with VOk => true | _ => false end | None => false end.

Definition conn_failure (c : cfg) (req : list (pid * (Z * Z))) (applied : list pid) (s : state) : state :=
  mkState (mapv (fun p x => if p_managed x && memz p applied
                            then match get p req with Some _ => applied_flag x | None => x end else x) (poms s))
          (write_blocks (fun p => memz p applied) req (store s))
          Flushed false (lookups s) (closing s) (closed s)
          (rev (errs_all E_CONN (poms s)) ++ req_event c req :: log s).

Definition do_respond (c : cfg) (r : reply) (s : state) : state :=
  match pc s with
  | Window req =>
    match r with
    | RNoCoord =>
      if cached s then conn_failure c req [] s
      else mkState (poms s) (store s) Flushed false (lookups s + 1) (closing s) (closed s)
                   (rev (errs_all E_NOCOORD (poms s)) ++ log s)
    | RConn applied => conn_failure c req applied (lookup_ok s)
    | RResp codes =>
      let s1 := lookup_ok s in
      mkState (mapv (handle_one req codes) (poms s1))
              (write_blocks (code_ok codes) req (store s1))
              Flushed (negb (resp_releases req codes (poms s1))) (lookups s1) (closing s1) (closed s1)
              (rev (resp_errs req codes (poms s1)) ++ req_event c req :: log s1)
    end
  | _ => s
  end.

(* releasePOMs *)
Definition release (force : bool) (l : list (pid * pom)) : list (pid * pom) :=
  mapv (fun _ x => if p_managed x && release_due force x then unmanage x else x) l.
Fixpoint remaining (l : list (pid * pom)) : nat :=
  match l with [] => O | (_, x) :: r => if p_managed x then S (remaining r) else remaining r end.

(* the tail of Close: releasePOMs(true); om.broker = nil *)
Definition finalize (s : state) : state :=
  mkState (release true (poms s)) (store s) Idle false (lookups s) None true (log s).

Definition do_release (s : state) : state :=
  match pc s with
  | Flushed =>
    let ps := release false (poms s) in
    let s1 := mkState ps (store s) Idle (cached s) (lookups s) (closing s) (closed s) (log s) in
    match closing s with
    | None => s1
    | Some n =>
      match remaining ps, n with
      | O, _ => finalize s1
      | _, S (S k) => mkState ps (store s) Idle (cached s) (lookups s) (Some (S k)) (closed s) (log s)
      | _, _ => finalize s1
      end
    end
  | _ => s
  end.

Definition do_close_begin (c : cfg) (s : state) : state :=
  match pc s, closing s with
  | Idle, None =>
    let ps := mapv (fun _ x => if p_managed x then async_close x else x) (poms s) in
    let s1 := mkState ps (store s) Idle (cached s) (lookups s) (Some (S (c_retry_max c))) (closed s) (log s) in
    if c_autocommit c then s1 else finalize s1
  | _, _ => s
  end.

Definition step (c : cfg) (s : state) (o : op) : state :=
  match o with
  | Mark p off m => on_pom p (mark off m) s
  | Reset p off m => on_pom p (reset off m) s
  | PClose p => on_pom p async_close s
  | _ =>
    if closed s then s else
    match o with
    | Manage p => do_manage p s
    | Construct => match pc s with Idle => do_construct s | _ => s end
    | Respond r => do_respond c r s
    | Release => do_release s
    | CloseBegin => do_close_begin c s
    | _ => s
    end
  end.

Definition run (c : cfg) (ops : list op) (s : state) : state := fold_left (step c) ops s.
