(* C06 — history theorems: what was committed had been marked; what the ghost flags mean. *)
From Coq Require Import List ZArith Bool Lia.
From SV Require Import C06.Model C06.Spec C06.Proofs C06.Proofs2.
Import ListNotations.
Open Scope Z_scope.

Definition flagged (x : pom) : Prop := g_low_store x = true \/ g_low_infl x = true.

(* y carries no more than x: same position, dirty only if x was, flagged only if x was *)
Definition weak (x y : pom) : Prop :=
  pair_of y = pair_of x /\ (p_dirty y = true -> p_dirty x = true) /\ (flagged y -> flagged x).

Lemma weak_refl x : weak x x.
Proof. unfold weak. auto. Qed.

Lemma weak_trans x y z : weak x y -> weak y z -> weak x z.
Proof. unfold weak. intros [A1 [A2 A3]] [B1 [B2 B3]]. repeat split; [congruence | auto | auto]. Qed.

Lemma weak_handle_one req codes p x : weak x (handle_one req codes p x).
Proof.
  destruct (handle_one_cases req codes p x) as [[E _]|[bo [bm [_ [_ [_ E]]]]]]; cbn zeta in E; rewrite E; [apply weak_refl|].
  unfold update_committed. destruct ((p_off (applied_flag x) =? bo) && (p_meta (applied_flag x) =? bm));
    unfold weak, flagged, pair_of; cbn; repeat split; auto; try discriminate; intros [H|H]; auto.
Qed.

Lemma weak_conn (req : list (pid * (Z * Z))) applied k x :
  weak x (if p_managed x && memz k applied then match get k req with Some _ => applied_flag x | None => x end else x).
Proof.
  destruct (p_managed x && memz k applied); [destruct (get k req)|]; try apply weak_refl.
  unfold weak, flagged, pair_of; cbn. repeat split; auto. intros [H|H]; auto.
Qed.

Lemma weak_release force x : weak x (if p_managed x && release_due force x then unmanage x else x).
Proof. destruct (p_managed x && release_due force x); [|apply weak_refl]. unfold weak, flagged, pair_of; cbn; auto. Qed.

Lemma weak_close x : weak x (if p_managed x then async_close x else x).
Proof. destruct (p_managed x); [|apply weak_refl]. unfold weak, flagged, pair_of; cbn; auto. Qed.

Lemma weak_construct x : weak x (if wants x then set_low_infl false x else x).
Proof.
  destruct (wants x); [|apply weak_refl]. unfold weak, flagged, pair_of; cbn. repeat split; auto.
  intros [H|H]; [now left | discriminate].
Qed.

Definition shape (s : state) (o : op) (p : pid) (y : pom) : Prop :=
  (exists x, get p (poms s) = Some x /\ weak x y) \/
  (exists off m x, o = Mark p off m /\ get p (poms s) = Some x /\ off > p_off x /\ y = mark off m x) \/
  (exists off m x, o = Reset p off m /\ get p (poms s) = Some x /\ off <= p_off x /\ y = reset off m x) \/
  (p_dirty y = false /\ g_low_store y = false /\ g_low_infl y = false).

Lemma step_shape c s o p y : get p (poms (step c s o)) = Some y -> shape s o p y.
Proof.
  intros G.
  assert (Hsame : get p (poms s) = Some y -> shape s o p y).
  { intros H. left. exists y. split; [exact H | apply weak_refl]. }
  assert (Hmap : forall (F : pid -> pom -> pom) l, (forall k x, weak x (F k x)) ->
                 (forall x, get p l = Some x -> exists x0, get p (poms s) = Some x0 /\ weak x0 x) ->
                 get p (mapv F l) = Some y -> shape s o p y).
  { intros F l HF Hl H. rewrite get_mapv in H. destruct (get p l) as [x|] eqn:E; [|discriminate].
    injection H as <-. destruct (Hl x eq_refl) as [x0 [G0 W0]]. left. exists x0. split; [exact G0|].
    eapply weak_trans; [exact W0 | apply HF]. }
  assert (Hid : forall x, get p (poms s) = Some x -> exists x0, get p (poms s) = Some x0 /\ weak x0 x).
  { intros x H. exists x. split; [exact H | apply weak_refl]. }
  assert (Hrel1 : forall force x, get p (release force (poms s)) = Some x -> exists x0, get p (poms s) = Some x0 /\ weak x0 x).
  { intros force x H. unfold release in H. rewrite get_mapv in H. destruct (get p (poms s)) as [x0|]; [|discriminate].
    injection H as <-. exists x0. split; [reflexivity | apply weak_release]. }
  destruct o as [q|q o1 m1|q o1 m1|q| |r| |]; cbn [step] in G.
  - (* Manage *)
    destruct (closed s); [now apply Hsame|]. unfold do_manage in G.
    destruct (lookup_ok_fields s) as [Hp _]. rewrite Hp in G.
    assert (Hf : get p (poms (with_poms (lookup_ok s) (set q (fresh (store_get q (lookup_ok s))) (poms s)))) = Some y -> shape s (Manage q) p y).
    { cbn [poms with_poms]. rewrite get_set. destruct (Z.eqb p q).
      - intros [= <-]. right; right; right. now cbn.
      - apply Hsame. }
    destruct (get q (poms s)) as [x|]; [destruct (p_managed x)|]; try now apply Hf.
    rewrite Hp in G. now apply Hsame.
  - (* Mark *)
    rewrite on_pom_get in G. destruct (Z.eqb p q) eqn:E; [|now apply Hsame].
    apply Z.eqb_eq in E; subst q. destruct (get p (poms s)) as [x|] eqn:G0; [|discriminate].
    injection G as <-. destruct (o1 >? p_off x) eqn:C.
    + right; left. exists o1, m1, x. apply Z.gtb_lt in C. split; [reflexivity|]. split; [exact G0|]. split; [lia | reflexivity].
    + left. exists x. split; [exact G0|]. unfold mark. rewrite C. apply weak_refl.
  - (* Reset *)
    rewrite on_pom_get in G. destruct (Z.eqb p q) eqn:E; [|now apply Hsame].
    apply Z.eqb_eq in E; subst q. destruct (get p (poms s)) as [x|] eqn:G0; [|discriminate].
    injection G as <-. destruct (o1 <=? p_off x) eqn:C.
    + right; right; left. exists o1, m1, x. apply Z.leb_le in C. split; [reflexivity|]. split; [exact G0|]. split; [lia | reflexivity].
    + left. exists x. split; [exact G0|]. unfold reset. rewrite C. apply weak_refl.
  - (* AsyncClose *)
    rewrite on_pom_get in G. destruct (Z.eqb p q) eqn:E; [|now apply Hsame].
    apply Z.eqb_eq in E; subst q. destruct (get p (poms s)) as [x|] eqn:G0; [|discriminate].
    injection G as <-. left. exists x. split; [exact G0|]. unfold weak, flagged, pair_of; cbn; auto.
  - (* Construct *)
    destruct (closed s); [now apply Hsame|]. destruct (pc s); try now apply Hsame.
    unfold do_construct in G. destruct (blocks_of (poms s)); cbn [poms] in G; [now apply Hsame|].
    apply (Hmap _ (poms s) (fun _ => weak_construct) Hid G).
  - (* Respond *)
    destruct (closed s); [now apply Hsame|]. unfold do_respond in G. destruct (pc s) as [|req|]; try now apply Hsame.
    destruct (lookup_ok_fields s) as [Hp _].
    destruct r as [applied| |codes].
    + unfold conn_failure in G; cbn [poms] in G. rewrite Hp in G.
      apply (Hmap _ (poms s) (fun k x => weak_conn req applied k x) Hid G).
    + destruct (cached s); [|now apply Hsame]. unfold conn_failure in G; cbn [poms] in G.
      apply (Hmap _ (poms s) (fun k x => weak_conn req [] k x) Hid G).
    + cbn [poms] in G. rewrite Hp in G. apply (Hmap _ (poms s) (weak_handle_one req codes) Hid G).
  - (* Release *)
    destruct (closed s); [now apply Hsame|]. unfold do_release in G. destruct (pc s); try now apply Hsame.
    assert (H1 : get p (release false (poms s)) = Some y -> shape s Release p y).
    { apply (Hmap _ (poms s) (fun _ => weak_release false) Hid). }
    assert (H2 : get p (release true (release false (poms s))) = Some y -> shape s Release p y).
    { apply (Hmap _ _ (fun _ => weak_release true) (Hrel1 false)). }
    destruct (closing s) as [n|]; cbn [poms] in G; [|now apply H1].
    destruct (remaining (release false (poms s))); [now apply H2|].
    destruct n as [|[|k]]; cbn [poms finalize] in G; [now apply H2 | now apply H2 | now apply H1].
  - (* CloseBegin *)
    destruct (closed s); [now apply Hsame|]. unfold do_close_begin in G. destruct (pc s); try now apply Hsame.
    destruct (closing s); [now apply Hsame|].
    assert (Hc : forall x, get p (mapv (fun _ y => if p_managed y then async_close y else y) (poms s)) = Some x ->
                 exists x0, get p (poms s) = Some x0 /\ weak x0 x).
    { intros x H. rewrite get_mapv in H. destruct (get p (poms s)) as [x0|]; [|discriminate].
      injection H as <-. exists x0. split; [reflexivity | apply weak_close]. }
    destruct (c_autocommit c); cbn [poms finalize] in G.
    + destruct (Hc y G) as [x0 [G0 W0]]. left. now exists x0.
    + apply (Hmap _ _ (fun _ => weak_release true) Hc G).
Qed.

(* ---- meaning of the ghost flags: a lowering ResetOffset happened --------------------------------------- *)

Lemma LowReset_snoc c st0 ops p x : LowReset c st0 ops p -> LowReset c st0 (ops ++ [x]) p.
Proof.
  intros [a [o [m [b [y [E H]]]]]]. exists a, o, m, (b ++ [x]), y. split; [|exact H].
  rewrite E, <- app_assoc. reflexivity.
Qed.

Lemma flagged_meaning c st0 ops : forall p y,
  get p (poms (reach c st0 ops)) = Some y -> flagged y -> LowReset c st0 ops p.
Proof.
  induction ops as [|o ops IH] using rev_ind; intros p y G F.
  - discriminate.
  - unfold reach in G. rewrite run_snoc in G. fold (reach c st0 ops) in G.
    destruct (step_shape c _ o p y G) as [[x [Gx [_ [_ W]]]]|[[off [m [x [-> [Gx [C ->]]]]]]|[[off [m [x [-> [Gx [C ->]]]]]]|[_ [F1 F2]]]]].
    + apply LowReset_snoc, (IH p x Gx), W, F.
    + apply LowReset_snoc, (IH p x Gx). unfold mark in F. destruct (off >? p_off x); exact F.
    + unfold reset in F. destruct (off <=? p_off x); [|apply LowReset_snoc, (IH p x Gx), F].
      destruct (off <? p_off x) eqn:L.
      * exists ops, off, m, [], x. split; [reflexivity|]. split; [exact Gx | now apply Z.ltb_lt].
      * apply LowReset_snoc, (IH p x Gx). unfold flagged in *; cbn in F. now rewrite !orb_false_r in F.
    + destruct F as [F|F]; congruence.
Qed.

Theorem store_no_regress c st0 ops o p :
  fst (store_get p (step c (reach c st0 ops) o)) < fst (store_get p (reach c st0 ops)) ->
  LowReset c st0 ops p.
Proof.
  intros H. destruct (store_regress_step c _ o p (Inv_reach c st0 ops) H) as [x [G [_ F]]].
  apply (flagged_meaning c st0 ops p x G). now left.
Qed.

Theorem store_monotone_without_reset c st0 p : forall b a,
  (forall o m, ~ In (Reset p o m) (a ++ b)) ->
  fst (store_get p (reach c st0 a)) <= fst (store_get p (reach c st0 (a ++ b))).
Proof.
  induction b as [|o b IH] using rev_ind; intros a Hn.
  - rewrite app_nil_r. lia.
  - assert (Hn' : forall o' m, ~ In (Reset p o' m) (a ++ b)).
    { intros o' m Hin. apply (Hn o' m). rewrite app_assoc. apply in_or_app. now left. }
    specialize (IH a Hn'). rewrite app_assoc. unfold reach at 2. rewrite run_snoc. fold (reach c st0 (a ++ b)).
    destruct (Z_lt_le_dec (fst (store_get p (step c (reach c st0 (a ++ b)) o))) (fst (store_get p (reach c st0 (a ++ b))))) as [Hlt|Hle]; [|lia].
    exfalso. destruct (store_no_regress c st0 (a ++ b) o p Hlt) as [a' [o' [m [b' [y [E _]]]]]].
    apply (Hn' o' m). rewrite E. apply in_or_app. right. now left.
Qed.

(* ---- committed offsets are marked offsets -------------------------------------------------------------- *)

Lemma Marked_snoc c st0 ops p o m x : Marked c st0 ops p o m -> Marked c st0 (ops ++ [x]) p o m.
Proof.
  intros [a [b [x0 [y [E H]]]]]. exists a, (b ++ [x]), x0, y. split; [|exact H].
  rewrite E, <- app_assoc. reflexivity.
Qed.

Lemma pc_step c s o req : pc (step c s o) = Window req ->
  pc s = Window req \/ (o = Construct /\ req = blocks_of (poms s)).
Proof.
  destruct o as [q|q o1 m1|q o1 m1|q| |r| |]; cbn [step];
    try (match goal with |- pc (on_pom ?p ?f ?s) = _ -> _ => destruct (on_pom_fields p f s) as [_ [H _]]; rewrite H; now left end);
    destruct (closed s); try (now left).
  - unfold do_manage. destruct (lookup_ok_fields s) as [_ [_ [H _]]].
    destruct (get q (poms (lookup_ok s))) as [x|]; [destruct (p_managed x)|]; cbn [pc with_poms]; rewrite H; now left.
  - destruct (pc s) eqn:Hpc; try (intros H; left; congruence). unfold do_construct.
    destruct (blocks_of (poms s)) eqn:B; cbn [pc]; [discriminate|]. intros [= <-]. now right.
  - unfold do_respond. destruct (pc s) as [|rq|] eqn:Hpc; try (intros H; left; congruence).
    destruct r as [applied| |codes]; [discriminate | destruct (cached s); discriminate | discriminate].
  - unfold do_release. destruct (pc s) eqn:Hpc; try (intros H; left; congruence).
    destruct (closing s) as [n|]; [|discriminate].
    destruct (remaining (release false (poms s))); [discriminate|]. destruct n as [|[|k]]; discriminate.
  - unfold do_close_begin. destruct (pc s) eqn:Hpc; try (intros H; left; congruence). destruct (closing s); [intros H; left; congruence|].
    destruct (c_autocommit c); discriminate.
Qed.

Lemma errs_all_noreq e l v r b : ~ In (EvReq v r b) (errs_all e l).
Proof. induction l as [|[p x] t IH]; cbn; [tauto|]. destruct (p_managed x); cbn; [intros [H|H]; [discriminate | tauto] | exact IH]. Qed.

Lemma resp_errs_noreq req codes l v r b : ~ In (EvReq v r b) (resp_errs req codes l).
Proof.
  induction l as [|[p x] t IH]; cbn; [tauto|]. destruct (p_managed x); [|exact IH].
  destruct (get p req); [|exact IH]. destruct (get p codes) as [code|].
  - destruct (classify code); cbn; try exact IH; intros [H|H]; try discriminate; tauto.
  - cbn. intros [H|H]; [discriminate | tauto].
Qed.

Lemma log_step c s o v r b : In (EvReq v r b) (log (step c s o)) ->
  In (EvReq v r b) (log s) \/ exists req, pc s = Window req /\ EvReq v r b = req_event c req.
Proof.
  destruct o as [q|q o1 m1|q o1 m1|q| |rp| |]; cbn [step];
    try (match goal with |- In _ (log (on_pom ?p ?f ?s)) -> _ => destruct (on_pom_fields p f s) as [_ [_ [_ [_ [_ [_ H]]]]]]; rewrite H; now left end);
    destruct (closed s); try (now left).
  - unfold do_manage. destruct (lookup_ok_fields s) as [_ [_ [_ [_ [_ H]]]]].
    destruct (get q (poms (lookup_ok s))) as [x|]; [destruct (p_managed x)|]; cbn [log with_poms]; rewrite H; now left.
  - destruct (pc s); try (now left). unfold do_construct. destruct (blocks_of (poms s)); cbn [log]; now left.
  - unfold do_respond. destruct (pc s) as [|req|] eqn:Hpc; try (now left).
    destruct (lookup_ok_fields s) as [_ [_ [_ [_ [_ Hl]]]]].
    assert (Hc : forall applied s', log s' = log s -> In (EvReq v r b) (log (conn_failure c req applied s')) ->
                 In (EvReq v r b) (log s) \/ exists req0, Window req = Window req0 /\ EvReq v r b = req_event c req0).
    { intros applied s' E. unfold conn_failure; cbn [log]. rewrite E. intros H. apply in_app_or in H as [H|[H|H]].
      - apply in_rev in H. now apply errs_all_noreq in H.
      - right. exists req. split; [reflexivity | now symmetry].
      - now left. }
    destruct rp as [applied| |codes].
    + apply Hc. exact Hl.
    + destruct (cached s); [apply Hc; reflexivity|]. cbn [log]. intros H. apply in_app_or in H as [H|H]; [|now left].
      apply in_rev in H. now apply errs_all_noreq in H.
    + cbn [log]. rewrite Hl. intros H. apply in_app_or in H as [H|[H|H]].
      * apply in_rev in H. now apply resp_errs_noreq in H.
      * right. exists req. split; [reflexivity | now symmetry].
      * now left.
  - unfold do_release. destruct (pc s); try (now left). destruct (closing s) as [n|]; [|now left].
    destruct (remaining (release false (poms s))); [now left|]. destruct n as [|[|k]]; now left.
  - unfold do_close_begin. destruct (pc s); try (now left). destruct (closing s); [now left|].
    destruct (c_autocommit c); now left.
Qed.

Record Hist (c : cfg) st0 (ops : list op) : Prop := {
  hist_dirty : forall p y, get p (poms (reach c st0 ops)) = Some y -> p_dirty y = true ->
               Marked c st0 ops p (p_off y) (p_meta y);
  hist_window : forall req, pc (reach c st0 ops) = Window req -> forall p bo bm, In (p, (bo, bm)) req ->
               Marked c st0 ops p bo bm;
  hist_log : forall v r blocks, In (EvReq v r blocks) (log (reach c st0 ops)) ->
             forall p o t m, In (p, (o, t, m)) blocks -> Marked c st0 ops p o m }.

Lemma Hist_all c st0 ops : Hist c st0 ops.
Proof.
  induction ops as [|o ops IH] using rev_ind.
  - constructor; cbn; [discriminate | discriminate | intros ? ? ? []].
  - assert (E : reach c st0 (ops ++ [o]) = step c (reach c st0 ops) o) by (unfold reach; apply run_snoc).
    constructor; rewrite E.
    + intros p y G D.
      destruct (step_shape c _ o p y G) as [[x [Gx [P [W _]]]]|[[off [m [x [-> [Gx [C ->]]]]]]|[[off [m [x [-> [Gx [C ->]]]]]]|[D0 _]]]].
      * apply Marked_snoc. unfold pair_of in P. injection P as -> ->. apply (hist_dirty _ _ _ IH p x Gx (W D)).
      * unfold mark. apply Z.gt_lt, Z.gtb_lt in C. rewrite C. cbn [p_off p_meta].
        exists ops, [], (Mark p off m), x. split; [reflexivity|]. split; [exact Gx|]. left. split; [reflexivity|]. apply Z.gtb_lt in C. lia.
      * unfold reset. apply Z.leb_le in C. rewrite C. cbn [p_off p_meta].
        exists ops, [], (Reset p off m), x. split; [reflexivity|]. split; [exact Gx|]. right. split; [reflexivity|]. now apply Z.leb_le in C.
      * congruence.
    + intros req Hw p bo bm Hin. destruct (pc_step c _ o req Hw) as [H|[-> ->]].
      * apply Marked_snoc. apply (hist_window _ _ _ IH req H p bo bm Hin).
      * apply Marked_snoc. destruct (In_blocks_of _ _ _ Hin) as [x [Hx [W P]]].
        apply In_get in Hx; [|apply (Inv_reach c st0 ops)].
        unfold wants in W. apply andb_true_iff in W as [_ D]. unfold pair_of in P. injection P as -> ->.
        apply (hist_dirty _ _ _ IH p x Hx D).
    + intros v r blocks Hin p o1 t m Hb. apply Marked_snoc.
      destruct (log_step c _ o v r blocks Hin) as [H|[req [Hw Ev]]].
      * apply (hist_log _ _ _ IH v r blocks H p o1 t m Hb).
      * unfold req_event in Ev. injection Ev as _ _ ->. apply in_map_iff in Hb as [[q [bo bm]] [Eb Hq]].
        cbn [fst snd] in Eb. injection Eb as -> -> _ ->. apply (hist_window _ _ _ IH req Hw p o1 m Hq).
Qed.

Theorem committed_is_marked c st0 ops v r blocks p o t m :
  In (EvReq v r blocks) (log (reach c st0 ops)) -> In (p, (o, t, m)) blocks -> Marked c st0 ops p o m.
Proof. intros H1 H2. exact (hist_log _ _ _ (Hist_all c st0 ops) v r blocks H1 p o t m H2). Qed.
