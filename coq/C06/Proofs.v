(* C06 — proofs about the offset-manager model: association-list facts, the reachable-state
   invariant, and the single-step facts. *)
From Coq Require Import List ZArith Bool Lia.
From SV Require Import C06.Model.
Import ListNotations.
Open Scope Z_scope.

Definition keys {A : Type} (l : list (pid * A)) : list pid := map fst l.

(* ---- association lists ---------------------------------------------------------------------- *)
Lemma get_set_same {A} (k : pid) (v : A) l : get k (set k v l) = Some v.
Proof.
  induction l as [|[k' v'] r IH]; cbn [set get].
  - now rewrite Z.eqb_refl.
  - destruct (Z.eqb k k') eqn:E; cbn [get].
    + now rewrite Z.eqb_refl.
    + now rewrite E.
Qed.

Lemma get_set_other {A} (k k' : pid) (v : A) l : k <> k' -> get k' (set k v l) = get k' l.
Proof.
  intros Hne. induction l as [|[k2 v2] r IH]; cbn [set get].
  - destruct (Z.eqb k' k) eqn:E; [apply Z.eqb_eq in E; congruence | reflexivity].
  - destruct (Z.eqb k k2) eqn:E; cbn [get].
    + apply Z.eqb_eq in E; subst k2.
      destruct (Z.eqb k' k) eqn:E2; [apply Z.eqb_eq in E2; congruence | reflexivity].
    + destruct (Z.eqb k' k2); [reflexivity | exact IH].
Qed.

Lemma get_set {A} (k k' : pid) (v : A) l :
  get k' (set k v l) = if Z.eqb k' k then Some v else get k' l.
Proof.
  destruct (Z.eqb k' k) eqn:E.
  - apply Z.eqb_eq in E; subst. apply get_set_same.
  - apply get_set_other. intros ->. now rewrite Z.eqb_refl in E.
Qed.

Lemma get_mapv {A B} (f : pid -> A -> B) k l :
  get k (mapv f l) = match get k l with Some x => Some (f k x) | None => None end.
Proof.
  induction l as [|[k' v'] r IH]; cbn [mapv map get fst snd]; [reflexivity|].
  destruct (Z.eqb k k') eqn:E.
  - apply Z.eqb_eq in E; now subst.
  - exact IH.
Qed.

Lemma keys_mapv {A B} (f : pid -> A -> B) l : keys (mapv f l) = keys l.
Proof. unfold keys, mapv. rewrite map_map. reflexivity. Qed.

Lemma get_None_keys {A} k (l : list (pid * A)) : get k l = None <-> ~ In k (keys l).
Proof.
  induction l as [|[k' v] r IH]; cbn [get keys map fst]; [tauto|].
  destruct (Z.eqb k k') eqn:E.
  - apply Z.eqb_eq in E; subst. split; [discriminate | intros H; exfalso; apply H; now left].
  - apply Z.eqb_neq in E. rewrite IH. fold (keys r). split; intros H.
    + intros [->|H1]; [congruence | tauto].
    + intros H1; apply H; now right.
Qed.

Lemma get_In {A} k (x : A) l : get k l = Some x -> In (k, x) l.
Proof.
  induction l as [|[k' v] r IH]; cbn [get]; [discriminate|].
  destruct (Z.eqb k k') eqn:E.
  - apply Z.eqb_eq in E; subst. intros [= ->]. now left.
  - intros H; right; auto.
Qed.

Lemma In_get {A} k (x : A) l : NoDup (keys l) -> In (k, x) l -> get k l = Some x.
Proof.
  induction l as [|[k' v] r IH]; cbn [get keys map fst]; [intros _ []|].
  intros Hnd [Heq|Hin].
  - injection Heq as -> ->. now rewrite Z.eqb_refl.
  - inversion Hnd as [|? ? Hni Hnd']; subst.
    destruct (Z.eqb k k') eqn:E.
    + apply Z.eqb_eq in E; subst. exfalso; apply Hni. change (In k' (keys r)).
      unfold keys. apply (in_map fst) in Hin. exact Hin.
    + now apply IH.
Qed.

Lemma In_set {A} k (v : A) q x l : In (q, x) (set k v l) -> (q, x) = (k, v) \/ In (q, x) l.
Proof.
  induction l as [|[k' v'] r IH]; cbn [set].
  - intros [H|[]]; left; now symmetry.
  - destruct (Z.eqb k k') eqn:E.
    + intros [H|H]; [left; now symmetry | right; now right].
    + intros [H|H]; [right; now left|]. destruct (IH H) as [H1|H1]; [now left | right; now right].
Qed.

Lemma In_mapv {A B} (f : pid -> A -> B) q y l : In (q, y) (mapv f l) -> exists x, In (q, x) l /\ y = f q x.
Proof.
  unfold mapv. rewrite in_map_iff. intros [[k x] [Heq Hin]]. cbn [fst snd] in Heq.
  injection Heq as <- <-. now exists x.
Qed.

Lemma keys_set {A} k (v : A) l : keys (set k v l) = if in_dec Z.eq_dec k (keys l) then keys l else keys l ++ [k].
Proof.
  induction l as [|[k' v'] r IH]; cbn [set keys map fst app].
  - destruct (in_dec Z.eq_dec k []) as [[]|_]. reflexivity.
  - fold (keys r). destruct (Z.eqb k k') eqn:E.
    + apply Z.eqb_eq in E; subst. cbn [keys map fst]. fold (keys r).
      destruct (in_dec Z.eq_dec k' (k' :: keys r)) as [_|H]; [reflexivity | exfalso; apply H; now left].
    + apply Z.eqb_neq in E. cbn [keys map fst]. fold (keys (set k v r)). rewrite IH.
      destruct (in_dec Z.eq_dec k (keys r)) as [H|H]; destruct (in_dec Z.eq_dec k (k' :: keys r)) as [H'|H']; cbn [app]; try reflexivity.
      * exfalso; apply H'; now right.
      * destruct H' as [H'|H']; [congruence | contradiction].
Qed.

Lemma NoDup_snoc {A} (x : A) l : NoDup l -> ~ In x l -> NoDup (l ++ [x]).
Proof.
  induction l as [|y r IH]; cbn [app]; intros Hnd Hni.
  - constructor; [intros [] | constructor].
  - inversion Hnd; subst. constructor.
    + rewrite in_app_iff. intros [H|[H|[]]]; [contradiction | subst; apply Hni; now left].
    + apply IH; [assumption | intros H; apply Hni; now right].
Qed.

Lemma NoDup_keys_set {A} k (v : A) l : NoDup (keys l) -> NoDup (keys (set k v l)).
Proof.
  intros H. rewrite keys_set. destruct (in_dec Z.eq_dec k (keys l)) as [Hin|Hni]; [exact H|].
  now apply NoDup_snoc.
Qed.

(* ---- constructRequest ---------------------------------------------------------------------- *)
Lemma In_blocks_of p v l : In (p, v) (blocks_of l) -> exists x, In (p, x) l /\ wants x = true /\ v = pair_of x.
Proof.
  induction l as [|[k x] r IH]; cbn [blocks_of]; [intros []|].
  destruct (wants x) eqn:W.
  - intros [H|H].
    + injection H as <- <-. exists x. repeat split; [now left | exact W].
    + destruct (IH H) as [y [H1 H2]]. exists y. split; [now right | exact H2].
  - intros H. destruct (IH H) as [y [H1 H2]]. exists y. split; [now right | exact H2].
Qed.

Lemma keys_blocks_of p l : In p (keys (blocks_of l)) -> In p (keys l).
Proof.
  unfold keys. rewrite !in_map_iff. intros [[q v] [<- H]]. cbn [fst].
  destruct (In_blocks_of _ _ _ H) as [x [H1 _]]. exists (q, x). now split.
Qed.

Lemma get_blocks_of p l : NoDup (keys l) ->
  get p (blocks_of l) = match get p l with Some x => if wants x then Some (pair_of x) else None | None => None end.
Proof.
  induction l as [|[k x] r IH]; cbn [blocks_of get keys map fst]; [reflexivity|].
  intros Hnd. inversion Hnd as [|? ? Hni Hnd']; subst. fold (keys r) in *.
  destruct (Z.eqb p k) eqn:E.
  - apply Z.eqb_eq in E; subst k. destruct (wants x) eqn:W; cbn [get].
    + now rewrite Z.eqb_refl.
    + apply get_None_keys. intros H. apply Hni. now apply keys_blocks_of.
  - destruct (wants x); cbn [get]; [rewrite E|]; now apply IH.
Qed.

Lemma blocks_of_nil p x l : blocks_of l = [] -> In (p, x) l -> wants x = false.
Proof.
  induction l as [|[k y] r IH]; cbn [blocks_of]; [intros _ []|].
  destruct (wants y) eqn:W; [discriminate|].
  intros H [Heq|Hin]; [injection Heq as -> ->; exact W | now apply IH].
Qed.

(* ---- the coordinator's store ----------------------------------------------------------------- *)
Lemma get_write_blocks sel p req st :
  get p (write_blocks sel req st) =
  if sel p then match get p req with Some v => Some v | None => get p st end else get p st.
Proof.
  induction req as [|[k v] r IH]; cbn [write_blocks get].
  - now destruct (sel p).
  - destruct (Z.eqb p k) eqn:E.
    + apply Z.eqb_eq in E; subst k. destruct (sel p) eqn:S.
      * apply get_set_same.
      * exact IH.
    + assert (k <> p) by (intros ->; now rewrite Z.eqb_refl in E).
      destruct (sel k); [rewrite get_set_other by assumption|]; exact IH.
Qed.

(* ---- projections of the small state transformers ------------------------------------------------ *)
Lemma store_get_ext p s s' : store s' = store s -> store_get p s' = store_get p s.
Proof. unfold store_get. now intros ->. Qed.

Lemma on_pom_get p f s q :
  get q (poms (on_pom p f s)) =
  if Z.eqb q p then match get p (poms s) with Some x => Some (f x) | None => None end else get q (poms s).
Proof.
  unfold on_pom. destruct (get p (poms s)) as [x|] eqn:G; cbn [poms with_poms].
  - apply get_set.
  - destruct (Z.eqb q p) eqn:E; [apply Z.eqb_eq in E; now subst | reflexivity].
Qed.

Lemma on_pom_fields p f s :
  store (on_pom p f s) = store s /\ pc (on_pom p f s) = pc s /\ cached (on_pom p f s) = cached s /\
  lookups (on_pom p f s) = lookups s /\ closing (on_pom p f s) = closing s /\ closed (on_pom p f s) = closed s /\
  log (on_pom p f s) = log s.
Proof. unfold on_pom. destruct (get p (poms s)); cbn; repeat split; reflexivity. Qed.

Lemma on_pom_nodup p f s : NoDup (keys (poms s)) -> NoDup (keys (poms (on_pom p f s))).
Proof. unfold on_pom. destruct (get p (poms s)); cbn [poms with_poms]; [apply NoDup_keys_set | trivial]. Qed.

Lemma lookup_ok_fields s :
  poms (lookup_ok s) = poms s /\ store (lookup_ok s) = store s /\ pc (lookup_ok s) = pc s /\
  closing (lookup_ok s) = closing s /\ closed (lookup_ok s) = closed s /\ log (lookup_ok s) = log s.
Proof. unfold lookup_ok. destruct (cached s); cbn; repeat split; reflexivity. Qed.

(* ---- the invariant of reachable states -------------------------------------------------------------- *)
Record Inv (s : state) : Prop := {
  inv_nodup : NoDup (keys (poms s));
  (* a request in flight: its partitions are managed and dirty; ghost flags bound the offsets *)
  inv_window : forall req, pc s = Window req -> forall p bo bm, get p req = Some (bo, bm) ->
     exists x, get p (poms s) = Some x /\ p_managed x = true /\ p_dirty x = true /\
               (g_low_infl x = false -> bo <= p_off x) /\
               (g_low_store x = false -> fst (store_get p s) <= bo);
  (* no mark is lost: a clean managed partition's pending position is what the coordinator stores *)
  inv_clean : forall p x, get p (poms s) = Some x -> p_managed x = true -> p_dirty x = false ->
     store_get p s = pair_of x;
  inv_low : forall p x, get p (poms s) = Some x -> p_managed x = true -> g_low_store x = false ->
     fst (store_get p s) <= p_off x }.

Definition pom_rel (x y : pom) : Prop :=
  (p_dirty y = false -> p_dirty x = false /\ pair_of y = pair_of x) /\
  (g_low_store y = false -> g_low_store x = false /\ p_off x <= p_off y) /\
  (g_low_infl y = false -> g_low_infl x = false /\ p_off x <= p_off y).

Lemma pom_rel_refl x : pom_rel x x.
Proof. unfold pom_rel. repeat split; auto; lia. Qed.

Lemma Inv_rel s s' :
  Inv s -> NoDup (keys (poms s')) -> store s' = store s ->
  (forall q y, get q (poms s') = Some y -> p_managed y = true ->
     (exists x, get q (poms s) = Some x /\ p_managed x = true /\ pom_rel x y) \/
     (p_dirty y = false /\ pair_of y = store_get q s)) ->
  (forall req, pc s' = Window req -> pc s = Window req /\
     forall q x, get q (poms s) = Some x -> p_managed x = true ->
       exists y, get q (poms s') = Some y /\ p_managed y = true /\ pom_rel x y) ->
  Inv s'.
Proof.
  intros HI Hnd Hst Hback Hfwd. constructor.
  - exact Hnd.
  - intros req Hpc p bo bm Hg. destruct (Hfwd req Hpc) as [Hpc0 Hf].
    destruct (inv_window s HI req Hpc0 p bo bm Hg) as [x [Hx [Hm [Hd [Hl1 Hl2]]]]].
    destruct (Hf p x Hx Hm) as [y [Hy [Hmy [R1 [R2 R3]]]]].
    exists y. repeat split; try assumption.
    + destruct (p_dirty y) eqn:D; [reflexivity|]. destruct (R1 eq_refl) as [D0 _]. congruence.
    + intros F. destruct (R3 F) as [F0 Hle]. specialize (Hl1 F0). lia.
    + intros F. destruct (R2 F) as [F0 _]. rewrite (store_get_ext p s s' Hst). auto.
  - intros p y Hy Hm Hd. rewrite (store_get_ext p s s' Hst).
    destruct (Hback p y Hy Hm) as [[x [Hx [Hmx [R1 _]]]]|[_ Hp]]; [|now symmetry].
    destruct (R1 Hd) as [D0 ->]. now apply (inv_clean s HI).
  - intros p y Hy Hm Hl. rewrite (store_get_ext p s s' Hst).
    destruct (Hback p y Hy Hm) as [[x [Hx [Hmx [_ [R2 _]]]]]|[_ Hp]].
    + destruct (R2 Hl) as [L0 Hle]. pose proof (inv_low s HI p x Hx Hmx L0). lia.
    + rewrite <- Hp. cbn. lia.
Qed.

(* application calls *)
Definition app_ok (f : pom -> pom) : Prop := forall x, p_managed (f x) = p_managed x /\ pom_rel x (f x).

Lemma mark_ok o m : app_ok (mark o m).
Proof.
  intros x. unfold mark, pom_rel. destruct (o >? p_off x) eqn:E; cbn.
  - apply Z.gtb_lt in E. repeat split; auto; try discriminate; lia.
  - repeat split; auto; lia.
Qed.

Lemma reset_ok o m : app_ok (reset o m).
Proof.
  intros x. unfold reset, pom_rel. destruct (o <=? p_off x) eqn:E; cbn.
  - apply Z.leb_le in E. destruct (o <? p_off x) eqn:E2.
    + rewrite !orb_true_r. repeat split; auto; discriminate.
    + apply Z.ltb_ge in E2. rewrite !orb_false_r. repeat split; auto; try discriminate; lia.
  - repeat split; auto; lia.
Qed.

Lemma async_close_ok : app_ok async_close.
Proof. intros x. unfold async_close, pom_rel, pair_of; cbn. repeat split; auto; lia. Qed.

Lemma Inv_on_pom p f s : app_ok f -> Inv s -> Inv (on_pom p f s).
Proof.
  intros Hf HI. destruct (on_pom_fields p f s) as [Hst [Hpc _]].
  apply (Inv_rel s); [exact HI | apply on_pom_nodup, HI | exact Hst | |].
  - intros q y Hy Hm. left. rewrite on_pom_get in Hy. destruct (Z.eqb q p) eqn:E.
    + apply Z.eqb_eq in E; subst q. destruct (get p (poms s)) as [x|] eqn:G; [|discriminate].
      injection Hy as <-. destruct (Hf x) as [Hmx R]. exists x. split; [reflexivity|]. split; [congruence | exact R].
    + exists y. split; [exact Hy|]. split; [exact Hm | apply pom_rel_refl].
  - intros req Hw. rewrite Hpc in Hw. split; [exact Hw|]. intros q x Hx Hm.
    rewrite on_pom_get. destruct (Z.eqb q p) eqn:E.
    + apply Z.eqb_eq in E; subst q. rewrite Hx. destruct (Hf x) as [Hmx R].
      exists (f x). split; [reflexivity|]. split; [congruence | exact R].
    + exists x. split; [exact Hx|]. split; [exact Hm | apply pom_rel_refl].
Qed.

(* ManagePartition *)
Lemma Inv_manage p s : Inv s -> Inv (do_manage p s).
Proof.
  intros HI. destruct (lookup_ok_fields s) as [Hp [Hs [Hpc _]]].
  assert (HI1 : Inv (lookup_ok s)).
  { apply (Inv_rel s); [exact HI | rewrite Hp; apply HI | exact Hs | |].
    - intros q y Hy Hm. left. rewrite Hp in Hy. exists y. split; [exact Hy|]. split; [exact Hm | apply pom_rel_refl].
    - intros req Hw. rewrite Hpc in Hw. split; [exact Hw|]. intros q x Hx Hm. rewrite Hp.
      exists x. split; [exact Hx|]. split; [exact Hm | apply pom_rel_refl]. }
  unfold do_manage. set (s1 := lookup_ok s) in *.
  assert (Hfresh : (forall x, get p (poms s1) = Some x -> p_managed x = false) ->
                   Inv (with_poms s1 (set p (fresh (store_get p s1)) (poms s1)))).
  { intros Hun. apply (Inv_rel s1); [exact HI1 | cbn [poms with_poms]; apply NoDup_keys_set, HI1 | reflexivity | |].
    - intros q y Hy Hm. cbn [poms with_poms] in Hy. rewrite get_set in Hy. destruct (Z.eqb q p) eqn:E.
      + apply Z.eqb_eq in E; subst q. injection Hy as <-. right. split; [reflexivity|].
        unfold fresh, pair_of; cbn. now destruct (store_get p s1).
      + left. exists y. split; [exact Hy|]. split; [exact Hm | apply pom_rel_refl].
    - intros req Hw. cbn [pc with_poms] in Hw. split; [exact Hw|]. intros q x Hx Hm.
      cbn [poms with_poms]. rewrite get_set. destruct (Z.eqb q p) eqn:E.
      + apply Z.eqb_eq in E; subst q. rewrite (Hun x Hx) in Hm. discriminate.
      + exists x. split; [exact Hx|]. split; [exact Hm | apply pom_rel_refl]. }
  destruct (get p (poms s1)) as [x|] eqn:G.
  - destruct (p_managed x) eqn:M; [exact HI1|]. apply Hfresh. intros x' [= <-]. exact M.
  - apply Hfresh. intros x' Hx'. discriminate.
Qed.

(* constructRequest *)
Lemma Inv_construct s : Inv s -> pc s = Idle -> Inv (do_construct s).
Proof.
  intros HI Hidle. unfold do_construct. destruct (blocks_of (poms s)) as [|b0 br] eqn:B.
  - apply (Inv_rel s); [exact HI | apply HI | reflexivity | |].
    + intros q y Hy Hm. left. exists y. split; [exact Hy|]. split; [exact Hm | apply pom_rel_refl].
    + cbn [pc]. discriminate.
  - rewrite <- B. constructor; cbn [poms store pc].
    + rewrite keys_mapv. apply HI.
    + intros req [= <-] p bo bm Hg. rewrite get_blocks_of in Hg by apply HI.
      destruct (get p (poms s)) as [x|] eqn:G; [|discriminate]. destruct (wants x) eqn:W; [|discriminate].
      injection Hg as <- <-. unfold wants in W. apply andb_true_iff in W as [Wm Wd].
      rewrite get_mapv, G. unfold wants. rewrite Wm, Wd. cbn [andb].
      exists (set_low_infl false x). cbn. repeat split; try assumption; try lia.
      intros L. change (fst (store_get p s) <= p_off x). now apply (inv_low s HI p x G Wm).
    + intros p y Hy Hm Hd. rewrite get_mapv in Hy. destruct (get p (poms s)) as [x|] eqn:G; [|discriminate].
      injection Hy as <-. change (store_get p s = pair_of (if wants x then set_low_infl false x else x)).
      destruct (wants x) eqn:W.
      * unfold wants in W. apply andb_true_iff in W as [_ Wd]. cbn in Hd. congruence.
      * apply (inv_clean s HI p x G); assumption.
    + intros p y Hy Hm Hl. rewrite get_mapv in Hy. destruct (get p (poms s)) as [x|] eqn:G; [|discriminate].
      injection Hy as <-. change (fst (store_get p s) <= p_off (if wants x then set_low_infl false x else x)).
      destruct (wants x) eqn:W; cbn in *; apply (inv_low s HI p x G); assumption.
Qed.

(* handleResponse / handleError *)
Lemma Inv_lookup_ok s : Inv s -> Inv (lookup_ok s).
Proof.
  intros HI. destruct (lookup_ok_fields s) as [Hp [Hs [Hpc _]]].
  apply (Inv_rel s); [exact HI | rewrite Hp; apply HI | exact Hs | |].
  - intros q y Hy Hm. left. rewrite Hp in Hy. exists y. split; [exact Hy|]. split; [exact Hm | apply pom_rel_refl].
  - intros req Hw. rewrite Hpc in Hw. split; [exact Hw|]. intros q x Hx Hm. rewrite Hp.
    exists x. split; [exact Hx|]. split; [exact Hm | apply pom_rel_refl].
Qed.

Lemma Inv_conn_failure c req applied s : Inv s -> pc s = Window req -> Inv (conn_failure c req applied s).
Proof.
  intros HI Hw. unfold conn_failure. constructor; cbn [poms store pc].
  - rewrite keys_mapv. apply HI.
  - discriminate.
  - intros p y Hy Hm Hd. rewrite get_mapv in Hy. destruct (get p (poms s)) as [x|] eqn:G; [|discriminate].
    injection Hy as <-.
    assert (Hx : p_managed x = true /\ p_dirty x = false /\
                 pair_of (if p_managed x && memz p applied then match get p req with Some _ => applied_flag x | None => x end else x) = pair_of x).
    { destruct (p_managed x && memz p applied); [destruct (get p req)|]; cbn in *; auto. }
    destruct Hx as [Mx [Dx ->]].
    assert (Hnr : get p req = None).
    { destruct (get p req) as [[bo bm]|] eqn:R; [|reflexivity].
      destruct (inv_window s HI req Hw p bo bm R) as [x' [Hx' [_ [D' _]]]]. congruence. }
    unfold store_get; cbn [store]. rewrite get_write_blocks, Hnr.
    destruct (memz p applied); apply (inv_clean s HI p x G Mx Dx).
  - intros p y Hy Hm Hl. rewrite get_mapv in Hy. destruct (get p (poms s)) as [x|] eqn:G; [|discriminate].
    injection Hy as <-. unfold store_get; cbn [store]. rewrite get_write_blocks.
    destruct (p_managed x) eqn:Mx; cbn [andb] in *; [|congruence].
    destruct (memz p applied) eqn:A.
    + destruct (get p req) as [[bo bm]|] eqn:R.
      * destruct (inv_window s HI req Hw p bo bm R) as [x' [Hx' [_ [_ [L1 _]]]]].
        assert (x' = x) by congruence; subst x'. cbn in *. auto.
      * apply (inv_low s HI p x G Mx Hl).
    + apply (inv_low s HI p x G Mx Hl).
Qed.

Lemma handle_one_cases req codes p x :
  let y := handle_one req codes p x in
  (y = x /\ (p_managed x = true -> forall v, get p req = Some v -> code_ok codes p = false)) \/
  (exists bo bm, p_managed x = true /\ get p req = Some (bo, bm) /\ code_ok codes p = true /\
                 y = update_committed bo bm (applied_flag x)).
Proof.
  cbn zeta. unfold handle_one, code_ok. destruct (p_managed x); [|left; split; [reflexivity | discriminate]].
  destruct (get p req) as [[bo bm]|]; [|left; split; [reflexivity | discriminate]].
  destruct (get p codes) as [code|]; [|left; split; reflexivity].
  destruct (classify code); try (left; split; reflexivity).
  right. exists bo, bm. repeat split; reflexivity.
Qed.

Lemma Inv_resp c req codes s : Inv s -> pc s = Window req ->
  Inv (mkState (mapv (handle_one req codes) (poms s)) (write_blocks (code_ok codes) req (store s))
               Flushed (negb (resp_releases req codes (poms s))) (lookups s) (closing s) (closed s)
               (rev (resp_errs req codes (poms s)) ++ req_event c req :: log s)).
Proof.
  intros HI Hw. constructor; cbn [poms store pc].
  - rewrite keys_mapv. apply HI.
  - discriminate.
  - intros p y Hy Hm Hd. rewrite get_mapv in Hy. destruct (get p (poms s)) as [x|] eqn:G; [|discriminate].
    injection Hy as <-. unfold store_get; cbn [store]. rewrite get_write_blocks.
    destruct (handle_one_cases req codes p x) as [[E Hno]|[bo [bm [Mx [R [Ok E]]]]]]; cbn zeta in E; rewrite E in *.
    + destruct (get p req) as [[bo bm]|] eqn:R.
      * destruct (inv_window s HI req Hw p bo bm R) as [x' [Hx' [_ [D' _]]]]. congruence.
      * destruct (code_ok codes p); apply (inv_clean s HI p x G Hm Hd).
    + rewrite Ok, R. unfold update_committed in *. cbn [p_off p_meta applied_flag] in *.
      destruct ((p_off x =? bo) && (p_meta x =? bm)) eqn:Q.
      * apply andb_true_iff in Q as [Q1 Q2]. apply Z.eqb_eq in Q1, Q2. unfold pair_of; cbn. congruence.
      * destruct (inv_window s HI req Hw p bo bm R) as [x' [Hx' [_ [D' _]]]]. cbn in Hd. congruence.
  - intros p y Hy Hm Hl. rewrite get_mapv in Hy. destruct (get p (poms s)) as [x|] eqn:G; [|discriminate].
    injection Hy as <-. unfold store_get; cbn [store]. rewrite get_write_blocks.
    destruct (handle_one_cases req codes p x) as [[E Hno]|[bo [bm [Mx [R [Ok E]]]]]]; cbn zeta in E; rewrite E in *.
    + destruct (code_ok codes p) eqn:Ok; [|apply (inv_low s HI p x G Hm Hl)].
      destruct (get p req) as [v|] eqn:R; [|apply (inv_low s HI p x G Hm Hl)].
      specialize (Hno Hm v eq_refl). discriminate.
    + rewrite Ok, R. cbn [fst].
      destruct (inv_window s HI req Hw p bo bm R) as [x' [Hx' [_ [_ [L1 _]]]]].
      assert (x' = x) by congruence; subst x'.
      unfold update_committed in *. cbn [p_off p_meta applied_flag] in *.
      destruct ((p_off x =? bo) && (p_meta x =? bm)); cbn in *; auto.
Qed.

Lemma Inv_respond c r s : Inv s -> Inv (do_respond c r s).
Proof.
  intros HI. unfold do_respond. destruct (pc s) as [|req|] eqn:Hw; try exact HI.
  destruct (lookup_ok_fields s) as [Hp [Hs [Hpc [Hcl [Hcd Hlg]]]]].
  destruct r as [applied| |codes].
  - apply Inv_conn_failure; [now apply Inv_lookup_ok | congruence].
  - destruct (cached s); [now apply Inv_conn_failure|].
    apply (Inv_rel s); [exact HI | apply HI | reflexivity | |].
    + intros q y Hy Hm. left. exists y. split; [exact Hy|]. split; [exact Hm | apply pom_rel_refl].
    + cbn [pc]. discriminate.
  - apply Inv_resp; [now apply Inv_lookup_ok | congruence].
Qed.

(* releasePOMs and Close *)
Lemma Inv_mapv s s' (F : pid -> pom -> pom) :
  Inv s -> poms s' = mapv F (poms s) ->
  (forall q x, p_managed (F q x) = true -> p_managed x = true /\ pom_rel x (F q x)) ->
  store s' = store s -> (forall req, pc s' <> Window req) -> Inv s'.
Proof.
  intros HI Hp HF Hs Hpc. apply (Inv_rel s); [exact HI | rewrite Hp, keys_mapv; apply HI | exact Hs | |].
  - intros q y Hy Hm. left. rewrite Hp, get_mapv in Hy. destruct (get q (poms s)) as [x|] eqn:G; [|discriminate].
    injection Hy as <-. destruct (HF q x Hm) as [Mx R]. exists x. split; [reflexivity|]. split; assumption.
  - intros req Hw. now destruct (Hpc req).
Qed.

Lemma release_F force (q : pid) x :
  p_managed (if p_managed x && release_due force x then unmanage x else x) = true ->
  p_managed x = true /\ pom_rel x (if p_managed x && release_due force x then unmanage x else x).
Proof.
  destruct (p_managed x && release_due force x); cbn; [discriminate|].
  intros H; split; [exact H | apply pom_rel_refl].
Qed.

Lemma Inv_finalize s : Inv s -> Inv (finalize s).
Proof.
  intros HI. apply (Inv_mapv s _ (fun _ x => if p_managed x && release_due true x then unmanage x else x));
    [exact HI | reflexivity | intros q x; apply (release_F true q x) | reflexivity | cbn [pc finalize]; discriminate].
Qed.

Lemma Inv_release s : Inv s -> Inv (do_release s).
Proof.
  intros HI. unfold do_release. destruct (pc s) eqn:Hpc; try exact HI.
  set (ps := release false (poms s)).
  assert (H1 : forall ca lk cl cd lg, Inv (mkState ps (store s) Idle ca lk cl cd lg)).
  { intros. apply (Inv_mapv s _ (fun _ x => if p_managed x && release_due false x then unmanage x else x));
      [exact HI | reflexivity | intros q x; apply (release_F false q x) | reflexivity | cbn [pc]; discriminate]. }
  destruct (closing s) as [n|]; [|apply H1].
  destruct (remaining ps); [apply Inv_finalize, H1|].
  destruct n as [|[|k]]; [apply Inv_finalize, H1 | apply Inv_finalize, H1 | apply H1].
Qed.

Lemma Inv_close_begin c s : Inv s -> Inv (do_close_begin c s).
Proof.
  intros HI. unfold do_close_begin. destruct (pc s) eqn:Hpc; try exact HI.
  destruct (closing s); [exact HI|].
  assert (H1 : forall cl, Inv (mkState (mapv (fun _ x => if p_managed x then async_close x else x) (poms s))
                                       (store s) Idle (cached s) (lookups s) cl (closed s) (log s))).
  { intros. apply (Inv_mapv s _ (fun _ x => if p_managed x then async_close x else x));
      [exact HI | reflexivity | | reflexivity | cbn [pc]; discriminate].
    intros q x. destruct (p_managed x) eqn:Mx.
    - intros _. split; [reflexivity | apply async_close_ok].
    - intros H; split; [congruence | apply pom_rel_refl]. }
  destruct (c_autocommit c); [apply H1 | apply Inv_finalize, H1].
Qed.

Lemma Inv_step c s o : Inv s -> Inv (step c s o).
Proof.
  intros HI. destruct o; cbn [step];
    try (apply Inv_on_pom; [first [apply mark_ok | apply reset_ok | apply async_close_ok] | exact HI]);
    destruct (closed s); try exact HI.
  - now apply Inv_manage.
  - destruct (pc s) eqn:Hpc; try exact HI. now apply Inv_construct.
  - now apply Inv_respond.
  - now apply Inv_release.
  - now apply Inv_close_begin.
Qed.

Lemma Inv_init st0 : Inv (init st0).
Proof.
  constructor; cbn.
  - constructor.
  - discriminate.
  - discriminate.
  - discriminate.
Qed.

Lemma run_snoc c ops o s : run c (ops ++ [o]) s = step c (run c ops s) o.
Proof. unfold run. now rewrite fold_left_app. Qed.

Lemma run_app c a b s : run c (a ++ b) s = run c b (run c a s).
Proof. unfold run. now rewrite fold_left_app. Qed.

Lemma Inv_run c ops s : Inv s -> Inv (run c ops s).
Proof.
  revert s. induction ops as [|o r IH]; intros s HI; [exact HI|]. cbn. apply IH. now apply Inv_step.
Qed.
