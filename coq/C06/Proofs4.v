(* C06 — Close flushes the latest mark when auto-commit is on and the coordinator accepts. *)
From Coq Require Import List ZArith Bool Lia.
From SV Require Import C06.Model C06.Spec C06.Proofs C06.Proofs2.
Import ListNotations.
Open Scope Z_scope.


Record CloseInv (p : pid) (pr : Z * Z) (s : state) : Prop := {
  ci_inv : Inv s;
  ci_pom : exists x, get p (poms s) = Some x /\ pair_of x = pr /\ p_done x = true /\
      (p_managed x = false -> store_get p s = pr) /\
      (p_managed x = true -> closed s = false /\
         (forall req, pc s = Window req -> p_dirty x = true -> get p req = Some pr) /\
         (pc s = Flushed -> p_dirty x = false)) }.

Lemma handle_one_fields req codes p x :
  p_done (handle_one req codes p x) = p_done x /\ p_managed (handle_one req codes p x) = p_managed x /\
  (p_dirty x = false -> p_dirty (handle_one req codes p x) = false).
Proof.
  destruct (handle_one_cases req codes p x) as [[E _]|[bo [bm [_ [_ [_ E]]]]]]; cbn zeta in E; rewrite E; [auto|].
  unfold update_committed. destruct ((p_off (applied_flag x) =? bo) && (p_meta (applied_flag x) =? bm)); cbn; auto.
Qed.

Ltac keep x Hman :=
  exists x; (split; [assumption|]); (split; [assumption|]); (split; [assumption|]); (split; [assumption|]);
  let M := fresh "M" in let K1 := fresh "K" in let K2 := fresh "K" in let K3 := fresh "K" in
  intros M; destruct (Hman M) as [K1 [K2 K3]]; split; [congruence|];
  split; [intros rq Hq; apply K2; congruence | intros Hq; apply K3; congruence].

Lemma CloseInv_step c p pr s o :
  c_autocommit c = true -> committer_op o = true -> accepts p o = true ->
  CloseInv p pr s -> CloseInv p pr (step c s o).
Proof.
  intros Hauto Hco Hacc [HI [x [G [P [Dn [Hun Hman]]]]]].
  split; [now apply Inv_step|].
  destruct o as [q|q o1 m1|q o1 m1|q| |r| |]; try discriminate; cbn [step].
  - (* Construct *)
    destruct (closed s) eqn:Hcl; [keep x Hman|]. destruct (pc s) eqn:Hpc; try (keep x Hman).
    + unfold do_construct. destruct (blocks_of (poms s)) as [|b0 br] eqn:B.
      * exists x. cbn [poms store pc closed]. repeat split; auto; try discriminate.
        intros _. apply get_In in G. pose proof (blocks_of_nil p x _ B G) as W. unfold wants in W.
        rewrite H in W. now destruct (p_dirty x).
      * rewrite <- B. cbn [poms]. rewrite get_mapv, G.
        exists (if wants x then set_low_infl false x else x).
        assert (E : forall z, (if wants x then set_low_infl false x else x) = z -> pair_of z = pair_of x /\ p_done z = p_done x /\
                               p_managed z = p_managed x /\ p_dirty z = p_dirty x).
        { intros z <-. destruct (wants x); cbn; auto. }
        destruct (E _ eq_refl) as [E1 [E2 [E3 E4]]]. rewrite E1, E2, E3, E4.
        split; [reflexivity|]. split; [exact P|]. split; [exact Dn|]. split; [exact Hun|].
        intros M. cbn [closed pc]. split; [exact Hcl|]. split; [|discriminate].
        intros req [= <-] D. rewrite get_blocks_of by apply HI. rewrite G. unfold wants. rewrite M, D. cbn. now rewrite P.
  - (* Respond *)
    destruct (closed s) eqn:Hcl; [keep x Hman|]. unfold do_respond. destruct (pc s) as [|req|] eqn:Hpc; try (keep x Hman).
    + destruct r as [applied| |codes]; try discriminate. cbn [accepts] in Hacc.
      destruct (lookup_ok_fields s) as [Hp [Hs [_ [_ [Hcd _]]]]].
      cbn [poms store pc closed]. rewrite Hp, Hs, Hcd, get_mapv, G.
      destruct (handle_one_fields req codes p x) as [F1 [F2 F3]].
      exists (handle_one req codes p x). split; [reflexivity|]. rewrite handle_one_pair, F1, F2.
      split; [exact P|]. split; [exact Dn|]. split.
      * intros M. specialize (Hun M). unfold store_get in *; cbn [store]. rewrite get_write_blocks, Hacc.
        destruct (get p req) as [[bo bm]|] eqn:R; [|exact Hun].
        destruct (inv_window s HI req Hpc p bo bm R) as [x' [Hx' [M' _]]]. congruence.
      * intros M. split; [exact Hcl|]. split; [discriminate|]. intros _.
        destruct (Hman M) as [_ [Hw _]]. destruct (p_dirty x) eqn:D; [|now apply F3].
        specialize (Hw req eq_refl eq_refl). unfold handle_one. rewrite M, Hw.
        unfold code_ok in Hacc. destruct (get p codes) as [code|]; [|discriminate].
        destruct pr as [po pm]. destruct (classify code); try discriminate.
        unfold update_committed. cbn [p_off p_meta applied_flag]. unfold pair_of in P. injection P as -> ->.
        now rewrite !Z.eqb_refl.
  - (* Release *)
    destruct (closed s) eqn:Hcl; [keep x Hman|]. unfold do_release. destruct (pc s) eqn:Hpc; try (keep x Hman).
    assert (Hrel : exists y, get p (release false (poms s)) = Some y /\ pair_of y = pr /\ p_done y = true /\ p_managed y = false /\
                             store_get p s = pr).
    { unfold release. rewrite get_mapv, G. destruct (p_managed x) eqn:M.
      - destruct (Hman eq_refl) as [_ [_ Hf]]. specialize (Hf eq_refl).
        unfold release_due. rewrite Dn, Hf. cbn. eexists; split; [reflexivity|]. cbn. repeat split; auto.
        rewrite <- P. now apply (inv_clean s HI p x G M Hf).
      - cbn [andb]. exists x. repeat split; auto. }
    destruct Hrel as [y [Gy [Py [Dy [My Sy]]]]].
    assert (Hfin : exists z, get p (release true (release false (poms s))) = Some z /\ pair_of z = pr /\ p_done z = true /\ p_managed z = false).
    { unfold release at 1. rewrite get_mapv, Gy, My. cbn [andb]. now exists y. }
    destruct Hfin as [z [Gz [Pz [Dz Mz]]]].
    assert (R1 : forall s', poms s' = release false (poms s) -> store s' = store s ->
                 exists x0, get p (poms s') = Some x0 /\ pair_of x0 = pr /\ p_done x0 = true /\
                   (p_managed x0 = false -> store_get p s' = pr) /\
                   (p_managed x0 = true -> closed s' = false /\ (forall req, pc s' = Window req -> p_dirty x0 = true -> get p req = Some pr) /\ (pc s' = Flushed -> p_dirty x0 = false))).
    { intros s' E1 E2. rewrite E1. exists y. repeat split; auto; try congruence. intros _. now rewrite (store_get_ext p s s' E2). }
    assert (R2 : forall s', poms s' = release true (release false (poms s)) -> store s' = store s ->
                 exists x0, get p (poms s') = Some x0 /\ pair_of x0 = pr /\ p_done x0 = true /\
                   (p_managed x0 = false -> store_get p s' = pr) /\
                   (p_managed x0 = true -> closed s' = false /\ (forall req, pc s' = Window req -> p_dirty x0 = true -> get p req = Some pr) /\ (pc s' = Flushed -> p_dirty x0 = false))).
    { intros s' E1 E2. rewrite E1. exists z. repeat split; auto; try congruence. intros _. now rewrite (store_get_ext p s s' E2). }
    destruct (closing s) as [n|]; [|apply R1; reflexivity].
    destruct (remaining (release false (poms s))); [apply R2; reflexivity|].
    destruct n as [|[|k]]; [apply R2; reflexivity | apply R2; reflexivity | apply R1; reflexivity].
  - (* CloseBegin *)
    destruct (closed s) eqn:Hcl; [keep x Hman|]. unfold do_close_begin.
    destruct (pc s) eqn:Hpc; try (keep x Hman).
    destruct (closing s); [keep x Hman|].
    rewrite Hauto. cbn [poms store pc closed]. rewrite get_mapv, G.
    exists (if p_managed x then async_close x else x).
    assert (E : forall z, (if p_managed x then async_close x else x) = z -> pair_of z = pair_of x /\ p_done z = true /\
                           p_managed z = p_managed x /\ p_dirty z = p_dirty x).
    { intros z <-. destruct (p_managed x) eqn:MX; cbn; repeat split; auto. }
    destruct (E _ eq_refl) as [E1 [E2 [E3 E4]]]. rewrite E1, E2, E3, E4.
    split; [reflexivity|]. split; [exact P|]. split; [reflexivity|]. split; [exact Hun|].
    intros M. split; [exact Hcl|]. split; discriminate.
Qed.

Lemma CloseInv_run c p pr rest : forall s,
  c_autocommit c = true -> Forall (fun o => committer_op o = true /\ accepts p o = true) rest ->
  CloseInv p pr s -> CloseInv p pr (run c rest s).
Proof.
  induction rest as [|o r IH]; intros s Hauto HF HC; [exact HC|].
  inversion HF as [|? ? [H1 H2] HF']; subst. cbn. apply IH; [exact Hauto | exact HF'|].
  now apply CloseInv_step.
Qed.

Theorem close_flushes c st0 ops rest p x :
  c_autocommit c = true ->
  let s0 := reach c st0 ops in
  pc s0 = Idle -> closing s0 = None -> closed s0 = false ->
  get p (poms s0) = Some x -> p_managed x = true ->
  Forall (fun o => committer_op o = true /\ accepts p o = true) rest ->
  let s1 := run c rest (step c s0 CloseBegin) in
  closed s1 = true -> store_get p s1 = pair_of x.
Proof.
  intros Hauto s0 Hpc Hcg Hcl G M HF s1 Hend.
  assert (H0 : CloseInv p (pair_of x) (step c s0 CloseBegin)).
  { split; [apply Inv_step, Inv_reach|].
    cbn [step]. rewrite Hcl. unfold do_close_begin. rewrite Hpc, Hcg, Hauto. cbn [poms store pc closed].
    rewrite get_mapv, G, M. exists (async_close x). split; [reflexivity|]. cbn.
    repeat split; auto; try discriminate. intros M'. congruence. }
  destruct (CloseInv_run c p (pair_of x) rest _ Hauto HF H0) as [_ [y [Gy [Py [Dy [Hun Hman]]]]]].
  fold s1 in Gy, Hun, Hman. destruct (p_managed y) eqn:My; [|now apply Hun].
  destruct (Hman eq_refl) as [Hc _]. congruence.
Qed.

(* ---- Close returns after at most Retry.Max + 1 attempts, whatever the coordinator does ---------------- *)

Lemma closed_stays c s o : closed s = true -> closed (step c s o) = true.
Proof.
  intros H. destruct o; cbn [step]; try (rewrite H; exact H);
    match goal with |- closed (on_pom ?p ?f ?s) = _ => destruct (on_pom_fields p f s) as [_ [_ [_ [_ [_ [E _]]]]]]; now rewrite E end.
Qed.

Lemma closed_stays_run c ops : forall s, closed s = true -> closed (run c ops s) = true.
Proof. induction ops as [|o r IH]; intros s H; [exact H|]. cbn. apply IH. now apply closed_stays. Qed.

Lemma attempt_round c r s n :
  pc s = Idle -> closing s = Some n -> closed s = false ->
  let s' := run c (attempt r) s in
  closed s' = true \/ (pc s' = Idle /\ closed s' = false /\ exists k, n = S (S k) /\ closing s' = Some (S k)).
Proof.
  intros Hpc Hcg Hcl. cbn [attempt run fold_left].
  (* Construct *)
  assert (H1 : exists s1, step c s Construct = s1 /\ closing s1 = Some n /\ closed s1 = false /\
                          (pc s1 = Flushed \/ exists req, pc s1 = Window req)).
  { eexists; split; [reflexivity|]. cbn [step]. rewrite Hcl, Hpc. unfold do_construct.
    destruct (blocks_of (poms s)); cbn; repeat split; auto. right. eauto. }
  destruct H1 as [s1 [-> [Hcg1 [Hcl1 Hpc1]]]].
  (* Respond *)
  assert (H2 : exists s2, step c s1 (Respond r) = s2 /\ closing s2 = Some n /\ closed s2 = false /\ pc s2 = Flushed).
  { eexists; split; [reflexivity|]. cbn [step]. rewrite Hcl1. unfold do_respond.
    destruct Hpc1 as [E|[req E]]; rewrite E; [auto|].
    destruct (lookup_ok_fields s1) as [_ [_ [_ [A [B _]]]]].
    destruct r as [applied| |codes]; [|destruct (cached s1)|]; unfold conn_failure; cbn; rewrite ?A, ?B; auto. }
  destruct H2 as [s2 [-> [Hcg2 [Hcl2 Hpc2]]]].
  (* Release *)
  cbn [step]. rewrite Hcl2. unfold do_release. rewrite Hpc2, Hcg2.
  destruct (remaining (release false (poms s2))); [left; reflexivity|].
  destruct n as [|[|k]]; [left; reflexivity | left; reflexivity|].
  right. cbn. repeat split; auto. now exists k.
Qed.

Lemma close_loop_terminates c : forall rs s n,
  pc s = Idle -> closing s = Some (S n) -> closed s = false -> (S n <= length rs)%nat ->
  closed (run c (flat_map attempt rs) s) = true.
Proof.
  induction rs as [|r rs IH]; intros s n Hpc Hcg Hcl Hn; [cbn in Hn; lia|].
  cbn [flat_map]. rewrite run_app.
  destruct (attempt_round c r s (S n) Hpc Hcg Hcl) as [H|[H1 [H2 [k [E H3]]]]].
  - now apply closed_stays_run.
  - injection E as ->. apply (IH _ k H1 H3 H2). cbn in Hn. lia.
Qed.

Theorem close_terminates c st0 ops rs :
  let s0 := reach c st0 ops in
  pc s0 = Idle -> closing s0 = None -> closed s0 = false ->
  length rs = S (c_retry_max c) ->
  closed (run c (flat_map attempt rs) (step c s0 CloseBegin)) = true.
Proof.
  intros s0 Hpc Hcg Hcl Hlen. cbn [step]. rewrite Hcl. unfold do_close_begin. rewrite Hpc, Hcg.
  destruct (c_autocommit c).
  - apply (close_loop_terminates c rs _ (c_retry_max c)); cbn; auto. lia.
  - apply closed_stays_run. reflexivity.
Qed.
