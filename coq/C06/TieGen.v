(* C06 — the hand model's leaf functions equal the definitions regenerated from offset_manager.go by decgen
   (golden coq/Gen/DecC06.v; every check regenerates them from the tree under test and proves them equal to that
   golden, coq/Tie/DecEq_C06.v).  Chain: source =[regenerate] SVB.DecC06 =[deceq lemmas] SV.Gen.DecC06 =[below] C06.Model.

   Adapters.  The generated definitions thread the three fields the Go methods touch as a tuple
   (pom.offset, pom.metadata, pom.dirty) and metadata is a Go string; the model keeps a record [pom] (with
   done/managed and two ghost fields) and names metadata strings by integers (0 = "").  [st_of enc x] projects
   the record; [enc] is any injective naming of strings with [enc 0 = ""] ([meta_enc_ok]); [menc] is one such
   naming, so the hypotheses are satisfiable.  All lemmas are pointwise, for all arguments. *)
From Coq Require Import List ZArith Bool String Ascii.
From SV Require Import Gen.GoInt Gen.DecTypes Gen.DecC06 C06.Model.
Import ListNotations.
Open Scope Z_scope.

(* ---- metadata naming ---------------------------------------------------------------------- *)
Definition meta_enc_ok (enc : Z -> string) : Prop :=
  (forall a b, enc a = enc b -> a = b) /\ enc 0 = ""%string.

Fixpoint pbits (p : positive) : string :=
  match p with
  | xH => ""%string
  | xO q => String "0"%char (pbits q)
  | xI q => String "1"%char (pbits q)
  end.

Definition menc (z : Z) : string :=
  match z with
  | Z0 => ""%string
  | Zpos p => String "p"%char (pbits p)
  | Zneg p => String "n"%char (pbits p)
  end.

Lemma pbits_inj : forall p q, pbits p = pbits q -> p = q.
Proof.
  induction p as [p IH|p IH|]; intros [q|q|] H; cbn [pbits] in H;
    try discriminate H; try reflexivity;
    injection H as H; apply IH in H; now subst.
Qed.

Lemma menc_ok : meta_enc_ok menc.
Proof.
  split; [|reflexivity].
  intros [|p|p] [|q|q] H; cbn [menc] in H; try discriminate H; try reflexivity;
    injection H as H; apply pbits_inj in H; now subst.
Qed.

Lemma enc_eqb : forall enc, meta_enc_ok enc -> forall a b, String.eqb (enc a) (enc b) = (a =? b).
Proof.
  intros enc [Hinj _] a b. destruct (a =? b) eqn:E.
  - apply Z.eqb_eq in E. subst. apply String.eqb_refl.
  - apply String.eqb_neq. intro H. apply Hinj in H. apply Z.eqb_neq in E. contradiction.
Qed.

(* ---- the state tuple of the generated definitions, read off the model's record --------------- *)
Definition st_of (enc : Z -> string) (x : pom) : Z * string * bool := (p_off x, enc (p_meta x), p_dirty x).

(* the fields outside the tuple, which the Go methods do not mention *)
Definition frame_of (x : pom) : bool * bool := (p_done x, p_managed x).

(* MarkOffset *)
Lemma tie_mark : forall enc o m x,
  st_of enc (Model.mark o m x) = DecC06.mark_offset (p_off x) (enc (p_meta x)) (p_dirty x) o (enc m) /\
  frame_of (Model.mark o m x) = frame_of x.
Proof.
  intros enc o m x. unfold Model.mark, DecC06.mark_offset, st_of, frame_of. cbv zeta.
  destruct (o >? p_off x); split; reflexivity.
Qed.

(* ResetOffset *)
Lemma tie_reset : forall enc o m x,
  st_of enc (Model.reset o m x) = DecC06.reset_offset (p_off x) (enc (p_meta x)) (p_dirty x) o (enc m) /\
  frame_of (Model.reset o m x) = frame_of x.
Proof.
  intros enc o m x. unfold Model.reset, DecC06.reset_offset, st_of, frame_of. cbv zeta.
  destruct (o <=? p_off x); split; reflexivity.
Qed.

(* updateCommitted *)
Lemma tie_update_committed : forall enc, meta_enc_ok enc -> forall o m x,
  st_of enc (Model.update_committed o m x) =
    DecC06.update_committed (p_off x) (enc (p_meta x)) (p_dirty x) o (enc m) /\
  frame_of (Model.update_committed o m x) = frame_of x.
Proof.
  intros enc Henc o m x. unfold Model.update_committed, DecC06.update_committed, st_of, frame_of. cbv zeta.
  rewrite (enc_eqb enc Henc).
  destruct ((p_off x =? o) && (p_meta x =? m)); split; reflexivity.
Qed.

(* NextOffset *)
Lemma tie_next_offset : forall enc, meta_enc_ok enc -> forall c x,
  (fst (Model.next_offset c x), enc (snd (Model.next_offset c x))) =
    DecC06.next_offset (p_off x) (enc (p_meta x)) (c_initial c).
Proof.
  intros enc [_ H0] c x. unfold Model.next_offset, DecC06.next_offset.
  destruct (p_off x >=? 0); cbn [fst snd]; [reflexivity | now rewrite H0].
Qed.

(* ---- handleResponse's per-partition verdict ------------------------------------------------ *)
(* The model merges "topic missing from the response" and "partition missing under the topic" into
   [get p codes = None], and spreads what the generated action list says over three functions
   (handle_one: the updateCommitted call; resp_errs: pom.handleError calls; resp_releases:
   om.releaseCoordinator).  The lemmas read the generated list with these three projections. *)
Definition acts_update (acts : list om_action) : bool :=
  existsb (fun a => match a with OM_update_committed _ _ => true | _ => false end) acts.
Definition acts_release (acts : list om_action) : bool :=
  existsb (fun a => match a with OM_release_coordinator => true | _ => false end) acts.
Fixpoint acts_errs (acts : list om_action) : list gerr :=
  match acts with
  | [] => []
  | OM_handle_error e :: r => e :: acts_errs r
  | _ :: r => acts_errs r
  end.
(* the model's error ids (Model.v header): Kafka code, -1 = ErrIncompleteResponse *)
Definition err_id (e : gerr) : Z := match e with EK c => c | _ => E_INCOMPLETE end.

(* the inputs of the generated slice for partition p: any (topic present?, code, code present?) triple that
   the model reads as [v : option Z] *)
Definition reads_as (tir : bool) (code : Z) (present : bool) (v : option Z) : Prop :=
  v = if tir && present then Some code else None.

(* the generated verdict, as a function of the model's verdict class *)
Definition acts_of (enc : Z -> string) (v : option Z) (bo bm : Z) : list om_action :=
  match v with
  | None => [OM_handle_error (EVar "ErrIncompleteResponse"%string)]
  | Some code =>
    match classify code with
    | VOk => [OM_update_committed bo (enc bm)]
    | VRedispatch => [OM_release_coordinator]
    | VUser => [OM_handle_error (EK code)]
    | VLoad => []
    | VOther => [OM_handle_error (EK code); OM_release_coordinator]
    end
  end.

Lemma tie_verdict_class : forall enc tir code present v bo bm,
  reads_as tir code present v ->
  DecC06.commit_verdict tir code present bo (enc bm) =
    (acts_of enc v bo bm, match v with Some _ => ExFall | None => ExContinue end).
Proof.
  intros enc tir code present v bo bm ->. unfold DecC06.commit_verdict, acts_of, classify. cbv zeta.
  destruct tir; cbn [negb andb]; [|reflexivity].
  destruct present; cbn [negb]; [|reflexivity].
  destruct (code =? 0); [reflexivity|].
  destruct ((code =? 6) || (code =? 5) || (code =? 15) || (code =? 16)); [reflexivity|].
  destruct ((code =? 12) || (code =? 28)); [reflexivity|].
  destruct (code =? 14); [reflexivity|].
  destruct (code =? 3); reflexivity.
Qed.

(* composed form: what the model does with a managed partition that has a block in the request is what the
   generated action list says *)
Lemma tie_verdict : forall enc tir code present req codes p x bo bm r,
  p_managed x = true -> get p req = Some (bo, bm) -> reads_as tir code present (get p codes) ->
  let acts := fst (DecC06.commit_verdict tir code present bo (enc bm)) in
  handle_one req codes p x =
    (if acts_update acts then Model.update_committed bo bm (applied_flag x) else x) /\
  (forall o s, In (OM_update_committed o s) acts -> o = bo /\ s = enc bm) /\
  resp_errs req codes ((p, x) :: r) = map (fun e => EvErr p (err_id e)) (acts_errs acts) ++ resp_errs req codes r /\
  resp_releases req codes ((p, x) :: r) = (acts_release acts || resp_releases req codes r).
Proof.
  intros enc tir code present req codes p x bo bm r Hm Hreq Hv.
  rewrite (tie_verdict_class enc tir code present _ bo bm Hv). cbn [fst].
  unfold handle_one. cbn [resp_errs resp_releases]. rewrite Hm, Hreq.
  destruct (get p codes) as [cd|]; cbn [acts_of].
  - destruct (classify cd); cbn [acts_update acts_release acts_errs existsb map app orb err_id];
      (split; [reflexivity|]); (split; [|split; reflexivity]);
      intros o s Hin; cbn [In] in Hin;
      repeat match goal with
             | H : _ \/ _ |- _ => destruct H as [H|H]
             | H : False |- _ => destruct H
             | H : OM_update_committed _ _ = OM_update_committed _ _ |- _ => injection H as <- <-; split; reflexivity
             | H : _ = OM_update_committed _ _ |- _ => discriminate H
             end.
  - cbn [acts_update acts_release acts_errs existsb map app orb err_id].
    split; [reflexivity|]. split; [|split; reflexivity].
    intros o s [H|[]]. discriminate H.
Qed.

(* the hypotheses are satisfiable on non-trivial values *)
Example tie_update_committed_example :
  let x := mkPom 7 3 true false true false false in
  st_of menc (Model.update_committed 7 3 x) = (7, menc 3, false) /\
  st_of menc (Model.update_committed 7 4 x) = (7, menc 3, true) /\
  DecC06.update_committed 7 (menc 3) true 7 (menc 4) = (7, menc 3, true).
Proof. repeat split. Qed.

Example tie_verdict_example :
  let x := mkPom 7 3 true false true false false in
  reads_as true 3 true (get 1 [(1, 3)]) /\
  fst (DecC06.commit_verdict true 3 true 7 (menc 3)) = [OM_handle_error (EK 3); OM_release_coordinator] /\
  resp_errs [(1, (7, 3))] [(1, 3)] [(1, x)] = [EvErr 1 3] /\
  resp_releases [(1, (7, 3))] [(1, 3)] [(1, x)] = true.
Proof. repeat split. Qed.
