(* C06 — the hand model's leaf functions equal the definitions regenerated from offset_manager.go by decgen
   (golden coq/Gen/DecC06.v; every check regenerates them from the tree under test and proves them equal to that
   golden, coq/Tie/DecEq_C06.v).  Chain: source =[regenerate] SVB.DecC06 =[deceq lemmas] SV.Gen.DecC06 =[below] C06.Model.

   Adapters.  The generated definitions thread the three fields the Go methods touch as a tuple
   (pom.offset, pom.metadata, pom.dirty) and metadata is a Go string; the model keeps a record [pom] (with
   done/managed and two ghost fields) and names metadata strings by integers (0 = "").  [st_of enc x] projects
   the record; [enc] is any injective naming of strings with [enc 0 = ""] ([meta_enc_ok]); [menc] is one such
   naming, so the hypotheses are satisfiable.  All lemmas are pointwise, for all arguments. *)
From Coq Require Import List ZArith Bool String Ascii Lia.
From SV Require Import Gen.GoInt Gen.DecTypes Gen.DecTypes2 Gen.DecC06 C06.Model C06.Spec C06.Proofs.
Import ListNotations.
Open Scope Z_scope.

(* ---- metadata naming ---------------------------------------------------------------------- *)
Definition meta_enc_ok (enc : Z -> string) : Prop :=
  (forall a b, enc a = enc b -> a = b) /\ enc 0 = ""%string.

Fixpoint pbits (p : positive) : string :=
  match p with
  | xH => ""%string
  | xO q => String "0"%char (pbits q)
  | xI q => String "1"%char (pbits q)
  end.

Definition menc (z : Z) : string :=
  match z with
  | Z0 => ""%string
  | Zpos p => String "p"%char (pbits p)
  | Zneg p => String "n"%char (pbits p)
  end.

Lemma pbits_inj : forall p q, pbits p = pbits q -> p = q.
Proof.
  induction p as [p IH|p IH|]; intros [q|q|] H; cbn [pbits] in H;
    try discriminate H; try reflexivity;
    injection H as H; apply IH in H; now subst.
Qed.

Lemma menc_ok : meta_enc_ok menc.
Proof.
  split; [|reflexivity].
  intros [|p|p] [|q|q] H; cbn [menc] in H; try discriminate H; try reflexivity;
    injection H as H; apply pbits_inj in H; now subst.
Qed.

Lemma enc_eqb : forall enc, meta_enc_ok enc -> forall a b, String.eqb (enc a) (enc b) = (a =? b).
Proof.
  intros enc [Hinj _] a b. destruct (a =? b) eqn:E.
  - apply Z.eqb_eq in E. subst. apply String.eqb_refl.
  - apply String.eqb_neq. intro H. apply Hinj in H. apply Z.eqb_neq in E. contradiction.
Qed.

(* ---- the state tuple of the generated definitions, read off the model's record --------------- *)
Definition st_of (enc : Z -> string) (x : pom) : Z * string * bool := (p_off x, enc (p_meta x), p_dirty x).

(* the fields outside the tuple, which the Go methods do not mention *)
Definition frame_of (x : pom) : bool * bool := (p_done x, p_managed x).

(* MarkOffset *)
Lemma tie_mark : forall enc o m x,
  st_of enc (Model.mark o m x) = DecC06.mark_offset (p_off x) (enc (p_meta x)) (p_dirty x) o (enc m) /\
  frame_of (Model.mark o m x) = frame_of x.
Proof.
  intros enc o m x. unfold Model.mark, DecC06.mark_offset, st_of, frame_of. cbv zeta.
  destruct (o >? p_off x); split; reflexivity.
Qed.

(* ResetOffset *)
Lemma tie_reset : forall enc o m x,
  st_of enc (Model.reset o m x) = DecC06.reset_offset (p_off x) (enc (p_meta x)) (p_dirty x) o (enc m) /\
  frame_of (Model.reset o m x) = frame_of x.
Proof.
  intros enc o m x. unfold Model.reset, DecC06.reset_offset, st_of, frame_of. cbv zeta.
  destruct (o <=? p_off x); split; reflexivity.
Qed.

(* updateCommitted *)
Lemma tie_update_committed : forall enc, meta_enc_ok enc -> forall o m x,
  st_of enc (Model.update_committed o m x) =
    DecC06.update_committed (p_off x) (enc (p_meta x)) (p_dirty x) o (enc m) /\
  frame_of (Model.update_committed o m x) = frame_of x.
Proof.
  intros enc Henc o m x. unfold Model.update_committed, DecC06.update_committed, st_of, frame_of. cbv zeta.
  rewrite (enc_eqb enc Henc).
  destruct ((p_off x =? o) && (p_meta x =? m)); split; reflexivity.
Qed.

(* NextOffset *)
Lemma tie_next_offset : forall enc, meta_enc_ok enc -> forall c x,
  (fst (Model.next_offset c x), enc (snd (Model.next_offset c x))) =
    DecC06.next_offset (p_off x) (enc (p_meta x)) (c_initial c).
Proof.
  intros enc [_ H0] c x. unfold Model.next_offset, DecC06.next_offset.
  destruct (p_off x >=? 0); cbn [fst snd]; [reflexivity | now rewrite H0].
Qed.

(* ---- handleResponse's per-partition verdict ------------------------------------------------ *)
(* The model merges "topic missing from the response" and "partition missing under the topic" into
   [get p codes = None], and spreads what the generated action list says over three functions
   (handle_one: the updateCommitted call; resp_errs: pom.handleError calls; resp_releases:
   om.releaseCoordinator).  The lemmas read the generated list with these three projections. *)
Definition acts_update (acts : list om_action) : bool :=
  existsb (fun a => match a with OM_update_committed _ _ => true | _ => false end) acts.
Definition acts_release (acts : list om_action) : bool :=
  existsb (fun a => match a with OM_release_coordinator => true | _ => false end) acts.
Fixpoint acts_errs (acts : list om_action) : list gerr :=
  match acts with
  | [] => []
  | OM_handle_error e :: r => e :: acts_errs r
  | _ :: r => acts_errs r
  end.
(* the model's error ids (Model.v header): Kafka code, -1 = ErrIncompleteResponse *)
Definition err_id (e : gerr) : Z := match e with EK c => c | _ => E_INCOMPLETE end.

(* the inputs of the generated slice for partition p: any (topic present?, code, code present?) triple that
   the model reads as [v : option Z] *)
Definition reads_as (tir : bool) (code : Z) (present : bool) (v : option Z) : Prop :=
  v = if tir && present then Some code else None.

(* the generated verdict, as a function of the model's verdict class *)
Definition acts_of (enc : Z -> string) (v : option Z) (bo bm : Z) : list om_action :=
  match v with
  | None => [OM_handle_error (EVar "ErrIncompleteResponse"%string)]
  | Some code =>
    match classify code with
    | VOk => [OM_update_committed bo (enc bm)]
    | VRedispatch => [OM_release_coordinator]
    | VUser => [OM_handle_error (EK code)]
    | VLoad => []
    | VOther => [OM_handle_error (EK code); OM_release_coordinator]
    end
  end.

Lemma tie_verdict_class : forall enc tir code present v bo bm,
  reads_as tir code present v ->
  DecC06.commit_verdict tir code present bo (enc bm) =
    (acts_of enc v bo bm, match v with Some _ => ExFall | None => ExContinue end).
Proof.
  intros enc tir code present v bo bm ->. unfold DecC06.commit_verdict, acts_of, classify. cbv zeta.
  destruct tir; cbn [negb andb]; [|reflexivity].
  destruct present; cbn [negb]; [|reflexivity].
  destruct (code =? 0); [reflexivity|].
  destruct ((code =? 6) || (code =? 5) || (code =? 15) || (code =? 16)); [reflexivity|].
  destruct ((code =? 12) || (code =? 28)); [reflexivity|].
  destruct (code =? 14); [reflexivity|].
  destruct (code =? 3); reflexivity.
Qed.

(* composed form: what the model does with a managed partition that has a block in the request is what the
   generated action list says *)
Lemma tie_verdict : forall enc tir code present req codes p x bo bm r,
  p_managed x = true -> get p req = Some (bo, bm) -> reads_as tir code present (get p codes) ->
  let acts := fst (DecC06.commit_verdict tir code present bo (enc bm)) in
  handle_one req codes p x =
    (if acts_update acts then Model.update_committed bo bm (applied_flag x) else x) /\
  (forall o s, In (OM_update_committed o s) acts -> o = bo /\ s = enc bm) /\
  resp_errs req codes ((p, x) :: r) = map (fun e => EvErr p (err_id e)) (acts_errs acts) ++ resp_errs req codes r /\
  resp_releases req codes ((p, x) :: r) = (acts_release acts || resp_releases req codes r).
Proof.
  intros enc tir code present req codes p x bo bm r Hm Hreq Hv.
  rewrite (tie_verdict_class enc tir code present _ bo bm Hv). cbn [fst].
  unfold handle_one. cbn [resp_errs resp_releases]. rewrite Hm, Hreq.
  destruct (get p codes) as [cd|]; cbn [acts_of].
  - destruct (classify cd); cbn [acts_update acts_release acts_errs existsb map app orb err_id];
      (split; [reflexivity|]); (split; [|split; reflexivity]);
      intros o s Hin; cbn [In] in Hin;
      repeat match goal with
             | H : _ \/ _ |- _ => destruct H as [H|H]
             | H : False |- _ => destruct H
             | H : OM_update_committed _ _ = OM_update_committed _ _ |- _ => injection H as <- <-; split; reflexivity
             | H : _ = OM_update_committed _ _ |- _ => discriminate H
             end.
  - cbn [acts_update acts_release acts_errs existsb map app orb err_id].
    split; [reflexivity|]. split; [|split; reflexivity].
    intros o s [H|[]]. discriminate H.
Qed.

(* the hypotheses are satisfiable on non-trivial values *)
Example tie_update_committed_example :
  let x := mkPom 7 3 true false true false false in
  st_of menc (Model.update_committed 7 3 x) = (7, menc 3, false) /\
  st_of menc (Model.update_committed 7 4 x) = (7, menc 3, true) /\
  DecC06.update_committed 7 (menc 3) true 7 (menc 4) = (7, menc 3, true).
Proof. repeat split. Qed.

Example tie_verdict_example :
  let x := mkPom 7 3 true false true false false in
  reads_as true 3 true (get 1 [(1, 3)]) /\
  fst (DecC06.commit_verdict true 3 true 7 (menc 3)) = [OM_handle_error (EK 3); OM_release_coordinator] /\
  resp_errs [(1, (7, 3))] [(1, 3)] [(1, x)] = [EvErr 1 3] /\
  resp_releases [(1, (7, 3))] [(1, 3)] [(1, x)] = true.
Proof. repeat split. Qed.

(* ==== second wave: the final-flush loop of Close and OffsetCommitRequest.AddBlock ================== *)

(* ---- Close: attempts --------------------------------------------------------------------------- *)
(* The generated slice runs om.flushToBroker() (action OC_flush) and reads om.releasePOMs(false) from a script of
   remaining-POM counts.  In the model one attempt is [attempt r] = Construct; Respond r; Release, the loop counter is
   [closing], the loop test sits in do_release.  [close_script] is the script the model itself produces along a run
   (remaining managed partitions after releasePOMs(false) of each attempt), [close_flush_count] the number of attempts the
   model makes (Construct reached with closed = false). *)
Definition before_release (c : cfg) (r : reply) (s : state) : state := step c (step c s Construct) (Respond r).
Definition rem_of (c : cfg) (r : reply) (s : state) : Z :=
  Z.of_nat (remaining (release false (poms (before_release c r s)))).

Fixpoint close_script (c : cfg) (s : state) (rs : list reply) : list Z :=
  match rs with
  | [] => []
  | r :: rest => rem_of c r s :: close_script c (run c (attempt r) s) rest
  end.

Fixpoint close_flush_count (c : cfg) (s : state) (rs : list reply) : nat :=
  match rs with
  | [] => O
  | r :: rest => if closed s then O else S (close_flush_count c (run c (attempt r) s) rest)
  end.

Lemma close_flush_count_closed c rs : forall s, closed s = true -> close_flush_count c s rs = O.
Proof. destruct rs; intros s H; cbn; [reflexivity | now rewrite H]. Qed.

(* one attempt, exactly: Close ends iff nothing remains or this was the last permitted attempt *)
Lemma attempt_exact c r s n :
  pc s = Idle -> closing s = Some n -> closed s = false ->
  let s' := run c (attempt r) s in
  if (rem_of c r s =? 0) || (n <=? 1)%nat then closed s' = true
  else pc s' = Idle /\ closed s' = false /\ closing s' = Some (pred n).
Proof.
  intros Hpc Hcg Hcl. unfold rem_of, before_release. cbn [attempt run fold_left].
  assert (H1 : closing (step c s Construct) = Some n /\ closed (step c s Construct) = false /\
               (pc (step c s Construct) = Flushed \/ exists req, pc (step c s Construct) = Window req)).
  { cbn [step]. rewrite Hcl, Hpc. unfold do_construct.
    destruct (blocks_of (poms s)); cbn; repeat split; auto. right. eauto. }
  remember (step c s Construct) as s1 eqn:E1. clear E1. destruct H1 as [Hcg1 [Hcl1 Hpc1]].
  assert (H2 : closing (step c s1 (Respond r)) = Some n /\ closed (step c s1 (Respond r)) = false /\
               pc (step c s1 (Respond r)) = Flushed).
  { cbn [step]. rewrite Hcl1. unfold do_respond.
    destruct Hpc1 as [E|[req E]]; rewrite E; [auto|].
    destruct (lookup_ok_fields s1) as [_ [_ [_ [A [B _]]]]].
    destruct r as [applied| |codes]; [|destruct (cached s1)|]; unfold conn_failure; cbn; rewrite ?A, ?B; auto. }
  remember (step c s1 (Respond r)) as s2 eqn:E2. clear E2. destruct H2 as [Hcg2 [Hcl2 Hpc2]].
  cbn [step]. rewrite Hcl2. unfold do_release. rewrite Hpc2, Hcg2.
  destruct (remaining (release false (poms s2))) as [|m]; [reflexivity|].
  replace (Z.of_nat (S m) =? 0) with false by (symmetry; apply Z.eqb_neq; lia). cbn [orb].
  destruct n as [|[|k]]; cbn [Nat.leb pred]; [reflexivity | reflexivity|].
  cbn. repeat split; auto.
Qed.

Lemma tie_close_loop c ac rm : forall rs s n a acts,
  pc s = Idle -> closing s = Some (S n) -> closed s = false -> (S n <= List.length rs)%nat ->
  DecC06.close_final_flush_loop1 (S n) a (close_script c s rs) ac rm acts =
    (skipn (close_flush_count c s rs) (close_script c s rs),
     acts ++ repeat OC_flush (close_flush_count c s rs), @ExFall unit).
Proof.
  induction rs as [|r rs IH]; intros s n a acts Hpc Hcg Hcl Hlen; [cbn in Hlen; lia|].
  cbn [close_script close_flush_count DecC06.close_final_flush_loop1 pop]. rewrite Hcl.
  pose proof (attempt_exact c r s (S n) Hpc Hcg Hcl) as Hx. cbv zeta in Hx.
  destruct (rem_of c r s =? 0) eqn:Er; cbn [orb] in Hx.
  - rewrite (close_flush_count_closed c rs _ Hx). reflexivity.
  - destruct n as [|m]; cbn [Nat.leb pred] in Hx.
    + rewrite (close_flush_count_closed c rs _ Hx). reflexivity.
    + destruct Hx as [Hpc' [Hcl' Hcg']].
      rewrite (IH _ m (a + 1) (acts ++ [OC_flush]) Hpc' Hcg' Hcl') by (cbn in Hlen; lia).
      cbn [skipn repeat]. rewrite <- app_assoc. reflexivity.
Qed.

(* Close as a whole: the generated slice, fed with the remaining counts the model produces and the model's configuration,
   makes exactly the attempts the model makes (and reads exactly that much of the script) *)
Lemma tie_close_attempts : forall c s0 rs,
  pc s0 = Idle -> closing s0 = None -> closed s0 = false -> (S (c_retry_max c) <= List.length rs)%nat ->
  let s1 := step c s0 CloseBegin in
  let k := close_flush_count c s1 rs in
  DecC06.close_final_flush (close_script c s1 rs) (c_autocommit c) (Z.of_nat (c_retry_max c)) =
    (skipn k (close_script c s1 rs), repeat OC_flush k, @ExFall unit) /\
  (k <= S (c_retry_max c))%nat.
Proof.
  intros c s0 rs Hpc Hcg Hcl Hlen. cbv zeta. cbn [step]. rewrite Hcl. unfold do_close_begin. rewrite Hpc, Hcg.
  unfold DecC06.close_final_flush. destruct (c_autocommit c).
  - replace (Z.to_nat (Z.of_nat (c_retry_max c) - 0 + 1)) with (S (c_retry_max c)) by lia.
    match goal with |- context [close_script c ?s rs] => set (s1 := s) end.
    assert (E := tie_close_loop c true (Z.of_nat (c_retry_max c)) rs s1 (c_retry_max c) 0 []
                   eq_refl eq_refl Hcl Hlen).
    split; [exact E|].
    (* the action list has at most fuel elements *)
    clear E. assert (G : forall rs s n, pc s = Idle -> closing s = Some n -> closed s = false ->
                          (close_flush_count c s rs <= n)%nat \/ n = O).
    { clear. induction rs as [|r rs IH]; intros s n Hpc Hcg Hcl; [left; cbn; lia|].
      cbn [close_flush_count]. rewrite Hcl.
      pose proof (attempt_exact c r s n Hpc Hcg Hcl) as Hx. cbv zeta in Hx.
      destruct ((rem_of c r s =? 0) || (n <=? 1)%nat) eqn:Eb.
      - rewrite (close_flush_count_closed c rs _ Hx). destruct n; [right; reflexivity | left; lia].
      - destruct Hx as [Hpc' [Hcl' Hcg']]. apply orb_false_elim in Eb. destruct Eb as [_ Eb].
        apply Nat.leb_gt in Eb. destruct (IH _ _ Hpc' Hcg' Hcl') as [H|H]; [left; lia | lia]. }
    destruct (G rs s1 (S (c_retry_max c)) eq_refl eq_refl Hcl) as [H|H]; [exact H | discriminate H].
  - rewrite close_flush_count_closed by reflexivity. split; [reflexivity | lia].
Qed.

(* ---- AddBlock ---------------------------------------------------------------------------------- *)
(* The generated definition lists the map writes of AddBlock under the two nil tests.  Read on a two-level map
   (r.blocks : topic -> partition -> block, nil = None) they are a point update, and the request the model logs
   ([req_event], keyed by the model's partition ids) is, partition for partition, what AddBlock calls for its blocks build. *)
Definition blk : Type := (Z * Z * string)%type.                  (* offset, timestamp, metadata *)
Definition tmap : Type := Z -> option blk.                        (* r.blocks[topic] *)
Definition nreq : Type := option (string -> option tmap).         (* r.blocks; None = nil *)

Definition topic_of (r : nreq) (t : string) : option tmap := match r with Some f => f t | None => None end.
Definition nlookup (r : nreq) (t : string) (p : Z) : option blk :=
  match topic_of r t with Some m => m p | None => None end.
Definition is_none {A : Type} (o : option A) : bool := match o with None => true | Some _ => false end.

Definition ab_apply (t : string) (p : Z) (r : nreq) (a : ab_action) : nreq :=
  match a with
  | AB_make_blocks => Some (fun _ => None)
  | AB_make_topic => Some (fun t' => if String.eqb t' t then Some (fun _ => None) else topic_of r t')
  | AB_set_block b =>
      Some (fun t' => if String.eqb t' t
                      then Some (fun p' => if p' =? p then Some b else nlookup r t p')
                      else topic_of r t')
  end.

(* AddBlock on a request: the generated action list under the request's own nil tests, executed *)
Definition add_block_on (r : nreq) (t : string) (p o ts : Z) (m : string) : nreq :=
  fold_left (ab_apply t p) (DecC06.add_block t p o ts m (is_none r) (is_none (topic_of r t))) r.

Lemma tie_add_block_update : forall r t p o ts m t' p',
  nlookup (add_block_on r t p o ts m) t' p' =
    if String.eqb t' t && (p' =? p) then Some (o, ts, m) else nlookup r t' p'.
Proof.
  intros r t p o ts m t' p'. unfold add_block_on, DecC06.add_block. cbv zeta.
  destruct r as [f|]; cbn [is_none topic_of]; [destruct (f t) as [mp|] eqn:Ef|];
    cbn [is_none app fold_left ab_apply]; unfold nlookup; cbn [topic_of];
    (destruct (String.eqb t' t) eqn:Et; cbn [andb]; [|reflexivity]);
    apply String.eqb_eq in Et; subst t'; rewrite ?String.eqb_refl, ?Ef;
    destruct (p' =? p); reflexivity.
Qed.

(* the blocks of the request the model logs *)
Definition event_blocks (c : cfg) (req : list (pid * (Z * Z))) : list (pid * (Z * Z * Z)) :=
  map (fun b => (fst b, (fst (snd b), if c_retention c =? 0 then -1 else 0, snd (snd b)))) req.

Lemma req_event_blocks c req : req_event c req = EvReq (req_version c) (c_retention c) (event_blocks c req).
Proof. reflexivity. Qed.

Definition enc_blk (enc : Z -> string) (b : Z * Z * Z) : blk := (fst (fst b), snd (fst b), enc (snd b)).

(* constructRequest's AddBlock calls, one per block; [tp] names the model's partition ids as (topic, partition) *)
Definition build (enc : Z -> string) (tp : pid -> string * Z) (l : list (pid * (Z * Z * Z))) (r0 : nreq) : nreq :=
  fold_left (fun r b => add_block_on r (fst (tp (fst b))) (snd (tp (fst b)))
                                     (fst (fst (snd b))) (snd (fst (snd b))) (enc (snd (snd b)))) l r0.

Lemma get_app {A : Type} k (l1 l2 : list (pid * A)) :
  get k (l1 ++ l2) = match get k l1 with Some v => Some v | None => get k l2 end.
Proof. induction l1 as [|[k' v] l1 IH]; cbn; [reflexivity|]. destruct (k =? k'); [reflexivity | exact IH]. Qed.

Lemma tp_eqb (tp : pid -> string * Z) : (forall a b, tp a = tp b -> a = b) ->
  forall q p, String.eqb (fst (tp q)) (fst (tp p)) && (snd (tp q) =? snd (tp p)) = (q =? p).
Proof.
  intros Hinj q p. destruct (q =? p) eqn:E.
  - apply Z.eqb_eq in E. subst. now rewrite String.eqb_refl, Z.eqb_refl.
  - apply andb_false_iff. destruct (String.eqb (fst (tp q)) (fst (tp p))) eqn:E1; [right | now left].
    apply Z.eqb_neq. intro E2. apply String.eqb_eq in E1. apply Z.eqb_neq in E. apply E, Hinj.
    destruct (tp q), (tp p); cbn in *; now subst.
Qed.

Lemma build_lookup enc tp : (forall a b, tp a = tp b -> a = b) -> forall l r0 q,
  nlookup (build enc tp l r0) (fst (tp q)) (snd (tp q)) =
    match get q (rev l) with
    | Some b => Some (enc_blk enc b)
    | None => nlookup r0 (fst (tp q)) (snd (tp q))
    end.
Proof.
  intros Hinj. induction l as [|[p [[o ts] m]] l IH]; intros r0 q; [reflexivity|].
  change (build enc tp ((p, (o, ts, m)) :: l) r0)
    with (build enc tp l (add_block_on r0 (fst (tp p)) (snd (tp p)) o ts (enc m))).
  cbn [rev]. rewrite IH, get_app.
  destruct (get q (rev l)); [reflexivity|].
  rewrite tie_add_block_update, (tp_eqb tp Hinj). cbn [get]. destruct (q =? p); reflexivity.
Qed.

(* the request the model logs is what the generated AddBlock builds from an empty request, block by block
   ([get q (rev l)]: the last call for a partition wins, as in a Go map; the model's requests have one block per partition) *)
Lemma tie_add_block : forall enc (tp : pid -> string * Z), (forall a b, tp a = tp b -> a = b) ->
  forall c req q,
  req_event c req = EvReq (req_version c) (c_retention c) (event_blocks c req) /\
  nlookup (build enc tp (event_blocks c req) None) (fst (tp q)) (snd (tp q)) =
    option_map (enc_blk enc) (get q (rev (event_blocks c req))).
Proof.
  intros enc tp Hinj c req q. split; [reflexivity|].
  rewrite (build_lookup enc tp Hinj). destruct (get q (rev (event_blocks c req))); reflexivity.
Qed.

Example tie_close_attempts_example :
  DecC06.close_final_flush [2; 1; 0; 5] true 3 = ([5], [OC_flush; OC_flush; OC_flush], @ExFall unit) /\
  DecC06.close_final_flush [2; 1; 1; 5] true 1 = ([1; 5], [OC_flush; OC_flush], @ExFall unit) /\
  DecC06.close_final_flush [2; 1] false 3 = ([2; 1], [], @ExFall unit).
Proof. repeat split. Qed.

Example tie_add_block_example :
  let r := add_block_on (add_block_on None "t" 0 5 (-1) "a") "t" 1 7 (-1) "b" in
  nlookup r "t" 0 = Some (5, -1, "a"%string) /\ nlookup r "t" 1 = Some (7, -1, "b"%string) /\ nlookup r "u" 0 = None.
Proof. repeat split. Qed.
