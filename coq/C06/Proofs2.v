(* C06 — the property theorems over the offset-manager model (all operation lists, all replies). *)
From Coq Require Import List ZArith Bool Lia.
From SV Require Import C06.Model C06.Spec C06.Proofs.
Import ListNotations.
Open Scope Z_scope.


Lemma Inv_reach c st0 ops : Inv (reach c st0 ops).
Proof. apply Inv_run, Inv_init. Qed.

(* ---- MarkOffset never lowers, ResetOffset never raises, nothing else moves the position ---------- *)
Theorem mark_monotone c s p o m q x :
  get q (poms s) = Some x ->
  exists x', get q (poms (step c s (Mark p o m))) = Some x' /\ p_off x <= p_off x' /\
             (p_off x' = p_off x /\ p_meta x' = p_meta x \/ q = p /\ p_off x' = o /\ p_meta x' = m /\ p_off x < o).
Proof.
  intros G. cbn [step]. rewrite on_pom_get. destruct (Z.eqb q p) eqn:E.
  - apply Z.eqb_eq in E; subst q. rewrite G. eexists; split; [reflexivity|].
    unfold mark. destruct (o >? p_off x) eqn:C; cbn.
    + apply Z.gtb_lt in C. split; [lia|]. right. repeat split; lia.
    + split; [lia|]. now left.
  - exists x. split; [exact G|]. split; [lia|]. now left.
Qed.

Theorem reset_downward c s p o m q x :
  get q (poms s) = Some x ->
  exists x', get q (poms (step c s (Reset p o m))) = Some x' /\ p_off x' <= p_off x /\
             (p_off x' = p_off x /\ p_meta x' = p_meta x \/ q = p /\ p_off x' = o /\ p_meta x' = m /\ o <= p_off x).
Proof.
  intros G. cbn [step]. rewrite on_pom_get. destruct (Z.eqb q p) eqn:E.
  - apply Z.eqb_eq in E; subst q. rewrite G. eexists; split; [reflexivity|].
    unfold reset. destruct (o <=? p_off x) eqn:C; cbn.
    + apply Z.leb_le in C. split; [lia|]. right. repeat split; lia.
    + split; [lia|]. now left.
  - exists x. split; [exact G|]. split; [lia|]. now left.
Qed.


Lemma handle_one_pair req codes p x : pair_of (handle_one req codes p x) = pair_of x.
Proof.
  destruct (handle_one_cases req codes p x) as [[E _]|[bo [bm [_ [_ [_ E]]]]]]; cbn zeta in E; rewrite E; [reflexivity|].
  unfold update_committed. destruct ((p_off (applied_flag x) =? bo) && (p_meta (applied_flag x) =? bm)); reflexivity.
Qed.

Lemma conn_pair (req : list (pid * (Z * Z))) applied k y :
  pair_of (if p_managed y && memz k applied then match get k req with Some _ => applied_flag y | None => y end else y) = pair_of y.
Proof. destruct (p_managed y && memz k applied); [destruct (get k req)|]; reflexivity. Qed.

(* every other operation (commit machinery, AsyncClose, Close) keeps every pending position *)
Theorem position_kept c s o q x :
  moves_position o = false -> get q (poms s) = Some x ->
  exists x', get q (poms (step c s o)) = Some x' /\ pair_of x' = pair_of x.
Proof.
  intros Hm G.
  assert (Hmap : forall F : pid -> pom -> pom, (forall k y, pair_of (F k y) = pair_of y) ->
                 exists x', get q (mapv F (poms s)) = Some x' /\ pair_of x' = pair_of x).
  { intros F HF. rewrite get_mapv, G. eexists; split; [reflexivity | apply HF]. }
  assert (Hrel : forall force, exists x', get q (release force (poms s)) = Some x' /\ pair_of x' = pair_of x).
  { intros force. apply Hmap. intros k y. now destruct (p_managed y && release_due force y). }
  assert (Hrel2 : forall force l x0, get q l = Some x0 -> pair_of x0 = pair_of x ->
                  exists x', get q (release force l) = Some x' /\ pair_of x' = pair_of x).
  { intros force l x0 G0 P0. unfold release. rewrite get_mapv, G0. eexists; split; [reflexivity|].
    rewrite <- P0. now destruct (p_managed x0 && release_due force x0). }
  destruct o; try discriminate; cbn [step].
  - rewrite on_pom_get. destruct (Z.eqb q p) eqn:E.
    + apply Z.eqb_eq in E; subst q. rewrite G. eexists; split; reflexivity.
    + now exists x.
  - destruct (closed s); [now exists x|]. destruct (pc s); try now exists x.
    unfold do_construct. destruct (blocks_of (poms s)); cbn [poms]; [now exists x|].
    apply Hmap. intros k y. now destruct (wants y).
  - destruct (closed s); [now exists x|]. unfold do_respond. destruct (pc s) as [|req|]; try now exists x.
    destruct (lookup_ok_fields s) as [Hp _].
    destruct r as [applied| |codes].
    + unfold conn_failure; cbn [poms]. rewrite Hp. apply Hmap. intros k y. apply conn_pair.
    + destruct (cached s); [|now exists x]. unfold conn_failure; cbn [poms]. apply Hmap. intros k y.
      apply (conn_pair req []).
    + cbn [poms]. rewrite Hp. apply Hmap. intros k y. apply handle_one_pair.
  - destruct (closed s); [now exists x|]. unfold do_release. destruct (pc s); try now exists x.
    destruct (Hrel false) as [x1 [G1 P1]].
    destruct (closing s) as [n|]; cbn [poms]; [|now exists x1].
    destruct (remaining (release false (poms s))); [cbn [poms finalize]; now apply (Hrel2 true _ x1)|].
    destruct n as [|[|k]]; cbn [poms finalize]; [now apply (Hrel2 true _ x1) | now apply (Hrel2 true _ x1) | now exists x1].
  - destruct (closed s); [now exists x|]. unfold do_close_begin. destruct (pc s); try now exists x.
    destruct (closing s); [now exists x|].
    assert (H1 : exists x', get q (mapv (fun _ y => if p_managed y then async_close y else y) (poms s)) = Some x' /\ pair_of x' = pair_of x).
    { apply Hmap. intros k y. now destruct (p_managed y). }
    destruct H1 as [x1 [G1 P1]].
    destruct (c_autocommit c); cbn [poms finalize]; [now exists x1 | now apply (Hrel2 true _ x1)].
Qed.

(* ---- NextOffset -------------------------------------------------------------------------------------- *)
Theorem next_offset_spec c x :
  next_offset c x = if 0 <=? p_off x then (p_off x, p_meta x) else (c_initial c, 0).
Proof. unfold next_offset. rewrite Z.geb_leb. reflexivity. Qed.

Theorem next_offset_fresh c s p :
  closed s = false -> (forall x, get p (poms s) = Some x -> p_managed x = false) ->
  exists x, get p (poms (step c s (Manage p))) = Some x /\ p_managed x = true /\ p_dirty x = false /\
            pair_of x = store_get p s /\
            next_offset c x = if 0 <=? fst (store_get p s) then store_get p s else (c_initial c, 0).
Proof.
  intros Hc Hun. cbn [step]. rewrite Hc. unfold do_manage.
  destruct (lookup_ok_fields s) as [Hp [Hs _]]. rewrite Hp, (store_get_ext p s (lookup_ok s) Hs).
  assert (H : exists x, get p (poms (with_poms (lookup_ok s) (set p (fresh (store_get p s)) (poms s)))) = Some x /\
              p_managed x = true /\ p_dirty x = false /\ pair_of x = store_get p s /\
              next_offset c x = if 0 <=? fst (store_get p s) then store_get p s else (c_initial c, 0)).
  { cbn [poms with_poms]. rewrite get_set_same. eexists; split; [reflexivity|].
    rewrite next_offset_spec. unfold fresh, pair_of; cbn. destruct (store_get p s); cbn. repeat split. }
  destruct (get p (poms s)) as [x|] eqn:G; [|exact H].
  rewrite (Hun x eq_refl). exact H.
Qed.

(* ---- no mark is lost ------------------------------------------------------------------------------- *)
Theorem no_lost_mark c st0 ops p x :
  get p (poms (reach c st0 ops)) = Some x -> p_managed x = true ->
  p_dirty x = true \/ store_get p (reach c st0 ops) = pair_of x.
Proof.
  intros G M. destruct (p_dirty x) eqn:D; [now left | right].
  now apply (inv_clean _ (Inv_reach c st0 ops) p x).
Qed.

Theorem dirty_is_sent c st0 ops p x :
  let s := reach c st0 ops in
  pc s = Idle -> closed s = false ->
  get p (poms s) = Some x -> p_managed x = true -> p_dirty x = true ->
  exists req, pc (step c s Construct) = Window req /\ get p req = Some (pair_of x).
Proof.
  intros s Hpc Hcl G M D. cbn [step]. rewrite Hcl, Hpc. unfold do_construct.
  assert (Hb : get p (blocks_of (poms s)) = Some (pair_of x)).
  { rewrite get_blocks_of by apply (Inv_reach c st0 ops). fold s. rewrite G. unfold wants. now rewrite M, D. }
  destruct (blocks_of (poms s)) as [|b0 br] eqn:B; [discriminate|].
  eexists; split; [reflexivity | exact Hb].
Qed.


Theorem sent_is_logged c s req r :
  closed s = false -> pc s = Window req -> reaches_coordinator s r = true ->
  In (req_event c req) (log (step c s (Respond r))).
Proof.
  intros Hcl Hpc Hr. cbn [step]. rewrite Hcl. unfold do_respond. rewrite Hpc.
  destruct r as [applied| |codes]; cbn in Hr.
  - unfold conn_failure; cbn [log]. apply in_or_app. right. now left.
  - rewrite Hr. unfold conn_failure; cbn [log]. apply in_or_app. right. now left.
  - cbn [log]. apply in_or_app. right. now left.
Qed.

(* ---- the stored offset goes backwards only after a lowering ResetOffset --------------------------------- *)
Lemma step_store_same c s o : (forall r, o <> Respond r) -> store (step c s o) = store s.
Proof.
  intros Hn. destruct o; cbn [step]; try (match goal with |- store (on_pom ?p ?f ?s) = _ => destruct (on_pom_fields p f s) as [H _]; exact H end);
    destruct (closed s); try reflexivity.
  - unfold do_manage. destruct (lookup_ok_fields s) as [_ [Hs _]].
    destruct (get p (poms (lookup_ok s))) as [x|]; [destruct (p_managed x)|]; cbn [store with_poms]; exact Hs.
  - destruct (pc s); try reflexivity. unfold do_construct. now destruct (blocks_of (poms s)).
  - now destruct (Hn r).
  - unfold do_release. destruct (pc s); try reflexivity. destruct (closing s) as [n|]; [|reflexivity].
    destruct (remaining (release false (poms s))); [reflexivity|]. now destruct n as [|[|k]].
  - unfold do_close_begin. destruct (pc s); try reflexivity. destruct (closing s); [reflexivity|].
    now destruct (c_autocommit c).
Qed.

Lemma write_regress s req sel p :
  Inv s -> pc s = Window req ->
  fst (match get p (write_blocks sel req (store s)) with Some v => v | None => (-1, 0) end) < fst (store_get p s) ->
  exists x, get p (poms s) = Some x /\ p_managed x = true /\ g_low_store x = true.
Proof.
  intros HI Hw. rewrite get_write_blocks. fold (store_get p s).
  destruct (sel p); [|unfold store_get; lia].
  destruct (get p req) as [[bo bm]|] eqn:R; [|unfold store_get; lia].
  cbn [fst]. intros Hlt.
  destruct (inv_window s HI req Hw p bo bm R) as [x [Hx [Mx [_ [_ L2]]]]].
  exists x. repeat split; try assumption.
  destruct (g_low_store x); [reflexivity|]. specialize (L2 eq_refl). lia.
Qed.

Theorem store_regress_step c s o p :
  Inv s -> fst (store_get p (step c s o)) < fst (store_get p s) ->
  exists x, get p (poms s) = Some x /\ p_managed x = true /\ g_low_store x = true.
Proof.
  intros HI Hlt.
  assert (Hsame : forall s', store s' = store s -> fst (store_get p s') < fst (store_get p s) -> False).
  { intros s' E. rewrite (store_get_ext p s s' E). lia. }
  destruct o as [q|q o1 m1|q o1 m1|q| |r| |]; try (exfalso; refine (Hsame _ _ Hlt); apply step_store_same; discriminate).
  cbn [step] in Hlt. destruct (closed s); [lia|]. unfold do_respond in Hlt.
  destruct (pc s) as [|req|] eqn:Hw; try lia.
  destruct (lookup_ok_fields s) as [Hp [Hs [Hpc _]]].
  destruct r as [applied| |codes].
  - unfold conn_failure, store_get at 1 in Hlt; cbn [store] in Hlt. rewrite Hs in Hlt.
    eapply (write_regress s req _ p HI Hw); exact Hlt.
  - destruct (cached s).
    + unfold conn_failure, store_get at 1 in Hlt; cbn [store] in Hlt. eapply (write_regress s req _ p HI Hw); exact Hlt.
    + unfold store_get at 1 in Hlt; cbn [store] in Hlt. fold (store_get p s) in Hlt. lia.
  - unfold store_get at 1 in Hlt; cbn [store] in Hlt. rewrite Hs in Hlt.
    eapply (write_regress s req _ p HI Hw); exact Hlt.
Qed.
