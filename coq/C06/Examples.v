(* C06 — the hypotheses of the property theorems are satisfiable on non-trivial states
   (each example is evaluated on the executable model). *)
From Coq Require Import List ZArith Bool.
From SV Require Import C06.Model C06.Spec.
Import ListNotations.
Open Scope Z_scope.

Definition cfgA : cfg := {| c_retry_max := 2; c_autocommit := true; c_retention := 0; c_initial := -1 |}.
Definition ok0 : reply := RResp [(0, 0); (1, 0)].

(* a mark inside the commit window *)
Definition opsW : list op :=
  [Manage 0; Manage 1; Mark 0 5 1; Mark 1 3 1; Construct; Mark 0 8 2; Respond ok0; Release].
Definition sW := reach cfgA [] opsW.

(* c06_committed_is_marked: a request with two blocks is in the log *)
Example ex_committed : In (EvReq 1 0 [(0, (5, -1, 1)); (1, (3, -1, 1))]) (log sW).
Proof. vm_compute. auto. Qed.

(* c06_no_lost_mark: after the accepted commit partition 0 is still dirty (it was marked inside the
   window), partition 1 is clean and stored; c06_dirty_is_sent: the next request carries (8, 2) *)
Example ex_window_mark_kept :
  option_map p_dirty (get 0 (poms sW)) = Some true /\ option_map pair_of (get 0 (poms sW)) = Some (8, 2) /\
  option_map p_dirty (get 1 (poms sW)) = Some false /\ store_get 1 sW = (3, 1) /\ store_get 0 sW = (5, 1) /\
  pc sW = Idle /\ closed sW = false /\
  pc (step cfgA sW Construct) = Window [(0, (8, 2))].
Proof. vm_compute. repeat split. Qed.

(* c06_sent_is_logged *)
Example ex_sent : reaches_coordinator (step cfgA sW Construct) (RConn [0]) = true /\
  In (EvReq 1 0 [(0, (8, -1, 2))]) (log (step cfgA (step cfgA sW Construct) (Respond (RConn [0])))).
Proof. vm_compute. auto. Qed.

(* c06_mark_monotone / c06_reset_downward / c06_position_kept on a state with a request in flight *)
Definition sF := reach cfgA [] [Manage 0; Mark 0 5 1; Construct].
Example ex_mark_reset :
  option_map pair_of (get 0 (poms (step cfgA sF (Mark 0 8 2)))) = Some (8, 2) /\
  option_map pair_of (get 0 (poms (step cfgA sF (Mark 0 4 2)))) = Some (5, 1) /\
  option_map pair_of (get 0 (poms (step cfgA sF (Reset 0 4 2)))) = Some (4, 2) /\
  option_map pair_of (get 0 (poms (step cfgA sF (Reset 0 9 2)))) = Some (5, 1) /\
  option_map pair_of (get 0 (poms (step cfgA sF (Respond (RResp [(0, 3)]))))) = Some (5, 1).
Proof. vm_compute. repeat split. Qed.

(* c06_store_no_regress: the hypothesis (a step that lowers the stored offset) occurs, after a Reset *)
Definition opsR : list op :=
  [Manage 0; Mark 0 8 1; Construct; Respond ok0; Release; Reset 0 2 1; Construct].
Example ex_regress :
  fst (store_get 0 (step cfgA (reach cfgA [] opsR) (Respond ok0))) < fst (store_get 0 (reach cfgA [] opsR)).
Proof. vm_compute. reflexivity. Qed.

(* c06_store_monotone_without_reset on a run with failures and a re-managed partition *)
Definition opsM : list op :=
  [Manage 0; Mark 0 5 1; Construct; Respond (RConn [0]); Release; Mark 0 8 1; PClose 0; Construct; Respond ok0; Release;
   Manage 0; Mark 0 9 2; Construct; Respond (RResp [(0, 14)]); Release].
Example ex_monotone : (forall o m, ~ In (Reset 0 o m) opsM) /\
  map (fun n => fst (store_get 0 (reach cfgA [] (firstn n opsM)))) [0; 4; 9; 15]%nat = [-1; 5; 8; 8].
Proof.
  split; [|vm_compute; reflexivity].
  intros o m H. cbn in H. repeat (destruct H as [H|H]; [discriminate|]). exact H.
Qed.

(* c06_next_offset: a fresh handle starts from the stored position, or from the configured initial one *)
Example ex_next_offset :
  option_map (next_offset cfgA) (get 0 (poms (step cfgA (init [(0, (4, 7))]) (Manage 0)))) = Some (4, 7) /\
  option_map (next_offset cfgA) (get 1 (poms (step cfgA (init [(0, (4, 7))]) (Manage 1)))) = Some (-1, 0).
Proof. vm_compute. split; reflexivity. Qed.

(* c06_close_flushes: Close with a refused-then-accepted pair of attempts is outside the theorem's
   hypothesis for the refused partition; with accepting attempts the run ends closed and flushed *)
Definition opsC : list op := [Manage 0; Manage 1; Mark 0 5 1; Construct; Respond (RResp [(0, 14)]); Release; Mark 1 7 2].
Definition restC : list op := [Construct; Respond (RResp [(0, 0); (1, 16)]); Release; Construct; Respond ok0; Release].
Example ex_close :
  pc (reach cfgA [] opsC) = Idle /\ closing (reach cfgA [] opsC) = None /\ closed (reach cfgA [] opsC) = false /\
  forallb (fun o => committer_op o && accepts 0 o) restC = true /\
  closed (run cfgA restC (step cfgA (reach cfgA [] opsC) CloseBegin)) = true /\
  store_get 0 (run cfgA restC (step cfgA (reach cfgA [] opsC) CloseBegin)) = (5, 1) /\
  store_get 1 (run cfgA restC (step cfgA (reach cfgA [] opsC) CloseBegin)) = (7, 2).
Proof. vm_compute. repeat split. Qed.

(* c06_close_terminates: three refused attempts (Retry.Max = 2), Close still returns; the mark stays unflushed *)
Example ex_close_refused :
  let s1 := run cfgA (flat_map attempt [RConn []; RResp [(0, 14)]; RNoCoord]) (step cfgA (reach cfgA [] opsC) CloseBegin) in
  closed s1 = true /\ store_get 0 s1 = (-1, 0).
Proof. vm_compute. split; reflexivity. Qed.
