(* C06 — vocabulary of the property statements (definitions only, no proofs). *)
From Coq Require Import List ZArith Bool.
From SV Require Import C06.Model.
Import ListNotations.
Open Scope Z_scope.

(* the state after an arbitrary operation list, from an empty manager and an arbitrary coordinator store *)
Definition reach (c : cfg) (st0 : list (pid * (Z * Z))) (ops : list op) : state := run c ops (init st0).

(* operations that may move a pending position *)
Definition moves_position (o : op) : bool :=
  match o with Mark _ _ _ | Reset _ _ _ | Manage _ => true | _ => false end.

(* the request in flight reaches the coordinator (the lookup, if one is needed, does not fail) *)
Definition reaches_coordinator (s : state) (r : reply) : bool :=
  match r with RNoCoord => cached s | _ => true end.

(* (o, m) was the argument of a MarkOffset / ResetOffset call on p that took effect *)
Definition Marked (c : cfg) st0 (ops : list op) (p : pid) (o m : Z) : Prop :=
  exists a b x y, ops = a ++ x :: b /\ get p (poms (reach c st0 a)) = Some y /\
    ((x = Mark p o m /\ o > p_off y) \/ (x = Reset p o m /\ o <= p_off y)).

(* a ResetOffset call on p lowered its pending offset *)
Definition LowReset (c : cfg) st0 (ops : list op) (p : pid) : Prop :=
  exists a o m b y, ops = a ++ Reset p o m :: b /\ get p (poms (reach c st0 a)) = Some y /\ o < p_off y.

(* operations of the committer goroutine / of Close itself (no application call) *)
Definition committer_op (o : op) : bool :=
  match o with Construct | Respond _ | Release | CloseBegin => true | _ => false end.

(* the coordinator answers this operation's request, if it is one, with "no error" for partition p *)
Definition accepts (p : pid) (o : op) : bool :=
  match o with Respond (RResp codes) => code_ok codes p | Respond _ => false | _ => true end.

(* one iteration of Close's final flush loop (also one Commit): flushToBroker, then releasePOMs(false);
   when nothing is dirty no request is built and the Respond step does nothing *)
Definition attempt (r : reply) : list op := [Construct; Respond r; Release].
