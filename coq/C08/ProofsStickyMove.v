(* C08 — sticky: the reassignment phase (fixed members, partition movements, performReassignments) keeps the
   assignment a partial function from assignable partitions to their potential consumers and loses nothing.
   Everything here is about the repaired code (fx = true). *)
From Coq Require Import List ZArith Bool Lia Permutation.
From SV Require Import C08.Common C08.RoundRobin C08.Sticky C08.Valid C08.ProofsBase C08.ProofsStickyBase
  C08.ProofsStickyEnv C08.ProofsStickyKeep.
Import ListNotations.
Open Scope Z_scope.

Lemma adel_notin : forall m (ca : asg), ~ In m (akeys ca) -> adel str_eqb m ca = ca.
Proof.
  intros m. induction ca as [|[k l] ca IH]; intro H; [reflexivity|]. cbn [adel]. simpl in H.
  destruct (str_eqb m k) eqn:E; [apply str_eqb_eq in E; subst; tauto|]. f_equal. apply IH. tauto.
Qed.

Lemma last_In : forall {A} (l : list A) d, In (last l d) (d :: l).
Proof.
  induction l as [|x l IH]; intro d; [now left|].
  destruct l as [|y l]; [right; now left|].
  specialize (IH d). change (last (x :: y :: l) d) with (last (y :: l) d).
  destruct IH as [IH|IH]; [left; exact IH | right; right; exact IH].
Qed.

Lemma move_partition_keys : forall mv p a b x, In x (akeys (move_partition mv p a b)) -> x = p \/ In x (akeys mv).
Proof.
  intros mv p a b x H. unfold move_partition in H. destruct (aget tp_eqb p mv) as [ex|].
  - destruct (negb (str_eqb (fst ex) b)).
    + apply (aset_keys_iff tp_eqb tp_spec) in H as [H|H]; [now left|]. apply (adel_keys tp_eqb tp_spec) in H. right. tauto.
    + apply (adel_keys tp_eqb tp_spec) in H. right. tauto.
  - apply (aset_keys_iff tp_eqb tp_spec) in H. exact H.
Qed.

Lemma mov_set_In : forall mv topic pr q, In q (mov_set mv topic pr) -> In q (akeys mv) /\ fst q = topic.
Proof.
  intros mv topic pr q H. unfold mov_set in H. apply in_map_iff in H as [[q' pr'] [E H]]. simpl in E. subst q'.
  apply filter_In in H as [H1 H2]. simpl in H2. apply andb_true_iff in H2 as [H2 _]. apply str_eqb_eq in H2.
  split; [|assumption]. unfold akeys. apply in_map_iff. now exists (q, pr').
Qed.

Lemma actual_partition_cases : forall mv picks p o n,
  let q := fst (actual_partition mv picks p o n) in q = p \/ (In q (akeys mv) /\ fst q = fst p).
Proof.
  intros mv picks p o n. unfold actual_partition.
  destruct (negb (mov_topic_exists mv (fst p))); [now left|].
  set (pr := (n, match aget tp_eqb p mv with Some pr => fst pr | None => o end)).
  destruct (mov_set mv (fst p) pr) as [|x r] eqn:E; [now left|].
  assert (A : forall q, In q (x :: r) -> In q (akeys mv) /\ fst q = fst p).
  { intros q Hq. rewrite <- E in Hq. now apply mov_set_In in Hq. }
  destruct picks as [|q picks']; cbn [fst].
  - right. apply A. apply last_In.
  - destruct (mem tp_eqb q (x :: r)) eqn:Em.
    + right. apply A. now apply (mem_In tp_eqb tp_spec).
    + right. apply A. apply last_In.
Qed.

Section Move.
  Variable ms : list member.
  Variable ts : topics_t.
  Variable c2p : asg.
  Variable p2c : p2c_t.
  Hypothesis Hc2p : forall m q, In q (ca_get c2p m) <-> pot ms ts m q.
  Hypothesis Hp2cg : forall q m, In m (p2c_get p2c q) <-> pot ms ts m q.

  (* ---- members set aside as fixed ---- *)
  Definition fixed_prop (fixed : asg) : Prop :=
    forall m, In m (akeys fixed) ->
      (forall q, pot ms ts m q -> In q (ca_get fixed m)) /\ (forall q, In q (ca_get fixed m) -> len (p2c_get p2c q) < 2).

  Record split_inv (K : list str) (cpc : cpc_t) (ca fixed : asg) : Prop := {
    si_nodup_ca : NoDup (akeys ca);
    si_nodup_fx : NoDup (akeys fixed);
    si_disj : forall m, In m (akeys fixed) -> ~ In m (akeys ca);
    si_union : forall m, In m K <-> In m (akeys ca) \/ In m (akeys fixed);
    si_lists : NoDup (lists ca ++ lists fixed);
    si_sound : forall m q, In q (ca_get ca m) -> pot ms ts m q /\ cpc_get cpc q = m;
    si_sound_fx : forall m q, In q (ca_get fixed m) -> pot ms ts m q /\ cpc_get cpc q = m;
    si_cover : forall q, In q (all_tps ts) -> (exists m, pot ms ts m q) -> In q (lists ca) \/ In q (lists fixed);
    si_fixed : fixed_prop fixed
  }.

  Lemma split_fixed_inv : forall K cpc ids ca fixed ca' fixed',
    split_fixed c2p p2c ids ca fixed = (ca', fixed') ->
    split_inv K cpc ca fixed -> NoDup ids -> (forall m, In m ids -> ~ In m (akeys fixed)) -> (forall m, In m ids -> In m K) ->
    split_inv K cpc ca' fixed'.
  Proof.
    intros K cpc. induction ids as [|m r IH]; intros ca fixed ca' fixed' E I N Hf HK; cbn [split_fixed] in E.
    - now injection E as <- <-.
    - inversion N as [|? ? Nm Nr]; subst.
      destruct (member_can_participate ca c2p p2c m) eqn:Ep.
      + eapply IH; eauto; intros x Hx; [apply Hf | apply HK]; now right.
      + eapply IH; [exact E| |exact Nr| |intros x Hx; apply HK; now right].
        * destruct I as [I1 I2 I3 I4 I5 I6 I7 I8 I9].
          assert (Hmf : ~ In m (akeys fixed)) by (apply Hf; now left).
          set (l := ca_get ca m) in *.
          assert (PL : Permutation (lists ca) (l ++ lists (adel str_eqb m ca))) by now apply lists_split.
          assert (PF : Permutation (lists (aset str_eqb m l fixed)) (l ++ lists fixed)).
          { rewrite lists_aset_split by assumption. now rewrite adel_notin. }
          unfold member_can_participate in Ep. fold l in Ep.
          destruct (len l <? len (ca_get c2p m)) eqn:El; [discriminate|]. apply Z.ltb_ge in El.
          constructor.
          -- now apply (adel_NoDup str_eqb str_spec).
          -- now apply (aset_NoDup str_eqb str_spec).
          -- intros x Hx Hx2. apply (adel_keys str_eqb str_spec) in Hx2 as [Hx2 Hx3].
             apply (aset_keys_iff str_eqb str_spec) in Hx as [->|Hx]; [congruence | now apply (I3 x)].
          -- intro x. rewrite (adel_keys str_eqb str_spec), (aset_keys_iff str_eqb str_spec).
             destruct (eq_dec_of str_eqb str_spec x m) as [->|Nx]; [split; [tauto | intros _; apply HK; now left] | rewrite I4; tauto].
          -- eapply Permutation_NoDup; [|exact I5]. rewrite PL, PF.
             rewrite <- !app_assoc. apply Permutation_app_swap_app.
          -- intros x q Hq. destruct (eq_dec_of str_eqb str_spec x m) as [->|Nx].
             ++ rewrite ca_get_adel_same in Hq. contradiction.
             ++ rewrite ca_get_adel_other in Hq by assumption. now apply I6.
          -- intros x q Hq. destruct (eq_dec_of str_eqb str_spec x m) as [->|Nx].
             ++ rewrite ca_get_aset_same in Hq. now apply I6.
             ++ rewrite ca_get_aset_other in Hq by assumption. now apply I7.
          -- intros q H1 H2. destruct (I8 q H1 H2) as [H|H].
             ++ apply (Permutation_in q PL) in H. apply in_app_or in H as [H|H]; [|now left].
                right. apply (Permutation_in q (Permutation_sym PF)). apply in_or_app. now left.
             ++ right. apply (Permutation_in q (Permutation_sym PF)). apply in_or_app. now right.
          -- intros x Hx. apply (aset_keys_iff str_eqb str_spec) in Hx.
             destruct (eq_dec_of str_eqb str_spec x m) as [->|Nx].
             ++ rewrite ca_get_aset_same. split.
                ** intros q Hq. apply Hc2p in Hq. revert q Hq.
                   apply NoDup_length_incl.
                   --- assert (NL : NoDup (lists ca)) by now apply NoDup_app_inv in I5.
                       pose proof (Permutation_NoDup PL NL) as H. now apply NoDup_app_inv in H.
                   --- unfold len in El. lia.
                   --- intros q Hq. apply Hc2p. now apply (I6 m q).
                ** intros q Hq. unfold existsb in Ep.
                   assert (Hex : existsb (part_can_participate p2c) l = false) by exact Ep.
                   destruct (part_can_participate p2c q) eqn:Epq.
                   --- exfalso. assert (existsb (part_can_participate p2c) l = true) by (apply existsb_exists; now exists q). congruence.
                   --- unfold part_can_participate in Epq. now apply Z.leb_gt in Epq.
             ++ rewrite ca_get_aset_other by assumption. destruct Hx as [Hx|Hx]; [congruence|]. now apply I9.
        * intros x Hx Hx2. apply (aset_keys_iff str_eqb str_spec) in Hx2 as [->|Hx2]; [contradiction|].
          apply (Hf x); [now right | assumption].
  Qed.

  (* ---- the reassignment loop ---- *)
  Variable W : list str.          (* keys of the working map *)
  Variable fixed : asg.
  Hypothesis NW : NoDup W.
  Hypothesis Hfx_nodup : NoDup (akeys fixed).
  Hypothesis Hfx_disj : forall m, In m (akeys fixed) -> ~ In m W.
  Hypothesis Hfx_prop : fixed_prop fixed.
  Hypothesis Hpot_key : forall m q, pot ms ts m q -> In m W \/ In m (akeys fixed).

  Record run_inv (s : st) : Prop := {
    ri_keys : akeys (s_ca s) = W;
    ri_lists : NoDup (lists (s_ca s) ++ lists fixed);
    ri_sound : forall m q, In q (ca_get (s_ca s) m) -> pot ms ts m q /\ cpc_get (s_cpc s) q = m;
    ri_sound_fx : forall m q, In q (ca_get fixed m) -> pot ms ts m q /\ cpc_get (s_cpc s) q = m;
    ri_cover : forall q, In q (all_tps ts) -> (exists m, pot ms ts m q) -> In q (lists (s_ca s)) \/ In q (lists fixed);
    ri_sorted : forall m, In m (s_sorted s) <-> In m W;
    ri_mov : forall q, In q (akeys (s_mov s)) -> In q (lists (s_ca s))
  }.

  Lemma run_inv_picks : forall s picks, run_inv s ->
    run_inv {| s_ca := s_ca s; s_cpc := s_cpc s; s_mov := s_mov s; s_sorted := s_sorted s; s_picks := picks |}.
  Proof. intros s picks [I1 I2 I3 I4 I5 I6 I7]. constructor; assumption. Qed.

  Lemma process_movement_inv : forall s q newc, run_inv s ->
    In q (lists (s_ca s)) -> In newc W -> pot ms ts newc q ->
    run_inv (process_movement s q newc).
  Proof.
    intros s q newc [I1 I2 I3 I4 I5 I6 I7] Hq Hn Hp.
    assert (NKc : NoDup (akeys (s_ca s))) by now rewrite I1.
    assert (NL : NoDup (lists (s_ca s))) by now apply NoDup_app_inv in I2.
    destruct (lists_ca_get (s_ca s) q NKc Hq) as [oldc [Ho1 Ho2]].
    assert (Eo : cpc_get (s_cpc s) q = oldc) by now apply (I3 oldc q).
    unfold process_movement. rewrite Eo.
    set (L := ca_get (s_ca s) oldc) in *.
    set (ca1 := aset str_eqb oldc (remove_first tp_eqb q L) (s_ca s)).
    set (ca2 := aset str_eqb newc (ca_get ca1 newc ++ [q]) ca1).
    assert (K1 : akeys ca1 = W) by (unfold ca1; now rewrite (aset_keys_in str_eqb str_spec)).
    assert (N1 : NoDup (akeys ca1)) by now rewrite K1.
    assert (K2 : akeys ca2 = W) by (unfold ca2; rewrite (aset_keys_in str_eqb str_spec); [assumption | now rewrite K1]).
    assert (NLo : NoDup L).
    { pose proof (Permutation_NoDup (lists_split oldc (s_ca s) NKc) NL) as H. now apply NoDup_app_inv in H. }
    assert (P : Permutation (lists ca2) (lists (s_ca s))).
    { unfold ca2. rewrite (lists_append newc [q] ca1 N1). unfold ca1. rewrite (lists_aset_split oldc _ (s_ca s) NKc).
      rewrite (lists_split oldc (s_ca s) NKc). fold L.
      pose proof (remove_first_perm tp_eqb tp_spec q L Ho2) as PLq.
      set (RF := remove_first tp_eqb q L) in *. set (A := lists (adel str_eqb oldc (s_ca s))).
      rewrite (Permutation_app_tail A PLq). simpl. symmetry. apply Permutation_cons_append. }
    (* membership in the new lists *)
    assert (G : forall m q', In q' (ca_get ca2 m) -> (q' = q /\ m = newc) \/ (q' <> q /\ In q' (ca_get (s_ca s) m))).
    { intros m q' H.
      assert (G1 : forall x, In q' (ca_get ca1 x) -> q' <> q /\ In q' (ca_get (s_ca s) x)).
      { intros x Hx. unfold ca1 in Hx. destruct (eq_dec_of str_eqb str_spec x oldc) as [->|Nx].
        - rewrite ca_get_aset_same in Hx. split.
          + intros ->. now apply (remove_first_NoDup tp_eqb tp_spec q L NLo).
          + eapply remove_first_incl; eassumption.
        - rewrite ca_get_aset_other in Hx by assumption. split; [|assumption].
          intros ->. apply Nx. eapply (owner_unique (s_ca s) q x oldc); eauto. }
      unfold ca2 in H. destruct (eq_dec_of str_eqb str_spec m newc) as [->|Nm].
      - rewrite ca_get_aset_same in H. apply in_app_or in H as [H|[<-|[]]]; [right; now apply G1 | left; now split].
      - rewrite ca_get_aset_other in H by assumption. right. now apply G1. }
    constructor; cbn [s_ca s_cpc s_mov s_sorted s_picks]; fold ca1; fold ca2.
    - exact K2.
    - eapply Permutation_NoDup; [|exact I2]. apply Permutation_app_tail. now symmetry.
    - intros m q' H. destruct (G m q' H) as [[-> ->]|[Nq H']].
      + split; [assumption | apply cpc_get_aset_same].
      + destruct (I3 m q' H') as [A1 A2]. split; [assumption|]. now rewrite cpc_get_aset_other.
    - intros m q' H. destruct (I4 m q' H) as [A1 A2]. split; [assumption|]. rewrite cpc_get_aset_other; [assumption|].
      intros ->. apply NoDup_app_inv in I2 as [_ [_ I2]]. apply (I2 q Hq). eapply ca_get_lists; eassumption.
    - intros q' H1 H2. destruct (I5 q' H1 H2) as [H|H]; [left; now apply (Permutation_in q' (Permutation_sym P)) | now right].
    - intro m. rewrite sort_members_In. now rewrite K2.
    - intros q' H. apply (Permutation_in q' (Permutation_sym P)).
      apply move_partition_keys in H as [->|H]; [assumption | now apply I7].
  Qed.

  Lemma reassign_partition_inv : forall s p newc, run_inv s ->
    In p (lists (s_ca s)) -> In newc W -> pot ms ts newc p ->
    run_inv (reassign_partition s p newc).
  Proof.
    intros s p newc I Hp Hn Hpot. unfold reassign_partition.
    pose proof (actual_partition_cases (s_mov s) (s_picks s) p (cpc_get (s_cpc s) p) newc) as C.
    destruct (actual_partition (s_mov s) (s_picks s) p (cpc_get (s_cpc s) p) newc) as [q picks]. cbn [fst] in C.
    apply process_movement_inv; [now apply run_inv_picks | | assumption |]; cbn [s_ca].
    - destruct C as [->|[C1 C2]]; [assumption | now apply (ri_mov s I)].
    - destruct C as [->|[C1 C2]]; [assumption|].
      assert (Hq : In q (lists (s_ca s))) by now apply (ri_mov s I).
      assert (NKc : NoDup (akeys (s_ca s))) by (rewrite (ri_keys s I); exact NW).
      destruct (lists_ca_get (s_ca s) q NKc Hq) as [o [_ Ho]].
      destruct (ri_sound s I o q Ho) as [[A1 _] _]. destruct Hpot as [_ B]. split; [assumption | now rewrite C2].
  Qed.

  (* the partition a pass looks at is owned by a working member whenever its owner looks bigger than somebody *)
  Lemma owner_working : forall s p x, run_inv s -> pot ms ts x p ->
    len (ca_get (s_ca s) x) + 1 < len (ca_get (s_ca s) (cpc_get (s_cpc s) p)) ->
    In p (lists (s_ca s)).
  Proof.
    intros s p x I Hpot Hlt.
    assert (Hc : In (cpc_get (s_cpc s) p) W).
    { rewrite <- (ri_keys s I). apply ca_get_nonempty_key. intro E. rewrite E in Hlt.
      pose proof (len_nonneg (ca_get (s_ca s) x)). unfold len in Hlt at 2. simpl in Hlt. lia. }
    destruct (ri_cover s I p (proj1 Hpot) (ex_intro _ x Hpot)) as [H|H]; [assumption|]. exfalso.
    apply In_lists in H as [f [l [H1 H2]]].
    assert (Hf : In f (akeys fixed)) by (unfold akeys; apply in_map_iff; now exists (f, l)).
    rewrite <- (entry_ca_get f l fixed Hfx_nodup H1) in H2.
    destruct (ri_sound_fx s I f p H2) as [_ E]. rewrite E in Hc. now apply (Hfx_disj f).
  Qed.

  (* a potential consumer of a partition owned by a working member is itself a working member *)
  Lemma potential_working : forall s p x, run_inv s -> In p (lists (s_ca s)) -> pot ms ts x p -> In x W.
  Proof.
    intros s p x I Hp Hpot. destruct (Hpot_key x p Hpot) as [H|H]; [assumption|]. exfalso.
    destruct (Hfx_prop x H) as [F1 _]. specialize (F1 p Hpot).
    pose proof (ri_lists s I) as D. apply NoDup_app_inv in D as [_ [_ D]]. apply (D p Hp). eapply ca_get_lists; eassumption.
  Qed.

  Lemma reassign_to_new_inv : forall s p, run_inv s -> In p (lists (s_ca s)) -> run_inv (reassign_to_new c2p s p).
  Proof.
    intros s p I Hp. unfold reassign_to_new. destruct (first_potential c2p p (s_sorted s)) as [m|] eqn:E; [|assumption].
    destruct (first_potential_some ms ts c2p Hc2p p (s_sorted s) m E) as [F1 F2].
    apply reassign_partition_inv; auto. now apply (ri_sorted s I).
  Qed.

  Lemma reassign_pass_inv : forall prev parts s modified s' modified' e,
    reassign_pass true prev c2p p2c parts s modified = (s', modified', e) -> run_inv s -> run_inv s'.
  Proof.
    intros prev. induction parts as [|p r IH]; intros s modified s' modified' e E I; cbn [reassign_pass] in E.
    - now injection E as <- _ _.
    - destruct (is_balanced (s_ca s) c2p) as [[|]|]; [now injection E as <- _ _| |now injection E as <- _ _].
      cbn [negb orb] in E.
      destruct (match aget tp_eqb p prev with
                | Some (pm, _) =>
                    if mem str_eqb pm (p2c_get p2c p) && (len (ca_get (s_ca s) pm) + 1 <? len (ca_get (s_ca s) (cpc_get (s_cpc s) p)))
                    then Some pm else None
                | None => None end) as [pm|] eqn:Ev.
      + eapply IH; [exact E|].
        destruct (aget tp_eqb p prev) as [[pm' g]|]; [|discriminate].
        destruct (mem str_eqb pm' (p2c_get p2c p) && (len (ca_get (s_ca s) pm') + 1 <? len (ca_get (s_ca s) (cpc_get (s_cpc s) p)))) eqn:Ec; [|discriminate].
        injection Ev as ->. apply andb_true_iff in Ec as [C1 C2]. apply (mem_In str_eqb str_spec) in C1. apply Hp2cg in C1. apply Z.ltb_lt in C2.
        assert (Hp : In p (lists (s_ca s))) by (eapply owner_working; eauto).
        apply reassign_partition_inv; auto. eapply potential_working; eauto.
      + destruct (existsb (fun oc => len (ca_get (s_ca s) oc) + 1 <? len (ca_get (s_ca s) (cpc_get (s_cpc s) p))) (p2c_get p2c p)) eqn:Ex.
        * eapply IH; [exact E|]. apply existsb_exists in Ex as [oc [O1 O2]]. apply Hp2cg in O1. apply Z.ltb_lt in O2.
          apply reassign_to_new_inv; [assumption|]. eapply owner_working; eauto.
        * eapply IH; eauto.
  Qed.

  Lemma perform_inv : forall prev parts fuel s performed s' performed' e,
    perform fuel true prev c2p p2c parts s performed = (s', performed', e) -> run_inv s -> run_inv s'.
  Proof.
    intros prev parts. induction fuel as [|fuel IH]; intros s performed s' performed' e E I; cbn [perform] in E.
    - now injection E as <- _ _.
    - destruct (reassign_pass true prev c2p p2c parts s false) as [[s1 m1] e1] eqn:Ep.
      pose proof (reassign_pass_inv prev parts s false s1 m1 e1 Ep I) as I1.
      destruct e1, m1; try (now injection E as <- _ _). eapply IH; eauto.
  Qed.

  (* no panic while some member is subject to reassignment *)
  Lemma reassign_pass_no_panic : forall prev parts s modified s' modified' e,
    reassign_pass true prev c2p p2c parts s modified = (s', modified', e) -> run_inv s -> W <> [] -> e = PassDone.
  Proof.
    intros prev. induction parts as [|p r IH]; intros s modified s' modified' e E I HW; cbn [reassign_pass] in E.
    - now injection E as _ _ <-.
    - destruct (is_balanced (s_ca s) c2p) as [[|]|] eqn:Eb; [now injection E as _ _ <-| |].
      + cbn [negb orb] in E.
        destruct (match aget tp_eqb p prev with
                  | Some (pm, _) =>
                      if mem str_eqb pm (p2c_get p2c p) && (len (ca_get (s_ca s) pm) + 1 <? len (ca_get (s_ca s) (cpc_get (s_cpc s) p)))
                      then Some pm else None
                  | None => None end) as [pm|] eqn:Ev.
        * assert (I' : run_inv (reassign_partition s p pm)).
          { destruct (aget tp_eqb p prev) as [[pm' g]|]; [|discriminate].
            destruct (mem str_eqb pm' (p2c_get p2c p) && (len (ca_get (s_ca s) pm') + 1 <? len (ca_get (s_ca s) (cpc_get (s_cpc s) p)))) eqn:Ec; [|discriminate].
            injection Ev as ->. apply andb_true_iff in Ec as [C1 C2]. apply (mem_In str_eqb str_spec) in C1. apply Hp2cg in C1. apply Z.ltb_lt in C2.
            assert (Hp : In p (lists (s_ca s))) by (eapply owner_working; eauto).
            apply reassign_partition_inv; auto. eapply potential_working; eauto. }
          eapply IH; eauto.
        * destruct (existsb (fun oc => len (ca_get (s_ca s) oc) + 1 <? len (ca_get (s_ca s) (cpc_get (s_cpc s) p))) (p2c_get p2c p)) eqn:Ex.
          -- eapply IH; [exact E| |assumption]. apply existsb_exists in Ex as [oc [O1 O2]]. apply Hp2cg in O1. apply Z.ltb_lt in O2.
             apply reassign_to_new_inv; [assumption|]. eapply owner_working; eauto.
          -- eapply IH; eauto.
      + exfalso. unfold is_balanced in Eb. destruct (sort_members (s_ca s)) as [|f l] eqn:Es.
        * apply HW. rewrite <- (ri_keys s I). destruct (akeys (s_ca s)) as [|k ks] eqn:Ek; [reflexivity|].
          assert (H : In k (sort_members (s_ca s))) by (apply sort_members_In; rewrite Ek; now left). now rewrite Es in H.
        * destruct (len (ca_get (s_ca s) (last (f :: l) f)) - 1 <=? len (ca_get (s_ca s) f)); discriminate.
  Qed.

  Lemma perform_no_panic : forall prev parts fuel s performed s' performed' e,
    perform fuel true prev c2p p2c parts s performed = (s', performed', e) -> run_inv s -> W <> [] -> e <> PerfPanic.
  Proof.
    intros prev parts. induction fuel as [|fuel IH]; intros s performed s' performed' e E I HW; cbn [perform] in E.
    - injection E as _ _ <-. discriminate.
    - destruct (reassign_pass true prev c2p p2c parts s false) as [[s1 m1] e1] eqn:Ep.
      pose proof (reassign_pass_inv prev parts s false s1 m1 e1 Ep I) as I1.
      pose proof (reassign_pass_no_panic prev parts s false s1 m1 e1 Ep I HW) as ->.
      destruct m1; [eapply IH; eauto | injection E as _ _ <-; discriminate].
  Qed.
End Move.
