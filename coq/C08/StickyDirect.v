(* C08 — runs of performReassignments without reverse-pair redirection ("direct" runs): executable test.  No proofs here.
   A reassignment of partition p (owner oldc) to newc is redirected when getTheActualPartitionToBeMoved finds a recorded
   movement of the same topic in the opposite direction and moves one of those partitions instead (the sticky.pick call
   site of the code is reached exactly then). *)
From Coq Require Import List ZArith Bool.
From SV Require Import C08.Common C08.RoundRobin C08.Sticky.
Import ListNotations.
Open Scope Z_scope.

Definition redirects (mv : mov_t) (p : tp) (oldc newc : str) : bool :=
  mov_topic_exists mv (fst p) &&
  match mov_set mv (fst p) (newc, match aget tp_eqb p mv with Some pr => fst pr | None => oldc end) with
  | [] => false
  | _ :: _ => true
  end.

(* every reassignment made by this pass is direct (mirrors reassign_pass) *)
Fixpoint pass_directb (fx : bool) (prev : prev_t) (c2p : asg) (p2c : p2c_t) (parts : list tp) (s : st) : bool :=
  match parts with
  | [] => true
  | p :: r =>
    match is_balanced (s_ca s) c2p with
    | None => true
    | Some true => true
    | Some false =>
      let consumer := cpc_get (s_cpc s) p in
      let via_prev :=
        match aget tp_eqb p prev with
        | Some (pm, _) =>
          if (negb fx || mem str_eqb pm (p2c_get p2c p)) && (len (ca_get (s_ca s) pm) + 1 <? len (ca_get (s_ca s) consumer))
          then Some pm else None
        | None => None
        end in
      match via_prev with
      | Some pm => negb (redirects (s_mov s) p consumer pm) && pass_directb fx prev c2p p2c r (reassign_partition s p pm)
      | None =>
        if existsb (fun oc => len (ca_get (s_ca s) oc) + 1 <? len (ca_get (s_ca s) consumer)) (p2c_get p2c p)
        then match first_potential c2p p (s_sorted s) with
             | Some m => negb (redirects (s_mov s) p consumer m)
             | None => true
             end && pass_directb fx prev c2p p2c r (reassign_to_new c2p s p)
        else pass_directb fx prev c2p p2c r s
      end
    end
  end.

(* ... by the first [fuel] passes of performReassignments (mirrors perform) *)
Fixpoint perform_directb (fuel : nat) (fx : bool) (prev : prev_t) (c2p : asg) (p2c : p2c_t) (parts : list tp) (s : st) : bool :=
  match fuel with
  | O => true
  | S f =>
    pass_directb fx prev c2p p2c parts s &&
    match reassign_pass fx prev c2p p2c parts s false with
    | (s', true, PassDone) => perform_directb f fx prev c2p p2c parts s'
    | _ => true
    end
  end.

(* potential: sum of the squared sizes of the members' lists; a direct reassignment lowers it by at least 2 *)
Fixpoint phi (ca : asg) : Z :=
  match ca with
  | [] => 0
  | e :: r => len (snd e) * len (snd e) + phi r
  end.

(* the run of Plan with this fuel makes no redirected reassignment *)
Definition plan_directb (fuel : nat) (fx : bool) (o : oracle) (ms : list member) (ts : topics_t) : bool :=
  match sticky_prepare o ms ts with
  | None => true
  | Some pr => perform_directb fuel fx (pr_prev pr) (pr_c2p pr) (pr_p2c pr) (pr_parts pr) (pr_s0 pr)
  end.
(* enough passes for a direct run *)
Definition plan_bound (o : oracle) (ms : list member) (ts : topics_t) : Z :=
  match sticky_prepare o ms ts with
  | None => 0
  | Some pr => phi (s_ca (pr_s0 pr)) / 2 + 1
  end.
