(* C08 — validity of the range strategy's plan, relative to three facts about the binary64 boundary function
   ([bnd_ok]; proved for all sizes below 2^31 in ProofsFloat.v). *)
From Coq Require Import List ZArith Bool Lia Permutation.
From SV Require Import C08.Common C08.RangeFloat C08.Range C08.RoundRobin C08.Valid C08.ProofsBase.
Import ListNotations.
Open Scope Z_scope.

(* what the slicing needs from the boundaries for n partitions and m members *)
Definition bnd_ok (n m : Z) : Prop :=
  range_bnd (range_step n m) 0 = 0 /\ range_bnd (range_step n m) m = n /\
  forall i, 0 <= i < m -> range_bnd (range_step n m) i <= range_bnd (range_step n m) (i + 1).

(* ---- list slicing ---- *)
Lemma firstn_add : forall {A} (x y : nat) (l : list A), firstn (x + y) l = firstn x l ++ firstn y (skipn x l).
Proof.
  induction x as [|x IH]; intros y l; simpl; [reflexivity|].
  destruct l as [|a l]; simpl; [now rewrite firstn_nil | now rewrite IH].
Qed.
Lemma skipn_add : forall {A} (x y : nat) (l : list A), skipn (x + y) l = skipn y (skipn x l).
Proof.
  induction x as [|x IH]; intros y l; simpl; [reflexivity|].
  destruct l as [|a l]; simpl; [now rewrite skipn_nil | now rewrite IH].
Qed.
Lemma slice_app : forall {A} (l : list A) (a b c : nat), (a <= b)%nat -> (b <= c)%nat ->
  firstn (b - a) (skipn a l) ++ firstn (c - b) (skipn b l) = firstn (c - a) (skipn a l).
Proof.
  intros A l a b c H1 H2.
  replace (c - a)%nat with ((b - a) + (c - b))%nat by lia.
  rewrite firstn_add. f_equal. f_equal.
  replace b with (a + (b - a))%nat at 1 by lia. now rewrite skipn_add.
Qed.

Lemma mono_chain : forall (f : Z -> Z) a b, (forall j, a <= j < b -> f j <= f (j + 1)) ->
  forall k x, a <= x -> x + Z.of_nat k <= b -> f x <= f (x + Z.of_nat k).
Proof.
  intros f a b H. induction k as [|k IH]; intros x H1 H2.
  - replace (x + Z.of_nat 0) with x by lia. lia.
  - replace (x + Z.of_nat (S k)) with ((x + Z.of_nat k) + 1) by lia.
    specialize (IH x H1 ltac:(lia)). specialize (H (x + Z.of_nat k) ltac:(lia)). lia.
Qed.
Lemma mono_chain' : forall (f : Z -> Z) a b, (forall j, a <= j < b -> f j <= f (j + 1)) ->
  forall x y, a <= x -> x <= y -> y <= b -> f x <= f y.
Proof.
  intros f a b H x y H1 H2 H3.
  replace y with (x + Z.of_nat (Z.to_nat (y - x))) by lia. eapply mono_chain; eauto. lia.
Qed.

Definition proj_tp (x : str * str * Z) : tp := (snd (fst x), snd x).

Lemma proj_same_topic : forall t l, (forall x, In x l -> snd (fst x) = t) -> map proj_tp l = expand_topic t (map snd l).
Proof.
  intros t. induction l as [|[[m t'] q] l IH]; simpl; intro H; [reflexivity|].
  rewrite IH by (intros x Hx; apply H; now right).
  unfold proj_tp at 1. simpl. specialize (H (m, t', q) (or_introl eq_refl)). simpl in H. now subst.
Qed.

(* ---- coreFn ---- *)
Lemma core_loop_ok : forall step topic parts mids i p,
  wf_plan p -> 0 <= i -> 0 <= range_bnd step i ->
  (forall j, i <= j < i + len mids -> range_bnd step j <= range_bnd step (j + 1)) ->
  range_bnd step (i + len mids) <= len parts ->
  exists p' added, core_loop step i mids topic parts p = Some p' /\ wf_plan p' /\
    Permutation (triples p') (triples p ++ added) /\
    (forall x, In x added -> In (fst (fst x)) mids /\ snd (fst x) = topic) /\
    map snd added = firstn (Z.to_nat (range_bnd step (i + len mids)) - Z.to_nat (range_bnd step i))
                           (skipn (Z.to_nat (range_bnd step i)) parts) /\
    (forall x, In x (map fst p') -> In x (map fst p) \/ In x mids).
Proof.
  intros step topic parts. induction mids as [|mid r IH]; intros i p Wp Hi Hlo Hmono Hhi.
  - exists p, []. simpl. split; [reflexivity|]. split; [exact Wp|]. split; [now rewrite app_nil_r|].
    split; [intros x []|]. split; [|intros x Hx; now left].
    replace (i + len (@nil str)) with i by (unfold len; simpl; lia). now rewrite Nat.sub_diag.
  - rewrite len_cons in *. cbn [core_loop].
    assert (L1 : range_bnd step i <= range_bnd step (i + 1)) by (apply Hmono; pose proof (len_nonneg r); lia).
    assert (L2 : range_bnd step (i + 1) <= range_bnd step (i + (1 + len r))).
    { apply (mono_chain' (range_bnd step) i (i + (1 + len r)) Hmono); pose proof (len_nonneg r); lia. }
    unfold slice.
    replace ((0 <=? range_bnd step i) && (range_bnd step i <=? range_bnd step (i + 1)) && (range_bnd step (i + 1) <=? len parts)) with true
      by (symmetry; rewrite !andb_true_iff, !Z.leb_le; lia).
    set (s := firstn (Z.to_nat (range_bnd step (i + 1) - range_bnd step i)) (skipn (Z.to_nat (range_bnd step i)) parts)).
    destruct (IH (i + 1) (plan_add p mid topic s)) as [p' [added [E [W [P [S [M K]]]]]]].
    + now apply plan_add_wf.
    + lia.
    + lia.
    + intros j Hj. apply Hmono. lia.
    + replace (i + 1 + len r) with (i + (1 + len r)) by lia. assumption.
    + exists p', (entry mid topic s ++ added). split; [exact E|]. split; [exact W|]. split; [|split; [|split]].
      * rewrite P. rewrite (plan_add_perm p mid topic s). now rewrite <- app_assoc.
      * intros x Hx. apply in_app_or in Hx as [Hx|Hx].
        -- unfold entry in Hx. apply in_map_iff in Hx as [q [<- _]]. simpl. split; [now left | reflexivity].
        -- destruct (S x Hx) as [S1 S2]. split; [now right | assumption].
      * rewrite map_app, M. unfold entry. rewrite map_map. cbn [snd]. rewrite map_id.
        replace (i + 1 + len r) with (i + (1 + len r)) by lia. unfold s.
        replace (Z.to_nat (range_bnd step (i + 1) - range_bnd step i)) with (Z.to_nat (range_bnd step (i + 1)) - Z.to_nat (range_bnd step i))%nat by lia.
        apply slice_app; lia.
      * intros x Hx. apply K in Hx as [Hx|Hx]; [|right; now right].
        apply plan_add_keys in Hx as [->|Hx]; [right; now left | now left].
Qed.

Lemma range_core_ok : forall p mids topic parts, wf_plan p -> bnd_ok (len parts) (len mids) ->
  exists p' added, range_core p mids topic parts = Some p' /\ wf_plan p' /\
    Permutation (triples p') (triples p ++ added) /\
    (forall x, In x added -> In (fst (fst x)) mids /\ snd (fst x) = topic) /\
    map proj_tp added = expand_topic topic parts /\
    (forall x, In x (map fst p') -> In x (map fst p) \/ In x mids).
Proof.
  intros p mids topic parts Wp [B0 [Bm Bmono]]. unfold range_core.
  destruct (core_loop_ok (range_step (len parts) (len mids)) topic parts mids 0 p Wp) as [p' [added [E [W [P [S [M K]]]]]]].
  - lia.
  - lia.
  - intros j Hj. apply Bmono. lia.
  - simpl. lia.
  - exists p', added. split; [exact E|]. split; [exact W|]. split; [exact P|]. split; [exact S|]. split; [|exact K].
    rewrite (proj_same_topic topic) by (intros x Hx; now apply S). f_equal.
    rewrite M. simpl (0 + len mids). rewrite Bm, B0. simpl. rewrite Nat.sub_0_r. unfold len. rewrite Nat2Z.id. apply firstn_all.
Qed.

Lemma range_topics_ok : forall ts mbt p, wf_plan p ->
  (forall t mids, In (t, mids) mbt -> bnd_ok (len (topic_partitions ts t)) (len mids)) ->
  exists p' added, range_topics ts mbt p = Some p' /\ wf_plan p' /\
    Permutation (triples p') (triples p ++ added) /\
    (forall x, In x added -> exists mids, In (snd (fst x), mids) mbt /\ In (fst (fst x)) mids) /\
    map proj_tp added = flat_map (fun e => expand_topic (fst e) (topic_partitions ts (fst e))) mbt /\
    (forall x, In x (map fst p') -> In x (map fst p) \/ exists t mids, In (t, mids) mbt /\ In x mids).
Proof.
  intros ts. induction mbt as [|[topic mids] mbt IH]; intros p Wp Hb.
  - exists p, []. simpl. split; [reflexivity|]. split; [exact Wp|]. split; [now rewrite app_nil_r|].
    split; [intros x []|]. split; [reflexivity | intros x Hx; now left].
  - simpl.
    destruct (range_core_ok p (sort_by_hash topic mids) topic (topic_partitions ts topic) Wp) as [p1 [a1 [E1 [W1 [P1 [S1 [M1 K1]]]]]]].
    { unfold sort_by_hash, len. rewrite sort_length. apply (Hb topic). now left. }
    rewrite E1.
    destruct (IH p1 W1) as [p2 [a2 [E2 [W2 [P2 [S2 [M2 K2]]]]]]].
    { intros t m' H. apply (Hb t). now right. }
    exists p2, (a1 ++ a2). split; [exact E2|]. split; [exact W2|]. split; [|split; [|split]].
    + rewrite P2, P1. now rewrite <- app_assoc.
    + intros x Hx. apply in_app_or in Hx as [Hx|Hx].
      * destruct (S1 x Hx) as [I1 I2]. exists mids. rewrite I2. split; [now left|].
        unfold sort_by_hash in I1. now apply sort_In in I1.
      * destruct (S2 x Hx) as [m' [I1 I2]]. exists m'. split; [now right | assumption].
    + rewrite map_app, M1, M2. reflexivity.
    + intros x Hx. apply K2 in Hx as [Hx|[t [m' [I1 I2]]]].
      * apply K1 in Hx as [Hx|Hx]; [now left|]. right. exists topic, mids. split; [now left|].
        unfold sort_by_hash in Hx. now apply sort_In in Hx.
      * right. exists t, m'. split; [now right | assumption].
Qed.

(* ---- the members-by-topic map ---- *)
Definition mbt_sound (ms : list member) (mbt : mbt_t) : Prop :=
  forall t mids, In (t, mids) mbt -> mids <> [] /\ forall m, In m mids -> subscribes ms m t.

Lemma mbt_get_In : forall mbt t m, In m (mbt_get mbt t) -> exists mids, In (t, mids) mbt /\ In m mids.
Proof.
  intros mbt t m H. unfold mbt_get in H. destruct (aget str_eqb t mbt) eqn:E; [|contradiction].
  apply (aget_In str_eqb str_spec) in E. eauto.
Qed.

Lemma mbt_add_topics_ok : forall ms mid ts mbt,
  NoDup (akeys mbt) -> mbt_sound ms mbt -> (forall t, In t ts -> subscribes ms mid t) ->
  let mbt' := mbt_add_topics mbt mid ts in
  NoDup (akeys mbt') /\ mbt_sound ms mbt' /\ (forall t, In t (akeys mbt) \/ In t ts -> In t (akeys mbt')) /\
  len (concat (map snd mbt')) = len (concat (map snd mbt)) + len ts.
Proof.
  intros ms mid. induction ts as [|t ts IH]; intros mbt Hn Hs Hsub; simpl.
  - split; [exact Hn|]. split; [exact Hs|]. split; [intros t' [H|[]]; assumption | unfold len; simpl; lia].
  - set (mbt1 := aset str_eqb t (mbt_get mbt t ++ [mid]) mbt).
    assert (N1 : NoDup (akeys mbt1)) by now apply (aset_NoDup str_eqb str_spec).
    assert (S1 : mbt_sound ms mbt1).
    { intros t' mids H. apply (aset_In str_eqb str_spec) in H as [[-> ->]|H]; [|now apply Hs].
      split; [now destruct (mbt_get mbt t)|].
      intros m Hm. apply in_app_or in Hm as [Hm|[<-|[]]].
      - apply mbt_get_In in Hm as [mids [I1 I2]]. now apply (Hs t mids).
      - apply Hsub. now left. }
    assert (L1 : len (concat (map snd mbt1)) = len (concat (map snd mbt)) + 1).
    { unfold mbt1, mbt_get.
      destruct (aset_cases str_eqb str_spec t (match aget str_eqb t mbt with Some l => l | None => [] end ++ [mid]) mbt)
        as [[I1 I2]|[l1 [v0 [l2 [I1 [_ [I3 I4]]]]]]].
      - rewrite I2, I1. rewrite map_app, concat_app. simpl. rewrite !len_app. unfold len. simpl. lia.
      - rewrite I4, I3, I1. rewrite !map_app, !concat_app. simpl. rewrite !len_app. unfold len. simpl. lia. }
    destruct (IH mbt1 N1 S1) as [A [B [C D]]]; [intros t' H; apply Hsub; now right|].
    split; [exact A|]. split; [exact B|]. split.
    + intros t' [H|[H|H]]; apply C.
      * left. apply (aset_keys_iff str_eqb str_spec). now right.
      * left. apply (aset_keys_iff str_eqb str_spec). left. now subst.
      * now right.
    + rewrite D, L1, len_cons. lia.
Qed.

Lemma build_mbt_ok : forall all ms mbt,
  (forall mm, In mm ms -> In mm all) ->
  NoDup (akeys mbt) -> mbt_sound all mbt ->
  let mbt' := build_mbt mbt ms in
  NoDup (akeys mbt') /\ mbt_sound all mbt' /\
  (forall t, In t (akeys mbt) \/ (exists mm, In mm ms /\ In t (m_topics mm)) -> In t (akeys mbt')) /\
  len (concat (map snd mbt')) = len (concat (map snd mbt)) + len (concat (map m_topics ms)).
Proof.
  intros all. induction ms as [|m ms IH]; intros mbt Hin Hn Hs; simpl.
  - split; [exact Hn|]. split; [exact Hs|]. split; [intros t [H|[mm [[] _]]]; assumption | unfold len; simpl; lia].
  - destruct (mbt_add_topics_ok all (m_id m) (m_topics m) mbt Hn Hs) as [A [B [C D]]].
    { intros t Ht. exists m. repeat split; auto. apply Hin. now left. }
    destruct (IH (mbt_add_topics mbt (m_id m) (m_topics m))) as [A' [B' [C' D']]]; auto.
    { intros mm H. apply Hin. now right. }
    split; [exact A'|]. split; [exact B'|]. split.
    + intros t [H|[mm [[<-|H1] H2]]]; apply C'.
      * left. apply C. now left.
      * left. apply C. now right.
      * right. now exists mm.
    + rewrite D', D, len_app. lia.
Qed.

Lemma concat_len_le : forall {A} (ll : list (list A)) l, In l ll -> len l <= len (concat ll).
Proof.
  induction ll as [|x ll IH]; simpl; intros l H; [contradiction|].
  rewrite len_app. destruct H as [->|H]; [pose proof (len_nonneg (concat ll)); lia|].
  specialize (IH l H). pose proof (len_nonneg x). lia.
Qed.

Lemma topic_partitions_spec : forall ts t, wf_topics ts ->
  NoDup (topic_partitions ts t) /\ (forall q, In q (topic_partitions ts t) <-> has_partition ts t q).
Proof.
  intros ts t [W1 W2]. unfold topic_partitions. destruct (aget str_eqb t ts) as [ps|] eqn:E.
  - pose proof (aget_In str_eqb str_spec _ _ _ E) as HI. split; [now apply (W2 t)|].
    intro q. split; [intro H; now exists ps|]. intros [ps' [H1 H2]].
    rewrite (In_aget str_eqb str_spec t ps' ts W1 H1) in E. now injection E as <-.
  - split; [constructor|]. intro q. split; [contradiction|]. intros [ps' [H1 _]].
    apply (aget_None str_eqb str_spec) in E. exfalso. apply E. unfold akeys. apply in_map_iff. now exists (t, ps').
Qed.

(* validity of the range plan, given the boundary facts for the sizes that occur *)
Theorem range_valid_given_bounds : forall ms ts, wf_topics ts ->
  (forall t mids, In (t, mids) (build_mbt [] ms) -> bnd_ok (len (topic_partitions ts t)) (len mids)) ->
  exists p, range_plan ms ts = Some p /\ valid_plan ms ts p.
Proof.
  intros ms ts Wt Hb. unfold range_plan.
  destruct (build_mbt_ok ms ms [] (fun _ H => H)) as [N [S [C _]]]; [constructor | intros ? ? [] |].
  simpl in N, S, C.
  destruct (range_topics_ok ts (build_mbt [] ms) [] wf_plan_nil Hb) as [p [added [E [[W1 W2] [P [Sd [M K]]]]]]].
  simpl in P. exists p. split; [exact E|].
  assert (PA : Permutation (assigned p) (flat_map (fun e => expand_topic (fst e) (topic_partitions ts (fst e))) (build_mbt [] ms))).
  { rewrite <- M. unfold assigned. apply Permutation_map. exact P. }
  constructor.
  - exact W1.
  - exact W2.
  - intros m Hm. apply K in Hm as [[]|[t [mids [I1 I2]]]]. destruct (S t mids I1) as [_ S2].
    destruct (S2 m I2) as [mm [J1 [J2 _]]]. apply in_map_iff. now exists mm.
  - intros m t q H. apply (Permutation_in _ P) in H.
    destruct (Sd _ H) as [mids [I1 I2]]. simpl in I1, I2. destruct (S t mids I1) as [_ S2]. split; [now apply S2|].
    assert (Hq : In (t, q) (map proj_tp added)) by (apply in_map_iff; now exists (m, t, q)).
    rewrite M in Hq. apply in_flat_map in Hq as [e [_ He]]. apply expand_topic_In in He as [He1 He2]. simpl in He1, He2.
    rewrite <- He1 in He2. now apply (topic_partitions_spec ts t Wt).
  - eapply Permutation_NoDup; [symmetry; exact PA|].
    clear - N Wt. induction (build_mbt [] ms) as [|[t mids] l IH]; simpl; [constructor|].
    simpl in N. inversion N as [|? ? Nt Nl]; subst. apply NoDup_app_intro.
    + apply expand_topic_NoDup. now apply (topic_partitions_spec ts t Wt).
    + now apply IH.
    + intros x H1 H2. apply expand_topic_In in H1 as [H1 _]. apply in_flat_map in H2 as [e [He1 He2]].
      apply expand_topic_In in He2 as [He2 _]. apply Nt. apply in_map_iff. exists e. split; [congruence | assumption].
  - intros t q Hp [m [mm [I1 [I2 I3]]]].
    apply (Permutation_in _ (Permutation_sym PA)). apply in_flat_map.
    assert (Ht : In t (akeys (build_mbt [] ms))) by (apply C; right; now exists mm).
    unfold akeys in Ht. apply in_map_iff in Ht as [e [He1 He2]]. exists e. split; [assumption|].
    apply expand_topic_In. simpl. split; [now symmetry|]. rewrite He1. now apply (topic_partitions_spec ts t Wt).
Qed.

(* sizes that occur are bounded by the inputs *)
Lemma mbt_sizes : forall ms t mids, In (t, mids) (build_mbt [] ms) ->
  1 <= len mids <= len (concat (map m_topics ms)).
Proof.
  intros ms t mids H.
  destruct (build_mbt_ok ms ms [] (fun _ H => H)) as [_ [S [_ D]]]; [constructor | intros ? ? [] |].
  simpl in S, D. destruct (S t mids H) as [S1 _]. split.
  - destruct mids; [congruence|]. rewrite len_cons. pose proof (len_nonneg mids). lia.
  - rewrite <- D. apply concat_len_le. apply in_map_iff. now exists (t, mids).
Qed.
