(* C08 — correspondence: go/harness/cmd/c08corr runs the three real strategies (and coreFn alone) and writes what they
   returned as cases; these functions re-run the models and compare the plans as maps (member -> topic -> partition list,
   list order included). *)
From Coq Require Import List ZArith Bool String.
From SV Require Import Base.Corr C08.Common C08.RangeFloat C08.RangeTable C08.Range C08.RoundRobin C08.Sticky C08.StickyDirect C08.Valid.
Import ListNotations.
Open Scope Z_scope.

(* ---- range ---- *)
Record rcase := { rc_members : list member; rc_topics : topics_t; rc_plan : plan }.
(* two subscribers of one topic with the same 32-bit hash: the order sort.Sort leaves them in is not fixed by the code *)
Definition hash_collision (ms : list member) : bool :=
  existsb (fun x => negb (nodupb Z.eqb (map (hashv (fst x)) (snd x)))) (build_mbt [] ms).
Definition ok_range (c : rcase) : bool :=
  match range_plan (rc_members c) (rc_topics c) with
  | None => false
  | Some p => valid_planb (rc_members c) (rc_topics c) (rc_plan c) &&
              (hash_collision (rc_members c) || plan_eqb p (rc_plan c))
  end.
Definition mismatches_range := mismatches ok_range.

(* ---- coreFn boundaries: for m members, row n lists the observed boundaries b_0..b_m of the slices of partitions 0..n-1,
        for every n = 0..300 ---- *)
Record bcase := { bc_m : Z; bc_rows : list (list Z) }.
Definition ok_bounds (c : bcase) : bool :=
  list_eqb (list_eqb Z.eqb) (map (fun n => bounds_fast n (bc_m c)) (upto 301)) (bc_rows c).
Definition mismatches_bounds := mismatches ok_bounds.

(* ---- round robin ---- *)
Record rrcase := { rr_members : list member; rr_topics : topics_t; rr_obs : option plan }.   (* None: Plan returned an error *)
Definition ok_rr (c : rrcase) : bool :=
  match rr_plan (rr_members c) (rr_topics c), rr_obs c with
  | RRError, None => true
  | RRPlan p, Some q => plan_eqb p q && valid_planb (rr_members c) (rr_topics c) q
  | _, _ => false
  end.
Definition mismatches_rr := mismatches ok_rr.

(* ---- sticky ---- *)
Inductive sobs := OErr | OPanic | OHang | OPlan (p : plan).   (* OHang: Plan did not return within the watchdog time *)
Record scase := {
  sc_fx : bool;          (* the tree contains the prev-owner repair (probed by the harness) *)
  sc_hooked : bool;      (* the sticky.iter.* call sites reported the iteration orders *)
  sc_members : list member; sc_topics : topics_t; sc_oracle : oracle; sc_obs : sobs;
  sc_reverted : option bool   (* whether the revert branch of balance() ran (sticky.revert call site); None = not observable *) }.
Definition sticky_fuel : nat := 400.
(* the run made no reverse-pair redirection <-> the sticky.pick call site was never reached *)
Definition direct_matches (c : scase) : bool :=
  negb (sc_hooked c) ||
  Bool.eqb (plan_directb sticky_fuel (sc_fx c) (sc_oracle c) (sc_members c) (sc_topics c))
           (match o_picks (sc_oracle c) with [] => true | _ => false end).
Definition ok_sticky (c : scase) : bool :=
  let r := sticky_plan_full sticky_fuel (sc_fx c) (sc_oracle c) (sc_members c) (sc_topics c) in
  match p_res r, sc_obs c with
  | SErr, OErr => true
  | SPanic, OPanic => true
  | SFuel _, OHang => direct_matches c
  | SOk p, OPlan q =>
    if sc_hooked c then plan_eqb p q && (negb (sc_fx c) || valid_planb (sc_members c) (sc_topics c) q) && direct_matches c &&
                        match sc_reverted c with Some b => Bool.eqb (p_reverted r) b | None => true end
    else negb (sc_fx c) || valid_planb (sc_members c) (sc_topics c) q
  | _, _ => negb (sc_hooked c) && negb (sc_fx c)
  end.
Definition mismatches_sticky := mismatches ok_sticky.
