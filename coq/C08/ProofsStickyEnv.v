(* C08 — sticky: what Plan computes before touching assignments: potential consumers/partitions and the
   assignment reconstructed from user data. *)
From Coq Require Import List ZArith Bool Lia Permutation.
From SV Require Import C08.Common C08.RoundRobin C08.Sticky C08.Valid C08.ProofsBase C08.ProofsStickyBase.
Import ListNotations.
Open Scope Z_scope.

Lemma p2c_init_keys : forall l, akeys (p2c_init l) = l.
Proof. induction l as [|p l IH]; simpl; [reflexivity | now rewrite IH]. Qed.
Lemma p2c_init_get : forall l q, p2c_get (p2c_init l) q = [].
Proof.
  intros l q. unfold p2c_get. induction l as [|p l IH]; simpl; [reflexivity|].
  destruct (tp_eqb q p); [reflexivity | assumption].
Qed.

Section Env.
  Variable ms : list member.
  Variable ts : topics_t.
  Hypothesis Wm : wf_members ms.
  Hypothesis Wt : wf_topics ts.

  (* member m may be given partition p *)
  Definition pot (m : str) (p : tp) : Prop := In p (all_tps ts) /\ subscribes ms m (fst p).

  Definition potl (subs : list str) : list tp :=
    flat_map (fun t => match aget str_eqb t ts with Some ps => expand_topic t ps | None => [] end) subs.

  Lemma potl_In : forall subs q, In q (potl subs) <-> In q (all_tps ts) /\ In (fst q) subs.
  Proof.
    intros subs q. unfold potl. rewrite in_flat_map. split.
    - intros [t [H1 H2]]. destruct (aget str_eqb t ts) as [ps|] eqn:E; [|contradiction].
      apply expand_topic_In in H2 as [H2 H3]. apply (aget_In str_eqb str_spec) in E. split.
      + apply all_tps_In. exists ps. now rewrite H2.
      + now rewrite H2.
    - intros [H1 H2]. apply all_tps_In in H1 as [ps [H1 H3]]. exists (fst q). split; [assumption|].
      destruct Wt as [W1 _]. rewrite (In_aget str_eqb str_spec (fst q) ps ts W1 H1). now apply expand_topic_In.
  Qed.

  Lemma pot_member : forall m p, pot m p -> In m (map m_id ms).
  Proof. intros m p [_ [mm [H1 [H2 _]]]]. apply in_map_iff. now exists mm. Qed.

  Lemma pot_iff : forall m q, pot m q <-> exists mm, In mm ms /\ m_id mm = m /\ In q (potl (m_topics mm)).
  Proof.
    intros m q. unfold pot, subscribes. split.
    - intros [H1 [mm [H2 [H3 H4]]]]. exists mm. repeat split; auto. apply potl_In. now split.
    - intros [mm [H2 [H3 H4]]]. apply potl_In in H4 as [H4 H5]. split; [assumption|]. now exists mm.
  Qed.

  (* ---- pot_parts ---- *)
  Lemma pot_parts_spec : forall mid tps c2p p2c c2p' p2c',
    pot_parts c2p p2c mid tps = (c2p', p2c') ->
    In mid (akeys c2p) -> (forall p, In p tps -> In p (akeys p2c)) ->
    akeys c2p' = akeys c2p /\ akeys p2c' = akeys p2c /\
    ca_get c2p' mid = ca_get c2p mid ++ tps /\ (forall m', m' <> mid -> ca_get c2p' m' = ca_get c2p m') /\
    (forall q m, In m (p2c_get p2c' q) <-> In m (p2c_get p2c q) \/ (m = mid /\ In q tps)).
  Proof.
    intros mid. induction tps as [|p r IH]; intros c2p p2c c2p' p2c' E Hm Hk; cbn [pot_parts] in E.
    - injection E as <- <-. split; [reflexivity|]. split; [reflexivity|]. split; [now rewrite app_nil_r|].
      split; [reflexivity|]. intros q m. simpl. tauto.
    - apply IH in E.
      + destruct E as [K1 [K2 [G1 [G2 G3]]]].
        rewrite (aset_keys_in str_eqb str_spec) in K1 by assumption.
        rewrite (aset_keys_in tp_eqb tp_spec) in K2 by (apply Hk; now left).
        split; [exact K1|]. split; [exact K2|]. split; [|split].
        * rewrite G1, ca_get_aset_same, <- app_assoc. reflexivity.
        * intros m' N. rewrite (G2 m' N). now apply ca_get_aset_other.
        * intros q m. rewrite G3. destruct (eq_dec_of tp_eqb tp_spec q p) as [->|N].
          -- rewrite p2c_get_aset_same, in_app_iff. simpl. split.
             ++ intros [[H|[H|[]]]|[H1 H2]]; [now left | right; split; [now symmetry | now left] | right; split; [assumption | now right]].
             ++ intros [H|[H1 [H2|H2]]]; [left; now left | left; right; left; now symmetry | right; now split].
          -- rewrite (p2c_get_aset_other p q) by assumption. simpl. split.
             ++ intros [H|[H1 H2]]; [now left | right; split; [assumption | now right]].
             ++ intros [H|[H1 [H2|H2]]]; [now left | congruence | right; now split].
      + rewrite (aset_keys_in str_eqb str_spec) by assumption. assumption.
      + intros q Hq. rewrite (aset_keys_in tp_eqb tp_spec) by (apply Hk; now left). apply Hk. now right.
  Qed.

  (* ---- pot_topics ---- *)
  Lemma pot_topics_spec : forall mid subs c2p p2c c2p' p2c',
    pot_topics ts c2p p2c mid subs = (c2p', p2c') ->
    In mid (akeys c2p) -> (forall p, In p (all_tps ts) -> In p (akeys p2c)) ->
    akeys c2p' = akeys c2p /\ akeys p2c' = akeys p2c /\
    ca_get c2p' mid = ca_get c2p mid ++ potl subs /\ (forall m', m' <> mid -> ca_get c2p' m' = ca_get c2p m') /\
    (forall q m, In m (p2c_get p2c' q) <-> In m (p2c_get p2c q) \/ (m = mid /\ In q (potl subs))).
  Proof.
    intros mid. induction subs as [|t r IH]; intros c2p p2c c2p' p2c' E Hm Hk; cbn [pot_topics] in E.
    - injection E as <- <-. split; [reflexivity|]. split; [reflexivity|]. split; [simpl; now rewrite app_nil_r|].
      split; [reflexivity|]. intros q m. simpl. tauto.
    - unfold potl. cbn [flat_map]. fold (potl r). destruct (aget str_eqb t ts) as [ps|] eqn:Et.
      + destruct (pot_parts c2p p2c mid (expand_topic t ps)) as [c1 p1] eqn:E1.
        apply pot_parts_spec in E1; [|assumption|].
        * destruct E1 as [K1 [K2 [G1 [G2 G3]]]].
          apply IH in E; [|now rewrite K1 | intros q Hq; rewrite K2; now apply Hk].
          destruct E as [K1' [K2' [G1' [G2' G3']]]].
          split; [congruence|]. split; [congruence|]. split; [|split].
          -- rewrite G1', G1, <- app_assoc. reflexivity.
          -- intros m' N. now rewrite (G2' m' N), (G2 m' N).
          -- intros q m. rewrite G3', G3, in_app_iff. tauto.
        * intros q Hq. apply Hk. apply expand_topic_In in Hq as [Hq1 Hq2]. apply all_tps_In. exists ps.
          rewrite Hq1. split; [now apply (aget_In str_eqb str_spec) | assumption].
      + apply IH in E; [|assumption|assumption]. simpl. exact E.
  Qed.

  (* ---- pot_members ---- *)
  Record pm_inv (ca0 : asg) (done : list member) (c2p : asg) (p2c : p2c_t) (ca : asg) : Prop := {
    pm_c2p_keys : akeys c2p = map m_id done;
    pm_p2c_keys : akeys p2c = all_tps ts;
    pm_c2p : forall mm, In mm done -> ca_get c2p (m_id mm) = potl (m_topics mm);
    pm_p2c : forall q m, In m (p2c_get p2c q) <-> exists mm, In mm done /\ m_id mm = m /\ In q (potl (m_topics mm));
    pm_ca_nodup : NoDup (akeys ca);
    pm_ca_keys : forall x, In x (akeys ca) <-> In x (akeys ca0) \/ In x (map m_id done);
    pm_ca_lists : lists ca = lists ca0;
    pm_ca_get : forall m, ca_get ca m = ca_get ca0 m
  }.

  Lemma pot_members_spec : forall ca0 l done c2p p2c ca c2p' p2c' ca',
    pot_members ts l c2p p2c ca = (c2p', p2c', ca') ->
    pm_inv ca0 done c2p p2c ca -> NoDup (map m_id (done ++ l)) ->
    pm_inv ca0 (done ++ l) c2p' p2c' ca'.
  Proof.
    intros ca0. induction l as [|m l IH]; intros done c2p p2c ca c2p' p2c' ca' E I N; cbn [pot_members] in E.
    - injection E as <- <- <-. now rewrite app_nil_r.
    - destruct (pot_topics ts (aset str_eqb (m_id m) [] c2p) p2c (m_id m) (m_topics m)) as [c1 p1] eqn:E1.
      destruct I as [I1 I2 I3 I4 I5 I6 I7 I8].
      assert (Nm : ~ In (m_id m) (map m_id done)).
      { rewrite map_app in N. apply NoDup_app_inv in N as [_ [_ N]]. intro H. apply (N _ H). now left. }
      assert (Nk : ~ In (m_id m) (akeys c2p)) by now rewrite I1.
      apply pot_topics_spec in E1.
      + destruct E1 as [K1 [K2 [G1 [G2 G3]]]].
        rewrite ca_get_aset_same in G1. simpl in G1.
        replace (done ++ m :: l) with ((done ++ [m]) ++ l) in * by now rewrite <- app_assoc.
        eapply IH; [exact E| |assumption].
        constructor.
        * rewrite K1, (aset_keys_notin str_eqb str_spec) by assumption. rewrite I1, map_app. reflexivity.
        * now rewrite K2.
        * intros mm Hmm. apply in_app_or in Hmm as [Hmm|[<-|[]]]; [|exact G1].
          rewrite G2, ca_get_aset_other; [now apply I3| |]; intro Eq; apply Nm; rewrite <- Eq; apply in_map_iff; now exists mm.
        * intros q x. rewrite G3, I4. split.
          -- intros [[mm [H1 [H2 H3]]]|[H1 H2]]; [exists mm; split; [apply in_or_app; now left | now split] | exists m; split; [apply in_or_app; right; now left | now split]].
          -- intros [mm [H1 [H2 H3]]]. apply in_app_or in H1 as [H1|[<-|[]]]; [left; now exists mm | right; now split].
        * destruct (aget str_eqb (m_id m) ca); [assumption | now apply (aset_NoDup str_eqb str_spec)].
        * intro x. rewrite map_app, in_app_iff. simpl. destruct (aget str_eqb (m_id m) ca) eqn:Eg.
          -- rewrite I6. apply (aget_Some_key str_eqb str_spec) in Eg. apply I6 in Eg. split; [tauto|]. intros [H|[H|[<-|[]]]]; tauto.
          -- rewrite (aset_keys_iff str_eqb str_spec), I6. split; [intros [->|[H|H]]; tauto | intros [H|[H|[<-|[]]]]; tauto].
        * destruct (aget str_eqb (m_id m) ca) eqn:Eg; [assumption|].
          destruct (aset_cases str_eqb str_spec (m_id m) (@nil tp) ca) as [[_ A]|[l1 [v0 [l2 [_ [_ [A _]]]]]]]; [|congruence].
          rewrite A, lists_app, <- I7. unfold lists at 2. simpl. now rewrite app_nil_r.
        * intro x. destruct (aget str_eqb (m_id m) ca) eqn:Eg; [apply I8|].
          destruct (eq_dec_of str_eqb str_spec x (m_id m)) as [->|Nx].
          -- rewrite ca_get_aset_same. rewrite <- I8. unfold ca_get. now rewrite Eg.
          -- rewrite ca_get_aset_other by assumption. apply I8.
      + apply (aset_keys_iff str_eqb str_spec). now left.
      + intros q Hq. now rewrite I2.
  Qed.

  Lemma pot_members_init : forall ca0, NoDup (akeys ca0) -> pm_inv ca0 [] [] (p2c_init (all_tps ts)) ca0.
  Proof.
    intros ca0 N. constructor; try reflexivity; try assumption.
    - apply p2c_init_keys.
    - intros mm [].
    - intros q m. rewrite p2c_init_get. split; [intros [] | intros [mm [[] _]]].
    - intro x. simpl. tauto.
  Qed.

  (* the facts used later, for the whole member list *)
  Lemma pot_members_facts : forall ca0 c2p p2c ca1, NoDup (akeys ca0) ->
    pot_members ts ms [] (p2c_init (all_tps ts)) ca0 = (c2p, p2c, ca1) ->
    akeys c2p = map m_id ms /\ akeys p2c = all_tps ts /\
    (forall m q, In q (ca_get c2p m) <-> pot m q) /\
    (forall q m, In m (p2c_get p2c q) <-> pot m q) /\
    NoDup (akeys ca1) /\ (forall x, In x (akeys ca1) <-> In x (akeys ca0) \/ In x (map m_id ms)) /\
    lists ca1 = lists ca0 /\ (forall m, ca_get ca1 m = ca_get ca0 m).
  Proof.
    intros ca0 c2p p2c ca1 N E.
    pose proof (pot_members_spec ca0 ms [] [] _ _ _ _ _ E (pot_members_init ca0 N) Wm) as [I1 I2 I3 I4 I5 I6 I7 I8].
    simpl in *. split; [exact I1|]. split; [exact I2|]. split; [|split; [|repeat split; auto; apply I6]].
    - intros m q. split.
      + intro H. assert (Hk : In m (akeys c2p)) by (apply ca_get_nonempty_key; intro Hn; now rewrite Hn in H).
        rewrite I1 in Hk. apply in_map_iff in Hk as [mm [Hid Hmm]]. subst m. rewrite (I3 mm Hmm) in H.
        apply pot_iff. now exists mm.
      + intro H. apply pot_iff in H as [mm [H1 [H2 H3]]]. subst m. now rewrite (I3 mm H1).
    - intros q m. rewrite I4. symmetry. apply pot_iff.
  Qed.

  (* ---- prepopulateCurrentAssignments ---- *)
  Definition sp_ok (sp : sp_t) : Prop :=
    NoDup (akeys sp) /\ forall p cs g c, In (p, cs) sp -> In (g, c) cs -> In c (map m_id ms).

  Lemma prepop_part_ok : forall mid gen sp p, In mid (map m_id ms) -> sp_ok sp -> sp_ok (prepop_part mid gen sp p).
  Proof.
    intros mid gen sp p Hm [S1 S2]. unfold prepop_part.
    assert (A : forall cs' , (forall g c, In (g, c) cs' -> In c (map m_id ms)) -> sp_ok (aset tp_eqb p cs' sp)).
    { intros cs' H. split; [now apply (aset_NoDup tp_eqb tp_spec)|].
      intros q cs g c H1 H2. apply (aset_In tp_eqb tp_spec) in H1 as [[-> ->]|H1]; [now apply (H g c) | now apply (S2 q cs g c)]. }
    destruct (aget tp_eqb p sp) as [cs|] eqn:E.
    - apply (aget_In tp_eqb tp_spec) in E.
      assert (B : forall g0, forall g c, In (g, c) (aset Z.eqb g0 mid cs) -> In c (map m_id ms)).
      { intros g0 g c H. apply (aset_In Z.eqb Z_spec) in H as [[-> ->]|H]; [assumption | now apply (S2 p cs g c)]. }
      destruct gen as [g|].
      + destruct (mem Z.eqb g (akeys cs)); [now split | apply A, B].
      + apply A, B.
    - apply A. intros g c [H|[]]. injection H as _ <-. assumption.
  Qed.

  Lemma fold_prepop_ok : forall mid gen parts sp, In mid (map m_id ms) -> sp_ok sp -> sp_ok (fold_left (prepop_part mid gen) parts sp).
  Proof.
    intros mid gen. induction parts as [|p r IH]; intros sp Hm S; simpl; [assumption|].
    apply IH; [assumption | now apply prepop_part_ok].
  Qed.

  Lemma prepop_members_ok : forall ids sp sp', (forall x, In x ids -> In x (map m_id ms)) -> sp_ok sp ->
    prepop_members ms ids sp = Some sp' -> sp_ok sp'.
  Proof.
    induction ids as [|id r IH]; intros sp sp' Hi S E; cbn [prepop_members] in E.
    - now injection E as <-.
    - destruct (find_member ms id) as [m|]; [|eapply IH; eauto; intros x Hx; apply Hi; now right].
      destruct (m_ud m) as [|parts gen]; [discriminate|].
      eapply IH; [| |exact E]; [intros x Hx; apply Hi; now right|].
      apply fold_prepop_ok; [apply Hi; now left | assumption].
  Qed.

  Lemma prepop_assign_ok : forall sp keys ca prev ca' prev', sp_ok sp ->
    prepop_assign sp keys ca prev = (ca', prev') ->
    NoDup (akeys ca) -> (forall x, In x (akeys ca) -> In x (map m_id ms)) -> NoDup (lists ca ++ keys) ->
    NoDup (akeys ca') /\ (forall x, In x (akeys ca') -> In x (map m_id ms)) /\ NoDup (lists ca').
  Proof.
    intros sp. induction keys as [|p r IH]; intros ca prev ca' prev' S E N K D; cbn [prepop_assign] in E.
    - injection E as <- _. rewrite app_nil_r in D. auto.
    - destruct (sort gen_greater match aget tp_eqb p sp with Some cs => cs | None => [] end) as [|[g c] rest] eqn:Es.
      + eapply IH; eauto. apply NoDup_remove_1 in D. exact D.
      + assert (Hc : In c (map m_id ms)).
        { assert (H : In (g, c) (sort gen_greater match aget tp_eqb p sp with Some cs => cs | None => [] end)) by (rewrite Es; now left).
          apply sort_In in H. destruct (aget tp_eqb p sp) as [cs|] eqn:Eg; [|contradiction].
          apply (aget_In tp_eqb tp_spec) in Eg. destruct S as [_ S2]. now apply (S2 p cs g c). }
        set (ca1 := aset str_eqb c (ca_get ca c ++ [p]) ca) in *.
        assert (N1 : NoDup (akeys ca1)) by now apply (aset_NoDup str_eqb str_spec).
        assert (K1 : forall x, In x (akeys ca1) -> In x (map m_id ms)).
        { intros x Hx. apply (aset_keys_iff str_eqb str_spec) in Hx as [->|Hx]; [assumption | now apply K]. }
        assert (D1 : NoDup (lists ca1 ++ r)).
        { eapply Permutation_NoDup; [|exact D]. unfold ca1. rewrite (lists_append c [p] ca N).
          rewrite <- app_assoc. reflexivity. }
        destruct rest as [|[g1 c1] rest']; eapply IH; eauto.
  Qed.

  Lemma prepopulate_ok : forall o ca0 prev, prepopulate o ms = Some (ca0, prev) ->
    NoDup (akeys ca0) /\ (forall x, In x (akeys ca0) -> In x (map m_id ms)) /\ NoDup (lists ca0).
  Proof.
    intros o ca0 prev E. unfold prepopulate in E.
    destruct (prepop_members ms (order_by str_eqb (o_prepop_members o) (map m_id ms)) []) as [sp|] eqn:E1; [|discriminate].
    injection E as E.
    assert (S : sp_ok sp).
    { eapply prepop_members_ok; [| |exact E1].
      - intros x Hx. now apply (order_by_spec str_eqb str_spec (o_prepop_members o) (map m_id ms) Wm) in Hx.
      - split; [constructor | intros ? ? ? ? []]. }
    eapply prepop_assign_ok; [exact S | exact E | constructor | intros x [] |].
    simpl. apply (order_by_spec tp_eqb tp_spec). apply S.
  Qed.
End Env.
