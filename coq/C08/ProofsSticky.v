(* C08 — validity of the (repaired) sticky strategy's plan: for all members, subscriptions, topic maps, user data and
   iteration orders, and for every amount of fuel given to the reassignment loop. *)
From Coq Require Import List ZArith Bool Lia Permutation.
From SV Require Import C08.Common C08.RoundRobin C08.Sticky C08.Valid C08.ProofsBase C08.ProofsStickyBase
  C08.ProofsStickyEnv C08.ProofsStickyKeep C08.ProofsStickyMove C08.ProofsStickySort.
Import ListNotations.
Open Scope Z_scope.

(* ---- adding the fixed assignments back ---- *)
Lemma add_back_spec : forall fixed ca, NoDup (akeys fixed) -> (forall m, In m (akeys fixed) -> ~ In m (akeys ca)) -> NoDup (akeys ca) ->
  NoDup (akeys (add_back fixed ca)) /\
  (forall x, In x (akeys (add_back fixed ca)) <-> In x (akeys ca) \/ In x (akeys fixed)) /\
  Permutation (lists (add_back fixed ca)) (lists ca ++ lists fixed) /\
  (forall m q, In q (ca_get (add_back fixed ca) m) -> In q (ca_get ca m) \/ In q (ca_get fixed m)).
Proof.
  induction fixed as [|[m l] r IH]; intros ca Nf D Nc; cbn [add_back].
  - split; [assumption|]. split; [intro x; simpl; tauto|]. split; [unfold lists at 3; simpl; now rewrite app_nil_r|]. intros; now left.
  - simpl in Nf. inversion Nf as [|? ? Hm Nr]; subst.
    assert (Hmc : ~ In m (akeys ca)) by (apply D; now left).
    destruct (IH (aset str_eqb m l ca)) as [A [B [C E]]].
    + assumption.
    + intros x Hx Hx2. apply (aset_keys_iff str_eqb str_spec) in Hx2 as [->|Hx2]; [contradiction|]. apply (D x); [now right | assumption].
    + now apply (aset_NoDup str_eqb str_spec).
    + split; [assumption|]. split; [|split].
      * intro x. rewrite B, (aset_keys_iff str_eqb str_spec). simpl. split; [intros [[->|H]|H]; auto | intros [H|[<-|H]]; auto].
      * rewrite C. rewrite (lists_aset_split m l ca Nc), (adel_notin m ca Hmc). rewrite lists_cons.
        rewrite <- !app_assoc. apply Permutation_app_swap_app.
      * intros m' q H. apply E in H. unfold ca_get at 2. cbn [aget]. destruct (eq_dec_of str_eqb str_spec m' m) as [->|Nm].
        -- rewrite str_eqb_refl. rewrite ca_get_aset_same in H. destruct H as [H|H]; [now right|].
           exfalso. apply Hm. apply ca_get_nonempty_key. intro E0. now rewrite E0 in H.
        -- apply str_eqb_neq in Nm as Nm'. rewrite Nm'. rewrite ca_get_aset_other in H by assumption. exact H.
Qed.

(* ---- assembling the plan ---- *)
Definition asg_triples (ca : asg) : list (str * str * Z) :=
  flat_map (fun e => map (fun q => (fst e, fst q, snd q)) (snd e)) ca.

Lemma asg_triples_proj : forall ca, map (fun x : str * str * Z => (snd (fst x), snd x)) (asg_triples ca) = lists ca.
Proof.
  induction ca as [|[m l] ca IH]; [reflexivity|]. unfold asg_triples. cbn [flat_map]. rewrite map_app. fold (asg_triples ca). rewrite IH.
  rewrite lists_cons. f_equal. rewrite map_map. simpl. induction l as [|[t q] l IHl]; simpl; [reflexivity | now rewrite IHl].
Qed.
Lemma asg_triples_In : forall ca m t q, In (m, t, q) (asg_triples ca) <-> exists l, In (m, l) ca /\ In (t, q) l.
Proof.
  intros ca m t q. unfold asg_triples. rewrite in_flat_map. split.
  - intros [[m' l] [H1 H2]]. simpl in H2. apply in_map_iff in H2 as [[t' q'] [E H2]]. simpl in E. injection E as <- <- <-. now exists l.
  - intros [l [H1 H2]]. exists (m, l). split; [assumption|]. simpl. apply in_map_iff. now exists (t, q).
Qed.

Lemma plan_add_keys_iff : forall p m t ps x, ps <> [] -> (In x (map fst (plan_add p m t ps)) <-> x = m \/ In x (map fst p)).
Proof.
  intros p m t ps x H. unfold plan_add. destruct ps; [congruence|]. apply (aset_keys_iff str_eqb str_spec).
Qed.

Lemma plan_add_all_spec : forall l p m, wf_plan p ->
  wf_plan (plan_add_all p m l) /\
  Permutation (triples (plan_add_all p m l)) (triples p ++ map (fun q => (m, fst q, snd q)) l) /\
  (forall x, In x (map fst (plan_add_all p m l)) <-> In x (map fst p) \/ (x = m /\ l <> [])).
Proof.
  induction l as [|[t q] l IH]; intros p m W; cbn [plan_add_all].
  - split; [assumption|]. split; [simpl; now rewrite app_nil_r|]. intro x. split; [now left | intros [H|[_ H]]; [assumption | congruence]].
  - destruct (IH (plan_add p m t [q]) m (plan_add_wf p m t [q] W)) as [A [B C]]. cbn [fst snd].
    split; [assumption|]. split.
    + rewrite B, (plan_add_perm p m t [q]). unfold entry. simpl. rewrite <- app_assoc. reflexivity.
    + intro x. rewrite C. rewrite (plan_add_keys_iff p m t [q] x) by discriminate. split.
      * intros [[->|H]|[-> _]]; [right; split; [reflexivity | discriminate] | now left | right; split; [reflexivity | discriminate]].
      * intros [H|[-> _]]; [left; now right | left; now left].
Qed.

Lemma assemble_spec : forall ca p, wf_plan p -> NoDup (akeys ca) -> (forall m, In m (akeys ca) -> ~ In m (map fst p)) ->
  wf_plan (assemble ca p) /\
  Permutation (triples (assemble ca p)) (triples p ++ asg_triples ca) /\
  (forall x, In x (map fst (assemble ca p)) <-> In x (map fst p) \/ In x (akeys ca)).
Proof.
  induction ca as [|[m l] ca IH]; intros p W N D; cbn [assemble].
  - split; [assumption|]. split; [unfold asg_triples; simpl; now rewrite app_nil_r|]. intro x. simpl. tauto.
  - simpl in N. inversion N as [|? ? Hm Nr]; subst.
    assert (Hmp : ~ In m (map fst p)) by (apply D; now left).
    assert (Cont : forall p1, wf_plan p1 -> Permutation (triples p1) (triples p ++ map (fun q => (m, fst q, snd q)) l) ->
                   (forall x, In x (map fst p1) <-> In x (map fst p) \/ x = m) ->
                   wf_plan (assemble ca p1) /\
                   Permutation (triples (assemble ca p1)) (triples p ++ asg_triples ((m, l) :: ca)) /\
                   (forall x, In x (map fst (assemble ca p1)) <-> In x (map fst p) \/ In x (akeys ((m, l) :: ca)))).
    { intros p1 W1 T1 K1. destruct (IH p1 W1 Nr) as [A [B C]].
      { intros x Hx Hx2. apply K1 in Hx2 as [Hx2| ->]; [apply (D x); [now right | assumption] | contradiction]. }
      split; [assumption|]. split.
      + rewrite B, T1. unfold asg_triples at 2. cbn [flat_map fst snd]. fold (asg_triples ca). now rewrite <- app_assoc.
      + intro x. rewrite C, K1. simpl. split; [intros [[H|H]|H]; auto | intros [H|[H|H]]; auto]. }
    destruct l as [|q0 l0].
    + apply Cont.
      * destruct W as [W1 W2]. split.
        -- now apply (aset_NoDup str_eqb str_spec).
        -- intros m' tl H. apply (aset_In str_eqb str_spec) in H as [[-> ->]|H]; [constructor | now apply (W2 m')].
      * destruct (aset_cases str_eqb str_spec m (@nil (str * list Z)) p) as [[_ A]|[l1 [v0 [l2 [A [_ _]]]]]].
        -- rewrite A, triples_app. simpl. now rewrite !app_nil_r.
        -- exfalso. apply Hmp. rewrite A, map_app. apply in_or_app. right. now left.
      * intro x. change (map fst (aset str_eqb m [] p)) with (akeys (aset str_eqb m (@nil (str * list Z)) p)).
        rewrite (aset_keys_iff str_eqb str_spec). unfold akeys. tauto.
    + destruct (plan_add_all_spec (q0 :: l0) p m W) as [A [B C]]. apply Cont; [assumption | assumption |].
      intro x. rewrite C. split; [intros [H|[H _]]; tauto | intros [H|H]; [now left | right; split; [assumption | discriminate]]].
Qed.

Lemma assemble_valid : forall ms ts ca,
  NoDup (akeys ca) -> (forall m, In m (akeys ca) -> In m (map m_id ms)) -> NoDup (lists ca) ->
  (forall m q, In q (ca_get ca m) -> pot ms ts m q) ->
  (forall q, In q (all_tps ts) -> (exists m, pot ms ts m q) -> In q (lists ca)) ->
  valid_plan ms ts (assemble ca []).
Proof.
  intros ms ts ca N K D S C.
  destruct (assemble_spec ca [] wf_plan_nil N) as [[W1 W2] [P Kp]]; [intros m _ []|]. simpl in P.
  assert (PA : Permutation (assigned (assemble ca [])) (lists ca)).
  { rewrite <- asg_triples_proj. unfold assigned. now apply Permutation_map. }
  constructor.
  - exact W1.
  - exact W2.
  - intros m Hm. apply Kp in Hm as [[]|Hm]. now apply K.
  - intros m t q H. apply (Permutation_in _ P) in H. apply asg_triples_In in H as [l [H1 H2]].
    rewrite <- (entry_ca_get m l ca N H1) in H2. destruct (S m (t, q) H2) as [A B]. split; [exact B|].
    apply all_tps_In in A. exact A.
  - eapply Permutation_NoDup; [symmetry; exact PA | exact D].
  - intros t q Hp [m Hs]. apply (Permutation_in _ (Permutation_sym PA)). apply C.
    + apply all_tps_In. exact Hp.
    + exists m. split; [apply all_tps_In; exact Hp | exact Hs].
Qed.

(* ---- split_fixed with nobody fixed leaves the map alone ---- *)
Lemma split_fixed_mono : forall c2p p2c ids ca fixed ca' fixed', split_fixed c2p p2c ids ca fixed = (ca', fixed') ->
  forall x, In x (akeys fixed) -> In x (akeys fixed').
Proof.
  intros c2p p2c. induction ids as [|m r IH]; intros ca fixed ca' fixed' E x Hx; cbn [split_fixed] in E.
  - now injection E as _ <-.
  - destruct (member_can_participate ca c2p p2c m); [eapply IH; eauto|].
    eapply IH; [exact E|]. apply (aset_keys_iff str_eqb str_spec). now right.
Qed.
Lemma split_fixed_nil : forall c2p p2c ids ca fixed ca', split_fixed c2p p2c ids ca fixed = (ca', []) -> ca' = ca.
Proof.
  intros c2p p2c. induction ids as [|m r IH]; intros ca fixed ca' E; cbn [split_fixed] in E.
  - now injection E as <- _.
  - destruct (member_can_participate ca c2p p2c m); [eapply IH; eauto|]. exfalso.
    apply (split_fixed_mono _ _ _ _ _ _ _ E m). apply (aset_keys_iff str_eqb str_spec). now left.
Qed.

(* ---- what Plan has established when it calls performReassignments ---- *)
Record prep_ok (ms : list member) (ts : topics_t) (pr : prep) : Prop := {
  po_c2p : forall m q, In q (ca_get (pr_c2p pr) m) <-> pot ms ts m q;
  po_p2c : forall q m, In m (p2c_get (pr_p2c pr) q) <-> pot ms ts m q;
  po_nw : NoDup (akeys (s_ca (pr_s0 pr)));
  po_nf : NoDup (akeys (pr_fixed pr));
  po_disj : forall m, In m (akeys (pr_fixed pr)) -> ~ In m (akeys (s_ca (pr_s0 pr)));
  po_fprop : fixed_prop ms ts (pr_p2c pr) (pr_fixed pr);
  po_key : forall m q, pot ms ts m q -> In m (akeys (s_ca (pr_s0 pr))) \/ In m (akeys (pr_fixed pr));
  po_ids : forall m, In m (akeys (s_ca (pr_s0 pr))) \/ In m (akeys (pr_fixed pr)) -> In m (map m_id ms);
  po_run : run_inv ms ts (akeys (s_ca (pr_s0 pr))) (pr_fixed pr) (pr_s0 pr);
  po_parts : forall q, In q (pr_parts pr) -> part_can_participate (pr_p2c pr) q = true;
  po_parts_all : forall q, In q (all_tps ts) -> part_can_participate (pr_p2c pr) q = true -> In q (pr_parts pr);
  po_sorted : s_sorted (pr_s0 pr) = sort_members (s_ca (pr_s0 pr))
}.

Lemma assign_all_sorted : forall c2p p2c una ca cpc sorted ca' cpc' sorted',
  assign_all c2p p2c una ca cpc sorted = (ca', cpc', sorted') -> sorted = sort_members ca -> sorted' = sort_members ca'.
Proof.
  intros c2p p2c. induction una as [|x r IH]; intros ca cpc sorted ca' cpc' sorted' E H; cbn [assign_all] in E.
  - now injection E as <- _ <-.
  - destruct (p2c_get p2c x); [eapply IH; eauto|]. unfold assign_partition in E.
    destruct (first_potential c2p x sorted); eapply IH; eauto.
Qed.

Lemma prepop_members_none : forall ms ids sp, prepop_members ms ids sp = None -> exists mm, In mm ms /\ m_ud mm = UDErr.
Proof.
  intros ms. induction ids as [|id r IH]; intros sp H; cbn [prepop_members] in H; [discriminate|].
  destruct (find_member ms id) as [m|] eqn:E; [|eauto].
  destruct (m_ud m) eqn:Eu; [|eauto]. exists m. split; [|assumption]. now apply find_member_spec in E.
Qed.

Lemma sticky_prepare_ok : forall o ms ts pr, wf_members ms -> wf_topics ts ->
  sticky_prepare o ms ts = Some pr -> prep_ok ms ts pr.
Proof.
  intros o ms ts pr Wm Wt E. unfold sticky_prepare in E.
  destruct (prepopulate o ms) as [[ca0 prev]|] eqn:Epre; [|discriminate].
  destruct (prepopulate_ok ms Wm o ca0 prev Epre) as [P1 [P2 P3]].
  destruct (pot_members ts ms [] (p2c_init (all_tps ts)) ca0) as [[c2p p2c] ca1] eqn:Epot.
  destruct (pot_members_facts ms ts Wm Wt ca0 c2p p2c ca1 P1 Epot) as [F1 [F2 [F3 [F4 [F5 [F6 [F7 F8]]]]]]].
  injection E as E.
  assert (Nall : NoDup (all_tps ts)) by now apply all_tps_NoDup.
  set (K := akeys ca1) in *.
  assert (HK : forall m q, pot ms ts m q -> In m K).
  { intros m q H. apply F6. right. eapply pot_member; eassumption. }
  assert (Kids : forall m, In m K -> In m (map m_id ms)).
  { intros m H. apply F6 in H as [H|H]; [now apply P2 | assumption]. }
  (* keep phase *)
  set (ids := order_by str_eqb (o_plan_current o) K) in *.
  destruct (order_by_spec str_eqb str_spec (o_plan_current o) K F5) as [O1 O2].
  set (s0 := {| k_ca := ca1; k_cpc := []; k_unvisited := akeys p2c; k_unassigned := [] |}) in *.
  assert (I0 : keep_inv ms ts K [] s0).
  { constructor; unfold s0; cbn [k_ca k_cpc k_unvisited k_unassigned].
    - reflexivity.
    - rewrite app_nil_r, F7. exact P3.
    - now rewrite F2.
    - intros q Hq. rewrite F2 in Hq. split; [assumption|]. split; [intros [] | intros d []].
    - intros q Hq Hn. exfalso. apply Hn. now rewrite F2.
    - intros d q []. }
  pose proof (keep_members_inv ms ts p2c F2 K F5 ids [] s0 I0 O1 (fun x Hx => proj1 (O2 x) Hx)) as IK.
  simpl in IK. set (k := keep_members ms p2c ids s0) in *.
  destruct IK as [K1 K2 K3 K4 K5 K6].
  assert (NKk : NoDup (akeys (k_ca k))) by now rewrite K1.
  assert (Hall : forall m, In m (akeys (k_ca k)) -> In m ids) by (intros m H; apply O2; now rewrite <- K1).
  destruct (order_by_spec tp_eqb tp_spec (o_plan_unvisited o) (k_unvisited k) K3) as [U1 U2].
  set (una := k_unassigned k ++ order_by tp_eqb (o_plan_unvisited o) (k_unvisited k)) in *.
  assert (IA : asg_inv ms ts K (k_ca k) (k_cpc k) una).
  { constructor.
    - exact K1.
    - unfold una. rewrite app_assoc. apply NoDup_app_intro; [exact K2 | exact U1 |].
      intros q H1 H2. apply U2 in H2. destruct (K4 q H2) as [_ [A2 A3]].
      apply in_app_or in H1 as [H1|H1]; [|contradiction].
      destruct (lists_ca_get (k_ca k) q NKk H1) as [m [M1 M2]]. apply (A3 m); [now apply Hall | assumption].
    - intros m q H. apply K6; [|assumption]. apply Hall. apply ca_get_nonempty_key. intro E0. now rewrite E0 in H.
    - intros q H1 _. destruct (in_dec (eq_dec_of tp_eqb tp_spec) q (k_unvisited k)) as [Hu|Hu].
      + right. unfold una. apply in_or_app. right. now apply U2.
      + destruct (K5 q H1 Hu) as [H|[d [D1 D2]]]; [right; unfold una; apply in_or_app; now left|].
        left. eapply ca_get_lists; eassumption. }
  (* balance up to performReassignments *)
  unfold balance_prepare in E.
  destruct (assign_all c2p p2c una (k_ca k) (k_cpc k) (sort_members (k_ca k))) as [[ca1' cpc1] sorted1] eqn:Eas.
  destruct (assign_all_inv ms ts c2p p2c K F5 F3 F4 HK una _ _ _ _ _ _ Eas IA) as [[A1 A2 A3 A4] A5].
  { intro m. rewrite sort_members_In. now rewrite K1. }
  destruct (split_fixed c2p p2c (akeys c2p) ca1' []) as [ca2 fixed] eqn:Esp.
  assert (IS0 : split_inv ms ts p2c K cpc1 ca1' []).
  { constructor; simpl.
    - now rewrite A1.
    - constructor.
    - intros m [].
    - intro m. rewrite A1. tauto.
    - unfold lists at 2. simpl. exact A2.
    - exact A3.
    - intros m q [].
    - intros q H1 H2. destruct (A4 q H1 H2) as [H|[]]. now left.
    - intros m []. }
  pose proof (split_fixed_inv ms ts c2p p2c F3 K cpc1 (akeys c2p) ca1' [] ca2 fixed Esp IS0) as IS.
  rewrite F1 in IS. specialize (IS Wm (fun m _ H => H) (fun m Hm => proj2 (F6 m) (or_intror Hm))).
  destruct IS as [S1 S2 S3 S4 S5 S6 S7 S8 S9].
  subst pr. cbn [pr_prev pr_c2p pr_p2c pr_parts pr_s0 pr_fixed pr_initializing s_ca].
  constructor; cbn [pr_prev pr_c2p pr_p2c pr_parts pr_s0 pr_fixed pr_initializing s_ca]; auto.
  - intros m q H. apply S4. eapply HK; eassumption.
  - intros m H. apply Kids. now apply S4.
  - constructor; cbn [s_ca s_cpc s_mov s_sorted s_picks]; auto.
    + intro m. destruct fixed as [|f0 fr].
      * rewrite (split_fixed_nil _ _ _ _ _ _ Esp). rewrite A5. now rewrite A1.
      * apply sort_members_In.
    + intros q [].
  - intros q Hq.
    pose proof (sort_partitions_ok o (k_ca k) prev match ca0 with [] => true | _ :: _ => false end p2c c2p NKk) as SP.
    destruct SP as [SP1 SP2]; [now apply NoDup_app_inv in K2 | now rewrite F2|].
    destruct (drop_nonparticipating_spec p2c (akeys p2c) _ SP1) as [_ DS]. apply DS in Hq as [Q1 Q2].
    destruct (part_can_participate p2c q) eqn:Ep; [reflexivity|]. exfalso. apply Q2. split; [now apply SP2 | reflexivity].
  - intros q Hq Hp.
    pose proof (sort_partitions_ok o (k_ca k) prev match ca0 with [] => true | _ :: _ => false end p2c c2p NKk) as SP.
    destruct SP as [SP1 SP2]; [now apply NoDup_app_inv in K2 | now rewrite F2|].
    destruct (drop_nonparticipating_spec p2c (akeys p2c) _ SP1) as [_ DS]. apply DS. split.
    + apply sort_partitions_cover. now rewrite F2.
    + intros [_ H]. congruence.
  - destruct fixed as [|f0 fr]; [|reflexivity].
    rewrite (split_fixed_nil _ _ _ _ _ _ Esp). eapply assign_all_sorted; [exact Eas | reflexivity].
Qed.

(* ---- the theorem ---- *)
Theorem sticky_valid : forall fuel o ms ts, wf_members ms -> wf_topics ts ->
  let r := sticky_plan_full fuel true o ms ts in
  match p_res r with
  | SErr => exists mm, In mm ms /\ m_ud mm = UDErr
  | SPanic => False
  | SFuel p | SOk p => (p_reverted r = true -> p_nfixed r = 0) -> valid_plan ms ts p
  end.
Proof.
  intros fuel o ms ts Wm Wt. unfold sticky_plan_full.
  destruct (sticky_prepare o ms ts) as [pr|] eqn:Ep.
  2:{ cbn [p_res]. unfold sticky_prepare in Ep. destruct (prepopulate o ms) as [[ca0 prev]|] eqn:Epre.
      - destruct (pot_members ts ms [] (p2c_init (all_tps ts)) ca0) as [[c2p p2c] ca1]. discriminate.
      - unfold prepopulate in Epre. destruct (prepop_members ms _ []) eqn:E1; [discriminate|]. eapply prepop_members_none; eassumption. }
  destruct (sticky_prepare_ok o ms ts pr Wm Wt Ep) as [C1 C2 NW NF DJ FP KY ID RI PA _ _].
  set (W := akeys (s_ca (pr_s0 pr))) in *.
  unfold run_perform.
  destruct (perform fuel true (pr_prev pr) (pr_c2p pr) (pr_p2c pr) (pr_parts pr) (pr_s0 pr) false) as [[s' pf] e] eqn:Er.
  pose proof (perform_inv ms ts (pr_c2p pr) (pr_p2c pr) C1 C2 W (pr_fixed pr) NW NF DJ FP KY (pr_prev pr) (pr_parts pr) fuel _ _ _ _ _ Er RI) as RI'.
  (* no panic *)
  assert (NP : e <> PerfPanic).
  { destruct W as [|w0 wr] eqn:EW.
    - assert (Hparts : pr_parts pr = []).
      { destruct (pr_parts pr) as [|q qs] eqn:Eq; [reflexivity|]. exfalso.
        assert (Hq : part_can_participate (pr_p2c pr) q = true) by (apply PA; now left).
        unfold part_can_participate in Hq. apply Z.leb_le in Hq.
        destruct (p2c_get (pr_p2c pr) q) as [|m0 l0] eqn:Eg; [unfold len in Hq; simpl in Hq; lia|].
        assert (Hpot : pot ms ts m0 q) by (apply C2; rewrite Eg; now left).
        destruct (ri_cover ms ts [] (pr_fixed pr) (pr_s0 pr) RI q (proj1 Hpot) (ex_intro _ m0 Hpot)) as [H|H].
        - fold W in EW. assert (E0 : s_ca (pr_s0 pr) = []) by (destruct (s_ca (pr_s0 pr)); [reflexivity | discriminate]).
          rewrite E0 in H. contradiction.
        - apply In_lists in H as [f [l [H1 H2]]].
          assert (Hf : In f (akeys (pr_fixed pr))) by (unfold akeys; apply in_map_iff; now exists (f, l)).
          rewrite <- (entry_ca_get f l (pr_fixed pr) NF H1) in H2. destruct (FP f Hf) as [_ F2]. specialize (F2 q H2).
          rewrite Eg in *. lia. }
      rewrite Hparts in Er. pose proof (perform_no_parts fuel true (pr_prev pr) (pr_c2p pr) (pr_p2c pr) (pr_s0 pr) false) as [H _].
      rewrite Er in H. exact H.
    - eapply (perform_no_panic ms ts (pr_c2p pr) (pr_p2c pr) C1 C2 (w0 :: wr) (pr_fixed pr)); eauto. discriminate. }
  (* the map the caller ends up with *)
  unfold sticky_finish, balance_finish. cbn [b_ca b_end b_reverted b_performed p_res p_reverted p_nfixed].
  set (reverted := negb (pr_initializing pr) && pf && (balance_score (s_ca (pr_s0 pr)) <=? balance_score (s_ca s'))).
  assert (V : (reverted = true -> len (pr_fixed pr) = 0) ->
              valid_plan ms ts (assemble (if reverted then s_ca s' else add_back (pr_fixed pr) (s_ca s')) [])).
  { intro Hrev.
    assert (Eb : (if reverted then s_ca s' else add_back (pr_fixed pr) (s_ca s')) = add_back (pr_fixed pr) (s_ca s')).
    { destruct reverted; [|reflexivity]. specialize (Hrev eq_refl). destruct (pr_fixed pr); [reflexivity|]. unfold len in Hrev. simpl in Hrev. lia. }
    rewrite Eb. destruct RI' as [R1 R2 R3 R4 R5 R6 R7].
    destruct (add_back_spec (pr_fixed pr) (s_ca s') NF) as [B1 [B2 [B3 B4]]]; [now rewrite R1 | now rewrite R1|].
    apply assemble_valid.
    - exact B1.
    - intros m Hm. apply ID. apply B2 in Hm. now rewrite R1 in Hm.
    - eapply Permutation_NoDup; [symmetry; exact B3 | exact R2].
    - intros m q H. apply B4 in H as [H|H]; [now apply (R3 m q) | now apply (R4 m q)].
    - intros q H1 H2. apply (Permutation_in q (Permutation_sym B3)). apply in_or_app. now apply R5. }
  destruct e; [exact V | contradiction | exact V].
Qed.

(* The full statement of the property for the sticky strategy: Plan returns, and what it returns is valid.  It is false
   of the code (pinned and repaired): [sticky_full_statement_refuted] below, from the non-terminating input of
   ProofsWitness.v.  [sticky_valid] above is the statement restricted to exactly two classes of runs: those that are
   still inside performReassignments when the fuel runs out (the assignment at that moment is valid all the same), and
   those that take the "revert" branch of balance() while some member is set aside as fixed. *)
Definition sticky_full_statement : Prop :=
  forall o ms ts, wf_members ms -> wf_topics ts -> (forall mm, In mm ms -> m_ud mm <> UDErr) ->
  exists fuel p, sticky_plan fuel true o ms ts = SOk p /\ valid_plan ms ts p.
