(* C08 — what "a valid partition assignment" means for a plan, as a proposition and as an executable test.
   No proofs here. *)
From Coq Require Import List ZArith Bool String Ascii.
From SV Require Import Base.Corr C08.Common C08.RoundRobin.
Import ListNotations.
Open Scope Z_scope.

(* ASCII string literal -> str (used by the harness-written case files and the examples) *)
Definition str_of (x : string) : str := map (fun a => Z.of_N (N_of_ascii a)) (list_ascii_of_string x).

(* member [m] subscribes to topic [t] *)
Definition subscribes (ms : list member) (m t : str) : Prop :=
  exists mm, In mm ms /\ m_id mm = m /\ In t (m_topics mm).
(* partition [q] of topic [t] exists *)
Definition has_partition (ts : topics_t) (t : str) (q : Z) : Prop :=
  exists ps, In (t, ps) ts /\ In q ps.

(* all (member, topic, partition) entries of a plan *)
Fixpoint inner_triples (m : str) (tl : list (str * list Z)) : list (str * str * Z) :=
  match tl with
  | [] => []
  | (t, ps) :: r => map (fun q => (m, t, q)) ps ++ inner_triples m r
  end.
Fixpoint triples (p : plan) : list (str * str * Z) :=
  match p with
  | [] => []
  | (m, tl) :: r => inner_triples m tl ++ triples r
  end.
Definition assigned (p : plan) : list tp := map (fun x => (snd (fst x), snd x)) (triples p).

(* well-formed inputs: Go map keys are unique, partition ids of a topic are distinct *)
Definition wf_members (ms : list member) : Prop := NoDup (map m_id ms).
Definition wf_topics (ts : topics_t) : Prop := NoDup (map fst ts) /\ forall t ps, In (t, ps) ts -> NoDup ps.

Record valid_plan (ms : list member) (ts : topics_t) (p : plan) : Prop := {
  vp_keys : NoDup (map fst p);                                             (* the plan is a map ... *)
  vp_inner : forall m tl, In (m, tl) p -> NoDup (map fst tl);              (* ... of maps *)
  vp_members : forall m, In m (map fst p) -> In m (map m_id ms);           (* no unknown member *)
  vp_sound : forall m t q, In (m, t, q) (triples p) ->                     (* only to subscribers, only existing partitions *)
             subscribes ms m t /\ has_partition ts t q;
  vp_once : NoDup (assigned p);                                            (* nothing assigned twice *)
  vp_complete : forall t q, has_partition ts t q -> (exists m, subscribes ms m t) -> In (t, q) (assigned p)
}.

(* ---- executable test ---- *)
Fixpoint nodupb {A} (eqb : A -> A -> bool) (l : list A) : bool :=
  match l with [] => true | x :: r => negb (mem eqb x r) && nodupb eqb r end.
Definition subscribesb (ms : list member) (m t : str) : bool :=
  existsb (fun mm => str_eqb (m_id mm) m && mem str_eqb t (m_topics mm)) ms.
Definition has_partitionb (ts : topics_t) (t : str) (q : Z) : bool :=
  existsb (fun x => str_eqb (fst x) t && mem Z.eqb q (snd x)) ts.
Definition any_subscriberb (ms : list member) (t : str) : bool := existsb (fun mm => mem str_eqb t (m_topics mm)) ms.
Definition valid_planb (ms : list member) (ts : topics_t) (p : plan) : bool :=
  nodupb str_eqb (map fst p) &&
  forallb (fun x => nodupb str_eqb (map fst (snd x))) p &&
  forallb (fun m => mem str_eqb m (map m_id ms)) (map fst p) &&
  forallb (fun x => subscribesb ms (fst (fst x)) (snd (fst x)) && has_partitionb ts (snd (fst x)) (snd x)) (triples p) &&
  nodupb tp_eqb (assigned p) &&
  forallb (fun x => negb (any_subscriberb ms (fst x)) || mem tp_eqb x (assigned p)) (all_tps ts).

(* plans as maps: equal when they have the same member keys and the same topic -> partition list entries *)
Definition plan_le (a b : plan) : bool :=
  forallb (fun x => mem str_eqb (fst x) (map fst b) &&
                    forallb (fun y => mem str_eqb (fst y) (map fst (plan_inner b (fst x))) &&
                                      list_eqb Z.eqb (snd y) (inner_get (fst y) (plan_inner b (fst x)))) (snd x)) a.
Definition plan_eqb (a b : plan) : bool := plan_le a b && plan_le b a.
