(* C08 — model of balanceStrategy.Plan with BalanceStrategyRange.coreFn (balance_strategy.go).  No proofs here. *)
From Coq Require Import List ZArith Bool.
From SV Require Import C08.Common C08.RangeFloat.
Import ListNotations.
Open Scope Z_scope.

(* balanceStrategyHashValue(topic, member): FNV-1a over the characters, uint32 arithmetic *)
Definition fnv_step (h c : Z) : Z := (Z.lxor h c * 16777619) mod 4294967296.
Definition hashv (topic member : str) : Z := fold_left fnv_step (topic ++ member) 2166136261.

(* members-by-topic map: mbt[topic] = append(mbt[topic], memberID), members in the map-iteration order given *)
Definition mbt_t := list (str * list str).
Definition mbt_get (mbt : mbt_t) (t : str) : list str := match aget str_eqb t mbt with Some l => l | None => [] end.
Fixpoint mbt_add_topics (mbt : mbt_t) (mid : str) (ts : list str) : mbt_t :=
  match ts with
  | [] => mbt
  | t :: r => mbt_add_topics (aset str_eqb t (mbt_get mbt t ++ [mid]) mbt) mid r
  end.
Fixpoint build_mbt (mbt : mbt_t) (ms : list member) : mbt_t :=
  match ms with
  | [] => mbt
  | m :: r => build_mbt (mbt_add_topics mbt (m_id m) (m_topics m)) r
  end.

(* sort.Sort(balanceStrategySortable): any correct sort by hash; the stable one on the iteration order given
   (ties are 32-bit hash collisions; every possible outcome of an unstable sort is the stable sort of some order) *)
Definition hash_less (topic a b : str) : bool := hashv topic a <? hashv topic b.
Definition sort_by_hash (topic : str) (l : list str) : list str := sort (hash_less topic) l.

Definition topic_partitions (ts : topics_t) (t : str) : list Z := match aget str_eqb t ts with Some l => l | None => [] end.

(* partitions[min:max]; None = slice bounds out of range (run-time panic) *)
Definition slice {A} (lo hi : Z) (l : list A) : option (list A) :=
  if (0 <=? lo) && (lo <=? hi) && (hi <=? len l)
  then Some (firstn (Z.to_nat (hi - lo)) (skipn (Z.to_nat lo) l)) else None.

(* the loop of coreFn *)
Fixpoint core_loop (step : b64) (i : Z) (mids : list str) (topic : str) (parts : list Z) (p : plan) : option plan :=
  match mids with
  | [] => Some p
  | mid :: r =>
    match slice (range_bnd step i) (range_bnd step (i + 1)) parts with
    | None => None
    | Some s => core_loop step (i + 1) r topic parts (plan_add p mid topic s)
    end
  end.
Definition range_core (p : plan) (mids : list str) (topic : str) (parts : list Z) : option plan :=
  core_loop (range_step (len parts) (len mids)) 0 mids topic parts p.

Fixpoint range_topics (ts : topics_t) (mbt : mbt_t) (p : plan) : option plan :=
  match mbt with
  | [] => Some p
  | (topic, mids) :: r =>
    match range_core p (sort_by_hash topic mids) topic (topic_partitions ts topic) with
    | None => None
    | Some p' => range_topics ts r p'
    end
  end.

(* BalanceStrategyRange.Plan; [ms] lists the members in the iteration order of the first loop *)
Definition range_plan (ms : list member) (ts : topics_t) : option plan :=
  range_topics ts (build_mbt [] ms) [].
