(* C08 — sticky: the loop of Plan that keeps valid prior ownership, and the assignment of the unassigned partitions. *)
From Coq Require Import List ZArith Bool Lia Permutation.
From SV Require Import C08.Common C08.RoundRobin C08.Sticky C08.Valid C08.ProofsBase C08.ProofsStickyBase C08.ProofsStickyEnv.
Import ListNotations.
Open Scope Z_scope.

Lemma find_member_spec : forall ms id mm, find_member ms id = Some mm -> In mm ms /\ m_id mm = id.
Proof.
  induction ms as [|m ms IH]; intros id mm H; cbn [find_member] in H; [discriminate|].
  destruct (str_eqb id (m_id m)) eqn:E.
  - injection H as <-. apply str_eqb_eq in E. split; [now left | now symmetry].
  - destruct (IH id mm H) as [H1 H2]. split; [now right | assumption].
Qed.
Lemma topics_of_sub : forall ms m t, In t (topics_of ms m) -> subscribes ms m t.
Proof.
  intros ms m t H. unfold topics_of in H. destruct (find_member ms m) as [mm|] eqn:E; [|contradiction].
  destruct (find_member_spec ms m mm E) as [H1 H2]. now exists mm.
Qed.

Lemma aget_key_iff : forall {V} (p : tp) (c : list (tp * V)), (exists v, aget tp_eqb p c = Some v) <-> In p (akeys c).
Proof.
  intros V p c. split.
  - intros [v E]. eapply (aget_Some_key tp_eqb tp_spec); eassumption.
  - apply (key_aget tp_eqb tp_spec).
Qed.

(* ---- keep_parts ---- *)
Lemma keep_parts_spec : forall ms (p2c : p2c_t) mid parts keep cpc unv una keep' cpc' unv' una',
  keep_parts ms p2c mid parts keep cpc unv una = (keep', cpc', unv', una') ->
  exists kn bn dn,
    keep' = keep ++ kn /\ una' = una ++ bn /\ Permutation parts (kn ++ bn ++ dn) /\
    (forall p, In p kn -> In p (akeys p2c) /\ In (fst p) (topics_of ms mid)) /\
    (forall p, In p bn -> In p (akeys p2c)) /\
    (forall p, In p dn -> ~ In p (akeys p2c)) /\
    (forall q, In q unv' <-> In q unv /\ ~ (In q parts /\ In q (akeys p2c))) /\
    (NoDup unv -> NoDup unv') /\
    (forall q, In q parts -> In q (akeys p2c) -> cpc_get cpc' q = mid) /\
    (forall q, ~ (In q parts /\ In q (akeys p2c)) -> cpc_get cpc' q = cpc_get cpc q).
Proof.
  intros ms p2c mid. induction parts as [|p r IH]; intros keep cpc unv una keep' cpc' unv' una' E; cbn [keep_parts] in E.
  - injection E as <- <- <- <-. exists [], [], []. rewrite !app_nil_r. split; [reflexivity|]. split; [reflexivity|]. split; [reflexivity|].
    split; [intros ? []|]. split; [intros ? []|]. split; [intros ? []|]. split; [intro q; simpl; tauto|]. split; [auto|]. split; [intros ? []|]. reflexivity.
  - destruct (aget tp_eqb p p2c) as [v|] eqn:Eg.
    + assert (Hk : In p (akeys p2c)) by (eapply (aget_Some_key tp_eqb tp_spec); eassumption).
      set (unv1 := filter (fun q => negb (tp_eqb q p)) unv) in *.
      assert (U1 : forall q, In q unv1 <-> In q unv /\ q <> p).
      { intro q. unfold unv1. rewrite filter_In, negb_true_iff, tp_eqb_neq. tauto. }
      destruct (mem str_eqb (fst p) (topics_of ms mid)) eqn:Em.
      * apply IH in E as [kn [bn [dn [K1 [K2 [K3 [K4 [K5 [K6 [K7 [K8 [K9 K10]]]]]]]]]]]].
        exists (p :: kn), bn, dn. split; [now rewrite K1, <- app_assoc|]. split; [assumption|]. split; [simpl; now constructor|].
        split; [intros q [<-|Hq]; [split; [assumption | now apply (mem_In str_eqb str_spec)] | now apply K4]|].
        split; [assumption|]. split; [assumption|]. split; [|split; [|split]].
        -- intro q. rewrite K7, U1. simpl. split.
           ++ intros [[H1 H2] H3]. split; [assumption|]. intros [[H4|H4] H5]; [congruence | tauto].
           ++ intros [H1 H2]. split; [split; [assumption|]|]; [intros ->; apply H2; split; [now left | assumption] | intros [H3 H4]; apply H2; split; [now right | assumption]].
        -- intro Hn. apply K8. now apply NoDup_filter.
        -- intros q [<-|Hq] Hq2.
           ++ destruct (in_dec (eq_dec_of tp_eqb tp_spec) p r) as [Hi|Hi]; [now apply K9|].
              rewrite K10 by tauto. apply cpc_get_aset_same.
           ++ now apply K9.
        -- intros q Hq. rewrite K10 by (intros [H1 H2]; apply Hq; split; [now right | assumption]).
           apply cpc_get_aset_other. intros ->. apply Hq. split; [now left | assumption].
      * apply IH in E as [kn [bn [dn [K1 [K2 [K3 [K4 [K5 [K6 [K7 [K8 [K9 K10]]]]]]]]]]]].
        exists kn, (p :: bn), dn. split; [assumption|]. split; [now rewrite K2, <- app_assoc|].
        split; [rewrite K3; apply Permutation_middle|].
        split; [assumption|]. split; [intros q [<-|Hq]; [assumption | now apply K5]|]. split; [assumption|]. split; [|split; [|split]].
        -- intro q. rewrite K7, U1. simpl. split.
           ++ intros [[H1 H2] H3]. split; [assumption|]. intros [[H4|H4] H5]; [congruence | tauto].
           ++ intros [H1 H2]. split; [split; [assumption|]|]; [intros ->; apply H2; split; [now left | assumption] | intros [H3 H4]; apply H2; split; [now right | assumption]].
        -- intro Hn. apply K8. now apply NoDup_filter.
        -- intros q [<-|Hq] Hq2.
           ++ destruct (in_dec (eq_dec_of tp_eqb tp_spec) p r) as [Hi|Hi]; [now apply K9|].
              rewrite K10 by tauto. apply cpc_get_aset_same.
           ++ now apply K9.
        -- intros q Hq. rewrite K10 by (intros [H1 H2]; apply Hq; split; [now right | assumption]).
           apply cpc_get_aset_other. intros ->. apply Hq. split; [now left | assumption].
    + assert (Hk : ~ In p (akeys p2c)) by now apply (aget_None tp_eqb tp_spec).
      apply IH in E as [kn [bn [dn [K1 [K2 [K3 [K4 [K5 [K6 [K7 [K8 [K9 K10]]]]]]]]]]]].
      exists kn, bn, (p :: dn). split; [assumption|]. split; [assumption|].
      split; [rewrite K3; rewrite !app_assoc; apply Permutation_middle|].
      split; [assumption|]. split; [assumption|]. split; [intros q [<-|Hq]; [assumption | now apply K6]|]. split; [|split; [|split]].
      * intro q. rewrite K7. simpl. split.
        -- intros [H1 H2]. split; [assumption|]. intros [[H3|H3] H4]; [congruence | tauto].
        -- intros [H1 H2]. split; [assumption|]. intros [H3 H4]. apply H2. split; [now right | assumption].
      * assumption.
      * intros q [<-|Hq] Hq2; [contradiction | now apply K9].
      * intros q Hq. apply K10. intros [H1 H2]. apply Hq. split; [now right | assumption].
Qed.

Lemma perm_regroup : forall {A} (L kn bn dn R U : list A), Permutation L (kn ++ bn ++ dn) ->
  Permutation ((L ++ R) ++ U) (((kn ++ R) ++ (U ++ bn)) ++ dn).
Proof.
  intros A L kn bn dn R U H. rewrite H. rewrite <- !app_assoc. apply Permutation_app_head.
  rewrite (app_assoc bn dn (R ++ U)). rewrite (app_assoc R U (bn ++ dn)). apply Permutation_app_comm.
Qed.

Section Keep.
  Variable ms : list member.
  Variable ts : topics_t.
  Variable p2c : p2c_t.
  Hypothesis Hp2c : akeys p2c = all_tps ts.

  Record keep_inv (K : list str) (D : list str) (s : keep_st) : Prop := {
    ki_keys : akeys (k_ca s) = K;
    ki_nodup : NoDup (lists (k_ca s) ++ k_unassigned s);
    ki_unv_nodup : NoDup (k_unvisited s);
    ki_unv : forall q, In q (k_unvisited s) ->
             In q (all_tps ts) /\ ~ In q (k_unassigned s) /\ forall d, In d D -> ~ In q (ca_get (k_ca s) d);
    ki_cover : forall q, In q (all_tps ts) -> ~ In q (k_unvisited s) ->
               In q (k_unassigned s) \/ exists d, In d D /\ In q (ca_get (k_ca s) d);
    ki_sound : forall d q, In d D -> In q (ca_get (k_ca s) d) -> pot ms ts d q /\ cpc_get (k_cpc s) q = d
  }.

  Lemma keep_members_inv : forall K, NoDup K -> forall ids D s,
    keep_inv K D s -> NoDup (D ++ ids) -> (forall x, In x ids -> In x K) ->
    keep_inv K (D ++ ids) (keep_members ms p2c ids s).
  Proof.
    intros K NK. induction ids as [|id r IH]; intros D s I N Hk; cbn [keep_members].
    - now rewrite app_nil_r.
    - destruct (keep_parts ms p2c id (ca_get (k_ca s) id) [] (k_cpc s) (k_unvisited s) (k_unassigned s)) as [[[keep cpc] unv] una] eqn:E.
      apply keep_parts_spec in E as [kn [bn [dn [K1 [K2 [K3 [K4 [K5 [K6 [K7 [K8 [K9 K10]]]]]]]]]]]].
      simpl in K1. subst keep una.
      replace (D ++ id :: r) with ((D ++ [id]) ++ r) by now rewrite <- app_assoc.
      destruct I as [I1 I2 I3 I4 I5 I6].
      assert (NKs : NoDup (akeys (k_ca s))) by now rewrite I1.
      assert (Hid : In id (akeys (k_ca s))) by (rewrite I1; apply Hk; now left).
      assert (NidD : ~ In id D).
      { apply NoDup_app_inv in N as [_ [_ N]]. intro H. apply (N id H). now left. }
      set (L := ca_get (k_ca s) id) in *.
      (* the old total is a permutation of the new total plus the dropped entries *)
      assert (PT : Permutation (lists (k_ca s) ++ k_unassigned s)
                               ((lists (aset str_eqb id kn (k_ca s)) ++ (k_unassigned s ++ bn)) ++ dn)).
      { rewrite (lists_split id (k_ca s) NKs). fold L. rewrite (lists_aset_split id kn (k_ca s) NKs).
        apply perm_regroup. exact K3. }
      assert (ND : NoDup (lists (aset str_eqb id kn (k_ca s)) ++ (k_unassigned s ++ bn))).
      { pose proof (Permutation_NoDup PT I2) as H. now apply NoDup_app_inv in H. }
      assert (NL : NoDup (lists (k_ca s))) by now apply NoDup_app_inv in I2.
      assert (visited_in_L : forall q, In q kn \/ In q bn -> In q L).
      { intros q Hq. apply (Permutation_in q (Permutation_sym K3)). apply in_or_app. destruct Hq; [now left | right; apply in_or_app; now left]. }
      apply IH; [|now rewrite <- app_assoc | intros x Hx; apply Hk; now right].
      constructor; cbn [k_ca k_cpc k_unvisited k_unassigned].
      + rewrite (aset_keys_in str_eqb str_spec) by assumption. exact I1.
      + exact ND.
      + now apply K8.
      + intros q Hq. apply K7 in Hq as [Hq1 Hq2]. destruct (I4 q Hq1) as [A1 [A2 A3]].
        split; [assumption|]. split.
        * intro H. apply in_app_or in H as [H|H]; [contradiction|]. apply Hq2. split; [apply visited_in_L; now right | now apply K5].
        * intros d Hd. apply in_app_or in Hd as [Hd|[<-|[]]].
          -- rewrite ca_get_aset_other by (intros ->; contradiction). now apply A3.
          -- rewrite ca_get_aset_same. intro H. apply Hq2. split; [apply visited_in_L; now left | now apply K4].
      + intros q Hq Hnu. destruct (in_dec (eq_dec_of tp_eqb tp_spec) q (k_unvisited s)) as [Hu|Hu].
        * (* visited in this step *)
          assert (Hv : In q L /\ In q (akeys p2c)).
          { destruct (in_dec (eq_dec_of tp_eqb tp_spec) q L) as [HL|HL].
            - split; [assumption|]. now rewrite Hp2c.
            - exfalso. apply Hnu. apply K7. split; [assumption|]. tauto. }
          destruct Hv as [HL Hkq]. apply (Permutation_in q K3) in HL. apply in_app_or in HL as [HL|HL].
          -- right. exists id. split; [apply in_or_app; right; now left|]. now rewrite ca_get_aset_same.
          -- apply in_app_or in HL as [HL|HL]; [left; apply in_or_app; now right | exfalso; now apply (K6 q HL)].
        * destruct (I5 q Hq Hu) as [H|[d [H1 H2]]]; [left; apply in_or_app; now left|].
          right. exists d. split; [apply in_or_app; now left|]. rewrite ca_get_aset_other by (intros ->; contradiction). assumption.
      + intros d q Hd Hq. apply in_app_or in Hd as [Hd|[<-|[]]].
        * rewrite ca_get_aset_other in Hq by (intros ->; contradiction). destruct (I6 d q Hd Hq) as [A1 A2]. split; [assumption|].
          rewrite K10; [assumption|]. intros [H1 _]. fold L in H1.
          assert (Hdi : d = id) by (eapply (owner_unique (k_ca s) q d id); eauto). apply NidD. now rewrite <- Hdi.
        * rewrite ca_get_aset_same in Hq. destruct (K4 q Hq) as [A1 A2]. split.
          -- split; [now rewrite <- Hp2c | now apply topics_of_sub].
          -- apply K9; [apply visited_in_L; now left | assumption].
  Qed.
End Keep.

(* ---- assigning the unassigned partitions ---- *)
Section Assign.
  Variable ms : list member.
  Variable ts : topics_t.
  Variable c2p : asg.
  Variable p2c : p2c_t.
  Variable K : list str.
  Hypothesis NK : NoDup K.
  Hypothesis Hc2p : forall m q, In q (ca_get c2p m) <-> pot ms ts m q.
  Hypothesis Hp2cg : forall q m, In m (p2c_get p2c q) <-> pot ms ts m q.
  Hypothesis HK : forall m q, pot ms ts m q -> In m K.

  Lemma first_potential_some : forall q l m, first_potential c2p q l = Some m -> In m l /\ pot ms ts m q.
  Proof.
    intros q. induction l as [|x l IH]; intros m H; cbn [first_potential] in H; [discriminate|].
    destruct (mem tp_eqb q (ca_get c2p x)) eqn:E.
    - injection H as <-. split; [now left|]. apply Hc2p. now apply (mem_In tp_eqb tp_spec).
    - destruct (IH m H). split; [now right | assumption].
  Qed.
  Lemma first_potential_none : forall q l, first_potential c2p q l = None -> forall m, In m l -> ~ pot ms ts m q.
  Proof.
    intros q. induction l as [|x l IH]; intros H m Hm; cbn [first_potential] in H; [contradiction|].
    destruct (mem tp_eqb q (ca_get c2p x)) eqn:E; [discriminate|].
    destruct Hm as [<-|Hm]; [|now apply IH].
    intro Hp. apply Hc2p in Hp. apply (mem_In tp_eqb tp_spec) in Hp. congruence.
  Qed.

  (* the working assignment: a partial function from partitions to their potential consumers, mirrored by
     currentPartitionConsumer, covering everything assignable that is not waiting in [rest] *)
  Record asg_inv (ca : asg) (cpc : cpc_t) (rest : list tp) : Prop := {
    ai_keys : akeys ca = K;
    ai_nodup : NoDup (lists ca ++ rest);
    ai_sound : forall m q, In q (ca_get ca m) -> pot ms ts m q /\ cpc_get cpc q = m;
    ai_cover : forall q, In q (all_tps ts) -> (exists m, pot ms ts m q) -> In q (lists ca) \/ In q rest
  }.

  Lemma assign_all_inv : forall una ca cpc sorted ca' cpc' sorted',
    assign_all c2p p2c una ca cpc sorted = (ca', cpc', sorted') ->
    asg_inv ca cpc una -> (forall m, In m sorted <-> In m K) ->
    asg_inv ca' cpc' [] /\ (forall m, In m sorted' <-> In m K).
  Proof.
    induction una as [|q r IH]; intros ca cpc sorted ca' cpc' sorted' E I S; cbn [assign_all] in E.
    - injection E as <- <- <-. now split.
    - destruct I as [I1 I2 I3 I4].
      assert (Hq : ~ In q (lists ca) /\ ~ In q r /\ NoDup (lists ca ++ r)).
      { split; [|split].
        - apply NoDup_app_inv in I2 as [_ [_ I2]]. intro H. apply (I2 q H). now left.
        - apply NoDup_remove_2 in I2. intro H. apply I2. apply in_or_app. now right.
        - now apply NoDup_remove_1 in I2. }
      destruct Hq as [Q1 [Q2 Q3]].
      destruct (p2c_get p2c q) as [|m0 l0] eqn:Ep.
      + eapply IH; [exact E| |exact S]. constructor; auto.
        intros q' H1 H2. destruct (I4 q' H1 H2) as [H|[<-|H]]; [now left| |now right].
        exfalso. destruct H2 as [m Hm]. apply Hp2cg in Hm. rewrite Ep in Hm. contradiction.
      + unfold assign_partition in E. destruct (first_potential c2p q sorted) as [m|] eqn:Ef.
        * destruct (first_potential_some q sorted m Ef) as [F1 F2].
          assert (NKc : NoDup (akeys ca)) by now rewrite I1.
          assert (Hm : In m (akeys ca)) by (rewrite I1; now apply S).
          eapply IH; [exact E| |].
          -- constructor.
             ++ rewrite (aset_keys_in str_eqb str_spec) by assumption. exact I1.
             ++ eapply Permutation_NoDup; [|exact I2]. rewrite (lists_append m [q] ca NKc). rewrite <- app_assoc. reflexivity.
             ++ intros m' q' H. destruct (eq_dec_of str_eqb str_spec m' m) as [->|Nm].
                ** rewrite ca_get_aset_same in H. apply in_app_or in H as [H|[<-|[]]].
                   --- destruct (I3 m q' H) as [A1 A2]. split; [assumption|]. rewrite cpc_get_aset_other; [assumption|].
                       intros ->. apply Q1. eapply ca_get_lists; eassumption.
                   --- split; [assumption | apply cpc_get_aset_same].
                ** rewrite ca_get_aset_other in H by assumption. destruct (I3 m' q' H) as [A1 A2]. split; [assumption|].
                   rewrite cpc_get_aset_other; [assumption|]. intros ->. apply Q1. eapply ca_get_lists; eassumption.
             ++ intros q' H1 H2. destruct (I4 q' H1 H2) as [H|[<-|H]].
                ** left. apply (Permutation_in _ (Permutation_sym (lists_append m [q] ca NKc))). apply in_or_app. now left.
                ** left. apply (Permutation_in _ (Permutation_sym (lists_append m [q] ca NKc))). apply in_or_app. right. now left.
                ** now right.
          -- intro x. rewrite sort_members_In. rewrite (aset_keys_in str_eqb str_spec) by assumption. now rewrite I1.
        * exfalso. assert (Hm0 : pot ms ts m0 q) by (apply Hp2cg; rewrite Ep; now left).
          apply (first_potential_none q sorted Ef m0); [apply S; eapply HK; eassumption | assumption].
  Qed.
End Assign.
