(* C08 — model of roundRobinBalancer.Plan (balance_strategy.go).  No proofs here. *)
From Coq Require Import List ZArith Bool.
From SV Require Import C08.Common.
Import ListNotations.
Open Scope Z_scope.

(* decimal digits of a non-negative number, most significant first (fmt %d); fuel = number of bits + 1 *)
Fixpoint dec_digits (fuel : nat) (z : Z) (acc : str) : str :=
  match fuel with
  | O => acc
  | S f => if z <? 10 then (48 + z) :: acc else dec_digits f (z / 10) ((48 + z mod 10) :: acc)
  end.
Definition dec_str (z : Z) : str :=
  if z <? 0 then 45 :: dec_digits (S (Z.to_nat (Z.log2 (- z)))) (- z) []
  else dec_digits (S (Z.to_nat (Z.log2 z))) z [].
(* topicAndPartition.comparedValue: fmt.Sprintf("%s-%d", topic, partition) *)
Definition compared_value (x : tp) : str := fst x ++ 45 :: dec_str (snd x).
Definition tp_less (a b : tp) : bool := str_ltb (compared_value a) (compared_value b).

Fixpoint expand_topic (t : str) (ps : list Z) : list tp :=
  match ps with [] => [] | p :: r => (t, p) :: expand_topic t r end.
Fixpoint all_tps (ts : topics_t) : list tp :=
  match ts with [] => [] | (t, ps) :: r => expand_topic t ps ++ all_tps r end.

Definition id_less (a b : member) : bool := str_ltb (m_id a) (m_id b).
Definition has_topic (m : member) (t : str) : bool := mem str_eqb t (m_topics m).

(* `for !m.hasTopic(tp.topic) { i++; m = members[i%n] }` examined for at most n positions; None = no member
   has the topic, where the real loop never ends *)
Fixpoint rr_seek (fuel : nat) (ms : list member) (n i : Z) (t : str) : option (Z * member) :=
  match fuel with
  | O => None
  | S f =>
    match nth_error ms (Z.to_nat (i mod n)) with
    | None => None
    | Some m => if has_topic m t then Some (i, m) else rr_seek f ms n (i + 1) t
    end
  end.

Inductive rr_result := RRError | RRDiverges | RRPlan (p : plan).

Fixpoint rr_loop (ms : list member) (n i : Z) (tps : list tp) (p : plan) : rr_result :=
  match tps with
  | [] => RRPlan p
  | x :: r =>
    match rr_seek (length ms) ms n i (fst x) with
    | None => RRDiverges
    | Some (i', m) => rr_loop ms n (i' + 1) r (plan_add p (m_id m) (fst x) [snd x])
    end
  end.

(* [ms], [ts]: members and topics in the iteration order of the two map ranges (only ties of the stable sorts
   could make it observable: member ids are unique, compared values collide only for negative partition ids) *)
Definition rr_plan (ms : list member) (ts : topics_t) : rr_result :=
  match ms, ts with
  | [], _ | _, [] => RRError
  | _, _ => let sorted := sort id_less ms in
            rr_loop sorted (len sorted) 0 (sort tp_less (all_tps ts)) []
  end.
