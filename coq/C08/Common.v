(* C08/C13 — shared definitions of the balance-strategy models (balance_strategy.go).
   No proofs here.  Strings are lists of byte values (the harness uses ASCII, for which Go's
   byte-wise string comparison and rune-wise hashing coincide with what is written here).
   Go maps are association lists with unique keys; every observable map iteration takes an
   explicit order oracle ([order_by]). *)
From Coq Require Import List ZArith Bool.
Import ListNotations.
Open Scope Z_scope.

Definition str := list Z.

Fixpoint str_eqb (a b : str) : bool :=
  match a, b with
  | [], [] => true
  | x :: a', y :: b' => Z.eqb x y && str_eqb a' b'
  | _, _ => false
  end.

(* Go's string comparison (bytes, lexicographic, a proper prefix is smaller) *)
Fixpoint str_cmp (a b : str) : comparison :=
  match a, b with
  | [], [] => Eq
  | [], _ :: _ => Lt
  | _ :: _, [] => Gt
  | x :: a', y :: b' => match Z.compare x y with Eq => str_cmp a' b' | c => c end
  end.
Definition str_ltb (a b : str) : bool := match str_cmp a b with Lt => true | _ => false end.

(* topicPartitionAssignment *)
Definition tp := (str * Z)%type.
Definition tp_eqb (a b : tp) : bool := str_eqb (fst a) (fst b) && Z.eqb (snd a) (snd b).

Definition len {A} (l : list A) : Z := Z.of_nat (length l).

(* ---- association lists as Go maps ---- *)
Section Assoc.
  Context {K V : Type} (eqb : K -> K -> bool).
  Fixpoint aget (k : K) (l : list (K * V)) : option V :=
    match l with
    | [] => None
    | (k', v) :: r => if eqb k k' then Some v else aget k r
    end.
  (* m[k] = v *)
  Fixpoint aset (k : K) (v : V) (l : list (K * V)) : list (K * V) :=
    match l with
    | [] => [(k, v)]
    | (k', v') :: r => if eqb k k' then (k', v) :: r else (k', v') :: aset k v r
    end.
  (* delete(m, k) *)
  Fixpoint adel (k : K) (l : list (K * V)) : list (K * V) :=
    match l with
    | [] => []
    | (k', v') :: r => if eqb k k' then adel k r else (k', v') :: adel k r
    end.
  Definition akeys (l : list (K * V)) : list K := map fst l.
End Assoc.

Section Lists.
  Context {A : Type} (eqb : A -> A -> bool).
  Definition mem (x : A) (l : list A) : bool := existsb (eqb x) l.
  Fixpoint dedup (l : list A) : list A :=
    match l with
    | [] => []
    | x :: r => if mem x r then dedup r else x :: dedup r
    end.
  (* first occurrences, in order *)
  Fixpoint dedup_first (seen l : list A) : list A :=
    match l with
    | [] => []
    | x :: r => if mem x seen then dedup_first seen r else x :: dedup_first (x :: seen) r
    end.
  (* iteration order of a Go map with key set [keys] as dictated by the oracle [o]: keys in the order of
     their first occurrence in [o], then the keys the oracle does not mention in their stored order *)
  Definition order_by (o keys : list A) : list A :=
    dedup_first [] (filter (fun k => mem k keys) o) ++ filter (fun k => negb (mem k o)) keys.
  (* removeTopicPartitionFromMemberAssignments: drops the first occurrence *)
  Fixpoint remove_first (x : A) (l : list A) : list A :=
    match l with
    | [] => []
    | y :: r => if eqb y x then r else y :: remove_first x r
    end.
  Fixpoint find_index (f : A -> bool) (l : list A) (i : nat) : option nat :=
    match l with
    | [] => None
    | y :: r => if f y then Some i else find_index f r (S i)
    end.
End Lists.

(* stable sort by a strict order [less] (sort.SliceStable; for a total order on distinct keys also sort.Sort / sort.Slice) *)
Section Sort.
  Context {A : Type} (less : A -> A -> bool).
  Fixpoint insert (x : A) (l : list A) : list A :=
    match l with
    | [] => [x]
    | y :: r => if less y x then y :: insert x r else x :: l
    end.
  Fixpoint sort (l : list A) : list A :=
    match l with
    | [] => []
    | x :: r => insert x (sort r)
    end.
End Sort.

Fixpoint upto (k : nat) : list Z := match k with O => [] | S k' => upto k' ++ [Z.of_nat k'] end.

(* ---- inputs ---- *)
(* decoded member user data (deserializeTopicPartitionAssignment): error, or partitions() with the generation if the
   V1 layout decoded (hasGeneration) *)
Inductive userdata := UDErr | UD (parts : list tp) (gen : option Z).
Record member := { m_id : str; m_topics : list str; m_ud : userdata }.
Definition topics_t := list (str * list Z).

Fixpoint find_member (ms : list member) (id : str) : option member :=
  match ms with
  | [] => None
  | m :: r => if str_eqb id (m_id m) then Some m else find_member r id
  end.
Definition topics_of (ms : list member) (id : str) : list str :=
  match find_member ms id with Some m => m_topics m | None => [] end.

(* ---- BalanceStrategyPlan: member -> topic -> partitions ---- *)
Definition plan := list (str * list (str * list Z)).
Definition inner_get (t : str) (tl : list (str * list Z)) : list Z :=
  match aget str_eqb t tl with Some l => l | None => [] end.
Definition plan_inner (p : plan) (m : str) : list (str * list Z) :=
  match aget str_eqb m p with Some tl => tl | None => [] end.
(* BalanceStrategyPlan.Add *)
Definition plan_add (p : plan) (m t : str) (ps : list Z) : plan :=
  match ps with
  | [] => p
  | _ => let tl := plan_inner p m in aset str_eqb m (aset str_eqb t (inner_get t tl ++ ps) tl) p
  end.
