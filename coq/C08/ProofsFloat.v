(* C08 — arithmetic facts about the IEEE binary64 range-strategy boundary function of RangeFloat.v. *)
From Coq Require Import ZArith Reals Lra Lia.
From Flocq Require Import IEEE754.BinarySingleNaN Core Relative.
From SV Require Import C08.Common C08.RangeFloat.
Open Scope Z_scope.

Local Notation fexp64 := (FLT_exp (3 - 1024 - 53) 53).
Definition rnd (x : R) : R := round radix2 fexp64 ZnearestE x.

Local Instance fexp64_valid : Valid_exp fexp64.
Proof. apply FLT_exp_valid. exact Hp53. Qed.

Lemma rnd_le : forall x y, (x <= y)%R -> (rnd x <= rnd y)%R.
Proof. intros. apply round_le; auto with typeclass_instances. Qed.

Lemma rnd_0 : rnd 0 = 0%R.
Proof. apply round_0; auto with typeclass_instances. Qed.

(* z * 2^e with |z| < 2^53 and e >= -1074 is representable *)
Lemma fmt_F2R : forall z e, Z.abs z < 2 ^ 53 -> -1074 <= e ->
  generic_format radix2 fexp64 (F2R (Float radix2 z e)).
Proof.
  intros z e Hz He. apply generic_format_FLT.
  apply FLT_spec with (f := Float radix2 z e); auto.
Qed.

Lemma rnd_F2R : forall z e, Z.abs z < 2 ^ 53 -> -1074 <= e ->
  rnd (F2R (Float radix2 z e)) = F2R (Float radix2 z e).
Proof. intros. apply round_generic; auto with typeclass_instances. now apply fmt_F2R. Qed.

Lemma F2R_e0 : forall z, F2R (Float radix2 z 0) = IZR z.
Proof. intros. unfold F2R; simpl. lra. Qed.

Lemma F2R_em1 : forall z, F2R (Float radix2 z (-1)) = (IZR z / 2)%R.
Proof. intros. unfold F2R; simpl. lra. Qed.

Lemma F2R_em2 : forall z, F2R (Float radix2 z (-2)) = (IZR z / 4)%R.
Proof. intros. unfold F2R; simpl. lra. Qed.

Lemma rnd_IZR : forall z, Z.abs z < 2 ^ 53 -> rnd (IZR z) = IZR z.
Proof. intros. rewrite <- F2R_e0. apply rnd_F2R; lia. Qed.

Lemma rnd_half2 : forall z, Z.abs z < 2 ^ 53 -> rnd (IZR z / 2) = (IZR z / 2)%R.
Proof. intros. rewrite <- F2R_em1. apply rnd_F2R; lia. Qed.

Lemma rnd_quarter : forall z, Z.abs z < 2 ^ 53 -> rnd (IZR z / 4) = (IZR z / 4)%R.
Proof. intros. rewrite <- F2R_em2. apply rnd_F2R; lia. Qed.

Lemma rnd_pow2 : forall k, 0 <= k -> rnd (IZR (2 ^ k)) = IZR (2 ^ k).
Proof.
  intros k Hk. replace (IZR (2 ^ k)) with (F2R (Float radix2 1 k)).
  apply rnd_F2R; simpl; lia.
  unfold F2R; simpl. rewrite Rmult_1_l. change 2 with (radix_val radix2). now rewrite IZR_Zpower.
Qed.

Lemma bpow1024_big : (IZR (2 ^ 64) < bpow radix2 1024)%R.
Proof.
  change (2 ^ 64) with (Zpower radix2 64). rewrite IZR_Zpower by lia.
  apply bpow_lt. lia.
Qed.

(* no-overflow side condition: anything rounding a value of magnitude <= 2^63 *)
Lemma no_ovf : forall x, (0 <= x <= IZR (2 ^ 63))%R ->
  Rlt_bool (Rabs (round radix2 (SpecFloat.fexp 53 1024) (round_mode mode_NE) x)) (bpow radix2 1024) = true.
Proof.
  intros x Hx. apply Rlt_bool_true.
  change (round radix2 (SpecFloat.fexp 53 1024) (round_mode mode_NE) x) with (rnd x).
  assert (H0 : (0 <= rnd x)%R) by (rewrite <- rnd_0; apply rnd_le; lra).
  assert (H1 : (rnd x <= IZR (2 ^ 63))%R).
  { rewrite <- (rnd_pow2 63) by lia. apply rnd_le; lra. }
  rewrite Rabs_pos_eq by auto.
  pose proof bpow1024_big as Hb. assert (Hc : (IZR (2 ^ 63) < IZR (2 ^ 64))%R) by (apply IZR_lt; lia).
  revert Hb Hc H1. generalize (IZR (2 ^ 63)) (IZR (2 ^ 64)) (bpow radix2 1024). intros; lra.
Qed.

(* ---- the individual operations ---- *)
Lemma b64_of_Z_correct : forall z, 0 <= z < 2 ^ 53 ->
  B2R (b64_of_Z z) = IZR z /\ is_finite (b64_of_Z z) = true.
Proof.
  intros z Hz. unfold b64_of_Z.
  generalize (binary_normalize_correct 53 1024 Hp53 Hm1024 mode_NE z 0 false).
  cbv zeta. rewrite F2R_e0.
  rewrite no_ovf.
  - intros (H1 & H2 & _). split; auto.
    rewrite H1. apply rnd_IZR. lia.
  - split. apply IZR_le; lia. apply IZR_le; lia.
Qed.

Lemma b64_half_correct : B2R b64_half = (/ 2)%R /\ is_finite b64_half = true.
Proof.
  unfold b64_half.
  generalize (binary_normalize_correct 53 1024 Hp53 Hm1024 mode_NE 1 (-1) false).
  cbv zeta. rewrite F2R_em1.
  rewrite no_ovf.
  - intros (H1 & H2 & _). split; auto.
    rewrite H1. change (rnd (1 / 2) = / 2)%R. rewrite rnd_half2 by lia. lra.
  - assert (1 <= IZR (2 ^ 63))%R by (apply IZR_le; lia). lra.
Qed.

Lemma range_step_correct : forall n m, 0 <= n < 2 ^ 31 -> 1 <= m < 2 ^ 31 ->
  B2R (range_step n m) = rnd (IZR n / IZR m) /\ is_finite (range_step n m) = true.
Proof.
  intros n m Hn Hm. unfold range_step, b64_div.
  destruct (b64_of_Z_correct n) as [Rn Fn]; [lia|].
  destruct (b64_of_Z_correct m) as [Rm Fm]; [lia|].
  assert (Hm1 : (1 <= IZR m)%R) by (apply IZR_le; lia).
  assert (Hn0 : (0 <= IZR n)%R) by (apply IZR_le; lia).
  generalize (Bdiv_correct 53 1024 Hp53 Hm1024 mode_NE (b64_of_Z n) (b64_of_Z m)).
  rewrite Rn, Rm. intros H.
  assert (Hz : IZR m <> 0%R) by lra. specialize (H Hz).
  rewrite no_ovf in H.
  - destruct H as (H1 & H2 & _). split; auto. congruence.
  - assert (IZR n <= IZR (2 ^ 63))%R by (apply IZR_le; lia).
    assert (0 < / IZR m <= 1)%R.
    { split. apply Rinv_0_lt_compat; lra. rewrite <- Rinv_1. apply Rinv_le_contravar; lra. }
    unfold Rdiv. split. apply Rmult_le_pos; lra.
    apply Rle_trans with (IZR n * 1)%R; [apply Rmult_le_compat_l; lra | lra].
Qed.

Definition stepR (n m : Z) : R := rnd (IZR n / IZR m).

Lemma stepR_bounds : forall n m, 0 <= n < 2 ^ 31 -> 1 <= m < 2 ^ 31 ->
  (0 <= stepR n m <= IZR (2 ^ 31))%R.
Proof.
  intros n m Hn Hm. unfold stepR.
  assert (Hm1 : (1 <= IZR m)%R) by (apply IZR_le; lia).
  assert (Hn0 : (0 <= IZR n)%R) by (apply IZR_le; lia).
  assert (IZR n <= IZR (2 ^ 31))%R by (apply IZR_le; lia).
  assert (0 < / IZR m <= 1)%R.
  { split. apply Rinv_0_lt_compat; lra. rewrite <- Rinv_1. apply Rinv_le_contravar; lra. }
  assert (0 <= IZR n / IZR m <= IZR (2 ^ 31))%R.
  { unfold Rdiv. split. apply Rmult_le_pos; lra.
    apply Rle_trans with (IZR n * 1)%R; [apply Rmult_le_compat_l; lra | lra]. }
  split.
  - rewrite <- rnd_0. apply rnd_le; lra.
  - rewrite <- (rnd_IZR (2 ^ 31)) by lia. apply rnd_le; lra.
Qed.

(* the real number whose floor is the boundary *)
Definition bndR (n m i : Z) : R := rnd (rnd (IZR i * stepR n m) + / 2).

Lemma floor_correct : forall x : b64, b64_floor x = Zfloor (B2R x).
Proof.
  intros x. unfold b64_floor. apply eq_IZR.
  rewrite Btrunc_correct.
  destruct (Bnearbyint_correct 53 1024 Hm1024 mode_DN x) as (H1 & _).
  rewrite H1. simpl round_mode.
  assert (E : forall rn y, round radix2 (FIX_exp 0) rn y = IZR (rn (y * 1)%R)).
  { intros rn y. unfold round, F2R, scaled_mantissa, cexp, FIX_exp; simpl. lra. }
  rewrite !E. rewrite !Rmult_1_r. now rewrite Ztrunc_IZR.
  exact Hm1024.
Qed.

Theorem range_bnd_char : forall n m i, 0 <= n < 2 ^ 31 -> 1 <= m < 2 ^ 31 -> 0 <= i < 2 ^ 31 ->
  range_bnd (range_step n m) i = Zfloor (bndR n m i).
Proof.
  intros n m i Hn Hm Hi. unfold range_bnd. rewrite floor_correct. f_equal.
  destruct (range_step_correct n m Hn Hm) as [Rs Fs]. fold (stepR n m) in Rs.
  destruct (stepR_bounds n m Hn Hm) as [S0 S1].
  destruct (b64_of_Z_correct i) as [Ri Fi]; [lia|].
  destruct b64_half_correct as [Rh Fh].
  assert (Hi0 : (0 <= IZR i <= IZR (2 ^ 31))%R) by (split; apply IZR_le; lia).
  assert (P : (0 <= IZR i * stepR n m <= IZR (2 ^ 62))%R).
  { split. apply Rmult_le_pos; lra.
    change (2 ^ 62) with (2 ^ 31 * 2 ^ 31). rewrite mult_IZR.
    apply Rmult_le_compat; lra. }
  generalize (Bmult_correct 53 1024 Hp53 Hm1024 mode_NE (b64_of_Z i) (range_step n m)).
  rewrite Ri, Rs, Fi, Fs.
  assert (T : (IZR (2 ^ 62) <= IZR (2 ^ 63))%R) by (apply IZR_le; lia).
  rewrite no_ovf by lra.
  intros (M1 & M2 & _). simpl in M2.
  change (round radix2 (SpecFloat.fexp 53 1024) (round_mode mode_NE) (IZR i * stepR n m))
    with (rnd (IZR i * stepR n m)) in M1.
  assert (P' : (0 <= rnd (IZR i * stepR n m) <= IZR (2 ^ 62))%R).
  { split. rewrite <- rnd_0. apply rnd_le; lra.
    rewrite <- (rnd_pow2 62) by lia. apply rnd_le; lra. }
  unfold b64_add.
  generalize (Bplus_correct 53 1024 Hp53 Hm1024 mode_NE _ _ M2 Fh).
  rewrite M1, Rh.
  rewrite no_ovf.
  - intros (A1 & _). exact A1.
  - assert (IZR (2 ^ 63) = IZR (2 ^ 62) + IZR (2 ^ 62))%R.
    { rewrite <- plus_IZR. f_equal. }
    assert (1 <= IZR (2 ^ 62))%R by (apply IZR_le; lia). lra.
Qed.

(* ---- priority-1 theorems ---- *)
Lemma bndR_zero_prod : forall n m i, (IZR i * stepR n m = 0)%R -> Zfloor (bndR n m i) = 0.
Proof.
  intros n m i H. unfold bndR. rewrite H, rnd_0, Rplus_0_l.
  replace (/ 2)%R with (IZR 1 / 2)%R by lra. rewrite rnd_half2 by lia.
  apply Zfloor_imp. simpl. lra.
Qed.

Theorem range_bnd_zero : forall n m, 0 <= n < 2^31 -> 1 <= m < 2^31 -> range_bnd (range_step n m) 0 = 0.
Proof.
  intros n m Hn Hm. rewrite range_bnd_char by lia.
  apply bndR_zero_prod. lra.
Qed.

Theorem range_bnd_mono : forall n m i j, 0 <= n < 2^31 -> 1 <= m < 2^31 -> 0 <= i -> i <= j -> j <= m ->
  range_bnd (range_step n m) i <= range_bnd (range_step n m) j.
Proof.
  intros n m i j Hn Hm Hi Hij Hj. rewrite !range_bnd_char by lia.
  apply Zfloor_le. unfold bndR. apply rnd_le. apply Rplus_le_compat_r. apply rnd_le.
  destruct (stepR_bounds n m Hn Hm) as [S0 _].
  apply Rmult_le_compat_r; auto. apply IZR_le; lia.
Qed.

Definition eps53 : R := (/ 9007199254740992)%R.

Lemma eps53_bpow : (/ 2 * bpow radix2 (- (53) + 1) = eps53)%R.
Proof.
  unfold eps53. change (- (53) + 1) with (- (52)). rewrite bpow_opp.
  rewrite <- (IZR_Zpower radix2 52) by lia.
  change (Zpower radix2 52) with 4503599627370496.
  rewrite <- Rinv_mult. f_equal; lra.
Qed.

(* relative error of one rounding, for normal-range arguments *)
Lemma rnd_rel : forall x, (/ IZR (2 ^ 64) <= x)%R -> (Rabs (rnd x - x) <= eps53 * x)%R.
Proof.
  intros x Hx.
  assert (P : (0 < / IZR (2 ^ 64))%R).
  { apply Rinv_0_lt_compat. apply IZR_lt. lia. }
  rewrite <- eps53_bpow. rewrite <- (Rabs_pos_eq x) at 3 by lra.
  apply relative_error_N_FLT. exact Hp53.
  rewrite Rabs_pos_eq by lra.
  apply Rle_trans with (2 := Hx).
  change (2 ^ 64) with (Zpower radix2 64). rewrite IZR_Zpower by lia.
  rewrite <- bpow_opp. apply bpow_le. lia.
Qed.

Theorem range_bnd_last : forall n m, 0 <= n < 2^31 -> 1 <= m < 2^31 -> range_bnd (range_step n m) m = n.
Proof.
  intros n m Hn Hm. rewrite range_bnd_char by lia.
  assert (Hm1 : (1 <= IZR m)%R) by (apply IZR_le; lia).
  destruct (Z.eq_dec n 0) as [->|Hn0].
  { apply bndR_zero_prod. unfold stepR, Rdiv. rewrite Rmult_0_l, rnd_0. lra. }
  assert (Hn1 : (1 <= IZR n <= IZR (2 ^ 31))%R) by (split; apply IZR_le; lia).
  assert (Hmu : (IZR m <= IZR (2 ^ 31))%R) by (apply IZR_le; lia).
  assert (I31 : IZR (2 ^ 31) = 2147483648%R) by reflexivity.
  set (q := (IZR n / IZR m)%R).
  assert (Hmq : (IZR m * q = IZR n)%R) by (unfold q; field; lra).
  assert (Hq : (/ IZR (2 ^ 64) <= q)%R).
  { assert (IZR (2 ^ 64) = 18446744073709551616)%R by reflexivity.
    assert (0 < / IZR m)%R by (apply Rinv_0_lt_compat; lra).
    assert (/ IZR (2 ^ 31) <= / IZR m)%R by (apply Rinv_le_contravar; lra).
    assert (/ IZR (2 ^ 64) <= / IZR (2 ^ 31))%R.
    { apply Rinv_le_contravar. lra. apply IZR_le; lia. }
    unfold q, Rdiv. apply Rle_trans with (1 * / IZR m)%R. lra.
    apply Rmult_le_compat_r; lra. }
  generalize (rnd_rel q Hq). fold q in Hmq |- *. fold (stepR n m). intros E.
  (* |m*s - n| <= eps53 * n <= 1/4 *)
  assert (B : (IZR n - / 4 <= IZR m * stepR n m <= IZR n + / 4)%R).
  { assert (Rabs (IZR m * stepR n m - IZR n) <= eps53 * IZR n)%R.
    { rewrite <- Hmq at 1 2. replace (IZR m * stepR n m - IZR m * q)%R with (IZR m * (stepR n m - q))%R by ring.
      rewrite Rabs_mult, Rabs_pos_eq by lra.
      replace (eps53 * (IZR m * q))%R with (IZR m * (eps53 * q))%R by ring.
      apply Rmult_le_compat_l; [lra | exact E]. }
    assert (eps53 * IZR n <= / 4)%R by (unfold eps53; lra).
    apply Rabs_le_inv in H. lra. }
  unfold bndR.
  assert (Q1 : (IZR n - / 4 = IZR (4 * n - 1) / 4)%R) by (rewrite minus_IZR, mult_IZR; lra).
  assert (Q2 : (IZR n + / 4 = IZR (4 * n + 1) / 4)%R) by (rewrite plus_IZR, mult_IZR; lra).
  assert (Q3 : (IZR n + / 4 + / 2 = IZR (4 * n + 3) / 4)%R) by (rewrite plus_IZR, mult_IZR; lra).
  assert (B1 : (IZR n - / 4 <= rnd (IZR m * stepR n m) <= IZR n + / 4)%R).
  { split.
    - rewrite Q1. rewrite <- (rnd_quarter (4 * n - 1)) by lia. apply rnd_le. lra.
    - rewrite Q2. rewrite <- (rnd_quarter (4 * n + 1)) by lia. apply rnd_le. lra. }
  assert (B2 : (IZR n + / 4 <= rnd (rnd (IZR m * stepR n m) + / 2) <= IZR n + / 4 + / 2)%R).
  { split.
    - rewrite Q2. rewrite <- (rnd_quarter (4 * n + 1)) by lia. apply rnd_le. lra.
    - rewrite Q3. rewrite <- (rnd_quarter (4 * n + 3)) by lia. apply rnd_le. lra. }
  apply Zfloor_imp. rewrite plus_IZR. lra.
Qed.

(* ---- stretch: consecutive boundaries differ by floor(n/m) or ceil(n/m) (sizes below 2^24) ---- *)

(* accumulated rounding error of the three operations against the exact i*n/m + 1/2 *)
Lemma bndR_err : forall n m i, 0 <= n < 2^24 -> 1 <= m < 2^24 -> 0 <= i <= m ->
  (Rabs (bndR n m i - (IZR i * (IZR n / IZR m) + / 2)) <= / 67108864)%R.
Proof.
  intros n m i Hn Hm Hi.
  assert (Hm1 : (1 <= IZR m)%R) by (apply IZR_le; lia).
  assert (Hmu : (IZR m <= 16777216)%R) by (apply IZR_le; lia).
  assert (Hi0 : (0 <= IZR i <= IZR m)%R) by (split; apply IZR_le; lia).
  assert (Hhalf : rnd (/ 2) = (/ 2)%R).
  { replace (/ 2)%R with (IZR 1 / 2)%R by lra. apply rnd_half2. lia. }
  assert (Z0 : (IZR i * stepR n m = 0)%R -> (IZR i * (IZR n / IZR m) = 0)%R ->
    (Rabs (bndR n m i - (IZR i * (IZR n / IZR m) + / 2)) <= / 67108864)%R).
  { intros E1 E2. unfold bndR. rewrite E1, E2, rnd_0, !Rplus_0_l, Hhalf.
    replace (/ 2 - / 2)%R with 0%R by lra. rewrite Rabs_R0. lra. }
  destruct (Z.eq_dec n 0) as [->|Hn0].
  { apply Z0; unfold stepR, Rdiv; rewrite ?Rmult_0_l, ?rnd_0; lra. }
  destruct (Z.eq_dec i 0) as [->|Hi1].
  { apply Z0; lra. }
  assert (Hn1 : (1 <= IZR n <= 16777216)%R) by (split; apply IZR_le; lia).
  assert (Hi1' : (1 <= IZR i)%R) by (apply IZR_le; lia).
  assert (I64 : IZR (2 ^ 64) = 18446744073709551616%R) by reflexivity.
  assert (Him : (0 < / IZR m)%R) by (apply Rinv_0_lt_compat; lra).
  assert (Him' : (/ 16777216 <= / IZR m)%R) by (apply Rinv_le_contravar; lra).
  set (q := (IZR n / IZR m)%R).
  assert (Hq : (/ 16777216 <= q)%R).
  { unfold q, Rdiv. apply Rle_trans with (1 * / IZR m)%R. lra. apply Rmult_le_compat_r; lra. }
  set (a := (IZR i * q)%R).
  assert (Ha : (0 <= a <= 16777216)%R).
  { assert (T : (IZR i * / IZR m <= 1)%R).
    { rewrite <- (Rinv_r (IZR m)) by lra. apply Rmult_le_compat_r; lra. }
    assert (a = IZR n * (IZR i * / IZR m))%R by (unfold a, q; field; lra).
    assert (0 <= IZR i * / IZR m)%R by (apply Rmult_le_pos; lra).
    split. rewrite H. apply Rmult_le_pos; lra.
    apply Rle_trans with (IZR n * 1)%R; [rewrite H; apply Rmult_le_compat_l; lra | lra]. }
  assert (E1 : (Rabs (stepR n m - q) <= eps53 * q)%R) by (apply rnd_rel; rewrite I64; lra).
  apply Rabs_le_inv in E1.
  set (s := stepR n m) in *.
  assert (He : (0 < eps53 < / 1000000000)%R) by (unfold eps53; lra).
  assert (Hs : (/ 33554432 <= s)%R).
  { assert (eps53 * q <= / 2 * q)%R by (apply Rmult_le_compat_r; lra). lra. }
  (* i*s against i*q *)
  assert (F1 : (IZR i * (- (eps53 * q)) <= IZR i * (s - q) <= IZR i * (eps53 * q))%R).
  { split; apply Rmult_le_compat_l; lra. }
  assert (F1' : (Rabs (IZR i * s - a) <= eps53 * 16777216)%R).
  { assert (eps53 * a <= eps53 * 16777216)%R by (apply Rmult_le_compat_l; lra).
    apply Rabs_le. unfold a in *. lra. }
  apply Rabs_le_inv in F1'.
  assert (G : (eps53 * 16777216 <= 1)%R) by (unfold eps53; lra).
  assert (Pis : (/ 33554432 <= IZR i * s <= 33554432)%R).
  { split; [|lra]. apply Rle_trans with (1 * s)%R. lra. apply Rmult_le_compat_r; lra. }
  assert (E2 : (Rabs (rnd (IZR i * s) - IZR i * s) <= eps53 * (IZR i * s))%R) by (apply rnd_rel; rewrite I64; lra).
  assert (E2' : (eps53 * (IZR i * s) <= eps53 * 33554432)%R) by (apply Rmult_le_compat_l; lra).
  apply Rabs_le_inv in E2.
  set (p := rnd (IZR i * s)) in *.
  assert (G2 : (eps53 * 33554432 <= 1)%R) by (unfold eps53; lra).
  assert (Pp0 : (0 <= p)%R) by (unfold p; rewrite <- rnd_0; apply rnd_le; lra).
  assert (Pp : (/ 2 <= p + / 2 <= 67108864)%R) by lra.
  assert (E3 : (Rabs (rnd (p + / 2) - (p + / 2)) <= eps53 * (p + / 2))%R) by (apply rnd_rel; rewrite I64; lra).
  assert (E3' : (eps53 * (p + / 2) <= eps53 * 67108864)%R) by (apply Rmult_le_compat_l; lra).
  apply Rabs_le_inv in E3.
  unfold bndR. fold s. fold p. fold a.
  apply Rabs_le. unfold eps53 in *. lra.
Qed.

(* the computed boundary b satisfies b <= i*n/m + 1/2 <= b + 1, stated over Z *)
Lemma bnd_sandwich : forall n m i, 0 <= n < 2^24 -> 1 <= m < 2^24 -> 0 <= i <= m ->
  2 * m * range_bnd (range_step n m) i <= 2 * i * n + m <= 2 * m * (range_bnd (range_step n m) i + 1).
Proof.
  intros n m i Hn Hm Hi. rewrite range_bnd_char by lia.
  generalize (bndR_err n m i Hn Hm Hi). intros E. apply Rabs_le_inv in E.
  set (R := bndR n m i) in *. set (b := Zfloor R).
  assert (Hb1 : (IZR b <= R)%R) by apply Zfloor_lb.
  assert (Hb2 : (R < IZR b + 1)%R) by apply Zfloor_ub.
  assert (Hm1 : (1 <= IZR m)%R) by (apply IZR_le; lia).
  assert (Hmu : (IZR m <= 16777215)%R) by (apply IZR_le; lia).
  set (d := (/ (2 * IZR m))%R).
  assert (Hd : (/ 67108864 < d)%R).
  { unfold d. apply Rinv_lt_contravar; [| lra]. apply Rmult_lt_0_compat; lra. }
  assert (Hx : (IZR i * (IZR n / IZR m) + / 2 = IZR (2 * i * n + m) * d)%R).
  { unfold d. rewrite plus_IZR, !mult_IZR. field. lra. }
  rewrite Hx in E.
  assert (D1 : (d * (2 * IZR m) = 1)%R) by (unfold d; field; lra).
  assert (P2m : (0 < 2 * IZR m)%R) by lra.
  split.
  - apply Z.lt_succ_r. apply lt_IZR. unfold Z.succ. rewrite !mult_IZR, plus_IZR.
    assert (IZR b < (IZR (2 * i * n + m) + 1) * d)%R by lra.
    apply (Rmult_lt_compat_r (2 * IZR m)) in H; [| lra].
    replace ((IZR (2 * i * n + m) + 1) * d * (2 * IZR m))%R
      with ((IZR (2 * i * n + m) + 1) * (d * (2 * IZR m)))%R in H by ring.
    rewrite D1 in H. lra.
  - apply Z.lt_succ_r. apply lt_IZR. unfold Z.succ. rewrite (plus_IZR (2 * m * (b + 1))), !mult_IZR, (plus_IZR b).
    assert ((IZR (2 * i * n + m) - 1) * d < IZR b + 1)%R by lra.
    apply (Rmult_lt_compat_r (2 * IZR m)) in H; [| lra].
    replace ((IZR (2 * i * n + m) - 1) * d * (2 * IZR m))%R
      with ((IZR (2 * i * n + m) - 1) * (d * (2 * IZR m)))%R in H by ring.
    rewrite D1 in H. lra.
Qed.

Theorem range_bnd_diff : forall n m i, 0 <= n < 2^24 -> 1 <= m < 2^24 -> 0 <= i < m ->
  n / m <= range_bnd (range_step n m) (i + 1) - range_bnd (range_step n m) i <= n / m + (if n mod m =? 0 then 0 else 1).
Proof.
  intros n m i Hn Hm Hi.
  generalize (bnd_sandwich n m i Hn Hm ltac:(lia)) (bnd_sandwich n m (i + 1) Hn Hm ltac:(lia)).
  generalize (range_bnd (range_step n m) i) (range_bnd (range_step n m) (i + 1)).
  intros b b' H1 H2.
  generalize (Z.div_mod n m ltac:(lia)) (Z.mod_pos_bound n m ltac:(lia)).
  generalize (n / m) (n mod m). intros Q r Hnq Hr.
  destruct (Z.eqb_spec r 0) as [->|Hr0].
  - subst n. rewrite Z.add_0_r in *.
    assert (A1 : m * (2 * b) <= m * (2 * (i * Q) + 1)) by lia.
    assert (A2 : m * (2 * (i * Q) + 1) <= m * (2 * (b + 1))) by lia.
    assert (B1 : m * (2 * b') <= m * (2 * ((i + 1) * Q) + 1)) by lia.
    assert (B2 : m * (2 * ((i + 1) * Q) + 1) <= m * (2 * (b' + 1))) by lia.
    apply Z.mul_le_mono_pos_l in A1, A2, B1, B2; try lia.
  - assert (A : m * (2 * (Q - 1)) < m * (2 * (b' - b))) by lia.
    assert (B : m * (2 * (b' - b)) < m * (2 * (Q + 2))) by lia.
    apply Z.mul_lt_mono_pos_l in A, B; lia.
Qed.

(* ---- assumptions ---- *)
Print Assumptions range_bnd_zero.
Print Assumptions range_bnd_last.
Print Assumptions range_bnd_mono.
Print Assumptions range_bnd_diff.
