(* C08 — boundary table chunk: m = 1 .. 22, all n <= 300, by evaluation of the Flocq model. *)
From Coq Require Import List ZArith Bool.
From SV Require Import C08.RangeTable.
Lemma table_chunk_1 : table_chunk_ok 1 22 = true.
Proof. vm_compute. reflexivity. Qed.
