(* C08 — sticky: a direct reassignment (from a member to one at least two smaller) lowers getBalanceScore by at least 2;
   hence a run without reverse-pair redirection that reassigned something never takes the revert branch of balance(). *)
From Coq Require Import List ZArith Bool Lia Permutation.
From SV Require Import C08.Common C08.RoundRobin C08.Sticky C08.StickyDirect C08.Valid C08.ProofsBase C08.ProofsStickyBase
  C08.ProofsStickyEnv C08.ProofsStickyKeep C08.ProofsStickyMove C08.ProofsStickySort C08.ProofsStickySorted C08.ProofsSticky
  C08.ProofsStickyTerm.
Import ListNotations.
Open Scope Z_scope.

Lemma score_against_perm : forall x l l', Permutation l l' -> score_against x l = score_against x l'.
Proof. intros x l l' H. induction H; simpl; lia. Qed.
Lemma score_sizes_perm : forall l l', Permutation l l' -> score_sizes l = score_sizes l'.
Proof.
  intros l l' H. induction H; simpl; try lia.
  rewrite (score_against_perm x l l' H). lia.
Qed.

Lemma score_against_shift : forall a b r, b + 2 <= a ->
  score_against (a - 1) r + score_against (b + 1) r <= score_against a r + score_against b r.
Proof. intros a b. induction r as [|x r IH]; intro H; simpl; [lia|]. specialize (IH H). lia. Qed.

Lemma score_move : forall a b r, b + 2 <= a -> score_sizes ((a - 1) :: (b + 1) :: r) + 2 <= score_sizes (a :: b :: r).
Proof. intros a b r H. simpl. pose proof (score_against_shift a b r H). lia. Qed.

Definition sizes (ca : asg) : list Z := map (fun x => len (snd x)) ca.
Lemma balance_score_sizes : forall ca, balance_score ca = score_sizes (sizes ca).
Proof. reflexivity. Qed.

Lemma sizes_split : forall k (ca : asg), NoDup (akeys ca) -> In k (akeys ca) ->
  Permutation (sizes ca) (len (ca_get ca k) :: sizes (adel str_eqb k ca)).
Proof.
  intros k. induction ca as [|[k' l'] ca IH]; intros N H; [contradiction|].
  simpl in N. inversion N as [|? ? Hk Nr]; subst. cbn [adel]. unfold ca_get. cbn [aget]. destruct (str_eqb k k') eqn:E.
  - apply str_eqb_eq in E. subst k'. rewrite (adel_notin k ca Hk). reflexivity.
  - fold (ca_get ca k). cbn [sizes map snd]. fold (sizes ca). fold (sizes (adel str_eqb k ca)).
    destruct H as [H|H]; [simpl in H; subst; now rewrite str_eqb_refl in E|].
    rewrite (IH Nr H). apply perm_swap.
Qed.

Lemma sizes_aset : forall k l (ca : asg), NoDup (akeys ca) -> In k (akeys ca) ->
  Permutation (sizes (aset str_eqb k l ca)) (len l :: sizes (adel str_eqb k ca)).
Proof.
  intros k l ca N H.
  rewrite (sizes_split k (aset str_eqb k l ca)).
  - now rewrite ca_get_aset_same, adel_aset.
  - now apply (aset_NoDup str_eqb str_spec).
  - apply (aset_keys_iff str_eqb str_spec). now left.
Qed.

Lemma adel_comm : forall a b (ca : asg), adel str_eqb a (adel str_eqb b ca) = adel str_eqb b (adel str_eqb a ca).
Proof.
  intros a b. induction ca as [|[k v] ca IH]; [reflexivity|]. cbn [adel].
  destruct (str_eqb b k) eqn:Eb; destruct (str_eqb a k) eqn:Ea; cbn [adel]; rewrite ?Ea, ?Eb; rewrite ?IH; reflexivity.
Qed.

Lemma adel_comm_get : forall k k' (ca : asg), k' <> k -> ca_get (adel str_eqb k ca) k' = ca_get ca k'.
Proof. intros. now apply ca_get_adel_other. Qed.

Section Score.
  Variable ms : list member.
  Variable ts : topics_t.
  Variable c2p : asg.
  Variable p2c : p2c_t.
  Hypothesis Hc2p : forall m q, In q (ca_get c2p m) <-> pot ms ts m q.
  Hypothesis Hp2cg : forall q m, In m (p2c_get p2c q) <-> pot ms ts m q.
  Variable W : list str.
  Variable fixed : asg.
  Hypothesis NW : NoDup W.
  Hypothesis Hfx_nodup : NoDup (akeys fixed).
  Hypothesis Hfx_disj : forall m, In m (akeys fixed) -> ~ In m W.
  Hypothesis Hfx_prop : fixed_prop ms ts p2c fixed.
  Hypothesis Hpot_key : forall m q, pot ms ts m q -> In m W \/ In m (akeys fixed).

  Lemma direct_move_score : forall s p newc, inv2 ms ts W fixed s -> In p (lists (s_ca s)) -> In newc W -> pot ms ts newc p ->
    len (ca_get (s_ca s) newc) + 1 < len (ca_get (s_ca s) (cpc_get (s_cpc s) p)) ->
    redirects (s_mov s) p (cpc_get (s_cpc s) p) newc = false ->
    balance_score (s_ca (reassign_partition s p newc)) + 2 <= balance_score (s_ca s).
  Proof.
    intros s p newc [I Hs] Hp Hn Hpot Hlt Hd.
    unfold reassign_partition. rewrite (actual_partition_direct _ _ _ _ _ Hd).
    unfold process_movement. cbn [s_ca s_cpc].
    set (oldc := cpc_get (s_cpc s) p) in *.
    assert (NK : NoDup (akeys (s_ca s))) by (rewrite (ri_keys ms ts W fixed s I); exact NW).
    destruct (lists_ca_get (s_ca s) p NK Hp) as [o [O1 O2]].
    assert (Eo : oldc = o) by (unfold oldc; now apply (ri_sound ms ts W fixed s I o p)). subst o.
    assert (Nn : newc <> oldc) by (intros ->; lia).
    assert (Hnk : In newc (akeys (s_ca s))) by now rewrite (ri_keys ms ts W fixed s I).
    set (L := ca_get (s_ca s) oldc) in *. set (M := ca_get (s_ca s) newc) in *.
    set (ca1 := aset str_eqb oldc (remove_first tp_eqb p L) (s_ca s)).
    assert (K1 : akeys ca1 = akeys (s_ca s)) by (unfold ca1; now apply (aset_keys_in str_eqb str_spec)).
    assert (N1 : NoDup (akeys ca1)) by now rewrite K1.
    assert (G1 : ca_get ca1 newc = M) by (unfold ca1; now rewrite ca_get_aset_other).
    rewrite G1. rewrite !balance_score_sizes.
    (* sizes before: |L| :: |M| :: rest;  after: |L|-1 :: |M|+1 :: rest *)
    set (rest := sizes (adel str_eqb newc (adel str_eqb oldc (s_ca s)))).
    assert (P0 : Permutation (sizes (s_ca s)) (len L :: len M :: rest)).
    { rewrite (sizes_split oldc (s_ca s) NK O1). fold L. constructor.
      rewrite (sizes_split newc (adel str_eqb oldc (s_ca s))).
      - rewrite ca_get_adel_other by assumption. reflexivity.
      - now apply (adel_NoDup str_eqb str_spec).
      - apply (adel_keys str_eqb str_spec). now split. }
    assert (P1 : Permutation (sizes (aset str_eqb newc (M ++ [p]) ca1)) ((len L - 1) :: (len M + 1) :: rest)).
    { rewrite (sizes_aset newc (M ++ [p]) ca1 N1) by (rewrite K1; assumption).
      rewrite len_app. change (len [p]) with 1.
      rewrite (sizes_split oldc (adel str_eqb newc ca1)).
      - rewrite ca_get_adel_other by congruence. unfold ca1 at 1. rewrite ca_get_aset_same. rewrite (len_remove_first p L O2).
        rewrite perm_swap. constructor. constructor.
        unfold rest, ca1. rewrite adel_comm, adel_aset. reflexivity.
      - apply (adel_NoDup str_eqb str_spec). exact N1.
      - apply (adel_keys str_eqb str_spec). split; [congruence|]. now rewrite K1. }
    rewrite (score_sizes_perm _ _ P0), (score_sizes_perm _ _ P1). apply score_move. fold M L in Hlt. lia.
  Qed.
  Lemma pass_progress_score : forall prev parts s m s' m' e,
    reassign_pass true prev c2p p2c parts s m = (s', m', e) -> inv2 ms ts W fixed s ->
    pass_directb true prev c2p p2c parts s = true ->
    inv2 ms ts W fixed s' /\ balance_score (s_ca s') <= balance_score (s_ca s) /\ (m = false -> m' = true -> balance_score (s_ca s') + 2 <= balance_score (s_ca s)).
  Proof.
    intros prev. induction parts as [|p r IH]; intros s m s' m' e E I D; cbn [reassign_pass] in E; cbn [pass_directb] in D.
    - injection E as <- <- _. split; [assumption|]. split; [lia | congruence].
    - destruct (is_balanced (s_ca s) c2p) as [[|]|].
      1,3: injection E as <- <- _; split; [assumption|]; split; [lia | congruence].
      cbn [negb orb] in E, D.
      destruct I as [I Hs].
      destruct (match aget tp_eqb p prev with
                | Some (pm, _) =>
                    if mem str_eqb pm (p2c_get p2c p) && (len (ca_get (s_ca s) pm) + 1 <? len (ca_get (s_ca s) (cpc_get (s_cpc s) p)))
                    then Some pm else None
                | None => None end) as [pm|] eqn:Ev.
      + apply andb_true_iff in D as [D1 D2]. apply negb_true_iff in D1.
        destruct (aget tp_eqb p prev) as [[pm' g]|]; [|discriminate].
        destruct (mem str_eqb pm' (p2c_get p2c p) && (len (ca_get (s_ca s) pm') + 1 <? len (ca_get (s_ca s) (cpc_get (s_cpc s) p)))) eqn:Ec; [|discriminate].
        injection Ev as ->. apply andb_true_iff in Ec as [C1 C2]. apply (mem_In str_eqb str_spec) in C1. apply Hp2cg in C1. apply Z.ltb_lt in C2.
        assert (Hp : In p (lists (s_ca s))) by (eapply (owner_working ms ts W fixed Hfx_nodup Hfx_disj); eauto).
        assert (Hw : In pm W) by (eapply (potential_working ms ts p2c W fixed Hfx_prop Hpot_key); eauto).
        destruct (direct_move ms ts W fixed NW s p pm (conj I Hs) Hp Hw C1 C2 D1) as [I1 _].
        pose proof (direct_move_score s p pm (conj I Hs) Hp Hw C1 C2 D1) as P1.
        destruct (IH _ _ _ _ _ E I1 D2) as [A [B _]]. split; [assumption|]. split; [lia | intros _ _; lia].
      + destruct (existsb (fun oc => len (ca_get (s_ca s) oc) + 1 <? len (ca_get (s_ca s) (cpc_get (s_cpc s) p))) (p2c_get p2c p)) eqn:Ex.
        * apply andb_true_iff in D as [D1 D2].
          apply existsb_exists in Ex as [oc [O1 O2]]. apply Hp2cg in O1. apply Z.ltb_lt in O2.
          assert (Hp : In p (lists (s_ca s))) by (eapply (owner_working ms ts W fixed Hfx_nodup Hfx_disj); eauto).
          assert (How : In oc W) by (eapply (potential_working ms ts p2c W fixed Hfx_prop Hpot_key); eauto).
          assert (Hos : In oc (s_sorted s)) by now apply (ri_sorted ms ts W fixed s I).
          unfold reassign_to_new in *.
          destruct (first_potential c2p p (s_sorted s)) as [m0|] eqn:Ef.
          -- apply negb_true_iff in D1.
             destruct (first_potential_some ms ts c2p Hc2p p (s_sorted s) m0 Ef) as [F1 F2].
             assert (Hm0 : In m0 W) by now apply (ri_sorted ms ts W fixed s I).
             assert (Hle : len (ca_get (s_ca s) m0) <= len (ca_get (s_ca s) oc)).
             { eapply (first_potential_min (s_ca s) c2p p (s_sorted s)); eauto.
               - rewrite Hs. apply size_sorted_sort.
               - apply (mem_In tp_eqb tp_spec). now apply Hc2p. }
             destruct (direct_move ms ts W fixed NW s p m0 (conj I Hs) Hp Hm0 F2 ltac:(lia) D1) as [I1 _].
             pose proof (direct_move_score s p m0 (conj I Hs) Hp Hm0 F2 ltac:(lia) D1) as P1.
             destruct (IH _ _ _ _ _ E I1 D2) as [A [B _]]. split; [assumption|]. split; [lia | intros _ _; lia].
          -- exfalso. apply (first_potential_none ms ts c2p Hc2p p (s_sorted s) Ef oc Hos O1).
        * apply (IH _ _ _ _ _ E (conj I Hs) D).
  Qed.


  Lemma perform_score : forall prev parts fuel s pf s' pf' e,
    perform fuel true prev c2p p2c parts s pf = (s', pf', e) -> inv2 ms ts W fixed s ->
    perform_directb fuel true prev c2p p2c parts s = true ->
    balance_score (s_ca s') <= balance_score (s_ca s) /\ (pf = false -> pf' = true -> balance_score (s_ca s') + 2 <= balance_score (s_ca s)).
  Proof.
    intros prev parts. induction fuel as [|fuel IH]; intros s pf s' pf' e E I D; cbn [perform] in E.
    - injection E as <- <- _. split; [lia | congruence].
    - cbn [perform_directb] in D. apply andb_true_iff in D as [D1 D2].
      destruct (reassign_pass true prev c2p p2c parts s false) as [[s1 m1] e1] eqn:Ep.
      destruct (pass_progress_score prev parts s false s1 m1 e1 Ep I D1) as [I1 [P1 P2]].
      destruct e1, m1; try (injection E as <- <- _; split; [lia | congruence]).
      destruct (IH _ _ _ _ _ E I1 D2) as [Q1 _]. specialize (P2 eq_refl eq_refl). split; [lia | intros _ _; lia].
  Qed.
End Score.

(* ---- Plan: for runs without reverse-pair redirection the property holds in full ---- *)
Theorem sticky_valid_direct : forall fuel o ms ts, wf_members ms -> wf_topics ts ->
  plan_directb fuel true o ms ts = true -> plan_bound o ms ts <= Z.of_nat fuel ->
  match p_res (sticky_plan_full fuel true o ms ts) with
  | SOk p => valid_plan ms ts p
  | SErr => exists mm, In mm ms /\ m_ud mm = UDErr
  | _ => False
  end.
Proof.
  intros fuel o ms ts Wm Wt D B.
  pose proof (sticky_valid fuel o ms ts Wm Wt) as SV. pose proof (sticky_terminates_direct fuel o ms ts Wm Wt D B) as ST.
  unfold sticky_plan_full, plan_directb in *.
  destruct (sticky_prepare o ms ts) as [pr|] eqn:Ep; [|exact SV].
  destruct (sticky_prepare_ok o ms ts pr Wm Wt Ep) as [C1 C2 NW NF DJ FP KY ID RI PA PALL PS].
  unfold run_perform in *.
  destruct (perform fuel true (pr_prev pr) (pr_c2p pr) (pr_p2c pr) (pr_parts pr) (pr_s0 pr) false) as [[s' pf] e] eqn:Er.
  pose proof (perform_score ms ts (pr_c2p pr) (pr_p2c pr) C1 C2 (akeys (s_ca (pr_s0 pr))) (pr_fixed pr) NW NF DJ FP KY
                (pr_prev pr) (pr_parts pr) fuel (pr_s0 pr) false s' pf e Er (conj RI PS) D) as [_ SC].
  unfold sticky_finish, balance_finish in *. cbn [b_ca b_end b_reverted b_performed p_res p_reverted p_nfixed] in *.
  destruct e.
  - apply SV. intro Hrev. exfalso. destruct pf; [|now rewrite andb_false_r in Hrev].
    specialize (SC eq_refl eq_refl). apply andb_true_iff in Hrev as [_ Hrev]. apply Z.leb_le in Hrev. lia.
  - exact SV.
  - exfalso. eapply ST. reflexivity.
Qed.
