(* C08 — basic facts: string/partition equality tests, association lists, the sorts and the order oracle,
   BalanceStrategyPlan.Add. *)
From Coq Require Import List ZArith Bool Lia Permutation.
From SV Require Import C08.Common C08.RoundRobin C08.Valid.
Import ListNotations.
Open Scope Z_scope.

Lemma str_eqb_eq : forall a b, str_eqb a b = true <-> a = b.
Proof.
  induction a as [|x a IH]; intros [|y b]; simpl; split; intro H; try reflexivity; try discriminate.
  - apply andb_true_iff in H as [H1 H2]. apply Z.eqb_eq in H1. apply IH in H2. now subst.
  - injection H as -> ->. rewrite Z.eqb_refl. simpl. now apply IH.
Qed.
Lemma str_eqb_refl : forall a, str_eqb a a = true.
Proof. intro a. now apply str_eqb_eq. Qed.
Lemma str_eqb_neq : forall a b, str_eqb a b = false <-> a <> b.
Proof.
  intros a b. split; intro H.
  - intro E. apply str_eqb_eq in E. congruence.
  - destruct (str_eqb a b) eqn:E; [apply str_eqb_eq in E; contradiction | reflexivity].
Qed.
Lemma tp_eqb_eq : forall a b : tp, tp_eqb a b = true <-> a = b.
Proof.
  intros [t p] [t' p']. unfold tp_eqb. simpl. rewrite andb_true_iff, str_eqb_eq, Z.eqb_eq.
  split; [intros [-> ->]; reflexivity | intro H; injection H as -> ->; split; reflexivity].
Qed.
Lemma tp_eqb_refl : forall a, tp_eqb a a = true.
Proof. intro a. now apply tp_eqb_eq. Qed.
Lemma tp_eqb_neq : forall a b, tp_eqb a b = false <-> a <> b.
Proof.
  intros a b. split; intro H.
  - intro E. apply tp_eqb_eq in E. congruence.
  - destruct (tp_eqb a b) eqn:E; [apply tp_eqb_eq in E; contradiction | reflexivity].
Qed.
Lemma Zeqb_eq' : forall a b : Z, Z.eqb a b = true <-> a = b.
Proof. intros. apply Z.eqb_eq. Qed.

Definition eqb_spec {A} (eqb : A -> A -> bool) := forall x y, eqb x y = true <-> x = y.
Lemma str_spec : eqb_spec str_eqb. Proof. exact str_eqb_eq. Qed.
Lemma tp_spec : eqb_spec tp_eqb. Proof. exact tp_eqb_eq. Qed.
Lemma Z_spec : eqb_spec Z.eqb. Proof. exact Zeqb_eq'. Qed.

Lemma len_app : forall {A} (a b : list A), len (a ++ b) = len a + len b.
Proof. intros. unfold len. rewrite app_length. lia. Qed.
Lemma len_nonneg : forall {A} (a : list A), 0 <= len a.
Proof. intros. unfold len. lia. Qed.
Lemma len_cons : forall {A} (x : A) l, len (x :: l) = 1 + len l.
Proof. intros. unfold len. simpl length. lia. Qed.

Lemma NoDup_app_intro : forall {A} (a b : list A), NoDup a -> NoDup b -> (forall x, In x a -> In x b -> False) -> NoDup (a ++ b).
Proof.
  induction a as [|x a IH]; simpl; intros b Ha Hb H; [assumption|].
  inversion Ha as [|? ? Hx Hr]; subst. constructor.
  - intro HI. apply in_app_or in HI as [HI|HI]; [contradiction | eapply H; [now left | exact HI]].
  - apply IH; try assumption. intros y H1 H2. eapply H; [right; exact H1 | exact H2].
Qed.

Section WithEq.
  Context {A : Type} (eqb : A -> A -> bool) (Heq : eqb_spec eqb).

  Lemma eqb_refl' : forall x, eqb x x = true.
  Proof. intro x. now apply Heq. Qed.
  Lemma eqb_false : forall x y, eqb x y = false <-> x <> y.
  Proof.
    intros x y. split; intro H.
    - intro E. apply Heq in E. congruence.
    - destruct (eqb x y) eqn:E; [apply Heq in E; contradiction | reflexivity].
  Qed.
  Lemma eq_dec_of : forall x y : A, {x = y} + {x <> y}.
  Proof. intros x y. destruct (eqb x y) eqn:E; [left; now apply Heq | right; now apply eqb_false]. Qed.

  Lemma mem_In : forall x l, mem eqb x l = true <-> In x l.
  Proof.
    intros x l. unfold mem. rewrite existsb_exists. split.
    - intros [y [Hy E]]. apply Heq in E. now subst.
    - intro H. exists x. split; [assumption | apply eqb_refl'].
  Qed.
  Lemma mem_false : forall x l, mem eqb x l = false <-> ~ In x l.
  Proof.
    intros x l. split; intro H.
    - intro HI. apply mem_In in HI. congruence.
    - destruct (mem eqb x l) eqn:E; [apply mem_In in E; contradiction | reflexivity].
  Qed.

  Lemma nodupb_NoDup : forall l, nodupb eqb l = true <-> NoDup l.
  Proof.
    induction l as [|x l IH]; simpl.
    - split; [constructor | reflexivity].
    - rewrite andb_true_iff, negb_true_iff, mem_false, IH. split.
      + intros [H1 H2]. now constructor.
      + intro H. inversion H. now split.
  Qed.

  (* ---- remove_first ---- *)
  Lemma remove_first_notin : forall x l, ~ In x l -> remove_first eqb x l = l.
  Proof.
    induction l as [|y l IH]; simpl; intro H; [reflexivity|].
    destruct (eqb y x) eqn:E.
    - apply Heq in E. subst. exfalso. apply H. now left.
    - f_equal. apply IH. intro HI. apply H. now right.
  Qed.
  Lemma remove_first_perm : forall x l, In x l -> Permutation l (x :: remove_first eqb x l).
  Proof.
    induction l as [|y l IH]; simpl; intro H; [contradiction|].
    destruct (eqb y x) eqn:E.
    - apply Heq in E. subst. reflexivity.
    - destruct H as [H|H]; [subst; rewrite eqb_refl' in E; discriminate|].
      rewrite perm_swap. constructor. now apply IH.
  Qed.
  Lemma remove_first_incl : forall x l y, In y (remove_first eqb x l) -> In y l.
  Proof.
    induction l as [|z l IH]; simpl; intros y H; [assumption|].
    destruct (eqb z x); [now right|]. destruct H as [H|H]; [now left | right; now apply IH].
  Qed.
  Lemma remove_first_NoDup : forall x l, NoDup l -> NoDup (remove_first eqb x l) /\ ~ In x (remove_first eqb x l).
  Proof.
    induction l as [|z l IH]; simpl; intro H; [split; [constructor | tauto]|].
    inversion H as [|? ? Hz Hl]; subst.
    destruct (eqb z x) eqn:E.
    - apply Heq in E. subst. now split.
    - destruct (IH Hl) as [I1 I2]. split.
      + constructor; [|assumption]. intro HI. apply Hz. eapply remove_first_incl; eassumption.
      + intros [HI|HI]; [subst; rewrite eqb_refl' in E; discriminate | contradiction].
  Qed.
  Lemma remove_first_other : forall x y l, y <> x -> In y l -> In y (remove_first eqb x l).
  Proof.
    induction l as [|z l IH]; simpl; intros Hn H; [assumption|].
    destruct (eqb z x) eqn:E.
    - apply Heq in E. subst. destruct H; [congruence | assumption].
    - destruct H as [H|H]; [now left | right; now apply IH].
  Qed.

  (* ---- order oracle ---- *)
  Lemma dedup_first_spec : forall l seen,
    NoDup (dedup_first eqb seen l) /\ (forall x, In x (dedup_first eqb seen l) <-> In x l /\ ~ In x seen).
  Proof.
    induction l as [|y l IH]; intro seen; simpl.
    - split; [constructor | intro x; tauto].
    - destruct (mem eqb y seen) eqn:E.
      + destruct (IH seen) as [I1 I2]. split; [assumption|]. intro x. rewrite I2. apply mem_In in E.
        split; [intros [H1 H2]; split; [now right | assumption] | intros [[H1|H1] H2]; [subst; contradiction | now split]].
      + destruct (IH (y :: seen)) as [I1 I2]. apply mem_false in E. split.
        * constructor; [|assumption]. rewrite I2. intros [_ H]. apply H. now left.
        * intro x. simpl. rewrite I2. simpl. split.
          -- intros [H|[H1 H2]]; [subst; split; [now left | assumption] | split; [now right | tauto]].
          -- intros [[H|H] H2]; [now left|]. destruct (eq_dec_of y x) as [->|N]; [now left|]. right. split; [assumption|]. intros [H3|H3]; contradiction.
  Qed.

  Lemma order_by_spec : forall o keys, NoDup keys ->
    NoDup (order_by eqb o keys) /\ (forall x, In x (order_by eqb o keys) <-> In x keys).
  Proof.
    intros o keys Hk. unfold order_by.
    destruct (dedup_first_spec (filter (fun k => mem eqb k keys) o) []) as [D1 D2].
    assert (F1 : NoDup (filter (fun k => negb (mem eqb k o)) keys)) by now apply NoDup_filter.
    split.
    - apply NoDup_app_intro; try assumption.
      intros x H1 H2. apply D2 in H1 as [H1 _]. apply filter_In in H1 as [H1 _].
      apply filter_In in H2 as [_ H2]. apply negb_true_iff in H2. apply mem_false in H2. contradiction.
    - intro x. rewrite in_app_iff, D2, !filter_In, negb_true_iff, mem_In, mem_false. simpl. split.
      + intros [[[_ H] _]|[H _]]; assumption.
      + intro H. destruct (in_dec eq_dec_of x o) as [Ho|Ho]; [left; tauto | right; tauto].
  Qed.
  Lemma order_by_perm : forall o keys, NoDup keys -> Permutation (order_by eqb o keys) keys.
  Proof.
    intros o keys Hk. destruct (order_by_spec o keys Hk) as [H1 H2].
    apply NoDup_Permutation; assumption.
  Qed.
End WithEq.

(* NoDup of an append *)
Lemma NoDup_app_inv : forall {A} (a b : list A), NoDup (a ++ b) -> NoDup a /\ NoDup b /\ (forall x, In x a -> ~ In x b).
Proof.
  induction a as [|x a IH]; simpl; intros b H.
  - split; [constructor | split; [assumption | tauto]].
  - inversion H as [|? ? Hx Hr]; subst. destruct (IH _ Hr) as [I1 [I2 I3]]. split; [|split; [assumption|]].
    + constructor; [|assumption]. intro HI. apply Hx. apply in_or_app. now left.
    + intros y [->|Hy]; [intro HI; apply Hx; apply in_or_app; now right | now apply I3].
Qed.

(* ---- association lists ---- *)
Section Assoc.
  Context {K V : Type} (eqb : K -> K -> bool) (Heq : eqb_spec eqb).

  Lemma aget_In : forall k v (l : list (K * V)), aget eqb k l = Some v -> In (k, v) l.
  Proof.
    induction l as [|[k' v'] l IH]; simpl; intro H; [discriminate|].
    destruct (eqb k k') eqn:E.
    - apply Heq in E. injection H as ->. subst. now left.
    - right. now apply IH.
  Qed.
  Lemma aget_None : forall k (l : list (K * V)), aget eqb k l = None <-> ~ In k (akeys l).
  Proof.
    induction l as [|[k' v'] l IH]; simpl; [tauto|].
    destruct (eqb k k') eqn:E.
    - apply Heq in E. subst. split; [discriminate | intro H; exfalso; apply H; now left].
    - rewrite IH. apply (eqb_false eqb Heq) in E. split; [intros H [H1|H1]; [congruence | contradiction] | tauto].
  Qed.
  Lemma aget_Some_key : forall k v (l : list (K * V)), aget eqb k l = Some v -> In k (akeys l).
  Proof. intros k v l H. apply aget_In in H. unfold akeys. apply in_map_iff. now exists (k, v). Qed.
  Lemma In_aget : forall k v (l : list (K * V)), NoDup (akeys l) -> In (k, v) l -> aget eqb k l = Some v.
  Proof.
    induction l as [|[k' v'] l IH]; simpl; intros Hn H; [contradiction|].
    inversion Hn as [|? ? Hk Hl]; subst.
    destruct H as [H|H].
    - injection H as -> ->. now rewrite (eqb_refl' eqb Heq).
    - destruct (eqb k k') eqn:E; [|now apply IH].
      apply Heq in E. subst. exfalso. apply Hk. unfold akeys. apply in_map_iff. now exists (k', v).
  Qed.
  Lemma key_aget : forall k (l : list (K * V)), In k (akeys l) -> exists v, aget eqb k l = Some v.
  Proof.
    intros k l H. destruct (aget eqb k l) eqn:E; [now eexists|]. apply aget_None in E. contradiction.
  Qed.

  Lemma aset_cases : forall k v (l : list (K * V)),
    (aget eqb k l = None /\ aset eqb k v l = l ++ [(k, v)]) \/
    (exists l1 v0 l2, l = l1 ++ (k, v0) :: l2 /\ ~ In k (akeys l1) /\ aget eqb k l = Some v0 /\
                      aset eqb k v l = l1 ++ (k, v) :: l2).
  Proof.
    induction l as [|[k' v'] l IH]; simpl.
    - left. now split.
    - destruct (eqb k k') eqn:E.
      + apply Heq in E. subst. right. exists [], v', l. simpl. repeat split; auto.
      + destruct IH as [[I1 I2]|[l1 [v0 [l2 [I1 [I2 [I3 I4]]]]]]].
        * left. split; [assumption|]. now rewrite I2.
        * right. exists ((k', v') :: l1), v0, l2. simpl. subst l. repeat split; auto.
          -- intros [H|H]; [|contradiction]. subst. rewrite (eqb_refl' eqb Heq) in E. discriminate.
          -- now rewrite I4.
  Qed.
  Lemma aset_keys_in : forall k v (l : list (K * V)), In k (akeys l) -> akeys (aset eqb k v l) = akeys l.
  Proof.
    intros k v l H. destruct (aset_cases k v l) as [[I1 _]|[l1 [v0 [l2 [I1 [_ [_ I4]]]]]]].
    - apply aget_None in I1. contradiction.
    - rewrite I4, I1. unfold akeys. now rewrite !map_app.
  Qed.
  Lemma aset_keys_notin : forall k v (l : list (K * V)), ~ In k (akeys l) -> akeys (aset eqb k v l) = akeys l ++ [k].
  Proof.
    intros k v l H. destruct (aset_cases k v l) as [[_ I2]|[l1 [v0 [l2 [_ [_ [I3 _]]]]]]].
    - rewrite I2. unfold akeys. now rewrite map_app.
    - apply aget_Some_key in I3. contradiction.
  Qed.
  Lemma aset_keys_iff : forall k v (l : list (K * V)) x, In x (akeys (aset eqb k v l)) <-> x = k \/ In x (akeys l).
  Proof.
    intros k v l x. destruct (in_dec (eq_dec_of eqb Heq) k (akeys l)) as [H|H].
    - rewrite aset_keys_in by assumption. split; [tauto | intros [->|H1]; assumption].
    - rewrite aset_keys_notin by assumption. rewrite in_app_iff. simpl. split; [intros [H1|[H1|[]]]; auto | intros [->|H1]; auto].
  Qed.
  Lemma aset_NoDup : forall k v (l : list (K * V)), NoDup (akeys l) -> NoDup (akeys (aset eqb k v l)).
  Proof.
    intros k v l Hn. destruct (in_dec (eq_dec_of eqb Heq) k (akeys l)) as [H|H].
    - now rewrite aset_keys_in.
    - rewrite aset_keys_notin by assumption. apply NoDup_app_intro; try assumption.
      + constructor; [tauto | constructor].
      + intros x H1 [H2|[]]. now subst.
  Qed.
  Lemma aget_aset_same : forall k v (l : list (K * V)), aget eqb k (aset eqb k v l) = Some v.
  Proof.
    induction l as [|[k' v'] l IH]; simpl.
    - now rewrite (eqb_refl' eqb Heq).
    - destruct (eqb k k') eqn:E; simpl; rewrite E; [reflexivity | assumption].
  Qed.
  Lemma aget_aset_other : forall k k' v (l : list (K * V)), k' <> k -> aget eqb k' (aset eqb k v l) = aget eqb k' l.
  Proof.
    induction l as [|[k0 v0] l IH]; simpl; intro N.
    - apply (eqb_false eqb Heq) in N. now rewrite N.
    - destruct (eqb k k0) eqn:E; simpl.
      + apply Heq in E. subst. apply (eqb_false eqb Heq) in N. now rewrite N.
      + destruct (eqb k' k0); [reflexivity | now apply IH].
  Qed.
  Lemma aset_In : forall k v (l : list (K * V)) k' v', In (k', v') (aset eqb k v l) -> (k' = k /\ v' = v) \/ In (k', v') l.
  Proof.
    induction l as [|[k0 v0] l IH]; simpl; intros k' v' H.
    - destruct H as [H|[]]. injection H as <- <-. now left.
    - destruct (eqb k k0) eqn:E.
      + apply Heq in E. subst. destruct H as [H|H]; [injection H as <- <-; now left | right; now right].
      + destruct H as [H|H]; [right; now left|]. apply IH in H. destruct H; [now left | right; now right].
  Qed.

  Lemma adel_keys : forall k (l : list (K * V)) x, In x (akeys (adel eqb k l)) <-> x <> k /\ In x (akeys l).
  Proof.
    induction l as [|[k0 v0] l IH]; simpl; intro x; [tauto|].
    destruct (eqb k k0) eqn:E.
    - apply Heq in E. subst. rewrite IH. split; [intros [H1 H2]; split; [assumption | now right] | intros [H1 [H2|H2]]; [congruence | now split]].
    - simpl. rewrite IH. apply (eqb_false eqb Heq) in E.
      split; [intros [H|[H1 H2]]; [subst; split; [congruence | now left] | split; [assumption | now right]] | intros [H1 [H2|H2]]; [now left | right; now split]].
  Qed.
  Lemma adel_NoDup : forall k (l : list (K * V)), NoDup (akeys l) -> NoDup (akeys (adel eqb k l)).
  Proof.
    induction l as [|[k0 v0] l IH]; simpl; intro H; [constructor|].
    inversion H as [|? ? Hk Hl]; subst.
    destruct (eqb k k0); [now apply IH|]. simpl. constructor; [|now apply IH].
    intro HI. apply adel_keys in HI. tauto.
  Qed.
  Lemma aget_adel_same : forall k (l : list (K * V)), aget eqb k (adel eqb k l) = None.
  Proof. intros k l. apply aget_None. intro H. apply adel_keys in H. tauto. Qed.
  Lemma aget_adel_other : forall k k' (l : list (K * V)), k' <> k -> aget eqb k' (adel eqb k l) = aget eqb k' l.
  Proof.
    induction l as [|[k0 v0] l IH]; simpl; intro N; [reflexivity|].
    destruct (eqb k k0) eqn:E.
    - apply Heq in E. subst. apply (eqb_false eqb Heq) in N. rewrite N. now apply IH; apply (eqb_false eqb Heq).
    - simpl. destruct (eqb k' k0); [reflexivity | now apply IH].
  Qed.
  Lemma adel_In : forall k (l : list (K * V)) x, In x (adel eqb k l) -> In x l.
  Proof.
    induction l as [|[k0 v0] l IH]; simpl; intros x H; [assumption|].
    destruct (eqb k k0); [right; now apply IH|]. destruct H; [now left | right; now apply IH].
  Qed.
End Assoc.

(* ---- stable insertion sort ---- *)
Section SortFacts.
  Context {A : Type} (less : A -> A -> bool).
  Lemma insert_perm : forall x l, Permutation (insert less x l) (x :: l).
  Proof.
    induction l as [|y l IH]; simpl; [reflexivity|].
    destruct (less y x); [|reflexivity]. rewrite IH. apply perm_swap.
  Qed.
  Lemma sort_perm : forall l, Permutation (sort less l) l.
  Proof.
    induction l as [|x l IH]; simpl; [reflexivity|]. rewrite insert_perm. now constructor.
  Qed.
  Lemma sort_In : forall l x, In x (sort less l) <-> In x l.
  Proof. intros l x. split; apply Permutation_in; [apply sort_perm | symmetry; apply sort_perm]. Qed.
  Lemma sort_NoDup : forall l, NoDup l -> NoDup (sort less l).
  Proof. intros l H. eapply Permutation_NoDup; [symmetry; apply sort_perm | assumption]. Qed.
  Lemma sort_length : forall l, length (sort less l) = length l.
  Proof. intro l. apply Permutation_length. apply sort_perm. Qed.
End SortFacts.

(* ---- plans ---- *)
Definition wf_plan (p : plan) : Prop := NoDup (map fst p) /\ forall m tl, In (m, tl) p -> NoDup (map fst tl).

Lemma triples_app : forall a b, triples (a ++ b) = triples a ++ triples b.
Proof.
  induction a as [|[m tl] a IH]; simpl; intro b; [reflexivity|]. now rewrite IH, app_assoc.
Qed.
Lemma inner_triples_app : forall m a b, inner_triples m (a ++ b) = inner_triples m a ++ inner_triples m b.
Proof.
  induction a as [|[t ps] a IH]; simpl; intro b; [reflexivity|]. now rewrite IH, app_assoc.
Qed.

Definition entry (m t : str) (ps : list Z) : list (str * str * Z) := map (fun q => (m, t, q)) ps.

Lemma inner_set_perm : forall m t ps tl,
  Permutation (inner_triples m (aset str_eqb t (inner_get t tl ++ ps) tl)) (inner_triples m tl ++ entry m t ps).
Proof.
  intros m t ps tl. unfold inner_get.
  destruct (aset_cases str_eqb str_spec t (match aget str_eqb t tl with Some l => l | None => [] end ++ ps) tl)
    as [[I1 I2]|[l1 [v0 [l2 [I1 [_ [I3 I4]]]]]]].
  - rewrite I2, I1. simpl. rewrite inner_triples_app. simpl. rewrite app_nil_r. reflexivity.
  - rewrite I4, I3. rewrite I1. rewrite !inner_triples_app. simpl. unfold entry. rewrite map_app.
    rewrite <- !app_assoc. apply Permutation_app_head. apply Permutation_app_head. apply Permutation_app_comm.
Qed.

Lemma plan_add_perm : forall p m t ps,
  Permutation (triples (plan_add p m t ps)) (triples p ++ entry m t ps).
Proof.
  intros p m t ps. unfold plan_add. destruct ps as [|q ps']; [simpl; now rewrite app_nil_r|].
  set (qs := q :: ps'). unfold plan_inner.
  destruct (aset_cases str_eqb str_spec m
     (aset str_eqb t (inner_get t (match aget str_eqb m p with Some tl => tl | None => [] end) ++ qs)
                    (match aget str_eqb m p with Some tl => tl | None => [] end)) p)
    as [[I1 I2]|[l1 [v0 [l2 [I1 [_ [I3 I4]]]]]]].
  - rewrite I2, I1. rewrite triples_app. simpl. rewrite !app_nil_r. reflexivity.
  - rewrite I4, I3. rewrite I1. rewrite !triples_app. simpl.
    rewrite <- !app_assoc. apply Permutation_app_head.
    rewrite (inner_set_perm m t qs v0). rewrite <- !app_assoc. apply Permutation_app_head. apply Permutation_app_comm.
Qed.

Lemma plan_add_keys : forall p m t ps x, In x (map fst (plan_add p m t ps)) -> x = m \/ In x (map fst p).
Proof.
  intros p m t ps x H. unfold plan_add in H. destruct ps; [now right|].
  apply (aset_keys_iff str_eqb str_spec) in H. exact H.
Qed.
Lemma plan_add_keys_mono : forall p m t ps x, In x (map fst p) -> In x (map fst (plan_add p m t ps)).
Proof.
  intros p m t ps x H. unfold plan_add. destruct ps; [assumption|].
  apply (aset_keys_iff str_eqb str_spec). now right.
Qed.

Lemma plan_add_wf : forall p m t ps, wf_plan p -> wf_plan (plan_add p m t ps).
Proof.
  intros p m t ps [W1 W2]. unfold plan_add. destruct ps as [|q ps']; [now split|].
  split.
  - apply (aset_NoDup str_eqb str_spec). exact W1.
  - intros m' tl H. apply (aset_In str_eqb str_spec) in H. destruct H as [[-> ->]|H]; [|now apply (W2 m')].
    apply (aset_NoDup str_eqb str_spec). unfold plan_inner.
    destruct (aget str_eqb m p) eqn:E; [|constructor]. apply (aget_In str_eqb str_spec) in E. now apply (W2 m).
Qed.

Lemma wf_plan_nil : wf_plan [].
Proof. split; [constructor | intros ? ? []]. Qed.

Lemma assigned_perm : forall a b, Permutation (triples a) b ->
  Permutation (assigned a) (map (fun x => (snd (fst x), snd x)) b).
Proof. intros a b H. unfold assigned. now apply Permutation_map. Qed.

Lemma entry_assigned : forall m t ps, map (fun x : str * str * Z => (snd (fst x), snd x)) (entry m t ps) = expand_topic t ps.
Proof. intros m t ps. unfold entry. induction ps as [|q ps IH]; simpl; [reflexivity | now rewrite IH]. Qed.

Lemma expand_topic_map : forall t ps, expand_topic t ps = map (fun q => (t, q)) ps.
Proof. induction ps as [|q ps IH]; simpl; [reflexivity | now rewrite IH]. Qed.
Lemma expand_topic_In : forall t ps x, In x (expand_topic t ps) <-> fst x = t /\ In (snd x) ps.
Proof.
  intros t ps [t' q]. rewrite expand_topic_map, in_map_iff. simpl. split.
  - intros [q' [E H]]. injection E as <- <-. now split.
  - intros [<- H]. now exists q.
Qed.
Lemma expand_topic_NoDup : forall t ps, NoDup ps -> NoDup (expand_topic t ps).
Proof.
  intros t ps H. rewrite expand_topic_map. apply FinFun.Injective_map_NoDup; [|assumption].
  intros a b E. now injection E.
Qed.
Lemma all_tps_In : forall ts x, In x (all_tps ts) <-> exists ps, In (fst x, ps) ts /\ In (snd x) ps.
Proof.
  induction ts as [|[t ps] ts IH]; intro x; simpl.
  - split; [tauto | intros [? [[] _]]].
  - rewrite in_app_iff, expand_topic_In, IH. split.
    + intros [[H1 H2]|[ps' [H1 H2]]]; [exists ps; split; [left; now rewrite <- H1 | assumption] | exists ps'; split; [now right | assumption]].
    + intros [ps' [[H1|H1] H2]]; [injection H1 as <- <-; left; now split | right; now exists ps'].
Qed.
Lemma all_tps_NoDup : forall ts, wf_topics ts -> NoDup (all_tps ts).
Proof.
  intros ts [W1 W2]. induction ts as [|[t ps] ts IH]; simpl; [constructor|].
  simpl in W1. inversion W1 as [|? ? Ht Hts]; subst.
  apply NoDup_app_intro.
  - apply expand_topic_NoDup. apply (W2 t). now left.
  - apply IH; [assumption|]. intros t' ps' H. apply (W2 t'). now right.
  - intros x H1 H2. apply expand_topic_In in H1 as [H1 _]. apply all_tps_In in H2 as [ps' [H2 _]].
    apply Ht. apply in_map_iff. exists (fst x, ps'). split; [now simpl | assumption].
Qed.
