(* C08 — sticky: the list of reassignable partitions has no duplicates and, after the non-participating ones
   were dropped, contains only partitions with two or more potential consumers. *)
From Coq Require Import List ZArith Bool Lia Permutation.
From SV Require Import C08.Common C08.RoundRobin C08.Sticky C08.Valid C08.ProofsBase C08.ProofsStickyBase.
Import ListNotations.
Open Scope Z_scope.

Lemma pq_top_In : forall l best, In (pq_top best l) (best :: l).
Proof.
  induction l as [|x l IH]; intro best; cbn [pq_top]; [now left|].
  destruct (IH (if pq_before x best then x else best)) as [H|H]; [|right; now right].
  rewrite <- H. destruct (pq_before x best); [right; now left | now left].
Qed.

Lemma find_index_lt : forall {A} (f : A -> bool) l i k, find_index f l i = Some k -> (i <= k < i + length l)%nat.
Proof.
  intros A f. induction l as [|x l IH]; intros i k H; cbn [find_index] in H; [discriminate|].
  destruct (f x); [injection H as <-; simpl; lia|]. apply IH in H. simpl. lia.
Qed.

Lemma remove_nth_perm : forall {A} (l : list A) n d, (n < length l)%nat -> Permutation l (nth n l d :: remove_nth n l).
Proof.
  intros A. induction l as [|x l IH]; intros n d H; simpl in H; [lia|].
  destruct n as [|n]; simpl; [reflexivity|]. rewrite perm_swap. constructor. apply IH. lia.
Qed.

Lemma pq_loop_spec : forall fuel prev (asgs : asg) acc, NoDup (akeys asgs) ->
  exists taken rest, pq_loop fuel prev asgs acc = acc ++ taken /\ Permutation (lists asgs) (taken ++ rest).
Proof.
  induction fuel as [|fuel IH]; intros prev asgs acc N; cbn [pq_loop].
  - exists [], (lists asgs). now rewrite app_nil_r.
  - destruct asgs as [|x r]; [exists [], []; now rewrite app_nil_r|].
    pose proof (pq_top_In r x) as Hin. destruct (pq_top x r) as [id l].
    destruct l as [|p0 l0]; [exists [], (lists (x :: r)); now rewrite app_nil_r|].
    remember (p0 :: l0) as l eqn:El. remember (x :: r) as asgs eqn:Ea.
    set (idx := match find_index (fun p => match aget tp_eqb p prev with Some _ => true | None => false end) l 0 with Some i => i | None => 0%nat end).
    assert (Hidx : (idx < length l)%nat).
    { unfold idx. destruct (find_index _ l 0) as [i|] eqn:Ef; [apply find_index_lt in Ef; lia | rewrite El; simpl; lia]. }
    destruct (IH prev (aset str_eqb id (remove_nth idx l) asgs) (acc ++ [nth idx l ([], 0)])) as [taken [rest [E P]]].
    { now apply (aset_NoDup str_eqb str_spec). }
    exists (nth idx l ([], 0) :: taken), rest. split.
    + rewrite E. now rewrite <- app_assoc.
    + eapply Permutation_trans; [apply (lists_split id asgs N)|]. rewrite (entry_ca_get id l asgs N Hin).
      eapply Permutation_trans; [apply Permutation_app_tail; apply (remove_nth_perm l idx ([], 0) Hidx)|].
      simpl. constructor. eapply Permutation_trans; [|exact P]. symmetry. now apply lists_aset_split.
Qed.

Lemma filter_assigned_keys : forall ca p2c, akeys (filter_assigned ca p2c) = akeys ca.
Proof. intros. unfold filter_assigned, akeys. rewrite map_map. reflexivity. Qed.
Lemma filter_assigned_lists : forall ca (p2c : p2c_t),
  lists (filter_assigned ca p2c) = filter (fun p => match aget tp_eqb p p2c with Some _ => true | None => false end) (lists ca).
Proof.
  intros ca p2c. unfold lists, filter_assigned. rewrite map_map. simpl. rewrite <- concat_filter_map. now rewrite map_map.
Qed.

Lemma sort_partitions_ok : forall o ca prev fresh (p2c : p2c_t) c2p, NoDup (akeys ca) -> NoDup (lists ca) -> NoDup (akeys p2c) ->
  let s := sort_partitions o ca prev fresh p2c c2p in NoDup s /\ forall q, In q s -> In q (akeys p2c).
Proof.
  intros o ca prev fresh p2c c2p Nk Nl Np. unfold sort_partitions.
  destruct (negb fresh && subscriptions_identical o p2c c2p).
  - set (a := filter_assigned ca p2c).
    destruct (pq_loop_spec (total_len a) prev a []) as [taken [rest [E P]]]; [unfold a; now rewrite filter_assigned_keys|].
    simpl in E. rewrite E.
    assert (Na : NoDup (lists a)) by (unfold a; rewrite filter_assigned_lists; now apply NoDup_filter).
    assert (Nt : NoDup taken) by (pose proof (Permutation_NoDup P Na) as H; now apply NoDup_app_inv in H).
    assert (Ht : forall q, In q taken -> In q (akeys p2c)).
    { intros q Hq. assert (H : In q (lists a)) by (apply (Permutation_in q (Permutation_sym P)); apply in_or_app; now left).
      unfold a in H. rewrite filter_assigned_lists in H. apply filter_In in H as [_ H].
      destruct (aget tp_eqb q p2c) eqn:Eg; [|discriminate]. eapply (aget_Some_key tp_eqb tp_spec); eassumption. }
    set (rem := filter (fun p => negb (mem tp_eqb p taken)) (akeys p2c)).
    assert (Nr : NoDup rem) by now apply NoDup_filter.
    destruct (order_by_spec tp_eqb tp_spec (o_sort_unassigned o) rem Nr) as [O1 O2].
    split.
    + apply NoDup_app_intro; try assumption. intros q H1 H2. apply O2 in H2. unfold rem in H2. apply filter_In in H2 as [_ H2].
      apply negb_true_iff in H2. apply (mem_false tp_eqb tp_spec) in H2. contradiction.
    + intros q Hq. apply in_app_or in Hq as [Hq|Hq]; [now apply Ht|]. apply O2 in Hq. unfold rem in Hq. now apply filter_In in Hq.
  - unfold sort_parts_by_potential. split; [now apply sort_NoDup | intros q Hq; now apply sort_In in Hq].
Qed.

Lemma sort_partitions_cover : forall o ca prev fresh (p2c : p2c_t) c2p q, In q (akeys p2c) ->
  In q (sort_partitions o ca prev fresh p2c c2p).
Proof.
  intros o ca prev fresh p2c c2p q Hq. unfold sort_partitions.
  destruct (negb fresh && subscriptions_identical o p2c c2p).
  - set (s := pq_loop (total_len (filter_assigned ca p2c)) prev (filter_assigned ca p2c) []).
    destruct (mem tp_eqb q s) eqn:E.
    + apply in_or_app. left. now apply (mem_In tp_eqb tp_spec).
    + apply in_or_app. right. unfold order_by. apply in_or_app.
      set (rem := filter (fun p => negb (mem tp_eqb p s)) (akeys p2c)).
      assert (Hr : In q rem) by (unfold rem; apply filter_In; split; [assumption | now rewrite E]).
      destruct (mem tp_eqb q (o_sort_unassigned o)) eqn:Eo.
      * left. apply (dedup_first_spec tp_eqb tp_spec). split; [|tauto]. apply filter_In. split; [now apply (mem_In tp_eqb tp_spec)|].
        now apply (mem_In tp_eqb tp_spec).
      * right. apply filter_In. split; [assumption | now rewrite Eo].
  - unfold sort_parts_by_potential. now apply sort_In.
Qed.

Lemma remove_first_In_iff : forall (q x : tp) l, NoDup l -> (In x (remove_first tp_eqb q l) <-> In x l /\ x <> q).
Proof.
  intros q x l N. split.
  - intro H. split; [eapply remove_first_incl; eassumption|]. intros ->. now apply (remove_first_NoDup tp_eqb tp_spec q l N).
  - intros [H1 H2]. now apply (remove_first_other tp_eqb tp_spec).
Qed.

Lemma drop_nonparticipating_spec : forall (p2c : p2c_t) keys sorted, NoDup sorted ->
  NoDup (drop_nonparticipating p2c keys sorted) /\
  forall x, In x (drop_nonparticipating p2c keys sorted) <-> In x sorted /\ ~ (In x keys /\ part_can_participate p2c x = false).
Proof.
  intros p2c. induction keys as [|k keys IH]; intros sorted N; cbn [drop_nonparticipating].
  - split; [assumption|]. intro x. simpl. tauto.
  - destruct (part_can_participate p2c k) eqn:Ek.
    + destruct (IH sorted N) as [A B]. split; [assumption|]. intro x. rewrite B. simpl. split.
      * intros [H1 H2]. split; [assumption|]. intros [[<-|H3] H4]; [congruence | tauto].
      * intros [H1 H2]. split; [assumption|]. intros [H3 H4]. apply H2. split; [now right | assumption].
    + destruct (IH (remove_first tp_eqb k sorted)) as [A B]; [now apply (remove_first_NoDup tp_eqb tp_spec)|].
      split; [assumption|]. intro x. rewrite B, (remove_first_In_iff k x sorted N). simpl. split.
      * intros [[H1 H2] H3]. split; [assumption|]. intros [[H4|H4] H5]; [congruence | tauto].
      * intros [H1 H2]. split; [split; [assumption|]|].
        -- intros ->. apply H2. split; [now left | assumption].
        -- intros [H3 H4]. apply H2. split; [now right | assumption].
Qed.

(* with no reassignable partition performReassignments returns at once *)
Lemma perform_no_parts : forall fuel fx prev c2p p2c s performed,
  snd (perform fuel fx prev c2p p2c [] s performed) <> PerfPanic /\
  fst (fst (perform fuel fx prev c2p p2c [] s performed)) = s.
Proof.
  intros fuel fx prev c2p p2c s performed. destruct fuel as [|fuel]; cbn [perform reassign_pass]; split; simpl; congruence.
Qed.
