(* C08 — validity of the round-robin strategy's plan. *)
From Coq Require Import List ZArith Bool Lia Permutation.
From SV Require Import C08.Common C08.RoundRobin C08.Valid C08.ProofsBase C08.ProofsRange.
Import ListNotations.
Open Scope Z_scope.

Lemma has_topic_In : forall m t, has_topic m t = true <-> In t (m_topics m).
Proof. intros m t. unfold has_topic. apply (mem_In str_eqb str_spec). Qed.

Lemma nth_error_Some_lt : forall {A} (l : list A) k, (k < length l)%nat -> exists x, nth_error l k = Some x.
Proof.
  intros A l k H. destruct (nth_error l k) eqn:E; [now eexists|]. apply nth_error_None in E. lia.
Qed.

Section Seek.
  Variable ms : list member.
  Variable n : Z.
  Variable t : str.
  Hypothesis Hn : n = len ms.
  Hypothesis Hpos : 0 < n.

  Lemma rr_seek_some : forall fuel i, 0 <= i ->
    (exists d m, 0 <= d < Z.of_nat fuel /\ nth_error ms (Z.to_nat ((i + d) mod n)) = Some m /\ has_topic m t = true) ->
    exists i' m, rr_seek fuel ms n i t = Some (i', m) /\ In m ms /\ has_topic m t = true /\ i <= i'.
  Proof.
    induction fuel as [|fuel IH]; intros i Hi [d [m [Hd [Hnth Ht]]]]; [lia|].
    cbn [rr_seek].
    destruct (nth_error_Some_lt ms (Z.to_nat (i mod n))) as [m0 E0].
    { pose proof (Z.mod_pos_bound i n Hpos). unfold len in Hn. lia. }
    rewrite E0. destruct (has_topic m0 t) eqn:E1.
    - exists i, m0. split; [reflexivity|]. split; [eapply nth_error_In; eassumption|]. split; [assumption | lia].
    - assert (d <> 0).
      { intros ->. rewrite Z.add_0_r in Hnth. rewrite E0 in Hnth. injection Hnth as ->. congruence. }
      destruct (IH (i + 1)) as [i' [m' [A [B [C D]]]]]; [lia| |].
      + exists (d - 1), m. split; [lia|]. split; [|assumption]. now replace (i + 1 + (d - 1)) with (i + d) by lia.
      + exists i', m'. repeat split; auto. lia.
  Qed.

  Lemma rr_seek_exists : forall i mm, 0 <= i -> In mm ms -> has_topic mm t = true ->
    exists i' m, rr_seek (length ms) ms n i t = Some (i', m) /\ In m ms /\ has_topic m t = true /\ i <= i'.
  Proof.
    intros i mm Hi HI Ht. apply rr_seek_some; [assumption|].
    apply In_nth_error in HI as [k Hk].
    assert (Hlt : (k < length ms)%nat) by (apply nth_error_Some; congruence).
    exists ((Z.of_nat k - i) mod n), mm.
    pose proof (Z.mod_pos_bound (Z.of_nat k - i) n Hpos). unfold len in Hn. split; [lia|]. split; [|assumption].
    rewrite Z.add_mod_idemp_r by lia. replace (i + (Z.of_nat k - i)) with (Z.of_nat k) by lia.
    rewrite Z.mod_small by lia. now rewrite Nat2Z.id.
  Qed.
End Seek.

Lemma rr_loop_ok : forall ms n, n = len ms -> 0 < n ->
  forall tps i p, wf_plan p -> 0 <= i ->
  (forall x, In x tps -> exists mm, In mm ms /\ has_topic mm (fst x) = true) ->
  exists p' added, rr_loop ms n i tps p = RRPlan p' /\ wf_plan p' /\
    Permutation (triples p') (triples p ++ added) /\
    map proj_tp added = tps /\
    (forall x, In x added -> exists m, In m ms /\ m_id m = fst (fst x) /\ has_topic m (snd (fst x)) = true) /\
    (forall x, In x (map fst p') -> In x (map fst p) \/ In x (map m_id ms)).
Proof.
  intros ms n Hn Hpos. induction tps as [|x tps IH]; intros i p Wp Hi Hsub.
  - exists p, []. cbn [rr_loop]. split; [reflexivity|]. split; [exact Wp|]. split; [now rewrite app_nil_r|].
    split; [reflexivity|]. split; [intros y []|]. intros y Hy. now left.
  - cbn [rr_loop]. destruct (Hsub x (or_introl eq_refl)) as [mm [M1 M2]].
    destruct (rr_seek_exists ms n (fst x) Hn Hpos i mm Hi M1 M2) as [i' [m [E [A [B C]]]]].
    rewrite E.
    destruct (IH (i' + 1) (plan_add p (m_id m) (fst x) [snd x])) as [p' [added [E' [W [P [M [S K]]]]]]].
    + now apply plan_add_wf.
    + lia.
    + intros y Hy. apply Hsub. now right.
    + exists p', ((m_id m, fst x, snd x) :: added). split; [exact E'|]. split; [exact W|]. split; [|split; [|split]].
      * rewrite P, (plan_add_perm p (m_id m) (fst x) [snd x]). unfold entry. simpl. now rewrite <- app_assoc.
      * cbn [map]. rewrite M. unfold proj_tp. simpl. now destruct x.
      * intros y [<-|Hy]; [exists m; simpl; now repeat split | now apply S].
      * intros y Hy. apply K in Hy as [Hy|Hy]; [|now right].
        apply plan_add_keys in Hy as [->|Hy]; [right; apply in_map_iff; now exists m | now left].
Qed.

Theorem rr_valid : forall ms ts, wf_topics ts -> ms <> [] -> ts <> [] ->
  (forall t ps, In (t, ps) ts -> ps <> [] -> exists m, subscribes ms m t) ->
  exists p, rr_plan ms ts = RRPlan p /\ valid_plan ms ts p.
Proof.
  intros ms ts Wt Hm Ht Hsub. unfold rr_plan.
  destruct ms as [|m0 ms']; [congruence|]. destruct ts as [|t0 ts']; [congruence|].
  set (ms := m0 :: ms') in *. set (ts := t0 :: ts') in *.
  set (sorted := sort id_less ms).
  assert (Hin : forall m, In m sorted <-> In m ms) by (intro m; apply sort_In).
  assert (Hlen : 0 < len sorted).
  { unfold len, sorted. rewrite sort_length. unfold ms. simpl. lia. }
  destruct (rr_loop_ok sorted (len sorted) eq_refl Hlen (sort tp_less (all_tps ts)) 0 [] wf_plan_nil ltac:(lia))
    as [p [added [E [[W1 W2] [P [M [S K]]]]]]].
  { intros x Hx. apply sort_In in Hx. apply all_tps_In in Hx as [ps [H1 H2]].
    destruct (Hsub (fst x) ps H1) as [m [mm [I1 [I2 I3]]]]; [intro Hnil; now rewrite Hnil in H2|].
    exists mm. split; [now apply Hin | now apply has_topic_In]. }
  exists p. split; [exact E|]. simpl in P.
  assert (PA : Permutation (assigned p) (all_tps ts)).
  { transitivity (map proj_tp added); [unfold assigned; now apply Permutation_map|]. rewrite M. apply sort_perm. }
  constructor.
  - exact W1.
  - exact W2.
  - intros m Hmk. apply K in Hmk as [[]|Hmk]. apply in_map_iff in Hmk as [mm [<- Hmm]]. apply in_map_iff. exists mm. split; [reflexivity | now apply Hin].
  - intros m t q H. apply (Permutation_in _ P) in H. destruct (S _ H) as [mm [I1 [I2 I3]]]. simpl in I2, I3. split.
    + exists mm. split; [now apply Hin|]. split; [assumption | now apply has_topic_In].
    + assert (Hq : In (t, q) (all_tps ts)).
      { apply (Permutation_in _ PA). unfold assigned. apply in_map_iff. exists (m, t, q). split; [reflexivity|]. now apply (Permutation_in _ (Permutation_sym P)). }
      apply all_tps_In in Hq. exact Hq.
  - eapply Permutation_NoDup; [symmetry; exact PA | now apply all_tps_NoDup].
  - intros t q Hp _. apply (Permutation_in _ (Permutation_sym PA)). apply all_tps_In. exact Hp.
Qed.

(* the degenerate inputs are answered with an error *)
Lemma rr_error_iff : forall ms ts, rr_plan ms ts = RRError <-> ms = [] \/ ts = [].
Proof.
  intros ms ts. split.
  - intro H. destruct ms as [|m ms]; [now left|]. destruct ts as [|t ts]; [now right|].
    exfalso. unfold rr_plan in H. set (l := sort tp_less (all_tps (t :: ts))) in H. set (s := sort id_less (m :: ms)) in H.
    clearbody l s. generalize dependent (@nil (str * list (str * list Z))). generalize 0.
    induction l as [|x l IH]; intros i p H; cbn [rr_loop] in H; [discriminate|].
    destruct (rr_seek (length s) s (len s) i (fst x)) as [[i' mm]|]; [now apply IH in H | discriminate].
  - intros [-> | ->]; [reflexivity | now destruct ms].
Qed.

(* a topic with partitions that nobody subscribes to: the model reports that the real loop would not end *)
Lemma rr_seek_none : forall ms n t fuel i, (forall m, In m ms -> has_topic m t = false) -> rr_seek fuel ms n i t = None.
Proof.
  intros ms n t. induction fuel as [|fuel IH]; intros i H; cbn [rr_seek]; [reflexivity|].
  destruct (nth_error ms (Z.to_nat (i mod n))) as [m|] eqn:E; [|reflexivity].
  rewrite (H m) by (eapply nth_error_In; eassumption). now apply IH.
Qed.
