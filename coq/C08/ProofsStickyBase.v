(* C08 — sticky: facts about member -> partition-list maps (currentAssignment and friends). *)
From Coq Require Import List ZArith Bool Lia Permutation.
From SV Require Import C08.Common C08.RoundRobin C08.Sticky C08.Valid C08.ProofsBase.
Import ListNotations.
Open Scope Z_scope.

(* all partitions listed in a map, with multiplicity *)
Definition lists (ca : asg) : list tp := concat (map snd ca).

Lemma lists_app : forall a b, lists (a ++ b) = lists a ++ lists b.
Proof. intros. unfold lists. now rewrite map_app, concat_app. Qed.
Lemma lists_cons : forall m l a, lists ((m, l) :: a) = l ++ lists a.
Proof. reflexivity. Qed.

Lemma ca_get_aset_same : forall m l ca, ca_get (aset str_eqb m l ca) m = l.
Proof. intros. unfold ca_get. now rewrite (aget_aset_same str_eqb str_spec). Qed.
Lemma ca_get_aset_other : forall m m' l ca, m' <> m -> ca_get (aset str_eqb m l ca) m' = ca_get ca m'.
Proof. intros. unfold ca_get. now rewrite (aget_aset_other str_eqb str_spec). Qed.
Lemma ca_get_adel_same : forall m ca, ca_get (adel str_eqb m ca) m = [].
Proof. intros. unfold ca_get. now rewrite (aget_adel_same str_eqb str_spec). Qed.
Lemma ca_get_adel_other : forall m m' ca, m' <> m -> ca_get (adel str_eqb m ca) m' = ca_get ca m'.
Proof. intros. unfold ca_get. now rewrite (aget_adel_other str_eqb str_spec). Qed.
Lemma ca_get_notin : forall m ca, ~ In m (akeys ca) -> ca_get ca m = [].
Proof. intros m ca H. unfold ca_get. apply (aget_None str_eqb str_spec) in H. now rewrite H. Qed.
Lemma ca_get_nonempty_key : forall m ca, ca_get ca m <> [] -> In m (akeys ca).
Proof.
  intros m ca H. destruct (in_dec (eq_dec_of str_eqb str_spec) m (akeys ca)) as [I|I]; [assumption|].
  now rewrite ca_get_notin in H.
Qed.
Lemma ca_get_In_entry : forall m ca p, In p (ca_get ca m) -> exists l, In (m, l) ca /\ In p l.
Proof.
  intros m ca p H. unfold ca_get in H. destruct (aget str_eqb m ca) as [l|] eqn:E; [|contradiction].
  exists l. split; [now apply (aget_In str_eqb str_spec) | assumption].
Qed.
Lemma entry_ca_get : forall m l ca, NoDup (akeys ca) -> In (m, l) ca -> ca_get ca m = l.
Proof. intros m l ca N H. unfold ca_get. now rewrite (In_aget str_eqb str_spec m l ca N H). Qed.

Lemma In_lists : forall ca p, In p (lists ca) <-> exists m l, In (m, l) ca /\ In p l.
Proof.
  intros ca p. unfold lists. rewrite in_concat. split.
  - intros [l [H1 H2]]. apply in_map_iff in H1 as [[m l'] [E H1]]. simpl in E. subst. eauto.
  - intros [m [l [H1 H2]]]. exists l. split; [|assumption]. apply in_map_iff. now exists (m, l).
Qed.
Lemma ca_get_lists : forall ca m p, In p (ca_get ca m) -> In p (lists ca).
Proof. intros ca m p H. apply In_lists. destruct (ca_get_In_entry m ca p H) as [l [H1 H2]]. eauto. Qed.
Lemma lists_ca_get : forall ca p, NoDup (akeys ca) -> In p (lists ca) -> exists m, In m (akeys ca) /\ In p (ca_get ca m).
Proof.
  intros ca p N H. apply In_lists in H as [m [l [H1 H2]]]. exists m. split.
  - unfold akeys. apply in_map_iff. now exists (m, l).
  - now rewrite (entry_ca_get m l ca N H1).
Qed.

Lemma lists_split : forall m (ca : asg), NoDup (akeys ca) ->
  Permutation (lists ca) (ca_get ca m ++ lists (adel str_eqb m ca)).
Proof.
  intros m. induction ca as [|[k l] ca IH]; intro N; [reflexivity|].
  simpl in N. inversion N as [|? ? Hk Nr]; subst. cbn [adel]. unfold ca_get. cbn [aget].
  destruct (str_eqb m k) eqn:E.
  - apply str_eqb_eq in E. subst k. rewrite lists_cons. apply Permutation_app_head.
    assert (A : adel str_eqb m ca = ca).
    { clear - Hk. induction ca as [|[k' l'] ca IH]; [reflexivity|]. cbn [adel]. simpl in Hk.
      destruct (str_eqb m k') eqn:E; [apply str_eqb_eq in E; subst; tauto|]. f_equal. apply IH. tauto. }
    now rewrite A.
  - rewrite !lists_cons. fold (ca_get ca m). rewrite (IH Nr). rewrite !app_assoc. apply Permutation_app_tail. apply Permutation_app_comm.
Qed.

Lemma adel_aset : forall m l (ca : asg), adel str_eqb m (aset str_eqb m l ca) = adel str_eqb m ca.
Proof.
  intros m l. induction ca as [|[k v] ca IH]; cbn [aset adel].
  - now rewrite str_eqb_refl.
  - destruct (str_eqb m k) eqn:E; cbn [adel]; rewrite E; [reflexivity | now rewrite IH].
Qed.

Lemma lists_aset_split : forall m l (ca : asg), NoDup (akeys ca) ->
  Permutation (lists (aset str_eqb m l ca)) (l ++ lists (adel str_eqb m ca)).
Proof.
  intros m l ca N. rewrite (lists_split m (aset str_eqb m l ca)) by now apply (aset_NoDup str_eqb str_spec).
  now rewrite ca_get_aset_same, adel_aset.
Qed.

(* appending to one entry *)
Lemma lists_append : forall m l (ca : asg), NoDup (akeys ca) ->
  Permutation (lists (aset str_eqb m (ca_get ca m ++ l) ca)) (lists ca ++ l).
Proof.
  intros m l ca N. rewrite lists_aset_split by assumption. rewrite (lists_split m ca N).
  rewrite <- !app_assoc. apply Permutation_app_head. apply Permutation_app_comm.
Qed.

(* a partition listed once overall has one owner *)
Lemma owner_unique : forall (ca : asg) p m m', NoDup (akeys ca) -> NoDup (lists ca) ->
  In p (ca_get ca m) -> In p (ca_get ca m') -> m = m'.
Proof.
  intros ca p m m' N D H1 H2. destruct (eq_dec_of str_eqb str_spec m m') as [E|E]; [assumption|]. exfalso.
  pose proof (Permutation_NoDup (lists_split m ca N) D) as D'.
  apply NoDup_app_inv in D' as [_ [_ D']]. apply (D' p H1).
  rewrite <- (ca_get_adel_other m m' ca) in H2 by congruence. eapply ca_get_lists; eassumption.
Qed.

Lemma adel_lists_incl : forall m (ca : asg) p, In p (lists (adel str_eqb m ca)) -> In p (lists ca).
Proof.
  intros m ca p H. apply In_lists in H as [k [l [H1 H2]]]. apply In_lists. exists k, l. split; [|assumption].
  eapply adel_In; eassumption.
Qed.

Lemma NoDup_perm_app_swap : forall {A} (a b c : list A), NoDup (a ++ b ++ c) -> NoDup (b ++ a ++ c).
Proof.
  intros A a b c H. eapply Permutation_NoDup; [|exact H]. rewrite !app_assoc. apply Permutation_app_tail. apply Permutation_app_comm.
Qed.

Lemma akeys_map_fst : forall {V} (l : list (str * V)), akeys l = map fst l.
Proof. reflexivity. Qed.

Lemma cpc_get_aset_same : forall p m c, cpc_get (aset tp_eqb p m c) p = m.
Proof. intros. unfold cpc_get. now rewrite (aget_aset_same tp_eqb tp_spec). Qed.
Lemma cpc_get_aset_other : forall p q m c, q <> p -> cpc_get (aset tp_eqb p m c) q = cpc_get c q.
Proof. intros. unfold cpc_get. now rewrite (aget_aset_other tp_eqb tp_spec). Qed.
Lemma p2c_get_aset_same : forall p l c, p2c_get (aset tp_eqb p l c) p = l.
Proof. intros. unfold p2c_get. now rewrite (aget_aset_same tp_eqb tp_spec). Qed.
Lemma p2c_get_aset_other : forall p q l c, q <> p -> p2c_get (aset tp_eqb p l c) q = p2c_get c q.
Proof. intros. unfold p2c_get. now rewrite (aget_aset_other tp_eqb tp_spec). Qed.

(* sort_members lists the keys *)
Lemma sort_members_In : forall ca m, In m (sort_members ca) <-> In m (akeys ca).
Proof. intros. unfold sort_members. apply sort_In. Qed.
