(* C08 — sticky: a run of performReassignments without reverse-pair redirection lowers the sum of squared list sizes by
   at least 2 in every pass that modifies something; hence it returns within phi/2 + 1 passes.  Repaired code (fx = true). *)
From Coq Require Import List ZArith Bool Lia Permutation.
From SV Require Import C08.Common C08.RoundRobin C08.Sticky C08.StickyDirect C08.Valid C08.ProofsBase C08.ProofsStickyBase
  C08.ProofsStickyEnv C08.ProofsStickyKeep C08.ProofsStickyMove C08.ProofsStickySort C08.ProofsStickySorted C08.ProofsSticky.
Import ListNotations.
Open Scope Z_scope.

Lemma actual_partition_direct : forall mv picks p oldc newc, redirects mv p oldc newc = false ->
  actual_partition mv picks p oldc newc = (p, picks).
Proof.
  intros mv picks p oldc newc H. unfold redirects in H. unfold actual_partition.
  destruct (mov_topic_exists mv (fst p)); [|reflexivity]. cbn [negb andb] in *.
  destruct (mov_set mv (fst p) (newc, match aget tp_eqb p mv with Some pr => fst pr | None => oldc end)); [reflexivity | discriminate].
Qed.

Lemma phi_nonneg : forall ca, 0 <= phi ca.
Proof. induction ca as [|e r IH]; simpl; [lia|]. pose proof (len_nonneg (snd e)). nia. Qed.

Lemma phi_aset : forall k l (ca : asg), NoDup (akeys ca) -> In k (akeys ca) ->
  phi (aset str_eqb k l ca) = phi ca - len (ca_get ca k) * len (ca_get ca k) + len l * len l.
Proof.
  intros k l. induction ca as [|[k' l'] ca IH]; intros N H; [contradiction|].
  simpl in N. inversion N as [|? ? Hk Nr]; subst. cbn [aset]. unfold ca_get. cbn [aget].
  destruct (str_eqb k k') eqn:E.
  - cbn [phi snd]. lia.
  - cbn [phi snd]. fold (ca_get ca k). rewrite IH; [lia | assumption|].
    destruct H as [H|H]; [|assumption]. simpl in H. subst. now rewrite str_eqb_refl in E.
Qed.

Lemma len_remove_first : forall (q : tp) l, In q l -> len (remove_first tp_eqb q l) = len l - 1.
Proof.
  intros q. induction l as [|y l IH]; intro H; [contradiction|]. cbn [remove_first]. destruct (tp_eqb y q) eqn:E.
  - rewrite len_cons. lia.
  - destruct H as [->|H]; [now rewrite tp_eqb_refl in E|]. rewrite !len_cons, IH by assumption. lia.
Qed.

(* in a size-sorted list the first member that can take p is not bigger than any other that can *)
Lemma first_potential_min : forall ca c2p p l m oc, size_sorted ca l -> first_potential c2p p l = Some m ->
  In oc l -> mem tp_eqb p (ca_get c2p oc) = true -> len (ca_get ca m) <= len (ca_get ca oc).
Proof.
  intros ca c2p p. induction l as [|x l IH]; intros m oc S F Ho Hm; [contradiction|].
  cbn [first_potential] in F. destruct (mem tp_eqb p (ca_get c2p x)) eqn:E.
  - injection F as <-. pose proof (size_sorted_bounds ca l x S oc Ho). lia.
  - destruct Ho as [->|Ho]; [congruence|]. destruct S as [_ S]. eapply IH; eauto.
Qed.

Section Term.
  Variable ms : list member.
  Variable ts : topics_t.
  Variable c2p : asg.
  Variable p2c : p2c_t.
  Hypothesis Hc2p : forall m q, In q (ca_get c2p m) <-> pot ms ts m q.
  Hypothesis Hp2cg : forall q m, In m (p2c_get p2c q) <-> pot ms ts m q.
  Variable W : list str.
  Variable fixed : asg.
  Hypothesis NW : NoDup W.
  Hypothesis Hfx_nodup : NoDup (akeys fixed).
  Hypothesis Hfx_disj : forall m, In m (akeys fixed) -> ~ In m W.
  Hypothesis Hfx_prop : fixed_prop ms ts p2c fixed.
  Hypothesis Hpot_key : forall m q, pot ms ts m q -> In m W \/ In m (akeys fixed).

  Definition inv2 (s : st) : Prop := run_inv ms ts W fixed s /\ s_sorted s = sort_members (s_ca s).

  (* a direct reassignment from a bigger to a smaller member *)
  Lemma direct_move : forall s p newc, inv2 s -> In p (lists (s_ca s)) -> In newc W -> pot ms ts newc p ->
    len (ca_get (s_ca s) newc) + 1 < len (ca_get (s_ca s) (cpc_get (s_cpc s) p)) ->
    redirects (s_mov s) p (cpc_get (s_cpc s) p) newc = false ->
    inv2 (reassign_partition s p newc) /\ phi (s_ca (reassign_partition s p newc)) + 2 <= phi (s_ca s).
  Proof.
    intros s p newc [I Hs] Hp Hn Hpot Hlt Hd.
    assert (I' : run_inv ms ts W fixed (reassign_partition s p newc)).
    { eapply (reassign_partition_inv ms ts W fixed NW); eauto. }
    unfold reassign_partition in *. rewrite (actual_partition_direct _ _ _ _ _ Hd) in *.
    split; [split; [exact I' | reflexivity]|].
    unfold process_movement. cbn [s_ca s_cpc].
    set (oldc := cpc_get (s_cpc s) p) in *.
    assert (NK : NoDup (akeys (s_ca s))) by (rewrite (ri_keys ms ts W fixed s I); exact NW).
    destruct (lists_ca_get (s_ca s) p NK Hp) as [o [O1 O2]].
    assert (Eo : oldc = o) by (unfold oldc; now apply (ri_sound ms ts W fixed s I o p)). subst o.
    assert (Nn : newc <> oldc) by (intros ->; lia).
    assert (Hnk : In newc (akeys (s_ca s))) by now rewrite (ri_keys ms ts W fixed s I).
    set (L := ca_get (s_ca s) oldc) in *. set (M := ca_get (s_ca s) newc) in *.
    set (ca1 := aset str_eqb oldc (remove_first tp_eqb p L) (s_ca s)).
    assert (K1 : akeys ca1 = akeys (s_ca s)) by (unfold ca1; now apply (aset_keys_in str_eqb str_spec)).
    assert (G1 : ca_get ca1 newc = M) by (unfold ca1; now rewrite ca_get_aset_other).
    rewrite G1. rewrite (phi_aset newc (M ++ [p]) ca1) by (rewrite K1; assumption). rewrite G1.
    unfold ca1. rewrite (phi_aset oldc _ (s_ca s) NK O1). fold L.
    rewrite (len_remove_first p L O2). rewrite len_app. change (len [p]) with 1.
    fold M in Hlt. fold L in Hlt. generalize dependent (len L). generalize dependent (len M). intros b a Hlt. nia.
  Qed.

  Lemma pass_progress : forall prev parts s m s' m' e,
    reassign_pass true prev c2p p2c parts s m = (s', m', e) -> inv2 s ->
    pass_directb true prev c2p p2c parts s = true ->
    inv2 s' /\ phi (s_ca s') <= phi (s_ca s) /\ (m = false -> m' = true -> phi (s_ca s') + 2 <= phi (s_ca s)).
  Proof.
    intros prev. induction parts as [|p r IH]; intros s m s' m' e E I D; cbn [reassign_pass] in E; cbn [pass_directb] in D.
    - injection E as <- <- _. split; [assumption|]. split; [lia | congruence].
    - destruct (is_balanced (s_ca s) c2p) as [[|]|].
      1,3: injection E as <- <- _; split; [assumption|]; split; [lia | congruence].
      cbn [negb orb] in E, D.
      destruct I as [I Hs].
      destruct (match aget tp_eqb p prev with
                | Some (pm, _) =>
                    if mem str_eqb pm (p2c_get p2c p) && (len (ca_get (s_ca s) pm) + 1 <? len (ca_get (s_ca s) (cpc_get (s_cpc s) p)))
                    then Some pm else None
                | None => None end) as [pm|] eqn:Ev.
      + apply andb_true_iff in D as [D1 D2]. apply negb_true_iff in D1.
        destruct (aget tp_eqb p prev) as [[pm' g]|]; [|discriminate].
        destruct (mem str_eqb pm' (p2c_get p2c p) && (len (ca_get (s_ca s) pm') + 1 <? len (ca_get (s_ca s) (cpc_get (s_cpc s) p)))) eqn:Ec; [|discriminate].
        injection Ev as ->. apply andb_true_iff in Ec as [C1 C2]. apply (mem_In str_eqb str_spec) in C1. apply Hp2cg in C1. apply Z.ltb_lt in C2.
        assert (Hp : In p (lists (s_ca s))) by (eapply (owner_working ms ts W fixed Hfx_nodup Hfx_disj); eauto).
        assert (Hw : In pm W) by (eapply (potential_working ms ts p2c W fixed Hfx_prop Hpot_key); eauto).
        destruct (direct_move s p pm (conj I Hs) Hp Hw C1 C2 D1) as [I1 P1].
        destruct (IH _ _ _ _ _ E I1 D2) as [A [B _]]. split; [assumption|]. split; [lia | intros _ _; lia].
      + destruct (existsb (fun oc => len (ca_get (s_ca s) oc) + 1 <? len (ca_get (s_ca s) (cpc_get (s_cpc s) p))) (p2c_get p2c p)) eqn:Ex.
        * apply andb_true_iff in D as [D1 D2].
          apply existsb_exists in Ex as [oc [O1 O2]]. apply Hp2cg in O1. apply Z.ltb_lt in O2.
          assert (Hp : In p (lists (s_ca s))) by (eapply (owner_working ms ts W fixed Hfx_nodup Hfx_disj); eauto).
          assert (How : In oc W) by (eapply (potential_working ms ts p2c W fixed Hfx_prop Hpot_key); eauto).
          assert (Hos : In oc (s_sorted s)) by now apply (ri_sorted ms ts W fixed s I).
          unfold reassign_to_new in *.
          destruct (first_potential c2p p (s_sorted s)) as [m0|] eqn:Ef.
          -- apply negb_true_iff in D1.
             destruct (first_potential_some ms ts c2p Hc2p p (s_sorted s) m0 Ef) as [F1 F2].
             assert (Hm0 : In m0 W) by now apply (ri_sorted ms ts W fixed s I).
             assert (Hle : len (ca_get (s_ca s) m0) <= len (ca_get (s_ca s) oc)).
             { eapply (first_potential_min (s_ca s) c2p p (s_sorted s)); eauto.
               - rewrite Hs. apply size_sorted_sort.
               - apply (mem_In tp_eqb tp_spec). now apply Hc2p. }
             destruct (direct_move s p m0 (conj I Hs) Hp Hm0 F2 ltac:(lia) D1) as [I1 P1].
             destruct (IH _ _ _ _ _ E I1 D2) as [A [B _]]. split; [assumption|]. split; [lia | intros _ _; lia].
          -- exfalso. apply (first_potential_none ms ts c2p Hc2p p (s_sorted s) Ef oc Hos O1).
        * apply (IH _ _ _ _ _ E (conj I Hs) D).
  Qed.

  Lemma perform_terminates : forall prev parts fuel s pf,
    inv2 s -> perform_directb fuel true prev c2p p2c parts s = true ->
    phi (s_ca s) < 2 * Z.of_nat fuel ->
    snd (perform fuel true prev c2p p2c parts s pf) <> PerfFuel.
  Proof.
    intros prev parts. induction fuel as [|fuel IH]; intros s pf I D Hb.
    - pose proof (phi_nonneg (s_ca s)). lia.
    - cbn [perform]. cbn [perform_directb] in D. apply andb_true_iff in D as [D1 D2].
      destruct (reassign_pass true prev c2p p2c parts s false) as [[s1 m1] e1] eqn:Ep.
      destruct (pass_progress prev parts s false s1 m1 e1 Ep I D1) as [I1 [P1 P2]].
      destruct e1; [|simpl; destruct m1; discriminate].
      destruct m1; [|simpl; discriminate].
      apply IH; [assumption | assumption|]. specialize (P2 eq_refl eq_refl). lia.
  Qed.
End Term.

(* ---- Plan: a run without reverse-pair redirection returns within plan_bound passes ---- *)
Theorem sticky_terminates_direct : forall fuel o ms ts, wf_members ms -> wf_topics ts ->
  plan_directb fuel true o ms ts = true -> plan_bound o ms ts <= Z.of_nat fuel ->
  forall p, p_res (sticky_plan_full fuel true o ms ts) <> SFuel p.
Proof.
  intros fuel o ms ts Wm Wt D B p. unfold sticky_plan_full, plan_directb, plan_bound in *.
  destruct (sticky_prepare o ms ts) as [pr|] eqn:Ep; [|discriminate].
  destruct (sticky_prepare_ok o ms ts pr Wm Wt Ep) as [C1 C2 NW NF DJ FP KY ID RI PA PALL PS].
  assert (Hphi : phi (s_ca (pr_s0 pr)) < 2 * Z.of_nat fuel).
  { pose proof (Z.div_mod (phi (s_ca (pr_s0 pr))) 2 ltac:(lia)). pose proof (Z.mod_pos_bound (phi (s_ca (pr_s0 pr))) 2 ltac:(lia)). lia. }
  pose proof (perform_terminates ms ts (pr_c2p pr) (pr_p2c pr) C1 C2 (akeys (s_ca (pr_s0 pr))) (pr_fixed pr) NW NF DJ FP KY
                (pr_prev pr) (pr_parts pr) fuel (pr_s0 pr) false (conj RI PS) D Hphi) as T.
  unfold run_perform, sticky_finish, balance_finish.
  destruct (perform fuel true (pr_prev pr) (pr_c2p pr) (pr_p2c pr) (pr_parts pr) (pr_s0 pr) false) as [[s' pf] e].
  cbn [snd] in T. cbn [b_end p_res]. destruct e; try discriminate. congruence.
Qed.
