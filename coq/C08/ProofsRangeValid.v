(* C08 — validity of the range plan for all inputs below 2^31 entries, from the binary64 facts of ProofsFloat.v. *)
From Coq Require Import List ZArith Bool Lia.
From SV Require Import C08.Common C08.RangeFloat C08.Range C08.RoundRobin C08.Valid C08.ProofsBase C08.ProofsRange C08.ProofsFloat.
Import ListNotations.
Open Scope Z_scope.

Lemma bnd_ok_all : forall n m, 0 <= n < 2^31 -> 1 <= m < 2^31 -> bnd_ok n m.
Proof.
  intros n m Hn Hm. split; [now apply range_bnd_zero|]. split; [now apply range_bnd_last|].
  intros i Hi. apply range_bnd_mono; lia.
Qed.

Theorem range_valid : forall ms ts, wf_topics ts ->
  len (concat (map m_topics ms)) < 2^31 ->
  (forall t ps, In (t, ps) ts -> len ps < 2^31) ->
  exists p, range_plan ms ts = Some p /\ valid_plan ms ts p.
Proof.
  intros ms ts Wt Hm Hp. apply range_valid_given_bounds; [assumption|].
  intros t mids H. pose proof (mbt_sizes ms t mids H) as [S1 S2]. apply bnd_ok_all; [|lia].
  split; [apply len_nonneg|]. unfold topic_partitions. destruct (aget str_eqb t ts) as [ps|] eqn:E.
  - apply (Hp t). now apply (aget_In str_eqb str_spec).
  - unfold len. simpl. lia.
Qed.
