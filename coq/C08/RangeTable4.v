(* C08 — boundary table chunk: m = 41 .. 46, all n <= 300, by evaluation of the Flocq model. *)
From Coq Require Import List ZArith Bool.
From SV Require Import C08.RangeTable.
Lemma table_chunk_4 : table_chunk_ok 41 6 = true.
Proof. vm_compute. reflexivity. Qed.
