(* C08 — concrete witnesses: the pinned sticky code returns an invalid plan on stale user data (prev-owner defect),
   and the reassignment loop of the sticky strategy does not terminate on an honest input (with or without the
   repair); plus examples showing that the hypotheses of the validity theorems are satisfiable. *)
From Coq Require Import List ZArith Bool String Lia.
From SV Require Import C08.Common C08.Range C08.RoundRobin C08.Sticky C08.Valid C08.ProofsBase C08.ProofsSticky.
Import ListNotations.
Open Scope string_scope.
Open Scope list_scope.
Open Scope Z_scope.

Definition o_empty : oracle := Build_oracle [] [] [] [] [] [] [] [].
Definition tpn (t : string) (p : Z) : tp := (str_of t, p).

(* ---- prev-owner defect: c dropped topic t but still reports t/0 under an older generation ---- *)
Definition w1_members : list member := [
  Build_member (str_of "a") [str_of "t"] (UD [tpn "t" 0; tpn "t" 1; tpn "t" 2] (Some 2));
  Build_member (str_of "b") [str_of "t"] (UD [] (Some 0));
  Build_member (str_of "c") [str_of "u"] (UD [tpn "t" 0] (Some 1)) ].
Definition w1_topics : topics_t := [(str_of "t", [0; 1; 2]); (str_of "u", [0])].

Lemma w1_wf : wf_members w1_members /\ wf_topics w1_topics.
Proof.
  split.
  - apply (nodupb_NoDup str_eqb str_spec). vm_compute. reflexivity.
  - split; [apply (nodupb_NoDup str_eqb str_spec); vm_compute; reflexivity|].
    intros t ps [H|[H|[]]]; injection H as <- <-; apply (nodupb_NoDup Z.eqb Z_spec); reflexivity.
Qed.

Theorem sticky_refuted_prev_owner :
  exists fuel o ms ts p, wf_members ms /\ wf_topics ts /\ sticky_plan fuel false o ms ts = SOk p /\ ~ valid_plan ms ts p.
Proof.
  exists 10%nat, o_empty, w1_members, w1_topics.
  eexists. split; [apply w1_wf|]. split; [apply w1_wf|]. split; [vm_compute; reflexivity|].
  intro V. destruct V as [_ _ _ _ _ C].
  assert (H : In (str_of "t", 0) (assigned [(str_of "a", [(str_of "t", [2])]); (str_of "b", [(str_of "t", [1])]); (str_of "c", [(str_of "u", [0])])])).
  { apply C.
    - exists [0; 1; 2]. split; [now left | now left].
    - exists (str_of "a"). eexists. split; [now left|]. split; [reflexivity | now left]. }
  vm_compute in H. repeat (destruct H as [H|H]; [discriminate|]). exact H.
Qed.

(* the repaired code on the same input *)
Example sticky_prev_owner_repaired :
  exists p, sticky_plan 10 true o_empty w1_members w1_topics = SOk p /\ valid_planb w1_members w1_topics p = true.
Proof. eexists. split; vm_compute; reflexivity. Qed.

(* ---- livelock: a, e (topic t) and b, c (topic s) hold 6/5 and 3/2 partitions, d subscribing to both joins ---- *)
Definition w2_members : list member := [
  Build_member (str_of "a") [str_of "t"] (UD [tpn "t" 5; tpn "t" 6; tpn "t" 1; tpn "t" 2; tpn "t" 0; tpn "t" 10] (Some 3));
  Build_member (str_of "b") [str_of "s"] (UD [tpn "s" 3; tpn "s" 1; tpn "s" 2] (Some 3));
  Build_member (str_of "c") [str_of "s"] (UD [tpn "s" 4; tpn "s" 0] (Some 3));
  Build_member (str_of "d") [str_of "t"; str_of "s"] (UD [] (Some 0));
  Build_member (str_of "e") [str_of "t"] (UD [tpn "t" 9; tpn "t" 3; tpn "t" 4; tpn "t" 7; tpn "t" 8] (Some 3)) ].
Definition w2_topics : topics_t := [(str_of "s", [0; 1; 2; 3; 4]); (str_of "t", [0; 1; 2; 3; 4; 5; 6; 7; 8; 9; 10])].

Lemma w2_wf : wf_members w2_members /\ wf_topics w2_topics.
Proof.
  split.
  - apply (nodupb_NoDup str_eqb str_spec). vm_compute. reflexivity.
  - split; [apply (nodupb_NoDup str_eqb str_spec); vm_compute; reflexivity|].
    intros t ps [H|[H|[]]]; injection H as <- <-; apply (nodupb_NoDup Z.eqb Z_spec); reflexivity.
Qed.

Lemma perform_add : forall fx prev c2p p2c parts a b s pf,
  perform (a + b) fx prev c2p p2c parts s pf =
  match perform a fx prev c2p p2c parts s pf with
  | (s', pf', PerfFuel) => perform b fx prev c2p p2c parts s' pf'
  | r => r
  end.
Proof.
  intros fx prev c2p p2c parts. induction a as [|a IH]; intros b s pf; [reflexivity|].
  cbn [Nat.add perform].
  destruct (reassign_pass fx prev c2p p2c parts s false) as [[s' m] e]. destruct e, m; try reflexivity. apply IH.
Qed.

Lemma perform_fixpoint : forall fx prev c2p p2c parts s,
  reassign_pass fx prev c2p p2c parts s false = (s, true, PassDone) ->
  forall b pf, exists pf', perform b fx prev c2p p2c parts s pf = (s, pf', PerfFuel).
Proof.
  intros fx prev c2p p2c parts s H. induction b as [|b IH]; intro pf; cbn [perform].
  - now exists pf.
  - rewrite H. apply IH.
Qed.

(* a sufficient criterion for not returning: after k passes the run is in a state that a pass maps to itself while
   reporting a modification; from then on nothing ever changes *)
Theorem sticky_livelock_criterion : forall fx o ms ts pr k s pf,
  sticky_prepare o ms ts = Some pr ->
  run_perform k fx pr = (s, pf, PerfFuel) ->
  reassign_pass fx (pr_prev pr) (pr_c2p pr) (pr_p2c pr) (pr_parts pr) s false = (s, true, PassDone) ->
  forall fuel, (k <= fuel)%nat -> exists p, sticky_plan fuel fx o ms ts = SFuel p.
Proof.
  intros fx o ms ts pr k s pf Ep Ek Ecyc fuel Hf. unfold sticky_plan, sticky_plan_full. rewrite Ep.
  replace fuel with (k + (fuel - k))%nat by lia. unfold run_perform in *. rewrite perform_add, Ek.
  destruct (perform_fixpoint fx _ _ _ _ _ Ecyc (fuel - k)%nat pf) as [pf' E]. rewrite E.
  unfold sticky_finish, balance_finish. cbn [b_end p_res]. eauto.
Qed.

Definition w2_prep : option prep := Eval vm_compute in sticky_prepare o_empty w2_members w2_topics.
Lemma w2_prep_eq : sticky_prepare o_empty w2_members w2_topics = w2_prep.
Proof. vm_compute. reflexivity. Qed.

Definition w2_pr : prep := match w2_prep with Some pr => pr | None => Build_prep [] [] [] [] (Build_st [] [] [] [] []) [] false end.
(* the state after 8 passes; from there on every pass reports `modified` and changes nothing *)
Definition w2_star (fx : bool) : st := Eval vm_compute in fst (fst (run_perform 8 fx w2_pr)).

Lemma w2_reaches : forall fx, run_perform 8 fx w2_pr = (w2_star fx, true, PerfFuel).
Proof. intros [|]; vm_compute; reflexivity. Qed.
Lemma w2_cycle : forall fx,
  reassign_pass fx (pr_prev w2_pr) (pr_c2p w2_pr) (pr_p2c w2_pr) (pr_parts w2_pr) (w2_star fx) false = (w2_star fx, true, PassDone).
Proof. intros [|]; vm_compute; reflexivity. Qed.

Lemma w2_out_of_fuel : forall fx fuel, exists s pf, run_perform fuel fx w2_pr = (s, pf, PerfFuel).
Proof.
  intros fx fuel. destruct (Nat.le_gt_cases 8 fuel) as [H|H].
  - replace fuel with (8 + (fuel - 8))%nat by lia. unfold run_perform. rewrite perform_add.
    fold (run_perform 8 fx w2_pr). rewrite w2_reaches.
    destruct (perform_fixpoint fx _ _ _ _ _ (w2_cycle fx) (fuel - 8)%nat true) as [pf' E]. rewrite E. eauto.
  - do 8 (destruct fuel as [|fuel]; [destruct fx; vm_compute; eauto|]). lia.
Qed.

Lemma w2_always_fuel : forall fx fuel, exists p, sticky_plan fuel fx o_empty w2_members w2_topics = SFuel p.
Proof.
  intros fx fuel. unfold sticky_plan, sticky_plan_full. rewrite w2_prep_eq. unfold w2_prep.
  destruct (w2_out_of_fuel fx fuel) as [s [pf E]]. unfold w2_pr, w2_prep in E. rewrite E.
  unfold sticky_finish, balance_finish. cbn [b_end p_res]. eauto.
Qed.

(* for every fuel the model is still inside performReassignments: the real loop never ends *)
Theorem sticky_refuted_terminates :
  exists o ms ts, wf_members ms /\ wf_topics ts /\
    forall fx fuel, exists p, sticky_plan fuel fx o ms ts = SFuel p.
Proof.
  exists o_empty, w2_members, w2_topics. split; [apply w2_wf|]. split; [apply w2_wf|]. exact w2_always_fuel.
Qed.

Lemma w2_ud : forall mm, In mm w2_members -> m_ud mm <> UDErr.
Proof.
  intros mm Hm. unfold w2_members in Hm. simpl In in Hm. repeat (destruct Hm as [<-|Hm]; [cbn [m_ud]; discriminate|]). contradiction.
Qed.

Theorem sticky_full_statement_refuted : ~ sticky_full_statement.
Proof.
  intro H. unfold sticky_full_statement in H.
  destruct (H o_empty w2_members w2_topics (proj1 w2_wf) (proj2 w2_wf) w2_ud) as [fuel [p [E _]]].
  destruct (w2_always_fuel true fuel) as [p' E']. pose proof (eq_trans (eq_sym E') E) as X. discriminate X.
Qed.

(* ---- hypotheses of the validity theorems are satisfiable on non-trivial inputs ---- *)
Definition ex_members : list member := [
  Build_member (str_of "m1") [str_of "t"; str_of "u"] (UD [] (Some 0));
  Build_member (str_of "m2") [str_of "t"] (UD [] (Some 0));
  Build_member (str_of "m3") [str_of "u"; str_of "t"] (UD [] (Some 0)) ].
Definition ex_topics : topics_t := [(str_of "t", [0; 1; 2; 3; 4; 5; 6]); (str_of "u", [0; 1; 2])].

Example ex_wf : wf_members ex_members /\ wf_topics ex_topics /\ ex_members <> [] /\ ex_topics <> [] /\
  len (List.concat (map m_topics ex_members)) < 2 ^ 31 /\ (forall t ps, In (t, ps) ex_topics -> len ps < 2 ^ 31) /\
  (forall t ps, In (t, ps) ex_topics -> ps <> [] -> exists m, subscribes ex_members m t).
Proof.
  split; [apply (nodupb_NoDup str_eqb str_spec); vm_compute; reflexivity|].
  split. { split; [apply (nodupb_NoDup str_eqb str_spec); vm_compute; reflexivity|].
    intros t ps [H|[H|[]]]; injection H as <- <-; apply (nodupb_NoDup Z.eqb Z_spec); reflexivity. }
  split; [discriminate|]. split; [discriminate|]. split; [vm_compute; reflexivity|]. split.
  - intros t ps [H|[H|[]]]; injection H as <- <-; vm_compute; reflexivity.
  - intros t ps [H|[H|[]]] _; injection H as <- <-; exists (str_of "m1"); eexists; (split; [now left|]); (split; [reflexivity|]); simpl; auto.
Qed.
Example ex_range : exists p, range_plan ex_members ex_topics = Some p /\ valid_planb ex_members ex_topics p = true /\ len (triples p) = 10.
Proof. eexists. split; [vm_compute; reflexivity|]. split; vm_compute; reflexivity. Qed.
Example ex_rr : exists p, rr_plan ex_members ex_topics = RRPlan p /\ valid_planb ex_members ex_topics p = true /\ len (triples p) = 10.
Proof. eexists. split; [vm_compute; reflexivity|]. split; vm_compute; reflexivity. Qed.
Example ex_sticky : exists p, sticky_plan 10 true o_empty ex_members ex_topics = SOk p /\ valid_planb ex_members ex_topics p = true /\ len (triples p) = 10.
Proof. eexists. split; [vm_compute; reflexivity|]. split; vm_compute; reflexivity. Qed.
