(* C08 — sticky: sortMemberIDsByPartitionAssignments orders the members by the size of their lists. *)
From Coq Require Import List ZArith Bool Lia Permutation.
From SV Require Import C08.Common C08.RoundRobin C08.Sticky C08.ProofsBase C08.ProofsStickyBase.
Import ListNotations.
Open Scope Z_scope.

Lemma last_indep_nonempty : forall {A} (x : A) l d d', last (x :: l) d = last (x :: l) d'.
Proof.
  intros A x l. revert x. induction l as [|y l IH]; intros x d d'; [reflexivity|].
  change (last (x :: y :: l) d) with (last (y :: l) d). change (last (x :: y :: l) d') with (last (y :: l) d'). apply IH.
Qed.

Fixpoint size_sorted (ca : asg) (l : list str) : Prop :=
  match l with
  | [] => True
  | a :: r => (match r with [] => True | b :: _ => len (ca_get ca a) <= len (ca_get ca b) end) /\ size_sorted ca r
  end.
Lemma size_sorted_insert : forall ca x l, size_sorted ca l -> size_sorted ca (insert (member_less ca) x l).
Proof.
  intros ca x. induction l as [|y l IH]; intro H; [simpl; auto|]. cbn [insert].
  destruct (member_less ca y x) eqn:E.
  - destruct H as [H1 H2]. specialize (IH H2). cbn [size_sorted]. split; [|exact IH].
    assert (Hyx : len (ca_get ca y) <= len (ca_get ca x)).
    { unfold member_less in E. destruct (len (ca_get ca y) =? len (ca_get ca x)) eqn:E2; [apply Z.eqb_eq in E2; lia | apply Z.ltb_lt in E; lia]. }
    destruct l as [|z l]; cbn [insert]; [exact Hyx|]. destruct (member_less ca z x); [exact H1 | exact Hyx].
  - cbn [size_sorted]. split; [|exact H]. unfold member_less in E.
    destruct (len (ca_get ca y) =? len (ca_get ca x)) eqn:E2; [apply Z.eqb_eq in E2; lia | apply Z.ltb_ge in E; lia].
Qed.
Lemma size_sorted_sort : forall ca l, size_sorted ca (sort (member_less ca) l).
Proof. intros ca. induction l as [|x l IH]; [exact I|]. cbn [sort]. now apply size_sorted_insert. Qed.
Lemma size_sorted_bounds : forall ca l f, size_sorted ca (f :: l) ->
  forall m, In m (f :: l) -> len (ca_get ca f) <= len (ca_get ca m) <= len (ca_get ca (last (f :: l) f)).
Proof.
  intros ca. induction l as [|x l IH]; intros f H m Hm.
  - destruct Hm as [<-|[]]. simpl. lia.
  - destruct H as [H1 H2]. change (last (f :: x :: l) f) with (last (x :: l) f). rewrite (last_indep_nonempty x l f x).
    destruct Hm as [E|Hm].
    + subst m. specialize (IH x H2 x (or_introl eq_refl)). lia.
    + specialize (IH x H2 m Hm). lia.
Qed.

