(* C08 — boundary table chunk: m = 33 .. 40, all n <= 300, by evaluation of the Flocq model. *)
From Coq Require Import List ZArith Bool.
From SV Require Import C08.RangeTable.
Lemma table_chunk_3 : table_chunk_ok 33 8 = true.
Proof. vm_compute. reflexivity. Qed.
