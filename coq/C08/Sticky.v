(* C08/C13 — model of stickyBalanceStrategy.Plan and everything it calls (balance_strategy.go):
   prepopulateCurrentAssignments, sortPartitions, areSubscriptionsIdentical, balance, assignPartition,
   performReassignments, isBalanced, getBalanceScore, reassignPartition*, processPartitionMovement and
   partitionMovements.  No proofs here.

   Every Go map iteration whose order can influence the result takes an order oracle (record [oracle]); the
   theorems quantify over all oracles.  [fx] selects the repaired code (fixes/c08_sticky_prev_owner.patch):
   with [fx = false] the model is the pinned code.  The `for {}` loop of performReassignments runs on fuel. *)
From Coq Require Import List ZArith Bool.
From SV Require Import C08.Common C08.RoundRobin.
Import ListNotations.
Open Scope Z_scope.

Definition asg := list (str * list tp).                (* memberID -> partitions *)
Definition ca_get (ca : asg) (m : str) : list tp := match aget str_eqb m ca with Some l => l | None => [] end.
Definition cpc_t := list (tp * str).                   (* partition -> memberID *)
Definition cpc_get (c : cpc_t) (p : tp) : str := match aget tp_eqb p c with Some m => m | None => [] end.
Definition p2c_t := list (tp * list str).              (* partition -> potential consumers *)
Definition p2c_get (c : p2c_t) (p : tp) : list str := match aget tp_eqb p c with Some l => l | None => [] end.
Definition prev_t := list (tp * (str * Z)).            (* partition -> consumerGenerationPair *)
Definition mov_t := list (tp * (str * str)).           (* partitionMovements.Movements: partition -> (src, dst) *)

Record oracle := {
  o_prepop_members : list str;     (* prepopulateCurrentAssignments: range members *)
  o_prepop_parts : list tp;        (* prepopulateCurrentAssignments: range sortedPartitionConsumersByGeneration *)
  o_plan_current : list str;       (* Plan: range currentAssignment *)
  o_plan_unvisited : list tp;      (* Plan: range unvisitedPartitions *)
  o_ident_parts : list tp;         (* areSubscriptionsIdentical: range partition2AllPotentialConsumers *)
  o_ident_members : list str;      (* areSubscriptionsIdentical: range consumer2AllPotentialPartitions *)
  o_sort_unassigned : list tp;     (* sortPartitions: range unassignedPartitions *)
  o_picks : list tp                (* getTheActualPartitionToBeMoved: element the range over the reverse-pair set ends on, per call *)
}.

(* ---------------- prepopulateCurrentAssignments ---------------- *)
Definition gens_t := list (Z * str).                   (* generation -> memberID *)
Definition sp_t := list (tp * gens_t).                 (* sortedPartitionConsumersByGeneration *)

Definition prepop_part (mid : str) (gen : option Z) (sp : sp_t) (p : tp) : sp_t :=
  match aget tp_eqb p sp with
  | Some cs =>
    match gen with
    | Some g => if mem Z.eqb g (akeys cs) then sp else aset tp_eqb p (aset Z.eqb g mid cs) sp
    | None => aset tp_eqb p (aset Z.eqb (-1) mid cs) sp
    end
  | None => aset tp_eqb p [(match gen with Some g => g | None => -1 end, mid)] sp
  end.

(* first loop; None = a member's user data does not decode *)
Fixpoint prepop_members (ms : list member) (ids : list str) (sp : sp_t) : option sp_t :=
  match ids with
  | [] => Some sp
  | id :: r =>
    match find_member ms id with
    | None => prepop_members ms r sp
    | Some m =>
      match m_ud m with
      | UDErr => None
      | UD parts gen => prepop_members ms r (fold_left (prepop_part id gen) parts sp)
      end
    end
  end.

Definition gen_greater (a b : Z * str) : bool := fst b <? fst a.

(* second loop *)
Fixpoint prepop_assign (sp : sp_t) (keys : list tp) (ca : asg) (prev : prev_t) : asg * prev_t :=
  match keys with
  | [] => (ca, prev)
  | p :: r =>
    match sort gen_greater (match aget tp_eqb p sp with Some cs => cs | None => [] end) with
    | [] => prepop_assign sp r ca prev
    | (_, c) :: rest =>
      let ca' := aset str_eqb c (ca_get ca c ++ [p]) ca in
      match rest with
      | [] => prepop_assign sp r ca' prev
      | (g1, c1) :: _ => prepop_assign sp r ca' (aset tp_eqb p (c1, g1) prev)
      end
    end
  end.

Definition prepopulate (o : oracle) (ms : list member) : option (asg * prev_t) :=
  match prepop_members ms (order_by str_eqb (o_prepop_members o) (map m_id ms)) [] with
  | None => None
  | Some sp => Some (prepop_assign sp (order_by tp_eqb (o_prepop_parts o) (akeys sp)) [] [])
  end.

(* ---------------- potential consumers / partitions ---------------- *)
Fixpoint p2c_init (tps : list tp) : p2c_t := match tps with [] => [] | p :: r => (p, []) :: p2c_init r end.

Fixpoint pot_parts (c2p : asg) (p2c : p2c_t) (mid : str) (tps : list tp) : asg * p2c_t :=
  match tps with
  | [] => (c2p, p2c)
  | p :: r => pot_parts (aset str_eqb mid (ca_get c2p mid ++ [p]) c2p) (aset tp_eqb p (p2c_get p2c p ++ [mid]) p2c) mid r
  end.
Fixpoint pot_topics (ts : topics_t) (c2p : asg) (p2c : p2c_t) (mid : str) (subs : list str) : asg * p2c_t :=
  match subs with
  | [] => (c2p, p2c)
  | t :: r =>
    match aget str_eqb t ts with
    | None => pot_topics ts c2p p2c mid r
    | Some ps => let '(c2p', p2c') := pot_parts c2p p2c mid (expand_topic t ps) in pot_topics ts c2p' p2c' mid r
    end
  end.
Fixpoint pot_members (ts : topics_t) (ms : list member) (c2p : asg) (p2c : p2c_t) (ca : asg) : asg * p2c_t * asg :=
  match ms with
  | [] => (c2p, p2c, ca)
  | m :: r =>
    let '(c2p', p2c') := pot_topics ts (aset str_eqb (m_id m) [] c2p) p2c (m_id m) (m_topics m) in
    let ca' := match aget str_eqb (m_id m) ca with Some _ => ca | None => aset str_eqb (m_id m) [] ca end in
    pot_members ts r c2p' p2c' ca'
  end.

(* ---------------- Plan: keep valid prior ownership ---------------- *)
Record keep_st := { k_ca : asg; k_cpc : cpc_t; k_unvisited : list tp; k_unassigned : list tp }.

Fixpoint keep_parts (ms : list member) (p2c : p2c_t) (mid : str) (parts : list tp)
         (keep : list tp) (cpc : cpc_t) (unv una : list tp) : list tp * cpc_t * list tp * list tp :=
  match parts with
  | [] => (keep, cpc, unv, una)
  | p :: r =>
    match aget tp_eqb p p2c with
    | None => keep_parts ms p2c mid r keep cpc unv una
    | Some _ =>
      let unv' := filter (fun q => negb (tp_eqb q p)) unv in
      let cpc' := aset tp_eqb p mid cpc in
      if mem str_eqb (fst p) (topics_of ms mid)
      then keep_parts ms p2c mid r (keep ++ [p]) cpc' unv' una
      else keep_parts ms p2c mid r keep cpc' unv' (una ++ [p])
    end
  end.
Fixpoint keep_members (ms : list member) (p2c : p2c_t) (ids : list str) (s : keep_st) : keep_st :=
  match ids with
  | [] => s
  | id :: r =>
    let '(keep, cpc, unv, una) := keep_parts ms p2c id (ca_get (k_ca s) id) [] (k_cpc s) (k_unvisited s) (k_unassigned s) in
    keep_members ms p2c r {| k_ca := aset str_eqb id keep (k_ca s); k_cpc := cpc; k_unvisited := unv; k_unassigned := una |}
  end.

(* ---------------- sorting ---------------- *)
Definition member_less (ca : asg) (a b : str) : bool :=
  let la := len (ca_get ca a) in let lb := len (ca_get ca b) in
  if la =? lb then str_ltb a b else la <? lb.
(* sortMemberIDsByPartitionAssignments *)
Definition sort_members (ca : asg) : list str := sort (member_less ca) (akeys ca).

Definition part_less (p2c : p2c_t) (a b : tp) : bool :=
  let la := len (p2c_get p2c a) in let lb := len (p2c_get p2c b) in
  if la =? lb then
    match str_cmp (fst a) (fst b) with Eq => snd a <? snd b | Lt => true | Gt => false end
  else la <? lb.
(* sortPartitionsByPotentialConsumerAssignments *)
Definition sort_parts_by_potential (p2c : p2c_t) : list tp := sort (part_less p2c) (akeys p2c).

(* ---------------- areSubscriptionsIdentical ---------------- *)
Section Ident.
  Context {A : Type} (eqb : A -> A -> bool).
  Definition count_of (x : A) (l : list A) : Z := len (filter (eqb x) l).
  (* one of the two loops: [cur] is the reference multiset (distinct keys with counts = a list), empty until a
     non-empty value was seen *)
  Fixpoint ident_loop (cur : list A) (vals : list (list A)) : bool :=
    match vals with
    | [] => true
    | v :: r =>
      match cur with
      | [] => ident_loop v r
      | _ =>
        if negb (len (dedup_first eqb [] cur) =? len v) then false
        else if forallb (fun k => count_of k v =? count_of k cur) cur then ident_loop cur r else false
      end
    end.
End Ident.

Definition subscriptions_identical (o : oracle) (p2c : p2c_t) (c2p : asg) : bool :=
  ident_loop str_eqb [] (map (p2c_get p2c) (order_by tp_eqb (o_ident_parts o) (akeys p2c))) &&
  ident_loop tp_eqb [] (map (ca_get c2p) (order_by str_eqb (o_ident_members o) (akeys c2p))).

(* ---------------- sortPartitions ---------------- *)
(* assignmentPriorityQueue.Less: more assignments first, then the larger id; pq[0] is the least under Less *)
Definition pq_before (a b : str * list tp) : bool :=
  if len (snd a) =? len (snd b) then str_ltb (fst b) (fst a) else len (snd b) <? len (snd a).
Fixpoint pq_top (best : str * list tp) (l : list (str * list tp)) : str * list tp :=
  match l with
  | [] => best
  | x :: r => pq_top (if pq_before x best then x else best) r
  end.
Fixpoint remove_nth {A} (n : nat) (l : list A) : list A :=
  match n, l with
  | _, [] => []
  | O, _ :: r => r
  | S k, x :: r => x :: remove_nth k r
  end.
(* the `for { ... }` over the priority queue; fuel = total number of listed partitions *)
Fixpoint pq_loop (fuel : nat) (prev : prev_t) (asgs : asg) (acc : list tp) : list tp :=
  match fuel with
  | O => acc
  | S f =>
    match asgs with
    | [] => acc
    | x :: r =>
      let '(id, l) := pq_top x r in
      match l with
      | [] => acc               (* the top has nothing left: everybody is popped *)
      | _ =>
        let idx := match find_index (fun p => match aget tp_eqb p prev with Some _ => true | None => false end) l 0 with
                   | Some i => i | None => O end in
        pq_loop f prev (aset str_eqb id (remove_nth idx l) asgs) (acc ++ [nth idx l ([], 0)])
      end
    end
  end.
Definition total_len (a : asg) : nat := fold_right (fun x n => (length (snd x) + n)%nat) O a.
(* filterAssignedPartitions *)
Definition filter_assigned (ca : asg) (p2c : p2c_t) : asg :=
  map (fun x => (fst x, filter (fun p => match aget tp_eqb p p2c with Some _ => true | None => false end) (snd x))) ca.

Definition sort_partitions (o : oracle) (ca : asg) (prev : prev_t) (fresh : bool) (p2c : p2c_t) (c2p : asg) : list tp :=
  if negb fresh && subscriptions_identical o p2c c2p then
    let a := filter_assigned ca p2c in
    let s := pq_loop (total_len a) prev a [] in
    s ++ order_by tp_eqb (o_sort_unassigned o) (filter (fun p => negb (mem tp_eqb p s)) (akeys p2c))
  else sort_parts_by_potential p2c.

(* ---------------- balance score, isBalanced ---------------- *)
Fixpoint score_against (x : Z) (l : list Z) : Z := match l with [] => 0 | y :: r => Z.abs (x - y) + score_against x r end.
Fixpoint score_sizes (l : list Z) : Z := match l with [] => 0 | x :: r => score_against x r + score_sizes r end.
(* getBalanceScore *)
Definition balance_score (ca : asg) : Z := score_sizes (map (fun x => len (snd x)) ca).

(* allPartitions[partition] in isBalanced *)
Fixpoint owner_of (ca : asg) (p : tp) : str :=
  match ca with
  | [] => []
  | (m, l) :: r => if mem tp_eqb p l then m else owner_of r p
  end.
Definition balanced_member (ca c2p : asg) (m : str) : bool :=
  let cnt := len (ca_get ca m) in
  let pot := ca_get c2p m in
  if cnt =? len pot then true
  else forallb (fun p => if mem tp_eqb p (ca_get ca m) then true else negb (cnt <? len (ca_get ca (owner_of ca p)))) pot.
(* None = index out of range on an empty currentAssignment *)
Definition is_balanced (ca c2p : asg) : option bool :=
  let sorted := sort_members ca in
  match sorted with
  | [] => None
  | first :: _ =>
    let mn := len (ca_get ca first) in
    let mx := len (ca_get ca (last sorted first)) in
    if mx - 1 <=? mn then Some true else Some (forallb (balanced_member ca c2p) sorted)
  end.

(* ---------------- partitionMovements ---------------- *)
Definition pair_eqb (a b : str * str) : bool := str_eqb (fst a) (fst b) && str_eqb (snd a) (snd b).
(* PartitionMovementsByTopic[topic][pair] as a list *)
Definition mov_set (mv : mov_t) (topic : str) (pr : str * str) : list tp :=
  map fst (filter (fun x => str_eqb (fst (fst x)) topic && pair_eqb (snd x) pr) mv).
Definition mov_topic_exists (mv : mov_t) (topic : str) : bool := existsb (fun x => str_eqb (fst (fst x)) topic) mv.

(* movePartition *)
Definition move_partition (mv : mov_t) (p : tp) (oldc newc : str) : mov_t :=
  match aget tp_eqb p mv with
  | Some existing =>
    let mv' := adel tp_eqb p mv in
    if negb (str_eqb (fst existing) newc) then aset tp_eqb p (fst existing, newc) mv' else mv'
  | None => aset tp_eqb p (oldc, newc) mv
  end.

(* getTheActualPartitionToBeMoved; returns the partition and the remaining pick oracle *)
Definition actual_partition (mv : mov_t) (picks : list tp) (p : tp) (oldc newc : str) : tp * list tp :=
  if negb (mov_topic_exists mv (fst p)) then (p, picks) else
  let oldc' := match aget tp_eqb p mv with Some pr => fst pr | None => oldc end in
  match mov_set mv (fst p) (newc, oldc') with
  | [] => (p, picks)
  | x :: r =>
    match picks with
    | [] => (last r x, [])
    | q :: picks' => (if mem tp_eqb q (x :: r) then q else last r x, picks')
    end
  end.

(* ---------------- reassignment ---------------- *)
Record st := { s_ca : asg; s_cpc : cpc_t; s_mov : mov_t; s_sorted : list str; s_picks : list tp }.

(* processPartitionMovement *)
Definition process_movement (s : st) (p : tp) (newc : str) : st :=
  let oldc := cpc_get (s_cpc s) p in
  let mv := move_partition (s_mov s) p oldc newc in
  let ca1 := aset str_eqb oldc (remove_first tp_eqb p (ca_get (s_ca s) oldc)) (s_ca s) in
  let ca2 := aset str_eqb newc (ca_get ca1 newc ++ [p]) ca1 in
  {| s_ca := ca2; s_cpc := aset tp_eqb p newc (s_cpc s); s_mov := mv; s_sorted := sort_members ca2; s_picks := s_picks s |}.

(* reassignPartition *)
Definition reassign_partition (s : st) (p : tp) (newc : str) : st :=
  let consumer := cpc_get (s_cpc s) p in
  let '(q, picks) := actual_partition (s_mov s) (s_picks s) p consumer newc in
  process_movement {| s_ca := s_ca s; s_cpc := s_cpc s; s_mov := s_mov s; s_sorted := s_sorted s; s_picks := picks |} q newc.

(* reassignPartitionToNewConsumer *)
Fixpoint first_potential (c2p : asg) (p : tp) (l : list str) : option str :=
  match l with
  | [] => None
  | m :: r => if mem tp_eqb p (ca_get c2p m) then Some m else first_potential c2p p r
  end.
Definition reassign_to_new (c2p : asg) (s : st) (p : tp) : st :=
  match first_potential c2p p (s_sorted s) with
  | Some m => reassign_partition s p m
  | None => s
  end.

Inductive pass_end := PassDone | PassPanic.

(* one run of the inner `for _, partition := range reassignablePartitions`; the bool is `modified` *)
Fixpoint reassign_pass (fx : bool) (prev : prev_t) (c2p : asg) (p2c : p2c_t) (parts : list tp) (s : st) (modified : bool)
  : st * bool * pass_end :=
  match parts with
  | [] => (s, modified, PassDone)
  | p :: r =>
    match is_balanced (s_ca s) c2p with
    | None => (s, modified, PassPanic)
    | Some true => (s, modified, PassDone)
    | Some false =>
      let consumer := cpc_get (s_cpc s) p in
      let via_prev :=
        match aget tp_eqb p prev with
        | Some (pm, _) =>
          if (negb fx || mem str_eqb pm (p2c_get p2c p)) && (len (ca_get (s_ca s) pm) + 1 <? len (ca_get (s_ca s) consumer))
          then Some pm else None
        | None => None
        end in
      match via_prev with
      | Some pm => reassign_pass fx prev c2p p2c r (reassign_partition s p pm) true
      | None =>
        if existsb (fun oc => len (ca_get (s_ca s) oc) + 1 <? len (ca_get (s_ca s) consumer)) (p2c_get p2c p)
        then reassign_pass fx prev c2p p2c r (reassign_to_new c2p s p) true
        else reassign_pass fx prev c2p p2c r s modified
      end
    end
  end.

Inductive perform_end := PerfDone | PerfPanic | PerfFuel.

(* performReassignments; the bool is reassignmentPerformed *)
Fixpoint perform (fuel : nat) (fx : bool) (prev : prev_t) (c2p : asg) (p2c : p2c_t) (parts : list tp) (s : st) (performed : bool)
  : st * bool * perform_end :=
  match fuel with
  | O => (s, performed, PerfFuel)
  | S f =>
    match reassign_pass fx prev c2p p2c parts s false with
    | (s', _, PassPanic) => (s', performed, PerfPanic)
    | (s', true, PassDone) => perform f fx prev c2p p2c parts s' true
    | (s', false, PassDone) => (s', performed, PerfDone)
    end
  end.

(* ---------------- balance ---------------- *)
(* assignPartition *)
Definition assign_partition (c2p : asg) (ca : asg) (cpc : cpc_t) (sorted : list str) (p : tp) : asg * cpc_t * list str :=
  match first_potential c2p p sorted with
  | Some m => let ca' := aset str_eqb m (ca_get ca m ++ [p]) ca in (ca', aset tp_eqb p m cpc, sort_members ca')
  | None => (ca, cpc, sort_members ca)
  end.
Fixpoint assign_all (c2p : asg) (p2c : p2c_t) (una : list tp) (ca : asg) (cpc : cpc_t) (sorted : list str) : asg * cpc_t * list str :=
  match una with
  | [] => (ca, cpc, sorted)
  | p :: r =>
    match p2c_get p2c p with
    | [] => assign_all c2p p2c r ca cpc sorted
    | _ => let '(ca', cpc', sorted') := assign_partition c2p ca cpc sorted p in assign_all c2p p2c r ca' cpc' sorted'
    end
  end.

(* canTopicPartitionParticipateInReassignment *)
Definition part_can_participate (p2c : p2c_t) (p : tp) : bool := 2 <=? len (p2c_get p2c p).
(* canConsumerParticipateInReassignment *)
Definition member_can_participate (ca c2p : asg) (p2c : p2c_t) (m : str) : bool :=
  let cur := ca_get ca m in
  if len cur <? len (ca_get c2p m) then true else existsb (part_can_participate p2c) cur.

Fixpoint drop_nonparticipating (p2c : p2c_t) (keys : list tp) (sorted : list tp) : list tp :=
  match keys with
  | [] => sorted
  | p :: r => drop_nonparticipating p2c r (if part_can_participate p2c p then sorted else remove_first tp_eqb p sorted)
  end.
(* fixedAssignments *)
Fixpoint split_fixed (c2p : asg) (p2c : p2c_t) (ids : list str) (ca : asg) (fixed : asg) : asg * asg :=
  match ids with
  | [] => (ca, fixed)
  | m :: r =>
    if member_can_participate ca c2p p2c m then split_fixed c2p p2c r ca fixed
    else split_fixed c2p p2c r (adel str_eqb m ca) (aset str_eqb m (ca_get ca m) fixed)
  end.
Fixpoint add_back (fixed : asg) (ca : asg) : asg :=
  match fixed with
  | [] => ca
  | (m, l) :: r => add_back r (aset str_eqb m l ca)
  end.

Inductive sres := SErr | SPanic | SFuel (p : plan) | SOk (p : plan).

(* everything stickyBalanceStrategy.balance has computed when it calls performReassignments *)
Record prep := {
  pr_prev : prev_t; pr_c2p : asg; pr_p2c : p2c_t;
  pr_parts : list tp;        (* reassignable partitions *)
  pr_s0 : st;                (* working state: members subject to reassignment *)
  pr_fixed : asg;            (* fixedAssignments *)
  pr_initializing : bool }.

(* stickyBalanceStrategy.balance up to the call of performReassignments *)
Definition balance_prepare (o : oracle) (ca : asg) (prev : prev_t) (sortedp una : list tp)
           (sorted : list str) (c2p : asg) (p2c : p2c_t) (cpc : cpc_t) : prep :=
  let initializing := match sorted with [] => true | m :: _ => len (ca_get ca m) =? 0 end in
  let '(ca1, cpc1, sorted1) := assign_all c2p p2c una ca cpc sorted in
  let sortedp1 := drop_nonparticipating p2c (akeys p2c) sortedp in
  let '(ca2, fixed) := split_fixed c2p p2c (akeys c2p) ca1 [] in
  let sorted2 := match fixed with [] => sorted1 | _ => sort_members ca2 end in
  {| pr_prev := prev; pr_c2p := c2p; pr_p2c := p2c; pr_parts := sortedp1;
     pr_s0 := {| s_ca := ca2; s_cpc := cpc1; s_mov := []; s_sorted := sorted2; s_picks := o_picks o |};
     pr_fixed := fixed; pr_initializing := initializing |}.

Record bal_out := { b_ca : asg; b_end : perform_end; b_reverted : bool; b_performed : bool }.

(* the rest of balance; the result is the map the caller (Plan) holds afterwards: in the "revert" branch the local
   variable currentAssignment is rebound to a fresh copy, so neither the reverted state nor the fixed assignments
   added back afterwards reach the caller's map *)
Definition balance_finish (pr : prep) (res : st * bool * perform_end) : bal_out :=
  let '(s, performed, e) := res in
  let reverted := negb (pr_initializing pr) && performed &&
                  (balance_score (s_ca (pr_s0 pr)) <=? balance_score (s_ca s)) in
  {| b_ca := if reverted then s_ca s else add_back (pr_fixed pr) (s_ca s);
     b_end := e; b_reverted := reverted; b_performed := performed |}.

Definition run_perform (fuel : nat) (fx : bool) (pr : prep) : st * bool * perform_end :=
  perform fuel fx (pr_prev pr) (pr_c2p pr) (pr_p2c pr) (pr_parts pr) (pr_s0 pr) false.

(* ---------------- Plan ---------------- *)
Fixpoint plan_add_all (p : plan) (m : str) (l : list tp) : plan :=
  match l with
  | [] => p
  | x :: r => plan_add_all (plan_add p m (fst x) [snd x]) m r
  end.
Fixpoint assemble (ca : asg) (p : plan) : plan :=
  match ca with
  | [] => p
  | (m, l) :: r => assemble r (match l with [] => aset str_eqb m [] p | _ => plan_add_all p m l end)
  end.

(* p_reverted: the revert branch of balance() was taken; p_nfixed: number of members set aside as fixed *)
Record plan_out := { p_res : sres; p_reverted : bool; p_performed : bool; p_nfixed : Z }.

(* Plan up to the call of performReassignments; None = a member's user data does not decode *)
Definition sticky_prepare (o : oracle) (ms : list member) (ts : topics_t) : option prep :=
  match prepopulate o ms with
  | None => None
  | Some (ca0, prev) =>
    let fresh := match ca0 with [] => true | _ => false end in
    let '(c2p, p2c, ca1) := pot_members ts ms [] (p2c_init (all_tps ts)) ca0 in
    let k := keep_members ms p2c (order_by str_eqb (o_plan_current o) (akeys ca1))
               {| k_ca := ca1; k_cpc := []; k_unvisited := akeys p2c; k_unassigned := [] |} in
    let una := k_unassigned k ++ order_by tp_eqb (o_plan_unvisited o) (k_unvisited k) in
    let sortedp := sort_partitions o (k_ca k) prev fresh p2c c2p in
    Some (balance_prepare o (k_ca k) prev sortedp una (sort_members (k_ca k)) c2p p2c (k_cpc k))
  end.

Definition sticky_finish (pr : prep) (res : st * bool * perform_end) : plan_out :=
  let b := balance_finish pr res in
  let pl := assemble (b_ca b) [] in
  {| p_res := match b_end b with PerfDone => SOk pl | PerfPanic => SPanic | PerfFuel => SFuel pl end;
     p_reverted := b_reverted b; p_performed := b_performed b; p_nfixed := len (pr_fixed pr) |}.

Definition sticky_plan_full (fuel : nat) (fx : bool) (o : oracle) (ms : list member) (ts : topics_t) : plan_out :=
  match sticky_prepare o ms ts with
  | None => {| p_res := SErr; p_reverted := false; p_performed := false; p_nfixed := 0 |}
  | Some pr => sticky_finish pr (run_perform fuel fx pr)
  end.

Definition sticky_plan (fuel : nat) (fx : bool) (o : oracle) (ms : list member) (ts : topics_t) : sres :=
  p_res (sticky_plan_full fuel fx o ms ts).
