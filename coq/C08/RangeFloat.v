(* C08 — the range strategy's slice boundaries in IEEE-754 binary64 (Flocq), as computed by
     step := float64(n) / float64(m);  int(math.Floor(float64(i)*step + 0.5))
   in BalanceStrategyRange.coreFn.  No proofs here. *)
From Coq Require Import ZArith List.
From Flocq Require Import IEEE754.BinarySingleNaN IEEE754.Bits Core.
From SV Require Import C08.Common.
Import ListNotations.
Open Scope Z_scope.

Definition Hp53 : Prec_gt_0 53 := eq_refl.
Definition Hm1024 : Prec_lt_emax 53 1024 := eq_refl.
Definition b64 := binary_float 53 1024.
(* float64(z) for an integer *)
Definition b64_of_Z (z : Z) : b64 := binary_normalize 53 1024 Hp53 Hm1024 mode_NE z 0 false.
Definition b64_div (a b : b64) : b64 := @Bdiv 53 1024 Hp53 Hm1024 mode_NE a b.
Definition b64_mul (a b : b64) : b64 := @Bmult 53 1024 Hp53 Hm1024 mode_NE a b.
Definition b64_add (a b : b64) : b64 := @Bplus 53 1024 Hp53 Hm1024 mode_NE a b.
Definition b64_half : b64 := binary_normalize 53 1024 Hp53 Hm1024 mode_NE 1 (-1) false.
(* int(math.Floor(x)) for finite x of moderate size *)
Definition b64_floor (x : b64) : Z := Btrunc (@Bnearbyint 53 1024 Hm1024 mode_DN x).

Definition range_step (n m : Z) : b64 := b64_div (b64_of_Z n) (b64_of_Z m).
Definition range_bnd (step : b64) (i : Z) : Z := b64_floor (b64_add (b64_mul (b64_of_Z i) step) b64_half).
(* all m+1 boundaries for n partitions and m members *)
Definition range_bounds (n m : Z) : list Z := map (range_bnd (range_step n m)) (upto (Z.to_nat m + 1)).
