(* C02 — layer 2 of the invariant (retry levels: accepted messages only in the current worker, levels above the
   watermark come back in non-increasing order, lower levels are in front of the chaser covering them). *)
From Coq Require Import List Arith Bool Lia Sorted.
From SV Require Import C02.Model C02.Defs C02.Lemmas C02.Prims C02.Inv1.
Import ListNotations.

Ltac dI2 I := destruct I as [Kacc Klvls Khs Kho Kht Khm Kcu Kcd Kc2 Ks1].

(* ---------------------------------------------------------------- helpers *)
Definition hiu (h : nat) (l : list item) : list nat := map retries_of (filter (fun m => h <? retries_of m) l).
Definition hid (h : nat) (d : list (nat * nat)) : list nat := map (fun x => S (snd x)) (filter (fun x => h <=? snd x) d).
Lemma hi_up_eq s : hi_up s = hiu (hwm s) (q s ++ rq s). Proof. reflexivity. Qed.
Lemma hi_doom_eq s : hi_doom s = hid (hwm s) (doom (cur_bp s)). Proof. reflexivity. Qed.
Lemma hiu_app h a b : hiu h (a ++ b) = hiu h a ++ hiu h b.
Proof. unfold hiu. now rewrite filter_app, map_app. Qed.
Lemma hid_app h a b : hid h (a ++ b) = hid h a ++ hid h b.
Proof. unfold hid. now rewrite filter_app, map_app. Qed.
Lemma in_hiu h l v : In v (hiu h l) <-> exists m, In m l /\ retries_of m = v /\ h < v.
Proof.
  unfold hiu. rewrite in_map_iff. split.
  - intros (m & E & H). apply filter_In in H as [H1 H2]. apply Nat.ltb_lt in H2. exists m. subst. auto.
  - intros (m & H1 & E & H2). exists m. split; auto. apply filter_In. split; auto. apply Nat.ltb_lt. now subst.
Qed.
Lemma in_hid h d v : In v (hid h d) <-> exists x, In x d /\ S (snd x) = v /\ h <= snd x.
Proof.
  unfold hid. rewrite in_map_iff. split.
  - intros (x & E & H). apply filter_In in H as [H1 H2]. apply Nat.leb_le in H2. exists x. auto.
  - intros (x & H1 & E & H2). exists x. split; auto. apply filter_In. split; auto. now apply Nat.leb_le.
Qed.
Lemma hiu_nil h l : (forall m, In m l -> retries_of m <= h) -> hiu h l = [].
Proof.
  intros H. destruct (hiu h l) as [|v t] eqn:E; auto. exfalso.
  assert (In v (hiu h l)) by (rewrite E; now left). apply in_hiu in H0 as (m & Hm & <- & Hv). apply H in Hm. lia.
Qed.
Lemma hid_nil h d : (forall x, In x d -> snd x < h) -> hid h d = [].
Proof.
  intros H. destruct (hid h d) as [|v t] eqn:E; auto. exfalso.
  assert (In v (hid h d)) by (rewrite E; now left). apply in_hid in H0 as (x & Hx & _ & Hv). apply H in Hx. lia.
Qed.

Lemma noninc_nil : noninc []. Proof. constructor. Qed.
Lemma noninc_app a b : noninc (a ++ b) <-> noninc a /\ noninc b /\ forall x y, In x a -> In y b -> x >= y.
Proof.
  unfold noninc. induction a as [|x a IH]; simpl.
  - split; [intros H; repeat split; auto; [constructor|easy]|tauto].
  - split.
    + intros H. inversion H; subst. apply IH in H2 as (Sa & Sb & Hab).
      rewrite Forall_forall in H3. repeat split; auto.
      * constructor; auto. apply Forall_forall. intros y Hy. apply H3. apply in_or_app. auto.
      * intros x0 y [->|Hx] Hy; auto. apply H3. apply in_or_app. auto.
    + intros (Sa & Sb & Hab). inversion Sa; subst. constructor.
      * apply IH. repeat split; auto.
      * apply Forall_forall. intros y Hy. apply in_app_or in Hy as [Hy|Hy].
        -- rewrite Forall_forall in H2. auto.
        -- apply Hab; auto.
Qed.
Lemma noninc_sub l' l : noninc l -> sub l' l -> noninc l'.
Proof.
  unfold noninc. intros S H. induction H; auto.
  - inversion S; auto.
  - inversion S; subst. constructor; auto.
    rewrite Forall_forall in *. intros y Hy. apply H3. eapply sub_in; eauto.
Qed.
Lemma noninc_map_S l : noninc l -> noninc (map S l).
Proof.
  unfold noninc. induction 1; simpl; constructor; auto.
  rewrite Forall_forall in *. intros y Hy. apply in_map_iff in Hy as (z & <- & Hz). apply H0 in Hz. lia.
Qed.

Lemma sub_filter {A} (f : A -> bool) l : sub (filter f l) l.
Proof. induction l as [|x l IH]; simpl; [constructor|]. destruct (f x); [now apply sub_keep|now apply sub_skip]. Qed.
Lemma sub_map {A B} (f : A -> B) l' l : sub l' l -> sub (map f l') (map f l).
Proof. induction 1; simpl; [constructor|now apply sub_skip|now apply sub_keep]. Qed.
Lemma sub_filter_mono {A} (f : A -> bool) l' l : sub l' l -> sub (filter f l') (filter f l).
Proof.
  induction 1; simpl; [constructor| |].
  - destruct (f x); [now apply sub_skip|auto].
  - destruct (f x); [now apply sub_keep|auto].
Qed.
Lemma hiu_sub h l' l : sub l' l -> sub (hiu h l') (hiu h l).
Proof. intros H. unfold hiu. apply sub_map. now apply sub_filter_mono. Qed.
Lemma hid_sub h l' l : sub l' l -> sub (hid h l') (hid h l).
Proof. intros H. unfold hid. apply sub_map. now apply sub_filter_mono. Qed.
Lemma datas_sub l' l : sub l' l -> sub (datas l') (datas l).
Proof.
  induction 1; simpl; [constructor| |].
  - destruct x; auto. now apply sub_skip.
  - destruct x; auto. now apply sub_keep.
Qed.

(* two workers that hold the same things in the same order *)
Definition beq (x y : bpw) : Prop := pre x = pre y /\ inq x = inq y /\ rf x = rf y /\ cl x = cl y.
Lemma beq_refl x : beq x x. Proof. repeat split. Qed.
Lemma beq_acc x y : beq x y ->
  acc x = acc y /\ doom x = doom y /\ seg1 x = seg1 y /\ seg2 x = seg2 y /\ refusing x = refusing y /\
  tail_doomed x = tail_doomed y.
Proof.
  intros (E1 & E2 & E3 & E4). unfold acc, doom, seg1, seg2, refusing, tail_doomed, refusing. now rewrite E1, E2, E3, E4.
Qed.

Lemma cur_bp_eq s s' : cur s' = cur s -> (forall b, get_bp s' b = get_bp s b) -> cur_bp s' = cur_bp s.
Proof. intros E H. unfold cur_bp. rewrite E. destruct (cur s); auto. Qed.

(* Inv2 only looks at the queues, the watermark, the chaser flags, the current worker and what the workers hold *)
Lemma inv2_ext mx s s' :
  q s' ++ rq s' = q s ++ rq s -> hwm s' = hwm s -> (forall c, pend s' c <-> pend s c) -> cur s' = cur s ->
  (forall b, beq (get_bp s b) (get_bp s' b)) ->
  Inv2 mx s -> Inv2 mx s'.
Proof.
  intros Eu Eh Ep Ec Eb I. dI2 I.
  assert (B : forall b, acc (get_bp s' b) = acc (get_bp s b) /\ doom (get_bp s' b) = doom (get_bp s b) /\
              seg1 (get_bp s' b) = seg1 (get_bp s b) /\ seg2 (get_bp s' b) = seg2 (get_bp s b) /\
              refusing (get_bp s' b) = refusing (get_bp s b) /\ tail_doomed (get_bp s' b) = tail_doomed (get_bp s b) /\
              inq (get_bp s' b) = inq (get_bp s b) /\ cl (get_bp s' b) = cl (get_bp s b)).
  { intros b. destruct (beq_acc _ _ (Eb b)) as (A1 & A2 & A3 & A4 & A5 & A6). destruct (Eb b) as (_ & A7 & _ & A8).
    repeat split; auto. }
  assert (Cb : beq (cur_bp s) (cur_bp s')).
  { unfold cur_bp. rewrite Ec. destruct (cur s); [apply Eb|apply beq_refl]. }
  destruct (beq_acc _ _ Cb) as (C1 & C2 & _ & _ & _ & _). destruct Cb as (_ & C3 & _ & _).
  assert (Cv : forall v c, covers s' v c <-> covers s v c).
  { intros v c. unfold covers. rewrite Ep. split; intros (A & B' & C); repeat split; auto; intros c' H1 H2 H3; apply (C c' H1 H2); now apply Ep. }
  assert (Hu : hi_up s' = hi_up s) by (unfold hi_up; now rewrite Eu, Eh).
  assert (Hd : hi_doom s' = hi_doom s) by (unfold hi_doom; now rewrite Eh, <- C2).
  constructor.
  - intros b. destruct (B b) as (-> & _). rewrite Ec. apply Kacc.
  - rewrite <- C1, Eh. exact Klvls.
  - unfold hi_seq. now rewrite Hu, Hd.
  - intros b. rewrite Ec, Eh. destruct (B b) as (_ & -> & _). apply Kho.
  - unfold hi_seq. rewrite Hu, Hd, Ec. intros H. destruct (Kht H) as (b & E1 & E2). exists b. split; auto.
    destruct (B b) as (_ & _ & _ & _ & _ & -> & _). auto.
  - rewrite Hu, <- C3. exact Khm.
  - rewrite Eu, Eh. intros l1 i r l2 E Hr. destruct (Kcu l1 i r l2 E Hr) as (c & Hc & W). exists c. split; [now apply Cv|].
    destruct W as [W|(b & W)]; auto. right. exists b. destruct (B b) as (_ & _ & _ & _ & _ & _ & -> & _). auto.
  - intros b i r. rewrite Eh. destruct (B b) as (_ & _ & -> & _ & -> & _ & -> & _). intros H1 H2 H3.
    destruct (Kcd b i r H1 H2 H3) as (c & Y & Hc & E). exists c, Y. split; auto. now apply Cv.
  - intros b i r. rewrite Eh. destruct (B b) as (_ & _ & _ & -> & _ & _ & _ & ->). apply Kc2.
  - intros b. rewrite Eh. destruct (B b) as (_ & _ & -> & _ & _ & _ & -> & _). apply Ks1.
Qed.

(* ---------------------------------------------------------------- the way back: removals and additions *)

(* l' is l with some data messages removed *)
Inductive dsub : list item -> list item -> Prop :=
| dsub_nil : dsub [] []
| dsub_skip i r l' l : dsub l' l -> dsub l' (Data i r :: l)
| dsub_keep m l' l : dsub l' l -> dsub (m :: l') (m :: l).
Lemma dsub_refl l : dsub l l.
Proof. induction l; [constructor|now apply dsub_keep]. Qed.
Lemma dsub_sub l' l : dsub l' l -> sub l' l.
Proof. induction 1; [constructor|now apply sub_skip|now apply sub_keep]. Qed.
Lemma dsub_fin l' l c : dsub l' l -> In (Fin c) l -> In (Fin c) l'.
Proof.
  induction 1; simpl; auto.
  - intros [H0|H0]; [discriminate|auto].
  - intros [H0|H0]; auto.
Qed.
Lemma dsub_split l' l : dsub l' l -> forall l1' m l2', l' = l1' ++ m :: l2' ->
  exists l1 l2, l = l1 ++ m :: l2 /\ dsub l2' l2.
Proof.
  induction 1; intros l1' m0 l2' E.
  - destruct l1'; discriminate.
  - destruct (IHdsub _ _ _ E) as (l1 & l2 & -> & D). exists (Data i r :: l1), l2. auto.
  - destruct l1' as [|x l1']; simpl in E.
    + injection E as <- <-. exists [], l. auto.
    + injection E as <- E. destruct (IHdsub _ _ _ E) as (l1 & l2 & -> & D). exists (m :: l1), l2. auto.
Qed.
Lemma dsub_app a' a b' b : dsub a' a -> dsub b' b -> dsub (a' ++ b') (a ++ b).
Proof. induction 1; simpl; auto; intros; [apply dsub_skip|apply dsub_keep]; auto. Qed.
Lemma dsub_remove_nth l n i r : nth_error l n = Some (Data i r) -> dsub (remove_nth n l) l.
Proof.
  revert n. induction l as [|m l IH]; intros [|n]; simpl; try discriminate.
  - intros E. injection E as ->. apply dsub_skip, dsub_refl.
  - intros E. apply dsub_keep. eauto.
Qed.

Lemma sub_nil_inv {A} (l : list A) : sub l [] -> l = [].
Proof. intros H. inversion H. auto. Qed.

Lemma inv2_up_dsub mx s s' :
  dsub (q s' ++ rq s') (q s ++ rq s) -> hwm s' = hwm s -> (forall c, pend s' c <-> pend s c) -> cur s' = cur s ->
  (forall b, get_bp s' b = get_bp s b) ->
  Inv2 mx s -> Inv2 mx s'.
Proof.
  intros Du Eh Ep Ec Eb I. dI2 I.
  assert (Cv : forall v c, covers s' v c <-> covers s v c).
  { intros v c. unfold covers. rewrite Ep. split; intros (A & B' & C); repeat split; auto; intros c' H1 H2 H3; apply (C c' H1 H2); now apply Ep. }
  assert (Cb : cur_bp s' = cur_bp s) by now apply cur_bp_eq.
  assert (Hd : hi_doom s' = hi_doom s) by (unfold hi_doom; now rewrite Eh, Cb).
  assert (Hu : sub (hi_up s') (hi_up s)). { rewrite !hi_up_eq, Eh. apply hiu_sub. now apply dsub_sub. }
  constructor.
  - intros b. rewrite Eb, Ec. apply Kacc.
  - rewrite Cb, Eh. exact Klvls.
  - unfold hi_seq. rewrite Hd. eapply noninc_sub; [exact Khs|]. apply sub_app; auto. apply sub_refl.
  - intros b. rewrite Eb, Ec, Eh. apply Kho.
  - unfold hi_seq. rewrite Hd, Ec. intros H. destruct Kht as (b & E1 & E2).
    + intros E. apply app_eq_nil in E as [E1 E2]. rewrite E1 in Hu. apply sub_nil_inv in Hu. apply H. now rewrite Hu, E2.
    + exists b. rewrite Eb. auto.
  - rewrite Cb. intros H. apply Khm. intros E. rewrite E in Hu. apply sub_nil_inv in Hu. auto.
  - rewrite Eh. intros l1' i r l2' E Hr. destruct (dsub_split _ _ Du _ _ _ E) as (l1 & l2 & E' & D2).
    destruct (Kcu l1 i r l2 E' Hr) as (c & Hc & W). exists c. split; [now apply Cv|].
    destruct W as [W|(b & W)]; [left; eapply dsub_fin; eauto|right; exists b; now rewrite Eb].
  - intros b i r. rewrite Eh, Eb. intros H1 H2 H3.
    destruct (Kcd b i r H1 H2 H3) as (c & Y & Hc & E). exists c, Y. split; auto. now apply Cv.
  - intros b i r. rewrite Eh, Eb. apply Kc2.
  - intros b. rewrite Eh, Eb. apply Ks1.
Qed.

Lemma inv2_retry mx s : Inv2 mx s -> Inv2 mx (raw_step mx s CRetry).
Proof.
  intros I. simpl. destruct (rq s) as [|m r] eqn:E; auto.
  eapply inv2_up_dsub; [| | | | |exact I]; simpl; auto; try reflexivity.
  rewrite E, <- app_assoc. apply dsub_refl.
Qed.

Lemma inv2_failq mx s n : Inv2 mx s -> Inv2 mx (raw_step mx s (CFailQ n)).
Proof.
  intros I. simpl. destruct (nth_error (q s) n) as [[i r| |]|] eqn:E; auto.
  eapply inv2_up_dsub; [| | | | |exact I]; simpl; auto; try reflexivity.
  apply dsub_app; [|apply dsub_refl]. eapply dsub_remove_nth; eauto.
Qed.

Lemma inv2_pop_data mx s i r rest : q s = Data i r :: rest -> Inv2 mx s -> Inv2 mx (pop s).
Proof.
  intros E I. eapply inv2_up_dsub; [| | | | |exact I]; simpl; auto; try reflexivity.
  rewrite E. simpl. apply dsub_skip, dsub_refl.
Qed.

Lemma split_two {A} (x y : A) : forall l1 l2 a b, l1 ++ x :: l2 = a ++ y :: b ->
  (l1 = a /\ x = y /\ l2 = b) \/
  (exists a2, a = l1 ++ x :: a2 /\ l2 = a2 ++ y :: b) \/
  (exists b1, b = b1 ++ x :: l2 /\ l1 = a ++ y :: b1).
Proof.
  induction l1 as [|z l1 IH]; intros l2 a b E.
  - destruct a as [|w a]; simpl in E.
    + injection E as -> ->. auto.
    + injection E as -> ->. right. left. exists a. auto.
  - destruct a as [|w a]; simpl in E.
    + injection E as -> <-. right. right. exists l1. auto.
    + injection E as -> E. destruct (IH _ _ _ E) as [(-> & -> & ->)|[(a2 & -> & ->)|(b1 & -> & ->)]]; auto.
      * right. left. exists a2. auto.
      * right. right. exists b1. auto.
Qed.

Lemma inv2_submit mx s : Inv2 mx s -> Inv2 mx (raw_step mx s CSubmit).
Proof.
  intros I. dI2 I. simpl.
  set (s' := set_nxt (set_q s (q s ++ [Data (nxt s) 0])) (S (nxt s))).
  assert (Eu : q s' ++ rq s' = q s ++ Data (nxt s) 0 :: rq s) by (simpl; now rewrite <- app_assoc).
  assert (Hu : hi_up s' = hi_up s).
  { rewrite !hi_up_eq. change (hwm s') with (hwm s). rewrite Eu, !hiu_app. f_equal. }
  constructor; auto.
  - unfold hi_seq. now rewrite Hu.
  - unfold hi_seq. now rewrite Hu.
  - now rewrite Hu.
  - intros l1 i r l2 E Hr. simpl in E, Hr. rewrite <- app_assoc in E. simpl in E. symmetry in E.
    apply split_two in E as [(_ & E & _)|[(a2 & E1 & E2)|(b1 & E1 & E2)]]; try subst l2; try subst l1.
    + injection E as _ ->. lia.
    + destruct (Kcu l1 i r (a2 ++ rq s)) as (c & Hc & W); auto.
      { rewrite E1, <- app_assoc. reflexivity. }
      exists c. split; auto. destruct W as [W|W]; auto. left. rewrite in_app_iff in *. simpl. tauto.
    + destruct (Kcu (q s ++ b1) i r l2) as (c & Hc & W); auto.
      { rewrite E1, <- app_assoc. reflexivity. }
      exists c. split; [exact Hc|exact W].
Qed.

(* ---------------------------------------------------------------- broker-worker steps that do not move messages *)
Lemma beq_put s b y b' : b < length (bps s) -> beq (get_bp s b) y -> beq (get_bp s b') (get_bp (put_bp s b y) b').
Proof.
  intros Hb E. destruct (Nat.eq_dec b' b) as [->|N]; [now rewrite get_bp_put_same|rewrite get_bp_put_other by auto; apply beq_refl].
Qed.

Lemma inv2_flush mx s b : Inv2 mx s -> Inv2 mx (bp_flush s b).
Proof.
  intros I. unfold bp_flush. set (x := get_bp s b).
  destruct (snt x) eqn:Es; auto. destruct (Nat.ltb_spec b (length (bps s))) as [Hb|Hb]; auto.
  eapply inv2_ext; [| | | | |exact I]; try reflexivity.
  intros b'. apply (beq_put s b _ b' Hb). repeat split; auto. fold x.
  unfold pre, sent_items, wt_items. simpl. rewrite Es. destruct (wt x); simpl; now rewrite ?app_nil_r.
Qed.

Lemma inv2_answer mx s b v app : Inv2 mx s -> Inv2 mx (answer s b v app).
Proof.
  intros I. unfold answer. set (x := get_bp s b).
  destruct (snt x) as [[l [vb|]]|] eqn:Es; auto.
  destruct (Nat.lt_ge_cases b (length (bps s))) as [Hb|Hb].
  2:{ unfold x in Es. rewrite get_bp_default in Es by auto. discriminate. }
  assert (E : forall b', beq (get_bp s b') (get_bp (put_bp s b (with_snt x (Some (l, Some (v, length (log s)))))) b')).
  { intros b'. apply (beq_put s b _ b' Hb). repeat split; auto. fold x. unfold pre, sent_items, wt_items. simpl. now rewrite Es. }
  destruct (match v with VOk => true | _ => app end); (eapply inv2_ext; [| | | | |exact I]; try reflexivity; exact E).
Qed.

(* ---------------------------------------------------------------- one worker changes, nothing is bounced *)
Lemma cur_bp_put s b y : b < length (bps s) ->
  cur_bp (put_bp s b y) = if match cur s with Some c => c =? b | None => false end then y else cur_bp s.
Proof.
  intros Hb. unfold cur_bp. change (cur (put_bp s b y)) with (cur s). destruct (cur s) as [c|]; auto.
  destruct (Nat.eqb_spec c b) as [->|N]; [now rewrite get_bp_put_same|now rewrite get_bp_put_other].
Qed.

Lemma Forall_sub {A} (P : A -> Prop) l' l : sub l' l -> Forall P l -> Forall P l'.
Proof. intros S F. rewrite Forall_forall in *. intros x Hx. apply F. eapply sub_in; eauto. Qed.

Lemma inv2_bp_shrink' mx s b y : Inv2 mx s -> b < length (bps s) ->
  let x := get_bp s b in
  sub (acc y) (acc x) -> doom y = doom x -> (tail_doomed x = true -> tail_doomed y = true) ->
  (forall c, In (Fin c) (inq x) -> In (Fin c) (inq y)) ->
  (forall i r, refusing y = true -> In (i, r) (datas (seg1 y)) -> r < hwm s ->
     exists c Y, covers s (S r) c /\ inq y = pre_m (inq y) ++ Fin (c - 1) :: Y) ->
  (forall i r, cl y = true -> In (i, r) (datas (seg2 y)) -> hwm s <= r) ->
  (has_m (inq y) = true -> Forall (fun z => snd z < hwm s) (datas (seg1 y))) ->
  (hi_up s <> [] -> cur s = Some b -> has_m (inq y) = false) ->
  Inv2 mx (put_bp s b y).
Proof.
  intros I Hb x Sa Ed Et Ef Oa Ob Oc Od. dI2 I.
  set (s' := put_bp s b y).
  assert (G : forall b', b' <> b -> get_bp s' b' = get_bp s b') by (intros; now apply get_bp_put_other).
  assert (Gy : get_bp s' b = y) by now apply get_bp_put_same.
  assert (Cd : doom (cur_bp s') = doom (cur_bp s)).
  { unfold s'. rewrite cur_bp_put by auto. unfold cur_bp. destruct (cur s) as [c|]; auto.
    destruct (Nat.eqb_spec c b) as [->|N]; auto. }
  assert (Hd : hi_doom s' = hi_doom s) by (unfold hi_doom; now rewrite Cd).
  assert (Hu : hi_up s' = hi_up s) by reflexivity.
  assert (Cv : forall v c, covers s' v c <-> covers s v c) by (intros; reflexivity).
  constructor.
  - intros b'. destruct (Nat.eq_dec b' b) as [Eb|N]; [subst b'|]; [rewrite Gy|rewrite G by auto; apply Kacc].
    intros H. apply (Kacc b). fold x. intros E. rewrite E in Sa. apply sub_nil_inv in Sa. auto.
  - change (hwm s') with (hwm s). unfold s'. rewrite cur_bp_put by auto.
    destruct (match cur s with Some c => c =? b | None => false end) eqn:E; auto.
    assert (cur_bp s = x) as Ex. { unfold cur_bp. destruct (cur s); [|discriminate]. apply Nat.eqb_eq in E. now rewrite E. }
    rewrite Ex in Klvls. destruct Klvls as [K1 K2]. split.
    + eapply noninc_sub; [exact K1|]. now apply sub_map.
    + eapply Forall_sub; eauto.
  - unfold hi_seq. now rewrite Hd, Hu.
  - intros b'. destruct (Nat.eq_dec b' b) as [Eb|N]; [subst b'|]; [rewrite Gy, Ed|rewrite G by auto]; apply Kho.
  - unfold hi_seq. rewrite Hd, Hu. intros H. destruct (Kht H) as (b' & E1 & E2). exists b'. split; auto.
    destruct (Nat.eq_dec b' b) as [Eb|N]; [subst b'|]; [now rewrite Gy, Et|now rewrite G].
  - rewrite Hu. intros H. unfold s'. rewrite cur_bp_put by auto.
    destruct (match cur s with Some c => c =? b | None => false end) eqn:E; auto.
    apply Od; auto. destruct (cur s); [|discriminate]. apply Nat.eqb_eq in E. now rewrite E.
  - intros l1 i r l2 E Hr. destruct (Kcu l1 i r l2 E Hr) as (c & Hc & W). exists c. split; auto.
    destruct W as [W|(b' & W)]; auto. right. exists b'.
    destruct (Nat.eq_dec b' b) as [Eb|N]; [subst b'|]; [rewrite Gy; now apply Ef|now rewrite G].
  - intros b' i r. destruct (Nat.eq_dec b' b) as [Eb|N]; [subst b'|]; [rewrite Gy; apply Oa|rewrite G by auto; apply Kcd].
  - intros b' i r. destruct (Nat.eq_dec b' b) as [Eb|N]; [subst b'|]; [rewrite Gy; apply Ob|rewrite G by auto; apply Kc2].
  - intros b'. destruct (Nat.eq_dec b' b) as [Eb|N]; [subst b'|]; [rewrite Gy; apply Oc|rewrite G by auto; apply Ks1].
Qed.

Lemma inv2_bp_shrink mx s b y : Inv2 mx s -> b < length (bps s) ->
  let x := get_bp s b in
  sub (acc y) (acc x) -> doom y = doom x -> tail_doomed y = tail_doomed x ->
  (forall c, In (Fin c) (inq x) -> In (Fin c) (inq y)) ->
  (forall i r, refusing y = true -> In (i, r) (datas (seg1 y)) -> r < hwm s ->
     exists c Y, covers s (S r) c /\ inq y = pre_m (inq y) ++ Fin (c - 1) :: Y) ->
  (forall i r, cl y = true -> In (i, r) (datas (seg2 y)) -> hwm s <= r) ->
  (has_m (inq y) = true -> Forall (fun z => snd z < hwm s) (datas (seg1 y))) ->
  (hi_up s <> [] -> cur s = Some b -> has_m (inq y) = false) ->
  Inv2 mx (put_bp s b y).
Proof. intros I Hb x Sa Ed Et. apply inv2_bp_shrink'; auto. intros H. now rewrite Et. Qed.


(* ---------------------------------------------------------------- the run loop reads its input *)
Lemma healthy_cl x : refusing x = false -> cl x = false /\ rf x = false.
Proof. unfold refusing. intros H. apply orb_false_iff in H. tauto. Qed.

(* the run loop accepts a data message *)
Lemma inv2_recv_accept mx s b i0 r0 rest y (keep : bool) :
  Inv1 mx s -> Inv2 mx s -> b < length (bps s) ->
  let x := get_bp s b in
  inq x = Data i0 r0 :: rest -> refusing x = false ->
  inq y = rest -> rf y = rf x -> cl y = cl x ->
  pre y = pre x ++ (if keep then [Data i0 r0] else []) ->
  Inv2 mx (put_bp s b y).
Proof.
  intros I1 I2 Hb x Ei Rx Eiy Erf Ecl Ep. pose proof I2 as I2'. dI2 I2'. dI1 I1.
  assert (Ry : refusing y = false) by (unfold refusing in *; now rewrite Erf, Ecl).
  destruct (acc_doom_healthy x Rx) as [Ax Dx]. destruct (acc_doom_healthy y Ry) as [Ay Dy].
  apply inv2_bp_shrink; auto; fold x.
  - rewrite Ax, Ay, Ep, Eiy, Ei. rewrite <- app_assoc. apply datas_sub. apply sub_app; [apply sub_refl|].
    destruct keep; simpl; [apply sub_refl|apply sub_skip, sub_refl].
  - now rewrite Dx, Dy.
  - unfold tail_doomed. rewrite Eiy, Ei, Ecl, Ry, Rx. reflexivity.
  - rewrite Eiy, Ei. intros c [H|H]; [discriminate|auto].
  - intros i r H. congruence.
  - intros i r H. destruct (healthy_cl _ Ry). congruence.
  - rewrite Eiy. intros H. exfalso. assert (H2 : has_m (inq x) = true) by (rewrite Ei; exact H).
    pose proof (Hmarked b H2 Rx) as D. fold x in D. unfold seg1 in D. rewrite Ei in D. simpl in D. rewrite datas_app in D.
    apply app_eq_nil in D as [_ D]. discriminate.
  - intros H Ec. rewrite Eiy. specialize (Khm H). unfold cur_bp in Khm. rewrite Ec in Khm. fold x in Khm. rewrite Ei in Khm. exact Khm.
Qed.

Lemma inv2_recv_syn mx s b rest :
  Inv1 mx s -> Inv2 mx s -> b < length (bps s) ->
  let x := get_bp s b in
  inq x = Syn :: rest ->
  Inv2 mx (put_bp s b (with_rf (with_inq x rest) false)).
Proof.
  intros I1 I2 Hb x Ei. pose proof I2 as I2'. dI2 I2'. dI1 I1.
  set (y := with_rf (with_inq x rest) false).
  assert (Nr : nomark rest) by (apply (Hspos b [] rest); exact Ei).
  assert (Py : pre y = pre x) by reflexivity.
  assert (Px : refusing x = true -> pre x = []) by apply Hpref.
  assert (S1x : seg1 x = pre x) by (unfold seg1; rewrite Ei; simpl; now rewrite app_nil_r).
  assert (S2x : seg2 x = rest) by (unfold seg2; now rewrite Ei).
  assert (S1y : seg1 y = pre x ++ rest) by (unfold seg1, y; simpl; now rewrite (pre_m_nomark _ Nr)).
  assert (S2y : seg2 y = []) by (unfold seg2, y; simpl; now apply post_m_nomark).
  assert (Ry : refusing y = cl x) by reflexivity.
  assert (AD : acc y = acc x /\ doom y = doom x).
  { unfold acc, doom. rewrite S1x, S2x, S1y, S2y, Ry. change (cl y) with (cl x).
    destruct (cl x) eqn:C.
    - rewrite (refusing_cl x C). rewrite Px by (now apply refusing_cl). simpl. now rewrite app_nil_r.
    - destruct (refusing x) eqn:R; simpl; rewrite ?app_nil_r, ?datas_app; auto. rewrite Px; auto. }
  destruct AD as [Ay Dy].
  apply inv2_bp_shrink; auto; fold x; fold y.
  - rewrite Ay. apply sub_refl.
  - unfold tail_doomed. rewrite Ei. change (inq y) with rest. apply nomark_has_m in Nr. rewrite Nr. simpl. exact Ry.
  - rewrite Ei. intros c [H|H]; [discriminate|exact H].
  - intros i r R H Hr. exfalso. rewrite Ry in R. rewrite S1y, Px in H by (now apply refusing_cl). simpl in H.
    assert (hwm s <= r); [|lia]. apply (Kc2 b i r R). fold x. now rewrite S2x.
  - intros i r _. rewrite S2y. intros [].
  - change (inq y) with rest. apply nomark_has_m in Nr. rewrite Nr. discriminate.
  - intros _ _. change (inq y) with rest. now apply nomark_has_m.
Qed.

(* ---------------------------------------------------------------- one worker changes and bounces at most one item *)
Lemma hiu_single h m : hiu h [m] = if h <? retries_of m then [retries_of m] else [].
Proof. unfold hiu. simpl. destruct (h <? retries_of m); reflexivity. Qed.

Lemma inv2_bp_step' mx s b y ex : Inv2 mx s -> b < length (bps s) ->
  let x := get_bp s b in let s' := put_bp (set_rq s (rq s ++ ex)) b y in
  (length ex <= 1) ->
  sub (acc y) (acc x) -> sub (doom y) (doom x) -> (tail_doomed x = true -> tail_doomed y = true) ->
  sub (hi_seq s') (hi_seq s) ->
  (cur s <> Some b -> hiu (hwm s) ex = []) ->
  (hi_up s' <> [] -> cur s = Some b -> has_m (inq y) = false) ->
  (forall i r, In (Data i r) ex -> 1 <= r <= hwm s -> exists c, covers s r c /\ In (Fin (c - 1)) (inq y)) ->
  (forall c, In (Fin c) (inq x) -> In (Fin c) (inq y) \/ In (Fin (S c)) ex) ->
  (forall i r, refusing y = true -> In (i, r) (datas (seg1 y)) -> r < hwm s ->
     exists c Y, covers s (S r) c /\ inq y = pre_m (inq y) ++ Fin (c - 1) :: Y) ->
  (forall i r, cl y = true -> In (i, r) (datas (seg2 y)) -> hwm s <= r) ->
  (has_m (inq y) = true -> Forall (fun z => snd z < hwm s) (datas (seg1 y))) ->
  Inv2 mx s'.
Proof.
  intros I Hb x s' Lex Sa Sd Et Sh Oh Od Oe Ef Oa Ob Oc. dI2 I.
  assert (G : forall b', b' <> b -> get_bp s' b' = get_bp s b') by (intros; unfold s'; rewrite get_bp_put_other by auto; reflexivity).
  assert (Gy : get_bp s' b = y) by (apply get_bp_put_same; exact Hb).
  assert (Cb : cur_bp s' = if match cur s with Some c => c =? b | None => false end then y else cur_bp s).
  { unfold s'. rewrite cur_bp_put by exact Hb. reflexivity. }
  assert (Hu : hi_up s' = hi_up s ++ hiu (hwm s) ex).
  { rewrite !hi_up_eq. change (hwm s') with (hwm s). change (q s' ++ rq s') with (q s ++ rq s ++ ex).
    now rewrite app_assoc, hiu_app. }
  constructor.
  - intros b'. destruct (Nat.eq_dec b' b) as [Eb|N]; [subst b'; rewrite Gy|rewrite G by auto; apply Kacc].
    intros H. apply (Kacc b). fold x. intros E. rewrite E in Sa. apply sub_nil_inv in Sa. auto.
  - change (hwm s') with (hwm s). rewrite Cb.
    destruct (match cur s with Some c => c =? b | None => false end) eqn:E; auto.
    assert (cur_bp s = x) as Ex. { unfold cur_bp. destruct (cur s); [|discriminate]. apply Nat.eqb_eq in E. now rewrite E. }
    rewrite Ex in Klvls. destruct Klvls as [K1 K2]. split.
    + eapply noninc_sub; [exact K1|]. now apply sub_map.
    + eapply Forall_sub; eauto.
  - eapply noninc_sub; eauto.
  - intros b'. change (cur s') with (cur s). change (hwm s') with (hwm s).
    destruct (Nat.eq_dec b' b) as [Eb|N]; [subst b'; rewrite Gy|rewrite G by auto; apply Kho].
    intros H. eapply Forall_sub; [exact Sd|]. now apply Kho.
  - intros H. change (cur s') with (cur s). destruct Kht as (b' & E1 & E2).
    { intros E. rewrite E in Sh. apply sub_nil_inv in Sh. auto. }
    exists b'. split; auto. destruct (Nat.eq_dec b' b) as [Eb|N]; [subst b'; rewrite Gy; now apply Et|now rewrite G].
  - intros H. rewrite Cb. destruct (match cur s with Some c => c =? b | None => false end) eqn:E.
    + apply Od; auto. destruct (cur s); [|discriminate]. apply Nat.eqb_eq in E. now rewrite E.
    + apply Khm. rewrite Hu in H. rewrite Oh in H; [now rewrite app_nil_r in H|].
      intros Ec. rewrite Ec, Nat.eqb_refl in E. discriminate.
  - change (hwm s') with (hwm s). change (q s' ++ rq s') with (q s ++ rq s ++ ex). intros l1 i r l2 E Hr.
    assert (Wt : forall c, covers s r c -> (In (Fin c) l2 \/ exists b', In (Fin (c - 1)) (inq (get_bp s b'))) ->
                 1 <= c -> (forall z, In z l2 -> In z l2) ->
                 (In (Fin c) l2 \/ In (Fin c) ex) \/ exists b', In (Fin (c - 1)) (inq (get_bp s' b'))).
    { intros c Hc [W|(b' & W)] Hc1 _; auto. destruct (Nat.eq_dec b' b) as [Eb|N]; [subst b'|right; exists b'; now rewrite G].
      fold x in W. apply Ef in W as [W|W]; [right; exists b; now rewrite Gy|].
      left. right. replace (S (c - 1)) with c in W by lia. exact W. }
    destruct ex as [|e [|e2 ex]]; [| |simpl in Lex; lia].
    + rewrite app_nil_r in E. destruct (Kcu l1 i r l2 E Hr) as (c & Hc & W). exists c. split; [exact Hc|].
      assert (1 <= c) by (destruct Hc; lia).
      destruct (Wt c Hc W) as [[W'|[]]|W']; auto.
    + rewrite app_assoc in E. symmetry in E. apply split_two in E as [(E1 & E2 & E3)|[(a2 & E1 & E2)|(b1 & E1 & E2)]].
      * subst e l2. destruct (Oe i r) as (c & Hc & W); [now left|exact Hr|].
        exists c. split; [exact Hc|]. right. exists b. now rewrite Gy.
      * subst l2. destruct (Kcu l1 i r a2) as (c & Hc & W); [now rewrite E1|exact Hr|].
        exists c. split; [exact Hc|]. assert (1 <= c) by (destruct Hc; lia).
        destruct W as [W|(b' & W)].
        -- left. apply in_or_app. now left.
        -- destruct (Nat.eq_dec b' b) as [Eb|N]; [subst b'|right; exists b'; now rewrite G].
           fold x in W. apply Ef in W as [W|W]; [right; exists b; now rewrite Gy|].
           left. apply in_or_app. right. replace (S (c - 1)) with c in W by lia. exact W.
      * destruct b1; discriminate.
  - intros b' i r. change (hwm s') with (hwm s).
    destruct (Nat.eq_dec b' b) as [Eb|N]; [subst b'; rewrite Gy; apply Oa|rewrite G by auto; apply Kcd].
  - intros b' i r. change (hwm s') with (hwm s).
    destruct (Nat.eq_dec b' b) as [Eb|N]; [subst b'; rewrite Gy; apply Ob|rewrite G by auto; apply Kc2].
  - intros b'. change (hwm s') with (hwm s).
    destruct (Nat.eq_dec b' b) as [Eb|N]; [subst b'; rewrite Gy; apply Oc|rewrite G by auto; apply Ks1].
Qed.

Lemma inv2_bp_step mx s b y ex : Inv2 mx s -> b < length (bps s) ->
  let x := get_bp s b in let s' := put_bp (set_rq s (rq s ++ ex)) b y in
  (length ex <= 1) ->
  sub (acc y) (acc x) -> sub (doom y) (doom x) -> tail_doomed y = tail_doomed x ->
  sub (hi_seq s') (hi_seq s) ->
  (cur s <> Some b -> hiu (hwm s) ex = []) ->
  (hi_up s' <> [] -> cur s = Some b -> has_m (inq y) = false) ->
  (forall i r, In (Data i r) ex -> 1 <= r <= hwm s -> exists c, covers s r c /\ In (Fin (c - 1)) (inq y)) ->
  (forall c, In (Fin c) (inq x) -> In (Fin c) (inq y) \/ In (Fin (S c)) ex) ->
  (forall i r, refusing y = true -> In (i, r) (datas (seg1 y)) -> r < hwm s ->
     exists c Y, covers s (S r) c /\ inq y = pre_m (inq y) ++ Fin (c - 1) :: Y) ->
  (forall i r, cl y = true -> In (i, r) (datas (seg2 y)) -> hwm s <= r) ->
  (has_m (inq y) = true -> Forall (fun z => snd z < hwm s) (datas (seg1 y))) ->
  Inv2 mx s'.
Proof. intros I Hb x s' Lex Sa Sd Et. apply inv2_bp_step'; auto. intros H. now rewrite Et. Qed.


Lemma bounce1_len mx m : length (bounce1 mx m) <= 1.
Proof. unfold bounce1. destruct m; simpl; auto; destruct (mx <=? r); simpl; auto. Qed.

Lemma hid_cons h x d : hid h (x :: d) = (if h <=? snd x then [S (snd x)] else []) ++ hid h d.
Proof. unfold hid. simpl. destruct (h <=? snd x); reflexivity. Qed.

Lemma cur_bp_put_rq s r b y : b < length (bps s) ->
  cur_bp (put_bp (set_rq s r) b y) = if match cur s with Some c => c =? b | None => false end then y else cur_bp s.
Proof. intros Hb. exact (cur_bp_put (set_rq s r) b y Hb). Qed.

Lemma inv2_recv_bounce_data mx s b i0 r0 rest :
  Inv1 mx s -> Inv2 mx s -> b < length (bps s) ->
  let x := get_bp s b in
  inq x = Data i0 r0 :: rest -> refusing x = true ->
  Inv2 mx (put_bp (set_rq s (rq s ++ bounce1 mx (Data i0 r0))) b (with_inq x rest)).
Proof.
  intros I1 I2 Hb x Ei Rx. pose proof I2 as I2'. dI2 I2'. dI1 I1.
  set (y := with_inq x rest).
  assert (Px : pre x = []) by (apply Hpref; exact Rx).
  assert (Py : pre y = []) by exact Px.
  assert (Ry : refusing y = true) by exact Rx.
  assert (S1 : seg1 x = Data i0 r0 :: seg1 y).
  { unfold seg1. rewrite Py, Px, Ei. reflexivity. }
  assert (S2 : seg2 x = seg2 y) by (unfold seg2; rewrite Ei; reflexivity).
  assert (Ax : acc y = acc x).
  { unfold acc. rewrite Ry, Rx, S2. reflexivity. }
  assert (Dx : doom x = (i0, r0) :: doom y).
  { unfold doom. rewrite Ry, Rx, S1, S2. reflexivity. }
  assert (Hm : has_m (inq y) = has_m (inq x)) by (rewrite Ei; reflexivity).
  assert (Ex : bounce1 mx (Data i0 r0) = [] \/ bounce1 mx (Data i0 r0) = [Data i0 (S r0)]).
  { unfold bounce1. destruct (mx <=? r0); auto. }
  assert (Hx : sub (hiu (hwm s) (bounce1 mx (Data i0 r0))) (if hwm s <=? r0 then [S r0] else [])).
  { destruct Ex as [-> | ->]; [apply sub_nil_l|]. rewrite hiu_single. simpl.
    change (hwm s <? S r0) with (hwm s <=? r0). apply sub_refl. }
  assert (Lo : cur s <> Some b -> r0 < hwm s).
  { intros N. specialize (Kho b N). fold x in Kho. rewrite Dx in Kho. inversion Kho; subst. exact H1. }
  apply inv2_bp_step; auto; fold x; fold y.
  - apply bounce1_len.
  - rewrite Ax. apply sub_refl.
  - rewrite Dx. apply sub_skip, sub_refl.
  - unfold tail_doomed. now rewrite Hm.
  - unfold hi_seq. rewrite !hi_up_eq, !hi_doom_eq.
    set (s' := put_bp (set_rq s (rq s ++ bounce1 mx (Data i0 r0))) b y).
    change (hwm s') with (hwm s). change (q s' ++ rq s') with (q s ++ rq s ++ bounce1 mx (Data i0 r0)).
    rewrite app_assoc, hiu_app, <- app_assoc. apply sub_app; [apply sub_refl|].
    unfold s'. rewrite cur_bp_put_rq by exact Hb.
    destruct (match cur s with Some c => c =? b | None => false end) eqn:E.
    + assert (cur_bp s = x) as ->. { unfold cur_bp. destruct (cur s); [|discriminate]. apply Nat.eqb_eq in E. now rewrite E. }
      rewrite Dx, hid_cons. simpl snd. apply sub_app; [exact Hx|apply sub_refl].
    + assert (N : cur s <> Some b). { intros Ec. rewrite Ec, Nat.eqb_refl in E. discriminate. }
      apply Lo in N. apply Nat.leb_gt in N. rewrite N in Hx. apply sub_nil_inv in Hx. rewrite Hx. apply sub_refl.
  - intros N. apply Lo in N. apply Nat.leb_gt in N. rewrite N in Hx. now apply sub_nil_inv in Hx.
  - intros H Ec. rewrite Hm. destruct (has_m (inq x)) eqn:M; auto. exfalso.
    specialize (Ks1 b M). fold x in Ks1. rewrite S1 in Ks1. simpl in Ks1. inversion Ks1; subst. simpl in H2.
    apply Nat.leb_gt in H2. rewrite H2 in Hx. apply sub_nil_inv in Hx.
    set (s' := put_bp (set_rq s (rq s ++ bounce1 mx (Data i0 r0))) b y) in *.
    rewrite hi_up_eq in H. change (hwm s') with (hwm s) in H. change (q s' ++ rq s') with (q s ++ rq s ++ bounce1 mx (Data i0 r0)) in H.
    rewrite app_assoc, hiu_app, Hx, app_nil_r in H. specialize (Khm H). unfold cur_bp in Khm. rewrite Ec in Khm. fold x in Khm. congruence.
  - intros i r Hi Hr. destruct Ex as [E|E]; rewrite E in Hi; [destruct Hi|]. destruct Hi as [Hi|[]]. injection Hi as <- <-.
    destruct (Kcd b i0 r0) as (c & Y & Hc & EY); auto.
    { fold x. rewrite S1. now left. } { lia. }
    exists c. split; auto. fold x in EY. rewrite Ei in EY. simpl in EY. injection EY as EY.
    change (inq y) with rest. rewrite EY. apply in_or_app. right. now left.
  - intros c. rewrite Ei. intros [H|H]; [discriminate|now left].
  - intros i r _ Hi Hr. destruct (Kcd b i r) as (c & Y & Hc & EY); auto.
    { fold x. rewrite S1. simpl. now right. }
    exists c, Y. split; auto. fold x in EY. rewrite Ei in EY. simpl in EY. injection EY as EY. exact EY.
  - intros i r C. rewrite <- S2. apply Kc2. exact C.
  - rewrite Hm. intros M. specialize (Ks1 b M). fold x in Ks1. rewrite S1 in Ks1. simpl in Ks1. now inversion Ks1.
Qed.

Lemma inv2_recv_bounce_fin mx s b r0 rest :
  Inv1 mx s -> Inv2 mx s -> b < length (bps s) ->
  let x := get_bp s b in
  inq x = Fin r0 :: rest ->
  Inv2 mx (put_bp (set_rq s (rq s ++ bounce1 mx (Fin r0))) b
             (if negb (cl x) && is_fin (Fin r0) then with_rf (with_inq x rest) false else with_inq x rest)).
Proof.
  intros I1 I2 Hb x Ei. pose proof I2 as I2'. dI2 I2'. dI1 I1.
  destruct (Htpos b [] r0 rest Ei) as (_ & Rx & T). fold x in Rx.
  assert (Px : pre x = []) by (apply Hpref; exact Rx).
  assert (Pr : pend s (S r0)). { apply (Htin b). fold x. rewrite Ei. now left. }
  assert (Hr0 : S r0 <= hwm s) by (apply Hchs in Pr; lia).
  assert (Ex : bounce1 mx (Fin r0) = [Fin (S r0)]).
  { unfold bounce1. destruct (Nat.leb_spec mx r0); auto. lia. }
  rewrite Ex.
  set (y := if negb (cl x) && is_fin (Fin r0) then with_rf (with_inq x rest) false else with_inq x rest).
  assert (Ey : pre y = [] /\ inq y = rest /\ cl y = cl x /\ refusing y = cl x).
  { unfold y. destruct (cl x) eqn:C; simpl; repeat split; auto; unfold refusing; simpl; rewrite ?C; auto using orb_true_r. }
  destruct Ey as (Py & Iy & Cy & Ry).
  assert (S1x : seg1 x = []) by (unfold seg1; rewrite Px, Ei; reflexivity).
  assert (S2x : seg2 x = rest) by (unfold seg2; rewrite Ei; reflexivity).
  assert (Rs : datas (seg1 y) = [] /\ datas (seg2 y) = datas rest).
  { unfold seg1, seg2. rewrite Py, Iy. destruct T as [[-> _]|(Y' & ->)]; simpl; auto. }
  destruct Rs as [S1y S2y].
  assert (AD : acc y = acc x /\ doom y = doom x).
  { unfold acc, doom. rewrite Rx, Ry, Cy, S1x, S1y, S2y, S2x. destruct (cl x); simpl; auto. }
  destruct AD as [Ay Dy].
  assert (Hu : hiu (hwm s) [Fin (S r0)] = []).
  { rewrite hiu_single. simpl. apply Nat.ltb_ge in Hr0. now rewrite Hr0. }
  assert (Tx : tail_doomed x = cl x) by (unfold tail_doomed; rewrite Ei; reflexivity).
  assert (Ty : tail_doomed y = cl x).
  { unfold tail_doomed. rewrite Iy, Cy, Ry. now destruct (has_m rest). }
  apply inv2_bp_step; auto; fold x; fold y.
  - rewrite Ay. apply sub_refl.
  - rewrite Dy. apply sub_refl.
  - now rewrite Tx, Ty.
  - unfold hi_seq. rewrite !hi_up_eq, !hi_doom_eq.
    set (s' := put_bp (set_rq s (rq s ++ [Fin (S r0)])) b y).
    change (hwm s') with (hwm s). change (q s' ++ rq s') with (q s ++ rq s ++ [Fin (S r0)]).
    rewrite app_assoc, hiu_app, Hu, app_nil_r. apply sub_app; [apply sub_refl|].
    unfold s'. rewrite cur_bp_put_rq by exact Hb.
    destruct (match cur s with Some c => c =? b | None => false end) eqn:E; [|apply sub_refl].
    assert (cur_bp s = x) as ->. { unfold cur_bp. destruct (cur s); [|discriminate]. apply Nat.eqb_eq in E. now rewrite E. }
    rewrite Dy. apply sub_refl.
  - intros H Ec. exfalso.
    set (s' := put_bp (set_rq s (rq s ++ [Fin (S r0)])) b y) in *.
    rewrite hi_up_eq in H. change (hwm s') with (hwm s) in H. change (q s' ++ rq s') with (q s ++ rq s ++ [Fin (S r0)]) in H.
    rewrite app_assoc, hiu_app, Hu, app_nil_r in H. specialize (Khm H). unfold cur_bp in Khm. rewrite Ec in Khm. fold x in Khm.
    rewrite Ei in Khm. discriminate.
  - intros i r [H|[]]. discriminate.
  - intros c. rewrite Ei, Iy. intros [H|H]; [injection H as <-; right; now left|now left].
  - intros i r _. rewrite S1y. intros [].
  - intros i r C. rewrite S2y. intros H. apply (Kc2 b i r); fold x; [now rewrite <- Cy|now rewrite S2x].
  - intros _. rewrite S1y. constructor.
Qed.

Lemma inv2_recv mx s b d : Inv1 mx s -> Inv2 mx s -> Inv2 mx (bp_recv mx s b d).
Proof.
  intros I1 I2. unfold bp_recv. set (x := get_bp s b).
  destruct (wt x) eqn:Ew; auto. destruct (inq x) as [|m rest] eqn:Ei; auto.
  destruct (Nat.lt_ge_cases b (length (bps s))) as [Hb|Hb].
  2:{ unfold x in Ei. rewrite get_bp_default in Ei by auto. discriminate. }
  cbv zeta. destruct m as [i r|r|].
  - destruct (refusing x) eqn:Rx.
    + simpl negb. rewrite andb_false_r.
      exact (inv2_recv_bounce_data mx s b i r rest I1 I2 Hb Ei Rx).
    + assert (Pw : wt_items x = []) by (unfold wt_items; now rewrite Ew).
      destruct d as [|[|d]].
      * apply (inv2_recv_accept mx s b i r rest _ true I1 I2 Hb Ei Rx); auto.
        unfold pre, sent_items, wt_items. simpl. fold x. rewrite Ew. now rewrite !app_nil_r, <- !app_assoc.
      * apply (inv2_recv_accept mx s b i r rest _ true I1 I2 Hb Ei Rx); auto.
        unfold pre, sent_items, wt_items. simpl. fold x. rewrite Ew. now rewrite !app_nil_r, <- ?app_assoc.
      * apply (inv2_recv_accept mx s b i r rest _ false I1 I2 Hb Ei Rx); auto.
        unfold pre. simpl. now rewrite app_nil_r.
  - assert (Rx : refusing x = true). { destruct I1. destruct (i_tok_pos b [] r rest Ei) as (_ & R & _). exact R. }
    rewrite Rx. exact (inv2_recv_bounce_fin mx s b r rest I1 I2 Hb Ei).
  - exact (inv2_recv_syn mx s b rest I1 I2 Hb Ei).
Qed.
