(* C02 — layer 2 of the invariant (retry levels: accepted messages only in the current worker, levels above the
   watermark come back in non-increasing order, lower levels are in front of the chaser covering them). *)
From Coq Require Import List Arith Bool Lia Sorted.
From SV Require Import C02.Model C02.Defs C02.Lemmas C02.Prims C02.Inv1.
Import ListNotations.

Ltac dI2 I := destruct I as [Kacc Klvls Khs Kho Kht Khm Kcu Kcd Kc2 Ks1].

(* ---------------------------------------------------------------- helpers *)
Definition hiu (h : nat) (l : list item) : list nat := map retries_of (filter (fun m => h <? retries_of m) l).
Definition hid (h : nat) (d : list (nat * nat)) : list nat := map (fun x => S (snd x)) (filter (fun x => h <=? snd x) d).
Lemma hi_up_eq s : hi_up s = hiu (hwm s) (q s ++ rq s). Proof. reflexivity. Qed.
Lemma hi_doom_eq s : hi_doom s = hid (hwm s) (doom (cur_bp s)). Proof. reflexivity. Qed.
Lemma hiu_app h a b : hiu h (a ++ b) = hiu h a ++ hiu h b.
Proof. unfold hiu. now rewrite filter_app, map_app. Qed.
Lemma hid_app h a b : hid h (a ++ b) = hid h a ++ hid h b.
Proof. unfold hid. now rewrite filter_app, map_app. Qed.
Lemma in_hiu h l v : In v (hiu h l) <-> exists m, In m l /\ retries_of m = v /\ h < v.
Proof.
  unfold hiu. rewrite in_map_iff. split.
  - intros (m & E & H). apply filter_In in H as [H1 H2]. apply Nat.ltb_lt in H2. exists m. subst. auto.
  - intros (m & H1 & E & H2). exists m. split; auto. apply filter_In. split; auto. apply Nat.ltb_lt. now subst.
Qed.
Lemma in_hid h d v : In v (hid h d) <-> exists x, In x d /\ S (snd x) = v /\ h <= snd x.
Proof.
  unfold hid. rewrite in_map_iff. split.
  - intros (x & E & H). apply filter_In in H as [H1 H2]. apply Nat.leb_le in H2. exists x. auto.
  - intros (x & H1 & E & H2). exists x. split; auto. apply filter_In. split; auto. now apply Nat.leb_le.
Qed.
Lemma hiu_nil h l : (forall m, In m l -> retries_of m <= h) -> hiu h l = [].
Proof.
  intros H. destruct (hiu h l) as [|v t] eqn:E; auto. exfalso.
  assert (In v (hiu h l)) by (rewrite E; now left). apply in_hiu in H0 as (m & Hm & <- & Hv). apply H in Hm. lia.
Qed.
Lemma hid_nil h d : (forall x, In x d -> snd x < h) -> hid h d = [].
Proof.
  intros H. destruct (hid h d) as [|v t] eqn:E; auto. exfalso.
  assert (In v (hid h d)) by (rewrite E; now left). apply in_hid in H0 as (x & Hx & _ & Hv). apply H in Hx. lia.
Qed.

Lemma noninc_nil : noninc []. Proof. constructor. Qed.
Lemma noninc_app a b : noninc (a ++ b) <-> noninc a /\ noninc b /\ forall x y, In x a -> In y b -> x >= y.
Proof.
  unfold noninc. induction a as [|x a IH]; simpl.
  - split; [intros H; repeat split; auto; [constructor|easy]|tauto].
  - split.
    + intros H. inversion H; subst. apply IH in H2 as (Sa & Sb & Hab).
      rewrite Forall_forall in H3. repeat split; auto.
      * constructor; auto. apply Forall_forall. intros y Hy. apply H3. apply in_or_app. auto.
      * intros x0 y [->|Hx] Hy; auto. apply H3. apply in_or_app. auto.
    + intros (Sa & Sb & Hab). inversion Sa; subst. constructor.
      * apply IH. repeat split; auto.
      * apply Forall_forall. intros y Hy. apply in_app_or in Hy as [Hy|Hy].
        -- rewrite Forall_forall in H2. auto.
        -- apply Hab; auto.
Qed.
Lemma noninc_sub l' l : noninc l -> sub l' l -> noninc l'.
Proof.
  unfold noninc. intros S H. induction H; auto.
  - inversion S; auto.
  - inversion S; subst. constructor; auto.
    rewrite Forall_forall in *. intros y Hy. apply H3. eapply sub_in; eauto.
Qed.
Lemma noninc_map_S l : noninc l -> noninc (map S l).
Proof.
  unfold noninc. induction 1; simpl; constructor; auto.
  rewrite Forall_forall in *. intros y Hy. apply in_map_iff in Hy as (z & <- & Hz). apply H0 in Hz. lia.
Qed.

Lemma sub_filter {A} (f : A -> bool) l : sub (filter f l) l.
Proof. induction l as [|x l IH]; simpl; [constructor|]. destruct (f x); [now apply sub_keep|now apply sub_skip]. Qed.
Lemma sub_map {A B} (f : A -> B) l' l : sub l' l -> sub (map f l') (map f l).
Proof. induction 1; simpl; [constructor|now apply sub_skip|now apply sub_keep]. Qed.
Lemma sub_filter_mono {A} (f : A -> bool) l' l : sub l' l -> sub (filter f l') (filter f l).
Proof.
  induction 1; simpl; [constructor| |].
  - destruct (f x); [now apply sub_skip|auto].
  - destruct (f x); [now apply sub_keep|auto].
Qed.
Lemma hiu_sub h l' l : sub l' l -> sub (hiu h l') (hiu h l).
Proof. intros H. unfold hiu. apply sub_map. now apply sub_filter_mono. Qed.
Lemma hid_sub h l' l : sub l' l -> sub (hid h l') (hid h l).
Proof. intros H. unfold hid. apply sub_map. now apply sub_filter_mono. Qed.
Lemma datas_sub l' l : sub l' l -> sub (datas l') (datas l).
Proof.
  induction 1; simpl; [constructor| |].
  - destruct x; auto. now apply sub_skip.
  - destruct x; auto. now apply sub_keep.
Qed.

(* two workers that hold the same things in the same order *)
Definition beq (x y : bpw) : Prop := pre x = pre y /\ inq x = inq y /\ rf x = rf y /\ cl x = cl y.
Lemma beq_refl x : beq x x. Proof. repeat split. Qed.
Lemma beq_acc x y : beq x y ->
  acc x = acc y /\ doom x = doom y /\ seg1 x = seg1 y /\ seg2 x = seg2 y /\ refusing x = refusing y /\
  tail_doomed x = tail_doomed y.
Proof.
  intros (E1 & E2 & E3 & E4). unfold acc, doom, seg1, seg2, refusing, tail_doomed, refusing. now rewrite E1, E2, E3, E4.
Qed.

Lemma cur_bp_eq s s' : cur s' = cur s -> (forall b, get_bp s' b = get_bp s b) -> cur_bp s' = cur_bp s.
Proof. intros E H. unfold cur_bp. rewrite E. destruct (cur s); auto. Qed.

(* Inv2 only looks at the queues, the watermark, the chaser flags, the current worker and what the workers hold *)
Lemma inv2_ext mx s s' :
  q s' ++ rq s' = q s ++ rq s -> hwm s' = hwm s -> (forall c, pend s' c <-> pend s c) -> cur s' = cur s ->
  (forall b, beq (get_bp s b) (get_bp s' b)) ->
  Inv2 mx s -> Inv2 mx s'.
Proof.
  intros Eu Eh Ep Ec Eb I. dI2 I.
  assert (B : forall b, acc (get_bp s' b) = acc (get_bp s b) /\ doom (get_bp s' b) = doom (get_bp s b) /\
              seg1 (get_bp s' b) = seg1 (get_bp s b) /\ seg2 (get_bp s' b) = seg2 (get_bp s b) /\
              refusing (get_bp s' b) = refusing (get_bp s b) /\ tail_doomed (get_bp s' b) = tail_doomed (get_bp s b) /\
              inq (get_bp s' b) = inq (get_bp s b) /\ cl (get_bp s' b) = cl (get_bp s b)).
  { intros b. destruct (beq_acc _ _ (Eb b)) as (A1 & A2 & A3 & A4 & A5 & A6). destruct (Eb b) as (_ & A7 & _ & A8).
    repeat split; auto. }
  assert (Cb : beq (cur_bp s) (cur_bp s')).
  { unfold cur_bp. rewrite Ec. destruct (cur s); [apply Eb|apply beq_refl]. }
  destruct (beq_acc _ _ Cb) as (C1 & C2 & _ & _ & _ & _). destruct Cb as (_ & C3 & _ & _).
  assert (Cv : forall v c, covers s' v c <-> covers s v c).
  { intros v c. unfold covers. rewrite Ep. split; intros (A & B' & C); repeat split; auto; intros c' H1 H2 H3; apply (C c' H1 H2); now apply Ep. }
  assert (Hu : hi_up s' = hi_up s) by (unfold hi_up; now rewrite Eu, Eh).
  assert (Hd : hi_doom s' = hi_doom s) by (unfold hi_doom; now rewrite Eh, <- C2).
  constructor.
  - intros b. destruct (B b) as (-> & _). rewrite Ec. apply Kacc.
  - rewrite <- C1, Eh. exact Klvls.
  - unfold hi_seq. now rewrite Hu, Hd.
  - intros b. rewrite Ec, Eh. destruct (B b) as (_ & -> & _). apply Kho.
  - unfold hi_seq. rewrite Hu, Hd, Ec. intros H. destruct (Kht H) as (b & E1 & E2). exists b. split; auto.
    destruct (B b) as (_ & _ & _ & _ & _ & -> & _). auto.
  - rewrite Hu, <- C3. exact Khm.
  - rewrite Eu, Eh. intros l1 i r l2 E Hr. destruct (Kcu l1 i r l2 E Hr) as (c & Hc & W). exists c. split; [now apply Cv|].
    destruct W as [W|(b & W)]; auto. right. exists b. destruct (B b) as (_ & _ & _ & _ & _ & _ & -> & _). auto.
  - intros b i r. rewrite Eh. destruct (B b) as (_ & _ & -> & _ & -> & _ & -> & _). intros H1 H2 H3.
    destruct (Kcd b i r H1 H2 H3) as (c & Y & Hc & E). exists c, Y. split; auto. now apply Cv.
  - intros b i r. rewrite Eh. destruct (B b) as (_ & _ & _ & -> & _ & _ & _ & ->). apply Kc2.
  - intros b. rewrite Eh. destruct (B b) as (_ & _ & -> & _ & _ & _ & -> & _). apply Ks1.
Qed.

(* ---------------------------------------------------------------- the way back: removals and additions *)

(* l' is l with some data messages removed *)
Inductive dsub : list item -> list item -> Prop :=
| dsub_nil : dsub [] []
| dsub_skip i r l' l : dsub l' l -> dsub l' (Data i r :: l)
| dsub_keep m l' l : dsub l' l -> dsub (m :: l') (m :: l).
Lemma dsub_refl l : dsub l l.
Proof. induction l; [constructor|now apply dsub_keep]. Qed.
Lemma dsub_sub l' l : dsub l' l -> sub l' l.
Proof. induction 1; [constructor|now apply sub_skip|now apply sub_keep]. Qed.
Lemma dsub_fin l' l c : dsub l' l -> In (Fin c) l -> In (Fin c) l'.
Proof.
  induction 1; simpl; auto.
  - intros [H0|H0]; [discriminate|auto].
  - intros [H0|H0]; auto.
Qed.
Lemma dsub_split l' l : dsub l' l -> forall l1' m l2', l' = l1' ++ m :: l2' ->
  exists l1 l2, l = l1 ++ m :: l2 /\ dsub l2' l2.
Proof.
  induction 1; intros l1' m0 l2' E.
  - destruct l1'; discriminate.
  - destruct (IHdsub _ _ _ E) as (l1 & l2 & -> & D). exists (Data i r :: l1), l2. auto.
  - destruct l1' as [|x l1']; simpl in E.
    + injection E as <- <-. exists [], l. auto.
    + injection E as <- E. destruct (IHdsub _ _ _ E) as (l1 & l2 & -> & D). exists (m :: l1), l2. auto.
Qed.
Lemma dsub_app a' a b' b : dsub a' a -> dsub b' b -> dsub (a' ++ b') (a ++ b).
Proof. induction 1; simpl; auto; intros; [apply dsub_skip|apply dsub_keep]; auto. Qed.
Lemma dsub_remove_nth l n i r : nth_error l n = Some (Data i r) -> dsub (remove_nth n l) l.
Proof.
  revert n. induction l as [|m l IH]; intros [|n]; simpl; try discriminate.
  - intros E. injection E as ->. apply dsub_skip, dsub_refl.
  - intros E. apply dsub_keep. eauto.
Qed.

Lemma sub_nil_inv {A} (l : list A) : sub l [] -> l = [].
Proof. intros H. inversion H. auto. Qed.

Lemma inv2_up_dsub mx s s' :
  dsub (q s' ++ rq s') (q s ++ rq s) -> hwm s' = hwm s -> (forall c, pend s' c <-> pend s c) -> cur s' = cur s ->
  (forall b, get_bp s' b = get_bp s b) ->
  Inv2 mx s -> Inv2 mx s'.
Proof.
  intros Du Eh Ep Ec Eb I. dI2 I.
  assert (Cv : forall v c, covers s' v c <-> covers s v c).
  { intros v c. unfold covers. rewrite Ep. split; intros (A & B' & C); repeat split; auto; intros c' H1 H2 H3; apply (C c' H1 H2); now apply Ep. }
  assert (Cb : cur_bp s' = cur_bp s) by now apply cur_bp_eq.
  assert (Hd : hi_doom s' = hi_doom s) by (unfold hi_doom; now rewrite Eh, Cb).
  assert (Hu : sub (hi_up s') (hi_up s)). { rewrite !hi_up_eq, Eh. apply hiu_sub. now apply dsub_sub. }
  constructor.
  - intros b. rewrite Eb, Ec. apply Kacc.
  - rewrite Cb, Eh. exact Klvls.
  - unfold hi_seq. rewrite Hd. eapply noninc_sub; [exact Khs|]. apply sub_app; auto. apply sub_refl.
  - intros b. rewrite Eb, Ec, Eh. apply Kho.
  - unfold hi_seq. rewrite Hd, Ec. intros H. destruct Kht as (b & E1 & E2).
    + intros E. apply app_eq_nil in E as [E1 E2]. rewrite E1 in Hu. apply sub_nil_inv in Hu. apply H. now rewrite Hu, E2.
    + exists b. rewrite Eb. auto.
  - rewrite Cb. intros H. apply Khm. intros E. rewrite E in Hu. apply sub_nil_inv in Hu. auto.
  - rewrite Eh. intros l1' i r l2' E Hr. destruct (dsub_split _ _ Du _ _ _ E) as (l1 & l2 & E' & D2).
    destruct (Kcu l1 i r l2 E' Hr) as (c & Hc & W). exists c. split; [now apply Cv|].
    destruct W as [W|(b & W)]; [left; eapply dsub_fin; eauto|right; exists b; now rewrite Eb].
  - intros b i r. rewrite Eh, Eb. intros H1 H2 H3.
    destruct (Kcd b i r H1 H2 H3) as (c & Y & Hc & E). exists c, Y. split; auto. now apply Cv.
  - intros b i r. rewrite Eh, Eb. apply Kc2.
  - intros b. rewrite Eh, Eb. apply Ks1.
Qed.

Lemma inv2_retry mx s : Inv2 mx s -> Inv2 mx (raw_step mx s CRetry).
Proof.
  intros I. simpl. destruct (rq s) as [|m r] eqn:E; auto.
  eapply inv2_up_dsub; [| | | | |exact I]; simpl; auto; try reflexivity.
  rewrite E, <- app_assoc. apply dsub_refl.
Qed.

Lemma inv2_failq mx s n : Inv2 mx s -> Inv2 mx (raw_step mx s (CFailQ n)).
Proof.
  intros I. simpl. destruct (nth_error (q s) n) as [[i r| |]|] eqn:E; auto.
  eapply inv2_up_dsub; [| | | | |exact I]; simpl; auto; try reflexivity.
  apply dsub_app; [|apply dsub_refl]. eapply dsub_remove_nth; eauto.
Qed.

Lemma inv2_pop_data mx s i r rest : q s = Data i r :: rest -> Inv2 mx s -> Inv2 mx (pop s).
Proof.
  intros E I. eapply inv2_up_dsub; [| | | | |exact I]; simpl; auto; try reflexivity.
  rewrite E. simpl. apply dsub_skip, dsub_refl.
Qed.

Lemma split_two {A} (x y : A) : forall l1 l2 a b, l1 ++ x :: l2 = a ++ y :: b ->
  (l1 = a /\ x = y /\ l2 = b) \/
  (exists a2, a = l1 ++ x :: a2 /\ l2 = a2 ++ y :: b) \/
  (exists b1, b = b1 ++ x :: l2 /\ l1 = a ++ y :: b1).
Proof.
  induction l1 as [|z l1 IH]; intros l2 a b E.
  - destruct a as [|w a]; simpl in E.
    + injection E as -> ->. auto.
    + injection E as -> ->. right. left. exists a. auto.
  - destruct a as [|w a]; simpl in E.
    + injection E as -> <-. right. right. exists l1. auto.
    + injection E as -> E. destruct (IH _ _ _ E) as [(-> & -> & ->)|[(a2 & -> & ->)|(b1 & -> & ->)]]; auto.
      * right. left. exists a2. auto.
      * right. right. exists b1. auto.
Qed.

Lemma inv2_submit mx s : Inv2 mx s -> Inv2 mx (raw_step mx s CSubmit).
Proof.
  intros I. dI2 I. simpl.
  set (s' := set_nxt (set_q s (q s ++ [Data (nxt s) 0])) (S (nxt s))).
  assert (Eu : q s' ++ rq s' = q s ++ Data (nxt s) 0 :: rq s) by (simpl; now rewrite <- app_assoc).
  assert (Hu : hi_up s' = hi_up s).
  { rewrite !hi_up_eq. change (hwm s') with (hwm s). rewrite Eu, !hiu_app. f_equal. }
  constructor; auto.
  - unfold hi_seq. now rewrite Hu.
  - unfold hi_seq. now rewrite Hu.
  - now rewrite Hu.
  - intros l1 i r l2 E Hr. simpl in E, Hr. rewrite <- app_assoc in E. simpl in E. symmetry in E.
    apply split_two in E as [(_ & E & _)|[(a2 & E1 & E2)|(b1 & E1 & E2)]]; try subst l2; try subst l1.
    + injection E as _ ->. lia.
    + destruct (Kcu l1 i r (a2 ++ rq s)) as (c & Hc & W); auto.
      { rewrite E1, <- app_assoc. reflexivity. }
      exists c. split; auto. destruct W as [W|W]; auto. left. rewrite in_app_iff in *. simpl. tauto.
    + destruct (Kcu (q s ++ b1) i r l2) as (c & Hc & W); auto.
      { rewrite E1, <- app_assoc. reflexivity. }
      exists c. split; [exact Hc|exact W].
Qed.

(* ---------------------------------------------------------------- broker-worker steps that do not move messages *)
Lemma beq_put s b y b' : b < length (bps s) -> beq (get_bp s b) y -> beq (get_bp s b') (get_bp (put_bp s b y) b').
Proof.
  intros Hb E. destruct (Nat.eq_dec b' b) as [->|N]; [now rewrite get_bp_put_same|rewrite get_bp_put_other by auto; apply beq_refl].
Qed.

Lemma inv2_flush mx s b : Inv2 mx s -> Inv2 mx (bp_flush s b).
Proof.
  intros I. unfold bp_flush. set (x := get_bp s b).
  destruct (snt x) eqn:Es; auto. destruct (Nat.ltb_spec b (length (bps s))) as [Hb|Hb]; auto.
  eapply inv2_ext; [| | | | |exact I]; try reflexivity.
  intros b'. apply (beq_put s b _ b' Hb). repeat split; auto. fold x.
  unfold pre, sent_items, wt_items. simpl. rewrite Es. destruct (wt x); simpl; now rewrite ?app_nil_r.
Qed.

Lemma inv2_answer mx s b v app : Inv2 mx s -> Inv2 mx (answer s b v app).
Proof.
  intros I. unfold answer. set (x := get_bp s b).
  destruct (snt x) as [[l [vb|]]|] eqn:Es; auto.
  destruct (Nat.lt_ge_cases b (length (bps s))) as [Hb|Hb].
  2:{ unfold x in Es. rewrite get_bp_default in Es by auto. discriminate. }
  assert (E : forall b', beq (get_bp s b') (get_bp (put_bp s b (with_snt x (Some (l, Some (v, length (log s)))))) b')).
  { intros b'. apply (beq_put s b _ b' Hb). repeat split; auto. fold x. unfold pre, sent_items, wt_items. simpl. now rewrite Es. }
  destruct (match v with VOk => true | _ => app end); (eapply inv2_ext; [| | | | |exact I]; try reflexivity; exact E).
Qed.

(* ---------------------------------------------------------------- one worker changes, nothing is bounced *)
Lemma cur_bp_put s b y : b < length (bps s) ->
  cur_bp (put_bp s b y) = if match cur s with Some c => c =? b | None => false end then y else cur_bp s.
Proof.
  intros Hb. unfold cur_bp. change (cur (put_bp s b y)) with (cur s). destruct (cur s) as [c|]; auto.
  destruct (Nat.eqb_spec c b) as [->|N]; [now rewrite get_bp_put_same|now rewrite get_bp_put_other].
Qed.

Lemma Forall_sub {A} (P : A -> Prop) l' l : sub l' l -> Forall P l -> Forall P l'.
Proof. intros S F. rewrite Forall_forall in *. intros x Hx. apply F. eapply sub_in; eauto. Qed.

Lemma inv2_bp_shrink' mx s b y : Inv2 mx s -> b < length (bps s) ->
  let x := get_bp s b in
  sub (acc y) (acc x) -> doom y = doom x -> (tail_doomed x = true -> tail_doomed y = true) ->
  (forall c, In (Fin c) (inq x) -> In (Fin c) (inq y)) ->
  (forall i r, refusing y = true -> In (i, r) (datas (seg1 y)) -> r < hwm s ->
     exists c Y, covers s (S r) c /\ inq y = pre_m (inq y) ++ Fin (c - 1) :: Y) ->
  (forall i r, cl y = true -> In (i, r) (datas (seg2 y)) -> hwm s <= r) ->
  (has_m (inq y) = true -> Forall (fun z => snd z < hwm s) (datas (seg1 y))) ->
  (hi_up s <> [] -> cur s = Some b -> has_m (inq y) = false) ->
  Inv2 mx (put_bp s b y).
Proof.
  intros I Hb x Sa Ed Et Ef Oa Ob Oc Od. dI2 I.
  set (s' := put_bp s b y).
  assert (G : forall b', b' <> b -> get_bp s' b' = get_bp s b') by (intros; now apply get_bp_put_other).
  assert (Gy : get_bp s' b = y) by now apply get_bp_put_same.
  assert (Cd : doom (cur_bp s') = doom (cur_bp s)).
  { unfold s'. rewrite cur_bp_put by auto. unfold cur_bp. destruct (cur s) as [c|]; auto.
    destruct (Nat.eqb_spec c b) as [->|N]; auto. }
  assert (Hd : hi_doom s' = hi_doom s) by (unfold hi_doom; now rewrite Cd).
  assert (Hu : hi_up s' = hi_up s) by reflexivity.
  assert (Cv : forall v c, covers s' v c <-> covers s v c) by (intros; reflexivity).
  constructor.
  - intros b'. destruct (Nat.eq_dec b' b) as [Eb|N]; [subst b'|]; [rewrite Gy|rewrite G by auto; apply Kacc].
    intros H. apply (Kacc b). fold x. intros E. rewrite E in Sa. apply sub_nil_inv in Sa. auto.
  - change (hwm s') with (hwm s). unfold s'. rewrite cur_bp_put by auto.
    destruct (match cur s with Some c => c =? b | None => false end) eqn:E; auto.
    assert (cur_bp s = x) as Ex. { unfold cur_bp. destruct (cur s); [|discriminate]. apply Nat.eqb_eq in E. now rewrite E. }
    rewrite Ex in Klvls. destruct Klvls as [K1 K2]. split.
    + eapply noninc_sub; [exact K1|]. now apply sub_map.
    + eapply Forall_sub; eauto.
  - unfold hi_seq. now rewrite Hd, Hu.
  - intros b'. destruct (Nat.eq_dec b' b) as [Eb|N]; [subst b'|]; [rewrite Gy, Ed|rewrite G by auto]; apply Kho.
  - unfold hi_seq. rewrite Hd, Hu. intros H. destruct (Kht H) as (b' & E1 & E2). exists b'. split; auto.
    destruct (Nat.eq_dec b' b) as [Eb|N]; [subst b'|]; [now rewrite Gy, Et|now rewrite G].
  - rewrite Hu. intros H. unfold s'. rewrite cur_bp_put by auto.
    destruct (match cur s with Some c => c =? b | None => false end) eqn:E; auto.
    apply Od; auto. destruct (cur s); [|discriminate]. apply Nat.eqb_eq in E. now rewrite E.
  - intros l1 i r l2 E Hr. destruct (Kcu l1 i r l2 E Hr) as (c & Hc & W). exists c. split; auto.
    destruct W as [W|(b' & W)]; auto. right. exists b'.
    destruct (Nat.eq_dec b' b) as [Eb|N]; [subst b'|]; [rewrite Gy; now apply Ef|now rewrite G].
  - intros b' i r. destruct (Nat.eq_dec b' b) as [Eb|N]; [subst b'|]; [rewrite Gy; apply Oa|rewrite G by auto; apply Kcd].
  - intros b' i r. destruct (Nat.eq_dec b' b) as [Eb|N]; [subst b'|]; [rewrite Gy; apply Ob|rewrite G by auto; apply Kc2].
  - intros b'. destruct (Nat.eq_dec b' b) as [Eb|N]; [subst b'|]; [rewrite Gy; apply Oc|rewrite G by auto; apply Ks1].
Qed.

Lemma inv2_bp_shrink mx s b y : Inv2 mx s -> b < length (bps s) ->
  let x := get_bp s b in
  sub (acc y) (acc x) -> doom y = doom x -> tail_doomed y = tail_doomed x ->
  (forall c, In (Fin c) (inq x) -> In (Fin c) (inq y)) ->
  (forall i r, refusing y = true -> In (i, r) (datas (seg1 y)) -> r < hwm s ->
     exists c Y, covers s (S r) c /\ inq y = pre_m (inq y) ++ Fin (c - 1) :: Y) ->
  (forall i r, cl y = true -> In (i, r) (datas (seg2 y)) -> hwm s <= r) ->
  (has_m (inq y) = true -> Forall (fun z => snd z < hwm s) (datas (seg1 y))) ->
  (hi_up s <> [] -> cur s = Some b -> has_m (inq y) = false) ->
  Inv2 mx (put_bp s b y).
Proof. intros I Hb x Sa Ed Et. apply inv2_bp_shrink'; auto. intros H. now rewrite Et. Qed.


(* ---------------------------------------------------------------- the run loop reads its input *)
Lemma healthy_cl x : refusing x = false -> cl x = false /\ rf x = false.
Proof. unfold refusing. intros H. apply orb_false_iff in H. tauto. Qed.

(* the run loop accepts a data message *)
Lemma inv2_recv_accept mx s b i0 r0 rest y (keep : bool) :
  Inv1 mx s -> Inv2 mx s -> b < length (bps s) ->
  let x := get_bp s b in
  inq x = Data i0 r0 :: rest -> refusing x = false ->
  inq y = rest -> rf y = rf x -> cl y = cl x ->
  pre y = pre x ++ (if keep then [Data i0 r0] else []) ->
  Inv2 mx (put_bp s b y).
Proof.
  intros I1 I2 Hb x Ei Rx Eiy Erf Ecl Ep. pose proof I2 as I2'. dI2 I2'. dI1 I1.
  assert (Ry : refusing y = false) by (unfold refusing in *; now rewrite Erf, Ecl).
  destruct (acc_doom_healthy x Rx) as [Ax Dx]. destruct (acc_doom_healthy y Ry) as [Ay Dy].
  apply inv2_bp_shrink; auto; fold x.
  - rewrite Ax, Ay, Ep, Eiy, Ei. rewrite <- app_assoc. apply datas_sub. apply sub_app; [apply sub_refl|].
    destruct keep; simpl; [apply sub_refl|apply sub_skip, sub_refl].
  - now rewrite Dx, Dy.
  - unfold tail_doomed. rewrite Eiy, Ei, Ecl, Ry, Rx. reflexivity.
  - rewrite Eiy, Ei. intros c [H|H]; [discriminate|auto].
  - intros i r H. congruence.
  - intros i r H. destruct (healthy_cl _ Ry). congruence.
  - rewrite Eiy. intros H. exfalso. assert (H2 : has_m (inq x) = true) by (rewrite Ei; exact H).
    pose proof (Hmarked b H2 Rx) as D. fold x in D. unfold seg1 in D. rewrite Ei in D. simpl in D. rewrite datas_app in D.
    apply app_eq_nil in D as [_ D]. discriminate.
  - intros H Ec. rewrite Eiy. specialize (Khm H). unfold cur_bp in Khm. rewrite Ec in Khm. fold x in Khm. rewrite Ei in Khm. exact Khm.
Qed.

Lemma inv2_recv_syn mx s b rest :
  Inv1 mx s -> Inv2 mx s -> b < length (bps s) ->
  let x := get_bp s b in
  inq x = Syn :: rest ->
  Inv2 mx (put_bp s b (with_rf (with_inq x rest) false)).
Proof.
  intros I1 I2 Hb x Ei. pose proof I2 as I2'. dI2 I2'. dI1 I1.
  set (y := with_rf (with_inq x rest) false).
  assert (Nr : nomark rest) by (apply (Hspos b [] rest); exact Ei).
  assert (Py : pre y = pre x) by reflexivity.
  assert (Px : refusing x = true -> pre x = []) by apply Hpref.
  assert (S1x : seg1 x = pre x) by (unfold seg1; rewrite Ei; simpl; now rewrite app_nil_r).
  assert (S2x : seg2 x = rest) by (unfold seg2; now rewrite Ei).
  assert (S1y : seg1 y = pre x ++ rest) by (unfold seg1, y; simpl; now rewrite (pre_m_nomark _ Nr)).
  assert (S2y : seg2 y = []) by (unfold seg2, y; simpl; now apply post_m_nomark).
  assert (Ry : refusing y = cl x) by reflexivity.
  assert (AD : acc y = acc x /\ doom y = doom x).
  { unfold acc, doom. rewrite S1x, S2x, S1y, S2y, Ry. change (cl y) with (cl x).
    destruct (cl x) eqn:C.
    - rewrite (refusing_cl x C). rewrite Px by (now apply refusing_cl). simpl. now rewrite app_nil_r.
    - destruct (refusing x) eqn:R; simpl; rewrite ?app_nil_r, ?datas_app; auto. rewrite Px; auto. }
  destruct AD as [Ay Dy].
  apply inv2_bp_shrink; auto; fold x; fold y.
  - rewrite Ay. apply sub_refl.
  - unfold tail_doomed. rewrite Ei. change (inq y) with rest. apply nomark_has_m in Nr. rewrite Nr. simpl. exact Ry.
  - rewrite Ei. intros c [H|H]; [discriminate|exact H].
  - intros i r R H Hr. exfalso. rewrite Ry in R. rewrite S1y, Px in H by (now apply refusing_cl). simpl in H.
    assert (hwm s <= r); [|lia]. apply (Kc2 b i r R). fold x. now rewrite S2x.
  - intros i r _. rewrite S2y. intros [].
  - change (inq y) with rest. apply nomark_has_m in Nr. rewrite Nr. discriminate.
  - intros _ _. change (inq y) with rest. now apply nomark_has_m.
Qed.

(* ---------------------------------------------------------------- one worker changes and bounces at most one item *)
Lemma hiu_single h m : hiu h [m] = if h <? retries_of m then [retries_of m] else [].
Proof. unfold hiu. simpl. destruct (h <? retries_of m); reflexivity. Qed.

Lemma inv2_bp_step' mx s b y ex : Inv2 mx s -> b < length (bps s) ->
  let x := get_bp s b in let s' := put_bp (set_rq s (rq s ++ ex)) b y in
  (length ex <= 1) ->
  sub (acc y) (acc x) -> sub (doom y) (doom x) -> (tail_doomed x = true -> tail_doomed y = true) ->
  sub (hi_seq s') (hi_seq s) ->
  (cur s <> Some b -> hiu (hwm s) ex = []) ->
  (hi_up s' <> [] -> cur s = Some b -> has_m (inq y) = false) ->
  (forall i r, In (Data i r) ex -> 1 <= r <= hwm s -> exists c, covers s r c /\ In (Fin (c - 1)) (inq y)) ->
  (forall c, In (Fin c) (inq x) -> In (Fin c) (inq y) \/ In (Fin (S c)) ex) ->
  (forall i r, refusing y = true -> In (i, r) (datas (seg1 y)) -> r < hwm s ->
     exists c Y, covers s (S r) c /\ inq y = pre_m (inq y) ++ Fin (c - 1) :: Y) ->
  (forall i r, cl y = true -> In (i, r) (datas (seg2 y)) -> hwm s <= r) ->
  (has_m (inq y) = true -> Forall (fun z => snd z < hwm s) (datas (seg1 y))) ->
  Inv2 mx s'.
Proof.
  intros I Hb x s' Lex Sa Sd Et Sh Oh Od Oe Ef Oa Ob Oc. dI2 I.
  assert (G : forall b', b' <> b -> get_bp s' b' = get_bp s b') by (intros; unfold s'; rewrite get_bp_put_other by auto; reflexivity).
  assert (Gy : get_bp s' b = y) by (apply get_bp_put_same; exact Hb).
  assert (Cb : cur_bp s' = if match cur s with Some c => c =? b | None => false end then y else cur_bp s).
  { unfold s'. rewrite cur_bp_put by exact Hb. reflexivity. }
  assert (Hu : hi_up s' = hi_up s ++ hiu (hwm s) ex).
  { rewrite !hi_up_eq. change (hwm s') with (hwm s). change (q s' ++ rq s') with (q s ++ rq s ++ ex).
    now rewrite app_assoc, hiu_app. }
  constructor.
  - intros b'. destruct (Nat.eq_dec b' b) as [Eb|N]; [subst b'; rewrite Gy|rewrite G by auto; apply Kacc].
    intros H. apply (Kacc b). fold x. intros E. rewrite E in Sa. apply sub_nil_inv in Sa. auto.
  - change (hwm s') with (hwm s). rewrite Cb.
    destruct (match cur s with Some c => c =? b | None => false end) eqn:E; auto.
    assert (cur_bp s = x) as Ex. { unfold cur_bp. destruct (cur s); [|discriminate]. apply Nat.eqb_eq in E. now rewrite E. }
    rewrite Ex in Klvls. destruct Klvls as [K1 K2]. split.
    + eapply noninc_sub; [exact K1|]. now apply sub_map.
    + eapply Forall_sub; eauto.
  - eapply noninc_sub; eauto.
  - intros b'. change (cur s') with (cur s). change (hwm s') with (hwm s).
    destruct (Nat.eq_dec b' b) as [Eb|N]; [subst b'; rewrite Gy|rewrite G by auto; apply Kho].
    intros H. eapply Forall_sub; [exact Sd|]. now apply Kho.
  - intros H. change (cur s') with (cur s). destruct Kht as (b' & E1 & E2).
    { intros E. rewrite E in Sh. apply sub_nil_inv in Sh. auto. }
    exists b'. split; auto. destruct (Nat.eq_dec b' b) as [Eb|N]; [subst b'; rewrite Gy; now apply Et|now rewrite G].
  - intros H. rewrite Cb. destruct (match cur s with Some c => c =? b | None => false end) eqn:E.
    + apply Od; auto. destruct (cur s); [|discriminate]. apply Nat.eqb_eq in E. now rewrite E.
    + apply Khm. rewrite Hu in H. rewrite Oh in H; [now rewrite app_nil_r in H|].
      intros Ec. rewrite Ec, Nat.eqb_refl in E. discriminate.
  - change (hwm s') with (hwm s). change (q s' ++ rq s') with (q s ++ rq s ++ ex). intros l1 i r l2 E Hr.
    assert (Wt : forall c, covers s r c -> (In (Fin c) l2 \/ exists b', In (Fin (c - 1)) (inq (get_bp s b'))) ->
                 1 <= c -> (forall z, In z l2 -> In z l2) ->
                 (In (Fin c) l2 \/ In (Fin c) ex) \/ exists b', In (Fin (c - 1)) (inq (get_bp s' b'))).
    { intros c Hc [W|(b' & W)] Hc1 _; auto. destruct (Nat.eq_dec b' b) as [Eb|N]; [subst b'|right; exists b'; now rewrite G].
      fold x in W. apply Ef in W as [W|W]; [right; exists b; now rewrite Gy|].
      left. right. replace (S (c - 1)) with c in W by lia. exact W. }
    destruct ex as [|e [|e2 ex]]; [| |simpl in Lex; lia].
    + rewrite app_nil_r in E. destruct (Kcu l1 i r l2 E Hr) as (c & Hc & W). exists c. split; [exact Hc|].
      assert (1 <= c) by (destruct Hc; lia).
      destruct (Wt c Hc W) as [[W'|[]]|W']; auto.
    + rewrite app_assoc in E. symmetry in E. apply split_two in E as [(E1 & E2 & E3)|[(a2 & E1 & E2)|(b1 & E1 & E2)]].
      * subst e l2. destruct (Oe i r) as (c & Hc & W); [now left|exact Hr|].
        exists c. split; [exact Hc|]. right. exists b. now rewrite Gy.
      * subst l2. destruct (Kcu l1 i r a2) as (c & Hc & W); [now rewrite E1|exact Hr|].
        exists c. split; [exact Hc|]. assert (1 <= c) by (destruct Hc; lia).
        destruct W as [W|(b' & W)].
        -- left. apply in_or_app. now left.
        -- destruct (Nat.eq_dec b' b) as [Eb|N]; [subst b'|right; exists b'; now rewrite G].
           fold x in W. apply Ef in W as [W|W]; [right; exists b; now rewrite Gy|].
           left. apply in_or_app. right. replace (S (c - 1)) with c in W by lia. exact W.
      * destruct b1; discriminate.
  - intros b' i r. change (hwm s') with (hwm s).
    destruct (Nat.eq_dec b' b) as [Eb|N]; [subst b'; rewrite Gy; apply Oa|rewrite G by auto; apply Kcd].
  - intros b' i r. change (hwm s') with (hwm s).
    destruct (Nat.eq_dec b' b) as [Eb|N]; [subst b'; rewrite Gy; apply Ob|rewrite G by auto; apply Kc2].
  - intros b'. change (hwm s') with (hwm s).
    destruct (Nat.eq_dec b' b) as [Eb|N]; [subst b'; rewrite Gy; apply Oc|rewrite G by auto; apply Ks1].
Qed.

Lemma inv2_bp_step mx s b y ex : Inv2 mx s -> b < length (bps s) ->
  let x := get_bp s b in let s' := put_bp (set_rq s (rq s ++ ex)) b y in
  (length ex <= 1) ->
  sub (acc y) (acc x) -> sub (doom y) (doom x) -> tail_doomed y = tail_doomed x ->
  sub (hi_seq s') (hi_seq s) ->
  (cur s <> Some b -> hiu (hwm s) ex = []) ->
  (hi_up s' <> [] -> cur s = Some b -> has_m (inq y) = false) ->
  (forall i r, In (Data i r) ex -> 1 <= r <= hwm s -> exists c, covers s r c /\ In (Fin (c - 1)) (inq y)) ->
  (forall c, In (Fin c) (inq x) -> In (Fin c) (inq y) \/ In (Fin (S c)) ex) ->
  (forall i r, refusing y = true -> In (i, r) (datas (seg1 y)) -> r < hwm s ->
     exists c Y, covers s (S r) c /\ inq y = pre_m (inq y) ++ Fin (c - 1) :: Y) ->
  (forall i r, cl y = true -> In (i, r) (datas (seg2 y)) -> hwm s <= r) ->
  (has_m (inq y) = true -> Forall (fun z => snd z < hwm s) (datas (seg1 y))) ->
  Inv2 mx s'.
Proof. intros I Hb x s' Lex Sa Sd Et. apply inv2_bp_step'; auto. intros H. now rewrite Et. Qed.


Lemma bounce1_len mx m : length (bounce1 mx m) <= 1.
Proof. unfold bounce1. destruct m; simpl; auto; destruct (mx <=? r); simpl; auto. Qed.

Lemma hid_cons h x d : hid h (x :: d) = (if h <=? snd x then [S (snd x)] else []) ++ hid h d.
Proof. unfold hid. simpl. destruct (h <=? snd x); reflexivity. Qed.

Lemma cur_bp_put_rq s r b y : b < length (bps s) ->
  cur_bp (put_bp (set_rq s r) b y) = if match cur s with Some c => c =? b | None => false end then y else cur_bp s.
Proof. intros Hb. exact (cur_bp_put (set_rq s r) b y Hb). Qed.

Lemma inv2_recv_bounce_data mx s b i0 r0 rest :
  Inv1 mx s -> Inv2 mx s -> b < length (bps s) ->
  let x := get_bp s b in
  inq x = Data i0 r0 :: rest -> refusing x = true ->
  Inv2 mx (put_bp (set_rq s (rq s ++ bounce1 mx (Data i0 r0))) b (with_inq x rest)).
Proof.
  intros I1 I2 Hb x Ei Rx. pose proof I2 as I2'. dI2 I2'. dI1 I1.
  set (y := with_inq x rest).
  assert (Px : pre x = []) by (apply Hpref; exact Rx).
  assert (Py : pre y = []) by exact Px.
  assert (Ry : refusing y = true) by exact Rx.
  assert (S1 : seg1 x = Data i0 r0 :: seg1 y).
  { unfold seg1. rewrite Py, Px, Ei. reflexivity. }
  assert (S2 : seg2 x = seg2 y) by (unfold seg2; rewrite Ei; reflexivity).
  assert (Ax : acc y = acc x).
  { unfold acc. rewrite Ry, Rx, S2. reflexivity. }
  assert (Dx : doom x = (i0, r0) :: doom y).
  { unfold doom. rewrite Ry, Rx, S1, S2. reflexivity. }
  assert (Hm : has_m (inq y) = has_m (inq x)) by (rewrite Ei; reflexivity).
  assert (Ex : bounce1 mx (Data i0 r0) = [] \/ bounce1 mx (Data i0 r0) = [Data i0 (S r0)]).
  { unfold bounce1. destruct (mx <=? r0); auto. }
  assert (Hx : sub (hiu (hwm s) (bounce1 mx (Data i0 r0))) (if hwm s <=? r0 then [S r0] else [])).
  { destruct Ex as [-> | ->]; [apply sub_nil_l|]. rewrite hiu_single. simpl.
    change (hwm s <? S r0) with (hwm s <=? r0). apply sub_refl. }
  assert (Lo : cur s <> Some b -> r0 < hwm s).
  { intros N. specialize (Kho b N). fold x in Kho. rewrite Dx in Kho. inversion Kho; subst. exact H1. }
  apply inv2_bp_step; auto; fold x; fold y.
  - apply bounce1_len.
  - rewrite Ax. apply sub_refl.
  - rewrite Dx. apply sub_skip, sub_refl.
  - unfold tail_doomed. now rewrite Hm.
  - unfold hi_seq. rewrite !hi_up_eq, !hi_doom_eq.
    set (s' := put_bp (set_rq s (rq s ++ bounce1 mx (Data i0 r0))) b y).
    change (hwm s') with (hwm s). change (q s' ++ rq s') with (q s ++ rq s ++ bounce1 mx (Data i0 r0)).
    rewrite app_assoc, hiu_app, <- app_assoc. apply sub_app; [apply sub_refl|].
    unfold s'. rewrite cur_bp_put_rq by exact Hb.
    destruct (match cur s with Some c => c =? b | None => false end) eqn:E.
    + assert (cur_bp s = x) as ->. { unfold cur_bp. destruct (cur s); [|discriminate]. apply Nat.eqb_eq in E. now rewrite E. }
      rewrite Dx, hid_cons. simpl snd. apply sub_app; [exact Hx|apply sub_refl].
    + assert (N : cur s <> Some b). { intros Ec. rewrite Ec, Nat.eqb_refl in E. discriminate. }
      apply Lo in N. apply Nat.leb_gt in N. rewrite N in Hx. apply sub_nil_inv in Hx. rewrite Hx. apply sub_refl.
  - intros N. apply Lo in N. apply Nat.leb_gt in N. rewrite N in Hx. now apply sub_nil_inv in Hx.
  - intros H Ec. rewrite Hm. destruct (has_m (inq x)) eqn:M; auto. exfalso.
    specialize (Ks1 b M). fold x in Ks1. rewrite S1 in Ks1. simpl in Ks1. inversion Ks1; subst. simpl in H2.
    apply Nat.leb_gt in H2. rewrite H2 in Hx. apply sub_nil_inv in Hx.
    set (s' := put_bp (set_rq s (rq s ++ bounce1 mx (Data i0 r0))) b y) in *.
    rewrite hi_up_eq in H. change (hwm s') with (hwm s) in H. change (q s' ++ rq s') with (q s ++ rq s ++ bounce1 mx (Data i0 r0)) in H.
    rewrite app_assoc, hiu_app, Hx, app_nil_r in H. specialize (Khm H). unfold cur_bp in Khm. rewrite Ec in Khm. fold x in Khm. congruence.
  - intros i r Hi Hr. destruct Ex as [E|E]; rewrite E in Hi; [destruct Hi|]. destruct Hi as [Hi|[]]. injection Hi as <- <-.
    destruct (Kcd b i0 r0) as (c & Y & Hc & EY); auto.
    { fold x. rewrite S1. now left. } { lia. }
    exists c. split; auto. fold x in EY. rewrite Ei in EY. simpl in EY. injection EY as EY.
    change (inq y) with rest. rewrite EY. apply in_or_app. right. now left.
  - intros c. rewrite Ei. intros [H|H]; [discriminate|now left].
  - intros i r _ Hi Hr. destruct (Kcd b i r) as (c & Y & Hc & EY); auto.
    { fold x. rewrite S1. simpl. now right. }
    exists c, Y. split; auto. fold x in EY. rewrite Ei in EY. simpl in EY. injection EY as EY. exact EY.
  - intros i r C. rewrite <- S2. apply Kc2. exact C.
  - rewrite Hm. intros M. specialize (Ks1 b M). fold x in Ks1. rewrite S1 in Ks1. simpl in Ks1. now inversion Ks1.
Qed.

Lemma inv2_recv_bounce_fin mx s b r0 rest :
  Inv1 mx s -> Inv2 mx s -> b < length (bps s) ->
  let x := get_bp s b in
  inq x = Fin r0 :: rest ->
  Inv2 mx (put_bp (set_rq s (rq s ++ bounce1 mx (Fin r0))) b
             (if negb (cl x) && is_fin (Fin r0) then with_rf (with_inq x rest) false else with_inq x rest)).
Proof.
  intros I1 I2 Hb x Ei. pose proof I2 as I2'. dI2 I2'. dI1 I1.
  destruct (Htpos b [] r0 rest Ei) as (_ & Rx & T). fold x in Rx.
  assert (Px : pre x = []) by (apply Hpref; exact Rx).
  assert (Pr : pend s (S r0)). { apply (Htin b). fold x. rewrite Ei. now left. }
  assert (Hr0 : S r0 <= hwm s) by (apply Hchs in Pr; lia).
  assert (Ex : bounce1 mx (Fin r0) = [Fin (S r0)]).
  { unfold bounce1. destruct (Nat.leb_spec mx r0); auto. lia. }
  rewrite Ex.
  set (y := if negb (cl x) && is_fin (Fin r0) then with_rf (with_inq x rest) false else with_inq x rest).
  assert (Ey : pre y = [] /\ inq y = rest /\ cl y = cl x /\ refusing y = cl x).
  { unfold y. destruct (cl x) eqn:C; simpl; repeat split; auto; unfold refusing; simpl; rewrite ?C; auto using orb_true_r. }
  destruct Ey as (Py & Iy & Cy & Ry).
  assert (S1x : seg1 x = []) by (unfold seg1; rewrite Px, Ei; reflexivity).
  assert (S2x : seg2 x = rest) by (unfold seg2; rewrite Ei; reflexivity).
  assert (Rs : datas (seg1 y) = [] /\ datas (seg2 y) = datas rest).
  { unfold seg1, seg2. rewrite Py, Iy. destruct T as [[-> _]|(Y' & ->)]; simpl; auto. }
  destruct Rs as [S1y S2y].
  assert (AD : acc y = acc x /\ doom y = doom x).
  { unfold acc, doom. rewrite Rx, Ry, Cy, S1x, S1y, S2y, S2x. destruct (cl x); simpl; auto. }
  destruct AD as [Ay Dy].
  assert (Hu : hiu (hwm s) [Fin (S r0)] = []).
  { rewrite hiu_single. simpl. apply Nat.ltb_ge in Hr0. now rewrite Hr0. }
  assert (Tx : tail_doomed x = cl x) by (unfold tail_doomed; rewrite Ei; reflexivity).
  assert (Ty : tail_doomed y = cl x).
  { unfold tail_doomed. rewrite Iy, Cy, Ry. now destruct (has_m rest). }
  apply inv2_bp_step; auto; fold x; fold y.
  - rewrite Ay. apply sub_refl.
  - rewrite Dy. apply sub_refl.
  - now rewrite Tx, Ty.
  - unfold hi_seq. rewrite !hi_up_eq, !hi_doom_eq.
    set (s' := put_bp (set_rq s (rq s ++ [Fin (S r0)])) b y).
    change (hwm s') with (hwm s). change (q s' ++ rq s') with (q s ++ rq s ++ [Fin (S r0)]).
    rewrite app_assoc, hiu_app, Hu, app_nil_r. apply sub_app; [apply sub_refl|].
    unfold s'. rewrite cur_bp_put_rq by exact Hb.
    destruct (match cur s with Some c => c =? b | None => false end) eqn:E; [|apply sub_refl].
    assert (cur_bp s = x) as ->. { unfold cur_bp. destruct (cur s); [|discriminate]. apply Nat.eqb_eq in E. now rewrite E. }
    rewrite Dy. apply sub_refl.
  - intros H Ec. exfalso.
    set (s' := put_bp (set_rq s (rq s ++ [Fin (S r0)])) b y) in *.
    rewrite hi_up_eq in H. change (hwm s') with (hwm s) in H. change (q s' ++ rq s') with (q s ++ rq s ++ [Fin (S r0)]) in H.
    rewrite app_assoc, hiu_app, Hu, app_nil_r in H. specialize (Khm H). unfold cur_bp in Khm. rewrite Ec in Khm. fold x in Khm.
    rewrite Ei in Khm. discriminate.
  - intros i r [H|[]]. discriminate.
  - intros c. rewrite Ei, Iy. intros [H|H]; [injection H as <-; right; now left|now left].
  - intros i r _. rewrite S1y. intros [].
  - intros i r C. rewrite S2y. intros H. apply (Kc2 b i r); fold x; [now rewrite <- Cy|now rewrite S2x].
  - intros _. rewrite S1y. constructor.
Qed.

Lemma inv2_recv mx s b d : Inv1 mx s -> Inv2 mx s -> Inv2 mx (bp_recv mx s b d).
Proof.
  intros I1 I2. unfold bp_recv. set (x := get_bp s b).
  destruct (wt x) eqn:Ew; auto. destruct (inq x) as [|m rest] eqn:Ei; auto.
  destruct (Nat.lt_ge_cases b (length (bps s))) as [Hb|Hb].
  2:{ unfold x in Ei. rewrite get_bp_default in Ei by auto. discriminate. }
  cbv zeta. destruct m as [i r|r|].
  - destruct (refusing x) eqn:Rx.
    + simpl negb. rewrite andb_false_r.
      exact (inv2_recv_bounce_data mx s b i r rest I1 I2 Hb Ei Rx).
    + assert (Pw : wt_items x = []) by (unfold wt_items; now rewrite Ew).
      destruct d as [|[|d]].
      * apply (inv2_recv_accept mx s b i r rest _ true I1 I2 Hb Ei Rx); auto.
        unfold pre, sent_items, wt_items. simpl. fold x. rewrite Ew. now rewrite !app_nil_r, <- !app_assoc.
      * apply (inv2_recv_accept mx s b i r rest _ true I1 I2 Hb Ei Rx); auto.
        unfold pre, sent_items, wt_items. simpl. fold x. rewrite Ew. now rewrite !app_nil_r, <- ?app_assoc.
      * apply (inv2_recv_accept mx s b i r rest _ false I1 I2 Hb Ei Rx); auto.
        unfold pre. simpl. now rewrite app_nil_r.
  - assert (Rx : refusing x = true). { destruct I1. destruct (i_tok_pos b [] r rest Ei) as (_ & R & _). exact R. }
    rewrite Rx. exact (inv2_recv_bounce_fin mx s b r rest I1 I2 Hb Ei).
  - exact (inv2_recv_syn mx s b rest I1 I2 Hb Ei).
Qed.

(* ---------------------------------------------------------------- responses *)
Lemma split_app {A} (m : A) : forall l1 l2 a b, l1 ++ m :: l2 = a ++ b ->
  (exists a2, a = l1 ++ m :: a2 /\ l2 = a2 ++ b) \/ (exists b1, b = b1 ++ m :: l2 /\ l1 = a ++ b1).
Proof.
  induction l1 as [|z l1 IH]; intros l2 a b E.
  - destruct a as [|w a]; simpl in E.
    + right. exists []. auto.
    + injection E as -> ->. left. exists a. auto.
  - destruct a as [|w a]; simpl in E.
    + right. exists (z :: l1). auto.
    + injection E as -> E. destruct (IH _ _ _ E) as [(a2 & -> & ->)|(b1 & -> & ->)].
      * left. exists a2. auto.
      * right. exists b1. auto.
Qed.

Lemma hid_all h d : Forall (fun x => h <= snd x) d -> hid h d = map (fun x => S (snd x)) d.
Proof.
  induction 1; auto. rewrite hid_cons. apply Nat.leb_le in H. rewrite H. simpl. now rewrite IHForall.
Qed.

Lemma hiu_bounce h mx l : nomark l -> Forall (fun x => h <= snd x) (datas l) ->
  sub (hiu h (bounce mx l)) (map (fun x => S (snd x)) (datas l)).
Proof.
  induction l as [|m l IH]; intros N F; [constructor|].
  apply nomark_cons in N as [N1 N2]. destruct m as [i r| |]; try discriminate.
  simpl in F. inversion F as [|? ? F1 F2]; subst. simpl in F1.
  unfold bounce in *. simpl. rewrite hiu_app. unfold bounce1 at 1.
  destruct (mx <=? r).
  - simpl. apply sub_skip. auto.
  - rewrite hiu_single. simpl. assert ((h <? S r) = true) as -> by (apply Nat.ltb_lt; lia). simpl. apply sub_keep. auto.
Qed.

Lemma bounce_data mx l i r : In (Data i r) (bounce mx l) -> exists r0, In (Data i r0) l /\ r = S r0.
Proof.
  intros H. apply in_bounce in H as (m0 & H0 & H1). unfold bounce1 in H1. destruct m0 as [i0 r0|r0|]; simpl in H1.
  - destruct (mx <=? r0); [destruct H1|]. destruct H1 as [H1|[]]. injection H1 as <- <-. eauto.
  - destruct (mx <=? r0); [destruct H1|]. destruct H1 as [H1|[]]. discriminate.
  - destruct H1.
Qed.

Lemma inv2_set_succ mx s sc : Inv2 mx s -> Inv2 mx (set_succ s sc).
Proof. intros I. destruct I. constructor; auto. Qed.

Lemma sub_datas_pre_m l : sub (datas (pre_m l)) (datas l).
Proof. rewrite <- (datas_split l). apply sub_app_l. Qed.
Lemma sub_datas_post_m l : sub (datas (post_m l)) (datas l).
Proof. rewrite <- (datas_split l). apply sub_app_r. Qed.

(* a healthy worker fails: everything it holds is bounced or doomed *)
Definition option_eq_dec (a b : option nat) : {a = b} + {a <> b}.
Proof. decide equality. apply Nat.eq_dec. Defined.

Lemma inv2_fail_healthy mx s b y : Inv1 mx s -> Inv2 mx s -> b < length (bps s) ->
  let x := get_bp s b in
  refusing x = false -> inq y = inq x -> pre y = [] ->
  ((rf y = true /\ cl y = false /\ pre x <> []) \/ cl y = true) ->
  Inv2 mx (put_bp (set_rq s (rq s ++ bounce mx (pre x))) b y).
Proof.
  intros I1 I2 Hb x Rx Ei Py Kind. pose proof I2 as I2'. dI2 I2'. dI1 I1.
  set (ex := bounce mx (pre x)). set (s' := put_bp (set_rq s (rq s ++ ex)) b y).
  set (P := datas (pre x)). set (D := datas (inq x)).
  destruct (acc_doom_healthy x Rx) as [Ax Dx]. rewrite datas_app in Ax. fold P D in Ax.
  assert (Npx : nomark (pre x)) by apply Hpnm.
  assert (Ry : refusing y = true).
  { unfold refusing. destruct Kind as [[K _]|K]; rewrite K; auto. apply orb_true_r. }
  (* no marker is pending when the worker holds data outside its input *)
  assert (Mk : pre x <> [] -> has_m (inq x) = false).
  { intros Hp. destruct (has_m (inq x)) eqn:M; auto. exfalso. pose proof (Hmarked b M Rx) as Z. fold x in Z.
    unfold seg1 in Z. rewrite datas_app in Z. apply app_eq_nil in Z as [Z _]. apply Hp. now apply datas_nomark_nil. }
  assert (ADy : acc y = [] /\ doom y = D).
  { destruct Kind as [(K1 & K2 & K3)|K].
    - destruct (acc_doom_rf y Ry K2) as [A B]. rewrite A, B, Py, Ei. simpl.
      specialize (Mk K3). apply nomark_has_m in Mk. now rewrite (post_m_nomark _ Mk), (pre_m_nomark _ Mk).
    - destruct (acc_doom_closing y K) as [A B]. rewrite A, B, Py, Ei. auto. }
  destruct ADy as [Ay Dy].
  assert (Ty : tail_doomed y = true).
  { unfold tail_doomed. rewrite Ei, Ry. destruct (has_m (inq x)) eqn:M; auto.
    destruct Kind as [(_ & _ & K3)|K]; auto. specialize (Mk K3). congruence. }
  assert (Tx : tail_doomed x = false).
  { unfold tail_doomed. rewrite Rx. destruct (healthy_cl x Rx) as [-> _]. now destruct (has_m (inq x)). }
  assert (HS0 : cur s = Some b -> hi_seq s = []).
  { intros Ec. destruct (hi_seq s) eqn:Eh; auto. exfalso. destruct Kht as (b' & E1 & E2); [try rewrite Eh; discriminate|].
    rewrite Ec in E1. injection E1 as <-. fold x in E2. congruence. }
  assert (Cx : cur s = Some b -> cur_bp s = x) by (intros Ec; unfold cur_bp; now rewrite Ec).
  assert (E0 : cur s <> Some b -> pre x = [] /\ D = []).
  { intros N. assert (Ea : acc x = []). { destruct (acc x) eqn:Ea; auto. exfalso. apply N. apply Kacc. fold x. rewrite Ea. discriminate. }
    rewrite Ea in Ax. symmetry in Ax. apply app_eq_nil in Ax as [A1 A2]. split; auto. now apply datas_nomark_nil. }
  assert (Lv : noninc (map snd (P ++ D)) /\ Forall (fun z => hwm s <= snd z) (P ++ D)).
  { destruct (option_eq_dec (cur s) (Some b)) as [Ec|N].
    - rewrite (Cx Ec), Ax in Klvls. exact Klvls.
    - destruct (E0 N) as [A1 A2]. unfold P. rewrite A1, A2. simpl. split; constructor. }
  destruct Lv as [Lv1 Lv2].
  assert (G : forall b', b' <> b -> get_bp s' b' = get_bp s b') by (intros; unfold s'; rewrite get_bp_put_other by auto; reflexivity).
  assert (Gy : get_bp s' b = y) by (apply get_bp_put_same; exact Hb).
  assert (Cb : cur_bp s' = if match cur s with Some c => c =? b | None => false end then y else cur_bp s).
  { unfold s'. now rewrite cur_bp_put_rq. }
  assert (Ceq : forall c, cur s = Some c -> (c =? b) = true -> cur s = Some b).
  { intros c E1 E2. apply Nat.eqb_eq in E2. now rewrite <- E2. }
  assert (Cne : match cur s with Some c => c =? b | None => false end = false -> cur s <> Some b).
  { intros E Ec. rewrite Ec, Nat.eqb_refl in E. discriminate. }
  assert (Hu : hi_up s' = hi_up s ++ hiu (hwm s) ex).
  { rewrite !hi_up_eq. change (hwm s') with (hwm s). change (q s' ++ rq s') with (q s ++ rq s ++ ex). now rewrite app_assoc, hiu_app. }
  assert (Pd : Forall (fun z => hwm s <= snd z) P /\ Forall (fun z => hwm s <= snd z) D) by (now apply Forall_app).
  destruct Pd as [Pd1 Pd2].
  assert (Hseq : cur s = Some b -> hi_seq s' = hiu (hwm s) ex ++ map (fun z => S (snd z)) D).
  { intros Ec. unfold hi_seq. rewrite Hu, hi_doom_eq. change (hwm s') with (hwm s). rewrite Cb, Ec, Nat.eqb_refl, Dy.
    pose proof (HS0 Ec) as Z. unfold hi_seq in Z. apply app_eq_nil in Z as [-> _]. simpl. now rewrite hid_all. }
  assert (Hne : cur s <> Some b -> hi_up s' = hi_up s /\ hi_doom s' = hi_doom s).
  { intros N. destruct (E0 N) as [A1 A2]. split.
    - rewrite Hu. unfold ex. rewrite A1. simpl. now rewrite app_nil_r.
    - rewrite !hi_doom_eq. change (hwm s') with (hwm s). rewrite Cb. destruct (cur s) as [c|]; auto.
      destruct (Nat.eqb_spec c b) as [E|E]; auto. exfalso. apply N. now rewrite E. }
  constructor.
  - intros b'. destruct (Nat.eq_dec b' b) as [Eb|N]; [subst b'; rewrite Gy, Ay; now intros []|rewrite G by auto; apply Kacc].
  - change (hwm s') with (hwm s). rewrite Cb. destruct (match cur s with Some c => c =? b | None => false end); auto.
    rewrite Ay. split; constructor.
  - destruct (option_eq_dec (cur s) (Some b)) as [Ec|N].
    + rewrite (Hseq Ec). eapply noninc_sub.
      * assert (Z : noninc (map (fun z => S (snd z)) (P ++ D))).
        { rewrite <- (map_map snd S). now apply noninc_map_S. }
        exact Z.
      * rewrite map_app. apply sub_app; [|apply sub_refl]. apply hiu_bounce; auto.
    + destruct (Hne N) as [H1 H2]. unfold hi_seq. now rewrite H1, H2.
  - intros b'. change (cur s') with (cur s). change (hwm s') with (hwm s).
    destruct (Nat.eq_dec b' b) as [Eb|N]; [subst b'; rewrite Gy, Dy|rewrite G by auto; apply Kho].
    intros N. destruct (E0 N) as [_ ->]. constructor.
  - change (cur s') with (cur s). intros H. destruct (option_eq_dec (cur s) (Some b)) as [Ec|N].
    + exists b. rewrite Gy. auto.
    + destruct (Hne N) as [H1 H2]. unfold hi_seq in H. rewrite H1, H2 in H. destruct (Kht H) as (b' & E1 & E2).
      exists b'. split; auto. rewrite G; auto. intros ->. auto.
  - intros H. rewrite Cb. destruct (option_eq_dec (cur s) (Some b)) as [Ec|N].
    + rewrite Ec, Nat.eqb_refl, Ei. apply Mk. intros Z.
      rewrite Hu in H. pose proof (HS0 Ec) as Z2. unfold hi_seq in Z2. apply app_eq_nil in Z2 as [Z2 _]. rewrite Z2 in H.
      unfold ex in H. rewrite Z in H. now apply H.
    + assert (match cur s with Some c => c =? b | None => false end = false) as ->.
      { destruct (cur s) as [c|]; auto. apply Nat.eqb_neq. intros ->. now apply N. }
      destruct (Hne N) as [H1 _]. rewrite H1 in H. auto.
  - change (hwm s') with (hwm s). change (q s' ++ rq s') with (q s ++ rq s ++ ex). intros l1 i r l2 E Hr.
    rewrite app_assoc in E. symmetry in E. apply split_app in E as [(a2 & E1 & E2)|(b1 & E1 & E2)].
    + subst l2. destruct (Kcu l1 i r a2) as (c & Hc & W); [now rewrite E1|exact Hr|].
      exists c. split; [exact Hc|]. destruct W as [W|(b' & W)]; [left; apply in_or_app; now left|].
      right. exists b'. destruct (Nat.eq_dec b' b) as [Eb|N]; [subst b'; rewrite Gy, Ei; exact W|now rewrite G].
    + exfalso. assert (Hi : In (Data i r) ex) by (rewrite E1; apply in_or_app; right; now left).
      apply bounce_data in Hi as (r0 & Hi & ->). apply in_datas in Hi. fold P in Hi.
      rewrite Forall_forall in Pd1. apply Pd1 in Hi. simpl in Hi. lia.
  - intros b' i r. change (hwm s') with (hwm s).
    destruct (Nat.eq_dec b' b) as [Eb|N]; [subst b'; rewrite Gy|rewrite G by auto; apply Kcd].
    intros _ Hi Hr. exfalso. unfold seg1 in Hi. rewrite Py, Ei in Hi. simpl in Hi.
    apply (sub_in _ _ _ (sub_datas_pre_m _)) in Hi. fold D in Hi. rewrite Forall_forall in Pd2. apply Pd2 in Hi. simpl in Hi. lia.
  - intros b' i r. change (hwm s') with (hwm s).
    destruct (Nat.eq_dec b' b) as [Eb|N]; [subst b'; rewrite Gy|rewrite G by auto; apply Kc2].
    intros _ Hi. unfold seg2 in Hi. rewrite Ei in Hi.
    apply (sub_in _ _ _ (sub_datas_post_m _)) in Hi. fold D in Hi. rewrite Forall_forall in Pd2. now apply Pd2 in Hi.
  - intros b'. change (hwm s') with (hwm s).
    destruct (Nat.eq_dec b' b) as [Eb|N]; [subst b'; rewrite Gy|rewrite G by auto; apply Ks1].
    rewrite Ei. intros M. pose proof (Hmarked b M Rx) as Z. fold x in Z. unfold seg1 in *. rewrite Py, Ei. simpl.
    rewrite datas_app in Z. apply app_eq_nil in Z as [_ ->]. constructor.
Qed.

(* a worker that refuses the partition loses its connection: what it had accepted after the marker is doomed too *)
Lemma inv2_close_rf mx s b y : Inv1 mx s -> Inv2 mx s -> b < length (bps s) ->
  let x := get_bp s b in
  refusing x = true -> cl x = false -> inq y = inq x -> pre y = [] -> cl y = true ->
  Inv2 mx (put_bp s b y).
Proof.
  intros I1 I2 Hb x Rx Cx Ei Py Cy. pose proof I2 as I2'. dI2 I2'. dI1 I1.
  assert (Px : pre x = []) by (apply Hpref; exact Rx).
  destruct (acc_doom_rf x Rx Cx) as [Ax Dx]. rewrite Px in Dx. simpl in Dx.
  destruct (acc_doom_closing y Cy) as [Ay Dy]. rewrite Py, Ei in Dy. simpl in Dy. rewrite <- datas_split in Dy. rewrite <- Ax, <- Dx in Dy.
  assert (Ry : refusing y = true) by now apply refusing_cl.
  assert (S1 : seg1 y = seg1 x) by (unfold seg1; now rewrite Py, Px, Ei).
  assert (S2 : seg2 y = seg2 x) by (unfold seg2; now rewrite Ei).
  assert (Ty : tail_doomed y = true). { unfold tail_doomed. rewrite Cy, Ry. now destruct (has_m (inq y)). }
  destruct (acc x) as [|a0 ar] eqn:Ea.
  - (* nothing accepted: only the flags change *)
    rewrite app_nil_r in Dy.
    apply inv2_bp_shrink'; auto; fold x.
    + rewrite Ay, Ea. constructor.
    + rewrite Ei. auto.
    + intros i r _. rewrite S1, Ei. apply Kcd. exact Rx.
    + intros i r _. rewrite S2. unfold seg2. rewrite <- Ax. intros [].
    + rewrite S1, Ei. apply Ks1.
    + rewrite Ei. intros H Ec. specialize (Khm H). unfold cur_bp in Khm. rewrite Ec in Khm. exact Khm.
  - (* b is the current worker and a marker is pending in its input *)
    assert (Ec : cur s = Some b). { apply Kacc. fold x. rewrite Ea. discriminate. }
    assert (Cxx : cur_bp s = x) by (unfold cur_bp; now rewrite Ec).
    assert (M : has_m (inq x) = true).
    { destruct (has_m (inq x)) eqn:M; auto. apply nomark_has_m in M. rewrite (post_m_nomark _ M) in Ax. discriminate. }
    assert (Tx : tail_doomed x = false). { unfold tail_doomed. now rewrite M. }
    assert (HS0 : hi_seq s = []).
    { destruct (hi_seq s) eqn:Eh; auto. exfalso. destruct Kht as (b' & E1 & E2); [try rewrite Eh; discriminate|].
      rewrite Ec in E1. injection E1 as <-. fold x in E2. congruence. }
    rewrite Cxx, Ea in Klvls. destruct Klvls as [Lv1 Lv2].
    assert (Lo : Forall (fun z => snd z < hwm s) (doom x)). { rewrite Dx. specialize (Ks1 b M). fold x in Ks1. unfold seg1 in Ks1. now rewrite Px in Ks1. }
    set (s' := put_bp s b y).
    assert (G : forall b', b' <> b -> get_bp s' b' = get_bp s b') by (intros; now apply get_bp_put_other).
    assert (Gy : get_bp s' b = y) by now apply get_bp_put_same.
    assert (Cb : cur_bp s' = y). { unfold s'. rewrite cur_bp_put by auto. now rewrite Ec, Nat.eqb_refl. }
    assert (Hu : hi_up s' = []). { unfold hi_seq in HS0. now apply app_eq_nil in HS0 as [? _]. }
    constructor.
    + intros b'. destruct (Nat.eq_dec b' b) as [Eb|N]; [subst b'; rewrite Gy, Ay; now intros []|rewrite G by auto; apply Kacc].
    + rewrite Cb, Ay. split; constructor.
    + unfold hi_seq. rewrite Hu, hi_doom_eq, Cb, Dy, hid_app. change (hwm s') with (hwm s).
      rewrite (hid_nil _ (doom x)) by (rewrite Forall_forall in Lo; auto). simpl.
      rewrite hid_all by exact Lv2. rewrite <- (map_map snd S). now apply noninc_map_S.
    + intros b' N. change (cur s') with (cur s) in N. rewrite G by (intros ->; auto). apply Kho. exact N.
    + intros _. exists b. change (cur s') with (cur s). rewrite Gy. auto.
    + rewrite Hu. intros H. now destruct H.
    + change (hwm s') with (hwm s). change (q s' ++ rq s') with (q s ++ rq s). intros l1 i r l2 E Hr.
      destruct (Kcu l1 i r l2 E Hr) as (c & Hc & W). exists c. split; auto. destruct W as [W|(b' & W)]; auto.
      right. exists b'. destruct (Nat.eq_dec b' b) as [Eb|N]; [subst b'; rewrite Gy, Ei; exact W|now rewrite G].
    + intros b' i r. change (hwm s') with (hwm s).
      destruct (Nat.eq_dec b' b) as [Eb|N]; [subst b'; rewrite Gy|rewrite G by auto; apply Kcd].
      intros _. rewrite S1, Ei. apply Kcd. exact Rx.
    + intros b' i r. change (hwm s') with (hwm s).
      destruct (Nat.eq_dec b' b) as [Eb|N]; [subst b'; rewrite Gy|rewrite G by auto; apply Kc2].
      intros _. rewrite S2. unfold seg2. rewrite <- Ax. intros H. rewrite Forall_forall in Lv2. now apply Lv2 in H.
    + intros b'. change (hwm s') with (hwm s).
      destruct (Nat.eq_dec b' b) as [Eb|N]; [subst b'; rewrite Gy|rewrite G by auto; apply Ks1].
      rewrite S1, Ei. apply Ks1.
Qed.

(* the answered set leaves the worker (success or failure of its messages); nothing is bounced *)
Lemma inv2_resp_keep mx s b y l : Inv1 mx s -> Inv2 mx s -> b < length (bps s) ->
  let x := get_bp s b in
  inq y = inq x -> rf y = rf x -> cl y = cl x -> pre x = l ++ pre y ->
  Inv2 mx (put_bp s b y).
Proof.
  intros I1 I2 Hb x Ei Erf Ecl Ep. pose proof I2 as I2'. dI2 I2'. dI1 I1.
  assert (Ry : refusing y = refusing x) by (unfold refusing; now rewrite Erf, Ecl).
  assert (S2 : seg2 y = seg2 x) by (unfold seg2; now rewrite Ei).
  assert (Sd : sub (datas (seg1 y)) (datas (seg1 x))).
  { unfold seg1. rewrite Ep, Ei, <- app_assoc, (datas_app l). apply sub_app_r. }
  assert (Pr : refusing x = true -> seg1 y = seg1 x).
  { intros R. unfold seg1. rewrite Ei. f_equal. pose proof (Hpref b R) as Z. fold x in Z. rewrite Z in Ep.
    symmetry in Ep. apply app_eq_nil in Ep as [_ ->]. now rewrite Z. }
  apply inv2_bp_shrink; auto; fold x.
  - unfold acc. rewrite Ry, Ecl, S2. destruct (refusing x); [apply sub_refl|]. apply sub_app; [exact Sd|apply sub_refl].
  - unfold doom. rewrite Ry, Ecl, S2. destruct (refusing x) eqn:R; auto. now rewrite Pr.
  - unfold tail_doomed. now rewrite Ei, Ecl, Ry.
  - now rewrite Ei.
  - intros i r R. rewrite Ry in R. rewrite (Pr R), Ei. now apply Kcd.
  - intros i r. rewrite Ecl, S2. apply Kc2.
  - rewrite Ei. intros M. eapply Forall_sub; [exact Sd|]. now apply Ks1.
  - rewrite Ei. intros H Ec. specialize (Khm H). unfold cur_bp in Khm. now rewrite Ec in Khm.
Qed.

Lemma bounce_app mx a b : bounce mx (a ++ b) = bounce mx a ++ bounce mx b.
Proof. unfold bounce. apply flat_map_app. Qed.
Lemma bounce_single mx m : bounce mx [m] = bounce1 mx m.
Proof. unfold bounce. simpl. apply app_nil_r. Qed.

Lemma inv2_resp mx s b addw : 1 <= mx -> Inv1 mx s -> Inv2 mx s -> Inv2 mx (bp_resp mx s b addw).
Proof.
  intros Hmx I1 I2. unfold bp_resp. set (x := get_bp s b).
  destruct (snt x) as [[l [[v base]|]]|] eqn:Es; auto.
  destruct (Nat.lt_ge_cases b (length (bps s))) as [Hb|Hb].
  2:{ unfold x in Es. rewrite get_bp_default in Es by auto. discriminate. }
  assert (Emx : (mx =? 0) = false) by (apply Nat.eqb_neq; lia). rewrite Emx.
  assert (Px : pre x = l ++ buf x ++ wt_items x). { unfold pre, sent_items. now rewrite Es. }
  assert (Hrx : refusing x = true -> pre x = []). { destruct I1. apply i_pre_ref. }
  assert (Keep : forall y sc, inq y = inq x -> rf y = rf x -> cl y = cl x -> pre y = buf x ++ wt_items x ->
                 Inv2 mx (put_bp (set_succ s sc) b y)).
  { intros y sc E1 E2 E3 E4. change (Inv2 mx (set_succ (put_bp s b y) sc)). apply inv2_set_succ.
    apply (inv2_resp_keep mx s b y l); auto. fold x. now rewrite Px, E4. }
  assert (Keep0 : forall y, inq y = inq x -> rf y = rf x -> cl y = cl x -> pre y = buf x ++ wt_items x ->
                 Inv2 mx (put_bp s b y)).
  { intros y E1 E2 E3 E4. apply (inv2_resp_keep mx s b y l); auto. fold x. now rewrite Px, E4. }
  assert (Fail : forall y, refusing x = false -> inq y = inq x -> pre y = [] ->
                 ((rf y = true /\ cl y = false /\ pre x <> []) \/ cl y = true) ->
                 forall s2, s2 = put_bp (set_rq s (rq s ++ bounce mx (pre x))) b y -> Inv2 mx s2).
  { intros y R E1 E2 K s2 ->. apply inv2_fail_healthy; auto. }
  destruct (wt x) as [w|] eqn:Ew.
  - assert (Pw : pre x = l ++ buf x ++ [w]). { rewrite Px. unfold wt_items. now rewrite Ew. }
    assert (Rx : refusing x = false). { destruct (refusing x) eqn:R; auto. rewrite Hrx in Pw by auto. destruct l, (buf x); discriminate. }
    destruct (healthy_cl x Rx) as [Cl Rf].
    assert (Wi : wt_items x = [w]) by (unfold wt_items; now rewrite Ew).
    assert (Bq : (rq s ++ bounce mx (l ++ buf x)) ++ bounce1 mx w = rq s ++ bounce mx (pre x)).
    { rewrite Pw, (app_assoc l), (bounce_app mx (l ++ buf x) [w]), bounce_single. now rewrite app_assoc. }
    destruct v; [| |destruct l as [|m0 l]|]; unfold refusing;
      cbn [with_snt with_rf with_cl with_buf with_wt with_ab rf cl wt buf ab snt inq]; rewrite ?Ew, ?Rf, ?Cl;
      cbn [orb]; try (destruct addw); lazy beta iota zeta.
    all: try (refine (Keep _ _ _ _ _ _); try reflexivity; rewrite Wi; unfold pre, sent_items, wt_items;
              cbn [with_snt with_rf with_cl with_buf with_wt with_ab rf cl wt buf ab snt inq]; rewrite ?Ew; now rewrite ?app_nil_r, <- ?app_assoc).
    all: try (refine (Keep0 _ _ _ _ _); try reflexivity; rewrite Wi; unfold pre, sent_items, wt_items;
              cbn [with_snt with_rf with_cl with_buf with_wt with_ab rf cl wt buf ab snt inq]; rewrite ?Ew; now rewrite ?app_nil_r, <- ?app_assoc).
    all: (match goal with |- Inv2 _ (set_bps _ (upd _ (fun _ => ?Y) _)) => apply (Fail Y Rx) end; try reflexivity).
    all: try (rewrite <- Bq; reflexivity).
    all: cbn [with_snt with_rf with_cl with_buf with_wt with_ab rf cl wt buf ab snt inq].
    all: try (left; repeat split; auto; rewrite Pw; discriminate).
    all: right; reflexivity.
  - assert (Pn : pre x = l ++ buf x). { rewrite Px. unfold wt_items. rewrite Ew. now rewrite app_nil_r. }
    assert (Wi : wt_items x = []) by (unfold wt_items; now rewrite Ew).
    destruct v; [| |destruct l as [|m0 l]|]; unfold refusing;
      cbn [with_snt with_rf with_cl with_buf with_wt with_ab rf cl wt buf ab snt inq]; rewrite ?Ew; lazy beta iota zeta.
    all: try (refine (Keep _ _ _ _ _ _); try reflexivity; rewrite Wi; unfold pre, sent_items, wt_items;
              cbn [with_snt with_rf with_cl with_buf with_wt with_ab rf cl wt buf ab snt inq]; rewrite ?Ew; now rewrite ?app_nil_r, <- ?app_assoc).
    all: try (refine (Keep0 _ _ _ _ _); try reflexivity; rewrite Wi; unfold pre, sent_items, wt_items;
              cbn [with_snt with_rf with_cl with_buf with_wt with_ab rf cl wt buf ab snt inq]; rewrite ?Ew; now rewrite ?app_nil_r, <- ?app_assoc).
    + assert (Rx : refusing x = false). { destruct (refusing x) eqn:R; auto. rewrite Hrx in Pn by auto. discriminate. }
      match goal with |- Inv2 _ (set_bps _ (upd _ (fun _ => ?Y) _)) => apply (Fail Y Rx) end; try reflexivity.
      * unfold pre, sent_items, wt_items. cbn [with_snt with_rf with_cl with_buf with_wt with_ab rf cl wt buf ab snt inq]. now rewrite Ew.
      * left. destruct (healthy_cl x Rx) as [Cl Rf]. repeat split; auto. rewrite Pn. discriminate.
      * now rewrite Pn.
    + destruct (refusing x) eqn:Rx.
      * pose proof (Hrx eq_refl) as P0. rewrite P0 in Pn. symmetry in Pn. apply app_eq_nil in Pn as [-> Eb]. rewrite Eb. simpl.
        match goal with |- Inv2 _ (set_bps _ (upd _ (fun _ => ?Y) _)) => change (Inv2 mx (put_bp (set_rq s (rq s ++ [])) b Y)) end.
        rewrite put_bp_rq_nil.
        destruct (cl x) eqn:Cx.
        -- eapply inv2_ext; [| | | | |exact I2]; try reflexivity.
           intros b'. apply beq_put; auto. fold x. repeat split; auto.
           rewrite P0. unfold pre, sent_items, wt_items. cbn [with_snt with_rf with_cl with_buf with_wt with_ab rf cl wt buf ab snt inq]. now rewrite Ew.
        -- apply inv2_close_rf; auto.
      * match goal with |- Inv2 _ (set_bps _ (upd _ (fun _ => ?Y) _)) => apply (Fail Y eq_refl) end; try reflexivity.
        -- unfold pre, sent_items, wt_items. cbn [with_snt with_rf with_cl with_buf with_wt with_ab rf cl wt buf ab snt inq]. now rewrite Ew.
        -- now right.
        -- now rewrite Pn.
Qed.

(* ---------------------------------------------------------------- partition-worker operations *)
Lemma inv2_park mx s i r rest : q s = Data i r :: rest -> Inv2 mx s -> Inv2 mx (park_head s r (Data i r)).
Proof.
  intros E I. eapply inv2_up_dsub; [| | | | |exact I]; simpl; auto; try reflexivity.
  - rewrite E. simpl. apply dsub_skip, dsub_refl.
  - intros c. unfold pend. simpl. now rewrite chs_set_lbuf.
Qed.

(* a doomed message is in the first segment of a refusing worker or in the second segment of a closing one *)
Lemma in_doom x i r : In (i, r) (doom x) ->
  (refusing x = true /\ In (i, r) (datas (seg1 x))) \/ (cl x = true /\ In (i, r) (datas (seg2 x))).
Proof.
  unfold doom. intros H. apply in_app_or in H as [H|H].
  - destruct (refusing x); [auto|destruct H].
  - destruct (cl x); [auto|destruct H].
Qed.

(* the level just above h' has no chaser pending: nothing of that level is on its way back *)
Lemma no_level_above mx s h' : Inv1 mx s -> Inv2 mx s -> hwm s = S h' -> ~ pend s (S h') ->
  (forall i, ~ In (Data i (S h')) (q s ++ rq s)) /\ (forall b i, ~ In (i, h') (doom (get_bp s b))) /\
  (forall b i, has_m (inq (get_bp s b)) = true -> ~ In (i, h') (datas (seg1 (get_bp s b)))).
Proof.
  intros I1 I2 Eh Np. dI2 I2. dI1 I1.
  assert (Nc : forall v c, S h' <= v -> covers s v c -> False).
  { intros v c Hv (A & B & _). pose proof (Hchs c B). assert (c = S h') by lia. subst. auto. }
  assert (D1 : forall b i, refusing (get_bp s b) = true -> ~ In (i, h') (datas (seg1 (get_bp s b)))).
  { intros b i R H. destruct (Kcd b i h' R H) as (c & Y & Hc & _); [lia|]. eapply Nc; [|exact Hc]. lia. }
  repeat split.
  - intros i H. apply in_split in H as (l1 & l2 & E). destruct (Kcu l1 i (S h') l2 E) as (c & Hc & _); [lia|].
    eapply Nc; [|exact Hc]. lia.
  - intros b i H. apply in_doom in H as [[R H]|[C H]].
    + eapply D1; eauto.
    + apply Kc2 in H; auto. lia.
  - intros b i M H. destruct (refusing (get_bp s b)) eqn:R.
    + eapply D1; eauto.
    + rewrite (Hmarked b M R) in H. destruct H.
Qed.

Lemma inv2_lower mx s h' : Inv1 mx s -> Inv2 mx s -> hwm s = S h' -> ~ pend s (S h') -> Inv2 mx (lower s h').
Proof.
  intros I1 I2 Eh Np. destruct (no_level_above mx s h' I1 I2 Eh Np) as (N1 & N2 & N3). dI2 I2.
  assert (Pe : forall c, pend (lower s h') c <-> pend s c). { intros c. unfold pend, lower. simpl. now rewrite chs_set_lbuf. }
  assert (Cv : forall v c, covers (lower s h') v c <-> covers s v c).
  { intros v c. unfold covers. rewrite Pe. split; intros (A & B' & C); repeat split; auto; intros c' H1 H2 H3; apply (C c' H1 H2); now apply Pe. }
  assert (Hu : hi_up (lower s h') = hi_up s).
  { rewrite !hi_up_eq. change (hwm (lower s h')) with h'. change (q (lower s h') ++ rq (lower s h')) with (q s ++ rq s). rewrite Eh.
    unfold hiu. f_equal. apply filter_ext_in. intros m Hm.
    destruct (Nat.ltb_spec h' (retries_of m)), (Nat.ltb_spec (S h') (retries_of m)); auto; try (exfalso; lia).
    exfalso. assert (retries_of m = S h') by lia.
    destruct m as [i r|r|]; simpl in *; try lia.
    + subst. eapply N1; eauto.
    + subst. destruct I1. apply i_tok_up in Hm. auto. }
  assert (Hdb : forall b, hid h' (doom (get_bp s b)) = hid (S h') (doom (get_bp s b))).
  { intros b. unfold hid. f_equal. apply filter_ext_in. intros [i r] Hm. cbn [snd].
    destruct (Nat.leb_spec h' r), (Nat.leb_spec (S h') r); auto; try (exfalso; lia).
    exfalso. assert (r = h') by lia. subst. eapply N2; eauto. }
  assert (Hd : hi_doom (lower s h') = hi_doom s).
  { rewrite !hi_doom_eq. change (hwm (lower s h')) with h'. rewrite Eh. change (cur_bp (lower s h')) with (cur_bp s).
    unfold cur_bp. destruct (cur s); [apply Hdb|reflexivity]. }
  constructor.
  - exact Kacc.
  - change (cur_bp (lower s h')) with (cur_bp s). change (hwm (lower s h')) with h'. destruct Klvls as [K1 K2]. split; auto.
    eapply Forall_impl; [|exact K2]. simpl. intros; lia.
  - unfold hi_seq. now rewrite Hu, Hd.
  - intros b N. change (hwm (lower s h')) with h'. specialize (Kho b N). rewrite Forall_forall in *. intros [i r] H.
    pose proof (Kho _ H) as Z. simpl in *. assert (r <> h') by (intros ->; eapply N2; eauto). lia.
  - unfold hi_seq. rewrite Hu, Hd. exact Kht.
  - rewrite Hu. exact Khm.
  - change (hwm (lower s h')) with h'. intros l1 i r l2 E Hr. destruct (Kcu l1 i r l2 E) as (c & Hc & W); [lia|].
    exists c. split; auto. now apply Cv.
  - change (hwm (lower s h')) with h'. intros b i r R H Hr. destruct (Kcd b i r R H) as (c & Y & Hc & E); [lia|].
    exists c, Y. split; auto. now apply Cv.
  - change (hwm (lower s h')) with h'. intros b i r C H. apply Kc2 in H; auto. lia.
  - change (hwm (lower s h')) with h'. intros b M. specialize (Ks1 b M). rewrite Forall_forall in *. intros [i r] H.
    pose proof (Ks1 _ H) as Z. simpl in *. assert (r <> h') by (intros ->; eapply N3; eauto). lia.
Qed.

Lemma hiu_cons h m l : hiu h (m :: l) = (if h <? retries_of m then [retries_of m] else []) ++ hiu h l.
Proof. unfold hiu. simpl. destruct (h <? retries_of m); reflexivity. Qed.

(* a fin read by the partition worker: its level is no longer pending *)
Lemma inv2_fin mx s c rest : Inv1 mx s -> Inv2 mx s -> q s = Fin c :: rest -> Inv2 mx (fin_seen (pop s) c).
Proof.
  intros I1 I2 E. dI2 I2. dI1 I1. set (s' := fin_seen (pop s) c).
  assert (Pc : pend s c) by (apply Htup; rewrite E; now left).
  assert (Hc1 : 1 <= c <= hwm s) by now apply Hchs.
  assert (Lc : c < length (lv s)) by lia.
  assert (Pe : forall c', pend s' c' <-> c' <> c /\ pend s c').
  { intros c'. unfold pend, s'. simpl. rewrite chs_set_chs by auto. destruct (Nat.eqb_spec c' c); intuition congruence. }
  assert (Cv : forall v c0, c0 <> c -> covers s v c0 -> covers s' v c0).
  { intros v c0 N (A & B & C). repeat split; auto. apply Pe; auto. intros c' H1 H2 H3. apply Pe in H3 as [_ H3]. eapply C; eauto. }
  assert (Nin : forall b', ~ In (Fin (c - 1)) (inq (get_bp s b'))).
  { intros b'. destruct c as [|c0]; [lia|]. replace (S c0 - 1) with c0 by lia. apply Hu3. rewrite E. now left. }
  assert (Up : q s ++ rq s = Fin c :: (q s' ++ rq s')). { unfold s'. simpl. now rewrite E. }
  assert (Nup : ~ In (Fin c) (q s' ++ rq s')).
  { rewrite Up in Hu1. simpl in Hu1. inversion Hu1; subst. intros H. apply H1. now apply in_fins. }
  assert (Hu : hi_up s' = hi_up s).
  { rewrite !hi_up_eq, Up. change (hwm s') with (hwm s). rewrite hiu_cons. simpl retries_of. assert ((hwm s <? c) = false) as -> by (apply Nat.ltb_ge; lia). reflexivity. }
  constructor.
  - exact Kacc.
  - exact Klvls.
  - unfold hi_seq. rewrite Hu. exact Khs.
  - exact Kho.
  - unfold hi_seq. rewrite Hu. exact Kht.
  - rewrite Hu. exact Khm.
  - change (hwm s') with (hwm s). intros l1 i r l2 E1 Hr.
    destruct (Kcu (Fin c :: l1) i r l2) as (c0 & Hc0 & W); [rewrite Up, E1; reflexivity|exact Hr|].
    assert (c0 <> c).
    { intros ->. destruct W as [W|(b' & W)]; [|eapply Nin; eauto]. apply Nup. rewrite E1. apply in_or_app. right. now right. }
    exists c0. split; [now apply Cv|exact W].
  - change (hwm s') with (hwm s). intros b i r R H Hr. destruct (Kcd b i r R H Hr) as (c0 & Y & Hc0 & EY).
    assert (c0 <> c). { intros ->. apply (Nin b). change (get_bp s' b) with (get_bp s b) in EY. rewrite EY. apply in_or_app. right. now left. }
    exists c0, Y. split; [now apply Cv|exact EY].
  - exact Kc2.
  - exact Ks1.
Qed.

Lemma pre_m_nomark_app l ds : nomark ds -> has_m l = false -> pre_m (l ++ ds) = l ++ ds.
Proof. intros N H. apply pre_m_nomark. apply nomark_app. split; auto. now apply nomark_has_m. Qed.

Lemma hid_const h d : Forall (fun z => snd z = h) d -> hid h d = map (fun _ => S h) d.
Proof.
  induction 1; auto. rewrite hid_cons, H, Nat.leb_refl. simpl. now rewrite IHForall.
Qed.

(* the partition worker sends messages of the current level to its worker *)
Lemma inv2_push_data mx s b ds : Inv1 mx s -> Inv2 mx s -> cur s = Some b -> nomark ds ->
  Forall (fun z => snd z = hwm s) (datas ds) -> Inv2 mx (push_inq s b ds).
Proof.
  intros I1 I2 Ec Nd Lv. pose proof I2 as I2'. dI2 I2'. dI1 I1.
  assert (Hb : b < length (bps s)) by auto.
  rewrite push_is_put. set (x := get_bp s b). set (y := with_inq x (inq x ++ ds)). set (s' := put_bp s b y).
  destruct (acc_push_data x ds Nd) as [Ay Dy]. fold y in Ay, Dy.
  assert (Cx : cur_bp s = x) by (unfold cur_bp; now rewrite Ec).
  assert (G : forall b', b' <> b -> get_bp s' b' = get_bp s b') by (intros; now apply get_bp_put_other).
  assert (Gy : get_bp s' b = y) by now apply get_bp_put_same.
  assert (Cb : cur_bp s' = y). { unfold s'. rewrite cur_bp_put by auto. now rewrite Ec, Nat.eqb_refl. }
  assert (Hm : has_m (inq y) = has_m (inq x)).
  { unfold y. simpl. rewrite has_m_app. apply nomark_has_m in Nd. rewrite Nd. apply orb_false_r. }
  assert (Ty : tail_doomed y = tail_doomed x) by (unfold tail_doomed; now rewrite Hm).
  assert (Fy : forall c, In (Fin c) (inq x) -> In (Fin c) (inq y)) by (intros; unfold y; simpl; apply in_or_app; now left).
  assert (S1m : has_m (inq x) = true -> seg1 y = seg1 x /\ seg2 y = seg2 x ++ ds).
  { intros M. unfold seg1, seg2, y. simpl. change (pre (with_inq x (inq x ++ ds))) with (pre x).
    now rewrite pre_m_app_marked, post_m_app_marked. }
  assert (S1n : has_m (inq x) = false -> seg1 y = seg1 x ++ ds /\ seg2 y = []).
  { intros M. unfold seg1, seg2, y. simpl. change (pre (with_inq x (inq x ++ ds))) with (pre x).
    apply nomark_has_m in M. rewrite pre_m_app_nomark, (pre_m_nomark _ M), (pre_m_nomark _ Nd), post_m_app_nomark, (post_m_nomark _ Nd) by auto.
    now rewrite app_assoc. }
  assert (Hup : hi_up s' = hi_up s) by reflexivity.
  assert (Gt : forall v, In v (hi_seq s) -> S (hwm s) <= v).
  { intros v H. unfold hi_seq in H. apply in_app_or in H as [H|H].
    - apply in_hiu in H as (m & _ & <- & H). lia.
    - rewrite hi_doom_eq in H. apply in_hid in H as (z & _ & <- & H). lia. }
  assert (Hds : hid (hwm s) (datas ds) = map (fun _ => S (hwm s)) (datas ds)) by now apply hid_const.
  assert (Old : forall i r, refusing y = true -> In (i, r) (datas (seg1 y)) -> r < hwm s ->
     exists c Y, covers s (S r) c /\ inq y = pre_m (inq y) ++ Fin (c - 1) :: Y).
  { intros i r R H Hr. change (refusing y) with (refusing x) in R. destruct (has_m (inq x)) eqn:M.
    - destruct (S1m eq_refl) as [E1 _]. rewrite E1 in H. destruct (Kcd b i r R H Hr) as (c & Y & Hc & E). fold x in E.
      exists c, (Y ++ ds). split; auto. unfold y. simpl. rewrite pre_m_app_marked by auto. rewrite E at 1. now rewrite <- app_assoc.
    - destruct (S1n eq_refl) as [E1 _]. rewrite E1, datas_app in H. apply in_app_or in H as [H|H].
      + exfalso. destruct (Kcd b i r R H Hr) as (c & Y & _ & E). fold x in E. apply nomark_has_m in M.
        apply (nomark_not_in (inq x) (Fin (c - 1))); auto. rewrite E. apply in_or_app. right. now left.
      + exfalso. rewrite Forall_forall in Lv. apply Lv in H. simpl in H. lia. }
  constructor.
  - intros b'. destruct (Nat.eq_dec b' b) as [Eb|N]; [subst b'; auto|rewrite G by auto; apply Kacc].
  - rewrite Cb. change (hwm s') with (hwm s). rewrite Ay. rewrite Cx in Klvls. destruct Klvls as [K1 K2].
    destruct (tail_doomed x); rewrite ?app_nil_r; auto. split.
    + rewrite map_app. apply noninc_app. repeat split; auto.
      * clear -Lv. induction Lv; simpl; constructor; auto. rewrite Forall_forall. intros v Hv. apply in_map_iff in Hv as (z & <- & Hz).
        rewrite Forall_forall in Lv. rewrite (Lv _ Hz), H. lia.
      * intros a c Ha Hc. apply in_map_iff in Ha as (z & <- & Hz). apply in_map_iff in Hc as (z' & <- & Hz').
        rewrite Forall_forall in K2, Lv. rewrite (Lv _ Hz'). apply K2 in Hz. lia.
    + apply Forall_app. split; auto. eapply Forall_impl; [|exact Lv]. simpl. intros; lia.
  - unfold hi_seq. rewrite Hup, hi_doom_eq, Cb, Dy. change (hwm s') with (hwm s). rewrite hid_app, app_assoc.
    assert (Hd0 : hi_doom s = hid (hwm s) (doom x)) by (rewrite hi_doom_eq, Cx; reflexivity).
    rewrite <- Hd0. fold (hi_seq s). destruct (tail_doomed x); [|simpl; now rewrite app_nil_r].
    rewrite Hds. apply noninc_app. repeat split; auto.
    + clear. induction (datas ds); simpl; constructor; auto. rewrite Forall_forall. intros v Hv. apply in_map_iff in Hv as (_ & <- & _). lia.
    + intros a c Ha Hc. apply in_map_iff in Hc as (_ & <- & _). apply Gt in Ha. lia.
  - intros b' N. change (cur s') with (cur s) in N. rewrite G by (intros ->; auto). apply Kho. exact N.
  - intros H. exists b. change (cur s') with (cur s). split; auto. rewrite Gy, Ty.
    destruct (tail_doomed x) eqn:T; auto. exfalso.
    assert (Z : hi_seq s' = hi_seq s).
    { unfold hi_seq. rewrite Hup, !hi_doom_eq, Cb, Dy, Cx, ?T. change (hwm s') with (hwm s). now rewrite app_nil_r. }
    rewrite Z in H. destruct (Kht H) as (b'' & E1 & E2). rewrite Ec in E1. injection E1 as <-. fold x in E2. congruence.
  - rewrite Hup, Cb, Hm. intros H. specialize (Khm H). now rewrite Cx in Khm.
  - change (hwm s') with (hwm s). change (q s' ++ rq s') with (q s ++ rq s). intros l1 i r l2 E Hr.
    destruct (Kcu l1 i r l2 E Hr) as (c & Hc & W). exists c. split; auto. destruct W as [W|(b' & W)]; auto.
    right. exists b'. destruct (Nat.eq_dec b' b) as [Eb|N]; [subst b'; rewrite Gy; now apply Fy|now rewrite G].
  - intros b' i r. change (hwm s') with (hwm s).
    destruct (Nat.eq_dec b' b) as [Eb|N]; [subst b'; rewrite Gy; apply Old|rewrite G by auto; apply Kcd].
  - intros b' i r. change (hwm s') with (hwm s).
    destruct (Nat.eq_dec b' b) as [Eb|N]; [subst b'; rewrite Gy|rewrite G by auto; apply Kc2].
    change (cl y) with (cl x). intros C H. destruct (has_m (inq x)) eqn:M.
    + destruct (S1m eq_refl) as [_ E2]. rewrite E2, datas_app in H. apply in_app_or in H as [H|H]; [apply (Kc2 b i r); auto|].
      rewrite Forall_forall in Lv. apply Lv in H. simpl in H. lia.
    + destruct (S1n eq_refl) as [_ E2]. rewrite E2 in H. destruct H.
  - intros b'. change (hwm s') with (hwm s).
    destruct (Nat.eq_dec b' b) as [Eb|N]; [subst b'; rewrite Gy|rewrite G by auto; apply Ks1].
    rewrite Hm. intros M. destruct (S1m M) as [E1 _]. rewrite E1. now apply Ks1.
Qed.

Lemma pre_m_snoc_marker l m : is_marker m = true -> pre_m (l ++ [m]) = pre_m l.
Proof. intros H. induction l as [|x l IH]; simpl; [now rewrite H|]. destruct (is_marker x); auto. now rewrite IH. Qed.

(* updateLeader succeeded *)
Lemma inv2_pickbp mx s b0 : Inv1 mx s -> Inv2 mx s -> cur s = None -> Inv2 mx (pickbp s b0).
Proof.
  intros I1 I2 Ec. unfold pickbp. destruct (pick s b0) as [s1 b'] eqn:Ep.
  destruct (pick_spec _ _ _ _ Ep) as (G0 & Hb' & Hlen1 & Hcl & Hab' & Eq & Erq & Eh & Elv & Ecur & _ & _ & Enx & _ & _).
  dI2 I2. dI1 I1. set (s' := set_cur (push_inq s1 b' [Syn]) (Some b')). set (x := get_bp s b').
  set (y := with_inq x (inq x ++ [Syn])).
  assert (Gb : forall b, get_bp s' b = if b =? b' then y else get_bp s b).
  { intros b. change (get_bp (push_inq s1 b' [Syn]) b = if b =? b' then y else get_bp s b).
    rewrite get_bp_push, !G0. apply Nat.ltb_lt in Hb'. now rewrite Hb', andb_true_r. }
  assert (Gy : get_bp s' b' = y) by (rewrite Gb; now rewrite Nat.eqb_refl).
  assert (G : forall b, b <> b' -> get_bp s' b = get_bp s b) by (intros b N; rewrite Gb; apply Nat.eqb_neq in N; now rewrite N).
  destruct (acc_push_marker x Syn eq_refl) as [Ay Dy]. fold y in Ay, Dy.
  assert (An : forall b, acc (get_bp s b) = []).
  { intros b. destruct (acc (get_bp s b)) eqn:E; auto. exfalso. assert (cur s = Some b) by (apply Kacc; rewrite E; discriminate). congruence. }
  assert (Hs0 : hi_seq s = []).
  { destruct (hi_seq s) eqn:E; auto. exfalso. destruct Kht as (b & E1 & _); [try rewrite E; discriminate|]. congruence. }
  assert (Nc : cur s <> Some b') by (rewrite Ec; discriminate).
  assert (Lo : Forall (fun z => snd z < hwm s) (doom x)) by (apply Kho; exact Nc).
  assert (Hu : hi_up s' = []).
  { unfold hi_seq in Hs0. apply app_eq_nil in Hs0 as [H _]. rewrite hi_up_eq in *. change (hwm s') with (hwm s1). change (q s' ++ rq s') with (q s1 ++ rq s1).
    now rewrite Eh, Eq, Erq. }
  assert (Cb : cur_bp s' = y) by (unfold cur_bp; simpl; exact Gy).
  assert (Hd : hi_doom s' = []).
  { rewrite hi_doom_eq, Cb, Dy. change (hwm s') with (hwm s1). rewrite Eh. apply hid_nil. intros z Hz. rewrite Forall_forall in Lo. auto. }
  assert (Pe : forall c, pend s' c <-> pend s c) by (intros c; unfold pend; simpl; now rewrite Elv).
  assert (Cv : forall v c, covers s' v c <-> covers s v c).
  { intros v c. unfold covers. rewrite Pe. split; intros (A & B' & C); repeat split; auto; intros c' H1 H2 H3; apply (C c' H1 H2); now apply Pe. }
  assert (S1 : seg1 y = seg1 x).
  { unfold seg1, y. simpl. change (pre (with_inq x (inq x ++ [Syn]))) with (pre x). now rewrite pre_m_snoc_marker. }
  constructor.
  - intros b. destruct (Nat.eq_dec b b') as [Eb|N]; [subst b; reflexivity|rewrite G by auto; rewrite An; now intros []].
  - rewrite Cb, Ay. unfold x. rewrite An. split; constructor.
  - unfold hi_seq. rewrite Hu, Hd. constructor.
  - intros b N. change (cur s') with (Some b') in N. change (hwm s') with (hwm s1). rewrite Eh. rewrite G by congruence. apply Kho. congruence.
  - unfold hi_seq. rewrite Hu, Hd. now intros [].
  - rewrite Hu. now intros [].
  - change (hwm s') with (hwm s1). change (q s' ++ rq s') with (q s1 ++ rq s1). rewrite Eh, Eq, Erq. intros l1 i r l2 E Hr.
    destruct (Kcu l1 i r l2 E Hr) as (c & Hc & W). exists c. split; [now apply Cv|]. destruct W as [W|(b & W)]; auto.
    right. exists b. destruct (Nat.eq_dec b b') as [Eb|N]; [subst b; rewrite Gy; unfold y; simpl; apply in_or_app; now left|now rewrite G].
  - intros b i r. change (hwm s') with (hwm s1). rewrite Eh.
    destruct (Nat.eq_dec b b') as [Eb|N]; [subst b; rewrite Gy|rewrite G by auto; intros R H Hr; destruct (Kcd b i r R H Hr) as (c & Y & Hc & E); exists c, Y; split; auto; now apply Cv].
    change (refusing y) with (refusing x). rewrite S1. intros R H Hr. destruct (Kcd b' i r R H Hr) as (c & Y & Hc & E). fold x in E.
    exists c, (Y ++ [Syn]). split; [now apply Cv|]. unfold y. simpl. rewrite pre_m_snoc_marker by auto. rewrite E at 1. now rewrite <- app_assoc.
  - intros b i r. change (hwm s') with (hwm s1). rewrite Eh.
    destruct (Nat.eq_dec b b') as [Eb|N]; [subst b; rewrite Gy|rewrite G by auto; apply Kc2].
    change (cl y) with (cl x). unfold x. rewrite Hcl. discriminate.
  - intros b. change (hwm s') with (hwm s1). rewrite Eh.
    destruct (Nat.eq_dec b b') as [Eb|N]; [subst b; rewrite Gy|rewrite G by auto; apply Ks1].
    intros _. rewrite S1. destruct (refusing x) eqn:R.
    + eapply Forall_sub; [|exact Lo]. unfold doom. rewrite R. apply sub_app_l.
    + destruct (acc_doom_healthy x R) as [A _]. unfold x in A at 1. rewrite (An b') in A. unfold seg1. rewrite datas_app.
      symmetry in A. rewrite datas_app in A. apply app_eq_nil in A as [A1 A2]. rewrite A1. simpl.
      eapply Forall_sub; [apply sub_datas_pre_m|]. rewrite A2. constructor.
Qed.

(* what is known when a message above the watermark reaches the partition worker *)
Lemma mark_pre mx s m rest : Inv2 mx s -> q s = m :: rest -> hwm s < retries_of m ->
  exists b, cur s = Some b /\ tail_doomed (get_bp s b) = true /\ nomark (inq (get_bp s b)) /\
            refusing (get_bp s b) = true /\ acc (get_bp s b) = [] /\
            (forall v, In v (hi_seq s) -> v <= retries_of m).
Proof.
  intros I E Hr. dI2 I.
  assert (Hu : hi_up s = retries_of m :: hiu (hwm s) (rest ++ rq s)).
  { rewrite hi_up_eq, E. simpl app. rewrite hiu_cons. apply Nat.ltb_lt in Hr. now rewrite Hr. }
  assert (Hne : hi_seq s <> []) by (unfold hi_seq; rewrite Hu; discriminate).
  destruct (Kht Hne) as (b & Ec & T). exists b.
  assert (M : has_m (inq (get_bp s b)) = false).
  { assert (H : hi_up s <> []) by (rewrite Hu; discriminate). specialize (Khm H). unfold cur_bp in Khm. now rewrite Ec in Khm. }
  assert (R : refusing (get_bp s b) = true) by (unfold tail_doomed in T; now rewrite M in T).
  repeat split; auto.
  - now apply nomark_has_m.
  - now apply tail_doomed_acc_nil.
  - intros v H. unfold hi_seq in Khs, H. rewrite Hu in Khs, H. simpl in Khs, H. inversion Khs; subst. destruct H as [<-|H]; auto.
    rewrite Forall_forall in H3. apply H3 in H. lia.
Qed.

Lemma inv2_mark mx s m rest b : Inv1 mx s -> Inv2 mx s -> q s = m :: rest -> hwm s < retries_of m ->
  cur s = Some b -> Inv2 mx (mark s b (retries_of m)).
Proof.
  intros I1 I2 E Hr Ec. destruct (mark_pre mx s m rest I2 E Hr) as (b0 & Ec0 & T & Nm & R & A0 & Hi).
  rewrite Ec in Ec0. injection Ec0 as <-. set (r := retries_of m) in *.
  dI2 I2. dI1 I1. set (s' := mark s b r). set (x := get_bp s b) in *. set (y := with_inq x (inq x ++ [Fin (r - 1)])).
  assert (Hb : b < length (bps s)) by auto.
  assert (Lr : r < length (lv s)).
  { assert (okitem mx (nxt s) m). { rewrite Forall_forall in Hokq. apply Hokq. rewrite E. now left. }
    destruct m; simpl in *; unfold r; simpl; lia. }
  assert (Gb : forall b', get_bp s' b' = if b' =? b then y else get_bp s b').
  { intros b'. change (get_bp (push_inq s b [Fin (r-1)]) b' = if b' =? b then y else get_bp s b').
    rewrite get_bp_push. apply Nat.ltb_lt in Hb. now rewrite Hb, andb_true_r. }
  assert (Gy : get_bp s' b = y) by (rewrite Gb; now rewrite Nat.eqb_refl).
  assert (G : forall b', b' <> b -> get_bp s' b' = get_bp s b') by (intros b' N; rewrite Gb; apply Nat.eqb_neq in N; now rewrite N).
  destruct (acc_push_marker x (Fin (r - 1)) eq_refl) as [Ay Dy]. fold y in Ay, Dy.
  assert (Pe : forall c, pend s' c <-> c = r \/ pend s c).
  { intros c. unfold pend, s', mark. simpl. rewrite chs_set_chs by auto. destruct (Nat.eqb_spec c r); intuition congruence. }
  assert (Np : forall c, hwm s < c -> ~ pend s c). { intros c Hc P. apply Hchs in P. lia. }
  assert (Cv1 : forall v c, covers s v c -> covers s' v c).
  { intros v c (A & B & C). assert (c <= hwm s) by (apply Hchs in B; lia). repeat split; auto. apply Pe; auto.
    intros c' H1 H2 H3. apply Pe in H3 as [->|H3]; [lia|]. eapply C; eauto. }
  assert (Cv2 : forall v, hwm s < v -> v <= r -> covers s' v r).
  { intros v H1 H2. repeat split; auto. apply Pe; auto. intros c' H3 H4 H5. apply Pe in H5 as [->|H5]; [lia|]. apply (Np c'); auto. lia. }
  assert (Dlt : forall b' i rho, In (i, rho) (doom (get_bp s b')) -> rho < r).
  { intros b' i rho H. destruct (Nat.eq_dec b' b) as [->|N].
    - destruct (Nat.lt_ge_cases rho (hwm s)); [lia|]. assert (S rho <= r); [|lia]. apply Hi. unfold hi_seq. apply in_or_app. right.
      rewrite hi_doom_eq. unfold cur_bp. rewrite Ec. apply in_hid. exists (i, rho). auto.
    - assert (cur s <> Some b') by congruence. specialize (Kho b' H0). rewrite Forall_forall in Kho. apply Kho in H. simpl in H. lia. }
  assert (Hu : hi_up s' = []).
  { rewrite hi_up_eq. change (hwm s') with r. change (q s' ++ rq s') with (q s ++ rq s). apply hiu_nil. intros m0 Hm.
    destruct (Nat.lt_ge_cases (hwm s) (retries_of m0)); [|lia]. apply Hi. unfold hi_seq. apply in_or_app. left. rewrite hi_up_eq.
    apply in_hiu. eauto. }
  assert (Hd : hi_doom s' = []) by reflexivity.
  assert (S1y : seg1 y = seg1 x).
  { unfold seg1, y. simpl. change (pre (with_inq x (inq x ++ [Fin (r - 1)]))) with (pre x). now rewrite pre_m_snoc_marker. }
  assert (Xs1 : datas (seg1 x) = doom x).
  { unfold doom. rewrite R. unfold seg1, seg2. rewrite (post_m_nomark _ Nm). simpl. destruct (cl x); now rewrite app_nil_r. }
  constructor.
  - intros b'. destruct (Nat.eq_dec b' b) as [Eb|N]; [subst b'; rewrite Gy, Ay; fold x; rewrite A0; now intros []|].
    rewrite G by auto. intros H. apply Kacc in H. congruence.
  - change (cur_bp s') with bpw0. split; constructor.
  - unfold hi_seq. rewrite Hu, Hd. constructor.
  - intros b' _. change (hwm s') with r. rewrite Forall_forall. intros [i rho] H. simpl.
    destruct (Nat.eq_dec b' b) as [Eb|N]; [subst b'; rewrite Gy, Dy in H|rewrite G in H by auto]; eapply Dlt; eauto.
  - unfold hi_seq. rewrite Hu, Hd. now intros [].
  - rewrite Hu. now intros [].
  - change (hwm s') with r. change (q s' ++ rq s') with (q s ++ rq s). intros l1 i rho l2 E1 Hrho.
    destruct (Nat.le_gt_cases rho (hwm s)) as [Hlo|Hhi].
    + destruct (Kcu l1 i rho l2 E1) as (c & Hc & W); [lia|]. exists c. split; [now apply Cv1|].
      destruct W as [W|(b' & W)]; auto. right. exists b'.
      destruct (Nat.eq_dec b' b) as [Eb|N]; [subst b'; rewrite Gy; unfold y; simpl; apply in_or_app; now left|now rewrite G].
    + exists r. split; [apply Cv2; lia|]. right. exists b. rewrite Gy. unfold y. simpl. apply in_or_app. right. now left.
  - intros b' i rho. change (hwm s') with r.
    destruct (Nat.eq_dec b' b) as [Eb|N]; [subst b'; rewrite Gy|rewrite G by auto].
    + intros _ H _. rewrite S1y, Xs1 in H. pose proof (Dlt b i rho H) as Z.
      destruct (Nat.lt_ge_cases rho (hwm s)) as [Hlo|Hhi].
      * exfalso. rewrite <- Xs1 in H. destruct (Kcd b i rho R H Hlo) as (c & Y & _ & EY). fold x in EY.
        apply (nomark_not_in (inq x) (Fin (c - 1))); auto. rewrite EY. apply in_or_app. right. now left.
      * exists r, []. split; [apply Cv2; lia|]. unfold y. simpl. rewrite pre_m_snoc_marker, (pre_m_nomark _ Nm) by auto. reflexivity.
    + intros R' H Hrho. assert (Hlo : rho < hwm s).
      { assert (cur s <> Some b') by congruence. specialize (Kho b' H0). rewrite Forall_forall in Kho.
        assert (In (i, rho) (doom (get_bp s b'))) by (unfold doom; rewrite R'; apply in_or_app; now left). apply Kho in H1. exact H1. }
      destruct (Kcd b' i rho R' H Hlo) as (c & Y & Hc & EY). exists c, Y. split; auto.
  - intros b' i rho. change (hwm s') with r.
    destruct (Nat.eq_dec b' b) as [Eb|N]; [subst b'; rewrite Gy|rewrite G by auto].
    + intros _. unfold seg2, y. simpl. rewrite post_m_app_nomark by auto. simpl. now intros [].
    + intros _. assert (cur s <> Some b') by congruence. destruct (Hnoncur b' H) as [P _]. unfold seg2. rewrite P. now intros [].
  - intros b'. change (hwm s') with r.
    destruct (Nat.eq_dec b' b) as [Eb|N]; [subst b'; rewrite Gy|rewrite G by auto].
    + intros _. rewrite S1y, Xs1. rewrite Forall_forall. intros [i rho] H. simpl. eapply Dlt; eauto.
    + intros M. specialize (Ks1 b' M). eapply Forall_impl; [|exact Ks1]. simpl. intros; lia.
Qed.
