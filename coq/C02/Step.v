(* C02 — the invariant (layers 1-4) holds initially and is preserved by every step of the model, for every
   Retry.Max >= 1: composition of the per-operation lemmas along partitionProducer.dispatch (incl. the loop of
   flushRetryBuffers) and the broker-worker steps. *)
From Coq Require Import List Arith Bool Lia Sorted.
From SV Require Import C02.Model C02.Defs C02.Lemmas C02.Prims C02.Inv1 C02.Inv2 C02.Inv3 C02.Inv4.
Import ListNotations.

(* ---------------------------------------------------------------- what the partition worker never touches *)
Definition Frame (s s' : st) : Prop :=
  crash s' = crash s /\ log s' = log s /\ succ s' = succ s /\ nxt s' = nxt s /\ rq s' = rq s /\
  forall b, snt (get_bp s' b) = snt (get_bp s b).
Lemma frame_refl s : Frame s s. Proof. repeat split. Qed.
Lemma frame_trans a b c : Frame a b -> Frame b c -> Frame a c.
Proof.
  intros (A1 & A2 & A3 & A4 & A5 & A6) (B1 & B2 & B3 & B4 & B5 & B6). repeat split; try congruence.
  all: try (intros x; now rewrite B6).
Qed.

Lemma frame_push s b ms : Frame s (push_inq s b ms).
Proof.
  repeat split. intros b'. rewrite get_bp_push. destruct ((b' =? b) && (b <? length (bps s))) eqn:E; auto.
  apply andb_true_iff in E as [E _]. apply Nat.eqb_eq in E. now subst.
Qed.
Lemma frame_pop s : Frame s (pop s). Proof. repeat split. Qed.
Lemma frame_mark s b r : Frame s (mark s b r).
Proof.
  repeat split. intros b'. change (get_bp (mark s b r) b') with (get_bp (push_inq s b [Fin (r - 1)]) b').
  apply (frame_push s b [Fin (r - 1)]).
Qed.
Lemma frame_park s r m : Frame s (park_head s r m). Proof. repeat split. Qed.
Lemma frame_fin s c : Frame s (fin_seen (pop s) c). Proof. repeat split. Qed.
Lemma frame_lower s h : Frame s (lower s h). Proof. repeat split. Qed.
Lemma frame_pickbp s b0 : Frame s (pickbp s b0).
Proof.
  unfold pickbp. destruct (pick s b0) as [s1 b'] eqn:Ep.
  destruct (pick_spec _ _ _ _ Ep) as (G0 & _ & _ & _ & _ & _ & Erq & _ & _ & _ & El & Es & En & Ec & _).
  repeat split; simpl; auto. intros b.
  change (get_bp (set_cur (push_inq s1 b' [Syn]) (Some b')) b) with (get_bp (push_inq s1 b' [Syn]) b).
  destruct (frame_push s1 b' [Syn]) as (_ & _ & _ & _ & _ & F). now rewrite F, G0.
Qed.

(* Inv4 only needs the effect on the logical list and the frame *)
Lemma inv4_frame mx s s' : Eff mx s s' -> Frame s s' -> Inv4 mx s -> Inv4 mx s'.
Proof. intros E (_ & F2 & F3 & _ & _ & F6). now apply inv4_eff. Qed.

(* ---------------------------------------------------------------- forwarding the head of the input *)
Definition Ok (mx : nat) (t t' : st) : Prop := Inv1 mx t' /\ Inv2 mx t' /\ Eff mx t t' /\ Frame t t'.

Lemma push_pop_ok mx t b i rho rest : Inv1 mx t -> Inv2 mx t -> Inv3 mx t ->
  q t = Data i rho :: rest -> hwm t = rho -> cur t = Some b -> Ok mx t (pop (push_inq t b [Data i rho])).
Proof.
  intros I1 I2 I3 Eq Eh Ec.
  assert (Nd : nomark [Data i rho]) by (repeat constructor).
  assert (Okm : Forall (okitem mx (nxt t)) [Data i rho]).
  { destruct I1. rewrite Eq in i_ok_q. simpl in i_ok_q. inversion i_ok_q; subst. constructor; [assumption|constructor]. }
  assert (Hrho : rho <= mx) by (destruct I1; lia).
  assert (Pk : park t rho = []). { unfold park. destruct I1. rewrite i_lv_top by lia. reflexivity. }
  split; [|split; [|split]].
  - apply (inv1_pop_data mx _ i rho rest); [apply inv1_push_data; auto|exact Eq].
  - apply (inv2_pop_data mx _ i rho rest); [exact Eq|]. apply inv2_push_data; auto. simpl. constructor; [simpl; congruence|constructor].
  - apply eff_sub.
    + rewrite (logical_at_pop mx t i rho rest Eq Pk).
      change (pop (push_inq t b [Data i rho])) with (push_inq (pop t) b [Data i rho]).
      apply (logical_push mx (pop t) b [Data i rho] rho); auto.
      * apply (inv1_pop_data mx t i rho rest); auto.
      * apply (inv2_pop_data mx t i rho rest); auto.
      * repeat constructor.
    + reflexivity.
    + destruct I3. exact i_rq_pos.
  - apply (frame_trans _ (push_inq t b [Data i rho])); [apply frame_push|apply frame_pop].
Qed.

Lemma ok_trans mx a b c : Ok mx a b -> Inv1 mx c -> Inv2 mx c -> Eff mx b c -> Frame b c -> Ok mx a c.
Proof.
  intros (_ & _ & E & F) I1 I2 E' F'. split; [|split; [|split]]; auto; [eapply eff_trans; eauto|eapply frame_trans; eauto].
Qed.

Lemma cur_none_acc mx s : Inv2 mx s -> cur s = None -> forall b, acc (get_bp s b) = [].
Proof.
  intros I Ec b. destruct I. destruct (acc (get_bp s b)) eqn:E; auto. exfalso.
  assert (cur s = Some b) by (apply i_acc_cur; rewrite E; discriminate). congruence.
Qed.

Lemma pickbp_facts mx s b0 : Inv1 mx s -> Inv2 mx s -> Inv3 mx s -> cur s = None ->
  Ok mx s (pickbp s b0) /\ Inv3 mx (pickbp s b0) /\ (exists b', cur (pickbp s b0) = Some b') /\
  q (pickbp s b0) = q s /\ hwm (pickbp s b0) = hwm s /\ lv (pickbp s b0) = lv s.
Proof.
  intros I1 I2 I3 Ec.
  assert (E : Eff mx s (pickbp s b0)).
  { apply eff_eq; [now apply logical_pickbp| |].
    - destruct (frame_pickbp s b0) as (_ & _ & _ & F & _). exact F.
    - destruct (frame_pickbp s b0) as (_ & _ & _ & _ & F & _). rewrite F. destruct I3. exact i_rq_pos. }
  split; [split; [|split; [|split]]|split; [|split; [|split; [|split]]]]; auto.
  - apply inv1_pickbp; auto. now apply (cur_none_acc mx).
  - now apply inv2_pickbp.
  - apply frame_pickbp.
  - eapply inv3_eff; eauto.
  - unfold pickbp. destruct (pick s b0) as [s1 b']. simpl. eauto.
  - unfold pickbp. destruct (pick s b0) as [s1 b'] eqn:Ep. destruct (pick_spec _ _ _ _ Ep) as (_ & _ & _ & _ & _ & Eq & _). exact Eq.
  - unfold pickbp. destruct (pick s b0) as [s1 b'] eqn:Ep. destruct (pick_spec _ _ _ _ Ep) as (_ & _ & _ & _ & _ & _ & _ & Eh & _). exact Eh.
  - unfold pickbp. destruct (pick s b0) as [s1 b'] eqn:Ep. destruct (pick_spec _ _ _ _ Ep) as (_ & _ & _ & _ & _ & _ & _ & _ & El & _). exact El.
Qed.

Lemma fwd_head_ok mx t lk i rho rest : Inv1 mx t -> Inv2 mx t -> Inv3 mx t ->
  q t = Data i rho :: rest -> hwm t = rho -> Ok mx t (fwd_head t lk).
Proof.
  intros I1 I2 I3 Eq Eh. unfold fwd_head. rewrite Eq.
  destruct (cur t) as [b|] eqn:Ec.
  - rewrite (ensure_bp_some t lk b Ec). unfold send_cur. rewrite Ec. now apply (push_pop_ok mx t b i rho rest).
  - destruct lk as [|[b0|] lk'].
    + unfold ensure_bp. rewrite Ec. split; [|split; [|split]].
      * apply (inv1_pop_data mx t i rho rest); auto.
      * apply (inv2_pop_data mx t i rho rest); auto.
      * apply (pop_data_eff mx t i rho rest); auto.
      * apply frame_pop.
    + rewrite (ensure_bp_pick t b0 lk' Ec). fold (pickbp t b0).
      destruct (pickbp_facts mx t b0 I1 I2 I3 Ec) as (O1 & J3 & (b' & Ec') & Eq' & Eh' & _).
      destruct O1 as (J1 & J2 & E1 & F1). unfold send_cur. rewrite Ec'.
      destruct (push_pop_ok mx (pickbp t b0) b' i rho rest J1 J2 J3) as (K1 & K2 & E2 & F2); try congruence.
      split; [|split; [|split]]; auto; [eapply eff_trans; eauto|eapply frame_trans; eauto].
    + unfold ensure_bp. rewrite Ec. split; [|split; [|split]].
      * apply (inv1_pop_data mx t i rho rest); auto.
      * apply (inv2_pop_data mx t i rho rest); auto.
      * apply (pop_data_eff mx t i rho rest); auto.
      * apply frame_pop.
Qed.

(* ---------------------------------------------------------------- flushRetryBuffers *)
Lemma logical_at_nil_sub mx s rho X : sub (logical_at mx s rho []) (logical_at mx s rho X).
Proof.
  apply levels_down_sub. intros r _. unfold level_at. destruct (r =? rho); [|apply sub_refl].
  apply sub_app; [apply sub_refl|]. simpl. apply sub_app_r.
Qed.
Lemma logical_at_nil mx s rho : logical_at mx s rho [] = logical mx s.
Proof. apply levels_down_ext. intros r _. unfold level_at, level. now destruct (r =? rho). Qed.

Lemma lbuf_facts mx t h' : Inv1 mx t -> let ms := lbuf (get_lvl h' (lv t)) in
  nomark ms /\ Forall (okitem mx (nxt t)) ms /\ Forall (fun z => snd z = h') (datas ms) /\ park t h' = map fst (datas ms).
Proof.
  intros I1 ms. destruct I1.
  assert (D : forall m, In m ms -> exists i, m = Data i h') by apply i_lv_data.
  assert (Lv : Forall (fun z => snd z = h') (datas ms)).
  { apply Forall_forall. intros [i r] H. apply in_datas in H. apply D in H as (j & E). injection E as _ ->. reflexivity. }
  repeat split; auto.
  - apply Forall_forall. intros m H. apply D in H as (i & ->). reflexivity.
  - apply i_ok_lv.
  - unfold park, ms in *. rewrite (at_lvl_const h' h' _ Lv). now rewrite Nat.eqb_refl.
Qed.

Lemma flush1_ok mx t h' lk : Inv1 mx t -> Inv2 mx t -> Inv3 mx t -> hwm t = S h' -> ~ pend t (S h') ->
  let t' := fst (flush1 t h' lk) in
  Ok mx t t' /\ hwm t' = h' /\ (forall c, pend t' c <-> pend t c).
Proof.
  intros I1 I2 I3 Eh Np. unfold flush1.
  destruct (lbuf_facts mx t h' I1) as (Nm & Okm & Lv & Pk). set (ms := lbuf (get_lvl h' (lv t))) in *.
  assert (Lh : h' < length (lv t)) by (destruct I1; lia).
  set (t1 := lower t h').
  assert (J1 : Inv1 mx t1) by now apply inv1_lower.
  assert (J2 : Inv2 mx t1) by now apply inv2_lower.
  assert (L0 : logical mx t = logical_at mx t1 h' (map fst (datas ms))) by (rewrite <- Pk; now apply logical_at_lower).
  assert (Rq : forall i r, In (Data i r) (rq t) -> 1 <= r) by (destruct I3; auto).
  assert (E1 : Eff mx t t1).
  { apply eff_sub; auto. rewrite L0, <- (logical_at_nil mx t1 h'). apply logical_at_nil_sub. }
  assert (J3 : Inv3 mx t1) by (eapply inv3_eff; eauto).
  assert (Pe1 : forall c, pend t1 c <-> pend t c) by (intros c; unfold pend, t1, lower; simpl; now rewrite chs_set_lbuf).
  assert (Okm1 : Forall (okitem mx (nxt t1)) ms) by exact Okm.
  assert (Push : forall u b, Inv1 mx u -> Inv2 mx u -> cur u = Some b -> hwm u = h' -> nxt u = nxt t ->
            logical_at mx u h' (map fst (datas ms)) = logical mx t -> rq u = rq t -> Frame t u -> (forall c, pend u c <-> pend t c) ->
            Ok mx t (push_inq u b ms) /\ hwm (push_inq u b ms) = h' /\ (forall c, pend (push_inq u b ms) c <-> pend t c)).
  { intros u b U1 U2 Uc Uh Un Ul Ur Uf Up. split; [split; [|split; [|split]]|split; auto].
    - apply inv1_push_data; auto. now rewrite Un.
    - apply inv2_push_data; auto. now rewrite Uh.
    - apply eff_sub; auto.
      + rewrite <- Ul. apply (logical_push mx u b ms h'); auto. destruct J1. simpl in i_hwm. exact i_hwm.
      + simpl. now rewrite Ur.
    - eapply frame_trans; [exact Uf|apply frame_push]. }
  destruct (cur t1) as [b|] eqn:Ec.
  - rewrite (ensure_bp_some t1 lk b Ec). unfold send_cur. rewrite Ec. simpl fst. apply Push; auto; try apply frame_lower; try (symmetry; exact L0).
  - destruct lk as [|[b0|] lk'].
    + unfold ensure_bp. rewrite Ec. simpl fst. split; [split; [|split; [|split]]|split]; auto. apply frame_lower.
    + rewrite (ensure_bp_pick t1 b0 lk' Ec). fold (pickbp t1 b0).
      destruct (pickbp_facts mx t1 b0 J1 J2 J3 Ec) as (O1 & _ & (b' & Ec') & _ & Eh' & Elv').
      destruct O1 as (K1 & K2 & (_ & En & _) & F1). unfold send_cur. rewrite Ec'. simpl fst.
      apply (Push (pickbp t1 b0) b' K1 K2 Ec').
      * rewrite Eh'. reflexivity.
      * rewrite En. reflexivity.
      * rewrite logical_at_pickbp; auto.
      * destruct F1 as (_ & _ & _ & _ & F & _). exact F.
      * eapply frame_trans; [apply frame_lower|exact F1].
      * intros c. unfold pend. rewrite Elv'. apply Pe1.
    + unfold ensure_bp. rewrite Ec. simpl fst. split; [split; [|split; [|split]]|split]; auto. apply frame_lower.
Qed.

Lemma flush_ok mx : forall h t lk, Inv1 mx t -> Inv2 mx t -> Inv3 mx t -> hwm t = S h -> ~ pend t (S h) ->
  Ok mx t (flush t (S h) lk).
Proof.
  induction h as [|h IH]; intros t lk I1 I2 I3 Eh Np.
  - simpl flush. destruct (flush1 t 0 lk) as [s3 lk1] eqn:E1.
    destruct (flush1_ok mx t 0 lk I1 I2 I3 Eh Np) as (O & _). rewrite E1 in O. simpl in O.
    rewrite orb_true_r. exact O.
  - change (flush t (S (S h)) lk) with
      (let '(s3, lk1) := flush1 t (S h) lk in if chs (get_lvl (S h) (lv t)) || (S h =? 0) then s3 else flush s3 (S h) lk1).
    destruct (flush1 t (S h) lk) as [s3 lk1] eqn:E1.
    destruct (flush1_ok mx t (S h) lk I1 I2 I3 Eh Np) as (O & Eh3 & Pe). rewrite E1 in O, Eh3, Pe. simpl in O, Eh3, Pe.
    destruct (chs (get_lvl (S h) (lv t))) eqn:C; simpl orb; [exact O|].
    destruct O as (J1 & J2 & E & F).
    assert (J3 : Inv3 mx s3) by (eapply inv3_eff; eauto).
    assert (Np3 : ~ pend s3 (S h)). { intros P. apply Pe in P. unfold pend in P. congruence. }
    destruct (IH s3 lk1 J1 J2 J3 Eh3 Np3) as (K1 & K2 & E' & F').
    split; [|split; [|split]]; auto; [eapply eff_trans; eauto|eapply frame_trans; eauto].
Qed.

(* ---------------------------------------------------------------- one iteration of partitionProducer.dispatch *)
Lemma ok_refl mx s : Inv1 mx s -> Inv2 mx s -> Inv3 mx s -> Ok mx s s.
Proof. intros. split; [|split; [|split]]; auto. apply frame_refl. Qed.

Lemma pp_ok mx s lk : 1 <= mx -> Inv1 mx s -> Inv2 mx s -> Inv3 mx s -> Ok mx s (pp_handle mx s lk).
Proof.
  intros Hmx I1 I2 I3. unfold pp_handle. destruct (q s) as [|m rest] eqn:Eq; [now apply ok_refl|].
  assert (Ab : abandon_check s = s).
  { unfold abandon_check. destruct (cur s) as [b|]; auto. destruct I1. now rewrite i_ab. }
  rewrite Ab. pose proof I1 as I1'. dI1 I1'.
  assert (Okm : okitem mx (nxt s) m). { rewrite Forall_forall in Hokq. apply Hokq. rewrite Eq. now left. }
  assert (Nsyn : m <> Syn). { intros ->. apply Hnosyn. rewrite Eq. now left. }
  assert (Fin_le : forall c, m = Fin c -> 1 <= c <= hwm s).
  { intros c ->. apply Hchs. apply Htup. rewrite Eq. now left. }
  set (r := retries_of m).
  destruct (Nat.ltb_spec (hwm s) r) as [Hhi|Hlo].
  - (* a new, higher retry level *)
    assert (Hr : r <= mx) by (destruct m; simpl in *; unfold r; simpl; lia).
    destruct (mark_pre mx s m rest I2 Eq Hhi) as (b & Ec & T & Nm & R & A0 & _).
    rewrite (ensure_bp_some s lk b Ec). cbn [negb]. cbv iota.
    assert ((mx <? r) = false) as -> by (apply Nat.ltb_ge; lia). rewrite Ec.
    destruct m as [i r0|c|]; [|exfalso; specialize (Fin_le c eq_refl); unfold r in Hhi; simpl in Hhi; lia|congruence].
    change (retries_of (Data i r0)) with r0 in *. subst r.
    set (t := mark s b r0).
    assert (J1 : Inv1 mx t) by (apply inv1_mark; auto).
    assert (J2 : Inv2 mx t) by (apply (inv2_mark mx s (Data i r0) rest b); auto).
    assert (E1 : Eff mx s t).
    { apply eff_eq; [now apply logical_mark|reflexivity|]. destruct I3. exact i_rq_pos. }
    assert (J3 : Inv3 mx t) by (eapply inv3_eff; eauto).
    destruct (fwd_head_ok mx t lk i r0 rest J1 J2 J3 Eq eq_refl) as (K1 & K2 & E2 & F2).
    split; [exact K1|split; [exact K2|split; [eapply eff_trans; eauto|eapply frame_trans; [apply frame_mark|exact F2]]]].
  - destruct (Nat.ltb_spec 0 (hwm s)) as [Hpos|Hzero].
    + destruct (Nat.ltb_spec r (hwm s)) as [Hlt|Hge].
      * (* below the watermark *)
        destruct m as [i r0|c|]; [| |congruence]; simpl is_fin; cbv iota.
        -- change (retries_of (Data i r0)) with r0 in *. subst r. split; [|split; [|split]].
           ++ apply (inv1_park mx s i r0 rest); auto.
           ++ apply (inv2_park mx s i r0 rest); auto.
           ++ apply (park_eff mx s i r0 rest); auto.
           ++ apply frame_park.
        -- change (retries_of (Fin c)) with c in *. subst r. split; [|split; [|split]].
           ++ apply (inv1_fin mx s c rest); auto.
           ++ apply (inv2_fin mx s c rest); auto.
           ++ apply (fin_eff mx s c rest); auto.
           ++ apply frame_fin.
      * assert (Er : r = hwm s) by lia.
        destruct m as [i r0|c|]; [| |congruence]; simpl is_fin; cbv iota.
        -- change (retries_of (Data i r0)) with r0 in *. subst r. apply (fwd_head_ok mx s lk i r0 rest); auto.
        -- (* the chaser of the current level: flush *)
           change (retries_of (Fin c)) with c in *. subst r. rewrite <- Er.
           set (t := fin_seen (pop s) c).
           assert (J1 : Inv1 mx t) by (apply (inv1_fin mx s c rest); auto).
           assert (J2 : Inv2 mx t) by (apply (inv2_fin mx s c rest); auto).
           assert (E1 : Eff mx s t) by (apply (fin_eff mx s c rest); auto).
           assert (J3 : Inv3 mx t) by (eapply inv3_eff; eauto).
           assert (Np : ~ pend t c).
           { unfold pend, t. simpl. rewrite chs_set_chs by lia. rewrite Nat.eqb_refl. discriminate. }
           destruct c as [|c']; [lia|].
           destruct (flush_ok mx c' t lk J1 J2 J3) as (K1 & K2 & E2 & F2); auto.
           split; [exact K1|split; [exact K2|split; [eapply eff_trans; eauto|eapply frame_trans; [apply frame_fin|exact F2]]]].
    + assert (Er : r = 0) by lia. assert (Eh : hwm s = 0) by lia.
      destruct m as [i r0|c|]; [|exfalso; specialize (Fin_le c eq_refl); lia|congruence].
      change (retries_of (Data i r0)) with r0 in *. subst r. apply (fwd_head_ok mx s lk i r0 rest); auto. lia.
Qed.

(* ---------------------------------------------------------------- the invariant *)
Definition Inv (mx : nat) (s : st) : Prop :=
  Inv1 mx s /\ Inv2 mx s /\ Inv3 mx s /\ Inv4 mx s /\ crash s = None.

Lemma get_lvl_repeat l n : get_lvl l (repeat lvl0 n) = lvl0.
Proof. unfold get_lvl. revert l. induction n; intros [|l]; simpl; auto. Qed.
Lemma get_lvl_repeat_S l n : get_lvl l (lvl0 :: repeat lvl0 n) = lvl0.
Proof. exact (get_lvl_repeat l (S n)). Qed.
Lemma get_bp_init mx b : get_bp (init mx) b = bpw0.
Proof. unfold get_bp. simpl. now destruct b. Qed.

Lemma logical_init mx : logical mx (init mx) = [].
Proof.
  apply levels_down_nil. intros r _. unfold level, fwd, park, upq, dmd, cur_bp.
  change (lv (init mx)) with (repeat lvl0 (S mx)). rewrite get_lvl_repeat. simpl. now destruct r.
Qed.

Ltac itriv := intros; unfold pend, cur_bp, nosyn, nomark, hi_seq, hi_up, hi_doom in *;
  try change (lv (init _)) with (repeat lvl0 (S _)) in *;
  rewrite ?get_bp_init, ?get_lvl_repeat in *; simpl in *; rewrite ?get_lvl_repeat, ?get_lvl_repeat_S in *; simpl in *;
  try (match goal with H : _ = ?X ++ _ :: _ |- _ => destruct X; discriminate end);
  try constructor; try easy; try lia; auto.

Lemma inv_init mx : Inv mx (init mx).
Proof.
  split; [|split; [|split; [|split]]]; [| | | |reflexivity].
  - constructor; itriv. f_equal. apply repeat_length.
  - constructor; itriv; unfold noninc; itriv.
  - constructor; simpl; rewrite ?logical_init; itriv.
  - constructor; simpl; rewrite ?logical_init; itriv.
Qed.

Lemma crash_recv mx s b d : crash (bp_recv mx s b d) = crash s.
Proof.
  unfold bp_recv. destruct (wt (get_bp s b)); auto. destruct (inq (get_bp s b)) as [|m rest]; auto.
  cbv zeta. destruct m; try destruct (refusing (get_bp s b)); try destruct d as [|[|d]]; reflexivity.
Qed.
Lemma crash_flush s b : crash (bp_flush s b) = crash s.
Proof. unfold bp_flush. destruct (snt (get_bp s b)); auto. destruct (b <? length (bps s)); reflexivity. Qed.
Lemma crash_answer s b v app : crash (answer s b v app) = crash s.
Proof.
  unfold answer. destruct (snt (get_bp s b)) as [[l [vb|]]|]; auto. destruct (match v with VOk => true | _ => app end); reflexivity.
Qed.
Lemma crash_resp mx s b addw : crash (bp_resp mx s b addw) = crash s.
Proof.
  unfold bp_resp. set (x := get_bp s b). destruct (snt x) as [[l [[v base]|]]|]; auto.
  destruct v; [| |destruct l|]; destruct (mx =? 0);
    cbn [with_snt with_rf with_cl with_buf with_wt with_ab rf cl wt buf ab snt inq];
    destruct (wt x); lazy beta iota zeta;
    repeat match goal with |- context [if ?c then _ else _] => destruct c end; reflexivity.
Qed.

Theorem inv_step mx s c : 1 <= mx -> Inv mx s -> Inv mx (step mx s c).
Proof.
  intros Hmx (I1 & I2 & I3 & I4 & Cr). unfold step. rewrite Cr.
  destruct c as [| |n|lk|b d|b|b v app|b addw]; unfold raw_step.
  - (* submit *)
    assert (J3 := inv3_submit mx s I3).
    split; [now apply inv1_submit|split; [now apply inv2_submit|split; [exact J3|split; [|exact Cr]]]].
    apply inv4_submit; auto.
    (* the logical list grows by the new index *)
    dI3 I3. simpl.
    assert (Rq0 : at_lvl 0 (datas (rq s)) = []).
    { apply at_lvl_none. intros i H. apply in_datas in H. apply Lrq in H. lia. }
    apply levels_down_snoc0.
    + intros r Hr _. apply level_eq_parts; auto. unfold upq. simpl. rewrite <- app_assoc. simpl.
      rewrite !datas_app, !at_lvl_app. simpl. rewrite at_lvl_cons. destruct (Nat.eqb_spec 0 r); [lia|reflexivity].
    + unfold level, fwd, park, upq, dmd. simpl. rewrite <- app_assoc. simpl.
      rewrite !datas_app, !at_lvl_app. simpl. rewrite at_lvl_cons. simpl. rewrite Rq0. now rewrite !app_nil_r, <- !app_assoc.
  - split; [now apply inv1_retry|split; [now apply inv2_retry|split; [now apply inv3_retry|split; [now apply inv4_retry|]]]].
    simpl. now destruct (rq s).
  - split; [now apply inv1_failq|split; [now apply inv2_failq|split; [now apply inv3_failq|split; [now apply inv4_failq|]]]].
    simpl. now destruct (nth_error (q s) n) as [[]|].
  - destruct (pp_ok mx s lk Hmx I1 I2 I3) as (J1 & J2 & E & F).
    split; [exact J1|split; [exact J2|split; [eapply inv3_eff; eauto|split; [eapply inv4_frame; eauto|]]]].
    destruct F as (F & _). congruence.
  - split; [now apply inv1_recv|split; [now apply inv2_recv|split; [now apply inv3_recv|split; [now apply inv4_recv|]]]].
    now rewrite crash_recv.
  - split; [now apply inv1_flush|split; [now apply inv2_flush|split; [now apply inv3_flush|split; [now apply inv4_flush|]]]].
    now rewrite crash_flush.
  - split; [now apply inv1_answer|split; [now apply inv2_answer|split; [now apply inv3_answer|split; [now apply inv4_answer|]]]].
    now rewrite crash_answer.
  - assert (J1 := inv1_resp mx s b addw Hmx I1). assert (J2 := inv2_resp mx s b addw Hmx I1 I2).
    split; [exact J1|split; [exact J2|split; [now apply inv3_resp|split; [now apply inv4_resp|]]]].
    now rewrite crash_resp.
Qed.

Theorem inv_run mx sched : 1 <= mx -> Inv mx (run mx sched).
Proof.
  intros Hmx. unfold run. generalize (inv_init mx). generalize (init mx). induction sched as [|c sched IH]; intros s I; simpl; auto.
  apply IH. now apply inv_step.
Qed.
