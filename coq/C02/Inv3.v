(* C02 — layer 3 of the invariant: the logical list is sorted.  Every step leaves the logical list unchanged,
   removes elements from it, or appends the freshly submitted (largest) index. *)
From Coq Require Import List Arith Bool Lia Sorted.
From SV Require Import C02.Model C02.Defs C02.Lemmas C02.Prims C02.Inv1 C02.Inv2.
Import ListNotations.

Ltac dI3 I := destruct I as [Lsorted Lfresh Lrq].

(* ---------------------------------------------------------------- levels *)
Lemma levels_down_S f n : levels_down f (S n) = f (S n) ++ levels_down f n.
Proof. reflexivity. Qed.

Lemma levels_down_adj f g n rho : S rho <= n ->
  (forall r, r <= n -> r <> rho -> r <> S rho -> g r = f r) ->
  g (S rho) ++ g rho = f (S rho) ++ f rho -> levels_down g n = levels_down f n.
Proof.
  induction n as [|n IH]; intros Hn He Ha; [lia|].
  rewrite !levels_down_S.
  destruct (Nat.eq_dec rho n) as [->|N].
  - destruct n as [|n'].
    + simpl. exact Ha.
    + rewrite !levels_down_S, !app_assoc, Ha. f_equal. apply levels_down_ext. intros r Hr. apply He; lia.
  - rewrite He by lia. f_equal. apply IH; [lia| |exact Ha]. intros r Hr N1 N2. apply He; lia.
Qed.

(* every level hands its first part to the level above: the top first part disappears *)
Lemma levels_down_shift (F M : nat -> list nat) n :
  levels_down (fun r => F r ++ M r) n =
  F n ++ levels_down (fun r => M r ++ match r with 0 => [] | S r' => F r' end) n.
Proof.
  induction n as [|n IH]; simpl.
  - now rewrite app_nil_r.
  - rewrite IH. now rewrite <- !app_assoc.
Qed.

Lemma logical_ext mx s s' : (forall r, r <= mx -> level s' r = level s r) -> logical mx s' = logical mx s.
Proof. apply levels_down_ext. Qed.
Lemma logical_sub mx s s' : (forall r, r <= mx -> sub (level s' r) (level s r)) -> sub (logical mx s') (logical mx s).
Proof. apply levels_down_sub. Qed.

Lemma inv3_eq mx s s' : logical mx s' = logical mx s -> nxt s' = nxt s ->
  (forall i r, In (Data i r) (rq s') -> 1 <= r) -> Inv3 mx s -> Inv3 mx s'.
Proof. intros E1 E2 E3 I. dI3 I. constructor; rewrite ?E1, ?E2; auto. Qed.
Lemma inv3_sub mx s s' : sub (logical mx s') (logical mx s) -> nxt s' = nxt s ->
  (forall i r, In (Data i r) (rq s') -> 1 <= r) -> Inv3 mx s -> Inv3 mx s'.
Proof.
  intros E1 E2 E3 I. dI3 I. constructor; rewrite ?E2; auto.
  - eapply sorted_sub; eauto.
  - eapply Forall_sub; eauto.
Qed.

(* the effect of a step that submits nothing: the logical list shrinks or stays, the retry queue keeps its shape *)
Definition Eff (mx : nat) (s s' : st) : Prop :=
  sub (logical mx s') (logical mx s) /\ nxt s' = nxt s /\ (forall i r, In (Data i r) (rq s') -> 1 <= r).
Lemma eff_eq mx s s' : logical mx s' = logical mx s -> nxt s' = nxt s ->
  (forall i r, In (Data i r) (rq s') -> 1 <= r) -> Eff mx s s'.
Proof. intros E1 E2 E3. repeat split; auto. rewrite E1. apply sub_refl. Qed.
Lemma eff_sub mx s s' : sub (logical mx s') (logical mx s) -> nxt s' = nxt s ->
  (forall i r, In (Data i r) (rq s') -> 1 <= r) -> Eff mx s s'.
Proof. intros E1 E2 E3. repeat split; auto. Qed.
Lemma eff_refl mx s : Inv3 mx s -> Eff mx s s.
Proof. intros I. destruct I. repeat split; auto. apply sub_refl. Qed.
Lemma inv3_eff mx s s' : Eff mx s s' -> Inv3 mx s -> Inv3 mx s'.
Proof. intros (E1 & E2 & E3). now apply inv3_sub. Qed.
#[export] Hint Resolve eff_refl : core.
Lemma eff_trans mx s1 s2 s3 : Eff mx s1 s2 -> Eff mx s2 s3 -> Eff mx s1 s3.
Proof. intros (A1 & A2 & A3) (B1 & B2 & B3). repeat split; auto; [eapply sub_trans; eauto|congruence]. Qed.

(* ---------------------------------------------------------------- flat_map over the workers *)
Lemma flat_map_upd_same {A B} (f : A -> list B) (g : A -> A) d : forall l b,
  f (g (nth b l d)) = f (nth b l d) -> flat_map f (upd b g l) = flat_map f l.
Proof.
  induction l as [|x l IH]; intros [|b] H; simpl in *; auto.
  - now rewrite H.
  - f_equal. auto.
Qed.

Lemma at_lvl_all_doom_put_same s b y r : at_lvl r (doom y) = at_lvl r (doom (get_bp s b)) ->
  at_lvl r (all_doom (put_bp s b y)) = at_lvl r (all_doom s).
Proof.
  intros H. unfold all_doom, put_bp. simpl. rewrite !at_lvl_flat_map.
  apply (flat_map_upd_same (fun x => at_lvl r (doom x)) (fun _ => y) bpw0). exact H.
Qed.

Lemma at_lvl_all_doom_put_same_rq s rqx b y r : at_lvl r (doom y) = at_lvl r (doom (get_bp s b)) ->
  at_lvl r (all_doom (put_bp (set_rq s rqx) b y)) = at_lvl r (all_doom s).
Proof. intros H. exact (at_lvl_all_doom_put_same (set_rq s rqx) b y r H). Qed.

Lemma at_lvl_all_doom_sole s b r : (forall b', b' <> b -> at_lvl r (doom (get_bp s b')) = []) ->
  at_lvl r (all_doom s) = at_lvl r (doom (get_bp s b)).
Proof.
  intros H. unfold all_doom. rewrite at_lvl_flat_map.
  apply (flat_map_sole (fun x => at_lvl r (doom x)) bpw0); auto.
Qed.

(* ---------------------------------------------------------------- one source of doomed messages per level *)
Lemma covers_unique s v c c' : covers s v c -> covers s v c' -> c = c'.
Proof.
  intros (A & B & C) (A' & B' & C'). destruct (Nat.lt_trichotomy c c') as [H|[H|H]]; auto; exfalso.
  - apply (C' c); auto.
  - apply (C c'); auto.
Qed.

Lemma doom_sole mx s b b' i i' r : Inv1 mx s -> Inv2 mx s ->
  In (i, r) (doom (get_bp s b)) -> In (i', r) (doom (get_bp s b')) -> b = b'.
Proof.
  intros I1 I2 H H'. dI2 I2. dI1 I1.
  destruct (Nat.lt_ge_cases r (hwm s)) as [Lo|Hi].
  - apply in_doom in H as [[R H]|[C H]]; [|apply Kc2 in H; auto; lia].
    apply in_doom in H' as [[R' H']|[C' H']]; [|apply Kc2 in H'; auto; lia].
    destruct (Kcd b i r R H Lo) as (c & Y & Hc & E). destruct (Kcd b' i' r R' H' Lo) as (c' & Y' & Hc' & E').
    assert (c = c') by (eapply covers_unique; eauto). subst c'.
    destruct (Nat.eq_dec b b') as [|N]; auto. exfalso. apply (Hu4 b b' (c - 1) N).
    + rewrite E. apply in_or_app. right. now left.
    + rewrite E'. apply in_or_app. right. now left.
  - assert (Cb : forall b0 i0, In (i0, r) (doom (get_bp s b0)) -> cur s = Some b0).
    { intros b0 i0 H0. destruct (option_eq_dec (cur s) (Some b0)) as [|N]; auto. exfalso.
      specialize (Kho b0 N). rewrite Forall_forall in Kho. apply Kho in H0. simpl in H0. lia. }
    apply Cb in H, H'. congruence.
Qed.

Lemma doom_sole_nil mx s b i r : Inv1 mx s -> Inv2 mx s -> In (i, r) (doom (get_bp s b)) ->
  forall b', b' <> b -> at_lvl r (doom (get_bp s b')) = [].
Proof.
  intros I1 I2 H b' N. apply at_lvl_none. intros i' H'. apply N. symmetry. eapply doom_sole; eauto.
Qed.

(* ---------------------------------------------------------------- broker-worker steps *)
Lemma level_eq_parts s s' r :
  fwd s' r = fwd s r -> park s' r = park s r -> upq s' r = upq s r -> dmd s' r = dmd s r -> level s' r = level s r.
Proof. unfold level. now intros -> -> -> ->. Qed.

Lemma dmd_put_same s rqx b y r : (forall r', at_lvl r' (doom y) = at_lvl r' (doom (get_bp s b))) ->
  dmd (put_bp (set_rq s rqx) b y) r = dmd s r.
Proof.
  intros H. destruct r as [|r']; [reflexivity|]. unfold dmd.
  exact (at_lvl_all_doom_put_same (set_rq s rqx) b y r' (H r')).
Qed.

Lemma fwd_put s rqx b y r : b < length (bps s) ->
  fwd (put_bp (set_rq s rqx) b y) r =
  at_lvl r (acc (if match cur s with Some c => c =? b | None => false end then y else cur_bp s)).
Proof. intros Hb. unfold fwd. now rewrite cur_bp_put_rq. Qed.

(* the worker holds the same messages in the same classes; the data on the way back is the same *)
Lemma logical_bp_same mx s b y rqx : b < length (bps s) ->
  acc y = acc (get_bp s b) -> doom y = doom (get_bp s b) -> datas (q s ++ rqx) = datas (q s ++ rq s) ->
  logical mx (put_bp (set_rq s rqx) b y) = logical mx s.
Proof.
  intros Hb Ea Ed Eu. apply logical_ext. intros r _. apply level_eq_parts.
  - rewrite fwd_put by auto. unfold fwd, cur_bp. destruct (cur s) as [c|]; auto.
    destruct (Nat.eqb_spec c b) as [->|N]; auto. now rewrite Ea.
  - reflexivity.
  - unfold upq. simpl. now rewrite Eu.
  - apply dmd_put_same. intros r'. now rewrite Ed.
Qed.

Lemma at_lvl_sub r l' l : sub l' l -> sub (at_lvl r l') (at_lvl r l).
Proof. intros H. unfold at_lvl. apply sub_map. now apply sub_filter_mono. Qed.

(* the worker gives up accepted messages (delivered, failed) *)
Lemma logical_bp_accsub mx s b y : b < length (bps s) ->
  sub (acc y) (acc (get_bp s b)) -> doom y = doom (get_bp s b) ->
  sub (logical mx (put_bp s b y)) (logical mx s).
Proof.
  intros Hb Ea Ed. apply logical_sub. intros r _. unfold level. apply sub_app; [|apply sub_app; [apply sub_refl|apply sub_app; [apply sub_refl|]]].
  - unfold fwd. rewrite cur_bp_put by auto. unfold cur_bp. destruct (cur s) as [c|]; [|apply sub_refl].
    destruct (Nat.eqb_spec c b) as [->|N]; [now apply at_lvl_sub|apply sub_refl].
  - rewrite <- (put_bp_rq_nil s b y). rewrite dmd_put_same; [apply sub_refl|]. intros r'. now rewrite Ed.
Qed.

Lemma at_lvl_all_doom_put_sole s rqx b y r : b < length (bps s) ->
  (forall b', b' <> b -> at_lvl r (doom (get_bp s b')) = []) ->
  at_lvl r (all_doom (put_bp (set_rq s rqx) b y)) = at_lvl r (doom y).
Proof.
  intros Hb H. set (s' := put_bp (set_rq s rqx) b y).
  rewrite (at_lvl_all_doom_sole s' b r).
  - unfold s'. now rewrite get_bp_put_same.
  - intros b' N. unfold s'. rewrite get_bp_put_other by auto. now apply H.
Qed.

Lemma logical_bounce_data mx s b i0 r0 rest : Inv1 mx s -> Inv2 mx s -> b < length (bps s) ->
  let x := get_bp s b in
  inq x = Data i0 r0 :: rest -> refusing x = true ->
  logical mx (put_bp (set_rq s (rq s ++ bounce1 mx (Data i0 r0))) b (with_inq x rest)) = logical mx s.
Proof.
  intros I1 I2 Hb x Ei Rx. set (y := with_inq x rest).
  assert (Px : pre x = []) by (destruct I1; unfold x; now apply i_pre_ref).
  assert (S1 : seg1 x = Data i0 r0 :: seg1 y). { unfold seg1. change (pre y) with (pre x). rewrite Px, Ei. reflexivity. }
  assert (S2 : seg2 x = seg2 y) by (unfold seg2; rewrite Ei; reflexivity).
  assert (Ax : acc y = acc x). { unfold acc. change (refusing y) with (refusing x). change (cl y) with (cl x). now rewrite Rx, S2. }
  assert (Dx : doom x = (i0, r0) :: doom y).
  { unfold doom. change (refusing y) with (refusing x). change (cl y) with (cl x). rewrite Rx, S1, S2. reflexivity. }
  assert (Hr0 : r0 <= mx).
  { destruct I1. specialize (i_ok_bp b). fold x in i_ok_bp. rewrite Ei in i_ok_bp. apply Forall_app in i_ok_bp as [_ H]. inversion H; subst. simpl in H2. lia. }
  assert (Sole : forall b', b' <> b -> at_lvl r0 (doom (get_bp s b')) = []).
  { apply (doom_sole_nil mx s b i0 r0 I1 I2). fold x. rewrite Dx. now left. }
  assert (Fw : forall r, fwd (put_bp (set_rq s (rq s ++ bounce1 mx (Data i0 r0))) b y) r = fwd s r).
  { intros r. rewrite fwd_put by auto. unfold fwd, cur_bp. destruct (cur s) as [c|]; auto.
    destruct (Nat.eqb_spec c b) as [->|N]; auto. fold x. now rewrite Ax. }
  assert (Dm : forall r, r <> r0 -> dmd (put_bp (set_rq s (rq s ++ bounce1 mx (Data i0 r0))) b y) (S r) = dmd s (S r)).
  { intros r N. unfold dmd. apply at_lvl_all_doom_put_same_rq. fold x. rewrite Dx, at_lvl_cons.
    destruct (Nat.eqb_spec r0 r); [congruence|reflexivity]. }
  assert (Eb : (mx <= r0 /\ bounce1 mx (Data i0 r0) = []) \/ (r0 < mx /\ bounce1 mx (Data i0 r0) = [Data i0 (S r0)])).
  { unfold bounce1. destruct (Nat.leb_spec mx r0); auto. }
  destruct Eb as [[Hm E]|[Hm E]]; rewrite E in *.
  - (* the retry budget is used up: the message fails; it was not listed *)
    apply logical_ext. intros r Hr. apply level_eq_parts; auto.
    + unfold upq. simpl. now rewrite app_nil_r.
    + destruct r as [|r']; [reflexivity|]. apply Dm. lia.
  - apply logical_ext. intros r Hr. destruct (Nat.eq_dec r (S r0)) as [->|N].
    + unfold level. rewrite Fw. f_equal. f_equal.
      assert (U : upq (put_bp (set_rq s (rq s ++ [Data i0 (S r0)])) b y) (S r0) = upq s (S r0) ++ [i0]).
      { unfold upq. simpl. rewrite app_assoc, datas_app, at_lvl_app. simpl. rewrite at_lvl_cons, Nat.eqb_refl. reflexivity. }
      rewrite U. unfold dmd. rewrite at_lvl_all_doom_put_sole by auto. rewrite (at_lvl_all_doom_sole s b r0) by auto.
      fold x. rewrite Dx, at_lvl_cons, Nat.eqb_refl. now rewrite <- app_assoc.
    + apply level_eq_parts; auto.
      * unfold upq. simpl. rewrite app_assoc, datas_app, at_lvl_app. simpl. rewrite at_lvl_cons.
        destruct (Nat.eqb_spec (S r0) r); [congruence|]. now rewrite app_nil_r.
      * destruct r as [|r']; [reflexivity|]. apply Dm. congruence.
Qed.

(* ---------------------------------------------------------------- a worker fails: everything accepted moves one level up *)
Lemma logical_shift mx s s' :
  (forall r, r <= mx -> level s' r = (park s r ++ upq s r ++ dmd s r) ++ match r with 0 => [] | S r' => fwd s r' end) ->
  sub (logical mx s') (logical mx s).
Proof.
  intros H. unfold logical. rewrite (levels_down_ext (level s') _ mx H).
  change (level s) with (fun r => fwd s r ++ (park s r ++ upq s r ++ dmd s r)).
  rewrite (levels_down_shift (fwd s) (fun r => park s r ++ upq s r ++ dmd s r) mx). apply sub_app_r.
Qed.

Lemma at_lvl_bounce mx l r : nomark l ->
  at_lvl r (datas (bounce mx l)) = match r with 0 => [] | S r' => if r' <? mx then at_lvl r' (datas l) else [] end.
Proof.
  intros N. induction l as [|m l IH].
  - unfold bounce. simpl. destruct r as [|r']; auto. destruct (r' <? mx); reflexivity.
  - apply nomark_cons in N as [N1 N2]. destruct m as [i q| |]; try discriminate.
    unfold bounce in *. simpl. rewrite datas_app, at_lvl_app, (IH N2). unfold bounce1.
    destruct (Nat.leb_spec mx q) as [H|H]; simpl.
    + destruct r as [|r']; auto. rewrite at_lvl_cons. destruct (Nat.ltb_spec r' mx); auto.
      destruct (Nat.eqb_spec q r'); auto. lia.
    + rewrite !at_lvl_cons. destruct r as [|r']; simpl; auto.
      destruct (Nat.eqb_spec q r') as [->|N].
      * apply Nat.ltb_lt in H. rewrite H, at_lvl_cons, Nat.eqb_refl. reflexivity.
      * rewrite (at_lvl_cons r' i q). destruct (Nat.eqb_spec q r'); [congruence|]. destruct (r' <? mx); auto.
Qed.

(* no message above the watermark is on its way back *)
Lemma no_high mx s : Inv2 mx s -> hi_seq s = [] -> forall r, hwm s < r -> upq s r = [] /\ dmd s r = [].
Proof.
  intros I H r Hr. dI2 I. unfold hi_seq in H. apply app_eq_nil in H as [H1 H2]. split.
  - unfold upq. apply at_lvl_none. intros i Hi. apply in_datas in Hi.
    assert (In r (hi_up s)). { rewrite hi_up_eq. apply in_hiu. exists (Data i r). auto. }
    rewrite H1 in H. destruct H.
  - destruct r as [|r']; [reflexivity|]. unfold dmd. apply at_lvl_none. intros i Hi. apply in_all_doom in Hi as (b & Hi).
    destruct (option_eq_dec (cur s) (Some b)) as [Ec|N].
    + assert (In (S r') (hi_doom s)). { rewrite hi_doom_eq. unfold cur_bp. rewrite Ec. apply in_hid. exists (i, r'). simpl. repeat split; auto. lia. }
      rewrite H2 in H. destruct H.
    + specialize (Kho b N). rewrite Forall_forall in Kho. apply Kho in Hi. simpl in Hi. lia.
Qed.

Lemma logical_fail_healthy mx s b y : Inv1 mx s -> Inv2 mx s -> b < length (bps s) ->
  let x := get_bp s b in
  refusing x = false -> inq y = inq x -> pre y = [] ->
  ((rf y = true /\ cl y = false /\ pre x <> []) \/ cl y = true) ->
  sub (logical mx (put_bp (set_rq s (rq s ++ bounce mx (pre x))) b y)) (logical mx s).
Proof.
  intros I1 I2 Hb x Rx Ei Py Kind. pose proof I2 as I2'. dI2 I2'. pose proof I1 as I1'. dI1 I1'.
  set (s' := put_bp (set_rq s (rq s ++ bounce mx (pre x))) b y).
  set (P := datas (pre x)). set (D := datas (inq x)).
  destruct (acc_doom_healthy x Rx) as [Ax Dx]. rewrite datas_app in Ax. fold P D in Ax.
  assert (Npx : nomark (pre x)) by apply Hpnm.
  assert (Ry : refusing y = true).
  { unfold refusing. destruct Kind as [[K _]|K]; rewrite K; auto. apply orb_true_r. }
  assert (Mk : pre x <> [] -> has_m (inq x) = false).
  { intros Hp. destruct (has_m (inq x)) eqn:M; auto. exfalso. pose proof (Hmarked b M Rx) as Z. fold x in Z.
    unfold seg1 in Z. rewrite datas_app in Z. apply app_eq_nil in Z as [Z _]. apply Hp. now apply datas_nomark_nil. }
  assert (ADy : acc y = [] /\ doom y = D).
  { destruct Kind as [(K1 & K2 & K3)|K].
    - destruct (acc_doom_rf y Ry K2) as [A B]. rewrite A, B, Py, Ei. simpl.
      specialize (Mk K3). apply nomark_has_m in Mk. now rewrite (post_m_nomark _ Mk), (pre_m_nomark _ Mk).
    - destruct (acc_doom_closing y K) as [A B]. rewrite A, B, Py, Ei. auto. }
  destruct ADy as [Ay Dy].
  destruct (acc x) as [|a0 ar] eqn:Ea.
  - (* the worker holds no data *)
    symmetry in Ax. apply app_eq_nil in Ax as [A1 A2]. assert (Ep : pre x = []) by now apply datas_nomark_nil.
    unfold s'. rewrite Ep. unfold bounce. simpl. rewrite logical_bp_same; auto; [apply sub_refl| | |].
    + fold x. now rewrite Ay, Ea.
    + fold x. now rewrite Dy, Dx.
    + now rewrite app_nil_r.
  - assert (Ec : cur s = Some b). { apply Kacc. fold x. rewrite Ea. discriminate. }
    assert (Cx : cur_bp s = x) by (unfold cur_bp; now rewrite Ec).
    assert (Tx : tail_doomed x = false).
    { unfold tail_doomed. rewrite Rx. destruct (healthy_cl x Rx) as [-> _]. now destruct (has_m (inq x)). }
    assert (HS0 : hi_seq s = []).
    { destruct (hi_seq s) eqn:Eh; auto. exfalso. destruct Kht as (b' & E1 & E2); [try rewrite Eh; discriminate|].
      rewrite Ec in E1. injection E1 as <-. fold x in E2. congruence. }
    rewrite <- Ea in *. rewrite Cx in Klvls. destruct Klvls as [_ Lv2]. rewrite Ax in Lv2.
    apply Forall_app in Lv2 as [LvP LvD].
    assert (Lo : forall r l, Forall (fun z => hwm s <= snd z) l -> r < hwm s -> at_lvl r l = []).
    { intros r l F Hr. apply at_lvl_none. intros i Hi. rewrite Forall_forall in F. apply F in Hi. simpl in Hi. lia. }
    apply logical_shift. intros r Hr. unfold level.
    assert (Fw : fwd s' r = []). { unfold s'. rewrite fwd_put by auto. now rewrite Ec, Nat.eqb_refl, Ay. }
    rewrite Fw. simpl. rewrite <- !app_assoc. f_equal.
    assert (Up : upq s' r = upq s r ++ match r with 0 => [] | S r' => if r' <? mx then at_lvl r' P else [] end).
    { unfold upq, s'. simpl. rewrite app_assoc, datas_app, at_lvl_app. now rewrite at_lvl_bounce. }
    rewrite Up. destruct r as [|r'].
    + now rewrite !app_nil_r.
    + assert (Hr' : r' <? mx = true) by (apply Nat.ltb_lt; lia). rewrite Hr'.
      unfold fwd at 1. rewrite Cx, Ax, at_lvl_app.
      destruct (Nat.lt_ge_cases r' (hwm s)) as [Hlo|Hhi].
      * rewrite (Lo r' P), (Lo r' D) by auto. rewrite !app_nil_r. f_equal. unfold dmd.
        apply at_lvl_all_doom_put_same_rq. fold x. now rewrite Dy, Dx, (Lo r' D).
      * destruct (no_high mx s I2 HS0 (S r')) as [U0 D0]; [lia|]. rewrite U0, D0. simpl. f_equal.
        unfold dmd. unfold s'. rewrite at_lvl_all_doom_put_sole; auto; [now rewrite Dy|].
        intros b' N. apply at_lvl_none. intros i Hi. assert (cur s <> Some b') by congruence.
        specialize (Kho b' H). rewrite Forall_forall in Kho. apply Kho in Hi. simpl in Hi. lia.
Qed.

Lemma logical_close_rf mx s b y : Inv1 mx s -> Inv2 mx s -> b < length (bps s) ->
  let x := get_bp s b in
  refusing x = true -> cl x = false -> inq y = inq x -> pre y = [] -> cl y = true ->
  sub (logical mx (put_bp s b y)) (logical mx s).
Proof.
  intros I1 I2 Hb x Rx Cx Ei Py Cy. pose proof I2 as I2'. dI2 I2'. pose proof I1 as I1'. dI1 I1'.
  assert (Px : pre x = []) by (apply Hpref; exact Rx).
  destruct (acc_doom_rf x Rx Cx) as [Ax Dx]. rewrite Px in Dx. simpl in Dx.
  destruct (acc_doom_closing y Cy) as [Ay Dy]. rewrite Py, Ei in Dy. simpl in Dy. rewrite <- datas_split in Dy. rewrite <- Ax, <- Dx in Dy.
  rewrite <- (put_bp_rq_nil s b y).
  destruct (acc x) as [|a0 ar] eqn:Ea.
  - rewrite app_nil_r in Dy. rewrite logical_bp_same; auto; [apply sub_refl| |now rewrite app_nil_r].
    fold x. now rewrite Ay, Ea.
  - assert (Ec : cur s = Some b). { apply Kacc. fold x. rewrite Ea. discriminate. }
    assert (Cxx : cur_bp s = x) by (unfold cur_bp; now rewrite Ec).
    assert (M : has_m (inq x) = true).
    { destruct (has_m (inq x)) eqn:M; auto. apply nomark_has_m in M. rewrite (post_m_nomark _ M) in Ax. discriminate. }
    assert (Tx : tail_doomed x = false). { unfold tail_doomed. now rewrite M. }
    assert (HS0 : hi_seq s = []).
    { destruct (hi_seq s) eqn:Eh; auto. exfalso. destruct Kht as (b' & E1 & E2); [try rewrite Eh; discriminate|].
      rewrite Ec in E1. injection E1 as <-. fold x in E2. congruence. }
    rewrite <- Ea in *. rewrite Cxx in Klvls. destruct Klvls as [_ Lv2].
    assert (LoD : Forall (fun z => snd z < hwm s) (doom x)). { rewrite Dx. specialize (Ks1 b M). fold x in Ks1. unfold seg1 in Ks1. now rewrite Px in Ks1. }
    set (s' := put_bp (set_rq s (rq s ++ [])) b y).
    apply logical_shift. intros r Hr. unfold level.
    assert (Fw : fwd s' r = []). { unfold s'. rewrite fwd_put by auto. now rewrite Ec, Nat.eqb_refl, Ay. }
    rewrite Fw. simpl. rewrite <- !app_assoc. f_equal.
    assert (Up : upq s' r = upq s r). { unfold upq, s'. simpl. now rewrite app_nil_r. }
    rewrite Up. f_equal. destruct r as [|r']; [reflexivity|].
    unfold fwd. rewrite Cxx.
    destruct (Nat.lt_ge_cases r' (hwm s)) as [Hlo|Hhi].
    + assert (at_lvl r' (acc x) = []) as ->.
      { apply at_lvl_none. intros i Hi. rewrite Forall_forall in Lv2. apply Lv2 in Hi. simpl in Hi. lia. }
      rewrite app_nil_r. unfold dmd. apply at_lvl_all_doom_put_same_rq. fold x. rewrite Dy, at_lvl_app.
      assert (at_lvl r' (acc x) = []) as ->; [|now rewrite app_nil_r].
      apply at_lvl_none. intros i Hi. rewrite Forall_forall in Lv2. apply Lv2 in Hi. simpl in Hi. lia.
    + destruct (no_high mx s I2 HS0 (S r')) as [_ D0]; [lia|]. rewrite D0. simpl.
      unfold dmd, s'. rewrite at_lvl_all_doom_put_sole; auto.
      * rewrite Dy, at_lvl_app. assert (at_lvl r' (doom x) = []) as ->; auto.
        apply at_lvl_none. intros i Hi. rewrite Forall_forall in LoD. apply LoD in Hi. simpl in Hi. lia.
      * intros b' N. apply at_lvl_none. intros i Hi. assert (cur s <> Some b') by congruence.
        specialize (Kho b' H). rewrite Forall_forall in Kho. apply Kho in Hi. simpl in Hi. lia.
Qed.

(* ---------------------------------------------------------------- Inv3 for the broker-worker steps *)
Lemma bounce1_rq_pos mx m i r : In (Data i r) (bounce1 mx m) -> 1 <= r.
Proof.
  unfold bounce1. destruct m as [i0 r0|r0|]; simpl; try easy; destruct (mx <=? r0); simpl; try easy.
  - intros [H|[]]. injection H as _ <-. lia.
  - intros [H|[]]. discriminate.
Qed.
Lemma bounce_rq_pos mx l i r : In (Data i r) (bounce mx l) -> 1 <= r.
Proof. intros H. apply in_bounce in H as (m0 & _ & H). eapply bounce1_rq_pos; eauto. Qed.

Lemma rq_pos_app s ex : (forall i r, In (Data i r) (rq s) -> 1 <= r) -> (forall i r, In (Data i r) ex -> 1 <= r) ->
  forall i r, In (Data i r) (rq s ++ ex) -> 1 <= r.
Proof. intros H1 H2 i r H. apply in_app_or in H as [H|H]; eauto. Qed.

Lemma recv_syn_class mx s b rest : Inv1 mx s -> let x := get_bp s b in inq x = Syn :: rest ->
  let y := with_rf (with_inq x rest) false in acc y = acc x /\ doom y = doom x.
Proof.
  intros I1 x Ei y. dI1 I1.
  assert (Nr : nomark rest) by (apply (Hspos b [] rest); exact Ei).
  assert (Px : refusing x = true -> pre x = []) by apply Hpref.
  assert (S1x : seg1 x = pre x) by (unfold seg1; rewrite Ei; simpl; now rewrite app_nil_r).
  assert (S2x : seg2 x = rest) by (unfold seg2; now rewrite Ei).
  assert (S1y : seg1 y = pre x ++ rest) by (unfold seg1, y; simpl; now rewrite (pre_m_nomark _ Nr)).
  assert (S2y : seg2 y = []) by (unfold seg2, y; simpl; now apply post_m_nomark).
  assert (Ry : refusing y = cl x) by reflexivity.
  unfold acc, doom. rewrite S1x, S2x, S1y, S2y, Ry. change (cl y) with (cl x).
  destruct (cl x) eqn:C.
  - rewrite (refusing_cl x C). rewrite Px by (now apply refusing_cl). simpl. now rewrite app_nil_r.
  - destruct (refusing x) eqn:R; simpl; rewrite ?app_nil_r, ?datas_app; auto. rewrite Px; auto.
Qed.

Lemma recv_fin_class mx s b r0 rest : Inv1 mx s -> let x := get_bp s b in inq x = Fin r0 :: rest ->
  let y := (if negb (cl x) && is_fin (Fin r0) then with_rf (with_inq x rest) false else with_inq x rest) in
  acc y = acc x /\ doom y = doom x.
Proof.
  intros I1 x Ei y. dI1 I1.
  destruct (Htpos b [] r0 rest Ei) as (_ & Rx & T). fold x in Rx.
  assert (Px : pre x = []) by (apply Hpref; exact Rx).
  assert (Ey : pre y = [] /\ inq y = rest /\ cl y = cl x /\ refusing y = cl x).
  { unfold y. destruct (cl x) eqn:C; simpl; repeat split; auto; unfold refusing; simpl; rewrite ?C; auto using orb_true_r. }
  destruct Ey as (Py & Iy & Cy & Ry).
  assert (S1x : seg1 x = []) by (unfold seg1; rewrite Px, Ei; reflexivity).
  assert (S2x : seg2 x = rest) by (unfold seg2; rewrite Ei; reflexivity).
  assert (Rs : datas (seg1 y) = [] /\ datas (seg2 y) = datas rest).
  { unfold seg1, seg2. rewrite Py, Iy. destruct T as [[-> _]|(Y' & ->)]; simpl; auto. }
  destruct Rs as [S1y S2y].
  unfold acc, doom. rewrite Rx, Ry, Cy, S1x, S1y, S2y, S2x. destruct (cl x); simpl; auto.
Qed.

Lemma recv_eff mx s b d : Inv1 mx s -> Inv2 mx s -> Inv3 mx s -> Eff mx s (bp_recv mx s b d).
Proof.
  intros I1 I2 I3. unfold bp_recv. set (x := get_bp s b).
  destruct (wt x) eqn:Ew; auto. destruct (inq x) as [|m rest] eqn:Ei; auto.
  destruct (Nat.lt_ge_cases b (length (bps s))) as [Hb|Hb].
  2:{ unfold x in Ei. rewrite get_bp_default in Ei by auto. discriminate. }
  pose proof I3 as I3'. dI3 I3'. pose proof I1 as I1'. dI1 I1'.
  assert (Hrx : refusing x = true -> pre x = []) by apply Hpref.
  cbv zeta. destruct m as [i r|r|].
  - destruct (refusing x) eqn:Rx.
    + simpl negb. rewrite andb_false_r.
      apply eff_eq; auto.
      * exact (logical_bounce_data mx s b i r rest I1 I2 Hb Ei Rx).
      * simpl. apply rq_pos_app; auto. intros i' r'. apply bounce1_rq_pos.
    + simpl is_fin. cbv iota.
      assert (Acc : forall y (keep : bool), inq y = rest -> rf y = rf x -> cl y = cl x ->
                pre y = pre x ++ (if keep then [Data i r] else []) ->
                sub (acc y) (acc x) /\ doom y = doom x /\ (keep = true -> acc y = acc x)).
      { intros y keep E1 E2 E3 E4. assert (Ry : refusing y = false) by (unfold refusing in *; now rewrite E2, E3).
        destruct (acc_doom_healthy x Rx) as [Ax Dx]. destruct (acc_doom_healthy y Ry) as [Ay Dy].
        rewrite Ax, Ay, Dx, Dy, E4, E1, Ei, <- app_assoc. repeat split.
        - apply datas_sub. apply sub_app; [apply sub_refl|]. destruct keep; simpl; [apply sub_refl|apply sub_skip, sub_refl].
        - intros ->. reflexivity. }
      assert (Pw : wt_items x = []) by (unfold wt_items; now rewrite Ew).
      destruct d as [|[|d]].
      * match goal with |- Eff _ _ (set_bps _ (upd _ (fun _ => ?Y) _)) => destruct (Acc Y true) as (_ & D & A); auto end.
        { unfold pre, sent_items, wt_items. simpl. fold x. rewrite Ew. now rewrite !app_nil_r, <- ?app_assoc. }
        apply eff_eq; auto.
        match goal with |- logical _ (set_bps _ (upd _ (fun _ => ?Y) _)) = _ => change (logical mx (put_bp s b Y) = logical mx s); rewrite <- (put_bp_rq_nil s b Y) end.
        apply logical_bp_same; auto. now rewrite app_nil_r.
      * match goal with |- Eff _ _ (set_bps _ (upd _ (fun _ => ?Y) _)) => destruct (Acc Y true) as (_ & D & A); auto end.
        { unfold pre, sent_items, wt_items. simpl. fold x. rewrite Ew. now rewrite !app_nil_r, <- ?app_assoc. }
        apply eff_eq; auto.
        match goal with |- logical _ (set_bps _ (upd _ (fun _ => ?Y) _)) = _ => change (logical mx (put_bp s b Y) = logical mx s); rewrite <- (put_bp_rq_nil s b Y) end.
        apply logical_bp_same; auto. now rewrite app_nil_r.
      * match goal with |- Eff _ _ (set_bps _ (upd _ (fun _ => ?Y) _)) => destruct (Acc Y false) as (S & D & _); auto end.
        { unfold pre. simpl. now rewrite app_nil_r. }
        apply eff_sub; auto.
        match goal with |- sub (logical _ (set_bps _ (upd _ (fun _ => ?Y) _))) _ => change (sub (logical mx (put_bp s b Y)) (logical mx s)) end.
        apply logical_bp_accsub; auto.
  - assert (Rx : refusing x = true). { destruct (Htpos b [] r rest Ei) as (_ & R & _). exact R. }
    rewrite Rx. destruct (recv_fin_class mx s b r rest I1 Ei) as [A D].
    apply eff_eq; auto.
    + match goal with |- logical _ (set_bps _ (upd _ (fun _ => ?Y) _)) = _ => change (logical mx (put_bp (set_rq s (rq s ++ bounce1 mx (Fin r))) b Y) = logical mx s) end.
      apply logical_bp_same; auto. rewrite app_assoc, datas_app.
      assert (datas (bounce1 mx (Fin r)) = []) as ->; [|now rewrite app_nil_r].
      unfold bounce1. now destruct (mx <=? r).
    + simpl. apply rq_pos_app; auto. intros i' r'. apply bounce1_rq_pos.
  - destruct (recv_syn_class mx s b rest I1 Ei) as [A D].
    apply eff_eq; auto.
    match goal with |- logical _ (set_bps _ (upd _ (fun _ => ?Y) _)) = _ => change (logical mx (put_bp s b Y) = logical mx s); rewrite <- (put_bp_rq_nil s b Y) end.
    apply logical_bp_same; auto. now rewrite app_nil_r.
Qed.

Lemma logical_beq mx s b y : b < length (bps s) -> beq (get_bp s b) y -> logical mx (put_bp s b y) = logical mx s.
Proof.
  intros Hb E. destruct (beq_acc _ _ E) as (A & D & _). rewrite <- (put_bp_rq_nil s b y).
  apply logical_bp_same; auto. now rewrite app_nil_r.
Qed.

Lemma flush_eff mx s b : Inv3 mx s -> Eff mx s (bp_flush s b).
Proof.
  intros I. unfold bp_flush. set (x := get_bp s b).
  destruct (snt x) eqn:Es; auto. destruct (Nat.ltb_spec b (length (bps s))) as [Hb|Hb]; auto.
  pose proof I as I'. dI3 I'. apply eff_eq; auto.
  match goal with |- logical _ (set_bps _ (upd _ (fun _ => ?Y) _)) = _ => change (logical mx (put_bp s b Y) = logical mx s) end.
  apply logical_beq; auto. repeat split; auto. fold x.
  unfold pre, sent_items, wt_items. simpl. rewrite Es. destruct (wt x); simpl; now rewrite ?app_nil_r.
Qed.

Lemma logical_set_log mx s l : logical mx (set_log s l) = logical mx s.
Proof. reflexivity. Qed.

Lemma answer_eff mx s b v app : Inv3 mx s -> Eff mx s (answer s b v app).
Proof.
  intros I. unfold answer. set (x := get_bp s b).
  destruct (snt x) as [[l [vb|]]|] eqn:Es; auto.
  destruct (Nat.lt_ge_cases b (length (bps s))) as [Hb|Hb].
  2:{ unfold x in Es. rewrite get_bp_default in Es by auto. discriminate. }
  pose proof I as I'. dI3 I'.
  assert (E : logical mx (put_bp s b (with_snt x (Some (l, Some (v, length (log s)))))) = logical mx s).
  { apply logical_beq; auto. repeat split; auto. fold x. unfold pre, sent_items, wt_items. simpl. now rewrite Es. }
  destruct (match v with VOk => true | _ => app end); apply eff_eq; auto.
Qed.

Lemma resp_keep_class mx s b y l : Inv1 mx s ->
  let x := get_bp s b in
  inq y = inq x -> rf y = rf x -> cl y = cl x -> pre x = l ++ pre y ->
  sub (acc y) (acc x) /\ doom y = doom x.
Proof.
  intros I1 x Ei Erf Ecl Ep. dI1 I1.
  assert (Ry : refusing y = refusing x) by (unfold refusing; now rewrite Erf, Ecl).
  assert (S2 : seg2 y = seg2 x) by (unfold seg2; now rewrite Ei).
  assert (Sd : sub (datas (seg1 y)) (datas (seg1 x))).
  { unfold seg1. rewrite Ep, Ei, <- app_assoc, (datas_app l). apply sub_app_r. }
  assert (Pr : refusing x = true -> seg1 y = seg1 x).
  { intros R. unfold seg1. rewrite Ei. f_equal. pose proof (Hpref b R) as Z. fold x in Z. rewrite Z in Ep.
    symmetry in Ep. apply app_eq_nil in Ep as [_ ->]. now rewrite Z. }
  split.
  - unfold acc. rewrite Ry, Ecl, S2. destruct (refusing x); [apply sub_refl|]. apply sub_app; [exact Sd|apply sub_refl].
  - unfold doom. rewrite Ry, Ecl, S2. destruct (refusing x) eqn:R; auto. now rewrite Pr.
Qed.

Lemma eff_set_succ mx s s' sc : Eff mx s s' -> Eff mx s (set_succ s' sc).
Proof. intros H. exact H. Qed.

Lemma resp_eff mx s b addw : 1 <= mx -> Inv1 mx s -> Inv2 mx s -> Inv3 mx s -> Eff mx s (bp_resp mx s b addw).
Proof.
  intros Hmx I1 I2 I3. unfold bp_resp. set (x := get_bp s b).
  destruct (snt x) as [[l [[v base]|]]|] eqn:Es; auto.
  destruct (Nat.lt_ge_cases b (length (bps s))) as [Hb|Hb].
  2:{ unfold x in Es. rewrite get_bp_default in Es by auto. discriminate. }
  assert (Emx : (mx =? 0) = false) by (apply Nat.eqb_neq; lia). rewrite Emx.
  assert (Px : pre x = l ++ buf x ++ wt_items x). { unfold pre, sent_items. now rewrite Es. }
  assert (Hrx : refusing x = true -> pre x = []). { destruct I1. apply i_pre_ref. }
  pose proof I3 as I3'. dI3 I3'.
  assert (Keep0 : forall y, inq y = inq x -> rf y = rf x -> cl y = cl x -> pre y = buf x ++ wt_items x ->
                 Eff mx s (put_bp s b y)).
  { intros y E1 E2 E3 E4. destruct (resp_keep_class mx s b y l I1) as [A D]; auto. { fold x. now rewrite Px, E4. }
    apply eff_sub; auto. apply logical_bp_accsub; auto. }
  assert (Keep : forall y sc, inq y = inq x -> rf y = rf x -> cl y = cl x -> pre y = buf x ++ wt_items x ->
                 Eff mx s (put_bp (set_succ s sc) b y)).
  { intros y sc E1 E2 E3 E4. change (Eff mx s (set_succ (put_bp s b y) sc)). apply eff_set_succ. now apply Keep0. }
  assert (Fail : forall y, refusing x = false -> inq y = inq x -> pre y = [] ->
                 ((rf y = true /\ cl y = false /\ pre x <> []) \/ cl y = true) ->
                 forall s2, s2 = put_bp (set_rq s (rq s ++ bounce mx (pre x))) b y -> Eff mx s s2).
  { intros y R E1 E2 K s2 ->. apply eff_sub; auto.
    - apply logical_fail_healthy; auto.
    - simpl. apply rq_pos_app; auto. intros i r. apply bounce_rq_pos. }
  destruct (wt x) as [w|] eqn:Ew.
  - assert (Pw : pre x = l ++ buf x ++ [w]). { rewrite Px. unfold wt_items. now rewrite Ew. }
    assert (Rx : refusing x = false). { destruct (refusing x) eqn:R; auto. rewrite Hrx in Pw by auto. destruct l, (buf x); discriminate. }
    destruct (healthy_cl x Rx) as [Cl Rf].
    assert (Wi : wt_items x = [w]) by (unfold wt_items; now rewrite Ew).
    assert (Bq : (rq s ++ bounce mx (l ++ buf x)) ++ bounce1 mx w = rq s ++ bounce mx (pre x)).
    { rewrite Pw, (app_assoc l), (bounce_app mx (l ++ buf x) [w]), bounce_single. now rewrite app_assoc. }
    destruct v; [| |destruct l as [|m0 l]|]; unfold refusing;
      cbn [with_snt with_rf with_cl with_buf with_wt with_ab rf cl wt buf ab snt inq]; rewrite ?Ew, ?Rf, ?Cl;
      cbn [orb]; try (destruct addw); lazy beta iota zeta.
    all: try (refine (Keep _ _ _ _ _ _); try reflexivity; rewrite Wi; unfold pre, sent_items, wt_items;
              cbn [with_snt with_rf with_cl with_buf with_wt with_ab rf cl wt buf ab snt inq]; rewrite ?Ew; now rewrite ?app_nil_r, <- ?app_assoc).
    all: try (refine (Keep0 _ _ _ _ _); try reflexivity; rewrite Wi; unfold pre, sent_items, wt_items;
              cbn [with_snt with_rf with_cl with_buf with_wt with_ab rf cl wt buf ab snt inq]; rewrite ?Ew; now rewrite ?app_nil_r, <- ?app_assoc).
    all: (match goal with |- Eff _ _ (set_bps _ (upd _ (fun _ => ?Y) _)) => apply (Fail Y Rx) end; try reflexivity).
    all: try (rewrite <- Bq; reflexivity).
    all: cbn [with_snt with_rf with_cl with_buf with_wt with_ab rf cl wt buf ab snt inq].
    all: try (left; repeat split; auto; rewrite Pw; discriminate).
    all: right; reflexivity.
  - assert (Pn : pre x = l ++ buf x). { rewrite Px. unfold wt_items. rewrite Ew. now rewrite app_nil_r. }
    assert (Wi : wt_items x = []) by (unfold wt_items; now rewrite Ew).
    destruct v; [| |destruct l as [|m0 l]|]; unfold refusing;
      cbn [with_snt with_rf with_cl with_buf with_wt with_ab rf cl wt buf ab snt inq]; rewrite ?Ew; lazy beta iota zeta.
    all: try (refine (Keep _ _ _ _ _ _); try reflexivity; rewrite Wi; unfold pre, sent_items, wt_items;
              cbn [with_snt with_rf with_cl with_buf with_wt with_ab rf cl wt buf ab snt inq]; rewrite ?Ew; now rewrite ?app_nil_r, <- ?app_assoc).
    all: try (refine (Keep0 _ _ _ _ _); try reflexivity; rewrite Wi; unfold pre, sent_items, wt_items;
              cbn [with_snt with_rf with_cl with_buf with_wt with_ab rf cl wt buf ab snt inq]; rewrite ?Ew; now rewrite ?app_nil_r, <- ?app_assoc).
    + assert (Rx : refusing x = false). { destruct (refusing x) eqn:R; auto. rewrite Hrx in Pn by auto. discriminate. }
      match goal with |- Eff _ _ (set_bps _ (upd _ (fun _ => ?Y) _)) => apply (Fail Y Rx) end; try reflexivity.
      * unfold pre, sent_items, wt_items. cbn [with_snt with_rf with_cl with_buf with_wt with_ab rf cl wt buf ab snt inq]. now rewrite Ew.
      * left. destruct (healthy_cl x Rx) as [Cl Rf]. repeat split; auto. rewrite Pn. discriminate.
      * now rewrite Pn.
    + destruct (refusing x) eqn:Rx.
      * pose proof (Hrx eq_refl) as P0. rewrite P0 in Pn. symmetry in Pn. apply app_eq_nil in Pn as [-> Eb]. rewrite Eb. simpl.
        match goal with |- Eff _ _ (set_bps _ (upd _ (fun _ => ?Y) _)) => change (Eff mx s (put_bp (set_rq s (rq s ++ [])) b Y)) end.
        rewrite put_bp_rq_nil.
        destruct (cl x) eqn:Cx.
        -- apply eff_eq; auto. apply logical_beq; auto. fold x. repeat split; auto.
           rewrite P0. unfold pre, sent_items, wt_items. cbn [with_snt with_rf with_cl with_buf with_wt with_ab rf cl wt buf ab snt inq]. now rewrite Ew.
        -- apply eff_sub; auto. apply logical_close_rf; auto.
      * match goal with |- Eff _ _ (set_bps _ (upd _ (fun _ => ?Y) _)) => apply (Fail Y eq_refl) end; try reflexivity.
        -- unfold pre, sent_items, wt_items. cbn [with_snt with_rf with_cl with_buf with_wt with_ab rf cl wt buf ab snt inq]. now rewrite Ew.
        -- now right.
        -- now rewrite Pn.
Qed.

(* ---------------------------------------------------------------- simple steps *)
Lemma levels_down_snoc0 f g n X : (forall r, 1 <= r -> r <= n -> g r = f r) -> g 0 = f 0 ++ X ->
  levels_down g n = levels_down f n ++ X.
Proof.
  induction n as [|n IH]; intros H1 H0.
  - exact H0.
  - rewrite !levels_down_S. rewrite H1 by lia. rewrite <- app_assoc. f_equal. apply IH; [intros r A B; apply H1; lia|exact H0].
Qed.

Lemma inv3_submit mx s : Inv3 mx s -> Inv3 mx (raw_step mx s CSubmit).
Proof.
  intros I. dI3 I. simpl. set (s' := set_nxt (set_q s (q s ++ [Data (nxt s) 0])) (S (nxt s))).
  assert (Rq0 : at_lvl 0 (datas (rq s)) = []).
  { apply at_lvl_none. intros i H. apply in_datas in H. apply Lrq in H. lia. }
  assert (E : logical mx s' = logical mx s ++ [nxt s]).
  { apply levels_down_snoc0.
    - intros r Hr _. apply level_eq_parts; auto. unfold upq, s'. simpl. rewrite <- app_assoc. simpl.
      rewrite !datas_app, !at_lvl_app. simpl. rewrite at_lvl_cons. destruct (Nat.eqb_spec 0 r); [lia|reflexivity].
    - unfold level, fwd, park, upq, dmd, s'. simpl. rewrite <- app_assoc. simpl.
      rewrite !datas_app, !at_lvl_app. simpl. rewrite at_lvl_cons. simpl. rewrite Rq0. now rewrite !app_nil_r, <- !app_assoc. }
  constructor.
  - rewrite E. apply sorted_snoc; auto.
  - rewrite E. simpl. apply Forall_app. split; [|repeat constructor]. eapply Forall_impl; [|exact Lfresh]. simpl. intros; lia.
  - exact Lrq.
Qed.

Lemma retry_eff mx s : Inv3 mx s -> Eff mx s (raw_step mx s CRetry).
Proof.
  intros I. simpl. destruct (rq s) as [|m r] eqn:E; auto. pose proof I as I'. dI3 I'.
  apply eff_eq; auto.
  - apply logical_ext. intros r0 _. apply level_eq_parts; auto. unfold upq. simpl. now rewrite E, <- app_assoc.
  - simpl. intros i r0 H. apply (Lrq i r0). rewrite E. now right.
Qed.

(* data messages disappear from the way back *)
Lemma logical_up_sub mx s s' : sub (datas (q s' ++ rq s')) (datas (q s ++ rq s)) ->
  lv s' = lv s -> cur s' = cur s -> bps s' = bps s -> sub (logical mx s') (logical mx s).
Proof.
  intros Hu El Ec Eb. apply logical_sub. intros r _. unfold level.
  assert (fwd s' r = fwd s r) as -> by (unfold fwd, cur_bp, get_bp; now rewrite Ec, Eb).
  assert (park s' r = park s r) as -> by (unfold park; now rewrite El).
  assert (dmd s' r = dmd s r) as -> by (unfold dmd, all_doom; now rewrite Eb).
  apply sub_app; [apply sub_refl|apply sub_app; [apply sub_refl|apply sub_app; [|apply sub_refl]]].
  unfold upq. now apply at_lvl_sub.
Qed.

Lemma failq_eff mx s n : Inv3 mx s -> Eff mx s (raw_step mx s (CFailQ n)).
Proof.
  intros I. simpl. destruct (nth_error (q s) n) as [[i r| |]|] eqn:E; auto. pose proof I as I'. dI3 I'.
  apply eff_sub; auto. apply logical_up_sub; auto. simpl.
  apply datas_sub. apply sub_app; [|apply sub_refl]. apply dsub_sub. eapply dsub_remove_nth; eauto.
Qed.

Lemma pop_data_eff mx s i r rest : q s = Data i r :: rest -> Inv3 mx s -> Eff mx s (pop s).
Proof.
  intros E I. pose proof I as I'. dI3 I'. apply eff_sub; auto. apply logical_up_sub; auto.
  simpl. rewrite E. simpl. apply sub_skip, sub_refl.
Qed.

Lemma park_eff mx s i r rest : Inv1 mx s -> q s = Data i r :: rest -> r < hwm s -> Inv3 mx s ->
  Eff mx s (park_head s r (Data i r)).
Proof.
  intros I1 E Hr I. pose proof I as I'. dI3 I'. dI1 I1. assert (Lr : r < length (lv s)) by lia.
  apply eff_eq; auto. apply logical_ext. intros r0 _.
  unfold level, fwd, park, upq, dmd, park_head. simpl. rewrite E. simpl. rewrite lbuf_set_lbuf by auto.
  destruct (Nat.eqb_spec r0 r) as [->|N].
  - rewrite at_lvl_cons, Nat.eqb_refl, datas_app, at_lvl_app. simpl. rewrite at_lvl_cons, Nat.eqb_refl. simpl.
    now rewrite <- !app_assoc.
  - rewrite at_lvl_cons. destruct (Nat.eqb_spec r r0); [congruence|reflexivity].
Qed.

Lemma fin_eff mx s c rest : Inv1 mx s -> q s = Fin c :: rest -> Inv3 mx s -> Eff mx s (fin_seen (pop s) c).
Proof.
  intros I1 E I. pose proof I as I'. dI3 I'. apply eff_eq; auto. apply logical_ext. intros r _.
  unfold level, fwd, park, upq, dmd. simpl. rewrite E. simpl. now rewrite lbuf_set_chs.
Qed.

(* ---------------------------------------------------------------- newHighWatermark and updateLeader do not move data *)
Lemma all_doom_push_marker s b m : is_marker m = true -> all_doom (push_inq s b [m]) = all_doom s.
Proof.
  intros Hm. rewrite push_is_put. unfold all_doom, put_bp. simpl.
  apply (flat_map_upd_same doom (fun _ => _) bpw0). apply acc_push_marker. exact Hm.
Qed.

Lemma logical_mark mx s b r : acc (get_bp s b) = [] -> cur s = Some b -> logical mx (mark s b r) = logical mx s.
Proof.
  intros A Ec. apply logical_ext. intros r0 _. apply level_eq_parts.
  - unfold fwd, cur_bp. rewrite Ec, A. reflexivity.
  - unfold park, mark. simpl. now rewrite lbuf_set_chs.
  - reflexivity.
  - unfold dmd. destruct r0; auto. change (all_doom (mark s b r)) with (all_doom (push_inq s b [Fin (r - 1)])).
    now rewrite all_doom_push_marker.
Qed.

Lemma logical_pickbp mx s b0 : Inv1 mx s -> Inv2 mx s -> cur s = None -> logical mx (pickbp s b0) = logical mx s.
Proof.
  intros I1 I2 Ec. unfold pickbp. destruct (pick s b0) as [s1 b'] eqn:Ep.
  destruct (pick_spec _ _ _ _ Ep) as (G0 & Hb' & _ & _ & _ & Eq & Erq & Eh & Elv & Ecur & _ & _ & _ & _ & Ebs).
  dI2 I2.
  assert (An : acc (get_bp s1 b') = []).
  { rewrite G0. destruct (acc (get_bp s b')) eqn:E; auto. exfalso. assert (cur s = Some b') by (apply Kacc; rewrite E; discriminate). congruence. }
  assert (Ed : all_doom s1 = all_doom s).
  { unfold all_doom. destruct Ebs as [->| ->]; auto. now apply flat_map_bps_snoc. }
  apply logical_ext. intros r _. apply level_eq_parts.
  - unfold fwd, cur_bp. simpl. rewrite Ec. change (get_bp (set_cur (push_inq s1 b' [Syn]) (Some b')) b') with (get_bp (push_inq s1 b' [Syn]) b').
    rewrite get_bp_push, Nat.eqb_refl. apply Nat.ltb_lt in Hb'. rewrite Hb'. simpl.
    destruct (acc_push_marker (get_bp s1 b') Syn eq_refl) as [-> _]. now rewrite An.
  - unfold park. simpl. now rewrite Elv.
  - unfold upq. simpl. now rewrite Eq, Erq.
  - unfold dmd. destruct r; auto. change (all_doom (set_cur (push_inq s1 b' [Syn]) (Some b'))) with (all_doom (push_inq s1 b' [Syn])).
    now rewrite all_doom_push_marker, Ed.
Qed.

(* ---------------------------------------------------------------- messages in the partition worker's hand *)
(* the logical list of s with the block X placed right after the forwarded messages of level rho *)
Definition level_at (s : st) (rho : nat) (X : list nat) (r : nat) : list nat :=
  if r =? rho then fwd s r ++ X ++ park s r ++ upq s r ++ dmd s r else level s r.
Definition logical_at (mx : nat) (s : st) (rho : nat) (X : list nat) : list nat := levels_down (level_at s rho X) mx.

Lemma logical_at_pop mx s i rho rest : q s = Data i rho :: rest -> park s rho = [] ->
  logical mx s = logical_at mx (pop s) rho [i].
Proof.
  intros E P. apply levels_down_ext. intros r _. unfold level_at, level.
  assert (Fw : fwd (pop s) r = fwd s r) by reflexivity.
  assert (Pk : park (pop s) r = park s r) by reflexivity.
  assert (Dm : dmd (pop s) r = dmd s r) by reflexivity.
  rewrite Fw, Pk, Dm. unfold upq, pop. simpl. rewrite E. simpl. rewrite at_lvl_cons.
  destruct (Nat.eqb_spec rho r) as [->|N].
  - rewrite Nat.eqb_refl, P. reflexivity.
  - destruct (Nat.eqb_spec r rho); [congruence|reflexivity].
Qed.

Lemma logical_at_lower mx s h' : h' < length (lv s) ->
  logical mx s = logical_at mx (lower s h') h' (park s h').
Proof.
  intros Lh. apply levels_down_ext. intros r _. unfold level_at, level.
  assert (Fw : fwd (lower s h') r = fwd s r) by reflexivity.
  assert (Up : upq (lower s h') r = upq s r) by reflexivity.
  assert (Dm : dmd (lower s h') r = dmd s r) by reflexivity.
  rewrite Fw, Up, Dm. unfold park, lower. simpl. rewrite lbuf_set_lbuf by auto.
  destruct (Nat.eqb_spec r h') as [->|N]; reflexivity.
Qed.

Lemma logical_at_pickbp mx s b0 rho X : Inv1 mx s -> Inv2 mx s -> cur s = None ->
  logical_at mx (pickbp s b0) rho X = logical_at mx s rho X.
Proof.
  intros I1 I2 Ec. unfold pickbp. destruct (pick s b0) as [s1 b'] eqn:Ep.
  destruct (pick_spec _ _ _ _ Ep) as (G0 & Hb' & _ & _ & _ & Eq & Erq & Eh & Elv & Ecur & _ & _ & _ & _ & Ebs).
  dI2 I2.
  assert (An : acc (get_bp s1 b') = []).
  { rewrite G0. destruct (acc (get_bp s b')) eqn:E; auto. exfalso. assert (cur s = Some b') by (apply Kacc; rewrite E; discriminate). congruence. }
  assert (Ed : all_doom s1 = all_doom s).
  { unfold all_doom. destruct Ebs as [->| ->]; auto. now apply flat_map_bps_snoc. }
  set (s' := set_cur (push_inq s1 b' [Syn]) (Some b')).
  assert (Fw : forall r, fwd s' r = fwd s r).
  { intros r. unfold fwd, cur_bp, s'. simpl. rewrite Ec. change (get_bp (set_cur (push_inq s1 b' [Syn]) (Some b')) b') with (get_bp (push_inq s1 b' [Syn]) b').
    rewrite get_bp_push, Nat.eqb_refl. apply Nat.ltb_lt in Hb'. rewrite Hb'. simpl.
    destruct (acc_push_marker (get_bp s1 b') Syn eq_refl) as [-> _]. now rewrite An. }
  assert (Pk : forall r, park s' r = park s r) by (intros r; unfold park, s'; simpl; now rewrite Elv).
  assert (Up : forall r, upq s' r = upq s r) by (intros r; unfold upq, s'; simpl; now rewrite Eq, Erq).
  assert (Dm : forall r, dmd s' r = dmd s r).
  { intros r. unfold dmd. destruct r; auto. change (all_doom s') with (all_doom (push_inq s1 b' [Syn])). now rewrite all_doom_push_marker, Ed. }
  apply levels_down_ext. intros r _. unfold level_at, level. now rewrite Fw, Pk, Up, Dm.
Qed.

Lemma at_lvl_const r rho d : Forall (fun z => snd z = rho) d -> at_lvl r d = if r =? rho then map fst d else [].
Proof.
  induction 1 as [|[i q] d H _ IH]; [now destruct (r =? rho)|]. simpl in H. subst q. rewrite at_lvl_cons, IH.
  rewrite (Nat.eqb_sym rho r). destruct (r =? rho); reflexivity.
Qed.

Lemma logical_push mx t b ds rho : Inv1 mx t -> Inv2 mx t -> cur t = Some b -> nomark ds ->
  Forall (fun z => snd z = rho) (datas ds) -> hwm t = rho -> rho <= mx ->
  sub (logical mx (push_inq t b ds)) (logical_at mx t rho (map fst (datas ds))).
Proof.
  intros I1 I2 Ec Nd Lv Eh Hrho. dI2 I2. pose proof I1 as I1'. dI1 I1'.
  assert (Hb : b < length (bps t)) by auto.
  rewrite push_is_put. set (x := get_bp t b). set (y := with_inq x (inq x ++ ds)).
  destruct (acc_push_data x ds Nd) as [Ay Dy]. fold y in Ay, Dy.
  assert (Cx : cur_bp t = x) by (unfold cur_bp; now rewrite Ec).
  set (ids := map fst (datas ds)).
  assert (Al : forall r, at_lvl r (datas ds) = if r =? rho then ids else []) by (intros; now apply at_lvl_const).
  rewrite <- (put_bp_rq_nil t b y). set (t' := put_bp (set_rq t (rq t ++ [])) b y).
  assert (Fw : forall r, fwd t' r = at_lvl r (acc y)).
  { intros r. unfold t'. rewrite fwd_put by auto. now rewrite Ec, Nat.eqb_refl. }
  assert (Pk : forall r, park t' r = park t r) by reflexivity.
  assert (Up : forall r, upq t' r = upq t r) by (intros r; unfold upq, t'; simpl; now rewrite app_nil_r).
  destruct (tail_doomed x) eqn:T.
  - (* the worker is going to bounce them *)
    rewrite app_nil_r in Ay.
    assert (A0 : acc x = []) by now apply tail_doomed_acc_nil.
    assert (Fw0 : forall r, fwd t' r = [] /\ fwd t r = []).
    { intros r. rewrite Fw, Ay, A0. unfold fwd. rewrite Cx, A0. auto. }
    assert (Oth : forall b', b' <> b -> at_lvl rho (doom (get_bp t b')) = []).
    { intros b' N. apply at_lvl_none. intros i Hi. assert (cur t <> Some b') by congruence.
      specialize (Kho b' H). rewrite Forall_forall in Kho. apply Kho in Hi. simpl in Hi. lia. }
    assert (Dm : forall r', r' <> rho -> dmd t' (S r') = dmd t (S r')).
    { intros r' N. unfold dmd. apply at_lvl_all_doom_put_same_rq. fold x. rewrite Dy, at_lvl_app, Al.
      destruct (Nat.eqb_spec r' rho); [congruence|]. now rewrite app_nil_r. }
    assert (Dr : dmd t' (S rho) = dmd t (S rho) ++ ids).
    { unfold dmd, t'. rewrite at_lvl_all_doom_put_sole by auto. rewrite (at_lvl_all_doom_sole t b rho) by auto.
      fold x. now rewrite Dy, at_lvl_app, Al, Nat.eqb_refl. }
    assert (Lvl : forall r, r <> rho -> r <> S rho -> level t' r = level_at t rho ids r).
    { intros r N1 N2. unfold level_at. destruct (Nat.eqb_spec r rho); [congruence|]. unfold level.
      destruct (Fw0 r) as [-> ->]. rewrite Pk, Up. destruct r as [|r']; auto. rewrite Dm; auto. }
    assert (Lr : level t' rho = level t rho).
    { unfold level. destruct (Fw0 rho) as [-> ->]. rewrite Pk, Up. destruct rho as [|r']; auto. rewrite Dm; auto. }
    assert (La : level_at t rho ids rho = ids ++ level t rho).
    { unfold level_at, level. rewrite Nat.eqb_refl. destruct (Fw0 rho) as [_ ->]. reflexivity. }
    destruct (Nat.eq_dec rho mx) as [Em|Nm].
    + apply levels_down_sub. intros r Hr. destruct (Nat.eq_dec r rho) as [->|N].
      * rewrite Lr, La. apply sub_app_r.
      * rewrite Lvl by lia. apply sub_refl.
    + assert (E : levels_down (level t') mx = levels_down (level_at t rho ids) mx); [|unfold logical, logical_at; rewrite E; apply sub_refl].
      apply (levels_down_adj _ _ mx rho); [lia| |].
      * intros r _ N1 N2. now apply Lvl.
      * rewrite Lr, La. unfold level_at. destruct (Nat.eqb_spec (S rho) rho); [lia|].
        unfold level. destruct (Fw0 (S rho)) as [-> ->]. rewrite Pk, Up, Dr. simpl. now rewrite <- !app_assoc.
  - (* accepted *)
    rewrite app_nil_r in Dy.
    assert (E : levels_down (level t') mx = levels_down (level_at t rho ids) mx); [|unfold logical, logical_at; rewrite E; apply sub_refl].
    apply levels_down_ext. intros r _. unfold level_at, level. rewrite Fw, Pk, Up, Ay, at_lvl_app, Al.
    assert (Dm : dmd t' r = dmd t r).
    { destruct r as [|r']; auto. unfold dmd. apply at_lvl_all_doom_put_same_rq. fold x. now rewrite Dy. }
    rewrite Dm. unfold fwd. rewrite Cx. destruct (r =? rho); [now rewrite <- !app_assoc|now rewrite app_nil_r].
Qed.

(* ---------------------------------------------------------------- the accepted messages are the head of the logical list *)
Definition mid (s : st) (r : nat) : list nat := park s r ++ upq s r ++ dmd s r.

Lemma levels_down_nil f n : (forall r, r <= n -> f r = []) -> levels_down f n = [].
Proof. induction n; intros H; simpl; [apply H; lia|]. rewrite H by lia. apply IHn. intros; apply H; lia. Qed.

Lemma levels_down_cons_top i q l n : (forall x, In x l -> snd x <= q) -> q <= n ->
  levels_down (fun r => at_lvl r ((i, q) :: l)) n = i :: levels_down (fun r => at_lvl r l) n.
Proof.
  intros Hl. induction n as [|n IH]; intros Hq.
  - assert (q = 0) by lia. subst. simpl. now rewrite at_lvl_cons.
  - rewrite !levels_down_S. rewrite at_lvl_cons. destruct (Nat.eqb_spec q (S n)) as [->|N].
    + simpl. f_equal. f_equal. apply levels_down_ext. intros r Hr. rewrite at_lvl_cons.
      destruct (Nat.eqb_spec (S n) r); [lia|reflexivity].
    + assert (at_lvl (S n) l = []) as ->.
      { apply at_lvl_none. intros j Hj. apply Hl in Hj. simpl in Hj. lia. }
      simpl. apply IH. lia.
Qed.

Lemma levels_down_noninc l n : noninc (map snd l) -> Forall (fun x => snd x <= n) l ->
  levels_down (fun r => at_lvl r l) n = map fst l.
Proof.
  induction l as [|[i q] l IH]; intros N F.
  - apply levels_down_nil. reflexivity.
  - simpl in N. inversion N as [|? ? N1 N2]; subst. inversion F as [|? ? F1 F2]; subst. simpl in F1.
    rewrite levels_down_cons_top; auto.
    + simpl. f_equal. auto.
    + intros x Hx. rewrite Forall_forall in N2. assert (In (snd x) (map snd l)) by now apply in_map. apply N2 in H. lia.
Qed.

Lemma levels_down_split f g n h : (forall r, r < h -> f r = []) -> (forall r, h < r -> g r = []) ->
  levels_down (fun r => f r ++ g r) n = levels_down f n ++ levels_down g n.
Proof.
  intros Hf Hg. induction n as [|n IH].
  - simpl. reflexivity.
  - rewrite !levels_down_S. destruct (Nat.lt_ge_cases h (S n)) as [H|H].
    + rewrite (Hg (S n)) by auto. rewrite app_nil_r, IH. now rewrite app_assoc.
    + assert (levels_down f n = []) as -> by (apply levels_down_nil; intros; apply Hf; lia).
      assert (levels_down (fun r => f r ++ g r) n = levels_down g n) as ->.
      { apply levels_down_ext. intros r Hr. rewrite Hf by lia. reflexivity. }
      now rewrite app_nil_r, <- app_assoc.
Qed.

Lemma logical_prefix mx s : Inv1 mx s -> Inv2 mx s ->
  logical mx s = map fst (acc (cur_bp s)) ++ levels_down (mid s) mx.
Proof.
  intros I1 I2. pose proof I2 as I2'. dI2 I2'. dI1 I1.
  change (logical mx s) with (levels_down (fun r => fwd s r ++ mid s r) mx).
  destruct (acc (cur_bp s)) as [|a0 ar] eqn:Ea.
  - apply levels_down_ext. intros r _. unfold fwd. now rewrite Ea.
  - rewrite <- Ea in *. destruct Klvls as [K1 K2].
    assert (Hs : hi_seq s = []).
    { destruct (hi_seq s) eqn:Eh; auto. exfalso. destruct Kht as (b & E1 & E2); [try rewrite Eh; discriminate|].
      apply tail_doomed_acc_nil in E2. unfold cur_bp in Ea. rewrite E1, E2 in Ea. discriminate. }
    rewrite (levels_down_split (fwd s) (mid s) mx (hwm s)).
    + f_equal. unfold fwd. apply levels_down_noninc; auto.
      (* levels are bounded by the retry budget *)
      rewrite Forall_forall. intros [i r] Hi. simpl.
      unfold cur_bp in Hi. destruct (cur s) as [b|] eqn:Ec; [|destruct Hi].
      assert (In (Data i r) (pre (get_bp s b) ++ inq (get_bp s b))).
      { unfold acc in Hi. apply in_app_or in Hi as [Hi|Hi].
        - destruct (refusing (get_bp s b)); [destruct Hi|]. apply in_datas in Hi. unfold seg1 in Hi.
          apply in_app_or in Hi as [Hi|Hi]; apply in_or_app; auto. right.
          eapply sub_in; [|exact Hi]. clear. induction (inq (get_bp s b)) as [|m l IH]; simpl; [constructor|].
          destruct (is_marker m); [apply sub_nil_l|now apply sub_keep].
        - destruct (cl (get_bp s b)); [destruct Hi|]. apply in_datas in Hi. unfold seg2 in Hi. apply in_or_app. right.
          eapply sub_in; [|exact Hi]. clear. induction (inq (get_bp s b)) as [|m l IH]; simpl; [constructor|].
          destruct (is_marker m); [apply sub_skip, sub_refl|now apply sub_skip]. }
      specialize (Hokbp b). rewrite Forall_forall in Hokbp. apply Hokbp in H. simpl in H. lia.
    + intros r Hr. unfold fwd. apply at_lvl_none. intros i Hi. rewrite Forall_forall in K2. apply K2 in Hi. simpl in Hi. lia.
    + intros r Hr. unfold mid. destruct (no_high mx s I2 Hs r Hr) as [-> ->]. unfold park. rewrite Hlvtop by lia. reflexivity.
Qed.

(* ---------------------------------------------------------------- Inv3 from the effects *)
Lemma inv3_recv mx s b d : Inv1 mx s -> Inv2 mx s -> Inv3 mx s -> Inv3 mx (bp_recv mx s b d).
Proof. intros. eapply inv3_eff; [apply recv_eff|]; auto. Qed.
Lemma inv3_flush mx s b : Inv3 mx s -> Inv3 mx (bp_flush s b).
Proof. intros. eapply inv3_eff; [apply flush_eff|]; auto. Qed.
Lemma inv3_answer mx s b v app : Inv3 mx s -> Inv3 mx (answer s b v app).
Proof. intros. eapply inv3_eff; [apply answer_eff|]; auto. Qed.
Lemma inv3_resp mx s b addw : 1 <= mx -> Inv1 mx s -> Inv2 mx s -> Inv3 mx s -> Inv3 mx (bp_resp mx s b addw).
Proof. intros. eapply inv3_eff; [apply resp_eff|]; auto. Qed.
Lemma inv3_retry mx s : Inv3 mx s -> Inv3 mx (raw_step mx s CRetry).
Proof. intros. eapply inv3_eff; [apply retry_eff|]; auto. Qed.
Lemma inv3_failq mx s n : Inv3 mx s -> Inv3 mx (raw_step mx s (CFailQ n)).
Proof. intros. eapply inv3_eff; [apply failq_eff|]; auto. Qed.
