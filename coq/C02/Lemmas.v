(* C02 — basic lemmas: list updates, marker segments, classification under the elementary state changes. *)
From Coq Require Import List Arith Bool Lia Sorted.
From SV Require Import C02.Model C02.Defs.
Import ListNotations.

(* ---------------------------------------------------------------- upd / nth *)
Lemma length_upd {A} (f : A -> A) : forall l i, length (upd i f l) = length l.
Proof. induction l as [|x l IH]; intros [|i]; simpl; auto. Qed.

Lemma nth_upd_same {A} (f : A -> A) d : forall l i, i < length l -> nth i (upd i f l) d = f (nth i l d).
Proof. induction l as [|x l IH]; intros [|i] H; simpl in *; try lia; auto. apply IH. lia. Qed.

Lemma nth_upd_other {A} (f : A -> A) d : forall l i j, i <> j -> nth j (upd i f l) d = nth j l d.
Proof. induction l as [|x l IH]; intros [|i] [|j] H; simpl; auto; try lia. Qed.

Lemma upd_oob {A} (f : A -> A) : forall l i, length l <= i -> upd i f l = l.
Proof. induction l as [|x l IH]; intros [|i] H; simpl in *; auto; try lia. f_equal. apply IH. lia. Qed.

Lemma nth_app_new {A} (d x : A) l : nth (length l) (l ++ [x]) d = x.
Proof. rewrite app_nth2 by lia. now rewrite Nat.sub_diag. Qed.

Lemma nth_app_old {A} (d x : A) l i : i <> length l -> nth i (l ++ [x]) d = nth i l d.
Proof.
  intros H. destruct (Nat.lt_ge_cases i (length l)).
  - now apply app_nth1.
  - rewrite app_nth2 by lia. rewrite (nth_overflow l) by lia.
    destruct (i - length l) as [|[|k]] eqn:E; simpl; auto; lia.
Qed.

Lemma flat_map_nil_nth {A B} (f : A -> list B) d l :
  f d = [] -> (flat_map f l = [] <-> forall i, f (nth i l d) = []).
Proof.
  intros Hd. induction l as [|x l IH]; simpl.
  - split; auto. intros _ [|i]; auto.
  - split.
    + intros H. apply app_eq_nil in H as [H1 H2]. intros [|i]; auto. now apply IH.
    + intros H. pose proof (H 0) as H0. simpl in H0. rewrite H0. simpl. apply IH. intros i. apply (H (S i)).
Qed.

(* only one element contributes *)
Lemma flat_map_sole {A B} (f : A -> list B) d : forall l b,
  f d = [] -> (forall i, i <> b -> f (nth i l d) = []) -> flat_map f l = f (nth b l d).
Proof.
  induction l as [|x l IH]; intros b Hd H; simpl.
  - destruct b; now rewrite Hd.
  - destruct b as [|b].
    + assert (flat_map f l = []) as ->. { apply (flat_map_nil_nth f d); auto. intros i. apply (H (S i)). lia. }
      now rewrite app_nil_r.
    + assert (f x = []) as -> by (apply (H 0); lia). simpl. apply IH; auto. intros i Hi. apply (H (S i)). lia.
Qed.

Lemma in_flat_map_nth {A B} (f : A -> list B) d l y :
  In y (flat_map f l) -> exists i, i < length l /\ In y (f (nth i l d)).
Proof.
  induction l as [|x l IH]; simpl; intros H; [easy|].
  apply in_app_or in H as [H|H].
  - exists 0. split; [lia|auto].
  - destruct (IH H) as (i & Hi & Hy). exists (S i). split; [lia|auto].
Qed.

Lemma in_nth_flat_map {A B} (f : A -> list B) d l i y :
  i < length l -> In y (f (nth i l d)) -> In y (flat_map f l).
Proof.
  revert i. induction l as [|x l IH]; simpl; intros i Hi H; [lia|].
  apply in_or_app. destruct i; [left; auto|right]. apply (IH i); auto. lia.
Qed.

(* ---------------------------------------------------------------- markers *)
Lemma nomark_has_m l : nomark l <-> has_m l = false.
Proof.
  unfold nomark, has_m. induction l as [|m l IH]; simpl.
  - split; auto.
  - split.
    + intros H. inversion H; subst. rewrite H2. simpl. now apply IH.
    + intros H. apply orb_false_iff in H as [H1 H2]. constructor; auto. now apply IH.
Qed.

Lemma nomark_app a b : nomark (a ++ b) <-> nomark a /\ nomark b.
Proof. unfold nomark. apply Forall_app. Qed.

Lemma has_m_app a b : has_m (a ++ b) = has_m a || has_m b.
Proof. unfold has_m. apply existsb_app. Qed.

Lemma pre_m_nomark l : nomark l -> pre_m l = l.
Proof. induction l as [|m l IH]; simpl; auto. intros H. inversion H; subst. rewrite H2. f_equal. auto. Qed.
Lemma post_m_nomark l : nomark l -> post_m l = [].
Proof. induction l as [|m l IH]; simpl; auto. intros H. inversion H; subst. rewrite H2. auto. Qed.

Lemma pre_m_app_nomark X l : nomark X -> pre_m (X ++ l) = X ++ pre_m l.
Proof. induction X as [|m X IH]; simpl; auto. intros H. inversion H; subst. rewrite H2. f_equal. auto. Qed.
Lemma post_m_app_nomark X l : nomark X -> post_m (X ++ l) = post_m l.
Proof. induction X as [|m X IH]; simpl; auto. intros H. inversion H; subst. rewrite H2. auto. Qed.

Lemma pre_m_app_marked l t : has_m l = true -> pre_m (l ++ t) = pre_m l.
Proof.
  induction l as [|m l IH]; simpl; [discriminate|]. intros H.
  destruct (is_marker m); simpl in *; auto. f_equal. auto.
Qed.
Lemma post_m_app_marked l t : has_m l = true -> post_m (l ++ t) = post_m l ++ t.
Proof.
  induction l as [|m l IH]; simpl; [discriminate|]. intros H.
  destruct (is_marker m); simpl in *; auto.
Qed.
Lemma pre_m_is_nomark l : nomark (pre_m l).
Proof.
  induction l as [|m l IH]; simpl; [constructor|].
  destruct (is_marker m) eqn:E; constructor; auto.
Qed.

Lemma datas_app a b : datas (a ++ b) = datas a ++ datas b.
Proof. induction a as [|m a IH]; simpl; auto. destruct m; simpl; auto. now rewrite IH. Qed.

Lemma datas_split l : datas (pre_m l) ++ datas (post_m l) = datas l.
Proof.
  induction l as [|m l IH]; simpl; auto.
  destruct m; simpl; auto. now rewrite IH.
Qed.

Lemma in_datas i r l : In (i, r) (datas l) <-> In (Data i r) l.
Proof.
  induction l as [|m l IH]; simpl; [tauto|].
  destruct m as [j q| |]; simpl; rewrite IH.
  - split; intros [H|H]; auto; injection H as -> ->; auto.
  - split; [auto|intros [H|H]; [discriminate|auto]].
  - split; [auto|intros [H|H]; [discriminate|auto]].
Qed.

Lemma datas_nomark_nil l : datas l = [] -> nomark l -> l = [].
Proof. destruct l as [|m l]; auto. intros H N. inversion N; subst. destruct m; simpl in *; discriminate. Qed.

Lemma fins_app a b : fins (a ++ b) = fins a ++ fins b.
Proof. induction a as [|m a IH]; simpl; auto. destruct m; simpl; auto. now rewrite IH. Qed.
Lemma in_fins r l : In r (fins l) <-> In (Fin r) l.
Proof.
  induction l as [|m l IH]; simpl; [tauto|].
  destruct m as [j q|q|]; simpl; rewrite IH.
  - split; [auto|intros [H|H]; [discriminate|auto]].
  - split; [intros [H|H]; [subst; auto|auto]|intros [H|H]; [injection H as ->; auto|auto]].
  - split; [auto|intros [H|H]; [discriminate|auto]].
Qed.
Lemma fins_nomark l : nomark l -> fins l = [].
Proof. induction l as [|m l IH]; simpl; auto. intros H. inversion H; subst. destruct m; simpl in *; try discriminate. auto. Qed.

(* ---------------------------------------------------------------- at_lvl *)
Lemma at_lvl_app r a b : at_lvl r (a ++ b) = at_lvl r a ++ at_lvl r b.
Proof. unfold at_lvl. now rewrite filter_app, map_app. Qed.
Lemma at_lvl_nil r : at_lvl r [] = [].
Proof. reflexivity. Qed.
Lemma at_lvl_cons r i q l : at_lvl r ((i, q) :: l) = if q =? r then i :: at_lvl r l else at_lvl r l.
Proof. unfold at_lvl. simpl. destruct (q =? r); auto. Qed.
Lemma in_at_lvl r i l : In i (at_lvl r l) <-> In (i, r) l.
Proof.
  unfold at_lvl. rewrite in_map_iff. split.
  - intros ((j, q) & E & H). apply filter_In in H as [H1 H2]. simpl in *. apply Nat.eqb_eq in H2. now subst.
  - intros H. exists (i, r). split; auto. apply filter_In. split; auto. simpl. apply Nat.eqb_refl.
Qed.
Lemma at_lvl_none r l : (forall i, ~ In (i, r) l) -> at_lvl r l = [].
Proof.
  intros H. destruct (at_lvl r l) as [|i t] eqn:E; auto.
  exfalso. apply (H i). apply in_at_lvl. rewrite E. now left.
Qed.
Lemma at_lvl_flat_map {A} r (f : A -> list (nat * nat)) l :
  at_lvl r (flat_map f l) = flat_map (fun x => at_lvl r (f x)) l.
Proof. induction l as [|x l IH]; simpl; auto. now rewrite at_lvl_app, IH. Qed.

(* ---------------------------------------------------------------- sortedness *)
Inductive sub {A} : list A -> list A -> Prop :=
| sub_nil : sub [] []
| sub_skip x l' l : sub l' l -> sub l' (x :: l)
| sub_keep x l' l : sub l' l -> sub (x :: l') (x :: l).

Lemma sub_refl {A} (l : list A) : sub l l.
Proof. induction l; [apply sub_nil|apply sub_keep; auto]. Qed.
Lemma sub_nil_l {A} (l : list A) : sub [] l.
Proof. induction l; [apply sub_nil|apply sub_skip; auto]. Qed.
Lemma sub_in {A} (l' l : list A) x : sub l' l -> In x l' -> In x l.
Proof. induction 1; simpl; intros; auto. destruct H0; auto. Qed.
Lemma sub_app {A} (a' a b' b : list A) : sub a' a -> sub b' b -> sub (a' ++ b') (a ++ b).
Proof. induction 1; simpl; intros; auto; [apply sub_skip|apply sub_keep]; auto. Qed.
Lemma sub_trans {A} (a b c : list A) : sub a b -> sub b c -> sub a c.
Proof.
  intros H1 H2. revert a H1. induction H2; intros a H1; auto.
  - apply sub_skip. auto.
  - inversion H1; subst; [apply sub_skip|apply sub_keep]; auto.
Qed.
Lemma sub_app_r {A} (a b : list A) : sub b (a ++ b).
Proof. induction a; simpl; [apply sub_refl|apply sub_skip; auto]. Qed.
Lemma sub_app_l {A} (a b : list A) : sub a (a ++ b).
Proof. rewrite <- (app_nil_r a) at 1. apply sub_app; [apply sub_refl|apply sub_nil_l]. Qed.

Lemma sorted_sub l' l : sorted l -> sub l' l -> sorted l'.
Proof.
  unfold sorted. intros S H. induction H; auto.
  - inversion S; auto.
  - inversion S; subst. constructor; auto.
    rewrite Forall_forall in *. intros y Hy. apply H3. eapply sub_in; eauto.
Qed.

Lemma sorted_app a b : sorted (a ++ b) <-> sorted a /\ sorted b /\ forall x y, In x a -> In y b -> x < y.
Proof.
  unfold sorted. induction a as [|x a IH]; simpl.
  - split; [intros H; repeat split; auto; [constructor|easy]|tauto].
  - split.
    + intros H. inversion H; subst. apply IH in H2 as (Sa & Sb & Hab).
      rewrite Forall_forall in H3. repeat split; auto.
      * constructor; auto. apply Forall_forall. intros y Hy. apply H3. apply in_or_app. auto.
      * intros x0 y [->|Hx] Hy; auto. apply H3. apply in_or_app. auto.
    + intros (Sa & Sb & Hab). inversion Sa; subst. constructor.
      * apply IH. repeat split; auto.
      * apply Forall_forall. intros y Hy. apply in_app_or in Hy as [Hy|Hy].
        -- rewrite Forall_forall in H2. auto.
        -- apply Hab; auto.
Qed.

Lemma sorted_snoc l n : sorted l -> Forall (fun i => i < n) l -> sorted (l ++ [n]).
Proof.
  intros S F. apply sorted_app. repeat split; auto.
  - repeat constructor.
  - intros x y Hx [<-|[]]. rewrite Forall_forall in F. auto.
Qed.

(* ---------------------------------------------------------------- levels_down *)
Lemma levels_down_ext f g n : (forall r, r <= n -> f r = g r) -> levels_down f n = levels_down g n.
Proof. induction n; simpl; intros H; [apply H; lia|]. rewrite H by lia. f_equal. apply IHn. intros; apply H; lia. Qed.

Lemma levels_down_sub f g n : (forall r, r <= n -> sub (g r) (f r)) -> sub (levels_down g n) (levels_down f n).
Proof. induction n; simpl; intros H; [apply H; lia|]. apply sub_app; [apply H; lia|]. apply IHn. intros; apply H; lia. Qed.

Lemma in_levels_down f n x : In x (levels_down f n) <-> exists r, r <= n /\ In x (f r).
Proof.
  induction n; simpl.
  - split; [intros H; exists 0; auto|]. intros (r & Hr & H). assert (r = 0) by lia. now subst.
  - rewrite in_app_iff, IHn. split.
    + intros [H|(r & Hr & H)]; [exists (S n); auto|exists r; split; auto].
    + intros (r & Hr & H). destruct (Nat.eq_dec r (S n)); [subst; auto|right; exists r; split; auto; lia].
Qed.

(* ---------------------------------------------------------------- classification under elementary updates *)

Lemma refusing_cl b : cl b = true -> refusing b = true.
Proof. unfold refusing. intros ->. apply orb_true_r. Qed.

Lemma acc_doom_healthy b : refusing b = false -> acc b = datas (pre b ++ inq b) /\ doom b = [].
Proof.
  intros H. unfold acc, doom, seg1, seg2. rewrite H.
  assert (cl b = false) as -> by (destruct (cl b) eqn:E; auto; rewrite refusing_cl in H; auto).
  split; auto. rewrite !datas_app, <- app_assoc. now rewrite datas_split.
Qed.

Lemma acc_doom_closing b : cl b = true -> acc b = [] /\ doom b = datas (pre b ++ inq b).
Proof.
  intros H. unfold acc, doom, seg1, seg2. rewrite H, (refusing_cl _ H). split; auto.
  rewrite !datas_app, <- app_assoc. now rewrite datas_split.
Qed.

Lemma acc_doom_rf b : refusing b = true -> cl b = false ->
  acc b = datas (post_m (inq b)) /\ doom b = datas (pre b ++ pre_m (inq b)).
Proof. intros H1 H2. unfold acc, doom, seg1, seg2. rewrite H1, H2. simpl. now rewrite app_nil_r. Qed.

(* appending a marker to the input changes nothing now *)
Lemma acc_push_marker b m : is_marker m = true ->
  acc (with_inq b (inq b ++ [m])) = acc b /\ doom (with_inq b (inq b ++ [m])) = doom b.
Proof.
  intros Hm. unfold acc, doom, seg1, seg2, refusing, pre, sent_items, wt_items. simpl.
  destruct (has_m (inq b)) eqn:E.
  - rewrite pre_m_app_marked, post_m_app_marked by auto. rewrite (datas_app (post_m (inq b)) [m]).
    assert (datas [m] = []) as -> by (destruct m; simpl in *; auto; discriminate). now rewrite app_nil_r.
  - apply nomark_has_m in E. rewrite pre_m_app_nomark, post_m_app_nomark by auto. simpl. rewrite Hm.
    rewrite (post_m_nomark _ E), (pre_m_nomark _ E). now rewrite app_nil_r.
Qed.

(* appending data to the input: it lands in the accepting or in the doomed stream, at the end *)
Lemma acc_push_data b ds : nomark ds ->
  acc (with_inq b (inq b ++ ds)) = acc b ++ (if tail_doomed b then [] else datas ds) /\
  doom (with_inq b (inq b ++ ds)) = doom b ++ (if tail_doomed b then datas ds else []).
Proof.
  intros Hd. unfold acc, doom, seg1, seg2, tail_doomed, refusing, pre, sent_items, wt_items. simpl.
  destruct (has_m (inq b)) eqn:E.
  - rewrite pre_m_app_marked, post_m_app_marked by auto. rewrite (datas_app (post_m (inq b)) ds).
    destruct (cl b); simpl; rewrite ?app_nil_r, ?app_assoc; auto.
  - apply nomark_has_m in E. rewrite pre_m_app_nomark, post_m_app_nomark by auto.
    rewrite (post_m_nomark _ E), (pre_m_nomark _ E), (post_m_nomark _ Hd), (pre_m_nomark _ Hd).
    destruct (cl b) eqn:C; [rewrite orb_true_r|rewrite orb_false_r]; simpl; rewrite ?app_nil_r.
    + split; auto. rewrite !datas_app. now rewrite !app_assoc.
    + destruct (rf b); simpl; rewrite ?app_nil_r, ?datas_app, ?app_assoc; auto.
Qed.

Lemma tail_doomed_acc_nil b : tail_doomed b = true -> acc b = [].
Proof.
  unfold tail_doomed, acc, seg2. destruct (has_m (inq b)) eqn:E.
  - intros C. rewrite C, (refusing_cl _ C). auto.
  - intros R. rewrite R. apply nomark_has_m in E. rewrite (post_m_nomark _ E). simpl. destruct (cl b); auto.
Qed.

Lemma tail_doomed_push_marker b m : is_marker m = true ->
  tail_doomed (with_inq b (inq b ++ [m])) = cl b.
Proof.
  intros Hm. unfold tail_doomed. simpl. rewrite has_m_app. simpl. rewrite Hm. now rewrite orb_true_r.
Qed.

Lemma NoDup_app_intro {A} (a b : list A) :
  NoDup a -> NoDup b -> (forall x, In x a -> In x b -> False) -> NoDup (a ++ b).
Proof.
  induction a as [|x a IH]; simpl; auto. intros Ha Hb H. inversion Ha; subst. constructor.
  - rewrite in_app_iff. intros [H1|H1]; auto. eapply H; eauto.
  - apply IH; auto. intros y Hy. apply H. auto.
Qed.
Lemma NoDup_app_elim {A} (a b : list A) :
  NoDup (a ++ b) -> NoDup a /\ NoDup b /\ (forall x, In x a -> In x b -> False).
Proof.
  induction a as [|x a IH]; simpl.
  - intros H. repeat split; auto. constructor.
  - intros H. inversion H; subst. destruct (IH H3) as (Ha & Hb & Hab). repeat split; auto.
    + constructor; auto. intros Hx. apply H2. apply in_or_app. auto.
    + intros y [->|Hy] Hyb; [apply H2; apply in_or_app; auto|eauto].
Qed.
