(* C02 — definitions used by the ordering proof: classification of the messages a broker worker holds
   (accepting / doomed-to-be-bounced), the logical list, and the invariant (in layers). No proofs here. *)
From Coq Require Import List Arith Bool Lia Sorted.
From SV Require Import C02.Model.
Import ListNotations.

(* ---------------------------------------------------------------- broker-worker streams *)

Definition is_marker (m : item) : bool := match m with Data _ _ => false | _ => true end.

(* items before the first marker / after the first marker *)
Fixpoint pre_m (l : list item) : list item :=
  match l with [] => [] | m :: t => if is_marker m then [] else m :: pre_m t end.
Fixpoint post_m (l : list item) : list item :=
  match l with [] => [] | m :: t => if is_marker m then t else post_m t end.
Definition has_m (l : list item) : bool := existsb is_marker l.

Definition sent_items (b : bpw) : list item := match snt b with Some (l, _) => l | None => [] end.
Definition wt_items (b : bpw) : list item := match wt b with Some m => [m] | None => [] end.
(* what the worker holds outside its input channel, in path order *)
Definition pre (b : bpw) : list item := sent_items b ++ buf b ++ wt_items b.

Fixpoint datas (l : list item) : list (nat * nat) :=
  match l with [] => [] | Data i r :: t => (i, r) :: datas t | _ :: t => datas t end.

(* first segment: everything up to the first marker of the input; second segment: what follows that marker.
   A refusing worker bounces its first segment; the first marker (fin or syn) ends the refusal unless the worker
   is closing, which bounces everything. *)
Definition seg1 (b : bpw) : list item := pre b ++ pre_m (inq b).
Definition seg2 (b : bpw) : list item := post_m (inq b).
Definition acc (b : bpw) : list (nat * nat) :=
  (if refusing b then [] else datas (seg1 b)) ++ (if cl b then [] else datas (seg2 b)).
Definition doom (b : bpw) : list (nat * nat) :=
  (if refusing b then datas (seg1 b) else []) ++ (if cl b then datas (seg2 b) else []).
(* will a message appended to the input now be bounced? *)
Definition tail_doomed (b : bpw) : bool := if has_m (inq b) then cl b else refusing b.

Definition at_lvl (r : nat) (l : list (nat * nat)) : list nat := map fst (filter (fun x => snd x =? r) l).

(* ---------------------------------------------------------------- the logical list *)

Definition cur_bp (s : st) : bpw := match cur s with Some b => get_bp s b | None => bpw0 end.
Definition all_doom (s : st) : list (nat * nat) := flat_map doom (bps s).

(* virtual level r: forwarded and accepted (only the current worker holds such messages: invariant I2), parked,
   on the way back to the partition worker, still to be bounced (retries r-1 now) *)
Definition fwd (s : st) (r : nat) : list nat := at_lvl r (acc (cur_bp s)).
Definition park (s : st) (r : nat) : list nat := at_lvl r (datas (lbuf (get_lvl r (lv s)))).
Definition upq (s : st) (r : nat) : list nat := at_lvl r (datas (q s ++ rq s)).
Definition dmd (s : st) (r : nat) : list nat := match r with 0 => [] | S r' => at_lvl r' (all_doom s) end.
Definition level (s : st) (r : nat) : list nat := fwd s r ++ park s r ++ upq s r ++ dmd s r.
Fixpoint levels_down (f : nat -> list nat) (n : nat) : list nat :=
  match n with 0 => f 0 | S n' => f (S n') ++ levels_down f n' end.
(* the logical list of the partition's undelivered data messages (a message with retries = Retry.Max that is
   going to be bounced has no future copy and is not listed) *)
Definition logical (mx : nat) (s : st) : list nat := levels_down (level s) mx.

Definition sorted (l : list nat) : Prop := StronglySorted lt l.

(* ---------------------------------------------------------------- invariant, layer 1: structure *)

Definition okitem (mx nx : nat) (m : item) : Prop :=
  match m with Data i r => i < nx /\ r <= mx | Fin r => r <= mx | Syn => True end.
Definition pend (s : st) (c : nat) : Prop := chs (get_lvl c (lv s)) = true.
Definition nomark (l : list item) : Prop := Forall (fun m => is_marker m = false) l.
Definition nosyn (l : list item) : Prop := ~ In Syn l.

Fixpoint fins (l : list item) : list nat :=
  match l with [] => [] | Fin r :: t => r :: fins t | _ :: t => fins t end.

Record Inv1 (mx : nat) (s : st) : Prop := {
  i_len : length (lv s) = S mx;
  i_hwm : hwm s <= mx;
  i_cur : forall b, cur s = Some b -> b < length (bps s);
  i_ab : forall b, ab (get_bp s b) = false;
  i_ok_q : Forall (okitem mx (nxt s)) (q s ++ rq s);
  i_ok_lv : forall l, Forall (okitem mx (nxt s)) (lbuf (get_lvl l (lv s)));
  i_ok_bp : forall b, Forall (okitem mx (nxt s)) (pre (get_bp s b) ++ inq (get_bp s b));
  i_nosyn : nosyn (q s ++ rq s);
  (* A1 *)
  i_pre_nomark : forall b, nomark (pre (get_bp s b));
  i_pre_ref : forall b, refusing (get_bp s b) = true -> pre (get_bp s b) = [];
  (* A3 *)
  i_lv_top : forall l, hwm s <= l -> lbuf (get_lvl l (lv s)) = [];
  i_lv_data : forall l m, In m (lbuf (get_lvl l (lv s))) -> exists i, m = Data i l;
  (* chasers *)
  i_chs_hwm : forall c, pend s c -> 1 <= c <= hwm s;
  i_tok_up : forall c, In (Fin c) (q s ++ rq s) -> pend s c;
  i_tok_in : forall b r, In (Fin r) (inq (get_bp s b)) -> pend s (S r);
  i_tok_pos : forall b X r Y, inq (get_bp s b) = X ++ Fin r :: Y ->
                nomark X /\ refusing (get_bp s b) = true /\ ((Y = [] /\ cur s <> Some b) \/ exists Y', Y = Syn :: Y');
  i_syn_pos : forall b X Y, inq (get_bp s b) = X ++ Syn :: Y -> nomark Y;
  (* at most one chaser per level *)
  i_tok_u1 : NoDup (fins (q s ++ rq s));
  i_tok_u3 : forall c b, In (Fin (S c)) (q s ++ rq s) -> ~ In (Fin c) (inq (get_bp s b));
  i_tok_u4 : forall b b' r, b <> b' -> In (Fin r) (inq (get_bp s b)) -> ~ In (Fin r) (inq (get_bp s b'));
  (* shape *)
  i_noncur : forall b, cur s <> Some b -> post_m (inq (get_bp s b)) = [] /\ nosyn (inq (get_bp s b));
  i_marked : forall b, has_m (inq (get_bp s b)) = true -> refusing (get_bp s b) = false ->
                       datas (seg1 (get_bp s b)) = []
}.

(* ---------------------------------------------------------------- layer 2: levels *)

Definition hi_up (s : st) : list nat :=
  map retries_of (filter (fun m => hwm s <? retries_of m) (q s ++ rq s)).
Definition hi_doom (s : st) : list nat :=
  map (fun x => S (snd x)) (filter (fun x => hwm s <=? snd x) (doom (cur_bp s))).
(* virtual levels above the high watermark, along the way back to the partition worker *)
Definition hi_seq (s : st) : list nat := hi_up s ++ hi_doom s.
Definition noninc (l : list nat) : Prop := StronglySorted ge l.

(* the least pending chaser level >= v *)
Definition covers (s : st) (v c : nat) : Prop :=
  v <= c /\ pend s c /\ forall c', v <= c' -> c' < c -> ~ pend s c'.

Record Inv2 (mx : nat) (s : st) : Prop := {
  (* I2 *)
  i_acc_cur : forall b, acc (get_bp s b) <> [] -> cur s = Some b;
  (* J6 *)
  i_acc_lvls : noninc (map snd (acc (cur_bp s))) /\ Forall (fun x => hwm s <= snd x) (acc (cur_bp s));
  (* high items *)
  i_hi_sorted : noninc (hi_seq s);
  i_hi_other : forall b, cur s <> Some b -> Forall (fun x => snd x < hwm s) (doom (get_bp s b));
  i_hi_tail : hi_seq s <> [] -> exists b, cur s = Some b /\ tail_doomed (get_bp s b) = true;
  i_hi_marked : hi_up s <> [] -> has_m (inq (cur_bp s)) = false;
  (* low items are in front of the chaser that covers them *)
  i_cov_up : forall l1 i r l2, q s ++ rq s = l1 ++ Data i r :: l2 -> 1 <= r <= hwm s ->
               exists c, covers s r c /\ (In (Fin c) l2 \/ exists b, In (Fin (c - 1)) (inq (get_bp s b)));
  i_cov_doom : forall b i r, refusing (get_bp s b) = true -> In (i, r) (datas (seg1 (get_bp s b))) -> r < hwm s ->
               exists c Y, covers s (S r) c /\ inq (get_bp s b) = pre_m (inq (get_bp s b)) ++ Fin (c - 1) :: Y;
  i_cov_seg2 : forall b i r, cl (get_bp s b) = true -> In (i, r) (datas (seg2 (get_bp s b))) -> hwm s <= r;
  i_seg1_low : forall b, has_m (inq (get_bp s b)) = true -> Forall (fun x => snd x < hwm s) (datas (seg1 (get_bp s b)))
}.

(* ---------------------------------------------------------------- layer 3: order *)

Record Inv3 (mx : nat) (s : st) : Prop := {
  i_sorted : sorted (logical mx s);
  i_fresh : Forall (fun i => i < nxt s) (logical mx s);
  (* what the retry handler holds has been bounced at least once *)
  i_rq_pos : forall i r, In (Data i r) (rq s) -> 1 <= r
}.

(* ---------------------------------------------------------------- layer 4: the cluster log and the success events *)

(* pending acknowledgements: the set answered NoError and not yet handled *)
Definition pending_ok (b : bpw) : list (nat * nat) :=
  match snt b with Some (l, Some (VOk, base)) => successes l base | _ => [] end.
Definition entries (s : st) : list (nat * nat) := succ s ++ flat_map pending_ok (bps s).

Record Inv4 (mx : nat) (s : st) : Prop := {
  (* whatever is still to be appended for the first time is newer than everything appended *)
  i_log_old : forall x j, In x (log s) -> In j (logical mx s) -> ~ In j (log s) -> x < j;
  i_log_first : increasing (first_copies (log s)) = true;
  (* success entries, in creation order, increase in both components; offsets are below the log length *)
  i_ent_sorted : StronglySorted (fun a b => fst a < fst b /\ snd a < snd b) (entries s);
  i_ent_bound : Forall (fun a => snd a < length (log s)) (entries s);
  (* a delivered message is older than every message still travelling *)
  i_succ_old : forall a j, In a (succ s) -> In j (logical mx s) -> fst a < j;
  i_log_fresh : Forall (fun x => x < nxt s) (log s);
  i_ent_fresh : Forall (fun a => fst a < nxt s) (entries s)
}.
