(* C02 — correspondence.  The harness (go/harness/cmd/c02corr) records the same per-goroutine hook logs as C01
   (type SV.Producer.Corr.case).  Two things are evaluated on every case:
     1. Producer.Corr.ok: every logged step of every goroutine is reproduced by the actor step functions of
        Producer/Actors.v (local trace validation against the CODE);
     2. lockstep: on every logged partition-worker step and every logged broker-worker step, the dedicated
        ordering model C02/Model.v (the one the C02 theorems are about), started from the abstraction of the
        actor's state, makes the same decision as the actor step function: same new state (projected to the
        partition), same messages forwarded / bounced in the same order, same successes with the same offsets,
        same failed messages; and a broker worker never hands a set to the bridge while another is outstanding
        (the rendezvous the model's CFlush relies on).
   No proofs here. *)
From Coq Require Import List ZArith Bool Arith.
From SV Require Import Base.Corr Producer.Msg Producer.Actors Producer.Corr.
From SV Require C02.Model.
Import ListNotations.
Module M := SV.C02.Model.
Open Scope Z_scope.

Definition item_of (m : msg) : M.item :=
  if is_syn m then M.Syn
  else if is_fin m then M.Fin (m_retries m)
  else M.Data (Z.to_nat (m_id m)) (m_retries m).

Definition item_eqb (a b : M.item) : bool :=
  match a, b with
  | M.Data i r, M.Data j q => Nat.eqb i j && Nat.eqb r q
  | M.Fin r, M.Fin q => Nat.eqb r q
  | M.Syn, M.Syn => true
  | _, _ => false
  end.
Definition items_eqb := list_eqb item_eqb.

Definition is_some {A} (o : option A) : bool := match o with Some _ => true | None => false end.

(* ================================================================ partition worker *)

Definition abs_lvl (l : level) : M.lvl := M.mkLvl (map item_of (l_buf l)) (l_chaser l).
Definition lvl_eqb (a b : M.lvl) : bool := items_eqb (M.lbuf a) (M.lbuf b) && Bool.eqb (M.chs a) (M.chs b).

Definition abs_pp (st : pp) (ab : bool) (m : msg) : M.st :=
  M.mkSt [item_of m] [] (p_hwm st) (map abs_lvl (p_levels st)) (if p_has_bp st then Some 0%nat else None)
         [M.with_ab M.bpw0 ab] [] [] 0%nat None.
Definition abs_lk (l : lres) : option nat := match l with LOk _ => Some 1%nat | LFail _ => None end.

Fixpoint cur_sends (effs : list effect) : list M.item :=
  match effs with
  | [] => []
  | ESend DCur m :: r => item_of m :: cur_sends r
  | _ :: r => cur_sends r
  end.
Fixpoint err_ids (effs : list effect) : list nat :=
  match effs with
  | [] => []
  | EErr m _ :: r => Z.to_nat (m_id m) :: err_ids r
  | _ :: r => err_ids r
  end.
Definition has_crash (l : list effect) : bool := existsb (fun e => match e with ECrash _ => true | _ => false end) l.
Definition mem (i : nat) (l : list nat) : bool := existsb (Nat.eqb i) l.
Definition same_set (a b : list nat) : bool :=
  Nat.eqb (length a) (length b) && forallb (fun x => mem x b) a && forallb (fun x => mem x a) b.

Definition lv_ids (l : list M.lvl) : list nat := flat_map (fun x => M.data_ids (M.lbuf x)) l.

(* codes: 131 state, 132 forwarded items, 133 failed messages, 134 crash disagreement *)
Definition pp_lock (c : cfg) (t p : Z) (st : pp) (s : plog_step) : list Z :=
  let '(st', effs) := pp_step c t p st (ps_in s) (ps_ab s) (ps_stamp s) (ps_ls s) in
  let d := abs_pp st (ps_ab s) (ps_in s) in
  let d' := M.step (c_retry_max c) d (M.CPp (map abs_lk (ps_ls s))) in
  if has_crash effs then (if is_some (M.crash d') then [] else [134])
  else if is_some (M.crash d') then [134]
  else
    let sends := flat_map M.inq (M.bps d') in
    let before := M.data_ids (M.q d) ++ lv_ids (M.lv d) in
    let after := lv_ids (M.lv d') ++ M.data_ids sends in
    (if Nat.eqb (p_hwm st') (M.hwm d') && list_eqb lvl_eqb (map abs_lvl (p_levels st')) (M.lv d') &&
        Bool.eqb (p_has_bp st') (is_some (M.cur d')) then [] else [131]) ++
    (if items_eqb (cur_sends effs) sends then [] else [132]) ++
    (if same_set (err_ids effs) (filter (fun i => negb (mem i after)) before) then [] else [133]).

Fixpoint pp_lock_run (c : cfg) (t p : Z) (st : pp) (l : list plog_step) (i : nat) : list (Z * nat) :=
  match l with
  | [] => []
  | s :: r =>
      let '(st', _) := pp_step c t p st (ps_in s) (ps_ab s) (ps_stamp s) (ps_ls s) in
      map (fun code => (code, i)) (pp_lock c t p st s) ++ pp_lock_run c t p st' r (S i)
  end.
Definition pp_lock_log (c : cfg) (pl : plog) : list (Z * nat) :=
  let '(st, _) := pp_init c (pl_t pl) (pl_p pl) (pl_start pl) in
  pp_lock_run c (pl_t pl) (pl_p pl) st (pl_steps pl) 0%nat.

(* ================================================================ broker worker, projected to partition k *)

Definition k_msgs (k : tpk) (ps : list (tpk * list msg)) : list msg :=
  match part_lookup k ps with Some l => l | None => [] end.
Definition k_items (k : tpk) (ps : list (tpk * list msg)) : list M.item := map item_of (k_msgs k ps).

Definition abs_wait (k : tpk) (w : bwait) : option M.item :=
  match w with
  | WNone => None
  | WOver m | WForce m => if tpk_eqb (msg_key m) k then Some (item_of m) else None
  end.

Definition abs_bp (k : tpk) (st : bp) (outst : option pset) (input : list M.item) : M.bpw :=
  M.mkBpw (is_some (cur_lookup k (b_cur st))) (is_some (b_closing st)) false
          (k_items k (s_parts (b_buf st))) (abs_wait k (b_wait st))
          (match outst with Some s => Some (k_items k (s_parts s), None) | None => None end)
          input.

Definition snt_eqb (a b : option (list M.item * option (M.vkind * nat))) : bool :=
  match a, b with
  | None, None => true
  | Some (x, _), Some (y, _) => items_eqb x y
  | _, _ => false
  end.
(* ab is registry state (an environment read of the partition worker), not compared here *)
Definition bpw_eqb (a b : M.bpw) : bool :=
  Bool.eqb (M.rf a) (M.rf b) && Bool.eqb (M.cl a) (M.cl b) && items_eqb (M.buf a) (M.buf b) &&
  option_eqb item_eqb (M.wt a) (M.wt b) && snt_eqb (M.snt a) (M.snt b) && items_eqb (M.inq a) (M.inq b).

Definition d_of (x : M.bpw) (base : nat) : M.st :=
  M.mkSt [] [] 0%nat [] None [x] (repeat 0%nat base) [] 0%nat None.

Fixpoint k_bounces (k : tpk) (effs : list effect) : list M.item :=
  match effs with
  | [] => []
  | ESend DRetry m :: r => if tpk_eqb (msg_key m) k then item_of m :: k_bounces k r else k_bounces k r
  | _ :: r => k_bounces k r
  end.
Fixpoint k_succ (k : tpk) (effs : list effect) : list (nat * Z) :=
  match effs with
  | [] => []
  | ESucc m off :: r => if tpk_eqb (msg_key m) k then (Z.to_nat (m_id m), off) :: k_succ k r else k_succ k r
  | _ :: r => k_succ k r
  end.
Fixpoint bridged (effs : list effect) : option pset :=
  match effs with [] => None | EBridge s :: _ => Some s | _ :: r => bridged r end.
Fixpoint has_note3 (id : Z) (effs : list effect) : bool :=
  match effs with
  | [] => false
  | ENote 3 i :: r => Z.eqb i id || has_note3 id r
  | _ :: r => has_note3 id r
  end.

(* the verdict of response r for partition k of the request [sent], with the base offset when there is one *)
Definition verdict (k : tpk) (sent : pset) (r : resp) : M.vkind * option nat :=
  match r with
  | RErr _ true => (M.VFatal, None)
  | RErr _ false => (M.VConn, None)
  | RNil => (M.VOk, None)
  | RBlocks bl =>
      match part_lookup k (s_parts sent) with
      | None => (M.VFatal, None)
      | Some _ =>
          match block_lookup k bl with
          | None => (M.VFatal, None)
          | Some (e, off) =>
              if e =? 0 then (M.VOk, Some (Z.to_nat off))
              else if e =? E_DUPLICATE then (M.VOk, None)
              else if retriable e then (M.VRetr, None) else (M.VFatal, None)
          end
      end
  end.

Fixpoint succ_match (withoff : bool) (a : list (nat * nat)) (b : list (nat * Z)) : bool :=
  match a, b with
  | [], [] => true
  | x :: a', y :: b' =>
      Nat.eqb (fst x) (fst y) && (negb withoff || Z.eqb (Z.of_nat (snd x)) (snd y)) && succ_match withoff a' b'
  | _, _ => false
  end.

(* codes: 141 state after the step, 142 bounced items, 143 successes, 145 a step that must not touch the
   partition did, 146 hand-over to the bridge while a set is outstanding, 147 the model flushes and the actor does
   not (or the reverse), 148 the handled response is not the outstanding set *)
Definition bp_lock (c : cfg) (k : tpk) (st0 : bp) (outst : option pset) (s : blog_step) : list Z * option pset :=
  let mx := c_retry_max c in
  let '(st', effs) := bp_step c (bs_ep s) st0 (bs_in s) in
  let unchanged (o' : option pset) :=
    ((if bpw_eqb (abs_bp k st0 outst []) (abs_bp k st' outst []) && items_eqb (k_bounces k effs) []
      then [] else [145]), o') in
  match bs_in s with
  | BRecv m =>
      if negb (tpk_eqb (msg_key m) k) then unchanged outst
      else
        let d := match b_wait st' with
                 | WNone => if has_note3 (m_id m) effs then 0%nat else 2%nat
                 | _ => 1%nat
                 end in
        let d' := M.step mx (d_of (abs_bp k st0 outst [item_of m]) 0) (M.CRecv 0 d) in
        ((if bpw_eqb (M.get_bp d' 0) (abs_bp k st' outst []) then [] else [141]) ++
         (if items_eqb (M.rq d') (k_bounces k effs) then [] else [142]), outst)
  | BFlush =>
      let o' := bridged effs in
      let d' := M.step mx (d_of (abs_bp k st0 outst []) 0) (M.CFlush 0) in
      ((if is_some outst then [146] else []) ++
       (if is_some o' then [] else [147]) ++
       (if bpw_eqb (M.get_bp d' 0) (abs_bp k st' o' []) then [] else [141]), o')
  | BResp sent r =>
      let '(v, base) := verdict k sent r in
      let addw := match b_wait st0, b_wait st' with
                  | WOver m, WNone => tpk_eqb (msg_key m) k && has_note3 (m_id m) effs
                  | _, _ => false
                  end in
      let x0 := abs_bp k st0 (Some sent) [] in
      let d1 := M.step mx (d_of x0 (match base with Some n => n | None => 0%nat end)) (M.CAnswer 0 v false) in
      let d' := M.step mx d1 (M.CResp 0 addw) in
      ((match outst with
        | Some o => if items_eqb (k_items k (s_parts o)) (k_items k (s_parts sent)) then [] else [148]
        | None => [148]
        end) ++
       (if bpw_eqb (M.get_bp d' 0) (abs_bp k st' None []) then [] else [141]) ++
       (if items_eqb (M.rq d') (k_bounces k effs) then [] else [142]) ++
       (if succ_match (is_some base) (M.succ d') (k_succ k effs) then [] else [143]), None)
  | BTimer | BClosed => unchanged outst
  end.

Fixpoint bp_lock_run (c : cfg) (k : tpk) (st : bp) (outst : option pset) (l : list blog_step) (i : nat)
  : list (Z * nat) :=
  match l with
  | [] => []
  | s :: r =>
      let st0 := resync_epoch st (bs_bufep s) in
      let '(st', _) := bp_step c (bs_ep s) st0 (bs_in s) in
      let '(codes, o') := bp_lock c k st0 outst s in
      map (fun code => (code, i)) codes ++ bp_lock_run c k st' o' r (S i)
  end.
Definition bp_lock_log (c : cfg) (k : tpk) (bl : blog) : list (Z * nat) :=
  bp_lock_run c k (bp_init (bl_broker bl) 0) None (bl_steps bl) 0%nat.

(* ================================================================ the case *)

Definition why_lock (x : case) : list (Z * nat) :=
  let c := k_cfg x in
  if c_idem c then []     (* the ordering model is about the non-idempotent producer *)
  else
    flat_map (pp_lock_log c) (k_pps x) ++
    flat_map (fun pl => flat_map (bp_lock_log c (pl_t pl, pl_p pl)) (k_bps x)) (k_pps x).

Definition why_c02 (x : case) : list (Z * nat) := why x ++ why_lock x.
Definition ok_c02 (x : case) : bool := match why_c02 x with [] => true | _ => false end.
Definition mismatches_c02 := mismatches ok_c02.
