(* C02 — how the elementary state changes of the model look through [get_bp] and the projections. *)
From Coq Require Import List Arith Bool Lia.
From SV Require Import C02.Model C02.Defs C02.Lemmas.
Import ListNotations.

Definition put_bp (s : st) (b : nat) (y : bpw) : st := set_bps s (upd b (fun _ => y) (bps s)).

Lemma get_bp_default s b : length (bps s) <= b -> get_bp s b = bpw0.
Proof. intros H. unfold get_bp. now apply nth_overflow. Qed.

Lemma get_bp_put s b y b' :
  get_bp (put_bp s b y) b' = if (b' =? b) && (b <? length (bps s)) then y else get_bp s b'.
Proof.
  unfold get_bp, put_bp. simpl.
  destruct (Nat.eqb_spec b' b) as [->|N]; simpl.
  - destruct (Nat.ltb_spec b (length (bps s))).
    + now rewrite nth_upd_same.
    + now rewrite upd_oob.
  - now rewrite nth_upd_other by auto.
Qed.

Lemma get_bp_push s b ms b' :
  get_bp (push_inq s b ms) b' =
  if (b' =? b) && (b <? length (bps s)) then with_inq (get_bp s b) (inq (get_bp s b) ++ ms) else get_bp s b'.
Proof.
  unfold get_bp, push_inq. simpl.
  destruct (Nat.eqb_spec b' b) as [->|N]; simpl.
  - destruct (Nat.ltb_spec b (length (bps s))).
    + now rewrite nth_upd_same.
    + now rewrite upd_oob.
  - now rewrite nth_upd_other by auto.
Qed.

Lemma length_put s b y : length (bps (put_bp s b y)) = length (bps s).
Proof. unfold put_bp. simpl. apply length_upd. Qed.
Lemma length_push s b ms : length (bps (push_inq s b ms)) = length (bps s).
Proof. unfold push_inq. simpl. apply length_upd. Qed.

(* getBrokerProducer: seen through get_bp nothing changes (a new instance equals the default); the index returned is
   valid and the instance is neither closing nor abandoned *)
Lemma pick_spec s b s1 b' : pick s b = (s1, b') ->
  (forall i, get_bp s1 i = get_bp s i) /\ b' < length (bps s1) /\ length (bps s) <= length (bps s1) /\
  cl (get_bp s b') = false /\ ab (get_bp s b') = false /\
  q s1 = q s /\ rq s1 = rq s /\ hwm s1 = hwm s /\ lv s1 = lv s /\ cur s1 = cur s /\ log s1 = log s /\
  succ s1 = succ s /\ nxt s1 = nxt s /\ crash s1 = crash s /\
  (s1 = s \/ bps s1 = bps s ++ [bpw0]).
Proof.
  unfold pick. destruct ((b <? length (bps s)) && negb (ab (get_bp s b)) && negb (cl (get_bp s b))) eqn:E; intros H; injection H as <- <-.
  - apply andb_true_iff in E as [E E3]. apply andb_true_iff in E as [E1 E2].
    apply Nat.ltb_lt in E1. apply negb_true_iff in E2, E3. repeat split; auto.
  - simpl. repeat split; auto.
    + intros i. unfold get_bp. simpl. destruct (Nat.eq_dec i (length (bps s))) as [->|N].
      * rewrite nth_app_new. now rewrite nth_overflow.
      * now apply nth_app_old.
    + rewrite app_length. simpl. lia.
    + rewrite app_length. lia.
    + now rewrite get_bp_default.
    + now rewrite get_bp_default.
Qed.

Lemma flat_map_bps_snoc {B} (f : bpw -> list B) l : f bpw0 = [] -> flat_map f (l ++ [bpw0]) = flat_map f l.
Proof. intros H. rewrite flat_map_app. simpl. rewrite H. now rewrite !app_nil_r. Qed.

(* flat_map over the workers, through get_bp *)
Lemma in_all_doom s x : In x (all_doom s) <-> exists b, In x (doom (get_bp s b)).
Proof.
  unfold all_doom, get_bp. split.
  - intros H. apply (in_flat_map_nth doom bpw0) in H as (i & _ & H). eauto.
  - intros (b & H). destruct (Nat.lt_ge_cases b (length (bps s))).
    + eapply in_nth_flat_map; eauto.
    + rewrite nth_overflow in H by auto. easy.
Qed.

Lemma ensure_bp_some s lk b : cur s = Some b -> ensure_bp s lk = (s, true, lk).
Proof. unfold ensure_bp. now intros ->. Qed.
Lemma ensure_bp_fail s lk : cur s = None -> (forall b r, lk <> Some b :: r) ->
  exists lk', ensure_bp s lk = (s, false, lk').
Proof.
  unfold ensure_bp. intros -> H. destruct lk as [|[b|] r]; eauto. now destruct (H b r).
Qed.
Lemma ensure_bp_pick s b r : cur s = None ->
  ensure_bp s (Some b :: r) =
  (let '(s1, b') := pick s b in set_cur (push_inq s1 b' [Syn]) (Some b'), true, r).
Proof. unfold ensure_bp. intros ->. destruct (pick s b). reflexivity. Qed.
