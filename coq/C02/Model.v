(* C02 — dedicated ordering model of ONE partition's path through the async producer (non-idempotent).
   Executable Gallina only, no proofs.

   Why a dedicated model: the composition coq/Producer/Compose.v keeps the sets handed to the bridge in an
   unbounded queue [i_bridge]; the real bridge channel is unbuffered (one outstanding request per broker
   worker), and per-partition order depends on exactly that (see C02/Coarse.v for the witness).  This model
   has the steps of partitionProducer.dispatch / newHighWatermark / flushRetryBuffers and of
   brokerProducer.run / waitForSpace / handleResponse / handleSuccess / handleError that touch ordering, with
   one outstanding request per broker worker, FIFO queues and arbitrary interleaving.

   Map to async_producer.go:
     q        dispatcher input ++ topic-worker input ++ partition-worker input (all FIFO, one path)
     rq       asyncProducer.retries + the retry handler's buffer
     hwm,lv   partitionProducer.highWatermark / retryState[level] = (buf, expectChaser)
     cur      partitionProducer.brokerProducer (index of the broker-worker instance, None = nil)
     bpw      one brokerProducer instance, projected to this partition:
                rf  = currentRetries[topic][partition] != nil      cl = closing != nil
                ab  = the abandoned channel is closed (exists only when Retry.Max = 0)
                buf = this partition's messages in bp.buffer       wt = the message held inside waitForSpace
                snt = the set handed to the bridge and not yet handled (one at a time: unbuffered channels),
                      with the cluster's answer once it has been given
                inq = bp.input
     log      the partition's log in the simulated cluster (submission indices of appended copies)
     succ     success events (submission index, offset)
   Everything the other partitions sharing a broker worker can do to this partition is a step of this model:
   a connection error on a request without messages of the partition (CFlush of an empty buffer, CAnswer VConn),
   flush timing (any), buffer overflow (CRecv ... 1 = enter waitForSpace), leader choice (any registered or
   new instance). *)
From Coq Require Import List Arith Bool.
Import ListNotations.

Inductive item :=
| Data (i r : nat)     (* application message: per-partition submission index, retries *)
| Fin (r : nat)        (* the chaser: flags = fin, retries *)
| Syn.                 (* flags = syn *)

Definition retries_of (m : item) : nat := match m with Data _ r => r | Fin r => r | Syn => 0 end.
Definition is_fin (m : item) : bool := match m with Fin _ => true | _ => false end.

Inductive vkind := VOk | VFatal | VRetr | VConn.
(* VOk: NoError with base offset; VFatal: non-retriable block error or missing block; VRetr: retriable block
   error; VConn: broker.Produce failed (not a PacketEncodingError) *)

Record bpw := mkBpw {
  rf : bool; cl : bool; ab : bool;
  buf : list item; wt : option item;
  snt : option (list item * option (vkind * nat));
  inq : list item }.
Definition bpw0 := mkBpw false false false [] None None [].

Record lvl := mkLvl { lbuf : list item; chs : bool }.
Definition lvl0 := mkLvl [] false.

Record st := mkSt {
  q : list item; rq : list item;
  hwm : nat; lv : list lvl; cur : option nat;
  bps : list bpw;
  log : list nat; succ : list (nat * nat);
  nxt : nat;
  crash : option nat }.

Definition init (mx : nat) : st := mkSt [] [] 0 (repeat lvl0 (S mx)) None [] [] [] 0 None.

Definition CR_LEVEL := 12.    (* retryState index out of range / highWatermark below zero *)
Definition CR_NIL_BP := 11.   (* newHighWatermark with pp.brokerProducer == nil *)

(* ---------------------------------------------------------------- updaters *)
Fixpoint upd {A} (i : nat) (f : A -> A) (l : list A) : list A :=
  match l, i with
  | [], _ => []
  | x :: r, O => f x :: r
  | x :: r, S i' => x :: upd i' f r
  end.

Definition set_q (s : st) (x : list item) := mkSt x (rq s) (hwm s) (lv s) (cur s) (bps s) (log s) (succ s) (nxt s) (crash s).
Definition set_rq (s : st) (x : list item) := mkSt (q s) x (hwm s) (lv s) (cur s) (bps s) (log s) (succ s) (nxt s) (crash s).
Definition set_hwm (s : st) (x : nat) := mkSt (q s) (rq s) x (lv s) (cur s) (bps s) (log s) (succ s) (nxt s) (crash s).
Definition set_lv (s : st) (x : list lvl) := mkSt (q s) (rq s) (hwm s) x (cur s) (bps s) (log s) (succ s) (nxt s) (crash s).
Definition set_cur (s : st) (x : option nat) := mkSt (q s) (rq s) (hwm s) (lv s) x (bps s) (log s) (succ s) (nxt s) (crash s).
Definition set_bps (s : st) (x : list bpw) := mkSt (q s) (rq s) (hwm s) (lv s) (cur s) x (log s) (succ s) (nxt s) (crash s).
Definition set_log (s : st) (x : list nat) := mkSt (q s) (rq s) (hwm s) (lv s) (cur s) (bps s) x (succ s) (nxt s) (crash s).
Definition set_succ (s : st) (x : list (nat * nat)) := mkSt (q s) (rq s) (hwm s) (lv s) (cur s) (bps s) (log s) x (nxt s) (crash s).
Definition set_nxt (s : st) (x : nat) := mkSt (q s) (rq s) (hwm s) (lv s) (cur s) (bps s) (log s) (succ s) x (crash s).
Definition set_crash (s : st) (x : nat) := mkSt (q s) (rq s) (hwm s) (lv s) (cur s) (bps s) (log s) (succ s) (nxt s) (Some x).

Definition with_inq (b : bpw) (x : list item) := mkBpw (rf b) (cl b) (ab b) (buf b) (wt b) (snt b) x.
Definition with_buf (b : bpw) (x : list item) := mkBpw (rf b) (cl b) (ab b) x (wt b) (snt b) (inq b).
Definition with_wt (b : bpw) (x : option item) := mkBpw (rf b) (cl b) (ab b) (buf b) x (snt b) (inq b).
Definition with_snt (b : bpw) (x : option (list item * option (vkind * nat))) := mkBpw (rf b) (cl b) (ab b) (buf b) (wt b) x (inq b).
Definition with_rf (b : bpw) (x : bool) := mkBpw x (cl b) (ab b) (buf b) (wt b) (snt b) (inq b).
Definition with_cl (b : bpw) (x : bool) := mkBpw (rf b) x (ab b) (buf b) (wt b) (snt b) (inq b).
Definition with_ab (b : bpw) (x : bool) := mkBpw (rf b) (cl b) x (buf b) (wt b) (snt b) (inq b).

Definition get_bp (s : st) (b : nat) : bpw := nth b (bps s) bpw0.
Definition push_inq (s : st) (b : nat) (ms : list item) : st :=
  set_bps s (upd b (fun x => with_inq x (inq x ++ ms)) (bps s)).

Definition get_lvl (i : nat) (l : list lvl) : lvl := nth i l lvl0.
Definition set_chs (i : nat) (c : bool) := upd i (fun l => mkLvl (lbuf l) c).
Definition set_lbuf (i : nat) (ms : list item) := upd i (fun l => mkLvl ms (chs l)).

(* ---------------------------------------------------------------- retryMessage *)
(* what retryMessage puts on the retry queue: nothing when the budget is used up (the message fails) *)
Definition bounce1 (mx : nat) (m : item) : list item :=
  match m with
  | Data i r => if mx <=? r then [] else [Data i (S r)]
  | Fin r => if mx <=? r then [] else [Fin (S r)]
  | Syn => []
  end.
Definition bounce (mx : nat) (ms : list item) : list item := flat_map (bounce1 mx) ms.

(* ---------------------------------------------------------------- partition worker *)

(* getBrokerProducer(leader): the registered instance (not closing, not abandoned) with that index, or a new one *)
Definition pick (s : st) (b : nat) : st * nat :=
  if (b <? length (bps s)) && negb (ab (get_bp s b)) && negb (cl (get_bp s b)) then (s, b)
  else (set_bps s (bps s ++ [bpw0]), length (bps s)).

(* `if pp.brokerProducer == nil { updateLeader() }`: false = the lookup failed.  A successful updateLeader sends a syn. *)
Definition ensure_bp (s : st) (lk : list (option nat)) : st * bool * list (option nat) :=
  match cur s with
  | Some _ => (s, true, lk)
  | None =>
      match lk with
      | Some b :: r => let '(s1, b') := pick s b in (set_cur (push_inq s1 b' [Syn]) (Some b'), true, r)
      | None :: r => (s, false, r)
      | [] => (s, false, [])
      end
  end.

Definition send_cur (s : st) (ms : list item) : st :=
  match cur s with Some b => push_inq s b ms | None => s end.

(* The loop body of partitionProducer.dispatch is written as a composition of named elementary operations; the
   message being handled stays at the head of [q] until the operation that consumes it. *)
Definition pop (s : st) : st := set_q s (tl (q s)).

(* the tail of the loop body: obtain a broker worker if there is none and send the head of q to it; a failed
   lookup fails the message (returnError) *)
Definition fwd_head (s : st) (lk : list (option nat)) : st :=
  match q s with
  | [] => s
  | m :: _ => let '(s1, ok, _) := ensure_bp s lk in if ok then pop (send_cur s1 [m]) else pop s1
  end.

(* newHighWatermark(r) up to `pp.brokerProducer = nil`: fin to the current worker, expectChaser, new watermark *)
Definition mark (s : st) (b r : nat) : st :=
  set_cur (set_hwm (set_lv (push_inq s b [Fin (r - 1)]) (set_chs r true (lv s))) r) None.

(* a fin of level r has come back *)
Definition fin_seen (s : st) (r : nat) : st := set_lv s (set_chs r false (lv s)).

(* a message below the watermark is parked *)
Definition park_head (s : st) (r : nat) (m : item) : st :=
  pop (set_lv s (set_lbuf r (lbuf (get_lvl r (lv s)) ++ [m]) (lv s))).

(* highWatermark-- ; the level's buffer is taken (`buf = nil` at flushDone) *)
Definition lower (s : st) (h' : nat) : st := set_lv (set_hwm s h') (set_lbuf h' [] (lv s)).

(* one iteration of the loop of flushRetryBuffers: highWatermark--, updateLeader if needed, send the level's buffer
   (a failed lookup fails the buffered messages) *)
Definition flush1 (s : st) (h' : nat) (lk : list (option nat)) : st * list (option nat) :=
  let ms := lbuf (get_lvl h' (lv s)) in
  let '(s1, ok, lk1) := ensure_bp (lower s h') lk in
  ((if ok then send_cur s1 ms else s1), lk1).

(* flushRetryBuffers entered with highWatermark = h (fuel = h) *)
Fixpoint flush (s : st) (h : nat) (lk : list (option nat)) : st :=
  match h with
  | O => set_crash s CR_LEVEL
  | S h' =>
      let '(s3, lk1) := flush1 s h' lk in
      if chs (get_lvl h' (lv s)) || (h' =? 0) then s3 else flush s3 h' lk1
  end.

(* the abandoned poll at the top of the loop body (the channel exists only when Retry.Max = 0) *)
Definition abandon_check (s : st) : st :=
  match cur s with
  | Some b => if ab (get_bp s b) then set_cur s None else s
  | None => s
  end.

(* one iteration of the loop of partitionProducer.dispatch on the message at the head of q *)
Definition pp_handle (mx : nat) (s0 : st) (lk : list (option nat)) : st :=
  match q s0 with
  | [] => s0
  | m :: _ =>
      let s := abandon_check s0 in
      let r := retries_of m in
      if hwm s <? r then
        (* a new retry level sends its chaser through the current broker worker: one is obtained first, a failed
           lookup fails the message (repo commit b3ac13a; the pinned tree dereferenced nil here) *)
        let '(s1, ok, lk1) := ensure_bp s lk in
        if negb ok then pop s1
        else if mx <? r then set_crash s1 CR_LEVEL
        else match cur s1 with
             | None => set_crash s1 CR_NIL_BP
             | Some b => fwd_head (mark s1 b r) lk1
             end
      else if 0 <? hwm s then
        if r <? hwm s then
          if is_fin m then fin_seen (pop s) r else park_head s r m
        else if is_fin m then flush (fin_seen (pop s) (hwm s)) (hwm s) lk
        else fwd_head s lk
      else fwd_head s lk
  end.

(* ---------------------------------------------------------------- broker worker *)

Definition refusing (b : bpw) : bool := rf b || cl b.

(* `msg := <-bp.input` handled by the run loop (only while not inside waitForSpace).
   d: what the buffer does with an accepted message: 0 add, 1 wouldOverflow (enter waitForSpace), 2 add fails (encoder) *)
Definition bp_recv (mx : nat) (s : st) (b : nat) (d : nat) : st :=
  let x := get_bp s b in
  match wt x, inq x with
  | None, m :: rest =>
      let x1 := with_inq x rest in
      let put (y : bpw) (s' : st) := set_bps s' (upd b (fun _ => y) (bps s')) in
      match m with
      | Syn => put (with_rf x1 false) s
      | _ =>
          if refusing x then
            let x2 := if negb (cl x) && is_fin m then with_rf x1 false else x1 in
            put x2 (set_rq s (rq s ++ bounce1 mx m))
          else if is_fin m then
            (* a chaser that finds the worker not refusing its partition is bounced like the messages it chases,
               never buffered as a message (repo commit 1a6c550) *)
            put x1 (set_rq s (rq s ++ bounce1 mx m))
          else match d with
               | 0 => put (with_buf x1 (buf x1 ++ [m])) s
               | 1 => put (with_wt x1 (Some m)) s
               | _ => put x1 s
               end
      end
  | _, _ => s
  end.

(* `output <- bp.buffer` (run loop, or inside waitForSpace: then the held message goes into the new buffer).
   The bridge channel is unbuffered: enabled only when no set is outstanding. *)
Definition bp_flush (s : st) (b : nat) : st :=
  let x := get_bp s b in
  match snt x with
  | Some _ => s
  | None =>
      if b <? length (bps s) then
        let nb := match wt x with Some m => [m] | None => [] end in
        set_bps s (upd b (fun _ => with_wt (with_buf (with_snt x (Some (buf x, None))) nb) None) (bps s))
      else s
  end.

Fixpoint data_ids (l : list item) : list nat :=
  match l with [] => [] | Data i _ :: r => i :: data_ids r | _ :: r => data_ids r end.

(* the cluster (or the connection) answers the outstanding request; app: the partition's records were appended *)
Definition answer (s : st) (b : nat) (v : vkind) (app : bool) : st :=
  let x := get_bp s b in
  match snt x with
  | Some (l, None) =>
      let appended := match v with VOk => true | _ => app end in
      let s1 := set_bps s (upd b (fun _ => with_snt x (Some (l, Some (v, length (log s))))) (bps s)) in
      if appended then set_log s1 (log s ++ data_ids l) else s1
  | _ => s
  end.

Fixpoint successes (l : list item) (base : nat) : list (nat * nat) :=
  match l with
  | [] => []
  | Data i _ :: r => (i, base) :: successes r (S base)
  | _ :: r => successes r base       (* markers never reach the wire as records of this model's log *)
  end.

(* handleResponse (+ the re-check of waitForSpace when the worker is inside it).
   addw: after the response the held message no longer overflows the buffer *)
Definition bp_resp (mx : nat) (s : st) (b : nat) (addw : bool) : st :=
  let x := get_bp s b in
  match snt x with
  | Some (l, Some (v, base)) =>
      let x0 := with_snt x None in
      let '(x1, s1) :=
        match v with
        | VOk => (x0, set_succ s (succ s ++ successes l base))
        | VFatal => ((if mx =? 0 then with_ab x0 true else x0), s)
        | VRetr =>
            if mx =? 0 then (with_ab x0 true, s)
            else match l with
                 | [] => (x0, s)      (* the partition is not in the request: its block verdict does not exist *)
                 | _ => (with_buf (with_rf x0 true) [], set_rq s (rq s ++ bounce mx (l ++ buf x0)))
                 end
        | VConn =>
            (with_buf (with_cl (if mx =? 0 then with_ab x0 true else x0) true) [],
             set_rq s (rq s ++ bounce mx (l ++ buf x0)))
        end in
      let '(x2, s2) :=
        match wt x1 with
        | Some m =>
            if refusing x1 then (with_wt x1 None, set_rq s1 (rq s1 ++ bounce1 mx m))
            else if addw then (with_wt (with_buf x1 (buf x1 ++ [m])) None, s1)
            else (x1, s1)
        | None => (x1, s1)
        end in
      set_bps s2 (upd b (fun _ => x2) (bps s2))
  | _ => s
  end.

(* ---------------------------------------------------------------- composition *)

Inductive choice :=
| CSubmit                                (* the application sends the next message of this partition *)
| CRetry                                 (* retry handler forwards its oldest message to the dispatcher *)
| CFailQ (n : nat)                       (* dispatcher / topic worker rejects the n-th message on the way (returnError) *)
| CPp (lk : list (option nat))           (* partition worker handles its next input; lk: leader lookups *)
| CRecv (b d : nat)
| CFlush (b : nat)
| CAnswer (b : nat) (v : vkind) (app : bool)
| CResp (b : nat) (addw : bool).

Fixpoint remove_nth {A} (i : nat) (l : list A) : list A :=
  match l, i with
  | [], _ => []
  | _ :: r, O => r
  | x :: r, S i' => x :: remove_nth i' r
  end.

Definition raw_step (mx : nat) (s : st) (c : choice) : st :=
  match c with
  | CSubmit => set_nxt (set_q s (q s ++ [Data (nxt s) 0])) (S (nxt s))
  | CRetry => match rq s with m :: r => set_q (set_rq s r) (q s ++ [m]) | [] => s end
  | CFailQ n => match nth_error (q s) n with
                | Some (Data _ _) => set_q s (remove_nth n (q s))
                | _ => s
                end
  | CPp lk => pp_handle mx s lk
  | CRecv b d => bp_recv mx s b d
  | CFlush b => bp_flush s b
  | CAnswer b v app => answer s b v app
  | CResp b addw => bp_resp mx s b addw
  end.

(* a Go panic stops the program *)
Definition step (mx : nat) (s : st) (c : choice) : st :=
  match crash s with Some _ => s | None => raw_step mx s c end.

Definition run (mx : nat) (sched : list choice) : st := fold_left (step mx) sched (init mx).

(* ---------------------------------------------------------------- the property, as functions *)

(* first copies: the log with later duplicates removed *)
Fixpoint firsts_aux (seen : list nat) (l : list nat) : list nat :=
  match l with
  | [] => []
  | x :: r => if existsb (Nat.eqb x) seen then firsts_aux seen r else x :: firsts_aux (x :: seen) r
  end.
Definition first_copies (l : list nat) : list nat := firsts_aux [] l.

Fixpoint increasing (l : list nat) : bool :=
  match l with
  | x :: ((y :: _) as r) => (x <? y) && increasing r
  | _ => true
  end.

(* of two successes the earlier-submitted has the smaller offset *)
Definition succ_ordered (l : list (nat * nat)) : bool :=
  forallb (fun a => forallb (fun b => negb (fst a <? fst b) || (snd a <? snd b)) l) l.

Definition order_ok (s : st) : bool := increasing (first_copies (log s)) && succ_ordered (succ s).
