(* C02 — statements and final theorems (assembled from Inv1..Inv4 and Step). *)
From Coq Require Import List Arith Bool Lia Sorted.
From SV Require Import C02.Model C02.Defs C02.Lemmas C02.Prims C02.Inv1 C02.Inv2 C02.Inv3 C02.Inv4 C02.Step C02.Refuted.
Import ListNotations.

(* ---------------------------------------------------------------- Retry.Max >= 1: all schedules *)
Theorem logical_order mx sched : 1 <= mx -> sorted (logical mx (run mx sched)).
Proof. intros H. destruct (inv_run mx sched H) as (_ & _ & I3 & _). now destruct I3. Qed.

Theorem first_copies_ordered mx sched : 1 <= mx -> increasing (first_copies (log (run mx sched))) = true.
Proof. intros H. destruct (inv_run mx sched H) as (_ & _ & _ & I4 & _). now destruct I4. Qed.

Lemma ssorted_pair_order (l : list (nat * nat)) :
  StronglySorted (fun a b => fst a < fst b /\ snd a < snd b) l ->
  forall a b, In a l -> In b l -> fst a < fst b -> snd a < snd b.
Proof.
  induction 1 as [|x l S IH F]; intros a b Ha Hb Hlt; [destruct Ha|].
  rewrite Forall_forall in F. destruct Ha as [<-|Ha], Hb as [<-|Hb].
  - lia.
  - now apply F.
  - apply F in Ha. lia.
  - now apply IH.
Qed.

Theorem success_offsets_ordered mx sched : 1 <= mx -> succ_ordered (succ (run mx sched)) = true.
Proof.
  intros H. destruct (inv_run mx sched H) as (_ & _ & _ & I4 & _). destruct I4.
  unfold succ_ordered. apply forallb_forall. intros a Ha. apply forallb_forall. intros b Hb.
  destruct (Nat.ltb_spec (fst a) (fst b)) as [L|L]; simpl; auto. apply Nat.ltb_lt.
  apply (ssorted_pair_order _ i_ent_sorted); auto; unfold entries; apply in_or_app; now left.
Qed.

Theorem no_panic mx sched : 1 <= mx -> crash (run mx sched) = None.
Proof. intros H. now destruct (inv_run mx sched H) as (_ & _ & _ & _ & C). Qed.

(* the accepted messages of the current worker, in the order they will be sent, are the head of the logical list *)
Theorem accepted_is_head mx sched : 1 <= mx -> let s := run mx sched in
  exists R, logical mx s = map fst (acc (cur_bp s)) ++ R.
Proof. intros H s. destruct (inv_run mx sched H) as (I1 & I2 & _). eexists. now apply logical_prefix. Qed.

(* ---------------------------------------------------------------- Retry.Max = 0: the full statement is false *)
Definition retry0_statement : Prop := forall sched, order_ok (run 0 sched) = true.

Lemma retry0_statement_false : ~ retry0_statement.
Proof.
  intros H. destruct retry0_refuted as (sched & _ & _ & _ & H1 & _). specialize (H sched).
  unfold order_ok in H. rewrite H1 in H. discriminate.
Qed.
