(* C02 — statements and final theorems (assembled from Inv1..Inv4). *)
From Coq Require Import List Arith Bool Lia.
From SV Require Import C02.Model C02.Defs C02.Refuted.
Import ListNotations.

(* the full statements *)
Definition logical_order_statement : Prop :=
  forall mx sched, 1 <= mx -> sorted (logical mx (run mx sched)).
Definition first_copies_statement : Prop :=
  forall mx sched, 1 <= mx -> increasing (first_copies (log (run mx sched))) = true.
Definition success_offsets_statement : Prop :=
  forall mx sched, 1 <= mx -> succ_ordered (succ (run mx sched)) = true.
Definition retry0_statement : Prop :=
  forall sched, order_ok (run 0 sched) = true.

Lemma retry0_statement_false : ~ retry0_statement.
Proof.
  intros H. destruct retry0_refuted as (sched & _ & _ & _ & H1 & _). specialize (H sched).
  unfold order_ok in H. rewrite H1 in H. discriminate.
Qed.
