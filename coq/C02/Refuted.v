(* C02 — the defect announced by the property, on the model: with Producer.Retry.Max = 0 a failed block abandons
   the broker worker; the message still in the old worker's buffer is sent later by that worker, while the
   partition worker routes the next message through a fresh worker, which can be appended first. *)
From Coq Require Import List Arith Bool.
From SV Require Import C02.Model.
Import ListNotations.

(* messages 0 and 1 are submitted; request [0] is in flight while 1 sits in the old worker's buffer; the answer
   to [0] is a fatal block error: `abandoned` is closed, only 0 fails.  Message 2 is submitted afterwards: the
   partition worker notices `abandoned`, takes a fresh worker, and 2 is appended (offset 0) before 1 (offset 1). *)
Definition sched_retry0 : list choice :=
  [CSubmit; CSubmit; CPp [Some 0]; CPp []; CRecv 0 0; CRecv 0 0; CFlush 0; CRecv 0 0;
   CAnswer 0 VFatal false; CResp 0 false;
   CSubmit; CPp [Some 0]; CRecv 1 0; CRecv 1 0; CFlush 1; CAnswer 1 VOk true;
   CFlush 0; CAnswer 0 VOk true; CResp 1 false; CResp 0 false].

Lemma retry0_refuted :
  exists sched, crash (run 0 sched) = None /\
    log (run 0 sched) = [2; 1] /\ succ (run 0 sched) = [(2, 0); (1, 1)] /\
    increasing (first_copies (log (run 0 sched))) = false /\ succ_ordered (succ (run 0 sched)) = false.
Proof. exists sched_retry0. vm_compute. repeat split. Qed.
