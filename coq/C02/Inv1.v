(* C02 — layer 1 of the invariant (structure: markers, chasers, shapes) is preserved by every step. *)
From Coq Require Import List Arith Bool Lia.
From SV Require Import C02.Model C02.Defs C02.Lemmas C02.Prims.
Import ListNotations.

Lemma okitem_mono mx n n' m : n <= n' -> okitem mx n m -> okitem mx n' m.
Proof. destruct m; simpl; intros; auto. lia. Qed.
Lemma Forall_okitem_mono mx n n' l : n <= n' -> Forall (okitem mx n) l -> Forall (okitem mx n') l.
Proof. intros H. apply Forall_impl. intros m. now apply okitem_mono. Qed.

Lemma nosyn_app a b : nosyn (a ++ b) <-> nosyn a /\ nosyn b.
Proof. unfold nosyn. rewrite in_app_iff. tauto. Qed.

Lemma in_remove_nth {A} (x : A) : forall l n, In x (remove_nth n l) -> In x l.
Proof. induction l as [|y l IH]; intros [|n]; simpl; auto. intros [H|H]; auto. right. eapply IH; eauto. Qed.

Lemma fins_remove_nth_data : forall l n i r, nth_error l n = Some (Data i r) -> fins (remove_nth n l) = fins l.
Proof.
  induction l as [|y l IH]; intros [|n] i r; simpl; try discriminate.
  - intros H. injection H as ->. reflexivity.
  - intros H. destruct y; simpl; rewrite (IH _ _ _ H); reflexivity.
Qed.

(* ---------------------------------------------------------------- submit / retry handler / rejection *)

Ltac dI1 I := destruct I as [Hlen Hhwm Hcur Hab Hokq Hoklv Hokbp Hnosyn Hpnm Hpref Hlvtop Hlvdata Hchs Htup Htin Htpos Hspos
                               Hu1 Hu3 Hu4 Hnoncur Hmarked].

Lemma inv1_submit mx s : Inv1 mx s -> Inv1 mx (raw_step mx s CSubmit).
Proof.
  intros I. dI1 I. constructor; simpl; auto.
  - rewrite <- app_assoc. simpl. apply Forall_app in Hokq as [Hq Hr].
    apply Forall_app. split.
    + eapply Forall_okitem_mono; [|eauto]. lia.
    + constructor; [simpl; lia|]. eapply Forall_okitem_mono; [|eauto]. lia.
  - intros l. eapply Forall_okitem_mono; [|apply Hoklv]. lia.
  - intros b. eapply Forall_okitem_mono; [|apply Hokbp]. lia.
  - unfold nosyn in *. rewrite !in_app_iff in *. simpl. intros [[H|[H|[]]]|H]; try discriminate; tauto.
  - intros c H. apply Htup. rewrite !in_app_iff in *. simpl in H. destruct H as [[H|[H|[]]]|H]; try discriminate; tauto.
  - rewrite !fins_app in *. simpl. now rewrite app_nil_r.
  - intros c b H. apply Hu3. rewrite !in_app_iff in *. simpl in H. destruct H as [[H|[H|[]]]|H]; try discriminate; tauto.
Qed.

Lemma inv1_retry mx s : Inv1 mx s -> Inv1 mx (raw_step mx s CRetry).
Proof.
  intros I. simpl. destruct (rq s) as [|m r] eqn:E; auto.
  assert (P : forall x, In x ((q s ++ [m]) ++ r) <-> In x (q s ++ rq s)).
  { intros x. rewrite E, !in_app_iff. simpl. tauto. }
  dI1 I. constructor; simpl; auto.
  - apply Forall_forall. intros x Hx. rewrite Forall_forall in Hokq. apply Hokq. now apply P.
  - unfold nosyn in *. now rewrite P.
  - intros c H. apply Htup. now apply P.
  - rewrite E in Hu1. rewrite <- app_assoc. simpl. exact Hu1.
  - intros c b H. apply Hu3. now apply P.
Qed.

Lemma inv1_failq mx s n : Inv1 mx s -> Inv1 mx (raw_step mx s (CFailQ n)).
Proof.
  intros I. simpl. destruct (nth_error (q s) n) as [[i r| |]|] eqn:E; auto.
  assert (P : forall x, In x (remove_nth n (q s) ++ rq s) -> In x (q s ++ rq s)).
  { intros x. rewrite !in_app_iff. intros [H|H]; auto. left. eapply in_remove_nth; eauto. }
  dI1 I. constructor; simpl; auto.
  - apply Forall_forall. intros x Hx. rewrite Forall_forall in Hokq. apply Hokq. now apply P.
  - unfold nosyn in *. intros H. apply Hnosyn. now apply P.
  - intros c H. apply Htup. now apply P.
  - rewrite fins_app in *. now rewrite (fins_remove_nth_data _ _ _ _ E).
  - intros c b H. apply Hu3. now apply P.
Qed.

(* ---------------------------------------------------------------- a step that touches one broker worker and appends to the retry queue *)

Lemma inv1_local mx s s' b0 ex :
  Inv1 mx s ->
  q s' = q s -> rq s' = rq s ++ ex -> hwm s' = hwm s -> lv s' = lv s -> cur s' = cur s -> nxt s' = nxt s ->
  length (bps s') = length (bps s) ->
  (forall b, b <> b0 -> get_bp s' b = get_bp s b) ->
  let x := get_bp s b0 in let y := get_bp s' b0 in
  Forall (okitem mx (nxt s)) ex -> nosyn ex -> NoDup (fins ex) ->
  (forall c, In (Fin c) ex -> exists r, c = S r /\ In (Fin r) (inq x) /\ ~ In (Fin r) (inq y)) ->
  (forall r, In (Fin r) (inq y) -> In (Fin r) (inq x)) ->
  ab y = false -> Forall (okitem mx (nxt s)) (pre y ++ inq y) -> nomark (pre y) ->
  (refusing y = true -> pre y = []) ->
  (forall X r Y, inq y = X ++ Fin r :: Y -> nomark X /\ refusing y = true /\ ((Y = [] /\ cur s <> Some b0) \/ exists Y', Y = Syn :: Y')) ->
  (forall X Y, inq y = X ++ Syn :: Y -> nomark Y) ->
  (cur s <> Some b0 -> post_m (inq y) = [] /\ nosyn (inq y)) ->
  (has_m (inq y) = true -> refusing y = false -> datas (seg1 y) = []) ->
  Inv1 mx s'.
Proof.
  intros I Eq Erq Eh Elv Ecur Enx Elen Eoth x y Hex Hexs Hexd Hexf Hsub Hy1 Hy2 Hy3 Hy4 Hy5 Hy5b Hy6 Hy7.
  dI1 I.
  assert (G : forall (P : bpw -> Prop), (forall b, P (get_bp s b)) -> P y -> forall b, P (get_bp s' b)).
  { intros P H1 H2 b. destruct (Nat.eq_dec b b0) as [->|N]; auto. rewrite Eoth; auto. }
  assert (Up : forall m, In m (q s' ++ rq s') <-> In m (q s ++ rq s) \/ In m ex).
  { intros m. rewrite Eq, Erq, !in_app_iff. tauto. }
  constructor.
  - now rewrite Elv.
  - now rewrite Eh.
  - rewrite Ecur, Elen. auto.
  - apply (G (fun z => ab z = false)); auto.
  - rewrite Enx. apply Forall_forall. intros m Hm. apply Up in Hm as [Hm|Hm].
    + rewrite Forall_forall in Hokq. auto.
    + rewrite Forall_forall in Hex. auto.
  - intros l. rewrite Enx, Elv. auto.
  - rewrite Enx. apply (G (fun z => Forall (okitem mx (nxt s)) (pre z ++ inq z))); auto.
  - unfold nosyn in *. intros H. apply Up in H as [H|H]; auto.
  - apply (G (fun z => nomark (pre z))); auto.
  - apply (G (fun z => refusing z = true -> pre z = [])); auto.
  - intros l. rewrite Eh, Elv. auto.
  - intros l m. rewrite Elv. auto.
  - unfold pend. intros c. rewrite Elv, Eh. apply Hchs.
  - unfold pend. rewrite Elv. intros c H. apply Up in H as [H|H]; [now apply Htup|].
    destruct (Hexf c H) as (r & -> & Hr & _). eapply Htin; eauto.
  - unfold pend. rewrite Elv. intros b r. revert b.
    apply (G (fun z => In (Fin r) (inq z) -> chs (get_lvl (S r) (lv s)) = true)); [intros b; apply Htin|].
    intros H. eapply Htin. apply Hsub. eauto.
  - intros b X r Y. rewrite Ecur. destruct (Nat.eq_dec b b0) as [->|N]; [apply Hy5|]. rewrite Eoth by auto. apply Htpos.
  - apply (G (fun z => forall X Y, inq z = X ++ Syn :: Y -> nomark Y)); auto.
  - rewrite Eq, Erq, app_assoc, fins_app. apply NoDup_app_intro; auto.
    intros c H1 H2. apply in_fins in H1, H2. destruct (Hexf c H2) as (r & -> & Hr & _).
    eapply Hu3; eauto.
  - intros c b H. apply Up in H as [H|H].
    + revert b. apply (G (fun z => ~ In (Fin c) (inq z))); [intros b; now apply Hu3|].
      intros H2. eapply Hu3; eauto.
    + destruct (Hexf _ H) as (r & E & Hr & Hny). injection E as ->.
      destruct (Nat.eq_dec b b0) as [->|N]; [exact Hny|].
      rewrite Eoth by auto. eapply (Hu4 b0 b); eauto.
  - intros b b' r N. destruct (Nat.eq_dec b b0) as [->|Nb]; destruct (Nat.eq_dec b' b0) as [->|Nb']; try easy.
    + rewrite (Eoth b') by auto. intros H H2. apply Hsub in H. revert H2. apply (Hu4 b0 b'); auto.
    + rewrite (Eoth b) by auto. intros H H2. apply Hsub in H2. revert H2. apply (Hu4 b b0); auto.
    + rewrite (Eoth b), (Eoth b') by auto. apply Hu4; auto.
  - rewrite Ecur. intros b Hb. destruct (Nat.eq_dec b b0) as [->|N]; auto. rewrite Eoth; auto.
  - apply (G (fun z => has_m (inq z) = true -> refusing z = false -> datas (seg1 z) = [])); auto.
Qed.

(* ---------------------------------------------------------------- broker-worker steps *)

Arguments bounce1 : simpl never.
Lemma nomark_cons m l : nomark (m :: l) <-> is_marker m = false /\ nomark l.
Proof. unfold nomark. split; [intros H; inversion H; auto|intros [H1 H2]; constructor; auto]. Qed.

Lemma bounce1_fins mx m c : In (Fin c) (bounce1 mx m) -> exists r, m = Fin r /\ c = S r.
Proof.
  unfold bounce1. destruct m as [i r|r|]; simpl; try easy.
  - destruct (mx <=? r); simpl; intros H; try easy; destruct H as [H|[]]; discriminate.
  - destruct (mx <=? r); simpl; intros H; try easy; destruct H as [H|[]]. injection H as <-. eauto.
Qed.
Lemma bounce1_ok mx n m : okitem mx n m -> Forall (okitem mx n) (bounce1 mx m) /\ nosyn (bounce1 mx m) /\ NoDup (fins (bounce1 mx m)).
Proof.
  unfold nosyn, bounce1. destruct m as [i r|r|]; simpl; intros H.
  - destruct (Nat.leb_spec mx r); simpl; repeat split; auto; try constructor; simpl; try lia; auto; try constructor.
    intros [E|[]]; discriminate.
  - destruct (Nat.leb_spec mx r); simpl; repeat split; auto; try constructor; simpl; try lia; auto; try constructor.
    intros [E|[]]; discriminate.
  - repeat split; auto; constructor.
Qed.


(* replace worker b by y and append ex to the retry queue *)
Lemma inv1_put mx s b ex y :
  Inv1 mx s -> b < length (bps s) ->
  let x := get_bp s b in
  Forall (okitem mx (nxt s)) ex -> nosyn ex -> NoDup (fins ex) ->
  (forall c, In (Fin c) ex -> exists r, c = S r /\ In (Fin r) (inq x) /\ ~ In (Fin r) (inq y)) ->
  (forall r, In (Fin r) (inq y) -> In (Fin r) (inq x)) ->
  ab y = false -> Forall (okitem mx (nxt s)) (pre y ++ inq y) -> nomark (pre y) ->
  (refusing y = true -> pre y = []) ->
  (forall X r Y, inq y = X ++ Fin r :: Y -> nomark X /\ refusing y = true /\ ((Y = [] /\ cur s <> Some b) \/ exists Y', Y = Syn :: Y')) ->
  (forall X Y, inq y = X ++ Syn :: Y -> nomark Y) ->
  (cur s <> Some b -> post_m (inq y) = [] /\ nosyn (inq y)) ->
  (has_m (inq y) = true -> refusing y = false -> datas (seg1 y) = []) ->
  Inv1 mx (put_bp (set_rq s (rq s ++ ex)) b y).
Proof.
  intros I Hb x. intros.
  assert (E : get_bp (put_bp (set_rq s (rq s ++ ex)) b y) b = y).
  { rewrite get_bp_put. simpl. rewrite Nat.eqb_refl. apply Nat.ltb_lt in Hb. now rewrite Hb. }
  eapply (inv1_local mx s _ b ex I); try reflexivity; rewrite ?E; auto.
  - exact (length_put (set_rq s (rq s ++ ex)) b y).
  - intros b' N. rewrite get_bp_put. apply Nat.eqb_neq in N. now rewrite N.
Qed.

Lemma put_bp_rq_nil s b y : put_bp (set_rq s (rq s ++ [])) b y = put_bp s b y.
Proof. unfold put_bp, set_rq. simpl. rewrite app_nil_r. now destruct s. Qed.

Lemma inv1_put0 mx s b y :
  Inv1 mx s -> b < length (bps s) ->
  let x := get_bp s b in
  (forall r, In (Fin r) (inq y) -> In (Fin r) (inq x)) ->
  ab y = false -> Forall (okitem mx (nxt s)) (pre y ++ inq y) -> nomark (pre y) ->
  (refusing y = true -> pre y = []) ->
  (forall X r Y, inq y = X ++ Fin r :: Y -> nomark X /\ refusing y = true /\ ((Y = [] /\ cur s <> Some b) \/ exists Y', Y = Syn :: Y')) ->
  (forall X Y, inq y = X ++ Syn :: Y -> nomark Y) ->
  (cur s <> Some b -> post_m (inq y) = [] /\ nosyn (inq y)) ->
  (has_m (inq y) = true -> refusing y = false -> datas (seg1 y) = []) ->
  Inv1 mx (put_bp s b y).
Proof.
  intros. rewrite <- put_bp_rq_nil. apply inv1_put; auto; try constructor; easy.
Qed.
Lemma inv1_recv mx s b d : Inv1 mx s -> Inv1 mx (bp_recv mx s b d).
Proof.
  intros I. unfold bp_recv.
  set (x := get_bp s b).
  destruct (wt x) eqn:Ew; auto. destruct (inq x) as [|m rest] eqn:Ei; auto.
  destruct (Nat.lt_ge_cases b (length (bps s))) as [Hb|Hb].
  2:{ unfold x in Ei. rewrite get_bp_default in Ei by auto. discriminate. }
  pose proof I as I'. dI1 I'.
  assert (Hpos := Htpos b). assert (Hsp := Hspos b). fold x in Hpos, Hsp. rewrite Ei in Hpos, Hsp.
  assert (Hok := Hokbp b). fold x in Hok. rewrite Ei in Hok.
  apply Forall_app in Hok as [Hokp Hoki]. inversion Hoki as [|? ? Hokm Hokr]; subst.
  assert (Hpx := Hpnm b). assert (Hrx := Hpref b). fold x in Hpx, Hrx.
  assert (Habx := Hab b). fold x in Habx.
  assert (Hnc := Hnoncur b). fold x in Hnc. rewrite Ei in Hnc.
  assert (Hmk := Hmarked b). fold x in Hmk. rewrite Ei in Hmk.
  (* facts about the rest of the input *)
  assert (Rfin : forall X r Y, rest = X ++ Fin r :: Y ->
            nomark X /\ is_marker m = false /\ refusing x = true /\ ((Y = [] /\ cur s <> Some b) \/ exists Y', Y = Syn :: Y')).
  { intros X r Y E. destruct (Hpos (m :: X) r Y) as (N & R & T); [now rewrite E|].
    apply nomark_cons in N as [N1 N2]. auto. }
  assert (Rsyn : forall X Y, rest = X ++ Syn :: Y -> nomark Y).
  { intros X Y E. apply (Hsp (m :: X) Y). now rewrite E. }
  assert (Rsub : forall r, In (Fin r) rest -> In (Fin r) (m :: rest)) by (intros; now right).
  cbv zeta.
  destruct m as [i r|r|].
  - (* data *)
    destruct (refusing x) eqn:Er.
    + (* bounced *)
      simpl negb. rewrite andb_false_r.
      change (Inv1 mx (put_bp (set_rq s (rq s ++ bounce1 mx (Data i r))) b (with_inq x rest))).
      destruct (bounce1_ok mx (nxt s) (Data i r) Hokm) as (B1 & B2 & B3).
      apply inv1_put; auto; fold x; simpl; rewrite ?Ei; auto.
      * intros c H. apply bounce1_fins in H as (r' & E & _). discriminate.
      * unfold pre, sent_items, wt_items in *. simpl. apply Forall_app. split; auto.
      * intros X r' Y E. destruct (Rfin X r' Y E) as (N & _ & R & T). unfold refusing in *. simpl. auto.
      * intros H. destruct (Hnc H) as [P Q]. simpl in P. split; auto. unfold nosyn in *. simpl in Q. tauto.
      * unfold refusing in *. simpl. rewrite Er. discriminate.
    + (* accepted *)
      assert (Hacc : forall y, pre y = pre x ++ [Data i r] \/ pre y = pre x -> inq y = rest ->
                 ab y = false -> rf y = rf x -> cl y = cl x -> Inv1 mx (put_bp s b y)).
      { intros y Hp Hi Hay Hrf Hcl.
        assert (Ry : refusing y = false) by (unfold refusing in *; now rewrite Hrf, Hcl).
        apply inv1_put0; auto; fold x; rewrite ?Hi, ?Ei; auto.
        - destruct Hp as [-> | ->]; apply Forall_app; split; auto.
          apply Forall_app; split; auto.
        - destruct Hp as [-> | ->]; auto. apply nomark_app. split; auto. repeat constructor.
        - rewrite Ry. discriminate.
        - intros X r' Y E. destruct (Rfin X r' Y E) as (_ & _ & R & _). discriminate.
        - intros H. destruct (Hnc H) as [P Q]. simpl in P. split; auto. unfold nosyn in *. simpl in Q. tauto.
        - intros H _. exfalso. assert (H2 : has_m (Data i r :: rest) = true) by exact H.
          specialize (Hmk H2 eq_refl). unfold seg1 in Hmk. rewrite Ei in Hmk. simpl in Hmk. rewrite datas_app in Hmk. simpl in Hmk.
          apply app_eq_nil in Hmk as [_ Hmk]. discriminate. }
      destruct d as [|[|d]].
      * apply Hacc; auto. left. unfold pre, sent_items, wt_items. simpl. rewrite Ew. now rewrite !app_nil_r, <- !app_assoc.
      * apply Hacc; auto. left. unfold pre, sent_items, wt_items. simpl. rewrite Ew. now rewrite !app_nil_r, <- !app_assoc.
      * apply Hacc; auto.
  - (* fin: only a refusing worker ever receives one *)
    destruct (Hpos [] r rest eq_refl) as (_ & Er & T). rewrite Er.
    assert (Hpre : pre x = []) by auto.
    assert (Nf : forall r', ~ In (Fin r') rest).
    { intros r' H. apply in_split in H as (X & Y & E). destruct (Rfin X r' Y E) as (_ & F & _). discriminate. }
    destruct (bounce1_ok mx (nxt s) (Fin r) Hokm) as (B1 & B2 & B3).
    set (y := if negb (cl x) && is_fin (Fin r) then with_rf (with_inq x rest) false else with_inq x rest).
    change (Inv1 mx (put_bp (set_rq s (rq s ++ bounce1 mx (Fin r))) b y)).
    assert (Ey : pre y = [] /\ inq y = rest /\ ab y = false /\ cl y = cl x).
    { unfold y. destruct (negb (cl x) && is_fin (Fin r)); simpl; auto. }
    destruct Ey as (Ey1 & Ey2 & Ey3 & Ey4).
    apply inv1_put; auto; fold x; rewrite ?Ey1, ?Ey2, ?Ei.
    + intros c H. apply bounce1_fins in H as (r' & E & ->). injection E as <-. exists r. repeat split; auto. now left.
    + intros r' H. exfalso. eapply Nf; eauto.
    + simpl. auto.
    + constructor.
    + intros X r' Y E. exfalso. apply (Nf r'). rewrite E. apply in_or_app. right. now left.
    + exact Rsyn.
    + intros H. destruct (Hnc H) as [P Q]. simpl in P. rewrite P. split; [reflexivity|intros []].
    + intros H R. unfold seg1. rewrite Ey1, Ey2. simpl.
      destruct T as [[-> _]|(Y' & ->)]; [discriminate|]. reflexivity.
  - (* syn *)
    change (Inv1 mx (put_bp s b (with_rf (with_inq x rest) false))).
    assert (Nm : nomark rest) by (apply (Hsp [] rest); reflexivity).
    apply inv1_put0; auto; fold x; simpl; rewrite ?Ei; auto.
    + unfold pre, sent_items, wt_items in *. simpl. apply Forall_app. split; auto.
    + unfold refusing. simpl. intros H. apply Hrx. unfold refusing. rewrite H. apply orb_true_r.
    + intros X r Y E. exfalso. rewrite E in Nm. apply nomark_app in Nm as [_ Nm]. apply nomark_cons in Nm as [Nm _]. discriminate.
    + intros H. destruct (Hnc H) as [_ Q]. exfalso. apply Q. now left.
    + intros H. apply nomark_has_m in Nm. rewrite Nm in H. discriminate.
Qed.

Lemma inv1_flush mx s b : Inv1 mx s -> Inv1 mx (bp_flush s b).
Proof.
  intros I. unfold bp_flush. set (x := get_bp s b).
  destruct (snt x) eqn:Es; auto. destruct (Nat.ltb_spec b (length (bps s))) as [Hb|Hb]; auto.
  pose proof I as I'. dI1 I'.
  set (y := with_wt (with_buf (with_snt x (Some (buf x, None))) (match wt x with Some m => [m] | None => [] end)) None).
  change (Inv1 mx (put_bp s b y)).
  assert (Ep : pre y = pre x).
  { unfold pre, sent_items, wt_items, y. simpl. rewrite Es. simpl. destruct (wt x); simpl; now rewrite ?app_nil_r. }
  assert (Er : refusing y = refusing x) by reflexivity.
  apply inv1_put0; auto; fold x; rewrite ?Ep, ?Er; try exact (Hokbp b); try exact (Hpnm b); try exact (Hpref b);
    try exact (Htpos b); try exact (Hspos b); try exact (Hnoncur b); try exact (Hab b).
  intros H1 H2. unfold seg1. rewrite Ep. apply (Hmarked b); auto.
Qed.

Lemma inv1_answer mx s b v app : Inv1 mx s -> Inv1 mx (answer s b v app).
Proof.
  intros I. unfold answer. set (x := get_bp s b).
  destruct (snt x) as [[l [vb|]]|] eqn:Es; auto.
  destruct (Nat.lt_ge_cases b (length (bps s))) as [Hb|Hb].
  2:{ unfold x in Es. rewrite get_bp_default in Es by auto. discriminate. }
  set (y := with_snt x (Some (l, Some (v, length (log s))))).
  assert (J : Inv1 mx (put_bp s b y)).
  { pose proof I as I'. dI1 I'.
    assert (Ep : pre y = pre x). { unfold pre, sent_items, wt_items, y. simpl. now rewrite Es. }
    assert (Er : refusing y = refusing x) by reflexivity.
    apply inv1_put0; auto; fold x; rewrite ?Ep, ?Er; try exact (Hokbp b); try exact (Hpnm b); try exact (Hpref b);
      try exact (Htpos b); try exact (Hspos b); try exact (Hnoncur b); try exact (Hab b).
    intros H1 H2. unfold seg1. rewrite Ep. apply (Hmarked b); auto. }
  destruct (match v with VOk => true | _ => app end); auto.
  destruct J. constructor; auto.
Qed.

Lemma fins_no_fin l : (forall r, ~ In (Fin r) l) -> fins l = [].
Proof.
  induction l as [|m l IH]; simpl; auto. intros H. destruct m as [i r|r|]; try (apply IH; intros r' H'; apply (H r'); now right).
  exfalso. apply (H r). now left.
Qed.

Lemma datas_nil_iff l : datas l = [] <-> forall i r, ~ In (Data i r) l.
Proof.
  split.
  - intros H i r Hi. apply in_datas in Hi. now rewrite H in Hi.
  - intros H. destruct (datas l) as [|[i r] t] eqn:E; auto. exfalso. apply (H i r). apply in_datas. rewrite E. now left.
Qed.

Lemma in_bounce mx l m : In m (bounce mx l) <-> exists m0, In m0 l /\ In m (bounce1 mx m0).
Proof. unfold bounce. apply in_flat_map. Qed.

(* a step of worker b that keeps its input, shrinks what it holds and bounces part of it *)
Lemma inv1_shrink mx s s' b ex :
  Inv1 mx s -> b < length (bps s) ->
  q s' = q s -> rq s' = rq s ++ ex -> hwm s' = hwm s -> lv s' = lv s -> cur s' = cur s -> nxt s' = nxt s ->
  length (bps s') = length (bps s) ->
  (forall b', b' <> b -> get_bp s' b' = get_bp s b') ->
  let x := get_bp s b in let y := get_bp s' b in
  inq y = inq x -> ab y = false ->
  (forall m, In m (pre y) -> In m (pre x)) ->
  (forall m, In m ex -> exists m0, In m0 (pre x) /\ In m (bounce1 mx m0)) ->
  (refusing y = true -> pre y = []) -> (refusing x = true -> refusing y = true) ->
  Inv1 mx s'.
Proof.
  intros I Hb Eq Erq Eh Elv Ecur Enx Elen Eoth x y Ei Ea Hsub Hex Hr Hm.
  pose proof I as I'. dI1 I'.
  assert (Hpx := Hpnm b). fold x in Hpx.
  assert (Hokx := Hokbp b). fold x in Hokx. apply Forall_app in Hokx as [Hokp Hoki].
  assert (Nf : forall r, ~ In (Fin r) ex).
  { intros r H. destruct (Hex _ H) as (m0 & H0 & H1). apply bounce1_fins in H1 as (r' & -> & _).
    unfold nomark in Hpx. rewrite Forall_forall in Hpx. apply Hpx in H0. discriminate. }
  apply (inv1_local mx s s' b ex I); auto; fold x; fold y; rewrite ?Ei.
  - apply Forall_forall. intros m H. destruct (Hex _ H) as (m0 & H0 & H1).
    rewrite Forall_forall in Hokp. destruct (bounce1_ok mx (nxt s) m0 (Hokp _ H0)) as (B & _ & _).
    rewrite Forall_forall in B. auto.
  - intros H. destruct (Hex _ H) as (m0 & H0 & H1). destruct (bounce1_ok mx (nxt s) m0) as (_ & B & _); auto.
    rewrite Forall_forall in Hokp. auto.
  - rewrite (fins_no_fin _ Nf). constructor.
  - intros c H. now apply Nf in H.
  - auto.
  - apply Forall_app. split; auto. apply Forall_forall. intros m H. rewrite Forall_forall in Hokp. auto.
  - unfold nomark in *. apply Forall_forall. intros m H. rewrite Forall_forall in Hpx. auto.
  - intros X r Y E. destruct (Htpos b X r Y E) as (A & B & C). auto.
  - apply (Hspos b).
  - apply (Hnoncur b).
  - intros H1 H2. assert (Rx : refusing x = false) by (destruct (refusing x); auto; rewrite Hm in H2; auto).
    pose proof (Hmarked b H1 Rx) as D. unfold seg1 in *. fold x in D. rewrite Ei. rewrite datas_app in *.
    apply app_eq_nil in D as [D1 D2]. rewrite D2, app_nil_r. apply datas_nil_iff. intros i r H.
    apply Hsub in H. revert H. apply datas_nil_iff. auto.
Qed.

Lemma get_bp_put_same s b y : b < length (bps s) -> get_bp (put_bp s b y) b = y.
Proof. intros H. rewrite get_bp_put, Nat.eqb_refl. apply Nat.ltb_lt in H. now rewrite H. Qed.
Lemma get_bp_put_other s b y b' : b' <> b -> get_bp (put_bp s b y) b' = get_bp s b'.
Proof. intros H. rewrite get_bp_put. apply Nat.eqb_neq in H. now rewrite H. Qed.

Lemma inv1_resp mx s b addw : 1 <= mx -> Inv1 mx s -> Inv1 mx (bp_resp mx s b addw).
Proof.
  intros Hmx I. unfold bp_resp. set (x := get_bp s b).
  destruct (snt x) as [[l [[v base]|]]|] eqn:Es; auto.
  destruct (Nat.lt_ge_cases b (length (bps s))) as [Hb|Hb].
  2:{ unfold x in Es. rewrite get_bp_default in Es by auto. discriminate. }
  assert (Emx : (mx =? 0) = false) by (apply Nat.eqb_neq; lia). rewrite Emx.
  pose proof I as I'. dI1 I'.
  assert (Px : pre x = l ++ buf x ++ wt_items x). { unfold pre, sent_items. now rewrite Es. }
  assert (Hrx := Hpref b). fold x in Hrx. assert (Hax := Hab b). fold x in Hax.
  (* the general shape of the result *)
  assert (G : forall s' y, q s' = q s -> hwm s' = hwm s -> lv s' = lv s -> cur s' = cur s -> nxt s' = nxt s ->
     bps s' = upd b (fun _ => y) (bps s) ->
     (exists ex, rq s' = rq s ++ ex /\ forall m, In m ex -> exists m0, In m0 (pre x) /\ In m (bounce1 mx m0)) ->
     inq y = inq x -> ab y = false ->
     (forall m, In m (pre y) -> In m (pre x)) ->
     (refusing y = true -> pre y = []) -> (refusing x = true -> refusing y = true) ->
     Inv1 mx s').
  { intros s' y E1 E2 E3 E4 E5 E6 (ex & E7 & E8). intros.
    assert (Ey : get_bp s' b = y). { unfold get_bp. rewrite E6. now apply nth_upd_same. }
    eapply (inv1_shrink mx s s' b ex I Hb); rewrite ?Ey; auto.
    - rewrite E6. apply length_upd.
    - intros b' N. unfold get_bp. rewrite E6. apply nth_upd_other. congruence. }
  assert (B1 : forall m0 m, In m0 (pre x) -> In m (bounce1 mx m0) -> exists m0, In m0 (pre x) /\ In m (bounce1 mx m0)) by eauto.
  destruct (wt x) as [w|] eqn:Ew.
  - (* inside waitForSpace *)
    assert (Pw : pre x = l ++ buf x ++ [w]). { rewrite Px. unfold wt_items. now rewrite Ew. }
    assert (Rx : refusing x = false). { destruct (refusing x) eqn:R; auto. rewrite Hrx in Pw by auto. destruct l, (buf x); discriminate. }
    assert (Rx' := Rx). unfold refusing in Rx'. apply orb_false_iff in Rx' as [Rf Cl].
    destruct v; [| |destruct l as [|m0 l]|]; unfold refusing;
      cbn [with_snt with_rf with_cl with_buf with_wt with_ab rf cl wt buf ab snt inq]; rewrite ?Ew, ?Rf, ?Cl;
      cbn [orb]; try (destruct addw); lazy beta iota zeta;
      (eapply G; try reflexivity;
       [ first [ (exists []; split; [cbn; now rewrite ?app_nil_r | intros ? []])
               | (eexists; split; [cbn; rewrite <- ?app_assoc; reflexivity|]) ] | ..]).
    all: try (intros m Hm; rewrite Pw; revert Hm; unfold pre, sent_items, wt_items;
              cbn [with_snt with_rf with_cl with_buf with_wt with_ab rf cl wt buf ab snt inq]; rewrite ?Ew; rewrite ?in_app_iff; cbn [In]; tauto).
    all: try (cbn [with_snt with_rf with_cl with_buf with_wt with_ab rf cl wt buf ab snt inq]; exact Hax).
    all: try (unfold refusing, pre, sent_items, wt_items; cbn [with_snt with_rf with_cl with_buf with_wt with_ab rf cl wt buf ab snt inq];
              rewrite ?Rf, ?Cl; cbn [orb]; first [discriminate | reflexivity | (intros; reflexivity) | (intros; discriminate)]).
    all: try (intros m Hm; rewrite Pw; unfold bounce in Hm; rewrite ?in_app_iff in Hm;
              repeat (destruct Hm as [Hm|Hm]); try (apply in_flat_map in Hm as (a & Ha & Hm); apply in_app_or in Ha);
              eexists; (split; [|exact Hm]); rewrite ?in_app_iff; cbn [In]; tauto).
  - assert (Pn : pre x = l ++ buf x). { rewrite Px. unfold wt_items. rewrite Ew. now rewrite app_nil_r. }
    assert (Rb : refusing x = true -> buf x = []).
    { intros R. rewrite Hrx in Pn by auto. symmetry in Pn. now apply app_eq_nil in Pn as [_ ?]. }
    destruct v; [| |destruct l as [|m0 l]|]; unfold refusing;
      cbn [with_snt with_rf with_cl with_buf with_wt with_ab rf cl wt buf ab snt inq]; rewrite ?Ew;
      lazy beta iota zeta;
      (eapply G; try reflexivity;
       [ first [ (exists []; split; [cbn; now rewrite ?app_nil_r | intros ? []])
               | (eexists; split; [cbn; rewrite <- ?app_assoc; reflexivity|]) ] | ..]).
    all: try (cbn [with_snt with_rf with_cl with_buf with_wt with_ab rf cl wt buf ab snt inq]; exact Hax).
    all: try (intros m Hm; rewrite Pn; revert Hm; unfold pre, sent_items, wt_items;
              cbn [with_snt with_rf with_cl with_buf with_wt with_ab rf cl wt buf ab snt inq]; rewrite ?Ew; rewrite ?in_app_iff; cbn [In]; tauto).
    all: try (intros m Hm; rewrite Pn; unfold bounce in Hm; rewrite ?in_app_iff in Hm;
              repeat (destruct Hm as [Hm|Hm]); try (apply in_flat_map in Hm as (a & Ha & Hm); apply in_app_or in Ha);
              eexists; (split; [|exact Hm]); rewrite ?in_app_iff; cbn [In]; tauto).
    all: try (unfold pre, sent_items, wt_items; cbn [with_snt with_rf with_cl with_buf with_wt with_ab rf cl wt buf ab snt inq];
              rewrite ?Ew; first [reflexivity | (intros; reflexivity)]).
    all: try (intros R; unfold pre, sent_items, wt_items; cbn [with_snt with_rf with_cl with_buf with_wt with_ab rf cl wt buf ab snt inq];
              rewrite Ew, (Rb R); reflexivity).
    all: try (unfold refusing; cbn [with_snt with_rf with_cl with_buf with_wt with_ab rf cl wt buf ab snt inq]; intros; rewrite ?orb_true_r; auto).
Qed.
