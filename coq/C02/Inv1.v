(* C02 — layer 1 of the invariant (structure: markers, chasers, shapes) is preserved by every step. *)
From Coq Require Import List Arith Bool Lia.
From SV Require Import C02.Model C02.Defs C02.Lemmas C02.Prims.
Import ListNotations.

Lemma okitem_mono mx n n' m : n <= n' -> okitem mx n m -> okitem mx n' m.
Proof. destruct m; simpl; intros; auto. lia. Qed.
Lemma Forall_okitem_mono mx n n' l : n <= n' -> Forall (okitem mx n) l -> Forall (okitem mx n') l.
Proof. intros H. apply Forall_impl. intros m. now apply okitem_mono. Qed.

Lemma nosyn_app a b : nosyn (a ++ b) <-> nosyn a /\ nosyn b.
Proof. unfold nosyn. rewrite in_app_iff. tauto. Qed.

Lemma in_remove_nth {A} (x : A) : forall l n, In x (remove_nth n l) -> In x l.
Proof. induction l as [|y l IH]; intros [|n]; simpl; auto. intros [H|H]; auto. right. eapply IH; eauto. Qed.

Lemma fins_remove_nth_data : forall l n i r, nth_error l n = Some (Data i r) -> fins (remove_nth n l) = fins l.
Proof.
  induction l as [|y l IH]; intros [|n] i r; simpl; try discriminate.
  - intros H. injection H as ->. reflexivity.
  - intros H. destruct y; simpl; rewrite (IH _ _ _ H); reflexivity.
Qed.

(* ---------------------------------------------------------------- submit / retry handler / rejection *)

Ltac dI1 I := destruct I as [Hlen Hhwm Hcur Hab Hokq Hoklv Hokbp Hnosyn Hpnm Hpref Hlvtop Hlvdata Hchs Htup Htin Htpos Hspos
                               Hu1 Hu3 Hu4 Hnoncur Hmarked].

Lemma inv1_submit mx s : Inv1 mx s -> Inv1 mx (raw_step mx s CSubmit).
Proof.
  intros I. dI1 I. constructor; simpl; auto.
  - rewrite <- app_assoc. simpl. apply Forall_app in Hokq as [Hq Hr].
    apply Forall_app. split.
    + eapply Forall_okitem_mono; [|eauto]. lia.
    + constructor; [simpl; lia|]. eapply Forall_okitem_mono; [|eauto]. lia.
  - intros l. eapply Forall_okitem_mono; [|apply Hoklv]. lia.
  - intros b. eapply Forall_okitem_mono; [|apply Hokbp]. lia.
  - unfold nosyn in *. rewrite !in_app_iff in *. simpl. intros [[H|[H|[]]]|H]; try discriminate; tauto.
  - intros c H. apply Htup. rewrite !in_app_iff in *. simpl in H. destruct H as [[H|[H|[]]]|H]; try discriminate; tauto.
  - rewrite !fins_app in *. simpl. now rewrite app_nil_r.
  - intros c b H. apply Hu3. rewrite !in_app_iff in *. simpl in H. destruct H as [[H|[H|[]]]|H]; try discriminate; tauto.
Qed.

Lemma inv1_retry mx s : Inv1 mx s -> Inv1 mx (raw_step mx s CRetry).
Proof.
  intros I. simpl. destruct (rq s) as [|m r] eqn:E; auto.
  assert (P : forall x, In x ((q s ++ [m]) ++ r) <-> In x (q s ++ rq s)).
  { intros x. rewrite E, !in_app_iff. simpl. tauto. }
  dI1 I. constructor; simpl; auto.
  - apply Forall_forall. intros x Hx. rewrite Forall_forall in Hokq. apply Hokq. now apply P.
  - unfold nosyn in *. now rewrite P.
  - intros c H. apply Htup. now apply P.
  - rewrite E in Hu1. rewrite <- app_assoc. simpl. exact Hu1.
  - intros c b H. apply Hu3. now apply P.
Qed.

Lemma inv1_failq mx s n : Inv1 mx s -> Inv1 mx (raw_step mx s (CFailQ n)).
Proof.
  intros I. simpl. destruct (nth_error (q s) n) as [[i r| |]|] eqn:E; auto.
  assert (P : forall x, In x (remove_nth n (q s) ++ rq s) -> In x (q s ++ rq s)).
  { intros x. rewrite !in_app_iff. intros [H|H]; auto. left. eapply in_remove_nth; eauto. }
  dI1 I. constructor; simpl; auto.
  - apply Forall_forall. intros x Hx. rewrite Forall_forall in Hokq. apply Hokq. now apply P.
  - unfold nosyn in *. intros H. apply Hnosyn. now apply P.
  - intros c H. apply Htup. now apply P.
  - rewrite fins_app in *. now rewrite (fins_remove_nth_data _ _ _ _ E).
  - intros c b H. apply Hu3. now apply P.
Qed.

(* ---------------------------------------------------------------- a step that touches one broker worker and appends to the retry queue *)

Lemma inv1_local mx s s' b0 ex :
  Inv1 mx s ->
  q s' = q s -> rq s' = rq s ++ ex -> hwm s' = hwm s -> lv s' = lv s -> cur s' = cur s -> nxt s' = nxt s ->
  length (bps s') = length (bps s) ->
  (forall b, b <> b0 -> get_bp s' b = get_bp s b) ->
  let x := get_bp s b0 in let y := get_bp s' b0 in
  Forall (okitem mx (nxt s)) ex -> nosyn ex -> NoDup (fins ex) ->
  (forall c, In (Fin c) ex -> exists r, c = S r /\ In (Fin r) (inq x) /\ ~ In (Fin r) (inq y)) ->
  (forall r, In (Fin r) (inq y) -> In (Fin r) (inq x)) ->
  ab y = false -> Forall (okitem mx (nxt s)) (pre y ++ inq y) -> nomark (pre y) ->
  (refusing y = true -> pre y = []) ->
  (forall X r Y, inq y = X ++ Fin r :: Y -> nomark X /\ refusing y = true /\ ((Y = [] /\ cur s <> Some b0) \/ exists Y', Y = Syn :: Y')) ->
  (forall X Y, inq y = X ++ Syn :: Y -> nomark Y) ->
  (cur s <> Some b0 -> post_m (inq y) = [] /\ nosyn (inq y)) ->
  (has_m (inq y) = true -> refusing y = false -> datas (seg1 y) = []) ->
  Inv1 mx s'.
Proof.
  intros I Eq Erq Eh Elv Ecur Enx Elen Eoth x y Hex Hexs Hexd Hexf Hsub Hy1 Hy2 Hy3 Hy4 Hy5 Hy5b Hy6 Hy7.
  dI1 I.
  assert (G : forall (P : bpw -> Prop), (forall b, P (get_bp s b)) -> P y -> forall b, P (get_bp s' b)).
  { intros P H1 H2 b. destruct (Nat.eq_dec b b0) as [->|N]; auto. rewrite Eoth; auto. }
  assert (Up : forall m, In m (q s' ++ rq s') <-> In m (q s ++ rq s) \/ In m ex).
  { intros m. rewrite Eq, Erq, !in_app_iff. tauto. }
  constructor.
  - now rewrite Elv.
  - now rewrite Eh.
  - rewrite Ecur, Elen. auto.
  - apply (G (fun z => ab z = false)); auto.
  - rewrite Enx. apply Forall_forall. intros m Hm. apply Up in Hm as [Hm|Hm].
    + rewrite Forall_forall in Hokq. auto.
    + rewrite Forall_forall in Hex. auto.
  - intros l. rewrite Enx, Elv. auto.
  - rewrite Enx. apply (G (fun z => Forall (okitem mx (nxt s)) (pre z ++ inq z))); auto.
  - unfold nosyn in *. intros H. apply Up in H as [H|H]; auto.
  - apply (G (fun z => nomark (pre z))); auto.
  - apply (G (fun z => refusing z = true -> pre z = [])); auto.
  - intros l. rewrite Eh, Elv. auto.
  - intros l m. rewrite Elv. auto.
  - unfold pend. intros c. rewrite Elv, Eh. apply Hchs.
  - unfold pend. rewrite Elv. intros c H. apply Up in H as [H|H]; [now apply Htup|].
    destruct (Hexf c H) as (r & -> & Hr & _). eapply Htin; eauto.
  - unfold pend. rewrite Elv. intros b r. revert b.
    apply (G (fun z => In (Fin r) (inq z) -> chs (get_lvl (S r) (lv s)) = true)); [intros b; apply Htin|].
    intros H. eapply Htin. apply Hsub. eauto.
  - intros b X r Y. rewrite Ecur. destruct (Nat.eq_dec b b0) as [->|N]; [apply Hy5|]. rewrite Eoth by auto. apply Htpos.
  - apply (G (fun z => forall X Y, inq z = X ++ Syn :: Y -> nomark Y)); auto.
  - rewrite Eq, Erq, app_assoc, fins_app. apply NoDup_app_intro; auto.
    intros c H1 H2. apply in_fins in H1, H2. destruct (Hexf c H2) as (r & -> & Hr & _).
    eapply Hu3; eauto.
  - intros c b H. apply Up in H as [H|H].
    + revert b. apply (G (fun z => ~ In (Fin c) (inq z))); [intros b; now apply Hu3|].
      intros H2. eapply Hu3; eauto.
    + destruct (Hexf _ H) as (r & E & Hr & Hny). injection E as ->.
      destruct (Nat.eq_dec b b0) as [->|N]; [exact Hny|].
      rewrite Eoth by auto. eapply (Hu4 b0 b); eauto.
  - intros b b' r N. destruct (Nat.eq_dec b b0) as [->|Nb]; destruct (Nat.eq_dec b' b0) as [->|Nb']; try easy.
    + rewrite (Eoth b') by auto. intros H H2. apply Hsub in H. revert H2. apply (Hu4 b0 b'); auto.
    + rewrite (Eoth b) by auto. intros H H2. apply Hsub in H2. revert H2. apply (Hu4 b b0); auto.
    + rewrite (Eoth b), (Eoth b') by auto. apply Hu4; auto.
  - rewrite Ecur. intros b Hb. destruct (Nat.eq_dec b b0) as [->|N]; auto. rewrite Eoth; auto.
  - apply (G (fun z => has_m (inq z) = true -> refusing z = false -> datas (seg1 z) = [])); auto.
Qed.

(* ---------------------------------------------------------------- broker-worker steps *)

Arguments bounce1 : simpl never.
Lemma nomark_cons m l : nomark (m :: l) <-> is_marker m = false /\ nomark l.
Proof. unfold nomark. split; [intros H; inversion H; auto|intros [H1 H2]; constructor; auto]. Qed.

Lemma bounce1_fins mx m c : In (Fin c) (bounce1 mx m) -> exists r, m = Fin r /\ c = S r.
Proof.
  unfold bounce1. destruct m as [i r|r|]; simpl; try easy.
  - destruct (mx <=? r); simpl; intros H; try easy; destruct H as [H|[]]; discriminate.
  - destruct (mx <=? r); simpl; intros H; try easy; destruct H as [H|[]]. injection H as <-. eauto.
Qed.
Lemma bounce1_ok mx n m : okitem mx n m -> Forall (okitem mx n) (bounce1 mx m) /\ nosyn (bounce1 mx m) /\ NoDup (fins (bounce1 mx m)).
Proof.
  unfold nosyn, bounce1. destruct m as [i r|r|]; simpl; intros H.
  - destruct (Nat.leb_spec mx r); simpl; repeat split; auto; try constructor; simpl; try lia; auto; try constructor.
    intros [E|[]]; discriminate.
  - destruct (Nat.leb_spec mx r); simpl; repeat split; auto; try constructor; simpl; try lia; auto; try constructor.
    intros [E|[]]; discriminate.
  - repeat split; auto; constructor.
Qed.


(* replace worker b by y and append ex to the retry queue *)
Lemma inv1_put mx s b ex y :
  Inv1 mx s -> b < length (bps s) ->
  let x := get_bp s b in
  Forall (okitem mx (nxt s)) ex -> nosyn ex -> NoDup (fins ex) ->
  (forall c, In (Fin c) ex -> exists r, c = S r /\ In (Fin r) (inq x) /\ ~ In (Fin r) (inq y)) ->
  (forall r, In (Fin r) (inq y) -> In (Fin r) (inq x)) ->
  ab y = false -> Forall (okitem mx (nxt s)) (pre y ++ inq y) -> nomark (pre y) ->
  (refusing y = true -> pre y = []) ->
  (forall X r Y, inq y = X ++ Fin r :: Y -> nomark X /\ refusing y = true /\ ((Y = [] /\ cur s <> Some b) \/ exists Y', Y = Syn :: Y')) ->
  (forall X Y, inq y = X ++ Syn :: Y -> nomark Y) ->
  (cur s <> Some b -> post_m (inq y) = [] /\ nosyn (inq y)) ->
  (has_m (inq y) = true -> refusing y = false -> datas (seg1 y) = []) ->
  Inv1 mx (put_bp (set_rq s (rq s ++ ex)) b y).
Proof.
  intros I Hb x. intros.
  assert (E : get_bp (put_bp (set_rq s (rq s ++ ex)) b y) b = y).
  { rewrite get_bp_put. simpl. rewrite Nat.eqb_refl. apply Nat.ltb_lt in Hb. now rewrite Hb. }
  eapply (inv1_local mx s _ b ex I); try reflexivity; rewrite ?E; auto.
  - exact (length_put (set_rq s (rq s ++ ex)) b y).
  - intros b' N. rewrite get_bp_put. apply Nat.eqb_neq in N. now rewrite N.
Qed.

Lemma put_bp_rq_nil s b y : put_bp (set_rq s (rq s ++ [])) b y = put_bp s b y.
Proof. unfold put_bp, set_rq. simpl. rewrite app_nil_r. now destruct s. Qed.

Lemma inv1_put0 mx s b y :
  Inv1 mx s -> b < length (bps s) ->
  let x := get_bp s b in
  (forall r, In (Fin r) (inq y) -> In (Fin r) (inq x)) ->
  ab y = false -> Forall (okitem mx (nxt s)) (pre y ++ inq y) -> nomark (pre y) ->
  (refusing y = true -> pre y = []) ->
  (forall X r Y, inq y = X ++ Fin r :: Y -> nomark X /\ refusing y = true /\ ((Y = [] /\ cur s <> Some b) \/ exists Y', Y = Syn :: Y')) ->
  (forall X Y, inq y = X ++ Syn :: Y -> nomark Y) ->
  (cur s <> Some b -> post_m (inq y) = [] /\ nosyn (inq y)) ->
  (has_m (inq y) = true -> refusing y = false -> datas (seg1 y) = []) ->
  Inv1 mx (put_bp s b y).
Proof.
  intros. rewrite <- put_bp_rq_nil. apply inv1_put; auto; try constructor; easy.
Qed.
Lemma inv1_recv mx s b d : Inv1 mx s -> Inv1 mx (bp_recv mx s b d).
Proof.
  intros I. unfold bp_recv.
  set (x := get_bp s b).
  destruct (wt x) eqn:Ew; auto. destruct (inq x) as [|m rest] eqn:Ei; auto.
  destruct (Nat.lt_ge_cases b (length (bps s))) as [Hb|Hb].
  2:{ unfold x in Ei. rewrite get_bp_default in Ei by auto. discriminate. }
  pose proof I as I'. dI1 I'.
  assert (Hpos := Htpos b). assert (Hsp := Hspos b). fold x in Hpos, Hsp. rewrite Ei in Hpos, Hsp.
  assert (Hok := Hokbp b). fold x in Hok. rewrite Ei in Hok.
  apply Forall_app in Hok as [Hokp Hoki]. inversion Hoki as [|? ? Hokm Hokr]; subst.
  assert (Hpx := Hpnm b). assert (Hrx := Hpref b). fold x in Hpx, Hrx.
  assert (Habx := Hab b). fold x in Habx.
  assert (Hnc := Hnoncur b). fold x in Hnc. rewrite Ei in Hnc.
  assert (Hmk := Hmarked b). fold x in Hmk. rewrite Ei in Hmk.
  (* facts about the rest of the input *)
  assert (Rfin : forall X r Y, rest = X ++ Fin r :: Y ->
            nomark X /\ is_marker m = false /\ refusing x = true /\ ((Y = [] /\ cur s <> Some b) \/ exists Y', Y = Syn :: Y')).
  { intros X r Y E. destruct (Hpos (m :: X) r Y) as (N & R & T); [now rewrite E|].
    apply nomark_cons in N as [N1 N2]. auto. }
  assert (Rsyn : forall X Y, rest = X ++ Syn :: Y -> nomark Y).
  { intros X Y E. apply (Hsp (m :: X) Y). now rewrite E. }
  assert (Rsub : forall r, In (Fin r) rest -> In (Fin r) (m :: rest)) by (intros; now right).
  cbv zeta.
  destruct m as [i r|r|].
  - (* data *)
    destruct (refusing x) eqn:Er.
    + (* bounced *)
      simpl negb. rewrite andb_false_r.
      change (Inv1 mx (put_bp (set_rq s (rq s ++ bounce1 mx (Data i r))) b (with_inq x rest))).
      destruct (bounce1_ok mx (nxt s) (Data i r) Hokm) as (B1 & B2 & B3).
      apply inv1_put; auto; fold x; simpl; rewrite ?Ei; auto.
      * intros c H. apply bounce1_fins in H as (r' & E & _). discriminate.
      * unfold pre, sent_items, wt_items in *. simpl. apply Forall_app. split; auto.
      * intros X r' Y E. destruct (Rfin X r' Y E) as (N & _ & R & T). unfold refusing in *. simpl. auto.
      * intros H. destruct (Hnc H) as [P Q]. simpl in P. split; auto. unfold nosyn in *. simpl in Q. tauto.
      * unfold refusing in *. simpl. rewrite Er. discriminate.
    + (* accepted *)
      assert (Hacc : forall y, pre y = pre x ++ [Data i r] \/ pre y = pre x -> inq y = rest ->
                 ab y = false -> rf y = rf x -> cl y = cl x -> Inv1 mx (put_bp s b y)).
      { intros y Hp Hi Hay Hrf Hcl.
        assert (Ry : refusing y = false) by (unfold refusing in *; now rewrite Hrf, Hcl).
        apply inv1_put0; auto; fold x; rewrite ?Hi, ?Ei; auto.
        - destruct Hp as [-> | ->]; apply Forall_app; split; auto.
          apply Forall_app; split; auto.
        - destruct Hp as [-> | ->]; auto. apply nomark_app. split; auto. repeat constructor.
        - rewrite Ry. discriminate.
        - intros X r' Y E. destruct (Rfin X r' Y E) as (_ & _ & R & _). discriminate.
        - intros H. destruct (Hnc H) as [P Q]. simpl in P. split; auto. unfold nosyn in *. simpl in Q. tauto.
        - intros H _. exfalso. assert (H2 : has_m (Data i r :: rest) = true) by exact H.
          specialize (Hmk H2 eq_refl). unfold seg1 in Hmk. rewrite Ei in Hmk. simpl in Hmk. rewrite datas_app in Hmk. simpl in Hmk.
          apply app_eq_nil in Hmk as [_ Hmk]. discriminate. }
      destruct d as [|[|d]].
      * apply Hacc; auto. left. unfold pre, sent_items, wt_items. simpl. rewrite Ew. now rewrite !app_nil_r, <- !app_assoc.
      * apply Hacc; auto. left. unfold pre, sent_items, wt_items. simpl. rewrite Ew. now rewrite !app_nil_r, <- !app_assoc.
      * apply Hacc; auto.
  - (* fin: only a refusing worker ever receives one *)
    destruct (Hpos [] r rest eq_refl) as (_ & Er & T). rewrite Er.
    assert (Hpre : pre x = []) by auto.
    assert (Nf : forall r', ~ In (Fin r') rest).
    { intros r' H. apply in_split in H as (X & Y & E). destruct (Rfin X r' Y E) as (_ & F & _). discriminate. }
    destruct (bounce1_ok mx (nxt s) (Fin r) Hokm) as (B1 & B2 & B3).
    set (y := if negb (cl x) && is_fin (Fin r) then with_rf (with_inq x rest) false else with_inq x rest).
    change (Inv1 mx (put_bp (set_rq s (rq s ++ bounce1 mx (Fin r))) b y)).
    assert (Ey : pre y = [] /\ inq y = rest /\ ab y = false /\ cl y = cl x).
    { unfold y. destruct (negb (cl x) && is_fin (Fin r)); simpl; auto. }
    destruct Ey as (Ey1 & Ey2 & Ey3 & Ey4).
    apply inv1_put; auto; fold x; rewrite ?Ey1, ?Ey2, ?Ei.
    + intros c H. apply bounce1_fins in H as (r' & E & ->). injection E as <-. exists r. repeat split; auto. now left.
    + intros r' H. exfalso. eapply Nf; eauto.
    + simpl. auto.
    + constructor.
    + intros X r' Y E. exfalso. apply (Nf r'). rewrite E. apply in_or_app. right. now left.
    + exact Rsyn.
    + intros H. destruct (Hnc H) as [P Q]. simpl in P. rewrite P. split; [reflexivity|intros []].
    + intros H R. unfold seg1. rewrite Ey1, Ey2. simpl.
      destruct T as [[-> _]|(Y' & ->)]; [discriminate|]. reflexivity.
  - (* syn *)
    change (Inv1 mx (put_bp s b (with_rf (with_inq x rest) false))).
    assert (Nm : nomark rest) by (apply (Hsp [] rest); reflexivity).
    apply inv1_put0; auto; fold x; simpl; rewrite ?Ei; auto.
    + unfold pre, sent_items, wt_items in *. simpl. apply Forall_app. split; auto.
    + unfold refusing. simpl. intros H. apply Hrx. unfold refusing. rewrite H. apply orb_true_r.
    + intros X r Y E. exfalso. rewrite E in Nm. apply nomark_app in Nm as [_ Nm]. apply nomark_cons in Nm as [Nm _]. discriminate.
    + intros H. destruct (Hnc H) as [_ Q]. exfalso. apply Q. now left.
    + intros H. apply nomark_has_m in Nm. rewrite Nm in H. discriminate.
Qed.

Lemma inv1_flush mx s b : Inv1 mx s -> Inv1 mx (bp_flush s b).
Proof.
  intros I. unfold bp_flush. set (x := get_bp s b).
  destruct (snt x) eqn:Es; auto. destruct (Nat.ltb_spec b (length (bps s))) as [Hb|Hb]; auto.
  pose proof I as I'. dI1 I'.
  set (y := with_wt (with_buf (with_snt x (Some (buf x, None))) (match wt x with Some m => [m] | None => [] end)) None).
  change (Inv1 mx (put_bp s b y)).
  assert (Ep : pre y = pre x).
  { unfold pre, sent_items, wt_items, y. simpl. rewrite Es. simpl. destruct (wt x); simpl; now rewrite ?app_nil_r. }
  assert (Er : refusing y = refusing x) by reflexivity.
  apply inv1_put0; auto; fold x; rewrite ?Ep, ?Er; try exact (Hokbp b); try exact (Hpnm b); try exact (Hpref b);
    try exact (Htpos b); try exact (Hspos b); try exact (Hnoncur b); try exact (Hab b).
  intros H1 H2. unfold seg1. rewrite Ep. apply (Hmarked b); auto.
Qed.

Lemma inv1_answer mx s b v app : Inv1 mx s -> Inv1 mx (answer s b v app).
Proof.
  intros I. unfold answer. set (x := get_bp s b).
  destruct (snt x) as [[l [vb|]]|] eqn:Es; auto.
  destruct (Nat.lt_ge_cases b (length (bps s))) as [Hb|Hb].
  2:{ unfold x in Es. rewrite get_bp_default in Es by auto. discriminate. }
  set (y := with_snt x (Some (l, Some (v, length (log s))))).
  assert (J : Inv1 mx (put_bp s b y)).
  { pose proof I as I'. dI1 I'.
    assert (Ep : pre y = pre x). { unfold pre, sent_items, wt_items, y. simpl. now rewrite Es. }
    assert (Er : refusing y = refusing x) by reflexivity.
    apply inv1_put0; auto; fold x; rewrite ?Ep, ?Er; try exact (Hokbp b); try exact (Hpnm b); try exact (Hpref b);
      try exact (Htpos b); try exact (Hspos b); try exact (Hnoncur b); try exact (Hab b).
    intros H1 H2. unfold seg1. rewrite Ep. apply (Hmarked b); auto. }
  destruct (match v with VOk => true | _ => app end); auto.
  destruct J. constructor; auto.
Qed.

Lemma fins_no_fin l : (forall r, ~ In (Fin r) l) -> fins l = [].
Proof.
  induction l as [|m l IH]; simpl; auto. intros H. destruct m as [i r|r|]; try (apply IH; intros r' H'; apply (H r'); now right).
  exfalso. apply (H r). now left.
Qed.

Lemma datas_nil_iff l : datas l = [] <-> forall i r, ~ In (Data i r) l.
Proof.
  split.
  - intros H i r Hi. apply in_datas in Hi. now rewrite H in Hi.
  - intros H. destruct (datas l) as [|[i r] t] eqn:E; auto. exfalso. apply (H i r). apply in_datas. rewrite E. now left.
Qed.

Lemma in_bounce mx l m : In m (bounce mx l) <-> exists m0, In m0 l /\ In m (bounce1 mx m0).
Proof. unfold bounce. apply in_flat_map. Qed.

(* a step of worker b that keeps its input, shrinks what it holds and bounces part of it *)
Lemma inv1_shrink mx s s' b ex :
  Inv1 mx s -> b < length (bps s) ->
  q s' = q s -> rq s' = rq s ++ ex -> hwm s' = hwm s -> lv s' = lv s -> cur s' = cur s -> nxt s' = nxt s ->
  length (bps s') = length (bps s) ->
  (forall b', b' <> b -> get_bp s' b' = get_bp s b') ->
  let x := get_bp s b in let y := get_bp s' b in
  inq y = inq x -> ab y = false ->
  (forall m, In m (pre y) -> In m (pre x)) ->
  (forall m, In m ex -> exists m0, In m0 (pre x) /\ In m (bounce1 mx m0)) ->
  (refusing y = true -> pre y = []) -> (refusing x = true -> refusing y = true) ->
  Inv1 mx s'.
Proof.
  intros I Hb Eq Erq Eh Elv Ecur Enx Elen Eoth x y Ei Ea Hsub Hex Hr Hm.
  pose proof I as I'. dI1 I'.
  assert (Hpx := Hpnm b). fold x in Hpx.
  assert (Hokx := Hokbp b). fold x in Hokx. apply Forall_app in Hokx as [Hokp Hoki].
  assert (Nf : forall r, ~ In (Fin r) ex).
  { intros r H. destruct (Hex _ H) as (m0 & H0 & H1). apply bounce1_fins in H1 as (r' & -> & _).
    unfold nomark in Hpx. rewrite Forall_forall in Hpx. apply Hpx in H0. discriminate. }
  apply (inv1_local mx s s' b ex I); auto; fold x; fold y; rewrite ?Ei.
  - apply Forall_forall. intros m H. destruct (Hex _ H) as (m0 & H0 & H1).
    rewrite Forall_forall in Hokp. destruct (bounce1_ok mx (nxt s) m0 (Hokp _ H0)) as (B & _ & _).
    rewrite Forall_forall in B. auto.
  - intros H. destruct (Hex _ H) as (m0 & H0 & H1). destruct (bounce1_ok mx (nxt s) m0) as (_ & B & _); auto.
    rewrite Forall_forall in Hokp. auto.
  - rewrite (fins_no_fin _ Nf). constructor.
  - intros c H. now apply Nf in H.
  - auto.
  - apply Forall_app. split; auto. apply Forall_forall. intros m H. rewrite Forall_forall in Hokp. auto.
  - unfold nomark in *. apply Forall_forall. intros m H. rewrite Forall_forall in Hpx. auto.
  - intros X r Y E. destruct (Htpos b X r Y E) as (A & B & C). auto.
  - apply (Hspos b).
  - apply (Hnoncur b).
  - intros H1 H2. assert (Rx : refusing x = false) by (destruct (refusing x); auto; rewrite Hm in H2; auto).
    pose proof (Hmarked b H1 Rx) as D. unfold seg1 in *. fold x in D. rewrite Ei. rewrite datas_app in *.
    apply app_eq_nil in D as [D1 D2]. rewrite D2, app_nil_r. apply datas_nil_iff. intros i r H.
    apply Hsub in H. revert H. apply datas_nil_iff. auto.
Qed.

Lemma get_bp_put_same s b y : b < length (bps s) -> get_bp (put_bp s b y) b = y.
Proof. intros H. rewrite get_bp_put, Nat.eqb_refl. apply Nat.ltb_lt in H. now rewrite H. Qed.
Lemma get_bp_put_other s b y b' : b' <> b -> get_bp (put_bp s b y) b' = get_bp s b'.
Proof. intros H. rewrite get_bp_put. apply Nat.eqb_neq in H. now rewrite H. Qed.

Lemma inv1_resp mx s b addw : 1 <= mx -> Inv1 mx s -> Inv1 mx (bp_resp mx s b addw).
Proof.
  intros Hmx I. unfold bp_resp. set (x := get_bp s b).
  destruct (snt x) as [[l [[v base]|]]|] eqn:Es; auto.
  destruct (Nat.lt_ge_cases b (length (bps s))) as [Hb|Hb].
  2:{ unfold x in Es. rewrite get_bp_default in Es by auto. discriminate. }
  assert (Emx : (mx =? 0) = false) by (apply Nat.eqb_neq; lia). rewrite Emx.
  pose proof I as I'. dI1 I'.
  assert (Px : pre x = l ++ buf x ++ wt_items x). { unfold pre, sent_items. now rewrite Es. }
  assert (Hrx := Hpref b). fold x in Hrx. assert (Hax := Hab b). fold x in Hax.
  (* the general shape of the result *)
  assert (G : forall s' y, q s' = q s -> hwm s' = hwm s -> lv s' = lv s -> cur s' = cur s -> nxt s' = nxt s ->
     bps s' = upd b (fun _ => y) (bps s) ->
     (exists ex, rq s' = rq s ++ ex /\ forall m, In m ex -> exists m0, In m0 (pre x) /\ In m (bounce1 mx m0)) ->
     inq y = inq x -> ab y = false ->
     (forall m, In m (pre y) -> In m (pre x)) ->
     (refusing y = true -> pre y = []) -> (refusing x = true -> refusing y = true) ->
     Inv1 mx s').
  { intros s' y E1 E2 E3 E4 E5 E6 (ex & E7 & E8). intros.
    assert (Ey : get_bp s' b = y). { unfold get_bp. rewrite E6. now apply nth_upd_same. }
    eapply (inv1_shrink mx s s' b ex I Hb); rewrite ?Ey; auto.
    - rewrite E6. apply length_upd.
    - intros b' N. unfold get_bp. rewrite E6. apply nth_upd_other. congruence. }
  assert (B1 : forall m0 m, In m0 (pre x) -> In m (bounce1 mx m0) -> exists m0, In m0 (pre x) /\ In m (bounce1 mx m0)) by eauto.
  destruct (wt x) as [w|] eqn:Ew.
  - (* inside waitForSpace *)
    assert (Pw : pre x = l ++ buf x ++ [w]). { rewrite Px. unfold wt_items. now rewrite Ew. }
    assert (Rx : refusing x = false). { destruct (refusing x) eqn:R; auto. rewrite Hrx in Pw by auto. destruct l, (buf x); discriminate. }
    assert (Rx' := Rx). unfold refusing in Rx'. apply orb_false_iff in Rx' as [Rf Cl].
    destruct v; [| |destruct l as [|m0 l]|]; unfold refusing;
      cbn [with_snt with_rf with_cl with_buf with_wt with_ab rf cl wt buf ab snt inq]; rewrite ?Ew, ?Rf, ?Cl;
      cbn [orb]; try (destruct addw); lazy beta iota zeta;
      (eapply G; try reflexivity;
       [ first [ (exists []; split; [cbn; now rewrite ?app_nil_r | intros ? []])
               | (eexists; split; [cbn; rewrite <- ?app_assoc; reflexivity|]) ] | ..]).
    all: try (intros m Hm; rewrite Pw; revert Hm; unfold pre, sent_items, wt_items;
              cbn [with_snt with_rf with_cl with_buf with_wt with_ab rf cl wt buf ab snt inq]; rewrite ?Ew; rewrite ?in_app_iff; cbn [In]; tauto).
    all: try (cbn [with_snt with_rf with_cl with_buf with_wt with_ab rf cl wt buf ab snt inq]; exact Hax).
    all: try (unfold refusing, pre, sent_items, wt_items; cbn [with_snt with_rf with_cl with_buf with_wt with_ab rf cl wt buf ab snt inq];
              rewrite ?Rf, ?Cl; cbn [orb]; first [discriminate | reflexivity | (intros; reflexivity) | (intros; discriminate)]).
    all: try (intros m Hm; rewrite Pw; unfold bounce in Hm; rewrite ?in_app_iff in Hm;
              repeat (destruct Hm as [Hm|Hm]); try (apply in_flat_map in Hm as (a & Ha & Hm); apply in_app_or in Ha);
              eexists; (split; [|exact Hm]); rewrite ?in_app_iff; cbn [In]; tauto).
  - assert (Pn : pre x = l ++ buf x). { rewrite Px. unfold wt_items. rewrite Ew. now rewrite app_nil_r. }
    assert (Rb : refusing x = true -> buf x = []).
    { intros R. rewrite Hrx in Pn by auto. symmetry in Pn. now apply app_eq_nil in Pn as [_ ?]. }
    destruct v; [| |destruct l as [|m0 l]|]; unfold refusing;
      cbn [with_snt with_rf with_cl with_buf with_wt with_ab rf cl wt buf ab snt inq]; rewrite ?Ew;
      lazy beta iota zeta;
      (eapply G; try reflexivity;
       [ first [ (exists []; split; [cbn; now rewrite ?app_nil_r | intros ? []])
               | (eexists; split; [cbn; rewrite <- ?app_assoc; reflexivity|]) ] | ..]).
    all: try (cbn [with_snt with_rf with_cl with_buf with_wt with_ab rf cl wt buf ab snt inq]; exact Hax).
    all: try (intros m Hm; rewrite Pn; revert Hm; unfold pre, sent_items, wt_items;
              cbn [with_snt with_rf with_cl with_buf with_wt with_ab rf cl wt buf ab snt inq]; rewrite ?Ew; rewrite ?in_app_iff; cbn [In]; tauto).
    all: try (intros m Hm; rewrite Pn; unfold bounce in Hm; rewrite ?in_app_iff in Hm;
              repeat (destruct Hm as [Hm|Hm]); try (apply in_flat_map in Hm as (a & Ha & Hm); apply in_app_or in Ha);
              eexists; (split; [|exact Hm]); rewrite ?in_app_iff; cbn [In]; tauto).
    all: try (unfold pre, sent_items, wt_items; cbn [with_snt with_rf with_cl with_buf with_wt with_ab rf cl wt buf ab snt inq];
              rewrite ?Ew; first [reflexivity | (intros; reflexivity)]).
    all: try (intros R; unfold pre, sent_items, wt_items; cbn [with_snt with_rf with_cl with_buf with_wt with_ab rf cl wt buf ab snt inq];
              rewrite Ew, (Rb R); reflexivity).
    all: try (unfold refusing; cbn [with_snt with_rf with_cl with_buf with_wt with_ab rf cl wt buf ab snt inq]; intros; rewrite ?orb_true_r; auto).
Qed.

(* ---------------------------------------------------------------- partition-worker operations *)

Lemma get_lvl_upd l r f lv :
  get_lvl l (upd r f lv) = if (l =? r) && (r <? length lv) then f (get_lvl r lv) else get_lvl l lv.
Proof.
  unfold get_lvl. destruct (Nat.eqb_spec l r) as [->|N]; simpl.
  - destruct (Nat.ltb_spec r (length lv)); [now rewrite nth_upd_same|now rewrite upd_oob].
  - apply nth_upd_other. congruence.
Qed.
Lemma lbuf_set_chs l r c lv : lbuf (get_lvl l (set_chs r c lv)) = lbuf (get_lvl l lv).
Proof. unfold set_chs. rewrite get_lvl_upd. destruct ((l =? r) && (r <? length lv)) eqn:E; auto.
  apply andb_true_iff in E as [E _]. apply Nat.eqb_eq in E. now subst. Qed.
Lemma chs_set_chs l r c lv : r < length lv -> chs (get_lvl l (set_chs r c lv)) = if l =? r then c else chs (get_lvl l lv).
Proof. intros H. unfold set_chs. rewrite get_lvl_upd. apply Nat.ltb_lt in H. rewrite H, andb_true_r. destruct (l =? r); auto. Qed.
Lemma chs_set_lbuf l r ms lv : chs (get_lvl l (set_lbuf r ms lv)) = chs (get_lvl l lv).
Proof. unfold set_lbuf. rewrite get_lvl_upd. destruct ((l =? r) && (r <? length lv)) eqn:E; auto.
  apply andb_true_iff in E as [E _]. apply Nat.eqb_eq in E. now subst. Qed.
Lemma lbuf_set_lbuf l r ms lv : r < length lv -> lbuf (get_lvl l (set_lbuf r ms lv)) = if l =? r then ms else lbuf (get_lvl l lv).
Proof. intros H. unfold set_lbuf. rewrite get_lvl_upd. apply Nat.ltb_lt in H. rewrite H, andb_true_r. destruct (l =? r); auto. Qed.

Lemma snoc_fin_split l a X r Y : nomark l -> l ++ [Fin a] = X ++ Fin r :: Y -> X = l /\ r = a /\ Y = [].
Proof.
  revert X. induction l as [|m l IH]; intros X N E.
  - destruct X as [|x X]; simpl in E.
    + injection E as -> ->. auto.
    + injection E as _ E. destruct X; discriminate.
  - apply nomark_cons in N as [N1 N2]. destruct X as [|x X]; simpl in E.
    + injection E as -> _. discriminate.
    + injection E as -> E. destruct (IH X N2 E) as (-> & -> & ->). auto.
Qed.
Lemma nomark_not_in l m : nomark l -> is_marker m = true -> ~ In m l.
Proof. unfold nomark. rewrite Forall_forall. intros H Hm Hi. apply H in Hi. congruence. Qed.

(* ---------------------------------------------------------------- newHighWatermark *)
Lemma inv1_mark mx s b r : Inv1 mx s -> cur s = Some b -> hwm s < r -> r <= mx ->
  nomark (inq (get_bp s b)) -> refusing (get_bp s b) = true -> Inv1 mx (mark s b r).
Proof.
  intros I Ec Hr Hrm Nm Rf. pose proof I as I'. dI1 I'.
  assert (Hb : b < length (bps s)) by auto.
  assert (Np : ~ pend s r). { intros P. apply Hchs in P. lia. }
  assert (Lr : r < length (lv s)) by lia.
  assert (Gb : forall b', get_bp (mark s b r) b' = if b' =? b then with_inq (get_bp s b) (inq (get_bp s b) ++ [Fin (r - 1)]) else get_bp s b').
  { intros b'. unfold mark. change (get_bp (push_inq s b [Fin (r-1)]) b' = if b' =? b then with_inq (get_bp s b) (inq (get_bp s b) ++ [Fin (r - 1)]) else get_bp s b').
    rewrite get_bp_push. apply Nat.ltb_lt in Hb. now rewrite Hb, andb_true_r. }
  assert (Pe : forall c, pend (mark s b r) c <-> c = r \/ pend s c).
  { intros c. unfold pend, mark. simpl. rewrite chs_set_chs by auto. destruct (Nat.eqb_spec c r); intuition congruence. }
  assert (Fi : forall b' r', In (Fin r') (inq (get_bp (mark s b r) b')) -> In (Fin r') (inq (get_bp s b')) \/ (b' = b /\ r' = r - 1)).
  { intros b' r'. rewrite Gb. destruct (Nat.eqb_spec b' b) as [->|N]; auto. simpl. rewrite in_app_iff. simpl.
    intros [H|[H|[]]]; auto. injection H as <-. auto. }
  constructor.
  - unfold mark. simpl. unfold set_chs. now rewrite length_upd.
  - unfold mark. simpl. auto.
  - unfold mark. simpl. discriminate.
  - intros b'. rewrite Gb. destruct (b' =? b); simpl; auto.
  - exact Hokq.
  - intros l. unfold mark. simpl. rewrite lbuf_set_chs. apply Hoklv.
  - intros b'. change (nxt (mark s b r)) with (nxt s). rewrite Gb. destruct (b' =? b); auto.
    specialize (Hokbp b). unfold pre in *. simpl. rewrite app_assoc. apply Forall_app. split; auto.
    constructor; auto. simpl. lia.
  - exact Hnosyn.
  - intros b'. rewrite Gb. destruct (b' =? b); auto. apply (Hpnm b).
  - intros b'. rewrite Gb. destruct (b' =? b); auto. apply (Hpref b).
  - intros l Hl. unfold mark in *. simpl in *. rewrite lbuf_set_chs. apply Hlvtop. lia.
  - intros l m. unfold mark. simpl. rewrite lbuf_set_chs. apply Hlvdata.
  - intros c P. apply Pe in P as [->|P]; [unfold mark; simpl; lia|]. apply Hchs in P. unfold mark. simpl. lia.
  - intros c H. apply Pe. right. now apply Htup.
  - intros b' r' H. apply Pe. apply Fi in H as [H|[-> ->]]; [right; eapply Htin; eauto|left; lia].
  - intros b' X r' Y. rewrite Gb. change (cur (mark s b r)) with (@None nat). destruct (Nat.eqb_spec b' b) as [->|N].
    + simpl. intros E. apply snoc_fin_split in E as (-> & -> & ->); auto. repeat split; auto. left. split; auto. discriminate.
    + intros E. destruct (Htpos b' X r' Y E) as (A & B & [[C _]|C]); repeat split; auto. left. split; auto. discriminate.
  - intros b' X Y. rewrite Gb. destruct (Nat.eqb_spec b' b) as [->|N]; [|apply Hspos].
    simpl. intros E. exfalso. assert (H : In Syn (inq (get_bp s b) ++ [Fin (r-1)])) by (rewrite E; apply in_or_app; right; now left).
    apply in_app_or in H as [H|[H|[]]]; [|discriminate]. revert H. now apply nomark_not_in.
  - exact Hu1.
  - intros c b' H H2. apply Fi in H2 as [H2|[-> E]]; [eapply Hu3; eauto|].
    apply Htup in H. apply Hchs in H. lia.
  - intros b1 b2 r' N H1 H2. apply Fi in H1 as [H1|[-> ->]]; apply Fi in H2 as [H2|[-> E2]]; try congruence.
    + eapply Hu4; eauto.
    + subst r'. apply Htin in H1. replace (S (r - 1)) with r in H1 by lia. auto.
    + apply Htin in H2. replace (S (r - 1)) with r in H2 by lia. auto.
  - intros b' _. rewrite Gb. destruct (Nat.eqb_spec b' b) as [->|N].
    + simpl. rewrite post_m_app_nomark by auto. simpl. split; auto.
      unfold nosyn. rewrite in_app_iff. simpl. intros [H|[H|[]]]; [|discriminate]. revert H. now apply nomark_not_in.
    + apply Hnoncur. rewrite Ec. congruence.
  - intros b'. rewrite Gb. destruct (Nat.eqb_spec b' b) as [->|N]; [|apply Hmarked].
    unfold refusing in *. simpl. rewrite Rf. discriminate.
Qed.

(* ---------------------------------------------------------------- data sent to the current worker *)
Lemma upd_ext_nth {A} (f : A -> A) d : forall l b, upd b f l = upd b (fun _ => f (nth b l d)) l.
Proof. induction l as [|z l IH]; intros [|b]; simpl; auto. f_equal. apply IH. Qed.

Lemma push_is_put s b ds : push_inq s b ds = put_bp s b (with_inq (get_bp s b) (inq (get_bp s b) ++ ds)).
Proof. unfold push_inq, put_bp, get_bp. f_equal. exact (upd_ext_nth (fun x => with_inq x (inq x ++ ds)) bpw0 (bps s) b). Qed.

Lemma app_elem_split {A} (mk : A) ds : ~ In mk ds -> forall X l Y,
  l ++ ds = X ++ mk :: Y -> exists Y0, l = X ++ mk :: Y0 /\ Y = Y0 ++ ds.
Proof.
  intros Nd. induction X as [|x X IH]; intros l Y E.
  - destruct l as [|m l]; simpl in E.
    + exfalso. apply Nd. rewrite E. now left.
    + injection E as -> E. exists l. split; auto.
  - destruct l as [|m l]; simpl in E.
    + exfalso. apply Nd. rewrite E. right. apply in_or_app. right. now left.
    + injection E as -> E. destruct (IH _ _ E) as (Y0 & -> & ->). exists Y0. split; auto.
Qed.
Lemma app_marker_split mk ds : is_marker mk = true -> nomark ds -> forall X l Y,
  l ++ ds = X ++ mk :: Y -> exists Y0, l = X ++ mk :: Y0 /\ Y = Y0 ++ ds.
Proof. intros Hm Nd. apply app_elem_split. now apply nomark_not_in. Qed.

Lemma inv1_push_data mx s b ds : Inv1 mx s -> cur s = Some b -> nomark ds -> Forall (okitem mx (nxt s)) ds ->
  Inv1 mx (push_inq s b ds).
Proof.
  intros I Ec Nd Okd. pose proof I as I'. dI1 I'.
  assert (Hb : b < length (bps s)) by auto.
  rewrite push_is_put. set (x := get_bp s b). set (y := with_inq x (inq x ++ ds)).
  assert (Fy : forall r, In (Fin r) (inq y) -> In (Fin r) (inq x)).
  { intros r. unfold y. simpl. rewrite in_app_iff. intros [H|H]; auto. exfalso. revert H. now apply nomark_not_in. }
  apply inv1_put0; auto; fold x.
  - apply (Hab b).
  - change (pre y) with (pre x). unfold y. simpl inq. rewrite app_assoc. apply Forall_app. split; auto. apply (Hokbp b).
  - apply (Hpnm b).
  - apply (Hpref b).
  - intros X r Y E1. unfold y in E1. simpl in E1. apply app_marker_split in E1 as (Y0 & E0 & ->); auto.
    destruct (Htpos b X r Y0 E0) as (A & B & [[C D]|(Y' & ->)]); [congruence|].
    repeat split; auto. right. simpl. eauto.
  - intros X Y E1. unfold y in E1. simpl in E1. apply app_marker_split in E1 as (Y0 & E0 & ->); auto.
    apply nomark_app. split; auto. eapply Hspos; eauto.
  - intros H. exfalso. apply H. auto.
  - unfold y, seg1, pre, sent_items, wt_items, refusing. simpl. rewrite has_m_app.
    assert (has_m ds = false) as -> by now apply nomark_has_m. rewrite orb_false_r. intros H1 H2.
    rewrite pre_m_app_marked by auto. apply (Hmarked b); auto.
Qed.

Lemma inv1_pop_data mx s i r rest : Inv1 mx s -> q s = Data i r :: rest -> Inv1 mx (pop s).
Proof.
  intros I E. dI1 I. unfold pop. rewrite E in *. simpl in *. constructor; simpl; auto.
  - now inversion Hokq.
  - unfold nosyn in *. simpl in Hnosyn. tauto.
  - intros c H. apply Htup. now right.
  - intros c b H. apply Hu3. now right.
Qed.

Lemma inv1_park mx s i r rest : Inv1 mx s -> q s = Data i r :: rest -> r < hwm s ->
  Inv1 mx (park_head s r (Data i r)).
Proof.
  intros I E Hr. apply (inv1_pop_data mx _ i r rest); [|exact E].
  dI1 I. assert (Lr : r < length (lv s)) by lia.
  constructor; simpl; auto.
  - unfold set_lbuf. now rewrite length_upd.
  - intros l. rewrite lbuf_set_lbuf by auto. destruct (Nat.eqb_spec l r) as [->|N]; auto.
    apply Forall_app. split; auto. constructor; auto. rewrite E in Hokq. now inversion Hokq.
  - intros l Hl. rewrite lbuf_set_lbuf by auto. destruct (Nat.eqb_spec l r) as [->|N]; auto. lia.
  - intros l m. rewrite lbuf_set_lbuf by auto. destruct (Nat.eqb_spec l r) as [->|N]; auto.
    rewrite in_app_iff. simpl. intros [H|[<-|[]]]; eauto.
  - intros c. unfold pend. simpl. rewrite chs_set_lbuf. apply Hchs.
  - intros c H. unfold pend. simpl. rewrite chs_set_lbuf. now apply Htup.
  - intros b r' H. unfold pend. simpl. rewrite chs_set_lbuf. eapply Htin; eauto.
Qed.

(* a fin read by the partition worker *)
Lemma inv1_fin mx s c rest : Inv1 mx s -> q s = Fin c :: rest -> Inv1 mx (fin_seen (pop s) c).
Proof.
  intros I E. dI1 I.
  assert (Pc : pend s c) by (apply Htup; rewrite E; now left).
  assert (Lc : c < length (lv s)) by (apply Hchs in Pc; lia).
  assert (Pe : forall c', c' <> c -> pend (fin_seen (pop s) c) c' <-> pend s c').
  { intros c' N. unfold pend. simpl. rewrite chs_set_chs by auto. apply Nat.eqb_neq in N. now rewrite N. }
  assert (Pe2 : forall c', pend (fin_seen (pop s) c) c' -> pend s c').
  { intros c'. unfold pend. simpl. rewrite chs_set_chs by auto. destruct (c' =? c); auto. discriminate. }
  rewrite E in *. simpl in Hu1, Hokq, Hnosyn. inversion Hu1 as [|? ? Hn Hd]; subst.
  constructor; simpl; rewrite ?E; simpl; auto.
  - unfold set_chs. now rewrite length_upd.
  - now inversion Hokq.
  - intros l. rewrite lbuf_set_chs. auto.
  - unfold nosyn in *. simpl in Hnosyn. tauto.
  - intros l Hl. rewrite lbuf_set_chs. auto.
  - intros l m. rewrite lbuf_set_chs. auto.
  - intros c' H. apply Pe; [|apply Htup; now right]. intros ->. apply Hn. now apply in_fins.
  - intros b r H. apply Pe; [|eapply Htin; eauto]. intros <-. eapply Hu3; eauto. now left.
  - intros c' b H. apply Hu3. now right.
Qed.


(* ---------------------------------------------------------------- updateLeader succeeded: a worker is chosen and gets a syn *)
Definition pickbp (s : st) (b0 : nat) : st := let '(s1, b') := pick s b0 in set_cur (push_inq s1 b' [Syn]) (Some b').

Lemma inv1_pickbp mx s b0 : Inv1 mx s -> cur s = None -> (forall b, acc (get_bp s b) = []) -> Inv1 mx (pickbp s b0).
Proof.
  intros I Ec Ha. unfold pickbp. destruct (pick s b0) as [s1 b'] eqn:Ep.
  destruct (pick_spec _ _ _ _ Ep) as (G & Hb' & Hlen1 & Hcl & Hab' & Eq & Erq & Eh & Elv & Ecur & _ & _ & Enx & _ & _).
  pose proof I as I'. dI1 I'.
  assert (Gb : forall b, get_bp (set_cur (push_inq s1 b' [Syn]) (Some b')) b =
                         if b =? b' then with_inq (get_bp s b') (inq (get_bp s b') ++ [Syn]) else get_bp s b).
  { intros b. change (get_bp (push_inq s1 b' [Syn]) b = if b =? b' then with_inq (get_bp s b') (inq (get_bp s b') ++ [Syn]) else get_bp s b).
    rewrite get_bp_push, !G. apply Nat.ltb_lt in Hb'. now rewrite Hb', andb_true_r. }
  set (x := get_bp s b') in *.
  assert (Nc : cur s <> Some b') by (rewrite Ec; discriminate).
  destruct (Hnoncur b' Nc) as [Px Sx]. fold x in Px, Sx.
  assert (Fi : forall b r, In (Fin r) (inq (get_bp (set_cur (push_inq s1 b' [Syn]) (Some b')) b)) -> In (Fin r) (inq (get_bp s b))).
  { intros b r. rewrite Gb. destruct (Nat.eqb_spec b b') as [->|N]; auto. simpl. rewrite in_app_iff. simpl.
    intros [H|[H|[]]]; auto. discriminate. }
  constructor; simpl; rewrite ?Eq, ?Erq, ?Eh, ?Elv, ?Enx; auto.
  - intros b E. injection E as <-. rewrite length_upd. exact Hb'.
  - intros b. rewrite Gb. destruct (b =? b'); auto.
  - intros b. rewrite Gb. destruct (b =? b'); auto. simpl.
    change (pre (with_inq x (inq x ++ [Syn]))) with (pre x). rewrite app_assoc. apply Forall_app. split; [apply Hokbp|repeat constructor].
  - intros b. rewrite Gb. destruct (b =? b'); auto. apply (Hpnm b').
  - intros b. rewrite Gb. destruct (b =? b'); auto. apply (Hpref b').
  - intros c. unfold pend. simpl. rewrite ?Elv, ?Eh. apply Hchs.
  - intros c. unfold pend. simpl. rewrite Elv. apply Htup.
  - intros b r H. apply Fi in H. unfold pend. simpl. rewrite Elv. eapply Htin; eauto.
  - intros b X r Y. rewrite Gb. destruct (Nat.eqb_spec b b') as [->|N].
    + simpl. intros E. apply app_elem_split in E as (Y0 & E0 & ->); [|intros [H|[]]; discriminate].
      destruct (Htpos b' X r Y0 E0) as (A & B & [[-> _]|(Y' & ->)]); repeat split; auto; right; simpl; eauto.
    + intros E. destruct (Htpos b X r Y E) as (A & B & [[C D]|C]); repeat split; auto.
      left. split; auto. congruence.
  - intros b X Y. rewrite Gb. destruct (Nat.eqb_spec b b') as [->|N]; [|apply Hspos].
    simpl. intros E.
    destruct Y as [|y Y] using rev_ind; [constructor|].
    exfalso. clear IHY. rewrite app_comm_cons, app_assoc in E. apply app_inj_tail in E as [E _].
    apply Sx. rewrite E. apply in_or_app. right. now left.
  - intros c b H H2. apply Fi in H2. eapply Hu3; eauto.
  - intros b1 b2 r N H1 H2. apply Fi in H1, H2. eapply Hu4; eauto.
  - intros b N. rewrite Gb. destruct (Nat.eqb_spec b b') as [->|N']; [congruence|]. apply Hnoncur. rewrite Ec. discriminate.
  - intros b. rewrite Gb. destruct (Nat.eqb_spec b b') as [->|N]; [|apply Hmarked].
    unfold refusing, seg1. simpl. change (pre (with_inq x (inq x ++ [Syn]))) with (pre x).
    intros _ R. specialize (Ha b'). fold x in Ha. destruct (acc_doom_healthy x R) as [A _]. rewrite A in Ha.
    rewrite datas_app in *. apply app_eq_nil in Ha as [Ha1 Ha2]. rewrite Ha1. simpl.
    apply datas_nil_iff. intros i r H. revert i r H. apply datas_nil_iff.
    assert (Hs : sub (pre_m (inq x ++ [Syn])) (inq x ++ [Syn])).
    { clear. induction (inq x ++ [Syn]) as [|m l IH]; simpl; [constructor|]. destruct (is_marker m); [apply sub_nil_l|now apply sub_keep]. }
    apply datas_nil_iff. intros i r H. apply (sub_in _ _ _ Hs) in H. apply in_app_or in H as [H|[H|[]]]; [|discriminate].
    revert H. apply datas_nil_iff. auto.
Qed.

(* ---------------------------------------------------------------- flushRetryBuffers: one level down *)

Lemma inv1_lower mx s h' : Inv1 mx s -> hwm s = S h' -> ~ pend s (S h') -> Inv1 mx (lower s h').
Proof.
  intros I Eh Np. dI1 I. assert (Lh : h' < length (lv s)) by lia.
  constructor; simpl; auto.
  - unfold set_lbuf. now rewrite length_upd.
  - lia.
  - intros l. rewrite lbuf_set_lbuf by auto. destruct (l =? h'); auto.
  - intros l Hl. rewrite lbuf_set_lbuf by auto. destruct (Nat.eqb_spec l h'); auto. apply Hlvtop. lia.
  - intros l m. rewrite lbuf_set_lbuf by auto. destruct (Nat.eqb_spec l h') as [->|N]; [intros []|auto].
  - intros c. unfold pend. simpl. rewrite chs_set_lbuf. intros P.
    assert (c <> S h') by (intros ->; now apply Np). apply Hchs in P. lia.
  - intros c H. unfold pend. simpl. rewrite chs_set_lbuf. now apply Htup.
  - intros b r H. unfold pend. simpl. rewrite chs_set_lbuf. eapply Htin; eauto.
Qed.
