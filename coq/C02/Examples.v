(* C02 — the theorems of C02/Proofs.v hold for every schedule; these examples show reachable non-trivial states
   (retry level 1 with a chaser in flight behind a re-picked worker, a parked fresh message, a bounced message on its
   way back) and the log the run ends with. *)
From Coq Require Import List Arith Bool.
From SV Require Import C02.Model C02.Defs.
Import ListNotations.

Definition sched_ex : list choice :=
  [CSubmit; CSubmit; CSubmit; CPp [Some 0]; CPp []; CRecv 0 0; CRecv 0 0; CFlush 0; CRecv 0 0;
   CAnswer 0 VRetr false; CResp 0 false;      (* 0 and 1 bounced to level 1, worker 0 refuses the partition *)
   CPp [];                                     (* 2 forwarded to the refusing worker: doomed *)
   CRetry; CPp [Some 0];                       (* 0 (level 1) arrives: newHighWatermark(1), fin to worker 0, worker 0 re-picked: syn, 0 *)
   CSubmit; CPp [];                            (* fresh 3 is parked at level 0 *)
   CRetry; CPp [];                             (* 1 (level 1) forwarded *)
   CRecv 0 0].                                 (* worker 0 bounces 2 *)

Example ex_state : let s := run 2 sched_ex in
  hwm s = 1 /\ cur s = Some 0 /\ rq s = [Data 2 1] /\
  lbuf (get_lvl 0 (lv s)) = [Data 3 0] /\ chs (get_lvl 1 (lv s)) = true /\
  inq (get_bp s 0) = [Fin 0; Syn; Data 0 1; Data 1 1] /\ rf (get_bp s 0) = true /\
  logical 2 s = [0; 1; 2; 3] /\ crash s = None.
Proof. vm_compute. repeat split. Qed.

(* the run continues: the chaser comes back, the parked message is flushed, everything is appended in order *)
Definition sched_ex_end : list choice := sched_ex ++
  [CRecv 0 0;                                  (* worker 0 bounces the fin and stops refusing *)
   CRecv 0 0; CRecv 0 0; CRecv 0 0;            (* syn, 0, 1 accepted *)
   CRetry; CPp [];                             (* 2 (level 1) forwarded *)
   CRetry; CPp [];                             (* the fin of level 1: flush level 0: 3 forwarded *)
   CRecv 0 0; CRecv 0 0; CFlush 0; CAnswer 0 VOk true; CResp 0 false].

Example ex_end : let s := run 2 sched_ex_end in
  log s = [0; 1; 2; 3] /\ succ s = [(0, 0); (1, 1); (2, 2); (3, 3)] /\ hwm s = 0 /\ logical 2 s = [] /\ order_ok s = true.
Proof. vm_compute. repeat split. Qed.

(* ---------------------------------------------------------------- Retry.Max = 0: a history satisfying the hypothesis of the partial theorem *)
From SV Require Import C02.Lemmas C02.Prims C02.Retry0.
From Coq Require Import Lia.

Definition quietb (s : st) : bool :=
  forallb (fun x => negb (ab x) || cl x || match datas (held x) with [] => true | _ => false end) (bps s).
Lemma quietb_ok s : quietb s = true -> quiet s.
Proof.
  intros H b Ab Cl. destruct (Nat.lt_ge_cases b (length (bps s))) as [Hb|Hb].
  - unfold quietb in H. rewrite forallb_forall in H. specialize (H (get_bp s b) (nth_In _ _ Hb)).
    rewrite Ab, Cl in H. simpl in H. now destruct (datas (held (get_bp s b))).
  - rewrite get_bp_default in Ab by auto. discriminate.
Qed.

(* message 0 fails with a fatal block error while the abandoned worker holds nothing else; 1 and 2 go through a fresh worker *)
Definition sched_retry0_quiet : list choice :=
  [CSubmit; CPp [Some 0]; CRecv 0 0; CRecv 0 0; CFlush 0; CAnswer 0 VFatal false; CResp 0 false;
   CSubmit; CSubmit; CPp [Some 0]; CPp []; CRecv 1 0; CRecv 1 0; CRecv 1 0; CFlush 1; CAnswer 1 VOk true; CResp 1 false].

Example ex_retry0_quiet : (forall k, quiet (run 0 (firstn k sched_retry0_quiet))) /\
  log (run 0 sched_retry0_quiet) = [1; 2] /\ succ (run 0 sched_retry0_quiet) = [(1, 0); (2, 1)] /\
  ab (get_bp (run 0 sched_retry0_quiet) 0) = true.
Proof.
  split; [|vm_compute; repeat split].
  assert (H : forallb (fun k => quietb (run 0 (firstn k sched_retry0_quiet))) (seq 0 (S (length sched_retry0_quiet))) = true) by (vm_compute; reflexivity).
  rewrite forallb_forall in H. intros k. apply quietb_ok.
  destruct (Nat.le_gt_cases k (length sched_retry0_quiet)) as [L|G].
  - apply H. apply in_seq. lia.
  - rewrite firstn_all2 by lia. rewrite <- (firstn_all sched_retry0_quiet). apply H. apply in_seq. lia.
Qed.
