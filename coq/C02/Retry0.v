(* C02 — Retry.Max = 0 on histories in which no abandoned broker worker holds messages it will still send
   ([quiet] in every state of the run): per-partition order holds.  The full statement is false (C02/Refuted.v). *)
From Coq Require Import List Arith Bool Lia Sorted.
From SV Require Import C02.Model C02.Defs C02.Lemmas C02.Prims C02.Inv1 C02.Inv2 C02.Inv3 C02.Inv4 C02.Step C02.Refuted.
Import ListNotations.

(* ---------------------------------------------------------------- definitions *)
Definition held (b : bpw) : list item := pre b ++ inq b.
(* no abandoned broker worker holds messages that it will still send (a closing worker fails whatever it holds) *)
Definition quiet (s : st) : Prop :=
  forall b, ab (get_bp s b) = true -> cl (get_bp s b) = false -> datas (held (get_bp s b)) = [].

Definition dat0 (l : list item) : Prop :=
  Forall (fun m => match m with Data _ r => r = 0 | Fin _ => False | Syn => True end) l.
Definition cpart (s : st) : list nat :=
  match cur s with Some b => if cl (get_bp s b) then [] else data_ids (held (get_bp s b)) | None => [] end.
(* with Retry.Max = 0 nothing ever comes back: the undelivered messages are what the current worker holds, then the input *)
Definition mlist (s : st) : list nat := cpart s ++ data_ids (q s).

Record Z (s : st) : Prop := {
  z_hwm : hwm s = 0; z_rq : rq s = []; z_crash : crash s = None;
  z_q : Forall (fun m => exists i, m = Data i 0) (q s);
  z_dat : forall b, dat0 (held (get_bp s b));
  z_pre : forall b, nomark (pre (get_bp s b));
  z_rf : forall b, rf (get_bp s b) = false;
  z_cl : forall b, cl (get_bp s b) = true -> pre (get_bp s b) = [];
  z_cur : forall b, cur s = Some b -> b < length (bps s);
  z_left : forall b, b < length (bps s) -> cur s <> Some b -> ab (get_bp s b) = true;
  z_sorted : sorted (mlist s);
  z_fresh : Forall (fun i => i < nxt s) (mlist s);
  z_log_old : forall x j, In x (log s) -> In j (mlist s) -> ~ In j (log s) -> x < j;
  z_log_first : increasing (first_copies (log s)) = true;
  z_ent_sorted : StronglySorted pairlt (entries s);
  z_ent_bound : Forall (fun a => snd a < length (log s)) (entries s);
  z_succ_old : forall a j, In a (succ s) -> In j (mlist s) -> fst a < j;
  z_log_fresh : Forall (fun x => x < nxt s) (log s);
  z_ent_fresh : Forall (fun a => fst a < nxt s) (entries s)
}.

Ltac dZ I := destruct I as [Zh Zrq Zcr Zq Zdat Zpre Zrf Zcl Zcur Zleft Zso Zfr Zlo Zlf Zes Zeb Zsu Zlfr Zefr].

Lemma bounce1_0 m : bounce1 0 m = [].
Proof. now destruct m. Qed.
Lemma bounce_0 l : bounce 0 l = [].
Proof. unfold bounce. induction l; simpl; auto. now rewrite bounce1_0. Qed.

Lemma data_ids_app a b : data_ids (a ++ b) = data_ids a ++ data_ids b.
Proof. rewrite !data_ids_datas, datas_app. apply map_app. Qed.

(* a worker that still holds data it may send is the current one *)
Lemma holder_is_cur s b : Z s -> quiet s -> datas (held (get_bp s b)) <> [] -> cl (get_bp s b) = false ->
  cur s = Some b.
Proof.
  intros I Q H C. dZ I. destruct (Nat.lt_ge_cases b (length (bps s))) as [Hb|Hb].
  - destruct (option_eq_dec (cur s) (Some b)) as [|N]; auto. exfalso. apply H. apply Q; auto.
  - rewrite get_bp_default in H by auto. now destruct H.
Qed.

Lemma sent_holder s b : Z s -> quiet s -> data_ids (sent_items (get_bp s b)) <> [] ->
  cur s = Some b /\ cl (get_bp s b) = false.
Proof.
  intros I Q H. pose proof I as I'. dZ I'.
  assert (C : cl (get_bp s b) = false).
  { destruct (cl (get_bp s b)) eqn:C; auto. exfalso. apply H. pose proof (Zcl b C) as P. unfold pre in P.
    apply app_eq_nil in P as [-> _]. reflexivity. }
  split; auto. apply holder_is_cur; auto. intros E. apply H. unfold held, pre in E. rewrite !datas_app in E.
  apply app_eq_nil in E as [E _]. apply app_eq_nil in E as [E _]. now rewrite data_ids_datas, E.
Qed.

Lemma cpart_cur s b : cur s = Some b -> cl (get_bp s b) = false -> cpart s = data_ids (held (get_bp s b)).
Proof. intros E C. unfold cpart. now rewrite E, C. Qed.

(* ---------------------------------------------------------------- steps that neither append to the log nor deliver *)
Lemma Z_sub s s' : Z s ->
  hwm s' = 0 -> rq s' = [] -> crash s' = None -> nxt s' = nxt s -> log s' = log s -> succ s' = succ s ->
  entries s' = entries s ->
  Forall (fun m => exists i, m = Data i 0) (q s') ->
  (forall b, dat0 (held (get_bp s' b)) /\ nomark (pre (get_bp s' b)) /\ rf (get_bp s' b) = false /\
             (cl (get_bp s' b) = true -> pre (get_bp s' b) = [])) ->
  (forall b, cur s' = Some b -> b < length (bps s')) ->
  (forall b, b < length (bps s') -> cur s' <> Some b -> ab (get_bp s' b) = true) ->
  sub (mlist s') (mlist s) -> Z s'.
Proof.
  intros I E1 E2 E3 E4 E5 E6 E7 Hq Hb Hc Hl Hs. dZ I. constructor; rewrite ?E4, ?E5, ?E6, ?E7; auto.
  - intros b. apply Hb.
  - intros b. apply Hb.
  - intros b. apply Hb.
  - intros b. apply Hb.
  - eapply sorted_sub; eauto.
  - eapply Forall_sub; eauto.
  - intros x j H1 H2. apply Zlo; auto. eapply sub_in; eauto.
  - intros a j H1 H2. apply Zsu; auto. eapply sub_in; eauto.
Qed.

Lemma Z_bp s : Z s -> forall b, dat0 (held (get_bp s b)) /\ nomark (pre (get_bp s b)) /\ rf (get_bp s b) = false /\
             (cl (get_bp s b) = true -> pre (get_bp s b) = []).
Proof. intros I b. destruct I. auto. Qed.

Lemma dat0_app a b : dat0 (a ++ b) <-> dat0 a /\ dat0 b.
Proof. unfold dat0. apply Forall_app. Qed.

Lemma sub_data_ids l' l : sub l' l -> sub (data_ids l') (data_ids l).
Proof. intros H. rewrite !data_ids_datas. apply sub_map. now apply datas_sub. Qed.

Lemma Z_submit s : Z s -> Z (raw_step 0 s CSubmit).
Proof.
  intros I. dZ I. simpl.
  assert (Em : mlist (set_nxt (set_q s (q s ++ [Data (nxt s) 0])) (S (nxt s))) = mlist s ++ [nxt s]).
  { unfold mlist, cpart. simpl. rewrite data_ids_app. simpl. now rewrite app_assoc. }
  constructor; simpl; rewrite ?Em; auto.
  - apply Forall_app. split; auto. constructor; [eauto|constructor].
  - apply sorted_snoc; auto.
  - apply Forall_app. split; [eapply Forall_impl; [|exact Zfr]; simpl; intros; lia|repeat constructor].
  - intros x j Hx Hj Nj. apply in_app_or in Hj as [Hj|[<-|[]]]; auto. rewrite Forall_forall in Zlfr. auto.
  - intros a j Ha Hj. apply in_app_or in Hj as [Hj|[<-|[]]]; auto.
    rewrite Forall_forall in Zefr. apply Zefr. unfold entries. apply in_or_app. now left.
  - eapply Forall_impl; [|exact Zlfr]. simpl. intros; lia.
  - eapply Forall_impl; [|exact Zefr]. simpl. intros; lia.
Qed.

Lemma Z_retry s : Z s -> Z (raw_step 0 s CRetry).
Proof. intros I. simpl. destruct I. now rewrite z_rq0. Qed.

Lemma Forall_remove_nth {A} (P : A -> Prop) l n : Forall P l -> Forall P (remove_nth n l).
Proof. intros H. rewrite Forall_forall in *. intros x Hx. apply H. eapply in_remove_nth; eauto. Qed.

Lemma Z_failq s n : Z s -> Z (raw_step 0 s (CFailQ n)).
Proof.
  intros I. simpl. destruct (nth_error (q s) n) as [[i r| |]|] eqn:E; auto. pose proof I as I'. dZ I'.
  apply (Z_sub s); auto.
  - simpl. now apply Forall_remove_nth.
  - exact (Z_bp s I).
  - unfold mlist, cpart. simpl. apply sub_app; [apply sub_refl|]. apply sub_data_ids. apply dsub_sub. eapply dsub_remove_nth; eauto.
Qed.

(* ---------------------------------------------------------------- one worker changes *)
Lemma Z_put s s' b y : Z s -> b < length (bps s) ->
  q s' = q s -> rq s' = [] -> hwm s' = hwm s -> crash s' = crash s -> nxt s' = nxt s -> log s' = log s ->
  succ s' = succ s -> cur s' = cur s -> bps s' = upd b (fun _ => y) (bps s) ->
  let x := get_bp s b in
  pending_ok y = pending_ok x ->
  dat0 (held y) -> nomark (pre y) -> rf y = false -> (cl y = true -> pre y = []) -> (ab x = true -> ab y = true) ->
  sub (if cl y then [] else data_ids (held y)) (if cl x then [] else data_ids (held x)) ->
  Z s'.
Proof.
  intros I Hb Eq Erq Eh Ecr En El Es Ec Eb x Ep Y1 Y2 Y3 Y4 Y5 Y6. pose proof I as I'. dZ I'.
  assert (Gy : get_bp s' b = y) by (unfold get_bp; rewrite Eb; now apply nth_upd_same).
  assert (G : forall b', b' <> b -> get_bp s' b' = get_bp s b') by (intros b' N; unfold get_bp; rewrite Eb; apply nth_upd_other; congruence).
  assert (Len : length (bps s') = length (bps s)) by (rewrite Eb; apply length_upd).
  apply (Z_sub s s' I); [congruence|exact Erq|congruence|exact En|exact El|exact Es| | | | | |].
  - apply (entries_bps s s' b y); auto.
  - now rewrite Eq.
  - intros b'. destruct (Nat.eq_dec b' b) as [->|N]; [rewrite Gy; auto|rewrite G by auto; apply (Z_bp s I)].
  - intros b'. rewrite Ec, Len. apply Zcur.
  - intros b'. rewrite Ec, Len. intros H1 H2. destruct (Nat.eq_dec b' b) as [->|N]; [rewrite Gy; apply Y5; now apply Zleft|rewrite G by auto; now apply Zleft].
  - unfold mlist. rewrite Eq. apply sub_app; [|apply sub_refl]. unfold cpart. rewrite Ec. destruct (cur s) as [c|]; [|apply sub_refl].
    destruct (Nat.eq_dec c b) as [->|N]; [rewrite Gy; exact Y6|rewrite G by auto; apply sub_refl].
Qed.

Lemma dat0_cons m l : dat0 (m :: l) <-> (match m with Data _ r => r = 0 | Fin _ => False | Syn => True end) /\ dat0 l.
Proof. unfold dat0. split; [intros H; inversion H; auto|intros [H1 H2]; constructor; auto]. Qed.

Lemma Z_recv s b d : Z s -> Z (bp_recv 0 s b d).
Proof.
  intros I. unfold bp_recv. set (x := get_bp s b).
  destruct (wt x) eqn:Ew; auto. destruct (inq x) as [|m rest] eqn:Ei; auto.
  destruct (Nat.lt_ge_cases b (length (bps s))) as [Hb|Hb].
  2:{ unfold x in Ei. rewrite get_bp_default in Ei by auto. discriminate. }
  pose proof I as I'. dZ I'.
  destruct (Z_bp s I b) as (Xd & Xp & Xr & Xc). fold x in Xd, Xp, Xr, Xc.
  unfold held in Xd. rewrite Ei in Xd. apply dat0_app in Xd as [Xd1 Xd2]. apply dat0_cons in Xd2 as [Xm Xd2].
  assert (Rx : refusing x = cl x) by (unfold refusing; now rewrite Xr).
  assert (Wi : wt_items x = []) by (unfold wt_items; now rewrite Ew).
  (* the generic finisher: the new worker y holds a sub-list of what x held *)
  assert (Fin : forall s' y, q s' = q s -> rq s' = [] -> hwm s' = hwm s -> crash s' = crash s -> nxt s' = nxt s -> log s' = log s ->
            succ s' = succ s -> cur s' = cur s -> bps s' = upd b (fun _ => y) (bps s) ->
            snt y = snt x -> ab y = ab x -> rf y = false -> cl y = cl x -> sub (held y) (held x) -> nomark (pre y) ->
            (cl x = true -> pre y = []) -> Z s').
  { intros s' y E1 E2 E3 E4 E5 E6 E7 E8 E9 Y1 Y2 Y3 Y4 Y5 Y6 Y7.
    apply (Z_put s s' b y I Hb); auto; fold x.
    - now apply pending_ok_snt.
    - unfold dat0. eapply Forall_sub; [exact Y5|]. exact (proj1 (Z_bp s I b)).
    - now rewrite Y4.
    - now rewrite Y2.
    - rewrite Y4. destruct (cl x); [apply sub_refl|now apply sub_data_ids]. }
  cbv zeta. rewrite Rx. destruct m as [i r|r|]; [|destruct Xm|].
  - destruct (cl x) eqn:Cx.
    + (* a closing worker fails the message *)
      simpl negb. rewrite andb_false_r, bounce1_0.
      (match goal with |- Z (set_bps ?S (upd _ (fun _ => ?Y) _)) => apply (Fin (set_bps S (upd b (fun _ => Y) (bps S))) Y) end); try reflexivity; simpl; try rewrite Zrq; auto.
      * unfold held, pre, sent_items, wt_items. simpl. fold x. rewrite Ei. apply sub_app; [apply sub_refl|apply sub_skip, sub_refl].
    + simpl is_fin. cbv iota. destruct d as [|[|d]]; ((match goal with |- Z (set_bps ?S (upd _ (fun _ => ?Y) _)) => apply (Fin (set_bps S (upd b (fun _ => Y) (bps S))) Y) end); try reflexivity; simpl; auto; try discriminate).
      * unfold held, pre, sent_items, wt_items. simpl. fold x. rewrite Ew, Ei. rewrite ?app_nil_r. rewrite <- ?app_assoc. simpl. apply sub_refl.
      * unfold pre, sent_items, wt_items in *. simpl. fold x. rewrite Ew in *. rewrite !app_nil_r in *. rewrite app_assoc. apply nomark_app. split; auto. repeat constructor.
      * unfold held, pre, sent_items, wt_items. simpl. fold x. rewrite Ew, Ei. rewrite ?app_nil_r. rewrite <- ?app_assoc. simpl. apply sub_refl.
      * unfold pre, sent_items, wt_items in *. simpl. fold x. rewrite Ew in *. rewrite !app_nil_r in *. rewrite app_assoc. apply nomark_app. split; auto. repeat constructor.
      * unfold held, pre, sent_items, wt_items. simpl. fold x. rewrite Ei. apply sub_app; [apply sub_refl|apply sub_skip, sub_refl].
  - (match goal with |- Z (set_bps ?S (upd _ (fun _ => ?Y) _)) => apply (Fin (set_bps S (upd b (fun _ => Y) (bps S))) Y) end); try reflexivity; simpl; auto.
    unfold held, pre, sent_items, wt_items. simpl. fold x. rewrite Ei. apply sub_app; [apply sub_refl|apply sub_skip, sub_refl].
Qed.

Lemma Z_flush s b : Z s -> Z (bp_flush s b).
Proof.
  intros I. unfold bp_flush. set (x := get_bp s b).
  destruct (snt x) eqn:Es; auto. destruct (Nat.ltb_spec b (length (bps s))) as [Hb|Hb]; auto.
  pose proof I as I'. dZ I'. destruct (Z_bp s I b) as (Xd & Xp & Xr & Xc). fold x in Xd, Xp, Xr, Xc.
  match goal with |- Z (set_bps ?S (upd _ (fun _ => ?Y) _)) => set (y := Y) end.
  assert (Ep : pre y = pre x).
  { unfold pre, sent_items, wt_items, y. simpl. rewrite Es. simpl. destruct (wt x); simpl; now rewrite ?app_nil_r. }
  assert (Eh : held y = held x) by (unfold held; now rewrite Ep).
  apply (Z_put s _ b y I Hb); auto; fold x; try reflexivity.
  - unfold pending_ok, y. simpl. now rewrite Es.
  - now rewrite Eh.
  - now rewrite Ep.
  - rewrite Ep. exact Xc.
  - rewrite Eh. change (cl y) with (cl x). apply sub_refl.
Qed.

Lemma pending_holder s b : Z s -> quiet s -> pending_ok (get_bp s b) <> [] -> cur s = Some b /\ cl (get_bp s b) = false.
Proof.
  intros I Q H. apply sent_holder; auto. unfold pending_ok, sent_items in *.
  destruct (snt (get_bp s b)) as [[l [[[] base]|]]|]; try (now destruct H).
  intros E. apply H. rewrite <- (successes_fst l base) in E. destruct (successes l base); auto. discriminate.
Qed.

Lemma Z_entries_cur s : Z s -> quiet s -> entries s = succ s ++ pending_ok (cur_bp s).
Proof.
  intros I Q. unfold entries. f_equal. unfold cur_bp. destruct (cur s) as [b|] eqn:Ec.
  - apply (flat_map_sole pending_ok bpw0); auto. intros i N. destruct (pending_ok (nth i (bps s) bpw0)) eqn:E; auto.
    exfalso. apply N. destruct (pending_holder s i I Q) as [H _]; [unfold get_bp; rewrite E; discriminate|]. congruence.
  - apply (flat_map_nil_nth pending_ok bpw0); auto. intros i. destruct (pending_ok (nth i (bps s) bpw0)) eqn:E; auto.
    exfalso. destruct (pending_holder s i I Q) as [H _]; [unfold get_bp; rewrite E; discriminate|]. congruence.
Qed.

Lemma Z_entries_put s b y : Z s -> quiet s -> b < length (bps s) ->
  pending_ok (get_bp s b) = [] -> (pending_ok y <> [] -> cur s = Some b) ->
  entries (put_bp s b y) = entries s ++ pending_ok y.
Proof.
  intros I Q Hb P0 Hc. unfold entries. change (succ (put_bp s b y)) with (succ s). rewrite <- app_assoc. f_equal.
  destruct (pending_ok y) eqn:Ey.
  - rewrite app_nil_r. unfold put_bp. simpl. apply (flat_map_upd_same pending_ok (fun _ => y) bpw0).
    fold (get_bp s b). now rewrite Ey, P0.
  - rewrite <- Ey. assert (Ec : cur s = Some b) by (apply Hc; discriminate).
    assert (Oth : forall i, i <> b -> pending_ok (get_bp s i) = []).
    { intros i N. destruct (pending_ok (get_bp s i)) eqn:E; auto. exfalso.
      destruct (pending_holder s i I Q) as [H _]; [rewrite E; discriminate|]. congruence. }
    rewrite (flat_map_sole pending_ok bpw0 (bps s) b); auto. fold (get_bp s b). rewrite P0. simpl.
    change (upd b (fun _ : bpw => y) (bps s)) with (bps (put_bp s b y)).
    rewrite (flat_map_sole pending_ok bpw0 (bps (put_bp s b y)) b); auto.
    + fold (get_bp (put_bp s b y) b). now rewrite get_bp_put_same.
    + intros i N. fold (get_bp (put_bp s b y) i). rewrite get_bp_put_other by auto. now apply Oth.
Qed.

Lemma mlist_put_same s b y : b < length (bps s) -> held y = held (get_bp s b) -> cl y = cl (get_bp s b) ->
  mlist (put_bp s b y) = mlist s.
Proof.
  intros Hb Eh Ec. unfold mlist, cpart. change (cur (put_bp s b y)) with (cur s). change (q (put_bp s b y)) with (q s).
  f_equal. destruct (cur s) as [c|]; auto. destruct (Nat.eq_dec c b) as [->|N].
  - now rewrite get_bp_put_same, Eh, Ec.
  - now rewrite get_bp_put_other.
Qed.

Lemma Z_answer s b v app : Z s -> quiet s -> Z (answer s b v app).
Proof.
  intros I Q. unfold answer. set (x := get_bp s b).
  destruct (snt x) as [[l [vb|]]|] eqn:Es; auto.
  destruct (Nat.lt_ge_cases b (length (bps s))) as [Hb|Hb].
  2:{ unfold x in Es. rewrite get_bp_default in Es by auto. discriminate. }
  set (base := length (log s)). set (y := with_snt x (Some (l, Some (v, base)))). set (s1 := put_bp s b y).
  pose proof I as I'. dZ I'.
  assert (Ehy : held y = held x). { unfold held, pre, sent_items, wt_items, y. simpl. now rewrite Es. }
  assert (El : mlist s1 = mlist s) by (apply mlist_put_same; auto).
  assert (Px : pending_ok x = []) by (unfold pending_ok; now rewrite Es).
  assert (Sx : sent_items x = l) by (unfold sent_items; now rewrite Es).
  set (ids := data_ids l).
  assert (Hd : ids <> [] -> cur s = Some b /\ exists R, mlist s = ids ++ R).
  { intros Hi. destruct (sent_holder s b I Q) as [Ec C]. { fold x. now rewrite Sx. }
    split; auto. unfold mlist. rewrite (cpart_cur s b Ec C). fold x. unfold held, pre. rewrite Sx, <- !app_assoc, data_ids_app.
    fold ids. rewrite <- app_assoc. eauto. }
  assert (Ee : entries s1 = entries s ++ pending_ok y).
  { apply Z_entries_put; auto. intros H. apply Hd. unfold pending_ok, y in H. simpl in H.
    destruct v; try (now destruct H). intros E. apply H. unfold ids in E.
    rewrite <- (successes_fst l base) in E. destruct (successes l base); auto. discriminate. }
  assert (Sid : sorted ids /\ Forall (fun i => i < nxt s) ids).
  { destruct ids as [|i0 ir] eqn:Ei; [split; constructor|]. destruct Hd as (_ & R & E); [discriminate|].
    rewrite E in Zso, Zfr. apply sorted_app in Zso as (S1 & _). apply Forall_app in Zfr as [F1 _]. auto. }
  destruct Sid as [Sids Fids].
  assert (LogOk : forall lg' : list nat, lg' = log s ++ ids ->
     (forall x0 j, In x0 lg' -> In j (mlist s) -> ~ In j lg' -> x0 < j) /\
     increasing (first_copies lg') = true /\ Forall (fun x0 => x0 < nxt s) lg').
  { intros lg' ->. repeat split.
    - intros x0 j Hx Hj Nj. apply in_app_or in Hx as [Hx|Hx].
      + apply Zlo; auto. intros H. apply Nj. apply in_or_app. now left.
      + destruct Hd as (_ & R & E). { intros E0. rewrite E0 in Hx. destruct Hx. }
        rewrite E in Hj, Zso. apply sorted_app in Zso as (_ & _ & C). apply in_app_or in Hj as [Hj|Hj]; [|now apply C].
        exfalso. apply Nj. apply in_or_app. now right.
    - apply increasing_sorted. apply first_copies_app; auto.
      + now apply increasing_sorted.
      + intros x0 j Hx Hj Nj. apply Zlo; auto. destruct Hd as (_ & R & E). { intros E0. rewrite E0 in Hj. destruct Hj. }
        rewrite E. apply in_or_app. now left.
    - apply Forall_app. split; auto. }
  assert (Pv : pending_ok y = match v with VOk => successes l base | _ => [] end) by (unfold pending_ok, y; simpl; now destruct v).
  assert (EntOk : forall lg' : list nat, length (log s) + (match v with VOk => length ids | _ => 0 end) <= length lg' ->
     StronglySorted pairlt (entries s1) /\ Forall (fun a => snd a < length lg') (entries s1) /\
     Forall (fun a => fst a < nxt s) (entries s1)).
  { intros lg' Hl. rewrite Ee, Pv. destruct v; rewrite ?app_nil_r; repeat split; auto;
      try (eapply Forall_impl; [|exact Zeb]; simpl; intros; lia).
    - apply ssorted_app; auto.
      + apply successes_sorted. exact Sids.
      + intros a n Ha Hn. assert (Hn2 := successes_snd _ _ _ Hn). fold ids in Hn2. split.
        * assert (Hf : In (fst n) ids). { unfold ids. rewrite <- (successes_fst l base). now apply in_map. }
          destruct Hd as (Ec & R & E). { intros E0. rewrite E0 in Hf. destruct Hf. }
          rewrite (Z_entries_cur s I Q) in Ha. unfold cur_bp in Ha. rewrite Ec in Ha. fold x in Ha. rewrite Px, app_nil_r in Ha.
          apply Zsu; auto. rewrite E. apply in_or_app. now left.
        * rewrite Forall_forall in Zeb. apply Zeb in Ha. unfold base in Hn2. lia.
    - apply Forall_app. split; [eapply Forall_impl; [|exact Zeb]; simpl; intros; lia|].
      apply Forall_forall. intros a Ha. apply successes_snd in Ha. fold ids in Ha. unfold base in Ha. lia.
    - apply Forall_app. split; auto. apply Forall_forall. intros a Ha.
      assert (Hf : In (fst a) ids). { unfold ids. rewrite <- (successes_fst l base). now apply in_map. }
      rewrite Forall_forall in Fids. auto. }
  (* the structural fields are those of s *)
  assert (Gy : get_bp s1 b = y) by now apply get_bp_put_same.
  assert (G : forall b', b' <> b -> get_bp s1 b' = get_bp s b') by (intros; now apply get_bp_put_other).
  assert (Bp : forall b', dat0 (held (get_bp s1 b')) /\ nomark (pre (get_bp s1 b')) /\ rf (get_bp s1 b') = false /\
             (cl (get_bp s1 b') = true -> pre (get_bp s1 b') = [])).
  { intros b'. destruct (Nat.eq_dec b' b) as [->|N]; [rewrite Gy|rewrite G by auto; apply (Z_bp s I)].
    destruct (Z_bp s I b) as (A1 & A2 & A3 & A4). fold x in A1, A2, A3, A4.
    assert (Ep : pre y = pre x) by (unfold pre, sent_items, wt_items, y; simpl; now rewrite Es).
    rewrite Ehy, Ep. auto. }
  assert (Lf : forall b', b' < length (bps s1) -> cur s1 <> Some b' -> ab (get_bp s1 b') = true).
  { intros b' H1 H2. unfold s1 in H1. rewrite length_put in H1. destruct (Nat.eq_dec b' b) as [->|N]; [rewrite Gy; apply (Zleft b); auto|rewrite G by auto; now apply Zleft]. }
  assert (Cu : forall b', cur s1 = Some b' -> b' < length (bps s1)).
  { intros b' H. unfold s1. rewrite length_put. now apply Zcur. }
  destruct (match v with VOk => true | _ => app end) eqn:Eapp.
  - destruct (LogOk (log s ++ ids) eq_refl) as (L1 & L2 & L3).
    destruct (EntOk (log s ++ ids)) as (E1 & E2 & E3). { rewrite app_length. destruct v; lia. }
    constructor.
    + exact Zh.
    + exact Zrq.
    + exact Zcr.
    + exact Zq.
    + intros b'. apply Bp.
    + intros b'. apply Bp.
    + intros b'. apply Bp.
    + intros b'. apply Bp.
    + exact Cu.
    + exact Lf.
    + change (sorted (mlist s1)). now rewrite El.
    + change (Forall (fun i => i < nxt s) (mlist s1)). now rewrite El.
    + intros x0 j H1 H2 H3. apply L1; auto. rewrite <- El. exact H2.
    + exact L2.
    + exact E1.
    + exact E2.
    + intros a j H1 H2. apply Zsu; auto. rewrite <- El. exact H2.
    + exact L3.
    + exact E3.
  - assert (Hv : match v with VOk => length ids | _ => 0 end = 0) by (destruct v; auto; discriminate).
    destruct (EntOk (log s)) as (E1 & E2 & E3). { rewrite Hv. lia. }
    constructor.
    + exact Zh.
    + exact Zrq.
    + exact Zcr.
    + exact Zq.
    + intros b'. apply Bp.
    + intros b'. apply Bp.
    + intros b'. apply Bp.
    + intros b'. apply Bp.
    + exact Cu.
    + exact Lf.
    + change (sorted (mlist s1)). now rewrite El.
    + change (Forall (fun i => i < nxt s) (mlist s1)). now rewrite El.
    + intros x0 j H1 H2 H3. apply Zlo; auto. rewrite <- El. exact H2.
    + exact Zlf.
    + exact E1.
    + exact E2.
    + intros a j H1 H2. apply Zsu; auto. rewrite <- El. exact H2.
    + exact Zlfr.
    + exact E3.
Qed.

(* ---------------------------------------------------------------- handling the answer, Retry.Max = 0 *)
Lemma resp0_shape s b addw l v base : Z s -> let x := get_bp s b in
  snt x = Some (l, Some (v, base)) -> b < length (bps s) ->
  let s' := bp_resp 0 s b addw in
  exists y, bps s' = upd b (fun _ => y) (bps s) /\ q s' = q s /\ rq s' = [] /\ hwm s' = hwm s /\ crash s' = crash s /\
    nxt s' = nxt s /\ log s' = log s /\ cur s' = cur s /\
    succ s' = (match v with VOk => succ s ++ successes l base | _ => succ s end) /\
    snt y = None /\ inq y = inq x /\ rf y = false /\ (cl x = true -> cl y = true) /\ (ab x = true -> ab y = true) /\
    sub (pre y) (pre x) /\ (cl x = false -> cl y = true -> pre y = []) /\
    (v = VOk -> cl y = cl x /\ (cl x = false -> pre x = l ++ pre y)).
Proof.
  intros I x Es Hb s'. pose proof I as I'. dZ I'. unfold s', bp_resp. fold x. rewrite Es.
  assert (Px : pre x = l ++ buf x ++ wt_items x). { unfold pre, sent_items. now rewrite Es. }
  assert (Rf : rf x = false) by apply Zrf.
  assert (Hw : forall w, wt x = Some w -> cl x = false).
  { intros w Ew. destruct (cl x) eqn:C; auto. exfalso. pose proof (Zcl b C) as P. fold x in P. rewrite Px in P.
    unfold wt_items in P. rewrite Ew in P. destruct l, (buf x); discriminate. }
  change (0 =? 0) with true. cbv iota.
  destruct (wt x) as [w|] eqn:Ew; destruct v; unfold refusing;
    cbn [with_snt with_rf with_cl with_buf with_wt with_ab rf cl wt buf ab snt inq]; rewrite ?Ew, ?Rf; rewrite ?(Hw w eq_refl);
    cbn [orb]; try (destruct addw); lazy beta iota zeta; rewrite ?bounce_0, ?bounce1_0;
    cbn [set_bps set_rq set_succ bps q rq hwm crash nxt log cur succ]; rewrite ?app_nil_r, ?Zrq.
  all: eexists; (split; [reflexivity|]); (split; [reflexivity|]); (split; [reflexivity|]); (split; [reflexivity|]);
       (split; [reflexivity|]); (split; [reflexivity|]); (split; [reflexivity|]); (split; [reflexivity|]); (split; [reflexivity|]);
       (split; [reflexivity|]); (split; [reflexivity|]); (split; [exact Rf|]).
  all: cbn [with_snt with_rf with_cl with_buf with_wt with_ab rf cl wt buf ab snt inq].
  all: repeat split; intros; try discriminate; try congruence; auto.
  all: try (rewrite Px; unfold pre, sent_items, wt_items; cbn [with_snt with_rf with_cl with_buf with_wt with_ab rf cl wt buf ab snt inq];
            rewrite ?Ew; rewrite ?app_nil_r; rewrite <- ?app_assoc; first [reflexivity | apply sub_app_r | (rewrite app_assoc; apply sub_app_r) | apply sub_nil_l]).
  all: try (exact (Hw _ eq_refl)).
  all: try (exfalso; match goal with H : cl _ = true |- _ => rewrite (Hw _ eq_refl) in H; discriminate end).
  all: try (unfold pre, sent_items, wt_items; cbn [with_snt with_rf with_cl with_buf with_wt with_ab rf cl wt buf ab snt inq]; rewrite ?Ew; reflexivity).
  all: try (match goal with H : cl _ = true |- _ => pose proof (Zcl b H) as P0; rewrite Px in P0; apply app_eq_nil in P0 as [_ P0];
            unfold pre, sent_items, wt_items in *; cbn [with_snt with_rf with_cl with_buf with_wt with_ab rf cl wt buf ab snt inq]; rewrite ?Ew in *; exact P0 end).
Qed.

Lemma Z_resp s b addw : Z s -> quiet s -> quiet (bp_resp 0 s b addw) -> Z (bp_resp 0 s b addw).
Proof.
  intros I Q Q'. set (x := get_bp s b). destruct (snt x) as [[l [[v base]|]]|] eqn:Es.
  2,3: unfold bp_resp; fold x; rewrite Es; exact I.
  destruct (Nat.lt_ge_cases b (length (bps s))) as [Hb|Hb].
  2:{ unfold x in Es. rewrite get_bp_default in Es by auto. discriminate. }
  destruct (resp0_shape s b addw l v base I Es Hb) as (y & Eb & Eq & Erq & Eh & Ecr & En & Elg & Ec & Esu & Sy & Ei & Ry & Cm & Am & Sp & Cp & Hok).
  fold x in Ei, Cm, Am, Sp, Cp, Hok.
  set (s' := bp_resp 0 s b addw) in *. pose proof I as I'. dZ I'.
  destruct (Z_bp s I b) as (Xd & Xp & Xr & Xc). fold x in Xd, Xp, Xr, Xc.
  assert (Gy : get_bp s' b = y) by (unfold get_bp; rewrite Eb; now apply nth_upd_same).
  assert (G : forall b', b' <> b -> get_bp s' b' = get_bp s b') by (intros b' N; unfold get_bp; rewrite Eb; apply nth_upd_other; congruence).
  assert (Len : length (bps s') = length (bps s)) by (rewrite Eb; apply length_upd).
  assert (Shy : sub (held y) (held x)) by (unfold held; rewrite Ei; apply sub_app; [exact Sp|apply sub_refl]).
  assert (Py : pending_ok y = []) by (unfold pending_ok; now rewrite Sy).
  assert (Pxv : pending_ok x = match v with VOk => successes l base | _ => [] end).
  { unfold pending_ok. rewrite Es. now destruct v. }
  assert (Bp : forall b', dat0 (held (get_bp s' b')) /\ nomark (pre (get_bp s' b')) /\ rf (get_bp s' b') = false /\
             (cl (get_bp s' b') = true -> pre (get_bp s' b') = [])).
  { intros b'. destruct (Nat.eq_dec b' b) as [->|N]; [rewrite Gy|rewrite G by auto; apply (Z_bp s I)].
    split; [unfold dat0; eapply Forall_sub; eauto|split; [unfold nomark; eapply Forall_sub; eauto|split; auto]].
    intros Cy. destruct (cl x) eqn:Cx; [|auto]. rewrite Xc in Sp by auto. now apply sub_nil_inv in Sp. }
  assert (Cu : forall b', cur s' = Some b' -> b' < length (bps s')) by (intros b'; rewrite Ec, Len; apply Zcur).
  assert (Lf : forall b', b' < length (bps s') -> cur s' <> Some b' -> ab (get_bp s' b') = true).
  { intros b'. rewrite Ec, Len. intros H1 H2. destruct (Nat.eq_dec b' b) as [->|N]; [rewrite Gy; apply Am; now apply Zleft|rewrite G by auto; now apply Zleft]. }
  assert (Sm : sub (mlist s') (mlist s)).
  { unfold mlist. rewrite Eq. apply sub_app; [|apply sub_refl]. unfold cpart. rewrite Ec. destruct (cur s) as [c|]; [|apply sub_refl].
    destruct (Nat.eq_dec c b) as [->|N]; [rewrite Gy|rewrite G by auto; apply sub_refl]. fold x.
    destruct (cl x) eqn:Cx; [rewrite Cm by auto; apply sub_refl|]. destruct (cl y); [apply sub_nil_l|now apply sub_data_ids]. }
  assert (NotOk : v <> VOk -> Z s').
  { intros Nv. assert (Es' : succ s' = succ s) by (rewrite Esu; destruct v; congruence).
    apply (Z_sub s s' I); [congruence|exact Erq|congruence|exact En|exact Elg|exact Es'| | |exact Bp|exact Cu|exact Lf|exact Sm].
    - apply (entries_bps s s' b y); auto. fold x. rewrite Py, Pxv. destruct v; congruence.
    - now rewrite Eq. }
  destruct v; try (apply NotOk; discriminate).
  destruct (Hok eq_refl) as (Ecl & Ep).
  assert (Ee : entries s' = entries s).
  { destruct (successes l base) as [|e0 er] eqn:Esc.
    - rewrite app_nil_r in Esu. apply (entries_bps s s' b y); auto. fold x. now rewrite Py, Pxv.
    - destruct (pending_holder s b I Q) as [Ecur _]. { fold x. rewrite Pxv. discriminate. }
      assert (Z1 : entries s = succ s ++ pending_ok x).
      { rewrite (Z_entries_cur s I Q). unfold cur_bp. now rewrite Ecur. }
      assert (Z2 : entries s' = succ s').
      { unfold entries. assert (F : flat_map pending_ok (bps s') = []); [|now rewrite F, app_nil_r].
        apply (flat_map_nil_nth pending_ok bpw0); auto.
        intros i. fold (get_bp s' i). destruct (Nat.eq_dec i b) as [->|N]; [now rewrite Gy|]. rewrite G by auto.
        destruct (pending_ok (get_bp s i)) eqn:E; auto. exfalso. destruct (pending_holder s i I Q) as [H _]; [rewrite E; discriminate|]. congruence. }
      now rewrite Z1, Z2, Esu, Pxv. }
  constructor.
  - congruence.
  - exact Erq.
  - congruence.
  - now rewrite Eq.
  - intros b'. apply Bp.
  - intros b'. apply Bp.
  - intros b'. apply Bp.
  - intros b'. apply Bp.
  - exact Cu.
  - exact Lf.
  - eapply sorted_sub; eauto.
  - rewrite En. eapply Forall_sub; eauto.
  - rewrite Elg. intros x0 j H1 H2. apply Zlo; auto. eapply sub_in; eauto.
  - now rewrite Elg.
  - now rewrite Ee.
  - now rewrite Ee, Elg.
  - rewrite Esu. intros a j Ha Hj. apply in_app_or in Ha as [Ha|Ha]; [apply Zsu; auto; eapply sub_in; eauto|].
    assert (Hf : In (fst a) (data_ids l)). { rewrite <- (successes_fst l base). now apply in_map. }
    destruct (sent_holder s b I Q) as [Ecur Cx]. { fold x. unfold sent_items. rewrite Es. intros E. rewrite E in Hf. destruct Hf. }
    fold x in Cx.
    assert (L1 : mlist s = data_ids l ++ mlist s').
    { unfold mlist. rewrite Eq, app_assoc. f_equal. unfold cpart. rewrite Ec, Ecur, Gy. fold x. rewrite Ecl, Cx.
      unfold held. rewrite (Ep Cx), Ei, <- app_assoc, data_ids_app. reflexivity. }
    rewrite L1 in Zso. apply sorted_app in Zso as (_ & _ & C). now apply C.
  - rewrite Elg, En. exact Zlfr.
  - rewrite Ee, En. exact Zefr.
Qed.

(* ---------------------------------------------------------------- the partition worker, Retry.Max = 0 *)
Lemma entries_same_snt s s' : succ s' = succ s -> (forall b, pending_ok (get_bp s' b) = pending_ok (get_bp s b)) ->
  entries s' = entries s.
Proof. intros E H. unfold entries. rewrite E. f_equal. apply (flat_map_nth_ext pending_ok bpw0); auto. Qed.

(* the partition worker has no usable worker: every existing one is abandoned and holds nothing it will send *)
Lemma Z_fresh s t lk i rest : Z s -> q s = Data i 0 :: rest -> cpart s = [] ->
  (forall b', b' < length (bps s) -> ab (get_bp s b') = true) ->
  q t = q s -> rq t = rq s -> hwm t = hwm s -> lv t = lv s -> bps t = bps s -> log t = log s -> succ t = succ s ->
  nxt t = nxt s -> crash t = crash s -> cur t = None ->
  Z (fwd_head t lk).
Proof.
  intros I Eq Cp AllAb T1 T2 T3 T4 T5 T6 T7 T8 T9 Tc. pose proof I as I'. dZ I'.
  assert (Hr : Forall (fun m => exists i, m = Data i 0) rest). { rewrite Eq in Zq. now inversion Zq. }
  assert (Ml : mlist s = i :: data_ids rest) by (unfold mlist; now rewrite Eq, Cp).
  assert (Gt : forall b, get_bp t b = get_bp s b) by (intros b; unfold get_bp; now rewrite T5).
  unfold fwd_head. rewrite T1, Eq.
  assert (Drop : Z (pop t)).
  { apply (Z_sub s (pop t) I); [simpl; congruence|simpl; congruence|simpl; congruence|simpl; congruence|simpl; congruence|simpl; congruence| | | | | |].
    - apply entries_same_snt; simpl; auto. intros b. change (get_bp (pop t) b) with (get_bp t b). now rewrite (Gt b).
    - simpl. now rewrite T1, Eq.
    - intros b. change (get_bp (pop t) b) with (get_bp t b). rewrite Gt. apply (Z_bp s I).
    - simpl. rewrite Tc. discriminate.
    - intros b. change (get_bp (pop t) b) with (get_bp t b). simpl. rewrite Gt, T5. intros H _. now apply AllAb.
    - rewrite Ml. unfold mlist, cpart. simpl. rewrite Tc, T1, Eq. simpl. apply sub_skip, sub_refl. }
  destruct lk as [|[b0|] lk'].
  - unfold ensure_bp. rewrite Tc. exact Drop.
  - rewrite (ensure_bp_pick t b0 lk' Tc).
    assert (Pk : pick t b0 = (set_bps t (bps t ++ [bpw0]), length (bps t))).
    { unfold pick. destruct (Nat.ltb_spec b0 (length (bps t))) as [H|H]; auto. rewrite Gt, AllAb by (rewrite <- T5; auto). reflexivity. }
    rewrite Pk. set (n := length (bps t)). set (t2 := set_cur (push_inq (set_bps t (bps t ++ [bpw0])) n [Syn]) (Some n)).
    unfold send_cur. change (cur t2) with (Some n). set (s' := pop (push_inq t2 n [Data i 0])).
    assert (Gs : forall b, get_bp s' b = if b =? n then with_inq bpw0 [Syn; Data i 0] else get_bp s b).
    { intros b. change (get_bp s' b) with (get_bp (push_inq t2 n [Data i 0]) b). rewrite get_bp_push.
      assert (Ln : (n <? length (bps t2)) = true).
      { apply Nat.ltb_lt. unfold t2, push_inq. simpl. rewrite length_upd, app_length. simpl. unfold n. lia. }
      rewrite Ln, andb_true_r.
      assert (G2 : forall b, get_bp t2 b = if b =? n then with_inq bpw0 [Syn] else get_bp s b).
      { intros b1. change (get_bp t2 b1) with (get_bp (push_inq (set_bps t (bps t ++ [bpw0])) n [Syn]) b1). rewrite get_bp_push.
        assert ((n <? length (bps (set_bps t (bps t ++ [bpw0])))) = true) as -> by (apply Nat.ltb_lt; simpl; rewrite app_length; simpl; unfold n; lia).
        rewrite andb_true_r. assert (G3 : forall b2, get_bp (set_bps t (bps t ++ [bpw0])) b2 = get_bp s b2).
        { intros b2. unfold get_bp. simpl. rewrite T5. destruct (Nat.eq_dec b2 (length (bps s))) as [->|N].
          - rewrite nth_app_new. now rewrite nth_overflow.
          - now apply nth_app_old. }
        rewrite !G3. destruct (b1 =? n) eqn:E; auto. assert (get_bp s n = bpw0) as ->; auto.
        apply get_bp_default. unfold n. now rewrite T5. }
      rewrite !G2. rewrite Nat.eqb_refl. destruct (b =? n); reflexivity. }
    assert (Len : length (bps s') = S (length (bps s))).
    { unfold s', t2, push_inq. simpl. rewrite !length_upd, app_length, T5. simpl. lia. }
    apply (Z_sub s s' I); [simpl; congruence|simpl; congruence|simpl; congruence|simpl; congruence|simpl; congruence|simpl; congruence| | | | | |].
    + apply entries_same_snt; simpl; auto. intros b. rewrite Gs. destruct (b =? n) eqn:E; auto.
      apply Nat.eqb_eq in E. subst b. rewrite get_bp_default; auto. unfold n. now rewrite T5.
    + unfold s'. simpl. now rewrite T1, Eq.
    + intros b. rewrite Gs. destruct (b =? n); [|apply (Z_bp s I)].
      split; [|split; [|split]]; try reflexivity; try (intros; reflexivity); repeat constructor.
    + intros b E. change (cur s') with (Some n) in E. injection E as <-. rewrite Len. unfold n. rewrite T5. lia.
    + intros b. rewrite Len. change (cur s') with (Some n). intros H1 H2. rewrite Gs.
      destruct (Nat.eqb_spec b n) as [->|N]; [congruence|]. apply AllAb. unfold n in N. rewrite T5 in N. lia.
    + rewrite Ml. unfold mlist, cpart. change (cur s') with (Some n). change (q s') with (tl (q t)). cbv iota beta. rewrite !Gs, Nat.eqb_refl, T1, Eq. simpl.
      apply sub_refl.
  - unfold ensure_bp. rewrite Tc. exact Drop.
Qed.

Lemma Z_pp s lk : Z s -> quiet s -> Z (pp_handle 0 s lk).
Proof.
  intros I Q. unfold pp_handle. destruct (q s) as [|m rest] eqn:Eq; auto.
  pose proof I as I'. dZ I'.
  assert (Hm : exists i, m = Data i 0). { rewrite Eq in Zq. now inversion Zq. }
  destruct Hm as (i & ->). simpl retries_of.
  assert (Hr : Forall (fun m => exists i, m = Data i 0) rest). { rewrite Eq in Zq. now inversion Zq. }
  set (s1 := abandon_check s).
  assert (E1 : hwm s1 = 0). { unfold s1, abandon_check. destruct (cur s) as [b|]; auto. destruct (ab (get_bp s b)); auto. }
  rewrite E1. change (0 <? 0) with false. cbv iota.
  assert (Ml : mlist s = cpart s ++ i :: data_ids rest) by (unfold mlist; now rewrite Eq).
  (* case: the current worker is still usable *)
  destruct (cur s) as [b|] eqn:Ec; [destruct (ab (get_bp s b)) eqn:Ab|].
  - (* abandoned: the partition worker lets go of it *)
    assert (Es1 : s1 = set_cur s None) by (unfold s1, abandon_check; now rewrite Ec, Ab).
    assert (Cp : cpart s = []).
    { unfold cpart. rewrite Ec. destruct (cl (get_bp s b)) eqn:C; auto. rewrite data_ids_datas, (Q b Ab C). reflexivity. }
    assert (AllAb : forall b', b' < length (bps s) -> ab (get_bp s b') = true).
    { intros b' H. destruct (Nat.eq_dec b' b) as [->|N]; auto. apply Zleft; auto. congruence. }
    rewrite Es1. apply (Z_fresh s (set_cur s None) lk i rest); auto.
  - (* in use *)
    assert (Es1 : s1 = s) by (unfold s1, abandon_check; now rewrite Ec, Ab).
    rewrite Es1. unfold fwd_head. rewrite Eq, (ensure_bp_some s lk b Ec). unfold send_cur. rewrite Ec.
    assert (Hb : b < length (bps s)) by auto.
    set (x := get_bp s b). set (y := with_inq x (inq x ++ [Data i 0])). set (s' := pop (push_inq s b [Data i 0])).
    assert (Gb : forall b', get_bp s' b' = if b' =? b then y else get_bp s b').
    { intros b'. change (get_bp (push_inq s b [Data i 0]) b' = if b' =? b then y else get_bp s b'). rewrite get_bp_push.
      apply Nat.ltb_lt in Hb. now rewrite Hb, andb_true_r. }
    destruct (Z_bp s I b) as (Xd & Xp & Xr & Xc). fold x in Xd, Xp, Xr, Xc.
    apply (Z_sub s s' I); auto.
    + apply entries_same_snt; auto. intros b'. rewrite Gb. destruct (Nat.eqb_spec b' b) as [->|N]; auto.
    + unfold s'. simpl. now rewrite Eq.
    + intros b'. rewrite Gb. destruct (Nat.eqb_spec b' b) as [->|N]; [|apply (Z_bp s I)].
      split; [|split; [|split]]; auto. unfold held, y. simpl. change (pre (with_inq x (inq x ++ [Data i 0]))) with (pre x).
      rewrite app_assoc. apply dat0_app. split; auto. repeat constructor.
    + intros b'. unfold s'. simpl. unfold push_inq. simpl. rewrite length_upd, Ec. apply Zcur.
    + intros b'. unfold s'. simpl. unfold push_inq at 1. simpl. rewrite length_upd, Ec. intros H1 H2. rewrite Gb.
      destruct (Nat.eqb_spec b' b) as [->|N]; [congruence|now apply Zleft].
    + rewrite Ml. unfold mlist, cpart. change (cur s') with (cur s). change (q s') with (tl (q s)). rewrite Ec, Eq, Gb, Nat.eqb_refl. simpl tl.
      change (cl y) with (cl x). fold x. destruct (cl x).
      * simpl. apply sub_skip, sub_refl.
      * unfold held, y. simpl. change (pre (with_inq x (inq x ++ [Data i 0]))) with (pre x). rewrite app_assoc, data_ids_app. simpl.
        rewrite <- app_assoc. apply sub_refl.
  - assert (Es1 : s1 = s) by (unfold s1, abandon_check; now rewrite Ec).
    rewrite Es1. apply (Z_fresh s s lk i rest); auto.
    + unfold cpart. now rewrite Ec.
    + intros b' H. apply Zleft; auto. discriminate.
Qed.

(* ---------------------------------------------------------------- the theorem *)
Lemma Z_init : Z (init 0).
Proof.
  constructor; unfold mlist, cpart, held, dat0, entries; itriv.
Qed.


Lemma Z_step s c : Z s -> quiet s -> quiet (step 0 s c) -> Z (step 0 s c).
Proof.
  intros I Q Q'. unfold step in *. destruct I as [? ? Cr]; rewrite Cr in *.
  assert (I : Z s) by (constructor; auto).
  destruct c as [| |n|lk|b d|b|b v app|b addw]; unfold raw_step in *.
  - now apply Z_submit.
  - now apply Z_retry.
  - now apply Z_failq.
  - now apply Z_pp.
  - now apply Z_recv.
  - now apply Z_flush.
  - now apply Z_answer.
  - now apply Z_resp.
Qed.

Definition runfrom (s : st) (sched : list choice) : st := fold_left (step 0) sched s.

Lemma Z_runfrom sched : forall s, Z s -> (forall k, quiet (runfrom s (firstn k sched))) -> Z (runfrom s sched).
Proof.
  induction sched as [|c sched IH]; intros s I H; simpl; auto.
  apply IH.
  - apply Z_step; auto; [exact (H 0)|exact (H 1)].
  - intros k. exact (H (S k)).
Qed.

Lemma ssorted_pair_order0 (l : list (nat * nat)) :
  StronglySorted (fun a b => fst a < fst b /\ snd a < snd b) l ->
  forall a b, In a l -> In b l -> fst a < fst b -> snd a < snd b.
Proof.
  induction 1 as [|x l S IH F]; intros a b Ha Hb Hlt; [destruct Ha|].
  rewrite Forall_forall in F. destruct Ha as [<-|Ha], Hb as [<-|Hb].
  - lia.
  - now apply F.
  - apply F in Ha. lia.
  - now apply IH.
Qed.

Theorem retry0_partial sched : (forall k, quiet (run 0 (firstn k sched))) -> order_ok (run 0 sched) = true.
Proof.
  intros H. pose proof (Z_runfrom sched (init 0) Z_init H) as I. change (runfrom (init 0) sched) with (run 0 sched) in I.
  destruct I. unfold order_ok. rewrite z_log_first0. simpl.
  unfold succ_ordered. apply forallb_forall. intros a Ha. apply forallb_forall. intros b Hb.
  destruct (Nat.ltb_spec (fst a) (fst b)) as [L|L]; simpl; auto. apply Nat.ltb_lt.
  apply (ssorted_pair_order0 _ z_ent_sorted0); auto; unfold entries; apply in_or_app; now left.
Qed.
