(* C02 — layer 4 of the invariant: the cluster log and the success events.  The set answered by the cluster is the
   head of the logical list (Inv3.logical_prefix), so whatever is appended is older than everything still travelling. *)
From Coq Require Import List Arith Bool Lia Sorted.
From SV Require Import C02.Model C02.Defs C02.Lemmas C02.Prims C02.Inv1 C02.Inv2 C02.Inv3.
Import ListNotations.

Ltac dI4 I := destruct I as [Glo Gfi Ges Geb Gso Glf Gef].

(* ---------------------------------------------------------------- first copies *)
Lemma existsb_eqb_in x l : existsb (Nat.eqb x) l = true <-> In x l.
Proof.
  rewrite existsb_exists. split.
  - intros (y & H & E). apply Nat.eqb_eq in E. now subst.
  - intros H. exists x. split; auto. apply Nat.eqb_refl.
Qed.

Lemma fa_ext l : forall s1 s2, (forall x, In x s1 <-> In x s2) -> firsts_aux s1 l = firsts_aux s2 l.
Proof.
  induction l as [|x l IH]; intros s1 s2 H; simpl; auto.
  assert (E : existsb (Nat.eqb x) s1 = existsb (Nat.eqb x) s2).
  { destruct (existsb (Nat.eqb x) s1) eqn:E1, (existsb (Nat.eqb x) s2) eqn:E2; auto.
    - apply existsb_eqb_in in E1. apply H in E1. apply existsb_eqb_in in E1. congruence.
    - apply existsb_eqb_in in E2. apply H in E2. apply existsb_eqb_in in E2. congruence. }
  rewrite E. destruct (existsb (Nat.eqb x) s2); [now apply IH|]. f_equal. apply IH. intros y. simpl. rewrite H. tauto.
Qed.

Lemma fa_app a : forall seen b, firsts_aux seen (a ++ b) = firsts_aux seen a ++ firsts_aux (a ++ seen) b.
Proof.
  induction a as [|x a IH]; intros seen b; simpl; auto.
  destruct (existsb (Nat.eqb x) seen) eqn:E.
  - rewrite IH. f_equal. apply fa_ext. intros y. simpl. rewrite !in_app_iff. apply existsb_eqb_in in E.
    split; [tauto|]. intros [->|H]; auto.
  - simpl. f_equal. rewrite IH. f_equal. apply fa_ext. intros y. simpl. rewrite !in_app_iff. simpl. tauto.
Qed.

Lemma fa_in l : forall seen y, In y (firsts_aux seen l) -> In y l /\ ~ In y seen.
Proof.
  induction l as [|x l IH]; intros seen y; simpl; [tauto|].
  destruct (existsb (Nat.eqb x) seen) eqn:E.
  - intros H. apply IH in H. tauto.
  - intros [<-|H].
    + split; auto. intros H. apply existsb_eqb_in in H. congruence.
    + apply IH in H. simpl in H. tauto.
Qed.

Lemma fa_sub l : forall seen, sub (firsts_aux seen l) l.
Proof.
  induction l as [|x l IH]; intros seen; simpl; [constructor|].
  destruct (existsb (Nat.eqb x) seen); [apply sub_skip|apply sub_keep]; auto.
Qed.

Lemma increasing_sorted l : increasing l = true <-> sorted l.
Proof.
  unfold sorted. induction l as [|x l IH]; simpl.
  - split; [constructor|auto].
  - destruct l as [|y l].
    + split; [repeat constructor|auto].
    + rewrite andb_true_iff, IH, Nat.ltb_lt. split.
      * intros [H1 H2]. constructor; auto. inversion H2; subst. constructor; auto.
        eapply Forall_impl; [|exact H4]. simpl. intros; lia.
      * intros H. inversion H; subst. inversion H3; subst. split; auto.
Qed.

(* appending a sorted block whose new elements are above everything already there *)
Lemma first_copies_app lg ids : sorted (first_copies lg) -> sorted ids ->
  (forall x y, In x lg -> In y ids -> ~ In y lg -> x < y) -> sorted (first_copies (lg ++ ids)).
Proof.
  intros S1 S2 H. unfold first_copies. rewrite fa_app. apply sorted_app. repeat split; auto.
  - eapply sorted_sub; [exact S2|apply fa_sub].
  - intros x y Hx Hy. apply fa_in in Hx as [Hx _]. apply fa_in in Hy as [Hy Ny]. rewrite app_nil_r in Ny. auto.
Qed.

(* ---------------------------------------------------------------- success entries *)
Lemma flat_map_nth_ext {A B} (f : A -> list B) d : f d = [] -> forall l' l,
  (forall i, f (nth i l' d) = f (nth i l d)) -> flat_map f l' = flat_map f l.
Proof.
  intros Hd. induction l' as [|x l' IH]; intros l H.
  - simpl. symmetry. apply (flat_map_nil_nth f d); auto. intros i. rewrite <- H. now destruct i.
  - destruct l as [|y l].
    + apply (flat_map_nil_nth f d); auto. intros i. rewrite H. now destruct i.
    + simpl. pose proof (H 0) as H0. simpl in H0. rewrite H0. f_equal. apply IH. intros i. apply (H (S i)).
Qed.

Lemma pending_ok_snt x y : snt y = snt x -> pending_ok y = pending_ok x.
Proof. unfold pending_ok. now intros ->. Qed.

Lemma entries_ext s s' : succ s' = succ s -> (forall b, snt (get_bp s' b) = snt (get_bp s b)) -> entries s' = entries s.
Proof.
  intros E H. unfold entries. rewrite E. f_equal. apply (flat_map_nth_ext pending_ok bpw0); auto.
  intros i. apply pending_ok_snt. apply H.
Qed.

Lemma successes_fst l : forall base, map fst (successes l base) = data_ids l.
Proof. induction l as [|m l IH]; intros base; simpl; auto. destruct m; simpl; auto. now rewrite IH. Qed.

Lemma data_ids_datas l : data_ids l = map fst (datas l).
Proof. induction l as [|m l IH]; simpl; auto. destruct m; simpl; auto. now rewrite IH. Qed.

(* only the current worker can have an acknowledged set *)
Lemma sent_data_cur mx s b : Inv1 mx s -> Inv2 mx s -> datas (sent_items (get_bp s b)) <> [] ->
  cur s = Some b /\ refusing (get_bp s b) = false.
Proof.
  intros I1 I2 H. dI2 I2. dI1 I1. set (x := get_bp s b) in *.
  assert (R : refusing x = false).
  { destruct (refusing x) eqn:R; auto. exfalso. apply H. pose proof (Hpref b R) as P. fold x in P. unfold pre in P.
    apply app_eq_nil in P as [-> _]. reflexivity. }
  split; auto. apply Kacc. fold x. destruct (acc_doom_healthy x R) as [A _]. rewrite A. unfold pre. rewrite !datas_app.
  destruct (datas (sent_items x)); [now destruct H|discriminate].
Qed.

Lemma pending_cur mx s b : Inv1 mx s -> Inv2 mx s -> pending_ok (get_bp s b) <> [] -> cur s = Some b.
Proof.
  intros I1 I2 H. apply (sent_data_cur mx s b I1 I2). unfold pending_ok, sent_items in *.
  destruct (snt (get_bp s b)) as [[l [[[] base]|]]|]; try (now destruct H).
  intros E. apply H. apply (f_equal (map fst)) in E. rewrite <- data_ids_datas in E. simpl in E.
  rewrite <- (successes_fst l base) in E. destruct (successes l base); auto. discriminate.
Qed.

Lemma entries_cur mx s : Inv1 mx s -> Inv2 mx s -> entries s = succ s ++ pending_ok (cur_bp s).
Proof.
  intros I1 I2. unfold entries. f_equal. unfold cur_bp. destruct (cur s) as [b|] eqn:Ec.
  - apply (flat_map_sole pending_ok bpw0); auto. intros i N. destruct (pending_ok (nth i (bps s) bpw0)) eqn:E; auto.
    exfalso. apply N. assert (cur s = Some i) by (apply (pending_cur mx s i I1 I2); unfold get_bp; rewrite E; discriminate). congruence.
  - apply (flat_map_nil_nth pending_ok bpw0); auto. intros i. destruct (pending_ok (nth i (bps s) bpw0)) eqn:E; auto.
    exfalso. assert (cur s = Some i) by (apply (pending_cur mx s i I1 I2); unfold get_bp; rewrite E; discriminate). congruence.
Qed.

(* ---------------------------------------------------------------- steps that touch neither the log nor the success entries *)
Lemma inv4_sub mx s s' : sub (logical mx s') (logical mx s) -> log s' = log s -> succ s' = succ s ->
  entries s' = entries s -> nxt s' = nxt s -> Inv4 mx s -> Inv4 mx s'.
Proof.
  intros Sl El Es Ee En I. dI4 I. constructor; rewrite ?El, ?Es, ?Ee, ?En; auto.
  - intros x j Hx Hj. apply Glo; auto. eapply sub_in; eauto.
  - intros a j Ha Hj. apply Gso; auto. eapply sub_in; eauto.
Qed.

Lemma inv4_submit mx s : Inv4 mx s -> logical mx (raw_step mx s CSubmit) = logical mx s ++ [nxt s] ->
  Inv4 mx (raw_step mx s CSubmit).
Proof.
  intros I E. dI4 I. simpl in *. constructor; simpl; rewrite ?E; auto.
  - intros x j Hx Hj Nj. apply in_app_or in Hj as [Hj|[<-|[]]]; auto. rewrite Forall_forall in Glf. auto.
  - intros a j Ha Hj. apply in_app_or in Hj as [Hj|[<-|[]]]; auto.
    rewrite Forall_forall in Gef. apply Gef. unfold entries. apply in_or_app. now left.
  - eapply Forall_impl; [|exact Glf]. simpl. intros; lia.
  - eapply Forall_impl; [|exact Gef]. simpl. intros; lia.
Qed.

(* a step with an effect on the logical list only *)
Lemma inv4_eff mx s s' : Eff mx s s' -> log s' = log s -> succ s' = succ s ->
  (forall b, snt (get_bp s' b) = snt (get_bp s b)) -> Inv4 mx s -> Inv4 mx s'.
Proof. intros (E1 & E2 & _) El Es Eb. apply inv4_sub; auto. now apply entries_ext. Qed.

(* ---------------------------------------------------------------- the cluster answers *)
Lemma successes_snd l : forall base a, In a (successes l base) -> base <= snd a < base + length (data_ids l).
Proof.
  induction l as [|m l IH]; intros base a; simpl; [tauto|].
  destruct m as [i r| |]; simpl; try (intros H; apply IH in H; lia).
  intros [<-|H]; simpl; [lia|]. apply IH in H. lia.
Qed.

Definition pairlt (a b : nat * nat) : Prop := fst a < fst b /\ snd a < snd b.

Lemma successes_sorted l : forall base, sorted (data_ids l) -> StronglySorted pairlt (successes l base).
Proof.
  induction l as [|m l IH]; intros base Hs; simpl; [constructor|].
  destruct m as [i r| |]; simpl in *; auto.
  inversion Hs; subst. constructor; auto. rewrite Forall_forall in *. intros a Ha. split; simpl.
  - apply H2. rewrite <- (successes_fst l (S base)). now apply in_map.
  - apply successes_snd in Ha. lia.
Qed.

Lemma ssorted_app {A} (R : A -> A -> Prop) a b : StronglySorted R a -> StronglySorted R b ->
  (forall x y, In x a -> In y b -> R x y) -> StronglySorted R (a ++ b).
Proof.
  induction 1; simpl; intros Sb H1; auto. constructor.
  - apply IHStronglySorted; auto.
  - apply Forall_forall. intros y Hy. apply in_app_or in Hy as [Hy|Hy]; [rewrite Forall_forall in H0; auto|apply H1; auto].
Qed.

Lemma get_bp_snt_put s b y b' : b < length (bps s) ->
  snt (get_bp (put_bp s b y) b') = if b' =? b then snt y else snt (get_bp s b').
Proof. intros Hb. rewrite get_bp_put. apply Nat.ltb_lt in Hb. rewrite Hb, andb_true_r. now destruct (b' =? b). Qed.

Lemma entries_put_pending mx s b y : Inv1 mx s -> Inv2 mx s -> b < length (bps s) ->
  pending_ok (get_bp s b) = [] -> (pending_ok y <> [] -> cur s = Some b) ->
  entries (put_bp s b y) = entries s ++ pending_ok y.
Proof.
  intros I1 I2 Hb P0 Hc. unfold entries. change (succ (put_bp s b y)) with (succ s). rewrite <- app_assoc. f_equal.
  destruct (pending_ok y) eqn:Ey.
  - rewrite app_nil_r. unfold put_bp. simpl. apply (flat_map_upd_same pending_ok (fun _ => y) bpw0).
    fold (get_bp s b). now rewrite Ey, P0.
  - rewrite <- Ey. assert (Ec : cur s = Some b) by (apply Hc; discriminate).
    assert (Oth : forall i, i <> b -> pending_ok (get_bp s i) = []).
    { intros i N. destruct (pending_ok (get_bp s i)) eqn:E; auto. exfalso.
      assert (cur s = Some i) by (apply (pending_cur mx s i I1 I2); rewrite E; discriminate). congruence. }
    rewrite (flat_map_sole pending_ok bpw0 (bps s) b); auto. fold (get_bp s b). rewrite P0. simpl.
    change (upd b (fun _ : bpw => y) (bps s)) with (bps (put_bp s b y)).
    rewrite (flat_map_sole pending_ok bpw0 (bps (put_bp s b y)) b); auto.
    + fold (get_bp (put_bp s b y) b). now rewrite get_bp_put_same.
    + intros i N. fold (get_bp (put_bp s b y) i). rewrite get_bp_put_other by auto. now apply Oth.
Qed.

Lemma inv4_answer mx s b v app : Inv1 mx s -> Inv2 mx s -> Inv3 mx s -> Inv4 mx s -> Inv4 mx (answer s b v app).
Proof.
  intros I1 I2 I3 I4. unfold answer. set (x := get_bp s b).
  destruct (snt x) as [[l [vb|]]|] eqn:Es; auto.
  destruct (Nat.lt_ge_cases b (length (bps s))) as [Hb|Hb].
  2:{ unfold x in Es. rewrite get_bp_default in Es by auto. discriminate. }
  set (base := length (log s)). set (y := with_snt x (Some (l, Some (v, base)))). set (s1 := put_bp s b y).
  dI3 I3. pose proof I4 as I4'. dI4 I4'.
  assert (El : logical mx s1 = logical mx s).
  { apply logical_beq; auto. repeat split; auto. fold x. unfold pre, sent_items, wt_items. simpl. now rewrite Es. }
  assert (Px : pending_ok x = []) by (unfold pending_ok; now rewrite Es).
  assert (Sx : sent_items x = l) by (unfold sent_items; now rewrite Es).
  set (ids := data_ids l).
  (* when the set carries data the worker is the current one and its set heads the logical list *)
  assert (Hd : ids <> [] -> cur s = Some b /\ exists R, logical mx s = ids ++ R).
  { intros Hi. assert (D : datas (sent_items x) <> []).
    { rewrite Sx. intros E. apply Hi. unfold ids. now rewrite data_ids_datas, E. }
    destruct (sent_data_cur mx s b I1 I2 D) as [Ec R]. split; auto.
    rewrite (logical_prefix mx s I1 I2). unfold cur_bp. rewrite Ec. fold x. destruct (acc_doom_healthy x R) as [A _].
    rewrite A. unfold pre. rewrite Sx, <- !app_assoc, datas_app, map_app, <- data_ids_datas. fold ids. rewrite <- app_assoc. eauto. }
  assert (Ee : entries s1 = entries s ++ pending_ok y).
  { apply (entries_put_pending mx); auto. intros H. apply Hd. unfold pending_ok, y in H. simpl in H.
    destruct v; try (now destruct H). intros E. apply H. unfold ids in E.
    rewrite <- (successes_fst l base) in E. destruct (successes l base); auto. discriminate. }
  assert (Sid : sorted ids /\ Forall (fun i => i < nxt s) ids).
  { destruct ids as [|i0 ir] eqn:Ei; [split; constructor|]. destruct Hd as (_ & R & E); [discriminate|].
    rewrite E in Lsorted, Lfresh. apply sorted_app in Lsorted as (S1 & _). apply Forall_app in Lfresh as [F1 _]. auto. }
  destruct Sid as [Sids Fids].
  (* the log part *)
  assert (LogOk : forall lg' : list nat, lg' = log s ++ ids ->
     (forall x0 j, In x0 lg' -> In j (logical mx s) -> ~ In j lg' -> x0 < j) /\
     increasing (first_copies lg') = true /\ Forall (fun x0 => x0 < nxt s) lg').
  { intros lg' ->. repeat split.
    - intros x0 j Hx Hj Nj. apply in_app_or in Hx as [Hx|Hx].
      + apply Glo; auto. intros H. apply Nj. apply in_or_app. now left.
      + destruct Hd as (_ & R & E). { intros E0. rewrite E0 in Hx. destruct Hx. }
        rewrite E in Hj, Lsorted. apply sorted_app in Lsorted as (_ & _ & C). apply in_app_or in Hj as [Hj|Hj]; [|now apply C].
        exfalso. apply Nj. apply in_or_app. now right.
    - apply increasing_sorted. apply first_copies_app; auto.
      + now apply increasing_sorted.
      + intros x0 j Hx Hj Nj. apply Glo; auto. destruct Hd as (_ & R & E). { intros E0. rewrite E0 in Hj. destruct Hj. }
        rewrite E. apply in_or_app. now left.
    - apply Forall_app. split; auto. }
  assert (Pv : pending_ok y = match v with VOk => successes l base | _ => [] end) by (unfold pending_ok, y; simpl; now destruct v).
  (* the entries part, for a log lg' at least as long as the old one *)
  assert (EntOk : forall lg' : list nat, length (log s) + (match v with VOk => length ids | _ => 0 end) <= length lg' ->
     StronglySorted pairlt (entries s1) /\ Forall (fun a => snd a < length lg') (entries s1) /\
     Forall (fun a => fst a < nxt s) (entries s1)).
  { intros lg' Hl. rewrite Ee, Pv. destruct v; rewrite ?app_nil_r; repeat split; auto;
      try (eapply Forall_impl; [|exact Geb]; simpl; intros; lia).
    - apply ssorted_app; auto.
      + apply successes_sorted. exact Sids.
      + intros a n Ha Hn. assert (Hn2 := successes_snd _ _ _ Hn). fold ids in Hn2. split.
        * assert (Hf : In (fst n) ids). { unfold ids. rewrite <- (successes_fst l base). now apply in_map. }
          destruct Hd as (Ec & R & E). { intros E0. rewrite E0 in Hf. destruct Hf. }
          rewrite (entries_cur mx s I1 I2) in Ha. unfold cur_bp in Ha. rewrite Ec in Ha. fold x in Ha. rewrite Px, app_nil_r in Ha.
          apply Gso; auto. rewrite E. apply in_or_app. now left.
        * rewrite Forall_forall in Geb. apply Geb in Ha. unfold base in Hn2. lia.
    - apply Forall_app. split; [eapply Forall_impl; [|exact Geb]; simpl; intros; lia|].
      apply Forall_forall. intros a Ha. apply successes_snd in Ha. fold ids in Ha. unfold base in Ha. lia.
    - apply Forall_app. split; auto. apply Forall_forall. intros a Ha.
      assert (Hf : In (fst a) ids). { unfold ids. rewrite <- (successes_fst l base). now apply in_map. }
      rewrite Forall_forall in Fids. auto. }
  destruct (match v with VOk => true | _ => app end) eqn:Eapp.
  - (* the records are appended *)
    destruct (LogOk (log s ++ ids) eq_refl) as (L1 & L2 & L3).
    destruct (EntOk (log s ++ ids)) as (E1 & E2 & E3). { rewrite app_length. destruct v; lia. }
    set (s2 := set_log s1 (log s ++ data_ids l)).
    assert (El2 : logical mx s2 = logical mx s) by exact El.
    constructor.
    + intros x0 j H1 H2 H3. apply L1; auto. rewrite <- El. exact H2.
    + exact L2.
    + exact E1.
    + exact E2.
    + intros a j H1 H2. apply Gso; auto. rewrite <- El. exact H2.
    + exact L3.
    + exact E3.
  - assert (Hv : match v with VOk => length ids | _ => 0 end = 0) by (destruct v; auto; discriminate).
    destruct (EntOk (log s)) as (E1 & E2 & E3). { rewrite Hv. lia. }
    constructor.
    + intros x0 j H1 H2 H3. apply Glo; auto. rewrite <- El. exact H2.
    + exact Gfi.
    + exact E1.
    + exact E2.
    + intros a j H1 H2. apply Gso; auto. rewrite <- El. exact H2.
    + exact Glf.
    + exact E3.
Qed.

(* ---------------------------------------------------------------- the worker handles the answer *)
Lemma resp_shape mx s b addw l v base : 1 <= mx -> Inv1 mx s -> let x := get_bp s b in
  snt x = Some (l, Some (v, base)) -> b < length (bps s) ->
  let s' := bp_resp mx s b addw in
  exists y, bps s' = upd b (fun _ => y) (bps s) /\ snt y = None /\
    succ s' = (match v with VOk => succ s ++ successes l base | _ => succ s end) /\ log s' = log s /\ nxt s' = nxt s /\
    (v = VOk -> rq s' = rq s /\ q s' = q s /\ lv s' = lv s /\ cur s' = cur s /\
                inq y = inq x /\ rf y = rf x /\ cl y = cl x /\ (refusing x = false -> pre x = l ++ pre y)).
Proof.
  intros Hmx I1 x Es Hb s'. unfold s', bp_resp. fold x. rewrite Es.
  assert (Emx : (mx =? 0) = false) by (apply Nat.eqb_neq; lia). rewrite Emx.
  assert (Px : pre x = l ++ buf x ++ wt_items x). { unfold pre, sent_items. now rewrite Es. }
  assert (Hw : forall w, wt x = Some w -> rf x || cl x = false).
  { intros w Ew. destruct (rf x || cl x) eqn:R; auto. exfalso. destruct I1. specialize (i_pre_ref b R). fold x in i_pre_ref.
    rewrite Px in i_pre_ref. unfold wt_items in i_pre_ref. rewrite Ew in i_pre_ref. destruct l, (buf x); discriminate. }
  destruct (wt x) as [w|] eqn:Ew; (destruct v; [| |destruct l as [|m0 l]|]); unfold refusing;
    cbn [with_snt with_rf with_cl with_buf with_wt with_ab rf cl wt buf ab snt inq]; rewrite ?Ew; rewrite ?(Hw w eq_refl).
  all: repeat match goal with |- context [if ?c then _ else _] => destruct c eqn:? end.
  all: lazy beta iota zeta; eexists; (split; [reflexivity|]); (split; [reflexivity|]); (split; [reflexivity|]);
       (split; [reflexivity|]); (split; [reflexivity|]); intros Ev; try discriminate.
  all: repeat split; try reflexivity.
  all: intros R; rewrite Px; unfold pre, sent_items, wt_items; cbn [with_snt with_rf with_cl with_buf with_wt with_ab rf cl wt buf ab snt inq];
       rewrite ?Ew; rewrite ?app_nil_r, <- ?app_assoc; try reflexivity.
Qed.

Lemma entries_bps s s' b y : bps s' = upd b (fun _ => y) (bps s) -> succ s' = succ s ->
  pending_ok y = pending_ok (get_bp s b) -> entries s' = entries s.
Proof.
  intros Eb Es Ep. unfold entries. rewrite Es, Eb. f_equal.
  apply (flat_map_upd_same pending_ok (fun _ => y) bpw0). exact Ep.
Qed.

Lemma inv4_resp mx s b addw : 1 <= mx -> Inv1 mx s -> Inv2 mx s -> Inv3 mx s -> Inv4 mx s ->
  Inv1 mx (bp_resp mx s b addw) -> Inv2 mx (bp_resp mx s b addw) -> Inv4 mx (bp_resp mx s b addw).
Proof.
  intros Hmx I1 I2 I3 I4 J1 J2. destruct (resp_eff mx s b addw Hmx I1 I2 I3) as (Sl & En & _).
  set (x := get_bp s b). destruct (snt x) as [[l [[v base]|]]|] eqn:Es.
  2,3: unfold bp_resp; fold x; rewrite Es; exact I4.
  destruct (Nat.lt_ge_cases b (length (bps s))) as [Hb|Hb].
  2:{ unfold x in Es. rewrite get_bp_default in Es by auto. discriminate. }
  destruct (resp_shape mx s b addw l v base Hmx I1 Es Hb) as (y & Eb & Sy & Esu & Elg & _ & Hok).
  set (s' := bp_resp mx s b addw) in *. pose proof I4 as I4'. dI4 I4'. dI3 I3.
  assert (Py : pending_ok y = []) by (unfold pending_ok; now rewrite Sy).
  assert (Pxv : pending_ok x = match v with VOk => successes l base | _ => [] end).
  { unfold pending_ok. rewrite Es. now destruct v. }
  assert (NotOk : v <> VOk -> Inv4 mx s').
  { intros Nv. assert (Es' : succ s' = succ s) by (rewrite Esu; destruct v; congruence).
    apply inv4_sub with (s := s); auto. apply (entries_bps s s' b y); auto. fold x. rewrite Py, Pxv. destruct v; congruence. }
  destruct v; try (apply NotOk; discriminate).
  destruct (Hok eq_refl) as (Erq & Eq & Elv & Ec & Ei & Erf & Ecl & Ep). fold x in Ei, Erf, Ecl, Ep.
  (* the entries stay the same list *)
  assert (Ee : entries s' = entries s).
  { destruct (successes l base) as [|e0 er] eqn:Esc.
    - rewrite app_nil_r in Esu. apply (entries_bps s s' b y); auto. fold x. now rewrite Py, Pxv.
    - assert (Ecur : cur s = Some b). { apply (pending_cur mx s b I1 I2). fold x. rewrite Pxv. discriminate. }
      rewrite (entries_cur mx s' J1 J2), (entries_cur mx s I1 I2). unfold cur_bp. rewrite Ec, Ecur.
      assert (get_bp s' b = y) as ->. { unfold get_bp. rewrite Eb. now apply nth_upd_same. }
      fold x. rewrite Py, Pxv, Esu, app_nil_r. reflexivity. }
  constructor.
  - rewrite Elg. intros x0 j H1 H2. apply Glo; auto. eapply sub_in; eauto.
  - now rewrite Elg.
  - now rewrite Ee.
  - now rewrite Ee, Elg.
  - rewrite Esu. intros a j Ha Hj. apply in_app_or in Ha as [Ha|Ha]; [apply Gso; auto; eapply sub_in; eauto|].
    (* a freshly delivered message: it headed the logical list *)
    assert (Hf : In (fst a) (data_ids l)). { rewrite <- (successes_fst l base). now apply in_map. }
    assert (D : datas (sent_items x) <> []).
    { unfold sent_items. rewrite Es. intros E. rewrite data_ids_datas, E in Hf. destruct Hf. }
    destruct (sent_data_cur mx s b I1 I2 D) as [Ecur R]. fold x in R.
    assert (Gy : get_bp s' b = y). { unfold get_bp. rewrite Eb. now apply nth_upd_same. }
    assert (Ry : refusing y = false) by (unfold refusing in *; now rewrite Erf, Ecl).
    assert (L1 : logical mx s = data_ids l ++ logical mx s').
    { rewrite (logical_prefix mx s I1 I2), (logical_prefix mx s' J1 J2). unfold cur_bp. rewrite Ec, Ecur, Gy. fold x.
      destruct (acc_doom_healthy x R) as [A _]. destruct (acc_doom_healthy y Ry) as [A' _].
      rewrite A, A', (Ep R), Ei, <- app_assoc, datas_app, map_app, <- data_ids_datas, <- app_assoc. f_equal. f_equal.
      apply levels_down_ext. intros r _. unfold mid, park, upq, dmd. rewrite Elv, Eq, Erq. f_equal. f_equal.
      destruct r as [|r']; auto. unfold all_doom. rewrite Eb, !at_lvl_flat_map.
      symmetry. apply (flat_map_upd_same (fun z => at_lvl r' (doom z)) (fun _ => y) bpw0). fold (get_bp s b). fold x.
      destruct (acc_doom_healthy x R) as [_ ->]. destruct (acc_doom_healthy y Ry) as [_ ->]. reflexivity. }
    rewrite L1 in Lsorted. apply sorted_app in Lsorted as (_ & _ & C). now apply C.
  - rewrite Elg. change (nxt s') with (nxt s'). rewrite En. exact Glf.
  - rewrite Ee, En. exact Gef.
Qed.

(* ---------------------------------------------------------------- the other steps *)
Lemma recv_frame mx s b d : let s' := bp_recv mx s b d in
  log s' = log s /\ succ s' = succ s /\ forall b', snt (get_bp s' b') = snt (get_bp s b').
Proof.
  unfold bp_recv. set (x := get_bp s b). destruct (wt x) eqn:Ew; auto. destruct (inq x) as [|m rest] eqn:Ei; auto.
  destruct (Nat.lt_ge_cases b (length (bps s))) as [Hb|Hb].
  2:{ unfold x in Ei. rewrite get_bp_default in Ei by auto. discriminate. }
  assert (G : forall s1 y, bps s1 = bps s -> snt y = snt x -> forall b', snt (get_bp (put_bp s1 b y) b') = snt (get_bp s b')).
  { intros s1 y E1 E2 b'. rewrite get_bp_snt_put by (rewrite E1; auto). destruct (Nat.eqb_spec b' b) as [->|N]; auto.
    unfold get_bp. now rewrite E1. }
  cbv zeta. destruct m as [i r|r|]; try (destruct (refusing x)); simpl is_fin; cbv iota; try (destruct d as [|[|d]]);
    (split; [reflexivity|split; [reflexivity|]]).
  all: match goal with |- forall b', snt (get_bp (set_bps ?S (upd _ (fun _ => ?Y) _)) b') = _ => apply (G S Y) end; try reflexivity.
  all: try (match goal with |- snt (if ?c then _ else _) = _ => destruct c; reflexivity end).
Qed.

Lemma inv4_recv mx s b d : Inv1 mx s -> Inv2 mx s -> Inv3 mx s -> Inv4 mx s -> Inv4 mx (bp_recv mx s b d).
Proof.
  intros I1 I2 I3 I4. destruct (recv_frame mx s b d) as (E1 & E2 & E3).
  eapply inv4_eff; eauto. now apply recv_eff.
Qed.

Lemma inv4_flush mx s b : Inv3 mx s -> Inv4 mx s -> Inv4 mx (bp_flush s b).
Proof.
  intros I3 I4. pose proof (flush_eff mx s b I3) as (Sl & En & _). unfold bp_flush in *. set (x := get_bp s b) in *.
  destruct (snt x) eqn:Es; auto. destruct (Nat.ltb_spec b (length (bps s))) as [Hb|Hb]; auto.
  apply inv4_sub with (s := s); auto.
  match goal with |- entries (set_bps _ (upd _ (fun _ => ?Y) _)) = _ => apply (entries_bps s _ b Y); auto end.
  fold x. unfold pending_ok. simpl. now rewrite Es.
Qed.

Lemma inv4_retry mx s : Inv3 mx s -> Inv4 mx s -> Inv4 mx (raw_step mx s CRetry).
Proof.
  intros I3 I4. pose proof (retry_eff mx s I3) as E. simpl in *. destruct (rq s); auto. eapply inv4_eff; eauto.
Qed.

Lemma inv4_failq mx s n : Inv3 mx s -> Inv4 mx s -> Inv4 mx (raw_step mx s (CFailQ n)).
Proof.
  intros I3 I4. pose proof (failq_eff mx s n I3) as E. simpl in *. destruct (nth_error (q s) n) as [[i r| |]|]; auto.
  eapply inv4_eff; eauto.
Qed.
