(* C02 — why the ordering theorems are stated on the dedicated model C02/Model.v and not on the shared composition
   coq/Producer/Compose.v: that composition keeps the sets handed to the bridge goroutine in an UNBOUNDED queue
   ([i_bridge]) and lets a broker worker flush while a request is in flight.  The real bridge channel and the
   response channel are unbuffered: a broker worker has at most one outstanding set, and per-partition order rests
   on exactly that.  In the composition, a second set can be sent (and acknowledged) while the first one, answered
   with a retriable error, has not been handled yet: the composition is a sound over-approximation for conservation
   (C01) but not for ordering.  Witness below (Retry.Max = 1, non-idempotent, one partition). *)
From Coq Require Import List ZArith Bool.
From SV Require Import Producer.Msg Producer.Actors Producer.Compose.
Import ListNotations.
Open Scope Z_scope.

Definition mk (i : Z) : msg := mkMsg i 0 0 0%nat 0 50 false 0 false 0 0 false [].
Definition cfg1 : cfg := mkCfg 1%nat false true 1000000 104847360 0 0 false 0 [] true true.
Definition notleader : resp := RBlocks [((0, 0), (6, 0))].
Definition okat (o : Z) : resp := RBlocks [((0, 0), (0, o))].
Definition sched_overtake : list choice :=
  [CSubmit (mk 1); CDisp; CTp 0; CPp 0 0 [LOk 1]; CBpRecv 0; CBpRecv 0; CBpFlush 0; CBridge 0;
   CSubmit (mk 2); CDisp; CTp 0; CPp 0 0 []; CBpRecv 0; CBpFlush 0;
   CAnswer 0 notleader; CBridge 0; CAnswer 0 (okat 0); CBpResp 0; CBpResp 0].

(* message 2 is acknowledged at offset 0 while message 1, submitted earlier, is on its way back for a retry *)
Lemma compose_bridge_queue_reorders :
  let s := run cfg1 sched_overtake in
  g_panic s = None /\
  map (fun e => match e with Ev ok m x => (ok, m_id m, x) end) (g_events s) = [(true, 2, 0)] /\
  map (fun m => (m_id m, m_retries m)) (q_get DRetry (g_q s)) = [(1, 1%nat)].
Proof. vm_compute. repeat split. Qed.
