(* Generic helper for the correspondence checks: indices of the cases a boolean test rejects. *)
From Coq Require Import List Arith ZArith Bool.
Import ListNotations.

Fixpoint mismatches_from {A : Type} (ok : A -> bool) (i : nat) (l : list A) : list nat :=
  match l with
  | [] => []
  | x :: r => if ok x then mismatches_from ok (S i) r else i :: mismatches_from ok (S i) r
  end.

Definition mismatches {A : Type} (ok : A -> bool) (l : list A) : list nat := mismatches_from ok 0 l.

Fixpoint list_eqb {A : Type} (eqb : A -> A -> bool) (a b : list A) : bool :=
  match a, b with
  | [], [] => true
  | x :: a', y :: b' => eqb x y && list_eqb eqb a' b'
  | _, _ => false
  end.

Definition option_eqb {A : Type} (eqb : A -> A -> bool) (a b : option A) : bool :=
  match a, b with
  | None, None => true
  | Some x, Some y => eqb x y
  | _, _ => false
  end.

Definition pair_eqb {A B : Type} (ea : A -> A -> bool) (eb : B -> B -> bool) (a b : A * B) : bool :=
  ea (fst a) (fst b) && eb (snd a) (snd b).

Lemma list_eqb_eq {A} (eqb : A -> A -> bool) :
  (forall x y, eqb x y = true <-> x = y) -> forall a b, list_eqb eqb a b = true <-> a = b.
Proof.
  intros H a; induction a as [|x a IH]; intros [|y b]; simpl; split; intro E; try reflexivity; try discriminate.
  - apply andb_true_iff in E as [E1 E2]. apply H in E1. apply IH in E2. now subst.
  - injection E as -> ->. apply andb_true_iff; split; [now apply H | now apply IH].
Qed.
