(* C17 — proofs about the partitioner / routing model. *)
From Coq Require Import List ZArith Bool Lia Permutation.
From SV Require Import C17.Model.
Import ListNotations.
Open Scope Z_scope.

Ltac Zify.zify_post_hook ::= Z.to_euclidean_division_equations.

(* ================================================================ arithmetic *)
Lemma wrap32_range : forall z, -2147483648 <= wrap32 z <= 2147483647.
Proof. intro z. unfold wrap32. lia. Qed.

Lemma wrap32_id : forall z, -2147483648 <= z <= 2147483647 -> wrap32 z = z.
Proof. intros z H. unfold wrap32. lia. Qed.

Lemma land_low31 : forall a, Z.land a 2147483647 = a mod 2147483648.
Proof. intro a. change 2147483647 with (Z.ones 31). rewrite Z.land_ones by lia. reflexivity. Qed.

(* a Sum32() value *)
Definition is_u32 (h : Z) : Prop := 0 <= h < 4294967296.

(* Utils.toPositive(int) of the Java client on the int with the same 32 bits: number & 0x7fffffff *)
Definition java_to_positive (h : Z) : Z := h mod 2147483648.

Lemma hash_choice_range : forall ra h n, 1 <= n <= 2147483647 -> 0 <= hash_choice ra h n < n.
Proof.
  intros ra h n Hn. unfold hash_choice. destruct ra.
  - rewrite land_low31.
    assert (H0 : 0 <= wrap32 h mod 2147483648) by lia.
    rewrite Z.rem_mod_nonneg by lia. lia.
  - pose proof (wrap32_range h) as Hw.
    cbv zeta. destruct (Z.rem (wrap32 h) n <? 0) eqn:E.
    + apply Z.ltb_lt in E. rewrite wrap32_id by lia. lia.
    + apply Z.ltb_ge in E. lia.
Qed.

Lemma hash_choice_reference : forall h n, is_u32 h -> 1 <= n ->
  hash_choice true h n = java_to_positive h mod n.
Proof.
  intros h n Hh Hn. unfold hash_choice, java_to_positive. rewrite land_low31.
  assert (E : wrap32 h mod 2147483648 = h mod 2147483648) by (unfold wrap32, is_u32 in *; lia).
  rewrite E. apply Z.rem_mod_nonneg; lia.
Qed.

(* the two sign treatments differ exactly on negative int32 hashes (shown on the minimum integer) *)
Example hash_choice_min_int : hash_choice false 2147483648 7 = 2 /\ hash_choice true 2147483648 7 = 0.
Proof. split; reflexivity. Qed.

(* ================================================================ well-formed (constructor-built) hash partitioners *)
Definition hash_ok (hf : hashfn) : Prop := forall b h, hf b = HSum h -> is_u32 h.

Fixpoint wf_hashp (p : hashp) : Prop :=
  match p with
  | HashP fb hf _ =>
    hash_ok hf /\ match fb with
                  | FbRandom => True
                  | FbHash q => wf_hashp q
                  | FbSelf => False
                  | FbNil => False
                  end
  end.

(* what a caller may pass to the options *)
Definition opt_wf (o : hoption) : Prop :=
  match o with
  | OAbsFirst => True
  | OHashFn g => hash_ok g
  | OFallback (Some q) => wf_hashp q
  | OFallback None => False        (* a nil *hashPartitioner: panics on keyless messages *)
  end.

Lemma u32_range : forall z, is_u32 (u32 z).
Proof. intro z. unfold is_u32, u32. lia. Qed.

Lemma fnv1a_u32 : forall bs h, is_u32 h -> is_u32 (fold_left fnv1a_step bs h).
Proof.
  induction bs as [|b bs IH]; intros h Hh; simpl; [exact Hh|].
  apply IH. unfold fnv1a_step. apply u32_range.
Qed.

Lemma fnv_hasher_ok : hash_ok fnv_hasher.
Proof.
  intros b h E. unfold fnv_hasher in E. injection E as <-. unfold fnv1a32.
  apply fnv1a_u32. unfold is_u32, fnv_offset32. lia.
Qed.

Lemma wf_new_hash : wf_hashp new_hash.
Proof. split; [exact fnv_hasher_ok | exact I]. Qed.
Lemma wf_new_reference_hash : wf_hashp new_reference_hash.
Proof. split; [exact fnv_hasher_ok | exact I]. Qed.
Lemma wf_new_custom_hash : forall hf, hash_ok hf -> wf_hashp (new_custom_hash hf).
Proof. intros hf H. split; [exact H | exact I]. Qed.

Lemma wf_apply_option : forall o p, opt_wf o -> wf_hashp p -> wf_hashp (apply_option o p).
Proof.
  intros o [fb hf ra] Ho [Hh Hf]. destruct o as [| g | [q|]]; simpl in *.
  - split; assumption.
  - split; assumption.
  - split; assumption.
  - contradiction.
Qed.

Lemma wf_fold_options : forall opts p, Forall opt_wf opts -> wf_hashp p ->
  wf_hashp (fold_left (fun p o => apply_option o p) opts p).
Proof.
  induction opts as [|o opts IH]; intros p HF Hp; simpl; [exact Hp|].
  inversion HF as [|? ? Ho HF']; subst. apply IH; [exact HF'|]. apply wf_apply_option; assumption.
Qed.

Lemma wf_new_custom : forall opts, Forall opt_wf opts -> wf_hashp (new_custom opts).
Proof. intros opts H. unfold new_custom, new_custom_with. apply wf_fold_options; [exact H | exact wf_new_hash]. Qed.

Lemma constructors_wf :
  wf_hashp new_hash /\ wf_hashp new_reference_hash /\
  (forall hf, hash_ok hf -> wf_hashp (new_custom_hash hf)) /\
  (forall opts, Forall opt_wf opts -> wf_hashp (new_custom opts)).
Proof.
  split; [exact wf_new_hash|]. split; [exact wf_new_reference_hash|].
  split; [exact wf_new_custom_hash | exact wf_new_custom].
Qed.

(* ================================================================ range *)
(* the outcomes allowed for a built-in partitioner: a choice in range, or the error of the key encoder / hasher *)
Definition key_or_hasher_error (m : msg) (e : Z) : Prop :=
  m_key m = KEncErr e \/ exists b, m_key m = KBytes b.

Definition in_range_outcome (m : msg) (n : Z) (o : pout) : Prop :=
  match o with
  | Chose x => 0 <= x < n
  | Fail e => key_or_hasher_error m e
  | Panic => False
  | Diverge => False
  end.

Lemma hash_partition_range : forall p m n r, wf_hashp p -> 1 <= n <= 2147483647 -> 0 <= r < n ->
  in_range_outcome m n (hash_partition p m n r).
Proof.
  fix IH 1. intros [fb hf ra] m n r [Hh Hf] Hn Hr. simpl.
  destruct (m_key m) as [|b|e] eqn:Ek.
  - destruct fb as [|q| |]; try contradiction.
    + unfold random_partition. destruct (n <=? 0) eqn:E; [apply Z.leb_le in E; lia|]. simpl. exact Hr.
    + (* the fallback sees the same keyless message *)
      exact (IH q m n r Hf Hn Hr).
  - destruct (hf b) as [h|e] eqn:Eh.
    + destruct (n =? 0) eqn:E; [apply Z.eqb_eq in E; lia|]. simpl. apply hash_choice_range. exact Hn.
    + simpl. right. exists b. exact Ek.
  - simpl. left. exact Ek.
Qed.

Definition cursor_ok (c : Z) : Prop := 0 <= c <= 2147483647.

Definition builtin_ok (p : partitioner) : Prop :=
  match p with
  | PRandom => True
  | PRoundRobin c => cursor_ok c
  | PHash h => wf_hashp h
  | PManual => False       (* manual returns the caller's number: see [manual_returns_own] *)
  | PCustom _ _ _ => False (* user code *)
  end.

Lemma rr_partition_range : forall c n, cursor_ok c -> 1 <= n <= 2147483647 ->
  0 <= fst (rr_partition c n) < n /\ cursor_ok (snd (rr_partition c n)).
Proof.
  intros c n Hc Hn. unfold rr_partition, cursor_ok in *. destruct (c >=? n) eqn:E; simpl.
  - split; [lia|]. rewrite wrap32_id; lia.
  - assert (c < n) by (destruct (Z.geb_spec c n); [discriminate | lia]).
    split; [lia|]. rewrite wrap32_id; lia.
Qed.

(* the cursor invariant holds for every int32 partition count, also n <= 0 *)
Lemma rr_cursor_invariant : forall c n, cursor_ok c -> -2147483648 <= n <= 2147483647 ->
  cursor_ok (snd (rr_partition c n)).
Proof.
  intros c n Hc Hn. unfold rr_partition, cursor_ok in *. destruct (c >=? n) eqn:E; simpl.
  - rewrite wrap32_id; lia.
  - assert (c < n) by (destruct (Z.geb_spec c n); [discriminate | lia]). rewrite wrap32_id; lia.
Qed.

Theorem range : forall p m n r, builtin_ok p -> 1 <= n <= 2147483647 -> 0 <= r < n ->
  in_range_outcome m n (fst (partition p m n r)) /\ builtin_ok (snd (partition p m n r)).
Proof.
  intros p m n r Hp Hn Hr. destruct p as [| |c|h|rc dyn o]; try contradiction.
  - simpl. split; [|exact I]. unfold random_partition. destruct (n <=? 0) eqn:E; [apply Z.leb_le in E; lia|]. simpl. exact Hr.
  - pose proof (rr_partition_range c n Hp Hn) as [H1 H2].
    unfold partition. destruct (rr_partition c n) as [x c'] eqn:E. cbn [fst snd builtin_ok in_range_outcome] in *.
    split; [exact H1 | exact H2].
  - simpl. split; [|exact Hp]. apply hash_partition_range; assumption.
Qed.

(* the minimum-integer hash, explicitly *)
Lemma range_min_int_hash : forall ra n, 1 <= n <= 2147483647 -> 0 <= hash_choice ra 2147483648 n < n.
Proof. intros. apply hash_choice_range. assumption. Qed.

Example range_nontrivial :
  builtin_ok (PHash (new_custom [OAbsFirst; OFallback (Some new_reference_hash)])) /\
  fst (partition (PHash new_hash) {| m_key := KBytes [97]; m_partition := 0 |} 7 0) = Chose 6.
Proof.
  split.
  - apply wf_new_custom. constructor; [exact I|]. constructor; [exact wf_new_reference_hash|]. constructor.
  - vm_compute. reflexivity.
Qed.

(* ================================================================ consistency *)
Theorem consistent : forall p m1 m2 n r1 r2, m_key m1 = m_key m2 -> m_key m1 <> KNil ->
  partition (PHash p) m1 n r1 = partition (PHash p) m2 n r2.
Proof.
  intros [fb hf ra] m1 m2 n r1 r2 E Hk. simpl. f_equal. rewrite <- E.
  destruct (m_key m1); [contradiction | reflexivity | reflexivity].
Qed.

Example consistent_nontrivial :
  partition (PHash new_hash) {| m_key := KBytes [1;2;3]; m_partition := 4 |} 100 17
  = partition (PHash new_hash) {| m_key := KBytes [1;2;3]; m_partition := 9 |} 100 55.
Proof. apply consistent; simpl; [reflexivity | discriminate]. Qed.

(* ================================================================ reference = Java *)
Theorem reference_is_java : forall fb hf b h n m r, hash_ok hf -> 1 <= n -> m_key m = KBytes b -> hf b = HSum h ->
  fst (partition (PHash (HashP fb hf true)) m n r) = Chose (java_to_positive h mod n).
Proof.
  intros fb hf b h n m r Hok Hn Ek Eh. cbn [partition fst hash_partition]. rewrite Ek, Eh.
  destruct (n =? 0) eqn:E; [apply Z.eqb_eq in E; lia|].
  rewrite hash_choice_reference; [reflexivity | exact (Hok b h Eh) | exact Hn].
Qed.

(* which constructors give the reference variant *)
Lemma reference_constructors :
  new_reference_hash = HashP FbRandom fnv_hasher true /\
  new_custom [OAbsFirst] = HashP FbRandom fnv_hasher true.
Proof. split; reflexivity. Qed.

Example reference_is_java_nontrivial :
  fst (partition (PHash new_reference_hash) {| m_key := KBytes [107;101;121]; m_partition := 0 |} 7 0)
  = Chose (java_to_positive (fnv1a32 [107;101;121]) mod 7).
Proof. vm_compute. reflexivity. Qed.

(* ================================================================ manual *)
Theorem manual_returns_own : forall m n r, partition PManual m n r = (Chose (m_partition m), PManual).
Proof. reflexivity. Qed.

(* ================================================================ round robin *)
Fixpoint rr_spec (s n : Z) (k : nat) : list Z :=
  match k with O => [] | S k' => s mod n :: rr_spec (s + 1) n k' end.

Definition rr_norm (c n : Z) : Z := if c >=? n then 0 else c.

Lemma rr_spec_congr : forall k s s' n, s mod n = s' mod n -> rr_spec s n k = rr_spec s' n k.
Proof.
  induction k as [|k IH]; intros s s' n E; simpl; [reflexivity|].
  rewrite E. f_equal. apply IH.
  rewrite (Zplus_mod s 1 n), (Zplus_mod s' 1 n), E. reflexivity.
Qed.

Lemma rr_run_spec : forall k c n, cursor_ok c -> 1 <= n <= 2147483647 ->
  rr_run c n k = rr_spec (rr_norm c n) n k.
Proof.
  induction k as [|k IH]; intros c n Hc Hn; simpl; [reflexivity|].
  pose proof (rr_partition_range c n Hc Hn) as [H1 H2].
  unfold rr_partition in *. fold (rr_norm c n) in *. simpl in H1, H2.
  set (c0 := rr_norm c n) in *.
  rewrite Z.mod_small by lia. f_equal.
  rewrite IH by assumption.
  apply rr_spec_congr.
  unfold cursor_ok in *. rewrite wrap32_id by lia.
  unfold rr_norm. destruct (c0 + 1 >=? n) eqn:E.
  - assert (c0 + 1 = n) by (destruct (Z.geb_spec (c0 + 1) n); [lia | discriminate]).
    replace (c0 + 1) with n by lia. rewrite Z_mod_same_full. reflexivity.
  - reflexivity.
Qed.

Lemma rr_spec_in : forall k s n x, In x (rr_spec s n k) <-> exists j, 0 <= j < Z.of_nat k /\ x = (s + j) mod n.
Proof.
  induction k as [|k IH]; intros s n x; simpl.
  - split; [contradiction | intros [j [H _]]; lia].
  - rewrite IH. split.
    + intros [E | [j [Hj E]]].
      * exists 0. split; [lia|]. rewrite Z.add_0_r. symmetry. exact E.
      * exists (j + 1). split; [lia|]. rewrite E. f_equal. lia.
    + intros [j [Hj E]]. destruct (Z.eq_dec j 0) as [->|Hne].
      * left. rewrite Z.add_0_r in E. symmetry. exact E.
      * right. exists (j - 1). split; [lia|]. rewrite E. f_equal. lia.
Qed.

Lemma mod_shift_neq : forall s d n, 1 <= n -> 0 < d < n -> (s + d) mod n <> s mod n.
Proof.
  intros s d n Hn Hd E.
  assert (H : ((s + d) - s) mod n = 0).
  { rewrite Zminus_mod, E, Z.sub_diag. apply Z.mod_0_l. lia. }
  replace (s + d - s) with d in H by lia. rewrite Z.mod_small in H; lia.
Qed.

Lemma rr_spec_nodup : forall k s n, 1 <= n -> Z.of_nat k <= n -> NoDup (rr_spec s n k).
Proof.
  induction k as [|k IH]; intros s n Hn Hk; simpl; constructor.
  - rewrite rr_spec_in. intros [j [Hj E]].
    apply (mod_shift_neq s (1 + j) n Hn); [lia|]. rewrite E. f_equal. lia.
  - apply IH; lia.
Qed.

Lemma rr_spec_length : forall k s n, length (rr_spec s n k) = k.
Proof. induction k; intros; simpl; [reflexivity | f_equal; auto]. Qed.

(* any n consecutive calls with a constant count n, from any reachable cursor, hit every partition exactly once *)
Theorem roundrobin_cycles : forall c n, cursor_ok c -> 1 <= n <= 2147483647 ->
  let l := rr_run c n (Z.to_nat n) in
  length l = Z.to_nat n /\ NoDup l /\ (forall x, In x l <-> 0 <= x < n).
Proof.
  intros c n Hc Hn l. subst l. rewrite rr_run_spec by assumption.
  split; [apply rr_spec_length|]. split; [apply rr_spec_nodup; lia|].
  intro x. rewrite rr_spec_in. rewrite Z2Nat.id by lia. split.
  - intros [j [Hj E]]. subst x. lia.
  - intros Hx. exists ((x - rr_norm c n) mod n). split; [lia|].
    rewrite Zplus_mod_idemp_r. replace (rr_norm c n + (x - rr_norm c n)) with x by lia.
    rewrite Z.mod_small; lia.
Qed.

(* the calls are calls of the partitioner: rr_run is what [partition] returns, threading the cursor *)
Fixpoint partition_run (p : partitioner) (ms : list (msg * Z)) (n : Z) : list pout :=
  match ms with
  | [] => []
  | (m, r) :: rest => let '(o, p') := partition p m n r in o :: partition_run p' rest n
  end.

Lemma partition_run_rr : forall ms c n, partition_run (PRoundRobin c) ms n = map Chose (rr_run c n (length ms)).
Proof.
  induction ms as [|[m r] ms IH]; intros c n; simpl; [reflexivity|].
  destruct (rr_partition c n) as [x c'] eqn:E. simpl. f_equal. apply IH.
Qed.

(* reachable cursors: whatever counts the earlier calls used *)
Lemma rr_reachable_cursor : forall ns c, cursor_ok c -> Forall (fun n => -2147483648 <= n <= 2147483647) ns ->
  cursor_ok (fold_left (fun c n => snd (rr_partition c n)) ns c).
Proof.
  induction ns as [|n ns IH]; intros c Hc HF; simpl; [exact Hc|].
  inversion HF; subst. apply IH; [|assumption]. apply rr_cursor_invariant; assumption.
Qed.

Example roundrobin_nontrivial : rr_run 2 3 3 = [2; 0; 1] /\ rr_run 5 3 3 = [0; 1; 2].
Proof. split; reflexivity. Qed.
