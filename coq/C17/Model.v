(* C17 — executable model of sarama's partitioners (partitioner.go) and of the producer's routing
   step (async_producer.go topicProducer.partitionMessage / dispatch, client.go Partitions /
   WritablePartitions / setPartitionCache).  No proofs here.
   Numbers are Z; Go's fixed-width arithmetic is written explicitly (wrap32, u32, Z.rem, Z.land). *)
From Coq Require Import List ZArith Bool.
Import ListNotations.
Open Scope Z_scope.

(* ---------- fixed-width arithmetic ---------- *)
Definition u32 (z : Z) : Z := z mod 4294967296.
(* int32(x): two's-complement reinterpretation *)
Definition wrap32 (z : Z) : Z := (z + 2147483648) mod 4294967296 - 2147483648.

(* ---------- hash/fnv New32a (FNV-1a, 32 bit) over bytes; also FNV-1 (New32) used as a custom hasher ---------- *)
Definition fnv_offset32 : Z := 2166136261.
Definition fnv_prime32 : Z := 16777619.
Definition fnv1a_step (h b : Z) : Z := u32 (Z.lxor h b * fnv_prime32).
Definition fnv1a32 (bs : list Z) : Z := fold_left fnv1a_step bs fnv_offset32.
Definition fnv1_step (h b : Z) : Z := Z.lxor (u32 (h * fnv_prime32)) b.
Definition fnv1_32 (bs : list Z) : Z := fold_left fnv1_step bs fnv_offset32.

(* ---------- messages ---------- *)
(* ProducerMessage.Key: nil, or an Encoder whose Encode() yields bytes or an error *)
Inductive key := KNil | KBytes (b : list Z) | KEncErr (e : Z).
Record msg := { m_key : key; m_partition : Z }.

(* what Partition() does: returns a choice, returns an error, panics, or never returns *)
Inductive pout := Chose (p : Z) | Fail (e : Z) | Panic | Diverge.

(* a hash.Hash32 after Reset(); Write(bytes): Sum32 value, or the error of Write *)
Inductive hres := HSum (h : Z) | HErr (e : Z).
Definition hashfn := list Z -> hres.
Definition fnv_hasher : hashfn := fun b => HSum (fnv1a32 b).

(* ---------- hashPartitioner ---------- *)
(* the `random` field: the random partitioner, another hash partitioner, the partitioner itself
   (what the pinned WithCustomFallbackPartitioner stores), or a typed nil pointer *)
Inductive hashp := HashP (fb : fallback) (hf : hashfn) (ref_abs : bool)
with fallback := FbRandom | FbHash (q : hashp) | FbSelf | FbNil.

(* partition = int32(Sum32()) % n, negated when negative  /  (int32(Sum32()) & 0x7fffffff) % n *)
Definition hash_choice (ref_abs : bool) (h n : Z) : Z :=
  if ref_abs then Z.rem (Z.land (wrap32 h) 2147483647) n
  else let p := Z.rem (wrap32 h) n in if p <? 0 then wrap32 (- p) else p.

(* rand.Intn(n) is an oracle r (0 <= r < n); it panics for n <= 0 *)
Definition random_partition (n r : Z) : pout := if n <=? 0 then Panic else Chose r.

Fixpoint hash_partition (p : hashp) (m : msg) (n r : Z) : pout :=
  match p with
  | HashP fb hf ra =>
    match m_key m with
    | KNil => match fb with
              | FbRandom => random_partition n r
              | FbHash q => hash_partition q m n r
              | FbSelf => Diverge          (* calls itself with the same arguments *)
              | FbNil => Panic             (* nil pointer dereference reading p.random *)
              end
    | KEncErr e => Fail e
    | KBytes b => match hf b with
                  | HErr e => Fail e
                  | HSum h => if n =? 0 then Panic (* integer divide by zero *) else Chose (hash_choice ra h n)
                  end
    end
  end.

(* The same method with an explicit bound on the call depth (None = the bound was reached before the call
   returned): FbSelf re-enters the receiver.  Used to justify the [Diverge] outcome above. *)
Fixpoint hash_partition_fuel (fuel : nat) (p : hashp) (m : msg) (n r : Z) : option pout :=
  match fuel with
  | O => None
  | S f =>
    match p with
    | HashP fb hf ra =>
      match m_key m with
      | KNil => match fb with
                | FbRandom => Some (random_partition n r)
                | FbHash q => hash_partition_fuel f q m n r
                | FbSelf => hash_partition_fuel f p m n r
                | FbNil => Some Panic
                end
      | KEncErr e => Some (Fail e)
      | KBytes b => match hf b with
                    | HErr e => Some (Fail e)
                    | HSum h => if n =? 0 then Some Panic else Some (Chose (hash_choice ra h n))
                    end
      end
    end
  end.

(* The calls Partition() makes on its hash.Hash32, in order: Reset then Write of the encoded key for EVERY keyed
   message (also an empty non-nil key); none for a keyless message or a key that cannot be encoded. *)
Inductive hcall := HReset | HWrite (b : list Z).
Definition hasher_calls (m : msg) : list hcall :=
  match m_key m with KBytes b => [HReset; HWrite b] | _ => [] end.
(* a hasher as a state machine: the bytes written since the last Reset (Sum32 is a function of them) *)
Definition hasher_step (st : list Z) (c : hcall) : list Z :=
  match c with HReset => [] | HWrite b => st ++ b end.
Definition hasher_run (st : list Z) (cs : list hcall) : list Z := fold_left hasher_step cs st.

(* ---------- constructors and options ---------- *)
Definition new_hash : hashp := HashP FbRandom fnv_hasher false.            (* NewHashPartitioner *)
Definition new_reference_hash : hashp := HashP FbRandom fnv_hasher true.   (* NewReferenceHashPartitioner *)
Definition new_custom_hash (hf : hashfn) : hashp := HashP FbRandom hf false. (* NewCustomHashPartitioner *)

Inductive hoption := OAbsFirst | OHashFn (hf : hashfn) | OFallback (arg : option hashp).

(* the repaired WithCustomFallbackPartitioner: hp.random = randomHP *)
Definition apply_option (o : hoption) (p : hashp) : hashp :=
  match p with
  | HashP fb hf ra =>
    match o with
    | OAbsFirst => HashP fb hf true
    | OHashFn g => HashP fb g ra
    | OFallback (Some q) => HashP (FbHash q) hf ra
    | OFallback None => HashP FbNil hf ra
    end
  end.
(* the pinned tree: hp.random = hp (argument ignored) *)
Definition apply_option_pinned (o : hoption) (p : hashp) : hashp :=
  match p with
  | HashP fb hf ra =>
    match o with
    | OFallback _ => HashP FbSelf hf ra
    | _ => apply_option o p
    end
  end.

(* NewCustomPartitioner(options...) *)
Definition new_custom_with (ap : hoption -> hashp -> hashp) (opts : list hoption) : hashp :=
  fold_left (fun p o => ap o p) opts new_hash.
Definition new_custom := new_custom_with apply_option.
Definition new_custom_pinned := new_custom_with apply_option_pinned.

(* ---------- all partitioners ---------- *)
Inductive partitioner :=
| PManual
| PRandom
| PRoundRobin (cursor : Z)
| PHash (h : hashp)
(* user code: RequiresConsistency(), optional MessageRequiresConsistency(), scripted outcome *)
| PCustom (rc : bool) (dyn : option bool) (out : pout).

Definition rr_partition (c n : Z) : Z * Z :=
  let c0 := if c >=? n then 0 else c in (c0, wrap32 (c0 + 1)).

Definition partition (p : partitioner) (m : msg) (n r : Z) : pout * partitioner :=
  match p with
  | PManual => (Chose (m_partition m), PManual)
  | PRandom => (random_partition n r, PRandom)
  | PRoundRobin c => let '(x, c') := rr_partition c n in (Chose x, PRoundRobin c')
  | PHash h => (hash_partition h m n r, PHash h)
  | PCustom _ _ o => (o, p)
  end.

(* k consecutive calls with the same partition count (messages and the oracle are irrelevant to round-robin) *)
Fixpoint rr_run (c n : Z) (k : nat) : list Z :=
  match k with O => [] | S k' => let '(x, c') := rr_partition c n in x :: rr_run c' n k' end.

(* ---------- routing: topicProducer.partitionMessage ---------- *)
Definition key_nonnil (m : msg) : bool := match m_key m with KNil => false | _ => true end.

Definition requires_consistency (p : partitioner) (m : msg) : bool :=
  match p with
  | PManual => true
  | PRandom => false
  | PRoundRobin _ => false
  | PHash _ => key_nonnil m                 (* DynamicConsistencyPartitioner *)
  | PCustom rc None _ => rc
  | PCustom _ (Some d) _ => d
  end.

(* cluster metadata of the topic as the client holds it: None = topic unknown;
   otherwise (partition id, leader-not-available) pairs in arbitrary order *)
Definition meta := option (list (Z * bool)).

Fixpoint insert (x : Z) (l : list Z) : list Z :=
  match l with [] => [x] | y :: r => if x <=? y then x :: l else y :: insert x r end.
Fixpoint isort (l : list Z) : list Z := match l with [] => [] | x :: r => insert x (isort r) end.

Definition all_parts (l : list (Z * bool)) : list Z := isort (map fst l).
Definition writable_parts (l : list (Z * bool)) : list Z := isort (map fst (filter (fun x => negb (snd x)) l)).

Definition err_unknown_topic : Z := 3.       (* ErrUnknownTopicOrPartition *)
Definition err_leader_not_available : Z := 5.  (* ErrLeaderNotAvailable *)
Definition err_invalid_partition : Z := -2.   (* ErrInvalidPartition *)

Inductive cres := COk (l : list Z) | CErr (e : Z).
(* client.Partitions *)
Definition client_partitions (md : meta) : cres :=
  match md with
  | None => CErr err_unknown_topic
  | Some l => match all_parts l with [] => CErr err_unknown_topic | ps => COk ps end
  end.
(* client.WritablePartitions: an empty (non-nil) list is a valid answer *)
Definition client_writable (md : meta) : cres :=
  match md with None => CErr err_unknown_topic | Some l => COk (writable_parts l) end.

Definition offered (p : partitioner) (m : msg) (md : meta) : cres :=
  if requires_consistency p m then client_partitions md else client_writable md.

Fixpoint znth (l : list Z) (i : Z) : option Z :=
  match l with [] => None | x :: r => if i =? 0 then Some x else znth r (i - 1) end.

(* result of partitionMessage: msg.Partition := t, or an error (msg.Partition untouched);
   RPanic / RDiverge propagate what Partition() did *)
Inductive rout := RTo (t : Z) | RErr (e : Z) | RPanic | RDiverge.

Definition route (p : partitioner) (m : msg) (md : meta) (r : Z) : rout * partitioner :=
  match offered p m md with
  | CErr e => (RErr e, p)
  | COk ps =>
    let n := Z.of_nat (length ps) in
    if n =? 0 then (RErr err_leader_not_available, p)
    else
      let '(o, p') := partition p m n r in
      match o with
      | Fail e => (RErr e, p')
      | Panic => (RPanic, p')
      | Diverge => (RDiverge, p')
      | Chose c =>
        if (c <? 0) || (c >=? n) then (RErr err_invalid_partition, p')
        else match znth ps c with Some t => (RTo t, p') | None => (RErr err_invalid_partition, p') end
      end
  end.

(* topicProducer.dispatch for a fresh message (retries = 0): hand the message to the handler of the chosen
   partition, or report the error and hand it to nobody *)
Inductive devent := HandOff (part : Z) (id : Z) | ReturnError (id : Z) (e : Z).
Definition dispatch_step (p : partitioner) (id : Z) (m : msg) (md : meta) (r : Z) : list devent * partitioner :=
  match route p m md r with
  | (RTo t, p') => ([HandOff t id], p')
  | (RErr e, p') => ([ReturnError id e], p')
  | (_, p') => ([], p')
  end.
Fixpoint dispatch_run (p : partitioner) (ms : list (Z * msg * Z)) (md : meta) : list devent :=
  match ms with
  | [] => []
  | (id, m, r) :: rest => let '(ev, p') := dispatch_step p id m md r in ev ++ dispatch_run p' rest md
  end.
