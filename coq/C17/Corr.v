(* C17 — correspondence: go/harness/cmd/c17corr calls the real partitioners (pcase), the real
   topicProducer.partitionMessage over a real client fed by a mock broker (rcase) and a real AsyncProducer
   against a mock broker (dcase), and writes what it observed; these functions re-run the model on the same
   inputs and compare.  math/rand is an oracle: where the model's answer depends on the oracle, the observed
   choice is fed back and must satisfy the oracle's contract 0 <= r < n. *)
From Coq Require Import List ZArith Bool.
From SV Require Import Base.Corr C17.Model.
Import ListNotations.
Open Scope Z_scope.

(* custom hashers used by the harness *)
Definition hs_fnv1 : hashfn := fun b => HSum (fnv1_32 b).          (* hash/fnv New32 *)
Definition hs_const (h : Z) : hashfn := fun _ => HSum h.
Definition hs_werr (e : Z) : hashfn := fun _ => HErr e.            (* Write returns an error *)

Definition pout_eqb (a b : pout) : bool :=
  match a, b with
  | Chose x, Chose y => Z.eqb x y
  | Fail x, Fail y => Z.eqb x y
  | Panic, Panic => true
  | Diverge, Diverge => true
  | _, _ => false
  end.
Definition rout_eqb (a b : rout) : bool :=
  match a, b with
  | RTo x, RTo y => Z.eqb x y
  | RErr x, RErr y => Z.eqb x y
  | RPanic, RPanic => true
  | RDiverge, RDiverge => true
  | _, _ => false
  end.

(* ---------- direct Partition() calls ---------- *)
(* pc_hcalls: the calls observed on the partitioner's own hasher during this call (None: the hasher is the built-in
   FNV-1a instance and cannot be observed) *)
Record pcall := { pc_key : key; pc_mpart : Z; pc_n : Z; pc_obs : pout; pc_hcalls : option (list hcall) }.

Definition hcall_eqb (a b : hcall) : bool :=
  match a, b with
  | HReset, HReset => true
  | HWrite x, HWrite y => list_eqb Z.eqb x y
  | _, _ => false
  end.
(* the calls the model expects on the top-level partitioner's hasher: none when the call is served by a fallback *)
Definition expected_hcalls (p : partitioner) (m : msg) : list hcall :=
  match p with PHash _ => hasher_calls m | _ => [] end.
Record pcase := { pp_p : partitioner; pp_calls : list pcall }.

Definition oracle_of (o : pout) : Z := match o with Chose x => x | _ => 0 end.

Fixpoint run_calls (p : partitioner) (cs : list pcall) : bool :=
  match cs with
  | [] => true
  | c :: rest =>
    let m := {| m_key := pc_key c; m_partition := pc_mpart c |} in
    let r := oracle_of (pc_obs c) in
    let '(o, p') := partition p m (pc_n c) r in
    let depends := negb (pout_eqb (fst (partition p m (pc_n c) (-1))) (fst (partition p m (pc_n c) (-2)))) in
    pout_eqb o (pc_obs c) && (negb depends || ((0 <=? r) && (r <? pc_n c))) &&
    match pc_hcalls c with Some l => list_eqb hcall_eqb (expected_hcalls p m) l | None => true end &&
    run_calls p' rest
  end.
Definition ok_p (c : pcase) : bool := run_calls (pp_p c) (pp_calls c).
Definition mismatches_p := mismatches ok_p.

(* ---------- partitionMessage ---------- *)
Fixpoint index_of (t : Z) (l : list Z) (i : Z) : Z :=
  match l with [] => -1 | x :: r => if Z.eqb x t then i else index_of t r (i + 1) end.

(* rm_offered: numPartitions seen by a scripted user partitioner, -1 when not observed *)
Record rmsg := { rm_key : key; rm_mpart : Z; rm_obs : rout; rm_offered : Z }.
Record rcase := { rc_p : partitioner; rc_md : meta; rc_msgs : list rmsg }.

Definition route_oracle (p : partitioner) (m : msg) (md : meta) (target : option Z) : Z :=
  match target, offered p m md with
  | Some t, COk ps => index_of t ps 0
  | _, _ => 0
  end.
Definition offered_count (p : partitioner) (m : msg) (md : meta) : Z :=
  match offered p m md with COk ps => Z.of_nat (length ps) | CErr _ => -1 end.

Fixpoint run_routes (p : partitioner) (md : meta) (ms : list rmsg) : bool :=
  match ms with
  | [] => true
  | x :: rest =>
    let m := {| m_key := rm_key x; m_partition := rm_mpart x |} in
    let r := route_oracle p m md (match rm_obs x with RTo t => Some t | _ => None end) in
    let '(o, p') := route p m md r in
    let depends := negb (rout_eqb (fst (route p m md (-1))) (fst (route p m md (-2)))) in
    rout_eqb o (rm_obs x) && (negb depends || (0 <=? r)) &&
    ((rm_offered x <? 0) || Z.eqb (rm_offered x) (offered_count p m md)) &&
    run_routes p' md rest
  end.
Definition ok_r (c : rcase) : bool := run_routes (rc_p c) (rc_md c) (rc_msgs c).
Definition mismatches_r := mismatches ok_r.

(* ---------- AsyncProducer against a mock broker ---------- *)
(* dm_succ: the message came back on Successes(); dm_part: msg.Partition of the success/error event *)
Record dmsg := { dm_id : Z; dm_key : key; dm_mpart : Z; dm_succ : bool; dm_part : Z }.
Record dcase := { dc_p : partitioner; dc_md : meta; dc_msgs : list dmsg; dc_broker : list (Z * Z) }.

Definition is_writable (md : meta) (t : Z) : bool :=
  match md with None => false | Some l => existsb (Z.eqb t) (writable_parts l) end.
(* a message handed to partition t reaches the broker iff t has a leader and its key can be encoded
   (an Encode() error of the key fails the message later, in the broker producer) *)
Definition encodable (x : dmsg) : bool := match dm_key x with KEncErr _ => false | _ => true end.

(* thread the partitioner through the messages, feeding the observed partition back as the oracle *)
Fixpoint with_oracles (p : partitioner) (md : meta) (ms : list dmsg) : list (Z * msg * Z) :=
  match ms with
  | [] => []
  | x :: rest =>
    let m := {| m_key := dm_key x; m_partition := dm_mpart x |} in
    let r := route_oracle p m md (Some (dm_part x)) in
    (dm_id x, m, r) :: with_oracles (snd (route p m md r)) md rest
  end.

Fixpoint find_msg (id : Z) (ms : list dmsg) : option dmsg :=
  match ms with [] => None | x :: r => if Z.eqb (dm_id x) id then Some x else find_msg id r end.

Definition event_ok (md : meta) (ms : list dmsg) (e : devent) : bool :=
  match e with
  | HandOff t id => match find_msg id ms with
                    | Some x => Bool.eqb (dm_succ x) (is_writable md t && encodable x) && Z.eqb (dm_part x) t
                    | None => false end
  | ReturnError id _ => match find_msg id ms with
                        | Some x => negb (dm_succ x) && Z.eqb (dm_part x) (dm_mpart x)
                        | None => false end
  end.

Fixpoint sent_of (md : meta) (ms : list dmsg) (evs : list devent) : list (Z * Z) :=
  match evs with
  | [] => []
  | HandOff t id :: r =>
    if is_writable md t && match find_msg id ms with Some x => encodable x | None => false end
    then (t, id) :: sent_of md ms r else sent_of md ms r
  | _ :: r => sent_of md ms r
  end.

Fixpoint insert2 (x : Z * Z) (l : list (Z * Z)) : list (Z * Z) :=
  match l with
  | [] => [x]
  | y :: r => if (fst x <? fst y) || (Z.eqb (fst x) (fst y) && (snd x <=? snd y)) then x :: l else y :: insert2 x r
  end.
Fixpoint isort2 (l : list (Z * Z)) : list (Z * Z) := match l with [] => [] | x :: r => insert2 x (isort2 r) end.
Definition z2_eqb (a b : Z * Z) := Z.eqb (fst a) (fst b) && Z.eqb (snd a) (snd b).

Definition ok_d (c : dcase) : bool :=
  let evs := dispatch_run (dc_p c) (with_oracles (dc_p c) (dc_md c) (dc_msgs c)) (dc_md c) in
  Nat.eqb (length evs) (length (dc_msgs c)) &&
  forallb (event_ok (dc_md c) (dc_msgs c)) evs &&
  list_eqb z2_eqb (isort2 (sent_of (dc_md c) (dc_msgs c) evs)) (isort2 (dc_broker c)).
Definition mismatches_d := mismatches ok_d.
