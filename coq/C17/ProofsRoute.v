(* C17 — proofs about routing (partitionMessage / dispatch) and about the fallback option. *)
From Coq Require Import List ZArith Bool Lia Sorted.
From SV Require Import C17.Model C17.Proofs.
Import ListNotations.
Open Scope Z_scope.

(* ================================================================ the partition lists the client hands out *)
Lemma insert_in : forall x y l, In x (insert y l) <-> x = y \/ In x l.
Proof.
  intros x y l. induction l as [|z l IH]; simpl.
  - intuition.
  - destruct (y <=? z); simpl; [intuition|]. rewrite IH. intuition.
Qed.

Lemma isort_in : forall x l, In x (isort l) <-> In x l.
Proof.
  intros x l. induction l as [|y l IH]; simpl; [reflexivity|].
  rewrite insert_in, IH. intuition.
Qed.

Lemma insert_hdrel : forall a x l, a <= x -> HdRel Z.le a l -> HdRel Z.le a (insert x l).
Proof.
  intros a x l Hax H. destruct l as [|y l]; simpl.
  - constructor. exact Hax.
  - destruct (x <=? y); constructor; [exact Hax | inversion H; assumption].
Qed.

Lemma insert_sorted : forall x l, Sorted Z.le l -> Sorted Z.le (insert x l).
Proof.
  intros x l H. induction H as [|y l Hs IH Hd]; simpl.
  - repeat constructor.
  - destruct (x <=? y) eqn:E.
    + apply Z.leb_le in E. constructor; [constructor; assumption | constructor; exact E].
    + apply Z.leb_gt in E. constructor; [exact IH|]. apply insert_hdrel; [lia | exact Hd].
Qed.

Lemma isort_sorted : forall l, Sorted Z.le (isort l).
Proof. induction l as [|x l IH]; simpl; [constructor | apply insert_sorted; exact IH]. Qed.

(* the topic has partition t / partition t has a leader *)
Definition has_partition (md : meta) (t : Z) : Prop := exists l lf, md = Some l /\ In (t, lf) l.
Definition has_leader (md : meta) (t : Z) : Prop := exists l, md = Some l /\ In (t, false) l.

Lemma all_parts_in : forall l t, In t (all_parts l) <-> exists lf, In (t, lf) l.
Proof.
  intros l t. unfold all_parts. rewrite isort_in, in_map_iff. split.
  - intros [[t' lf] [E H]]. simpl in E. subst. exists lf. exact H.
  - intros [lf H]. exists (t, lf). split; [reflexivity | exact H].
Qed.

Lemma writable_parts_in : forall l t, In t (writable_parts l) <-> In (t, false) l.
Proof.
  intros l t. unfold writable_parts. rewrite isort_in, in_map_iff. split.
  - intros [[t' lf] [E H]]. simpl in E. subst. apply filter_In in H as [H Hl]. simpl in Hl.
    destruct lf; [discriminate | exact H].
  - intros H. exists (t, false). split; [reflexivity|]. apply filter_In. split; [exact H | reflexivity].
Qed.

Theorem offered_sets : forall md ps,
  (client_partitions md = COk ps -> Sorted Z.le ps /\ ps <> [] /\ forall t, In t ps <-> has_partition md t) /\
  (client_writable md = COk ps -> Sorted Z.le ps /\ forall t, In t ps <-> has_leader md t).
Proof.
  intros md ps. split; intro H.
  - destruct md as [l|]; simpl in H; [|discriminate].
    destruct (all_parts l) as [|x xs] eqn:E; [discriminate|]. injection H as <-.
    split; [rewrite <- E; apply isort_sorted|]. split; [discriminate|].
    intro t. rewrite <- E, all_parts_in. unfold has_partition. split.
    + intros [lf Hin]. exists l, lf. split; [reflexivity | exact Hin].
    + intros [l' [lf [El Hin]]]. injection El as <-. exists lf. exact Hin.
  - destruct md as [l|]; simpl in H; [|discriminate]. injection H as <-.
    split; [apply isort_sorted|]. intro t. rewrite writable_parts_in. unfold has_leader. split.
    + intro Hin. exists l. split; [reflexivity | exact Hin].
    + intros [l' [El Hin]]. injection El as <-. exact Hin.
Qed.

(* ================================================================ partitions[choice] *)
Lemma znth_some : forall ps c, 0 <= c < Z.of_nat (length ps) -> exists t, znth ps c = Some t.
Proof.
  induction ps as [|x ps IH]; intros c Hc; simpl in *; [lia|].
  destruct (c =? 0) eqn:E; [eexists; reflexivity|].
  apply Z.eqb_neq in E. apply IH. lia.
Qed.

Lemma znth_in : forall ps c t, znth ps c = Some t -> In t ps.
Proof.
  induction ps as [|x ps IH]; intros c t H; simpl in *; [discriminate|].
  destruct (c =? 0); [injection H as ->; left; reflexivity | right; eapply IH; exact H].
Qed.

(* znth is list indexing *)
Lemma znth_nth_error : forall ps c, 0 <= c -> znth ps c = nth_error ps (Z.to_nat c).
Proof.
  induction ps as [|x ps IH]; intros c Hc; simpl.
  - destruct (Z.to_nat c); reflexivity.
  - destruct (c =? 0) eqn:E.
    + apply Z.eqb_eq in E. subst. reflexivity.
    + apply Z.eqb_neq in E. replace (Z.to_nat c) with (S (Z.to_nat (c - 1))) by lia. simpl. apply IH. lia.
Qed.

(* ================================================================ partitionMessage *)
Definition count (ps : list Z) : Z := Z.of_nat (length ps).

(* a message is routed only to the partition the partitioner chose among the offered ones *)
Theorem route_sound : forall p m md r t p', route p m md r = (RTo t, p') ->
  exists ps c, offered p m md = COk ps /\ partition p m (count ps) r = (Chose c, p') /\
               0 <= c < count ps /\ znth ps c = Some t.
Proof.
  intros p m md r t p' H. unfold route in H.
  destruct (offered p m md) as [ps|e] eqn:Eo; [|discriminate].
  fold (count ps) in H. destruct (count ps =? 0) eqn:En; [discriminate|].
  destruct (partition p m (count ps) r) as [o q] eqn:Ep.
  destruct o as [c|e| |]; try discriminate.
  destruct ((c <? 0) || (c >=? count ps)) eqn:Er; [discriminate|].
  apply orb_false_iff in Er as [E1 E2]. apply Z.ltb_ge in E1.
  assert (c < count ps) by (destruct (Z.geb_spec c (count ps)); [discriminate | lia]).
  destruct (znth ps c) as [t'|] eqn:Ez; [|discriminate].
  injection H as <- <-. exists ps, c. repeat split; try assumption; lia.
Qed.

(* keyed messages of consistency-requiring partitioners may go to any partition of the topic,
   all other messages only to partitions with a leader *)
Theorem route_target : forall p m md r t p', route p m md r = (RTo t, p') ->
  if requires_consistency p m then has_partition md t else has_leader md t.
Proof.
  intros p m md r t p' H. apply route_sound in H as [ps [c [Eo [_ [_ Ez]]]]].
  apply znth_in in Ez. unfold offered in Eo.
  destruct (requires_consistency p m).
  - apply (proj1 (offered_sets md ps)) in Eo as [_ [_ Hin]]. apply Hin. exact Ez.
  - apply (proj2 (offered_sets md ps)) in Eo as [_ Hin]. apply Hin. exact Ez.
Qed.

(* a valid choice is honoured *)
Theorem route_honours : forall p m md r ps c p', offered p m md = COk ps ->
  partition p m (count ps) r = (Chose c, p') -> 0 <= c < count ps ->
  exists t, znth ps c = Some t /\ route p m md r = (RTo t, p').
Proof.
  intros p m md r ps c p' Eo Ep Hc. destruct (znth_some ps c Hc) as [t Ez]. exists t. split; [exact Ez|].
  unfold route. rewrite Eo. fold (count ps).
  destruct (count ps =? 0) eqn:En; [apply Z.eqb_eq in En; lia|]. rewrite Ep.
  replace ((c <? 0) || (c >=? count ps)) with false.
  - rewrite Ez. reflexivity.
  - symmetry. apply orb_false_iff. split; [apply Z.ltb_ge; lia|].
    destruct (Z.geb_spec c (count ps)); [lia | reflexivity].
Qed.

(* every other situation is an error: nothing offered, partitioner error, choice out of range *)
Theorem route_rejects : forall p m md r,
  (forall e, offered p m md = CErr e -> route p m md r = (RErr e, p)) /\
  (offered p m md = COk [] -> route p m md r = (RErr err_leader_not_available, p)) /\
  (forall ps e p', offered p m md = COk ps -> ps <> [] -> partition p m (count ps) r = (Fail e, p') ->
     route p m md r = (RErr e, p')) /\
  (forall ps c p', offered p m md = COk ps -> ps <> [] -> partition p m (count ps) r = (Chose c, p') ->
     c < 0 \/ count ps <= c -> route p m md r = (RErr err_invalid_partition, p')).
Proof.
  intros p m md r. unfold route. repeat split.
  - intros e Eo. rewrite Eo. reflexivity.
  - intros Eo. rewrite Eo. reflexivity.
  - intros ps e p' Eo Hne Ep. rewrite Eo. fold (count ps).
    destruct (count ps =? 0) eqn:En.
    + apply Z.eqb_eq in En. unfold count in En. destruct ps; [contradiction | simpl in En; lia].
    + rewrite Ep. reflexivity.
  - intros ps c p' Eo Hne Ep Hc. rewrite Eo. fold (count ps).
    destruct (count ps =? 0) eqn:En.
    + apply Z.eqb_eq in En. unfold count in En. destruct ps; [contradiction | simpl in En; lia].
    + rewrite Ep. replace ((c <? 0) || (c >=? count ps)) with true; [reflexivity|].
      symmetry. apply orb_true_iff. destruct Hc as [Hc|Hc].
      * left. apply Z.ltb_lt. exact Hc.
      * right. destruct (Z.geb_spec c (count ps)); [reflexivity | lia].
Qed.

(* route never yields a target for an error, and dispatch hands the message to nobody then *)
Theorem no_handoff_on_error : forall p id m md r e, fst (route p m md r) = RErr e ->
  fst (dispatch_step p id m md r) = [ReturnError id e].
Proof.
  intros p id m md r e H. unfold dispatch_step. destruct (route p m md r) as [o p']. simpl in H. subst o. reflexivity.
Qed.

Theorem handoff_is_route : forall p id m md r t, fst (route p m md r) = RTo t ->
  fst (dispatch_step p id m md r) = [HandOff t id].
Proof.
  intros p id m md r t H. unfold dispatch_step. destruct (route p m md r) as [o p']. simpl in H. subst o. reflexivity.
Qed.

(* over a whole run of the topic producer: every hand-off obeys the rule *)
Lemma rc_partition : forall p m n r m', requires_consistency (snd (partition p m n r)) m' = requires_consistency p m'.
Proof.
  intros p m n r m'. destruct p as [| |c|h|rc dyn o]; reflexivity.
Qed.

Lemma rc_route : forall p m md r m', requires_consistency (snd (route p m md r)) m' = requires_consistency p m'.
Proof.
  intros p m md r m'. unfold route. destruct (offered p m md) as [ps|e]; [|reflexivity].
  destruct (Z.of_nat (length ps) =? 0); [reflexivity|].
  pose proof (rc_partition p m (Z.of_nat (length ps)) r m') as H.
  destruct (partition p m (Z.of_nat (length ps)) r) as [o q]. simpl in H.
  destruct o as [c|e| |]; simpl; try exact H.
  destruct ((c <? 0) || (c >=? Z.of_nat (length ps))); [exact H|].
  destruct (znth ps c); exact H.
Qed.

Theorem dispatch_run_rule : forall ms p md t id, In (HandOff t id) (dispatch_run p ms md) ->
  exists m r, In (id, m, r) ms /\ if requires_consistency p m then has_partition md t else has_leader md t.
Proof.
  induction ms as [|[[id0 m0] r0] ms IH]; intros p md t id H; simpl in H; [contradiction|].
  unfold dispatch_step in H. destruct (route p m0 md r0) as [o p'] eqn:Er.
  assert (Hrc : forall m', requires_consistency p' m' = requires_consistency p m').
  { intro m'. pose proof (rc_route p m0 md r0 m') as X. rewrite Er in X. exact X. }
  assert (Hrest : In (HandOff t id) (dispatch_run p' ms md) ->
          exists m r, In (id, m, r) ((id0, m0, r0) :: ms) /\
                      if requires_consistency p m then has_partition md t else has_leader md t).
  { intro Hin. destruct (IH p' md t id Hin) as [m [r [Hi Hr]]]. exists m, r. split; [right; exact Hi|].
    rewrite <- Hrc. exact Hr. }
  destruct o as [t0|e| |]; simpl in H.
  - destruct H as [E|Hin]; [|apply Hrest; exact Hin].
    injection E as -> ->. exists m0, r0. split; [left; reflexivity|].
    eapply route_target. exact Er.
  - destruct H as [E|Hin]; [discriminate | apply Hrest; exact Hin].
  - apply Hrest; exact H.
  - apply Hrest; exact H.
Qed.

Definition route_spec : Prop :=
  (forall p m md r t p', route p m md r = (RTo t, p') ->
     (exists ps c, offered p m md = COk ps /\ partition p m (count ps) r = (Chose c, p') /\
                   0 <= c < count ps /\ znth ps c = Some t) /\
     (if requires_consistency p m then has_partition md t else has_leader md t)) /\
  (forall p m md r ps c p', offered p m md = COk ps -> partition p m (count ps) r = (Chose c, p') ->
     0 <= c < count ps -> exists t, znth ps c = Some t /\ route p m md r = (RTo t, p')) /\
  (forall p m md r ps c p', offered p m md = COk ps -> ps <> [] -> partition p m (count ps) r = (Chose c, p') ->
     c < 0 \/ count ps <= c -> route p m md r = (RErr err_invalid_partition, p')) /\
  (forall p m md r, offered p m md = COk [] -> route p m md r = (RErr err_leader_not_available, p)) /\
  (forall p id m md r e, fst (route p m md r) = RErr e -> fst (dispatch_step p id m md r) = [ReturnError id e]).

Theorem route_correct : route_spec.
Proof.
  unfold route_spec. repeat split.
  - apply route_sound. assumption.
  - eapply route_target. eassumption.
  - intros. eapply route_honours; eassumption.
  - intros p m md r ps c p' Eo Hne Ep Hc. destruct (route_rejects p m md r) as [_ [_ [_ H]]]. eapply H; eassumption.
  - intros p m md r Eo. destruct (route_rejects p m md r) as [_ [H _]]. apply H. exact Eo.
  - apply no_handoff_on_error.
Qed.

(* hypotheses are satisfiable: partitions {0 (leaderless), 2, 5}; a keyed message of the hash partitioner is offered
   all three (and may hit the leaderless one), a keyless round-robin message only the two writable ones *)
Example route_nontrivial :
  let md := Some [(5, false); (0, true); (2, false)] in
  offered (PHash new_hash) {| m_key := KBytes [98]; m_partition := 0 |} md = COk [0; 2; 5] /\
  fst (route (PHash new_hash) {| m_key := KBytes [98]; m_partition := 0 |} md 0) = RTo 0 /\
  route (PRoundRobin 1) {| m_key := KNil; m_partition := 0 |} md 0 = (RTo 5, PRoundRobin 2) /\
  route PManual {| m_key := KNil; m_partition := 3 |} md 0 = (RErr err_invalid_partition, PManual).
Proof. cbv zeta. split; [|split; [|split]]; vm_compute; reflexivity. Qed.

(* ================================================================ the custom fallback option *)
(* the bounded-depth semantics agrees with [hash_partition]; [Diverge] is exactly "no depth suffices" *)
Lemma fuel_sound : forall fuel p m n r o, hash_partition_fuel fuel p m n r = Some o -> hash_partition p m n r = o.
Proof.
  induction fuel as [|f IH]; intros p m n r o H; simpl in H; [discriminate|].
  destruct p as [fb hf ra]. simpl. destruct (m_key m) as [|b|e] eqn:Ek.
  - destruct fb as [|q| |].
    + injection H as <-. reflexivity.
    + apply IH. exact H.
    + apply IH in H. simpl in H. rewrite Ek in H. exact H.
    + injection H as <-. reflexivity.
  - destruct (hf b) as [h|e]; [destruct (n =? 0)|]; injection H as <-; reflexivity.
  - injection H as <-. reflexivity.
Qed.

Lemma fuel_never_diverge : forall fuel p m n r, hash_partition_fuel fuel p m n r <> Some Diverge.
Proof.
  induction fuel as [|f IH]; intros p m n r H; simpl in H; [discriminate|].
  destruct p as [fb hf ra]. destruct (m_key m) as [|b|e].
  - destruct fb as [|q| |]; try (eapply IH; exact H); try discriminate.
    unfold random_partition in H. destruct (n <=? 0); discriminate.
  - destruct (hf b) as [h|e]; [destruct (n =? 0)|]; discriminate.
  - discriminate.
Qed.

Lemma fuel_complete : forall p m n r, hash_partition p m n r <> Diverge ->
  exists fuel, hash_partition_fuel fuel p m n r = Some (hash_partition p m n r).
Proof.
  fix IH 1. intros [fb hf ra] m n r H. simpl in H.
  destruct (m_key m) as [|b|e] eqn:Ek.
  - destruct fb as [|q| |].
    + exists 1%nat. simpl. rewrite Ek. reflexivity.
    + destruct (IH q m n r H) as [f Hf]. exists (S f). simpl. rewrite Ek. exact Hf.
    + contradiction.
    + exists 1%nat. simpl. rewrite Ek. reflexivity.
  - exists 1%nat. simpl. rewrite Ek. destruct (hf b) as [h|e]; [destruct (n =? 0)|]; reflexivity.
  - exists 1%nat. simpl. rewrite Ek. reflexivity.
Qed.

Theorem diverge_iff_no_depth_suffices : forall p m n r,
  hash_partition p m n r = Diverge <-> forall fuel, hash_partition_fuel fuel p m n r = None.
Proof.
  intros p m n r. split.
  - intros HD fuel. destruct (hash_partition_fuel fuel p m n r) as [o|] eqn:E; [|reflexivity].
    exfalso. pose proof (fuel_sound _ _ _ _ _ _ E) as Hs. rewrite HD in Hs. subst o.
    exact (fuel_never_diverge _ _ _ _ _ E).
  - intros Hall. destruct (hash_partition p m n r) as [x|e| |] eqn:E; try reflexivity.
    all: assert (Hne : hash_partition p m n r <> Diverge) by (rewrite E; discriminate).
    all: destruct (fuel_complete p m n r Hne) as [f Hf]; rewrite Hall in Hf; discriminate.
Qed.

Lemma self_fallback_never_returns : forall fuel hf ra m n r, m_key m = KNil ->
  hash_partition_fuel fuel (HashP FbSelf hf ra) m n r = None.
Proof.
  induction fuel as [|f IH]; intros hf ra m n r Ek; [reflexivity|].
  cbn [hash_partition_fuel]. rewrite Ek. apply IH. exact Ek.
Qed.

Lemma fold_pinned_self : forall opts p, (exists a, In (OFallback a) opts) ->
  exists hf ra, fold_left (fun p o => apply_option_pinned o p) opts p = HashP FbSelf hf ra.
Proof.
  induction opts as [|o opts IH] using rev_ind; intros p [a Hin]; [contradiction|].
  rewrite fold_left_app. simpl.
  destruct (fold_left (fun p o => apply_option_pinned o p) opts p) as [fb hf ra] eqn:E.
  apply in_app_or in Hin as [Hin | [-> | []]].
  - destruct (IH p (ex_intro _ a Hin)) as [hf' [ra' E']]. rewrite E in E'. injection E' as -> -> ->.
    destruct o as [| g | arg]; simpl; eauto.
  - simpl. eauto.
Qed.

(* The pinned tree: whatever legitimate partitioner is passed to WithCustomFallbackPartitioner, Partition() on a
   keyless message never returns (no call depth suffices), for every partition count. *)
Theorem fallback_refuted :
  (forall opts a m n r, In (OFallback a) opts -> m_key m = KNil ->
     (forall fuel, hash_partition_fuel fuel (new_custom_pinned opts) m n r = None) /\
     fst (partition (PHash (new_custom_pinned opts)) m n r) = Diverge) /\
  ~ (forall opts m n r, Forall opt_wf opts -> 1 <= n <= 2147483647 -> 0 <= r < n ->
       in_range_outcome m n (fst (partition (PHash (new_custom_pinned opts)) m n r))).
Proof.
  assert (H1 : forall opts a m n r, In (OFallback a) opts -> m_key m = KNil ->
     (forall fuel, hash_partition_fuel fuel (new_custom_pinned opts) m n r = None) /\
     fst (partition (PHash (new_custom_pinned opts)) m n r) = Diverge).
  { intros opts a m n r Hin Ek. unfold new_custom_pinned, new_custom_with.
    destruct (fold_pinned_self opts new_hash (ex_intro _ a Hin)) as [hf [ra E]]. rewrite E. split.
    - intro fuel. apply self_fallback_never_returns. exact Ek.
    - simpl. rewrite Ek. reflexivity. }
  split; [exact H1|].
  intro H. specialize (H [OFallback (Some new_hash)] {| m_key := KNil; m_partition := 0 |} 1 0).
  destruct (H1 [OFallback (Some new_hash)] (Some new_hash) {| m_key := KNil; m_partition := 0 |} 1 0) as [_ E];
    [left; reflexivity | reflexivity |].
  rewrite E in H. apply H.
  - constructor; [exact wf_new_hash | constructor].
  - lia.
  - lia.
Qed.

(* The repaired option: the last fallback option decides who serves keyless messages — the partitioner passed in. *)
Theorem fallback_fixed : forall opts q m n r, m_key m = KNil ->
  hash_partition (new_custom (opts ++ [OFallback (Some q)])) m n r = hash_partition q m n r.
Proof.
  intros opts q m n r Ek. unfold new_custom, new_custom_with. rewrite fold_left_app. simpl.
  destruct (fold_left (fun p o => apply_option o p) opts new_hash) as [fb hf ra]. simpl. rewrite Ek. reflexivity.
Qed.

(* options after the fallback that do not touch it keep it *)
Lemma fallback_kept : forall o fb hf ra, (forall a, o <> OFallback a) ->
  exists hf' ra', apply_option o (HashP fb hf ra) = HashP fb hf' ra'.
Proof. intros o fb hf ra H. destruct o as [| g | a]; simpl; eauto. exfalso. exact (H a eq_refl). Qed.

Example fallback_fixed_nontrivial :
  let q := new_custom [OHashFn (fun _ => HSum 5)] in
  hash_partition (new_custom [OAbsFirst; OFallback (Some q)]) {| m_key := KNil; m_partition := 0 |} 7 3 = Chose 3 /\
  hash_partition (new_custom_pinned [OAbsFirst; OFallback (Some q)]) {| m_key := KNil; m_partition := 0 |} 7 3 = Diverge.
Proof. split; reflexivity. Qed.
