(* C17 — the hand model's decision functions equal the definitions regenerated from partitioner.go by decgen
   (coq/Gen/DecC17.v; every check regenerates them from the source and compares with that golden). *)
From Coq Require Import List ZArith Bool.
From SV Require Import Gen.GoInt Gen.DecTypes Gen.DecC17 C17.Model.
Import ListNotations.
Open Scope Z_scope.

Lemma tie_wrap32 : forall z, Model.wrap32 z = GoInt.wrap32 z.
Proof. reflexivity. Qed.

Lemma tie_manual : forall m n r,
  fst (Model.partition PManual m n r) = Chose (fst (DecC17.manual_partition n (m_partition m))) /\
  snd (DecC17.manual_partition n (m_partition m)) = ENil.
Proof. intros. split; reflexivity. Qed.

Lemma tie_round_robin : forall c n,
  Model.rr_partition c n = (let '(c', ret, _) := DecC17.round_robin_partition c n in (ret, c')) /\
  snd (DecC17.round_robin_partition c n) = ENil.
Proof.
  intros c n. unfold Model.rr_partition, DecC17.round_robin_partition. cbv zeta.
  destruct (c >=? n); split; reflexivity.
Qed.

Lemma tie_hash_choice : forall ra h n, Model.hash_choice ra h n = fst (DecC17.hash_choice n ra h).
Proof.
  intros ra h n. unfold Model.hash_choice, DecC17.hash_choice. cbv zeta.
  destruct ra; cbn [fst]; [reflexivity|].
  destruct (Z.rem (Model.wrap32 h) n <? 0) eqn:E; change (GoInt.wrap32 h) with (Model.wrap32 h); rewrite E; reflexivity.
Qed.

(* reading the model's message / hasher as the inputs of the generated function *)
Definition key_is_nil (m : msg) : bool := match m_key m with KNil => true | _ => false end.
Definition encode_err (m : msg) : gerr := match m_key m with KEncErr e => EOther e | _ => ENil end.
Definition write_err (hf : hashfn) (m : msg) : gerr :=
  match m_key m with KBytes b => match hf b with HErr e => EOther e | HSum _ => ENil end | _ => ENil end.
Definition hash_of (hf : hashfn) (m : msg) : Z :=
  match m_key m with KBytes b => match hf b with HSum h => h | HErr _ => 0 end | _ => 0 end.
Definition gen_out (x : Z * gerr) : pout :=
  match snd x with ENil => Chose (fst x) | EOther e => Fail e | _ => Panic end.

(* the whole method, for a hash partitioner whose fallback is the random partitioner (its answer r is the oracle);
   n <= 0 is excluded: there the model records Go's panics (rand.Intn, integer division by zero), which decgen does not model *)
Lemma tie_hash_partition : forall hf ra m n r, 0 < n ->
  Model.hash_partition (HashP FbRandom hf ra) m n r =
  gen_out (DecC17.hash_partition n (key_is_nil m) r ENil (encode_err m) (write_err hf m) ra (hash_of hf m)).
Proof.
  intros hf ra m n r Hn. unfold DecC17.hash_partition, key_is_nil, encode_err, write_err, hash_of, gen_out.
  cbn [Model.hash_partition]. destruct (m_key m) as [|b|e]; cbn [fst snd gerr_eqb negb].
  - unfold random_partition. destruct (n <=? 0) eqn:E; [apply Z.leb_le in E; exfalso; apply (Z.lt_irrefl n); eapply Z.le_lt_trans; eassumption | reflexivity].
  - destruct (hf b) as [h|e]; cbn [fst snd gerr_eqb negb].
    + destruct (n =? 0) eqn:E; [apply Z.eqb_eq in E; subst; exfalso; exact (Z.lt_irrefl 0 Hn)|].
      rewrite tie_hash_choice. unfold DecC17.hash_choice. cbv zeta. cbn [fst snd]. reflexivity.
    + reflexivity.
  - reflexivity.
Qed.
