(* C17 — the hand model's decision functions equal the definitions regenerated from partitioner.go by decgen
   (coq/Gen/DecC17.v; every check regenerates them from the source and compares with that golden). *)
From Coq Require Import List ZArith Bool.
From SV Require Import Gen.GoInt Gen.DecTypes Gen.DecC17 C17.Model.
Import ListNotations.
Open Scope Z_scope.

Lemma tie_wrap32 : forall z, Model.wrap32 z = GoInt.wrap32 z.
Proof. reflexivity. Qed.

Lemma tie_manual : forall m n r,
  fst (Model.partition PManual m n r) = Chose (fst (DecC17.manual_partition n (m_partition m))) /\
  snd (DecC17.manual_partition n (m_partition m)) = ENil.
Proof. intros. split; reflexivity. Qed.

Lemma tie_round_robin : forall c n,
  Model.rr_partition c n = (let '(c', ret, _) := DecC17.round_robin_partition c n in (ret, c')) /\
  snd (DecC17.round_robin_partition c n) = ENil.
Proof.
  intros c n. unfold Model.rr_partition, DecC17.round_robin_partition. cbv zeta.
  destruct (c >=? n); split; reflexivity.
Qed.

Lemma tie_hash_choice : forall ra h n, Model.hash_choice ra h n = fst (DecC17.hash_choice n ra h).
Proof.
  intros ra h n. unfold Model.hash_choice, DecC17.hash_choice. cbv zeta.
  destruct ra; cbn [fst]; [reflexivity|].
  destruct (Z.rem (Model.wrap32 h) n <? 0) eqn:E; change (GoInt.wrap32 h) with (Model.wrap32 h); rewrite E; reflexivity.
Qed.

(* reading the model's message / hasher as the inputs of the generated function *)
Definition key_is_nil (m : msg) : bool := match m_key m with KNil => true | _ => false end.
Definition encode_err (m : msg) : gerr := match m_key m with KEncErr e => EOther e | _ => ENil end.
Definition write_err (hf : hashfn) (m : msg) : gerr :=
  match m_key m with KBytes b => match hf b with HErr e => EOther e | HSum _ => ENil end | _ => ENil end.
Definition hash_of (hf : hashfn) (m : msg) : Z :=
  match m_key m with KBytes b => match hf b with HSum h => h | HErr _ => 0 end | _ => 0 end.
Definition gen_out (x : Z * gerr) : pout :=
  match snd x with ENil => Chose (fst x) | EOther e => Fail e | _ => Panic end.

(* the whole method, for a hash partitioner whose fallback is the random partitioner (its answer r is the oracle);
   n <= 0 is excluded: there the model records Go's panics (rand.Intn, integer division by zero), which decgen does not model *)
Lemma tie_hash_partition : forall hf ra m n r, 0 < n ->
  Model.hash_partition (HashP FbRandom hf ra) m n r =
  gen_out (DecC17.hash_partition n (key_is_nil m) r ENil (encode_err m) (write_err hf m) ra (hash_of hf m)).
Proof.
  intros hf ra m n r Hn. unfold DecC17.hash_partition, key_is_nil, encode_err, write_err, hash_of, gen_out.
  cbn [Model.hash_partition]. destruct (m_key m) as [|b|e]; cbn [fst snd gerr_eqb negb].
  - unfold random_partition. destruct (n <=? 0) eqn:E; [apply Z.leb_le in E; exfalso; apply (Z.lt_irrefl n); eapply Z.le_lt_trans; eassumption | reflexivity].
  - destruct (hf b) as [h|e]; cbn [fst snd gerr_eqb negb].
    + destruct (n =? 0) eqn:E; [apply Z.eqb_eq in E; subst; exfalso; exact (Z.lt_irrefl 0 Hn)|].
      rewrite tie_hash_choice. unfold DecC17.hash_choice. cbv zeta. cbn [fst snd]. reflexivity.
    + reflexivity.
  - reflexivity.
Qed.

(* ================================================================ wave 2: the hasher protocol and partitionMessage's slices *)
From SV Require Import Gen.DecTypes2 C17.ProofsRoute.

Definition erase_call (c : hcall) : hash_action := match c with HReset => HA_reset | HWrite _ => HA_write end.

(* the calls on the hasher, in order, and the result — Reset then Write for every keyed message (also the empty key) *)
Lemma tie_hash_calls : forall hf ra m n r, 0 < n ->
  let '(acts, v, e) := DecC17.hash_partition_calls n (key_is_nil m) r ENil (encode_err m) (write_err hf m) ra (hash_of hf m) in
  acts = map erase_call (hasher_calls m) /\
  gen_out (v, e) = Model.hash_partition (HashP FbRandom hf ra) m n r.
Proof.
  intros hf ra m n r Hn. rewrite (tie_hash_partition hf ra m n r Hn).
  unfold DecC17.hash_partition_calls, DecC17.hash_partition, hasher_calls, key_is_nil, encode_err, write_err, hash_of.
  destruct (m_key m) as [|b|e]; cbn [gerr_eqb negb map erase_call app].
  - split; reflexivity.
  - destruct (hf b) as [h|e]; cbn [gerr_eqb negb]; split; reflexivity.
  - split; reflexivity.
Qed.

(* what the protocol buys: whatever the hasher held before (the previous message's key), after these calls it holds
   exactly this message's key bytes — so Sum32 is a function of the key alone, also for the empty key *)
Lemma hasher_state_after_calls : forall st b m, m_key m = KBytes b -> hasher_run st (hasher_calls m) = b.
Proof. intros st b m E. unfold hasher_calls. rewrite E. reflexivity. Qed.

(* ---- partitionMessage, first slice: which list is offered ---- *)
Definition is_dynamic (p : partitioner) : bool :=
  match p with PHash _ => true | PCustom _ (Some _) _ => true | _ => false end.
Definition msg_requires (p : partitioner) (m : msg) : bool :=
  match p with PHash _ => key_nonnil m | PCustom _ (Some d) _ => d | _ => false end.
Definition static_requires (p : partitioner) : bool :=
  match p with PManual => true | PHash _ => true | PCustom rc _ _ => rc | _ => false end.
Definition cres_list (c : cres) : list Z := match c with COk l => l | CErr _ => [] end.
Definition cres_err (c : cres) : gerr := match c with COk _ => ENil | CErr e => EK e end.
Definition cres_of (l : list Z) (e : gerr) : cres := match e with ENil => COk l | EK x => CErr x | _ => CErr (-999) end.

Lemma cres_roundtrip : forall c, cres_of (cres_list c) (cres_err c) = match c with COk l => COk l | CErr e => CErr e end.
Proof. destruct c; reflexivity. Qed.

Lemma tie_partition_source : forall p m md l0 e0,
  let '(parts, err, ex) :=
    DecC17.partition_source l0 e0 (is_dynamic p) (msg_requires p m) (static_requires p)
      (cres_list (client_partitions md)) (cres_err (client_partitions md))
      (cres_list (client_writable md)) (cres_err (client_writable md)) in
  offered p m md = cres_of parts err /\ ex = ExFall.
Proof.
  intros p m md l0 e0. unfold DecC17.partition_source, offered. cbv zeta.
  assert (H : requires_consistency p m = if is_dynamic p then msg_requires p m else static_requires p).
  { destruct p as [| | c | h | rc [d|] o]; reflexivity. }
  rewrite H. destruct (if is_dynamic p then msg_requires p m else static_requires p).
  - split; [|reflexivity]. destruct (client_partitions md); reflexivity.
  - split; [|reflexivity]. destruct (client_writable md); reflexivity.
Qed.

(* ---- partitionMessage, second slice: empty list, partitioner error, range check, partitions[choice] ---- *)
Definition pick_choice (o : pout) : Z := match o with Chose c => c | _ => -1 end.
Definition pick_err (o : pout) : gerr := match o with Fail e => EOther e | _ => ENil end.
Definition rout_of_pick (x : gerr * Z * exit gerr) : rout :=
  match x with
  | (_, t, ExFall) => RTo t
  | (_, _, ExReturn (EK e)) => RErr e
  | (_, _, ExReturn (EVar _)) => RErr err_invalid_partition
  | (_, _, ExReturn (EOther e)) => RErr e
  | _ => RPanic
  end.

Lemma znth_zidx : forall ps c t, znth ps c = Some t -> 0 <= c -> zidx ps c = t.
Proof.
  intros ps c t H Hc. rewrite znth_nth_error in H by exact Hc. unfold zidx.
  apply nth_error_nth. exact H.
Qed.

Lemma tie_partition_pick : forall p m md r ps e0,
  offered p m md = COk ps -> Z.of_nat (length ps) < 2147483648 ->
  let o := fst (Model.partition p m (Z.of_nat (length ps)) r) in
  (match o with Chose _ => True | Fail _ => True | _ => ps = [] end) ->
  fst (route p m md r) = rout_of_pick (DecC17.partition_pick e0 (m_partition m) ps (pick_choice o) (pick_err o)).
Proof.
  intros p m md r ps e0 Ho Hlen o Hok. unfold route. rewrite Ho.
  unfold DecC17.partition_pick. cbv zeta. unfold zlen.
  rewrite wrap32_small by (split; [apply (Z.le_trans _ 0); [discriminate | apply Zle_0_nat] | exact Hlen]).
  destruct (Z.of_nat (length ps) =? 0) eqn:En; [reflexivity|].
  subst o. destruct (Model.partition p m (Z.of_nat (length ps)) r) as [o p'] eqn:Ep. cbn [fst] in *.
  destruct o as [c|e| |]; cbn [pick_choice pick_err gerr_eqb negb fst].
  - destruct ((c <? 0) || (c >=? Z.of_nat (length ps))) eqn:Er; [reflexivity|].
    apply orb_false_iff in Er as [E1 E2]. apply Z.ltb_ge in E1.
    assert (Hc : c < Z.of_nat (length ps)) by (destruct (Z.geb_spec c (Z.of_nat (length ps))); [discriminate | assumption]).
    destruct (znth_some ps c (conj E1 Hc)) as [t Ez]. rewrite Ez. cbn [fst rout_of_pick].
    rewrite (znth_zidx ps c t Ez E1). reflexivity.
  - reflexivity.
  - subst ps. discriminate.
  - subst ps. discriminate.
Qed.

(* setPartitionCache's filter loop, regenerated from client.go: the model's "leaderless" flag of a partition is exactly
   "its metadata carries LEADER_NOT_AVAILABLE (5)"; a partition carrying any other partition-level error (e.g.
   REPLICA_NOT_AVAILABLE) has an available leader and stays writable; every partition is offered to consistent partitioners *)
Definition flag_of_err (x : Z * Z) : Z * bool := (fst x, snd x =? err_leader_not_available).

Lemma writable_filter_loop : forall l ret set parts,
  fst (DecC17.writable_filter_loop1 l ret set parts) =
  ret ++ map fst (filter (fun x => negb ((set =? 1) && (snd x =? 5))) l).
Proof.
  induction l as [|x l IH]; intros ret set parts; simpl; [now rewrite app_nil_r|].
  destruct ((set =? 1) && (snd x =? 5)); simpl; rewrite IH; [reflexivity|]. now rewrite <- app_assoc.
Qed.

Lemma tie_writable_parts : forall l : list (Z * Z),
  writable_parts (map flag_of_err l) = isort (fst (DecC17.writable_filter [] 1 l)).
Proof.
  intro l. unfold writable_parts, DecC17.writable_filter. rewrite writable_filter_loop. simpl. f_equal.
  induction l as [|x l IH]; simpl; [reflexivity|]. unfold err_leader_not_available.
  destruct (snd x =? 5); simpl; now rewrite <- IH.
Qed.

Lemma tie_all_parts : forall l : list (Z * Z),
  all_parts (map flag_of_err l) = isort (fst (DecC17.writable_filter [] 0 l)).
Proof.
  intro l. unfold all_parts, DecC17.writable_filter. rewrite writable_filter_loop. simpl. f_equal.
  induction l as [|x l IH]; simpl; [reflexivity|]. now rewrite <- IH.
Qed.

(* consequence stated on the metadata as the broker sent it: a partition is writable iff its error is not LEADER_NOT_AVAILABLE *)
Lemma writable_iff_leader_available : forall (l : list (Z * Z)) p,
  In p (fst (DecC17.writable_filter [] 1 l)) <-> exists e, In (p, e) l /\ e <> 5.
Proof.
  intros l p. unfold DecC17.writable_filter. rewrite writable_filter_loop. simpl.
  rewrite in_map_iff. split.
  - intros [[q e] [Hq Hin]]. simpl in Hq. subst q. apply filter_In in Hin as [Hin Hf]. simpl in Hf.
    exists e. split; [exact Hin|]. intro He. subst e. discriminate.
  - intros [e [Hin He]]. exists (p, e). split; [reflexivity|]. apply filter_In. split; [exact Hin|]. simpl.
    destruct (Z.eqb_spec e 5); [contradiction | reflexivity].
Qed.
