"""C06 — committed offsets are marked offsets, and no mark is lost (offset_manager.go)."""
import glob
import os
import threading

from decgen_tie import run_decgen


def run(c):
    c.rule = ("operation sequences on a real OffsetManager against a scripted coordinator: corpus witnesses, every sequence "
              "of length <= depth over a 25-symbol alphabet (Mark/Reset lo-mid-hi, AsyncClose, Commit x verdict class x window ops "
              "x ops before releasePOMs, Close x attempt scripts) on one partition, sampled sequences of length 3-5 on 1-2 "
              "partitions, seeded random sequences up to length 40 on 1-3 partitions; plus (monitor only) consumer-group sessions whose handler "
              "marks/resets from Setup, ConsumeClaim and Cleanup, ended by cancelling Consume; a case is non-trivial when at least one "
              "Mark/Reset call is made and at least one OffsetCommit request reaches the coordinator; distinct = distinct (script, observation) JSON")
    c.trust("correspondence harness go/harness/cmd/c06corr + go/shims/c06_shim.go (scripted coordinator on MockBroker, error-id and metadata-id encoding)")
    c.trust("Coq 8.16.1 kernel + vm_compute (evaluation of the model on the harness cases)")
    c.assume("one committer at a time (ticker or manual Commit, as the API intends); Close starts when no commit is in flight")
    c.assume("a commit that fails at connection level was applied by the coordinator before the failure is observed, or never (no late application)")
    c.assume("the coordinator stores exactly the blocks it answers with error code 0; no other writer to the group's offsets")
    c.assume("loops over partitions in constructRequest/handleResponse/releasePOMs are treated as atomic (they take one partition lock at a time and application calls touch one partition)")
    # coq/C06/*.v + Properties/C06.v; C06/TieGen.v requires Gen/DecC06.vo (golden) and Gen/{GoInt,DecTypes}.vo, which make
    # builds as dependencies (the other groups' goldens under coq/Gen are not touched)
    if not c.coq_make():
        return
    c.coq_properties()
    # regeneration tie: MarkOffset / ResetOffset / updateCommitted / NextOffset / handleResponse's verdict switch are translated
    # from the tree under test and proved equal to the golden coq/Gen/DecC06.v, which C06/TieGen.v (c06_tie_*) ties to the model
    run_decgen(c, "C06")
    b = c.go_build("c06corr")
    if not b:
        return
    if c.tier == "quick":
        args = ["-depth", "2", "-nshort", "500", "-n", "250", "-nsess", "40"]
    else:
        args = ["-depth", "3", "-nshort", "6000", "-n", "6000", "-nsess", "400"]
    args += os.environ.get("C06CORR_SELFTEST", "").split()     # harness self-test only: "-failcase N" / "-crashcase N"
    rc, out = c.run([b, "-out", c.build, "-seed", str(c.seed)] + args, timeout=2400)
    # a case the harness could not run (listener / connection could not be opened after all retries, unexpected panic inside a
    # case) is not an observation of the code: it is left out of the case files and reported as a broken tie naming the case
    for l in out.splitlines():
        if l.startswith("HARNESSFAIL "):
            c.break_("corr", "c06corr: " + l[len("HARNESSFAIL "):].split(" script=", 1)[0] + " (case not run)", l)
    files = [l.split(" ", 1)[1] for l in out.splitlines() if l.startswith("CASEFILE ")]
    # consumer-group session cases: the property checked directly on the implementation (monitor only, no model behind them)
    for l in out.splitlines():
        if l.startswith("SESSFILE "):
            c.load_cases(l.split(" ", 1)[1])
    if rc != 0:
        # the harness process died: name the case it was running and still evaluate every shard it had completed
        culprit = ""
        try:
            culprit = open(os.path.join(c.build, "c06corr_current.json")).read()
        except OSError:
            pass
        c.break_("corr", "c06corr harness run failed (rc %d) while running case %s" % (rc, culprit[:300] or "?"), out[-3000:] + "\n" + culprit)
        files = sorted(f for f in glob.glob(os.path.join(c.build, "cases_c06_*.v"))
                       if os.path.exists(f[:-2] + ".jsonl"))
        if not files:
            return
    # coqc writes a .glob of ~5 MB per case file (1.1 GB in the thorough tier; vlib.coqc has no -noglob): remove each one as soon
    # as its file has been compiled, so that a run needs ~100 MB and does not fail on a nearly full disk
    stop = threading.Event()

    def reap():
        while True:
            for g in glob.glob(os.path.join(c.build, "cases_c06_*.glob")):
                if os.path.exists(g[:-5] + ".vo"):
                    try:
                        os.remove(g)
                    except OSError:
                        pass
            if stop.wait(1.0):
                return
    t = threading.Thread(target=reap, daemon=True)
    t.start()
    try:
        c.eval_cases(files, name="offset manager correspondence")
    finally:
        stop.set()
        t.join()
        reap_last = glob.glob(os.path.join(c.build, "cases_c06_*.glob"))
        for g in reap_last:
            try:
                os.remove(g)
            except OSError:
                pass
