"""C18, producer half (C18a): each producer interceptor runs exactly once per submitted message, first pass only,
in configuration order, never for retries or internal markers; a panicking interceptor is contained.
Driver: checks/c18.py (coq_make + coq_properties happen there)."""
import c01


def run_part(c):
    c.rule = (c.rule + " | " if c.rule else "") + (
        "C18a: the C01 fault-script scenarios with 1-5 counting / header-appending / panicking / nil interceptors configured, as pointer, func-typed adapter or by-value struct with a slice (unhashable dynamic types); "
        "compared: the interceptor invocations inside the dispatcher's step log (exact, in order) and the interceptors' own call log per message id")
    c.trust("Go harness go/harness/internal/cluster + shims go/shims/producer_*.go (C18a rides on the C01 machinery)")
    c.assume("an interceptor that panics does so before mutating the message (harness interceptors are written that way)")
    c01.run_common(c, "c18prod", 300, 3000)
