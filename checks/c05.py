"""C05 — idempotent producer never writes a message twice (broker rules + async-producer actor model, coq/C05 over coq/Producer)."""
import json
import os

RULE = ("fault-script scenarios on the real idempotent AsyncProducer (Idempotent, MaxOpenRequests=1, acks=all, Retry.Max 1-3, v0.11) against the "
        "idempotent cluster simulator go/harness/internal/idembroker (per partition: producer epoch, last sequence, last five batch descriptors; duplicate of a "
        "cached batch -> Ok + cached base; first = last+1 or 0 on a new epoch -> append; otherwise OutOfOrderSequenceNumber; lower epoch -> InvalidProducerEpoch): "
        "corpus of the refutation witnesses and in-class histories + seeded random scenarios {1,2} brokers x {1..3} partitions x flush {immediate, Messages 2-4 + "
        "timer, MaxMessages} x 3-8 messages in 1-3 waves (thorough: up to 40 in 6 waves) x fault scripts of <= 3 requests (thorough <= 11) over per-partition "
        "{ok, retriable before append, error after append (lost acknowledgement answered per partition), leader moved, fatal, missing block} and, in one scenario "
        "of six, connection-level {dropped before append, acknowledgement lost after append}, x steered schedules (a goroutine held at bridge.send / bp.response / "
        "retryBatch.start / pp.recv / bp.recv / pp.send while the next wave is submitted) x seeded jitter "
        "x an application that recycles message objects (later messages sent in the *ProducerMessage objects that came back on Successes()/Errors(), also while the partition is in a retry level with the fin marker held: parked, sent by flushRetryBuffers). Per run: the monitor (no id appended twice, every "
        "success in the log exactly once at the reported offset, batches contiguous per epoch, resent batch identical, producer id) and one Coq case (every request "
        "+ fault re-decided by the model's broker rules and compared with the simulator's verdicts/answers/logs; the sequence stamps replayed through the "
        "transaction-manager functions; every retryBatch goroutine replayed through Actors.rb_step). Non-trivial = a request was faulted or two messages share a partition")


def run(c):
    c.rule = RULE
    c.trust("Coq 8.16.1 kernel + vm_compute (evaluation of the broker rules, transaction manager and rb_step on the harness cases)")
    c.trust("Go harness go/harness/internal/idembroker (idempotent cluster simulator on sarama.MockBroker, hook observer + steering gates, "
            "history-shape classification, monitor) and in-package shims go/shims/c05_shim.go, producer_obs.go, producer_cluster.go (read-only)")
    c.trust("the broker rules themselves (coq/C05/Model.v decide/apply_batch) are a transcription of Kafka's ProducerStateManager as summarised in DESIGN section 4 C05; "
            "the simulator implements them a second time in Go and the two are compared on every request")
    c.trust("atomicity abstraction of the actor composition coq/Producer/Compose.v (one handler invocation = one step; unbounded FIFO channels), tied to the code by "
            "the C01 check's local trace validation")
    c.assume("idempotent mode as config.go Validate demands it: Idempotent, Net.MaxOpenRequests = 1, RequiredAcks = WaitForAll, Retry.Max >= 1, Version >= 0.11")
    c.assume("one producer id per producer (InitProducerID once); message identity = ProducerMessage.Metadata / record value; each identity submitted once "
             "(a returned OBJECT may be sent again with a new identity: ProducerMessage.clear, c05_returned_message_is_fresh)")
    c.assume("replicated log abstraction: the producer state of a partition survives a leader move")
    # proposed known findings not yet merged into KNOWN_FINDINGS.json by the coordinator are honoured from the notes file
    prop = os.path.join(os.path.dirname(os.path.abspath(__file__)), "notes", "C05_known_findings.json")
    if os.path.exists(prop):
        orig = c.known
        extra = [k for k in json.load(open(prop)).get("findings", []) if k.get("property") == "C05"]

        def known():
            have = orig()
            sigs = {k.get("signature") for k in have}
            return have + [k for k in extra if k.get("signature") not in sigs]
        c.known = known
    if not c.coq_make(dirs=["Producer", "C05"]):
        return
    c.coq_properties()
    from decgen_tie import run_decgen
    run_decgen(c, "C05")   # Config.Validate clauses + ProducerMessage.clear vs the proved golden coq/Gen/DecC05.v (tied to idem_cfg / fresh_of by C05/TieGen.v)
    run_decgen(c, "C01")   # getAndIncrementSequenceNumber / bumpEpoch / stamping condition vs coq/Gen/DecC01.v (tied to txn_stamp / txn_bump)
    b = c.go_build("c05corr")
    if not b:
        return
    n = 600 if c.tier == "quick" else 8000
    argv = [b, "-out", c.build, "-seed", str(c.seed), "-n", str(n), "-tier", c.tier]
    if c.replay:
        argv += ["-replay", os.path.abspath(c.replay)]
    rc, out = c.run(argv, timeout=3000)
    if rc != 0:
        c.break_("corr", "c05corr harness run failed", out)
        return
    files = [l.split(" ", 1)[1] for l in out.splitlines() if l.startswith("CASEFILE ")]
    c.eval_cases(files, name="idempotent producer vs broker rules / transaction manager / retryBatch")
    for l in out.splitlines():
        if l.startswith("RAN "):
            c.extra.setdefault("harness", []).append(l)
