"""The `decgen` tie: small sarama decision functions regenerated from the source on every run.

Use inside a property's checks/cxx.py:

    from decgen_tie import run_decgen
    def run(c):
        ...
        run_decgen(c, "C16")          # group = go/decgen/specs/<group>.json, golden = coq/Gen/Dec<group>.v

What it does (c is a vlib.Check):
  1. runs go/decgen on vlib.REPO and writes Dec<group>.v into c.build;
  2. translator stops (source outside the subset / the atom table)  -> c.break_("gen", ...) per stop message;
  3. output byte-identical to the committed golden                 -> one discharged obligation;
  4. otherwise compiles the regenerated file (logical root SVB) and coq/Tie/DecEq_<group>.v, whose lemmas
     `deceq_<name> : forall args, SVB.Dec<group>.<name> args = SV.Gen.Dec<group>.<name> args` are obligations;
     every failing lemma is reported by name (the file is re-checked without the lemmas already known to fail).
Returns a dict {"status": "identical" | "equivalent" | "differs" | "stopped" | "error", "failed": [lemma names], "n": functions}.
"""
import json
import os
import re
import shutil

import vlib

DECGEN_DIR = os.path.join(vlib.VERIF, "go", "decgen")
SUPPORT = ["Gen/GoInt.vo", "Gen/DecTypes.vo", "Gen/DecTac.vo"]


def _lemma_block(name):
    return re.compile(r"\nLemma %s :.*?Hint Rewrite %s : deceq\.\n" % (re.escape(name), re.escape(name)), re.S)


def run_decgen(c, group, max_reports=12):
    spec = os.path.join(DECGEN_DIR, "specs", group + ".json")
    golden = os.path.join(vlib.COQ, "Gen", "Dec%s.v" % group)
    tie_rel = "Tie/DecEq_%s.v" % group
    res = {"status": "error", "failed": [], "n": 0}
    c.trust("translator go/decgen with atom table go/decgen/specs/%s.json (Go subset -> Gallina; see checks/notes/decgen.md) and the "
            "operator meanings in coq/Gen/GoInt.v, coq/Gen/DecTypes.v" % group)
    for p in (spec, golden, os.path.join(vlib.COQ, tie_rel)):
        if not os.path.exists(p):
            c.break_("gen", "decgen %s: %s is missing" % (group, os.path.relpath(p, vlib.VERIF)))
            return res
    rc, out = c.go_tool("decgen", ["-repo", vlib.REPO, "-spec", spec, "-out", c.build, "-list"], timeout=300)
    stops = [l[len("decgen: STOP "):] for l in out.splitlines() if l.startswith("decgen: STOP ")]
    if rc == 3 or stops:
        for s in stops or [out[-600:]]:
            c.break_("gen", "decgen %s: translation stopped (the source left the translated subset or the atom table): %s" % (group, s), out)
        res["status"] = "stopped"
        res["stops"] = stops
        c.extra.setdefault("decgen", {})[group] = {"status": "stopped", "stops": stops}
        return res
    if rc != 0:
        c.break_("gen", "decgen %s: the translator did not run (rc %d)" % (group, rc), out)
        return res
    try:
        infos = json.loads(out[out.index("["):])
    except ValueError:
        infos = []
    res["n"] = n = len(infos)
    entry = {"functions": infos}
    c.extra.setdefault("decgen", {})[group] = entry
    for i in infos:
        for a in i.get("assumes") or []:
            c.assume("decgen: " + a)
    gen = os.path.join(c.build, "Dec%s.v" % group)
    if open(gen, "rb").read() == open(golden, "rb").read():
        c.oblige("decgen %s: regenerated definitions identical to the proved golden (%d functions)" % (group, n), True)
        res["status"] = entry["status"] = "identical"
        return res
    # the source changed: is the regenerated definition still the same function?
    ok, mout = vlib.coq_make(SUPPORT + ["Gen/Dec%s.vo" % group])
    if not ok:
        c.break_("proof", "decgen %s: coq/Gen support files / golden do not build" % group, mout)
        return res
    ok, gout = c.gen_coq(gen, "Dec%s.v (decgen %s)" % (group, group))
    if not ok:
        res["status"] = entry["status"] = "differs"
        return res
    ok, tout = c.tie_file(tie_rel, name="decgen %s" % group)
    if ok:
        res["status"] = entry["status"] = "equivalent"
        return res
    res["status"] = entry["status"] = "differs"
    failed = [o[0][len("tie "):] for o in c.obligations if not o[1] and o[0].startswith("tie deceq_")]
    failed = [f for f in failed if f not in res["failed"]]
    res["failed"] += failed[-1:]
    # look for further failing lemmas: drop the ones known to fail and check the rest again
    text = open(os.path.join(vlib.COQ, tie_rel)).read()
    names = re.findall(r"^Lemma (deceq_[A-Za-z0-9_']+) :", text, re.M)
    rounds = 0
    while res["failed"] and rounds < max_reports:
        rounds += 1
        cur = text
        for f in res["failed"]:
            cur = _lemma_block(f).sub("\n", cur)
        dst = os.path.join(c.build, "DecEq_%s_rest%d.v" % (group, rounds))
        open(dst, "w").write(cur)
        ok, o2 = c.coqc(dst, extra_q=[(c.build, "SVB")], timeout=900)
        if ok:
            for nme in names:
                if nme not in res["failed"]:
                    c.oblige("tie " + nme, True)
            break
        m = re.search(r"line (\d+), characters", o2)
        nxt = None
        if m:
            ln = int(m.group(1))
            for mm in re.finditer(r"^Lemma (deceq_[A-Za-z0-9_']+) :", cur, re.M):
                if cur.count("\n", 0, mm.start()) + 1 <= ln:
                    nxt = mm.group(1)
        if not nxt or nxt in res["failed"]:
            break
        res["failed"].append(nxt)
        c.oblige("tie " + nxt, False, o2)
    entry["failed"] = res["failed"]
    return res
