"""C10 — malformed input yields an error, never a crash. Two parts built by different builders:
   c10_prim (primitives, varints, length/CRC fields, records layer; coq/Wire, Properties/C10a.v)
   c10_fmt  (format language + wiregen over all request/response bodies; coq/WireFmt, Properties/C10b.v)"""
import importlib


def run(c):
    if not c.coq_make(dirs=["Wire", "WireFmt", "C10"]):
        return
    c.coq_properties()
    for part in ("c10_prim", "c10_fmt"):
        try:
            m = importlib.import_module(part)
        except ModuleNotFoundError:
            continue
        m.run_part(c)
