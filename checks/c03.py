"""C03 — a partition consumer delivers the log exactly once, in order, unaltered."""
from decgen_tie import run_decgen


def run(c):
    c.rule = ("generated logs (0-40 records in 1-8 batches; v0, v1, v1 compressed/relative, v0 compressed/absolute, v2, v2 with compaction "
              "holes, control batches, legacy followed by v2) x start offsets at every position x fetch scripts (splits into up to 4 "
              "responses, partial trailing data, small fetch sizes, error codes / missing block / empty / throttled / no answer / dropped "
              "connection) x fetch versions 0-11; parse tier: real decoder + real parseResponse step by step; end-to-end tier: real "
              "PartitionConsumer against a MockBroker (reader pace, channel buffer, several partitions per broker, leader loss with failing "
              "re-dispatch); pipeline tier: the hook log of up to 60 of those runs replayed step by step through Consumer/Pipeline.v. Non-trivial = at least one "
              "record delivered; distinct = distinct (scenario, observation) JSON")
    c.trust("correspondence harness go/harness/cmd/c03corr + internal/conslog (log generator, hand-written FetchResponse body encoder, "
            "simulated broker, dump of decoded responses, reference filter of the log) and go/shims/consumer_shim.go")
    c.trust("Coq 8.16.1 kernel + vm_compute (evaluation of the model on the harness cases)")
    c.assume("a faithful broker returns whole stored batches, consecutive, starting at the batch whose last offset >= the requested offset "
             "(checked per step on the harness' broker by step_faithfulb)")
    c.assume("Consumer.Fetch.Max = 0 or every stored batch fits into it (outside: the code reports ErrMessageTooLarge and steps over one "
             "offset; those cases are compared model-vs-code only)")
    c.assume("stored batches are non-empty and offsets stay far from the int64 limits")
    c.assume("pipeline model: one broker, time abstract, shutdown and preferred-read-replica redispatch not modelled; its tie needs the "
             "verifPoint call sites of hooks/consumer_pipeline.patch (without them no pipeline cases are produced)")
    if not c.coq_make(dirs=["Consumer"]):
        return
    c.coq_properties()
    # chooseStartingOffset and the fetch-size escalation block, regenerated from consumer.go and compared with the
    # golden the c03_tie_* theorems are about
    run_decgen(c, "C03")
    b = c.go_build("c03corr")
    if not b:
        return
    n, e = (320, 96) if c.tier == "quick" else (6000, 1200)
    rc, out = c.run([b, "-out", c.build, "-seed", str(c.seed), "-n", str(n), "-e2e", str(e)], timeout=2400)
    if rc != 0:
        c.break_("corr", "c03corr harness run failed", out)
        return
    files = [l.split(" ", 1)[1] for l in out.splitlines() if l.startswith("CASEFILE ")]
    c.eval_cases(files, name="consumer parse + end-to-end correspondence")
