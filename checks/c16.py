"""C16 — produce requests respect the size and count limits, and flush on time."""
from decgen_tie import run_decgen


def run(c):
    c.rule = ("(a) a real produceSet driven through an in-package shim: generated message sequences (sizes straddling MaxMessageBytes, the "
              "per-partition batch limit and MaxRequestSize-10KiB by -1/0/+1; nil/empty keys; headers; encode failures) x versions 0.8.2 / 0.10 / "
              "0.11 / 2.1 x Flush.Messages/Bytes/Frequency/MaxMessages x MaxRequestSize; every wouldOverflow / add / dropPartition / readyToFlush / "
              "byteSize / buildRequest+encode decision and counter compared; wide cases (70 long-named topics) push the wire size over MaxRequestSize; "
              "(b) real AsyncProducer against a mock broker with response latency: every produce request measured (messages, per-partition key+value "
              "bytes, wire length), every message's fate compared with the dispatcher model; (c) is a buffered message flushed with no further input "
              "(no trigger / timer / count / bytes reached or not); (d) steered two-broker scripts where a NOT_LEADER response drops partitions from the "
              "waiting buffer; (e) local trace validation: every broker worker of the runs in (b)-(d) is logged at the hook points (event, bufferCount, "
              "bufferBytes, timer armed/fired, needsRetry; `output` with the bp.iter point) and replayed step by step through the model. Non-trivial: > 10 operations / a request with a multi-message batch / every flush case")
    c.trust("correspondence harness go/harness/cmd/c16corr + shim go/shims/verif_c16.go (message construction, request summarising, re-encoding of received requests to measure the wire length)")
    c.trust("Coq 8.16.1 kernel + vm_compute (evaluation of the model on the harness cases)")
    c.assume("Encoder contract: Length() = len(Encode()); sizes are non-negative")
    c.assume("time is abstract: the flush timer is an event; 'on time' is enabledness of the hand-off (observed as: the request arrives with no further input)")
    c.assume("the broker worker's retry bookkeeping (needsRetry) is an oracle input of the step function, read from the worker's state at the hook points; idempotent epoch roll-over is not modelled")
    if not c.coq_make():
        return
    c.coq_properties()
    run_decgen(c, "C16")
    run_decgen(c, "C01")   # needs_retry, wait_for_space_recheck, bp_input_class: the worker loop's other decision slices
    b = c.go_build("c16corr")
    if not b:
        return
    n = 200 if c.tier == "quick" else 3000
    seed = c.seed
    if c.replay:
        # cases are generated adaptively (sizes chosen from the real counters): a replay re-runs the recorded seed and tier
        import json
        rp = json.load(open(c.replay))
        seed = int(rp.get("seed", seed))
        n = 200 if rp.get("tier", "quick") == "quick" else 3000
    rc, out = c.run([b, "-out", c.build, "-seed", str(seed), "-n", str(n)], timeout=2400)
    if rc != 0:
        c.break_("corr", "c16corr harness run failed", out)
        return
    files = [l.split(" ", 1)[1] for l in out.splitlines() if l.startswith("CASEFILE ")]
    c.eval_cases(files, name="produce limits correspondence")
