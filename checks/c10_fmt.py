"""C10, format-language layer: decoders of every *Response body and of the group-member data (go/wiregen -> coq/WireFmt)."""
import os, re
from c09_fmt import wiregen

CAP = 1 << 32   # address-space cap of the decoding subprocess; the model uses the same number


def run_part(c):
    c.rule += (" | format layer: valid encodings of generated response values x (every prefix of the first bytes, bit flips in "
               "the first 64 bytes, each count/length field := -1, 0, max, remainder+1, -2) + one model-computed witness per "
               "unguarded collection; decoded in a subprocess with RLIMIT_AS = 4 GiB, panics recovered per input; a case is "
               "non-trivial when the input is non-empty; distinct = distinct (body, version, bytes)")
    c.trust("go/wiregen (what it claims the decode methods say; cross-checked by the differential run: the format interpreter "
            "must predict the implementation's outcome class on every malformed input)")
    c.trust("go/harness/cmd/c10fmt (mutations, memory-capped worker, outcome classification)")
    c.assume("format layer: allocation is accounted per make site (count x element size against the cap), as in c10_format_safe")
    c.assume("format layer: decoders that validate values beyond the format (Broker address, ...) may return an error where the "
             "model decodes; irregular decoders in scope (go/wiregen/irregular.json) are covered by the subprocess run only")
    j = wiregen(c)
    if j is None:
        return
    ok, out = c.tie_file("Tie/C10Gen.v")
    wpath = os.path.join(c.build, "witnesses.txt")
    nw = 0
    with open(wpath, "w") as f:
        flat = re.sub(r"\s+", " ", out)
        for m in re.finditer(r'\("([^"]+)",\s*\[([0-9;\s]*)\]\)', flat):
            nums = [int(x) for x in m.group(2).split(";") if x.strip()]
            if len(nums) >= 2:
                f.write("%s %d %d %s\n" % (m.group(1), nums[0], nums[1], bytes(nums[2:]).hex() or "-"))
                nw += 1
    c.extra["c10_model_witnesses"] = nw
    # corpus: the witnesses of the sites repaired by fixes/c10_negative_array_counts.patch stay in the replay set
    cpath = os.path.join(os.path.dirname(os.path.dirname(os.path.abspath(__file__))), "corpus", "c10_null_array_witnesses.txt")
    index = {r["name"]: i for i, r in enumerate(j["rows"])}
    nc = 0
    if os.path.exists(cpath):
        with open(wpath, "a") as f:
            for line in open(cpath):
                p = line.split()
                if len(p) == 4 and not line.startswith("#") and p[1] in index:
                    f.write("%s %d %s %s\n" % (p[0], index[p[1]], p[2], p[3]))
                    nc += 1
    c.extra["c10_corpus_witnesses"] = nc
    m = re.search(r"= (\[[^\]]*\])\s*: list string", re.sub(r"\s+", " ", out))
    if m:
        c.extra["c10_fully_guarded_decoders"] = re.findall(r'"([^"]+)"', m.group(1))
    b = c.go_build("c10fmt")
    if not b:
        return
    if c.tier == "quick":
        args = ["-n", "1", "-truncs", "16", "-flips", "6", "-marks", "6"]
    else:
        args = ["-n", "8", "-truncs", "64", "-flips", "40", "-marks", "20", "-group", "600"]
    rc, out = c.run([b, "-out", c.build, "-seed", str(c.seed), "-cap", str(CAP), "-witness", wpath,
                     "-table", os.path.join(c.build, "wiregen.json")] + args, timeout=3000)
    if rc != 0:
        c.break_("corr", "c10fmt harness run failed", out)
        return
    for l in out.splitlines():
        if l.startswith("MISSING-CONSTRUCTOR"):
            c.break_("corr", "c10fmt: no constructor for body %s in go/shims/wire2_shim.go (new protocol body?)" % l.split()[1])
        if l.startswith("STATS"):
            c.extra["c10fmt_stats"] = l[6:]
    files = [l.split(" ", 1)[1] for l in out.splitlines() if l.startswith("CASEFILE ")]
    c.eval_cases(files, name="format layer: outcome class of every malformed input", timeout=2400)
