"""C13 — assignments are balanced, and the sticky strategy is sticky."""
import os
import c08


def run(c):
    import vlib
    c.rule = ("range / round-robin: small scope (members<=3 x topics<=2 x partitions<=4 x all subscription subsets, sampled in quick) + random groups "
              "(<=50 members, <=20 topics, <=200 partitions; half of the round-robin ones with identical subscriptions); sticky: honest rebalance chains "
              "(each plan fed back as every member's user data through the real encoding, generation increasing) of 3-6 steps, half with identical "
              "subscriptions (unchanged replans, joins, leaves), half with arbitrary changes (resubscribe, partition add/drop, topic create/delete); "
              "non-trivial = at least 2 members or 2 partitions; distinct = distinct (input, observation, previous plan) JSON")
    c.trust("correspondence harness go/harness/cmd/c13corr + internal/balgen (generators, chain feedback, canonical plan order, oracle reconstruction)")
    c.trust("go/shims/c08_shim.go (in-package access: hash value, user-data decoder, observer collecting the iteration orders)")
    c.trust("Coq 8.16.1 kernel + vm_compute (evaluation of the models and of the balance / stickiness tests on the harness cases)")
    c.trust("Flocq 4.1.0 as the definition of IEEE-754 binary64 arithmetic (tied to Go's float64 by C08's pointwise boundary table)")
    c.assume("member ids and topic names are ASCII; subscriptions list a topic once")
    c.assume("round-robin balance: every member subscribes to every topic that has partitions (the pairwise reading for a subset of identical members is false of the algorithm: A{s} B{s} D{u}, partitions s-0,u-0,s-1)")
    c.assume("sticky chain statements: honest user data (each member reports the plan of the previous round); runs that do not terminate are C08's known finding")
    if not c.coq_make(dirs=["C08", "C13"]):
        return
    c.coq_properties()
    if not c08.hooked_overlay(c, vlib):
        return
    b = c.go_build("c13corr")
    if not b:
        return
    files = c08.run_harness(c, vlib, b)
    if files is None:
        return
    c.eval_cases(files, name="balance / stickiness correspondence")
