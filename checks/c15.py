"""C15 — client metadata answers reflect the latest cluster metadata."""
import os
import re

import vlib
from decgen_tie import run_decgen


def run(c):
    c.rule = ("real Client against scripted sarama.MockBrokers. (1) histories: a cluster view mutated 1-4 times (topic appears / vanishes / "
              "errors per class 3,5,17,29,other / error clears, partition added / removed, leader moves / -1 / id not among brokers, "
              "broker added / removed / re-addressed / duplicated, controller moves), each followed by a full refresh, a per-topic "
              "refresh or none (reads refresh on a miss), then 10-57 reads (Partitions, WritablePartitions, Leader, Replicas, "
              "InSyncReplicas, OfflineReplicas, Brokers, Topics, Controller) in random order, metadata v5 and v1; every result compared. "
              "(2) candidates: 1-3 seeds (own listeners or known brokers' addresses) + 1-3 known brokers, each healthy / closed "
              "listener / dropping the connection mid-request, changing per round; constructor + 1-3 RefreshMetadata calls, "
              "Metadata.Retry.Max 0-2; 48 further scenarios under Metadata.Timeout = 150 ms with slow-failing candidates (silent for 220 ms, "
              "then closed) so that the deadline passes during a pass, Retry.Max 0-1, followed by refreshes after recovery; 150 scenarios with leaderless answers (the refresh retries inside the call, Retry.Max 1-2) "
              "while other seeds are unreachable and set aside, advertised brokers reachable or not, further refreshes. (3) 3 readers concurrent with 150 alternating full refreshes. Non-trivial: >= 2 responses served "
              "and >= 10 calls (histories); >= 1 failing candidate and >= 2 rounds (candidates); both views observed (concurrent)")
    c.trust("correspondence harness go/harness/cmd/c15corr + go/shims/c19_shim.go, c15_shim.go (scripted MockBroker handler, seed order view)")
    c.trust("Coq 8.16.1 kernel + vm_compute (evaluation of the model on the harness cases)")
    c.trust("lockaudit (go/lockaudit, syntactic): every method of client that touches brokers / metadata / metadataTopics / "
            "cachedPartitionsResults / controllerID / coordinators / seedBrokers / deadSeeds does so between lock.Lock/RLock and the "
            "matching Unlock (writes under the write lock); helpers without locking are called with the write lock held — the premise of c15_atomic")
    c.assume("each critical section of client.go is one atomic step (sync.RWMutex); API reads that refresh on a miss are up to three steps")
    c.assume("map iteration order of client.brokers is an oracle: every order of the known brokers is accepted / quantified over, chosen anew for every pass of a refresh (each retry re-entry iterates the Go map afresh)")
    c.assume("when the metadata deadline passes is an environment event: the correspondence accepts any moment, the monitor states only "
             "rules that hold for every moment, and a monitor failure of a deadline scenario counts only if the same script fails twice")
    c.assume("SASL / topic-authorization failures (which end a refresh by design) are modelled but not produced by the harness")
    if not c.coq_make():
        return
    c.coq_properties()
    run_decgen(c, "C15")
    # the lock discipline the atomic-step model assumes
    rc, out = c.go_tool("lockaudit", [os.path.join(vlib.REPO, "client.go")])
    methods = len(re.findall(r"^METHOD ", out, re.M))
    c.oblige("lockaudit client.go: %d methods touch protected state, all under the lock" % methods, rc == 0 and "AUDIT ok" in out, out)
    c.extra["lockaudit"] = [l for l in out.splitlines() if l.startswith(("METHOD", "FINDING", "AUDIT"))]
    b = c.go_build("c15corr")
    if not b:
        return
    n = 600 if c.tier == "quick" else 6000
    conc = 4 if c.tier == "quick" else 40
    ndl = 48 if c.tier == "quick" else 480
    nll = 150 if c.tier == "quick" else 3000
    rc, out = c.run([b, "-out", c.build, "-seed", str(c.seed), "-n", str(n), "-conc", str(conc), "-dl", str(ndl), "-ll", str(nll)], timeout=2400)
    if rc != 0:
        c.break_("corr", "c15corr harness run failed (a crash here may be a concurrent map access)", out)
        return
    files = [l.split(" ", 1)[1] for l in out.splitlines() if l.startswith("CASEFILE ")]
    c.eval_cases(files, name="client metadata correspondence")
    if c.tier == "thorough":
        rb = c.go_build("c15corr", race=True)
        if rb:
            rdir = os.path.join(c.build, "race")
            os.makedirs(rdir, exist_ok=True)
            rc, out = c.run([rb, "-out", rdir, "-seed", str(c.seed), "-n", "40", "-conc", "10"], timeout=2400)
            c.oblige("race detector: readers concurrent with refreshes, no data race", rc == 0 and "DATA RACE" not in out, out)
