"""C18, consumer half (b-consumer): every consumer interceptor runs exactly once per message before delivery,
whatever the reader's pace; a panicking interceptor is contained.  Called by checks/c18.py after
c.coq_make(dirs=["Producer","Consumer","C18"]) and c.coq_properties()."""


def run_part(c):
    c.rule = (c.rule + " | " if c.rule else "") + (
        "consumer: generated logs (v2, v2 with holes, v1 compressed, transactional) consumed by a real PartitionConsumer with 1-3 "
        "counting/marking/panicking interceptors, ChannelBufferSize 0/1/3, MaxProcessingTime 15 ms, the reader stalling before 1-3 chosen "
        "messages until the feeder's slow-reader path fired (hook feeder.expiry), log cut into 1-4 responses, an error code in between; "
        "case 0 = the replayed witness (unbuffered, 1 interceptor, pause before the 3rd message). Non-trivial = something delivered")
    c.trust("correspondence harness go/harness/cmd/c18cons + internal/conslog (counting interceptors, reader steering through the "
            "feeder.expiry hook, bookkeeping of the responses served)")
    c.assume("consumer: the reader keeps reading; shutdown (child.dying) while the feeder is blocked is C12's subject and not modelled")
    c.assume("consumer: time is abstract in the feeder model: a schedule says how many MaxProcessingTime ticks fire while the feeder is "
             "blocked on a message; the harness makes two fire (the reader waits for the hook)")
    b = c.go_build("c18cons")
    if not b:
        return
    n = 60 if c.tier == "quick" else 1500
    rc, out = c.run([b, "-out", c.build, "-seed", str(c.seed), "-n", str(n)], timeout=2400)
    if rc != 0:
        c.break_("corr", "c18cons harness run failed", out)
        return
    files = [l.split(" ", 1)[1] for l in out.splitlines() if l.startswith("CASEFILE ")]
    c.eval_cases(files, name="consumer feeder/interceptor correspondence")
