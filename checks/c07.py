"""C07 — consumer-group sessions follow the documented life-cycle and resume from commits."""
from decgen_tie import run_decgen


def run(c):
    c.rule = ("real ConsumerGroup (NewConsumerGroupFromClient) against a scripted coordinator + partition leader on two MockBrokers; "
              "corpus + enumerated join/sync verdict scripts of length <= 4 + random cases (1-3 successive Consume calls, 1-2 topics x 1-3 partitions, "
              "committed offsets absent / in range / out of range, handler quota/mark behaviours, Setup/Cleanup errors, fetch/commit/leave verdicts, "
              "cancel / Close / heartbeat verdict / partition-count change at: before the call, the i-th join, inside Setup, first heartbeat, steady state) "
              "+ multi-session no-skip cases; non-trivial = a session was opened (Setup ran) or at least two join/sync requests were answered; "
              "distinct = distinct (script, observation) JSON")
    c.trust("correspondence harness go/harness/cmd/c07corr + shim go/shims/c07_shim.go (scripted coordinator, handler with steady-state barrier, error classification)")
    c.trust("schedule builder SV.C07.Corr.drive (turns script + observed scheduling choices into the input list given to Model.run)")
    c.trust("Coq 8.16.1 kernel + vm_compute (evaluation of the model on the harness cases)")
    c.assume("time is abstract: heartbeat ticks, back-off timers, partition-count polling are scheduler inputs")
    c.assume("the order of concurrent ConsumeClaim goroutines, the number of records a handler has received when the session ends, and the map "
             "iteration order of the claims are not fixed by the property: the run's own choices are fed to the model as the schedule")
    c.assume("partition consumer (C03) delivers contiguous offsets from the start offset; offset manager (C06) final flush retries are modelled as a bounded loop")
    if not c.coq_make():
        return
    c.coq_properties()
    # error-class switches of newSession (join, sync) and heartbeatLoop, regenerated from the source; the model is tied to the
    # goldens by c07_tie_join / c07_tie_sync / c07_tie_heartbeat (coq/Properties/C07.v)
    run_decgen(c, "C07")
    # c07_no_skip and the final-commit clause rest on the offset manager's contract (Section hypothesis discharged by the C06
    # theorems): tie this check to the regenerated offset-manager leaf logic as well (MarkOffset, ResetOffset, updateCommitted,
    # NextOffset, the commit verdict switch, the final-flush loop of Close, AddBlock — goldens proved against in coq/C06/TieGen.v)
    run_decgen(c, "C06")
    b = c.go_build("c07corr")
    if not b:
        return
    if c.tier == "quick":
        n, en = 900, 300
    else:
        n, en = 20000, 0   # 0 = every enumerated join x sync script (10 819)
    rc, out = c.run([b, "-out", c.build, "-seed", str(c.seed), "-n", str(n), "-enum", str(en)], timeout=2400)
    if rc != 0:
        c.break_("corr", "c07corr harness run failed", out)
        return
    files = [l.split(" ", 1)[1] for l in out.splitlines() if l.startswith("CASEFILE ")]
    c.eval_cases(files, name="consumer-group session correspondence")
