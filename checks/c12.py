"""C12 — shutdown always completes: no hang, no panic, channels closed."""
import glob
import json
import os


VERIF = os.path.dirname(os.path.dirname(os.path.abspath(__file__)))
C12DIR = os.path.join(VERIF, "coq", "C12")


def print_assumptions(c, names):
    """Print Assumptions of the statements is run at build time (coq/C12/ExportPA*.v redirect it to
    coq/C12/Export_<name>.out; walking the proofs takes over a minute). Every theorem of Properties/C12.v is
    `exact C12X.<name>`; its output file must exist and be at least as new as Export.vo."""
    def stale():
        ref = os.path.join(C12DIR, "Export.vo")
        bad = []
        for n in names:
            f = os.path.join(C12DIR, "Export_%s.out" % n)
            if not (os.path.exists(f) and os.path.exists(ref) and os.path.getmtime(f) >= os.path.getmtime(ref)):
                bad.append(n)
        return bad
    if stale():
        # outputs lost although the .vo files are up to date: rebuild the four small files that produce them
        for f in glob.glob(os.path.join(C12DIR, "ExportPA*.vo")):
            os.remove(f)
        c.coq_make()
    bad = stale()
    for n in bad:
        c.break_("proof", "Print Assumptions output coq/C12/Export_%s.out is missing or older than Export.vo" % n)
    out = "".join(open(os.path.join(C12DIR, "Export_%s.out" % n)).read() for n in names if n not in bad)
    axioms = c._collect_assumptions(out)
    c.oblige("Print Assumptions of the %d theorems (coq/C12/Export_*.out): closed under the global context" % len(names),
             not bad and not axioms and out.count("Closed under the global context") == len(names),
             "" if not axioms else "axioms: " + ", ".join(sorted(axioms)))


def run(c):
    c.rule = ("shutdown scenarios against sarama.MockBrokers (producer idle/mid-request/silent/retry+back-off/unreachable/failing with a slow reader/two retry levels then no leader at the flush; partition "
              "consumer idle/mid-fetch/silent/redispatch/leader loss/siblings on one worker with a leaderless child/slow reader/offset out of range; group join/join+sync retry/"
              "running/rebalance/empty assignment/handler waiting on the session context/initial offset fetch failing/every commit failing/no coordinator/silent join; offset manager idle/marking/commit in flight/failing/silent; client "
              "background refresh/held/down/SASL failing after the first connection; broker open/never/refused/SASL handshake or authentication failing/SASL ok) x random parameters (messages, partitions, buffer sizes, "
              "Return.Errors, retry counts, shared client) x Close or AsyncClose injected at the k-th observable event (quick: first, "
              "last, every third k; thorough: every k); one case per component instance = (model configuration, linearised "
              "observation of calls/returns/events/closes); non-trivial = at least two observations and the injection position was "
              "reached; distinct = distinct (spec, observation) JSON")
    c.trust("correspondence harness go/harness/cmd/c12corr + shim go/shims/c12_shim.go (scripted mock brokers, single-observer "
            "linearisation of what the application sees, 20 s hang bound with 250 ms network timeouts, crash = child process death)")
    c.trust("Coq 8.16.1 kernel + vm_compute (evaluation of the observer automata on the harness cases)")
    c.assume("the application keeps receiving from the public channels, writes nothing to Input() after closing a producer, calls "
             "Close of one object sequentially, and closes in the documented order")
    c.assume("network calls return (the harness gives every connection 250 ms timeouts); timer events after the close are finitely "
             "many (fuel parameter of the models, arbitrary)")
    c.assume("per component: the partition-consumer LTS has one child per broker worker (sharing = model Refs.v for any number of "
             "holders + c12_worker_refcount: each child follows Refs' holder protocol; on the code: scenario family 'siblings'), one "
             "topic/partition per producer, non-idempotent producer")
    if not c.coq_make():
        return
    ok, names = c.coq_properties()
    if ok:
        print_assumptions(c, names)
    b = c.go_build("c12corr")
    if not b:
        return
    args = [b, "-out", c.build, "-seed", str(c.seed), "-tier", c.tier]
    corpus = os.path.join(os.path.dirname(os.path.dirname(os.path.abspath(__file__))), "corpus", "c12_witnesses.json")
    if c.replay:
        args += ["-replay", c.replay]
    elif os.path.exists(corpus):
        args += ["-corpus", corpus]
    if c.tier != "quick":
        args += ["-par", "12"]
    rc, out = c.run(args, timeout=3000 if c.tier != "quick" else 600)
    if rc != 0:
        c.break_("corr", "c12corr harness run failed", out)
        return
    for l in out.splitlines():
        if l.startswith("INFO group-errors-lock="):
            c.extra["group_errors_lock"] = l.split("=", 1)[1].split()[0]
            c.assume("consumer group: tree has errorsLock=%s -> %s" % (c.extra["group_errors_lock"],
                     "c12_no_panic / c12_group_terminates apply" if c.extra["group_errors_lock"] == "true"
                     else "pinned tree: c12_no_send_on_closed_group_refuted / _partial apply (finding group:crash:send-on-closed-channel)"))
        if l.startswith("NOTE ") or l.startswith("RUNS ") or l.startswith("INFO "):
            c.note(l)
            if l.startswith("NOTE setup failed"):
                c.break_("corr", "c12corr: a scenario could not be set up against this tree", l)
    files = [l.split(" ", 1)[1] for l in out.splitlines() if l.startswith("CASEFILE ")]
    if not files:
        c.break_("corr", "c12corr produced no cases", out)
        return
    c.eval_cases(files, name="shutdown correspondence")
