"""C18 — interceptors run exactly once per message. Two parts:
   c18_prod (producer interceptors; b-producer; coq/Producer + Properties/C18a.v)
   c18_cons (consumer interceptors; b-consumer; coq/Consumer + Properties/C18b.v)"""
import importlib


def run(c):
    if not c.coq_make(dirs=["Producer", "Consumer", "C18"]):
        return
    c.coq_properties()
    for part in ("c18_prod", "c18_cons"):
        try:
            m = importlib.import_module(part)
        except ModuleNotFoundError:
            continue
        m.run_part(c)
