"""C19 — admin operations reach the right broker and report its verdict."""
from decgen_tie import run_decgen


def run(c):
    c.rule = ("real ClusterAdmin (NewClusterAdminFromClient) against 1-3 scripted sarama.MockBrokers: controller-bound operations "
              "(create/delete topic, create partitions, alter reassignments) x Admin.Retry.Max in {-1,0,1,2,3,5} x 0..Max+1 controller "
              "moves (honest clusters and arbitrary per-broker answers) x error-code classes / incomplete / dropped connection x "
              "Kafka version ranks 0.10.0..2.4.0 x metadata naming stale or unusable controllers; DeleteRecords over 1-7 partitions "
              "spread over leaders (unknown / unavailable leaders, per-partition codes, failing brokers); group operations over "
              "coordinators (describe with duplicates, list offsets v1/v2, delete). Non-trivial: at least one request reached a broker "
              "(ctl), >= 2 partitions (records), >= 2 protocol events (groups); distinct = distinct (script, observation) JSON")
    c.trust("correspondence harness go/harness/cmd/c19corr + go/shims/c19_shim.go (scripted MockBroker handlers, error classification, "
            "canonical sorting of map-ordered output)")
    c.trust("Coq 8.16.1 kernel + vm_compute (evaluation of the model on the harness cases)")
    c.assume("metadata and FindCoordinator requests are always answered (by the seed broker); failing metadata refreshes are C15's subject")
    c.assume("back-off sleeps are time-abstract (harness uses 0/1 ms)")
    c.assume("the cluster is a script: a stream of controller ids named by successive metadata responses and one row of per-broker "
             "answers per request sent")
    if not c.coq_make():
        return
    c.coq_properties()
    run_decgen(c, "C19")
    b = c.go_build("c19corr")
    if not b:
        return
    n = 1200 if c.tier == "quick" else 12000
    rc, out = c.run([b, "-out", c.build, "-seed", str(c.seed), "-n", str(n)], timeout=1500)
    if rc != 0:
        c.break_("corr", "c19corr harness run failed", out)
        return
    files = [l.split(" ", 1)[1] for l in out.splitlines() if l.startswith("CASEFILE ")]
    c.eval_cases(files, name="admin correspondence")
