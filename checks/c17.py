"""C17 — partitioners keep their contract and the producer honours their choice."""
from decgen_tie import run_decgen


def run(c):
    c.rule = ("(a) direct Partition() calls: every constructor/option combination (hash, reference, custom hasher, "
              "NewCustomPartitioner with AbsFirst / custom hash function / custom fallback incl. nested and nil) x keys (nil, empty, "
              "encode error, searched keys with FNV-1a hash 0x80000000 / 0 / 0xffffffff / 0x7fffffff, negative-hash keys, random) x "
              "n in {1,2,3,7,100,2^31-1,random,<=0}; round-robin runs of >= n calls; (b) partitionMessage through an in-package shim over a "
              "real client fed by a mock broker: non-contiguous partition ids, any leaderless subset, unknown/empty topics, scripted user "
              "partitioners returning -1, n, errors; (c) real AsyncProducer against a mock broker. Non-trivial: >= 2 calls / a known topic "
              "with >= 1 partition; distinct = distinct (input, observation) JSON")
    c.trust("correspondence harness go/harness/cmd/c17corr + shim go/shims/verif_c17.go (scripted hashers/partitioners, error-id encoding)")
    c.trust("Coq 8.16.1 kernel + vm_compute (evaluation of the model on the harness cases)")
    c.assume("math/rand is an oracle: rand.Intn(n) returns some r with 0 <= r < n (checked on every observed random choice)")
    c.assume("hash.Hash32 contract: after Reset() and Write(b), Sum32() is a function of b (custom hashers are functions list byte -> uint32 or a Write error)")
    c.assume("the topic producer's circuit breaker is transparent (fresh breaker per routed message in the shim; error ids are not compared in the black-box runs)")
    if not c.coq_make():
        return
    c.coq_properties()
    run_decgen(c, "C17")
    b = c.go_build("c17corr")
    if not b:
        return
    n = 800 if c.tier == "quick" else 8000
    argv = [b, "-out", c.build, "-seed", str(c.seed), "-n", str(n)]
    if c.replay:
        argv += ["-replay", c.replay]
    rc, out = c.run(argv, timeout=1500)
    if rc != 0:
        c.break_("corr", "c17corr harness run failed", out)
        return
    files = [l.split(" ", 1)[1] for l in out.splitlines() if l.startswith("CASEFILE ")]
    c.eval_cases(files, name="partitioner/routing correspondence")
