"""C20 — mocks replay scripted expectations faithfully and report deviations."""
import glob, os


def run(c):
    c.rule = ("random expectation scripts (0-5 expectations x result/checker kinds) x 0-6 messages x partitioner outcomes x "
              "Return.* flags x partition-count configs, async and sync mocks; a case is non-trivial when it has at least one "
              "message and one expectation; distinct = distinct (script, observation) JSON")
    c.trust("correspondence harness go/harness/cmd/c20corr (scripted partitioner/checkers, error-id encoding, report classification)")
    c.trust("Coq 8.16.1 kernel + vm_compute (evaluation of the model on the harness cases)")
    c.assume("partitioner and checker are user code: modelled as scripted oracles carried by the message / expectation")
    c.assume("global order between Successes(), Errors() and reporter calls is not observable: compared per stream")
    if not c.coq_make():
        return
    c.coq_properties()
    b = c.go_build("c20corr")
    if not b:
        return
    n = 400 if c.tier == "quick" else 6000
    rc, out = c.run([b, "-out", c.build, "-seed", str(c.seed), "-n", str(n)], timeout=1200)
    if rc != 0:
        c.break_("corr", "c20corr harness run failed", out)
        return
    files = [l.split(" ", 1)[1] for l in out.splitlines() if l.startswith("CASEFILE ")]
    c.eval_cases(files, name="mocks correspondence")
