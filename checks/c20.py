"""C20 — mocks replay scripted expectations faithfully and report deviations."""
import glob, os


def run(c):
    c.rule = ("three families of generated scripts, each executed on the real mock and re-evaluated on the Coq model: "
              "(async) 0-6 expectations (result x checker kinds x Expect* API variant) x 0-7 messages x partitioner outcomes x Return.* flags x "
              "partition-count configs x 1-2 senders (steered interleavings, a few free-running); "
              "(sync) 0-5 calls mixing SendMessage and SendMessages batches of 0-4 messages against 0-9 expectations, then Close; "
              "(consumer) 5-60 actions on 1-4 registered partitions (+1 unregistered): ExpectConsumePartition / Yield* / drain flags / "
              "ConsumePartition with right, wrong and Any offsets / non-blocking receives / HighWaterMark(s) / Close, AsyncClose, Consumer.Close "
              "in every order / metadata calls. Non-trivial = at least one message and one expectation (producers), at least one "
              "delivery or reporter call (consumer); distinct = distinct (script, observation) JSON")
    c.trust("correspondence harness go/harness/cmd/c20corr (scripted partitioner/checkers, error-id encoding, report classification, "
            "canonical order of map-ordered output: Topics(), HighWaterMarks(), reporter calls inside Consumer.Close)")
    c.trust("Coq 8.16.1 kernel + vm_compute (evaluation of the models on the harness cases)")
    c.assume("partitioner and checker are user code: modelled as scripted oracles carried by the message / expectation")
    c.assume("async mock: global order between Successes(), Errors() and reporter calls is not observable: compared per stream; "
             "with two senders the theorems speak about the arrival order on the input channel (steered by token passing, or read "
             "off the partitioner call log when both senders run freely)")
    c.assume("mock consumer: driven from one goroutine with non-blocking receives and fewer yields per partition than "
             "ChannelBufferSize (a yield beyond the buffer blocks until read: liveness, not modelled); messages drained by Close are "
             "not observable and not compared")
    if not c.coq_make():
        return
    c.coq_properties()
    from decgen_tie import run_decgen
    run_decgen(c, "C20")   # regenerated leaf logic (go/decgen) vs the proved golden coq/Gen/DecC20.v
    b = c.go_build("c20corr")
    if not b:
        return
    n = 500 if c.tier == "quick" else 20000
    rc, out = c.run([b, "-out", c.build, "-seed", str(c.seed), "-n", str(n)], timeout=150 if c.tier == "quick" else 2400)
    if rc != 0:
        c.break_("corr", "c20corr harness run failed", out)
        return
    files = [l.split(" ", 1)[1] for l in out.splitlines() if l.startswith("CASEFILE ")]
    c.eval_cases(files, name="mocks correspondence")
