"""C11 — read-committed consumers never see aborted or control records."""


def run(c):
    c.rule = ("generated transactional logs (1-3 producer ids, 1-5 transactions: overlapping, back to back by one id, aborted then "
              "committed, markers without data, unknown control types; non-transactional batches in between; compaction holes) x both "
              "isolation levels x start offsets at every position (also inside a transaction) x fetch scripts cutting at every batch "
              "boundary (also inside transactions) x aborted-transaction index of a faithful broker in shuffled order, with entries beyond "
              "the fetched range x fetch faults; parse tier (real decoder + real parseResponse) and end-to-end tier (real PartitionConsumer "
              "against a MockBroker). Non-trivial = at least one record delivered; distinct = distinct (scenario, observation) JSON")
    c.trust("correspondence harness go/harness/cmd/c11corr + internal/conslog (transactional log generator with its own ground truth, "
            "aborted-index of the simulated broker, reference filter) and go/shims/consumer_shim.go")
    c.trust("Coq 8.16.1 kernel + vm_compute (evaluation of the model on the harness cases)")
    c.assume("the aborted-transaction index returned with a fetch is complete for the fetched range: every aborted transaction whose span "
             "meets [fetch offset, last returned offset] is listed, none that ended before the fetch offset (checked per step by index_forb "
             "against the index the Coq side scans from the log)")
    c.assume("faithful fetch results as in C03")
    if not c.coq_make(dirs=["Consumer"]):
        return
    c.coq_properties()
    from decgen_tie import run_decgen
    run_decgen(c, "C11")   # regenerated leaf logic (go/decgen) vs the proved golden coq/Gen/DecC11.v
    b = c.go_build("c11corr")
    if not b:
        return
    n, e = (300, 80) if c.tier == "quick" else (6000, 1000)
    rc, out = c.run([b, "-out", c.build, "-seed", str(c.seed), "-n", str(n), "-e2e", str(e)], timeout=2400)
    if rc != 0:
        c.break_("corr", "c11corr harness run failed", out)
        return
    files = [l.split(" ", 1)[1] for l in out.splitlines() if l.startswith("CASEFILE ")]
    c.eval_cases(files, name="read-committed parse + end-to-end correspondence")
