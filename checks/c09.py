"""C09 — wire encoding round-trips. Two parts built by different builders:
   c09_prim (primitives, varints, length/CRC fields, records layer; coq/Wire, Properties/C09a.v)
   c09_fmt  (format language + wiregen over all request/response bodies; coq/WireFmt, Properties/C09b.v)"""
import importlib


def run(c):
    if not c.coq_make(dirs=["Wire", "WireFmt", "C09"]):
        return
    c.coq_properties()
    for part in ("c09_prim", "c09_fmt"):
        try:
            m = importlib.import_module(part)
        except ModuleNotFoundError:
            continue
        m.run_part(c)
