"""C10 part a (builder b-wire1): primitive and records layers — malformed-input stream run on the real decoders in a
memory-capped child process; outcome class per input compared with the model's verdict; the monitor is the property
itself (no panic, no hang, no allocation out of proportion).  The bounds / negativity / limit decisions of the
realDecoder getters are in addition regenerated from the source on every run (decgen group C10, coq/Gen/DecC10.v,
tied to the hand model by coq/Wire/TieProofs.v)."""
from decgen_tie import run_decgen


def run_part(c):
    c.rule = (c.rule + " | " if c.rule else "") + (
        "prim: from valid encodings of put-call scripts: every truncation, a bit flip at every position of the first 64 bytes, "
        "every length/count field set to -1, -2, 0, max, remainder, remainder+1 (int32/int16/varint/uvarint forms, non-canonical "
        "and overflowing varints, wrong CRCs), plus random bytes against random getter scripts at random offsets; decoded in a "
        "child process under ulimit -v with a 10 s timeout; non-trivial = input longer than one byte; distinct = distinct (input, script) | "
        "records: valid batches (all codecs) / message sets (compressed wrappers) / records, then every truncation, bit flips over the "
        "first 64 bytes as they are and with the CRC recomputed, deeper flips inside compressed payloads with the CRC recomputed, batch "
        "length / record count / header count / message length / key and value lengths set to -1, -2, 0, max, remainder, remainder+1, "
        "payloads that decompress to nothing with a positive record count, control records, response / request headers, random bytes")
    c.trust("harness go/harness/cmd/c10prim + shims go/shims/wire1_prim.go, wire1_records.go; child-process classification (died under ulimit -v = allocation, "
            "TotalAlloc delta > 64 MiB = allocation, recovered panic, 10 s timeout = hang)")
    c.trust("Coq 8.16.1 kernel + vm_compute (evaluation of the model on the harness cases)")
    c.assume("64-bit platform (Go int = int64); slices handed to realDecoder have capacity = length")
    run_decgen(c, "C10")   # regenerated getter decisions (go/decgen) vs the proved golden coq/Gen/DecC10.v
    b = c.go_build("c10prim")
    if not b:
        return
    args = ["-n", "16", "-nb", "12", "-nrec", "8"] if c.tier == "quick" else ["-n", "120", "-nb", "0", "-nrec", "40", "-allbits"]
    rc, out = c.run([b, "-out", c.build, "-seed", str(c.seed)] + args, timeout=2400)
    if rc != 0:
        c.break_("corr", "c10prim harness run failed", out)
        return
    for l in out.splitlines():
        if l.startswith("OBSERVATION codec-alloc "):
            c.extra["codec_alloc_observations"] = int(l.split()[-1])
    c.assume("allocation inside the external codec libraries (a damaged snappy / zstd / lz4 / gzip frame header can announce a huge output) is "
             "exempt, as the property says: the child first runs the codec alone on the payloads the decode can hand to it; inputs on which the "
             "codec by itself exhausts the memory cap are counted as observations (evidence: codec_alloc_observations), and the codec's share is "
             "subtracted from the decode's allocation before the 64 MiB test")
    files = [l.split(" ", 1)[1] for l in out.splitlines() if l.startswith("CASEFILE ")]
    c.eval_cases(files, name="primitive layer malformed-input correspondence")
