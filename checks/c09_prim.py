"""C09 part a (builder b-wire1): primitive and records layers — correspondence of coq/Wire/* with the Go code
(scripts of put/get calls through encode()/realDecoder, CRC, later record batches / message sets) and the direct
round-trip / sizing monitor."""


def run_part(c):
    c.rule = (c.rule + " | " if c.rule else "") + (
        "prim: scripts of put-calls (boundary corpus of every integer/varint/length primitive, nil/empty/long collections, "
        "strings at the length limits, nested length / varint-length (stale initial lengths) / CRC frames + random scripts) "
        "encoded by encode() and decoded back by the mirror get-calls at offset 0 or between junk; CRC of random buffers; "
        "a case is non-trivial when its encoding has more than one byte; distinct = distinct (script, observation) JSON")
    c.trust("harness go/harness/cmd/c09prim + shim go/shims/wire1_prim.go (script interpreter over packetEncoder/realDecoder, error-id mapping)")
    c.trust("Coq 8.16.1 kernel + vm_compute (evaluation of the model on the harness cases)")
    c.assume("64-bit platform (Go int = int64); slices handed to realDecoder have capacity = length")
    c.assume("collections shorter than 2^31 (the prepEncoder's math.MaxInt32 checks are outside the model)")
    b = c.go_build("c09prim")
    if not b:
        return
    n = 300 if c.tier == "quick" else 6000
    rc, out = c.run([b, "-out", c.build, "-seed", str(c.seed), "-n", str(n)], timeout=1200)
    if rc != 0:
        c.break_("corr", "c09prim harness run failed", out)
        return
    files = [l.split(" ", 1)[1] for l in out.splitlines() if l.startswith("CASEFILE ")]
    c.eval_cases(files, name="primitive layer correspondence")
