"""C09 part a (builder b-wire1): primitive and records layers — correspondence of coq/Wire/* with the Go code
(scripts of put/get calls through encode()/realDecoder, CRC, later record batches / message sets) and the direct
round-trip / sizing monitor.  The realDecoder getters' decisions are also regenerated from the source (decgen group C10,
tied to coq/Wire/Prim.v by coq/Wire/TieProofs.v)."""
from decgen_tie import run_decgen


def run_part(c):
    c.rule = (c.rule + " | " if c.rule else "") + (
        "prim: scripts of put-calls (boundary corpus of every integer/varint/length primitive, nil/empty/long collections, "
        "strings at the length limits, nested length / varint-length (stale initial lengths) / CRC frames + random scripts) "
        "encoded by encode() and decoded back by the mirror get-calls at offset 0 or between junk; CRC of random buffers; "
        "a case is non-trivial when its encoding has more than one byte; distinct = distinct (script, observation) JSON | "
        "records: generated Record / recordsArray / RecordBatch (0-5 records, headers, nil/empty/large keys and values, all five "
        "codecs, invalid versions/codecs/timestamps) / MessageSet (v0/v1 messages, compressed wrapper messages nested up to 2) / "
        "Records union / ControlRecord / request header, encoded by sarama and decoded back (also embedded after junk); "
        "FetchResponseBlock (versions 0-11, 0-4 batches or one legacy set, aborted transactions) through encode -> decode -> re-encode -> decode; compressed "
        "payloads compared through the decompressed structure")
    c.trust("harness go/harness/cmd/c09prim + shims go/shims/wire1_prim.go, wire1_records.go (script interpreter over packetEncoder/realDecoder, "
            "value printers, error-id mapping, table of the compress/decompress calls located by a framing walk)")
    c.assume("compression codecs (gzip, snappy, lz4, zstd) are not modelled: Section variables with hypothesis decompress (compress x) = Some x; "
             "the correspondence feeds the model the codec results sarama's compress/decompress computed for the case")
    c.trust("Coq 8.16.1 kernel + vm_compute (evaluation of the model on the harness cases)")
    c.assume("64-bit platform (Go int = int64); slices handed to realDecoder have capacity = length")
    c.assume("collections shorter than 2^31 (the prepEncoder's math.MaxInt32 checks are outside the model)")
    run_decgen(c, "C10")   # regenerated getter decisions (go/decgen) vs the proved golden coq/Gen/DecC10.v
    b = c.go_build("c09prim")
    if not b:
        return
    n = 240 if c.tier == "quick" else 1500
    rc, out = c.run([b, "-out", c.build, "-seed", str(c.seed), "-n", str(n)], timeout=1200)
    if rc != 0:
        c.break_("corr", "c09prim harness run failed", out)
        return
    files = [l.split(" ", 1)[1] for l in out.splitlines() if l.startswith("CASEFILE ")]
    c.eval_cases(files, name="primitive layer correspondence")
