"""C02 — per-partition submission order survives retries (dedicated ordering model coq/C02 + producer actor model coq/Producer)."""
import json
import os

RULE = ("fault-script scenarios on the real (non-idempotent) AsyncProducer against the cluster simulator, every message numbered in "
        "submission order: fixed corpus (one witness per window + the Retry.Max=0 defect) + seeded random scenarios: {1,2} brokers x {1,2,3} "
        "partitions (most messages on one hot partition) x Retry.Max {0,1,2,3} x flush {immediate, Messages=2} x Flush.MaxMessages {0,2} x "
        "ChannelBufferSize {0,1,256} x fault scripts of length <= 4 (thorough: <= 30, up to 40 messages) over {ok, retriable, "
        "retriable-after-append, fatal, drop before/after append, missing block, leader moved} x metadata failures; a quarter to a half of the "
        "scenarios are STEERED (a goroutine is held at a hook point until a condition was observed) into the windows named by the property: "
        "w1 fresh input between a bounce and its chaser, w2 between levels of flushRetryBuffers, w3 after `abandoned` was closed (Retry.Max=0), "
        "w4 leader move while a chaser is in flight, w5 bounded buffer overflowing while a request is in flight (waitForSpace), w6 several partitions "
        "sharing one broker worker with one partition's chaser queued between another partition's bounced and fresh messages. "
        "A scenario is non-trivial when a request is faulted or two messages share a partition. A case = all per-goroutine hook logs of one run: "
        "(1) replayed through the actor step functions of coq/Producer/Actors.v (local trace validation against the code), (2) every logged "
        "partition-worker and broker-worker step re-run on the dedicated ordering model coq/C02/Model.v from the abstraction of the actor state "
        "(lockstep: same decision, same forwarded/bounced messages in order, same successes and offsets; one outstanding set per worker). "
        "Monitor (independent of the models): per partition, first copies in the cluster log appear in submission order and success offsets "
        "increase with submission index")

PROPOSED = os.path.join(os.path.dirname(os.path.abspath(__file__)), "notes", "C02_known_findings.json")


def run(c):
    c.rule = RULE
    c.trust("Coq 8.16.1 kernel + vm_compute (replay of the hook logs through Producer/Actors.v and lockstep with C02/Model.v)")
    c.trust("Go harness go/harness/internal/c02x (scenario generator, steering runner, log-order monitor) on top of go/harness/internal/cluster "
            "(mock-broker cluster simulator, hook observer, segmentation of per-goroutine logs) and the in-package shims go/shims/producer_*.go")
    c.trust("atomicity abstraction (DESIGN section 3): one handler invocation of a producer goroutine is one atomic step; channels are FIFO; "
            "the bridge and response channels are unbuffered, so a broker worker has one outstanding produce set (checked on every logged run: "
            "lockstep code 146)")
    c.assume("non-idempotent producer; one submitting goroutine per partition (the property's precondition); Return.Successes/Errors enabled")
    c.assume("the model is the projection of the producer to ONE partition: other partitions sharing a broker worker act on it only through "
             "steps the model has (connection error on any request, flush timing, overflow, leader choice)")
    # the proposed known finding (checks/notes/C02_known_findings.json) counts until the coordinator has merged it into KNOWN_FINDINGS.json
    orig_known = c.known
    def known():
        ks = orig_known()
        try:
            for k in json.load(open(PROPOSED)).get("findings", []):
                if k.get("property") == c.pid and not any(x.get("signature") == k.get("signature") for x in ks):
                    ks.append(k)
        except (OSError, ValueError):
            pass
        return ks
    c.known = known
    # only C02/*.v + Properties/C02.v are targets; the Producer files they import (Msg, Actors, Corr, Compose) are built as
    # dependencies, so another builder's unfinished Producer file cannot break this check
    if not c.coq_make(dirs=["C02"]):
        return
    c.coq_properties()
    b = c.go_build("c02corr")
    if not b:
        return
    n = 250 if c.tier == "quick" else 4000
    argv = [b, "-out", c.build, "-seed", str(c.seed), "-n", str(n), "-tier", c.tier]
    if c.replay:
        argv += ["-replay", c.replay]
    rc, out = c.run(argv, timeout=3000)
    if rc != 0:
        c.break_("corr", "c02corr harness run failed", out)
        return
    files = [l.split(" ", 1)[1] for l in out.splitlines() if l.startswith("CASEFILE ")]
    c.eval_cases(files, name="producer local trace validation + ordering-model lockstep (c02corr)")
    for l in out.splitlines():
        if l.startswith("RAN ") or l.startswith("FINDINGS "):
            c.extra.setdefault("harness", []).append(l)
