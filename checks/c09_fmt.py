"""C09, format-language layer: every *_request.go / *_response.go body (go/wiregen -> coq/WireFmt)."""
import json, os


def wiregen(c):
    """Regenerate GenFormats.v + wiregen.json from the tree under test. Returns the parsed JSON or None."""
    import vlib
    rc, out = c.go_tool("wiregen", ["-repo", vlib.REPO, "-out", c.build], timeout=600)
    jpath = os.path.join(c.build, "wiregen.json")
    if rc != 0 or not os.path.exists(jpath):
        c.break_("gen", "go/wiregen failed on the source tree (encode/decode methods no longer parse/type-check)", out)
        return None
    j = json.load(open(jpath))
    cov = j["coverage"]
    c.extra["wiregen_counts"] = j["counts"]
    c.extra["wiregen_prim_guards"] = j["cfg"]
    c.extra["wiregen_coverage"] = [
        {"method": m["Method"], "status": m["Status"], "why": m["Reason"][:300]} for m in cov if m["Status"] != "regular"]
    c.extra["wiregen_regular_methods"] = sorted(m["Method"] for m in cov if m["Status"] == "regular")
    bad = [m for m in cov if m["Status"] == "untranslatable"]
    for m in bad:
        c.break_("gen", "wiregen: %s is no longer translatable and is not in go/wiregen/irregular.json" % m["Method"], m["Reason"])
    c.oblige("wiregen: every encode/decode method is regular, records-layer or hand-listed (%d methods)" % len(cov), not bad)
    if bad:
        # drop the duplicate generic entry, the specific ones are there
        c.broken = [b for b in c.broken if not b["name"].startswith("wiregen: every encode/decode")]
    ok, _ = c.gen_coq(os.path.join(c.build, "GenFormats.v"), "GenFormats.v (formats read off the encode/decode methods)")
    return j if ok else None


def run_part(c):
    c.rule += (" | format layer: every protocol body x every version 0..max x generated values (zero, maximal, negative, "
               "empty-non-nil, random; nested collections of 0-3 elements) dumped as generic trees; a case is non-trivial "
               "when the value is not all zeros/empties; distinct = distinct (body, version, bytes)")
    c.trust("go/wiregen (what it claims the encode/decode methods say; cross-checked by the differential run: the format "
            "interpreter must reproduce the implementation's bytes and decoded trees)")
    c.trust("go/harness/cmd/c09fmt + internal/wire2 (reflection dumper, value generator)")
    c.assume("format layer: bodies with a records section (FetchResponse, ProduceRequest) belong to the records part")
    c.assume("format layer: irregular methods (go/wiregen/irregular.json) are covered by the Go-side round-trip monitor only")
    j = wiregen(c)
    if j is None:
        return
    c.tie_file("Tie/C09Gen.v")
    b = c.go_build("c09fmt")
    if not b:
        return
    n = 6 if c.tier == "quick" else 120
    rc, out = c.run([b, "-out", c.build, "-seed", str(c.seed), "-n", str(n), "-table", os.path.join(c.build, "wiregen.json")], timeout=1800)
    if rc != 0:
        c.break_("corr", "c09fmt harness run failed", out)
        return
    for l in out.splitlines():
        if l.startswith("MISSING-CONSTRUCTOR"):
            c.break_("corr", "c09fmt: no constructor for body %s in go/shims/wire2_shim.go (new protocol body?)" % l.split()[1])
        if l.startswith("STATS"):
            c.extra["c09fmt_stats"] = l[6:]
    files = [l.split(" ", 1)[1] for l in out.splitlines() if l.startswith("CASEFILE ")]
    c.eval_cases(files, name="format layer: bytes and decoded trees of every body", timeout=2400)
