"""C01 — every produced message gets exactly one terminal outcome (async producer actor model, coq/Producer)."""
import os

RULE = ("fault-script scenarios on the real AsyncProducer/SyncProducer against the cluster simulator (go/harness/internal/cluster): "
        "corpus of fixed witnesses + seeded random scenarios: {1,2} brokers x {1,2} partitions x Retry.Max {0,1,2} x flush {immediate, Messages=2} x "
        "idempotent {off,on} x MaxMessages/MaxMessageBytes limits x fault scripts of length <= 3 (thorough: <= 30, up to 40 messages) over "
        "{ok, retriable, retriable-after-append, fatal, drop before/after append, missing block, leader moved, duplicate} (one verdict per request, one faulted partition, or a per-partition mix inside one response) x metadata failures x "
        "two-level retry jumps with the leader lost at the intermediate flush level x steered schedules (hold pp.newHWM / bp.response / pp.flush.level / bridge.send / retryBatch.start while a second wave is submitted); "
        "a scenario is non-trivial when at least one request is faulted or two messages share a partition; a case = all per-goroutine hook logs "
        "of one run, replayed step by step through the actor step functions (local trace validation)")


def run_common(c, cmd, n_quick, n_thorough):
    b = c.go_build(cmd)
    if not b:
        return
    n = n_quick if c.tier == "quick" else n_thorough
    argv = [b, "-out", c.build, "-seed", str(c.seed), "-n", str(n), "-tier", c.tier]
    if c.replay:
        argv += ["-replay", c.replay]
    rc, out = c.run(argv, timeout=3000)
    if rc != 0:
        c.break_("corr", "%s harness run failed" % cmd, out)
        return
    files = [l.split(" ", 1)[1] for l in out.splitlines() if l.startswith("CASEFILE ")]
    c.eval_cases(files, name="producer local trace validation (%s)" % cmd)
    for l in out.splitlines():
        if l.startswith("RAN "):
            c.extra.setdefault("harness", []).append(l)


def run(c):
    c.rule = RULE
    c.trust("Coq 8.16.1 kernel + vm_compute (replay of the hook logs through the actor step functions)")
    c.trust("Go harness go/harness/internal/cluster (mock-broker cluster simulator, hook observer, segmentation of per-goroutine logs into steps) "
            "and in-package shims go/shims/producer_*.go (read-only decoding of hook arguments)")
    c.trust("atomicity abstraction: one handler invocation of a producer goroutine is one atomic step of the composition (DESIGN section 3); "
            "channels are unbounded FIFO queues")
    c.assume("Producer.Return.Successes and Return.Errors are enabled (precondition of the property)")
    c.assume("the application does not send on Input() after calling AsyncClose/Close")
    c.assume("partitioner, encoders and interceptors are user code: modelled as oracles carried by the message")
    if not c.coq_make(dirs=["Producer"]):
        return
    c.coq_properties()
    from decgen_tie import run_decgen
    run_decgen(c, "C01")     # retryMessage's budget test, regenerated from the tree under test (tied to the model by Producer/DecTie.v)
    run_common(c, "c01corr", 600, 6000)
