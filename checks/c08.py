"""C08 — every balance strategy (range, round-robin, sticky) yields a valid partition assignment."""
import json, os, re, shutil, subprocess

HOOKS = [  # (patch, marker of its presence in balance_strategy.go)
    ("hooks/c08_sticky_iter.patch", 'verifPoint("sticky.iter.prepop.members"'),
    ("hooks/c08_sticky_iter2.patch", 'verifPoint("sticky.revert"'),
]


def hooked_overlay(c, vlib):
    """The sticky.iter.* / sticky.pick call sites tell the harness the map iteration orders of a run, sticky.revert whether the
    revert branch of balance() ran. Patches whose call sites the tree under test does not contain yet are applied to a copy of
    balance_strategy.go in the build directory, and that copy replaces the file through the build overlay (nothing is written
    to the tree)."""
    src = os.path.join(vlib.REPO, "balance_strategy.go")
    text = open(src).read()
    missing = [(p, m) for p, m in HOOKS if m not in text]
    c.revhook = True
    if not missing:
        c.note("sticky hooks present in the tree")
        return True
    dst = os.path.join(c.build, "balance_strategy.go")
    shutil.copy(src, dst)
    c.revhook = True
    for patch, mark in missing:
        before = open(dst).read()
        p = subprocess.run(["patch", "-s", "-p1", "--no-backup-if-mismatch", dst, os.path.join(vlib.VERIF, patch)],
                           stdout=subprocess.PIPE, stderr=subprocess.STDOUT, text=True)
        if p.returncode != 0 or mark not in open(dst).read():
            c.break_("build", "%s no longer applies to balance_strategy.go (the sticky code around its call sites changed)" % patch, p.stdout)
            if patch.endswith("iter2.patch"):
                # the revert site changed: go on without observing the revert decision, the monitors may still find a failing input
                open(dst, "w").write(before)
                for junk in (dst + ".rej", dst + ".orig"):
                    if os.path.exists(junk):
                        os.remove(junk)
                c.revhook = False
                continue
            return False
        c.assume("%s call sites are not in the tree under test: applied to a build-time copy of balance_strategy.go" % patch)
    orig = c.overlay

    def overlay():
        path = orig()
        o = json.load(open(path))
        o["Replace"][src] = dst
        json.dump(o, open(path, "w"), indent=1)
        return path
    c.overlay = overlay
    c.note("sticky hooks applied through the build overlay: " + ", ".join(p for p, _ in missing))
    return True


def run_harness(c, vlib, binary, extra=()):
    n = 300 if c.tier == "quick" else 3000
    args = [binary, "-out", c.build, "-seed", str(c.seed), "-n", str(n)] + list(extra)
    if c.replay:
        args += ["-replay", os.path.abspath(c.replay)]
    if not getattr(c, "revhook", True):
        args.append("-norevhook")
    if c.tier != "quick":
        args.append("-thorough")
    rc, out = c.run(args, timeout=2400)
    if rc != 0:
        c.break_("corr", os.path.basename(binary) + " harness run failed", out)
        return None
    for l in out.splitlines():
        if l.startswith("INFO "):
            c.note(l)
            c.extra.setdefault("harness_info", []).append(l[5:])
    return [l.split(" ", 1)[1] for l in out.splitlines() if l.startswith("CASEFILE ")]


def run(c):
    import vlib
    c.rule = ("range / round-robin: small scope (members<=3 x topics<=2 x partitions<=4 x all subscription subsets, sampled in quick) + random groups "
              "(<=50 members, <=20 topics, <=200 partitions); coreFn boundaries for all n<=300, m<=64; sticky: the same + chains of <=6 rebalances "
              "(join/leave/resubscribe/partition add-drop/topic create-delete) with each plan fed back through the real user-data encoding, "
              "honest, stale (members keeping old data) and forged (two owners, arbitrary generations, unknown topics, V0 layout); "
              "non-trivial = at least 2 members or 2 partitions; distinct = distinct (input, observation) JSON")
    c.trust("correspondence harness go/harness/cmd/c08corr + internal/balgen (generators, canonical plan order, oracle reconstruction from the sticky.iter.* reports)")
    c.trust("go/shims/c08_shim.go (in-package access: coreFn, user-data decoder, observer collecting the iteration orders)")
    c.trust("Coq 8.16.1 kernel + vm_compute (evaluation of the models on the harness cases, boundary table chunks)")
    c.trust("Flocq 4.1.0 as the definition of IEEE-754 binary64 arithmetic (tied to Go's float64 by the pointwise boundary table)")
    c.assume("member ids and topic names are ASCII (byte-wise = rune-wise)")
    c.assume("round-robin: every topic of the map has a subscriber (consumerGroup.balance passes only such maps; otherwise the real loop does not terminate)")
    c.assume("sticky: termination of the `for {}` reassignment loop is not proved; the model runs it on fuel and validity holds for every fuel")
    if not c.coq_make():
        return
    c.coq_properties()
    if not hooked_overlay(c, vlib):
        return
    b = c.go_build("c08corr")
    if not b:
        return
    files = run_harness(c, vlib, b)
    if files is None:
        return
    c.eval_cases(files, name="balance strategies correspondence")
