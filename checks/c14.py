"""C14 — each broker call gets its own response or an error."""
import glob
import os

from decgen_tie import run_decgen


def run(c):
    c.rule = ("a real sarama.Broker against a scripted raw TCP server: 1-10 calls (Heartbeat / ApiVersions / "
              "ListPartitionReassignments (response header v1) / Produce without response / Close) from 1-8 goroutines, "
              "MaxOpenRequests 1-3, start correlation id incl. the int32 wrap, scripts of <= 6 reply behaviours (correct, delayed, "
              "wrong id, swapped, bad length, lying length, length = MaxResponseSize, truncated then close, close, silence, "
              "non-empty tagged field) x what follows the script (ok / silence / close) x steering (free, jitter, receiver held "
              "at a dequeue, sender held between write and enqueue); a case is non-trivial when at least two calls expect a "
              "response; distinct = distinct (case, observation) JSON")
    c.trust("correspondence harness go/harness/cmd/c14corr (scripted TCP server, error-id mapping, goroutine->call attribution, "
            "placement of calls that log no event: failed before the write / ErrNotConnected)")
    c.trust("hook call sites hooks/c14_broker.patch (verifPoint lines in broker.go send/responseReceiver/Close)")
    c.trust("Coq 8.16.1 kernel + vm_compute (replay of the logged events through the model's step function)")
    c.assume("a point is logged after its action: the lock holders' events and the receiver's events are each totally ordered, "
             "their interleaving is chosen by the replay (greedy; the two sides never disable each other)")
    c.assume("deadlines are events: the server's silence is the end of its byte stream; TCP delivers the bytes in order")
    if not c.coq_make():
        return
    c.coq_properties()
    # the receiver's decisions (getHeaderLength, responseHeader.decode, one receiver iteration) regenerated from the source
    run_decgen(c, "C14")
    b = c.go_build("c14corr")
    if not b:
        return
    n = 420 if c.tier == "quick" else 20000
    cmd = [b, "-out", c.build, "-seed", str(c.seed), "-n", str(n)] + os.environ.get("C14CORR_SELFTEST", "").split()
    rc, out = c.run(cmd, timeout=3000)
    files = [l.split(" ", 1)[1] for l in out.splitlines() if l.startswith("CASEFILE ")]
    if rc != 0 and not files:
        # the harness died before it completed a single shard (sandbox noise: resources under load): one more attempt;
        # the first failure stays in the log
        c.note("c14corr exited with rc %d before producing a case file; output of the failed attempt:\n%s\n-- running it once more" % (rc, out[-4000:]))
        c.extra["harness_rerun"] = {"rc": rc, "tail": out[-1500:]}
        for f in glob.glob(os.path.join(c.build, "cases_c14_*")):
            os.remove(f)
        rc, out = c.run(cmd, timeout=3000)
        files = [l.split(" ", 1)[1] for l in out.splitlines() if l.startswith("CASEFILE ")]
    # a case whose infrastructure could not be set up after all retries is not an observation of the code: it is left out of
    # the case files and reported by name as a broken tie; all other cases are kept
    for l in out.splitlines():
        if l.startswith("HARNESSFAIL "):
            c.break_("corr", "c14corr: " + l[len("HARNESSFAIL "):][:300], l)
    if rc != 0:
        # the harness process died: still evaluate every shard it had completed
        c.break_("corr", "c14corr harness run failed (rc %d) after %d completed shard(s)" % (rc, len(files)), out[-4000:])
        files = [f for f in files if os.path.exists(f) and os.path.exists(f[:-2] + ".jsonl")]
        if not files:
            return
    for l in out.splitlines():
        if l.startswith("C14 cases="):
            c.note(l)
            nh = int(l.split("nohooks=")[1].split()[0])
            if "panics=" in l and int(l.split("panics=")[1].split()[0]):
                c.break_("corr", "a sarama goroutine panicked during the run (%s)" % l.strip(), out[-2000:])
            if nh:
                c.break_("tie", "broker.go logs no verifPoint events in %d cases (hook lines missing from broker.go of the tree?)" % nh, l)
    c.eval_cases(files, name="broker connection trace validation")
