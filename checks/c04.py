"""C04 — a reported success identifies exactly where and what was written."""
import json

from decgen_tie import run_decgen


def run(c):
    c.rule = ("three families of cases, each executed on the implementation and re-evaluated on the Coq model: "
              "(build) a real produceSet driven in-package: 1-11 messages over 1-3 partitions of 1-2 topics x payload classes "
              "{nil, empty, 1 B, binary, text, 64-70 KB} for key and value x header lists (nil, empty, 1-4 headers with nil/empty/300 B parts) x "
              "timestamps (absent, whole ms, sub-ms part, EARLIER than the first of the batch, the epoch, monotonic reading, other "
              "location) x version generations {0.8.2, 0.10, 0.11, 2.1} (and 0.9, 0.10.2, 1.0, 2.3) x codecs {none, gzip(+levels), snappy, lz4, "
              "zstd} x idempotent ids and sequence numbers (incl. out-of-sequence and failing encoders); newProduceSet/add/buildRequest, the "
              "request encoded by the real encoder and decoded by decodeRequest as the mock broker does, handleSuccess run on the set with "
              "base offsets up to 2^62 and block log-append times, the same set built and encoded a second time (a re-sent batch; record bodies at the "
              "63|64 and 8191|8192 byte marks); compared: add results, request version, decoded records of every partition (all fields), "
              "partitionSet.msgs, success offsets. (e2e) a real AsyncProducer / SyncProducer (SendMessage, SendMessages) against 1-2 scripted "
              "mock brokers with per-partition logs starting at arbitrary end offsets, leaderless lower-numbered partitions, a scripted "
              "non-consistency / per-message-consistency partitioner, fault scripts (retriable with and without append, fatal, dropped "
              "connection, idempotent duplicate answered with the original base; producer id / epoch / sequence rules enforced; failing Value "
              "encoders that bump the epoch; every request the mock broker cannot decode is recorded), metadata changing after the first fault; compared: "
              "every success (Partition, Offset) against the model's routing and the model's log of the decoded requests; first in the "
              "e2e corpus: the steered replay of the chaser-accepted witness. (recv) every message a broker worker received during "
              "the e2e scenarios (hook bp.recv: flags, closing, currentRetries entry) and what the worker did with it (consumed / bounced / "
              "went on to buffer.add / add refused it) against the model's recv_decision. "
              "Non-trivial = at least one accepted message (build) / one success (e2e) / a (flags, state, outcome) class not seen before "
              "(recv); distinct = distinct case JSON")
    c.trust("correspondence harness go/harness/cmd/c04corr + go/shims/c04_shim.go (generators, printing of sarama values as Coq terms, "
            "the scripted mock cluster, (bgen n seed) notation for long payloads after checking the bytes)")
    c.trust("Coq 8.16.1 kernel + vm_compute (evaluation of the model on the harness cases)")
    c.trust("coq/Wire/Records.v value types and message-set encoder model (b-wire1, property C09a) used for the payload of a compressed wrapper")
    c.trust("coq/Producer (b-producer, property C01): composition model and Markers.broker_side_data_only, used by c04_nothing_added_full")
    c.assume("compression libraries are external: decompress (compress x) = x is observed by the correspondence on every case, not proved")
    c.assume("the partitioner and the Key/Value encoders are user code: scripted oracles; time.Now() for messages without a timestamp "
             "is an oracle read off the decoded request and bounded by the wall clock around the call")
    c.assume("the broker model appends what it decodes at base + OffsetDelta (record batches), at consecutive offsets (plain message sets, "
             "magic-0 wrappers) or at base + relative offset (magic-1 wrappers, KIP-31); RequiredAcks = NoResponse (no offset is ever "
             "known) and ErrDuplicateSequenceNumber answers (success without an offset) are outside the property's hypothesis")
    if c.replay:
        # a replay file names the seed and tier of the run that found the failing input: the generators are a function of
        # the seed (the e2e corpus, incl. the steered chaser witness, runs first whatever the seed), so that run is repeated
        try:
            r = json.load(open(c.replay))
            c.seed, c.tier = int(r.get("seed", c.seed)), r.get("tier", c.tier)
        except Exception:
            pass
    if not c.coq_make(dirs=["C04"]):
        return
    c.coq_properties()
    # the decision slices of topicProducer.partitionMessage, regenerated from the source (c04_tie_partition_pick/_source)
    run_decgen(c, "C17")
    b = c.go_build("c04corr")
    if not b:
        return
    n = 600 if c.tier == "quick" else 12000
    rc, out = c.run([b, "-out", c.build, "-seed", str(c.seed), "-n", str(n)], timeout=170 if c.tier == "quick" else 3000)
    if rc != 0:
        c.break_("corr", "c04corr harness run failed", out)
        return
    files = [l.split(" ", 1)[1] for l in out.splitlines() if l.startswith("CASEFILE ")]
    kinds = set(f.rsplit("/", 1)[-1].split("_")[1] for f in files)
    if not {"build", "e2e", "recv"} <= kinds:
        c.break_("corr", "c04corr produced no case files for some family (got: %s)" % sorted(kinds), out)
        return
    c.eval_cases(files, name="producer request / success correspondence")
